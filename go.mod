module verif

go 1.25

require (
	github.com/SaveTheRbtz/mph v0.1.1-0.20240117162131-4166ec7869bc
	github.com/bits-and-blooms/bitset v1.24.4
	github.com/c-bata/go-prompt v0.2.6
	github.com/dave/dst v0.27.3
	github.com/fxamacker/cbor/v2 v2.9.2-0.20260331174317-a78e92ec038e
	github.com/goccy/go-yaml v1.18.0
	github.com/google/pprof v0.0.0-20250630185457-6e76a2b096b5
	github.com/itchyny/gojq v0.12.17
	github.com/k0kubun/pp/v3 v3.5.0
	github.com/kodova/html-to-markdown v1.0.1
	github.com/kr/pretty v0.3.1
	github.com/leanovate/gopter v0.2.11
	github.com/logrusorgru/aurora/v4 v4.0.0
	github.com/onflow/atree v0.16.1
	github.com/onflow/crypto v0.25.3
	github.com/onflow/fixed-point v0.1.1
	github.com/rivo/uniseg v0.4.7
	github.com/schollz/progressbar/v3 v3.18.0
	github.com/stretchr/testify v1.11.1
	github.com/texttheater/golang-levenshtein/levenshtein v0.0.0-20200805054039-cae8b0eaed6c
	github.com/tidwall/pretty v1.2.1
	github.com/turbolent/prettier v0.0.0-20220320183459-661cc755135d
	go.opentelemetry.io/otel v1.38.0
	go.uber.org/goleak v1.3.0
	golang.org/x/mod v0.30.0
	golang.org/x/text v0.31.0
	golang.org/x/tools v0.39.0
	golang.org/x/xerrors v0.0.0-20240903120638-7835f813f4da
)

require (
	github.com/davecgh/go-spew v1.1.1 // indirect
	github.com/fxamacker/circlehash v0.3.0 // indirect
	github.com/itchyny/timefmt-go v0.1.6 // indirect
	github.com/klauspost/cpuid/v2 v2.2.0 // indirect
	github.com/kr/text v0.2.0 // indirect
	github.com/mattn/go-colorable v0.1.14 // indirect
	github.com/mattn/go-isatty v0.0.20 // indirect
	github.com/mattn/go-runewidth v0.0.16 // indirect
	github.com/mattn/go-tty v0.0.3 // indirect
	github.com/mitchellh/colorstring v0.0.0-20190213212951-d06e56a500db // indirect
	github.com/niemeyer/pretty v0.0.0-20200227124842-a10e7caefd8e // indirect
	github.com/pkg/term v1.2.0-beta.2 // indirect
	github.com/pmezard/go-difflib v1.0.0 // indirect
	github.com/rogpeppe/go-internal v1.9.0 // indirect
	github.com/x448/float16 v0.8.4 // indirect
	github.com/zeebo/assert v1.3.0 // indirect
	github.com/zeebo/blake3 v0.2.4 // indirect
	golang.org/x/crypto v0.45.0 // indirect
	golang.org/x/exp v0.0.0-20240103183307-be819d1f06fc // indirect
	golang.org/x/sync v0.18.0 // indirect
	golang.org/x/sys v0.38.0 // indirect
	golang.org/x/term v0.37.0 // indirect
	gonum.org/v1/gonum v0.16.0 // indirect
	gopkg.in/check.v1 v1.0.0-20200902074654-038fdea0a05b // indirect
	gopkg.in/yaml.v3 v3.0.1 // indirect
)

require github.com/onflow/cadence v1.0.0
require pgregory.net/rapid v1.3.0

replace github.com/onflow/cadence => /repo
