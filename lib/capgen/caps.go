package capgen

import (
	"fmt"
	"sort"
	"strings"

	"verif/lib/prog"
)

// ---- type universe of the capability histories -------------------------------------

// TypesAccount is the account holding the contract T with the types used by the
// capability histories.
const TypesAccount = 9

// TypesContract declares the value types, the entitlement and a few rendering
// helpers (they only format what the capability API returns).
const TypesContract = `access(all) contract T {
    access(all) entitlement E
    access(all) struct interface I { access(all) fun f(): Int }
    access(all) struct S: I {
        access(all) let v: Int
        init(_ v: Int) { self.v = v }
        access(all) fun f(): Int { return self.v }
        access(E) fun g(): Int { return self.v + 1000 }
    }
    access(all) struct S2 { access(all) let v: Int; init(_ v: Int) { self.v = v } }
    access(all) resource R { access(all) let v: Int; init(_ v: Int) { self.v = v } }
    access(all) fun mkR(_ v: Int): @R { return <- create R(v) }

    access(all) fun bt(_ t: Type): Int {
        if t == Type<&S>() { return 0 }
        if t == Type<&{I}>() { return 1 }
        if t == Type<auth(E) &S>() { return 2 }
        if t == Type<&R>() { return 3 }
        if t == Type<&AnyStruct>() { return 4 }
        if t == Type<&S2>() { return 5 }
        if t == Type<auth(E) &{I}>() { return 6 }
        if t == Type<&AnyResource>() { return 7 }
        if t == Type<&Account>() { return 8 }
        if t == Type<auth(Storage) &Account>() { return 9 }
        return -1
    }
    access(all) fun sc(_ c: &StorageCapabilityController): String {
        return c.capabilityID.toString().concat(" ").concat(self.bt(c.borrowType).toString()).concat(" ")
            .concat(c.target().toString()).concat(" [").concat(c.tag).concat("] ").concat(c.capability.id.toString())
    }
    access(all) fun ac(_ c: &AccountCapabilityController): String {
        return c.capabilityID.toString().concat(" ").concat(self.bt(c.borrowType).toString()).concat(" account [")
            .concat(c.tag).concat("] ").concat(c.capability.id.toString())
    }
}
`

// BT indexes the borrow types.
type BT int

type BTInfo struct {
	Src  string // Cadence source
	Auth string // "", "E", "Storage": the (single-entitlement) authorization
	Ref  string // referenced type: S I R AnyStruct S2 AnyResource Account
	ID   string // type identifier as it appears in events
	Acct bool   // used for account capabilities
}

const tq = "A.0000000000000009.T."

// BTs is the borrow-type universe. The subtype/authorization facts about it are
// written down in refSub/authLE below, independently of cadence's checker.
var BTs = []BTInfo{
	{"&T.S", "", "S", "&" + tq + "S", false},
	{"&{T.I}", "", "I", "&{" + tq + "I}", false},
	{"auth(T.E) &T.S", "E", "S", "auth(" + tq + "E)&" + tq + "S", false},
	{"&T.R", "", "R", "&" + tq + "R", false},
	{"&AnyStruct", "", "AnyStruct", "&AnyStruct", false},
	{"&T.S2", "", "S2", "&" + tq + "S2", false},
	{"auth(T.E) &{T.I}", "E", "I", "auth(" + tq + "E)&{" + tq + "I}", false},
	{"&AnyResource", "", "AnyResource", "&AnyResource", false},
	{"&Account", "", "Account", "&Account", true},
	{"auth(Storage) &Account", "Storage", "Account", "auth(Storage)&Account", true},
}

const (
	nStorageBT = 8
	nBT        = 10
	NPaths     = 3 // /storage/p0..p2
	NPub       = 3 // /public/q0..q2
)

var supertypes = map[string][]string{
	"S":           {"S", "I", "AnyStruct"},
	"I":           {"I", "AnyStruct"},
	"S2":          {"S2", "AnyStruct"},
	"R":           {"R", "AnyResource"},
	"AnyStruct":   {"AnyStruct"},
	"AnyResource": {"AnyResource"},
	"Account":     {"Account", "AnyStruct"},
	"Int":         {"Int", "AnyStruct"},
}

// refSub: referenced type a is a subtype of referenced type b.
func refSub(a, b string) bool {
	for _, s := range supertypes[a] {
		if s == b {
			return true
		}
	}
	return false
}

// authLE: authorization w asks for no more than authorization o grants.
func authLE(w, o string) bool { return w == "" || w == o }

// CanBorrow is the statement's rule between a wanted borrow type and the borrow
// type of a capability or controller.
func CanBorrow(w, o BT) bool {
	return authLE(BTs[w].Auth, BTs[o].Auth) && (refSub(BTs[w].Ref, BTs[o].Ref) || refSub(BTs[o].Ref, BTs[w].Ref))
}

// RefTypeSub: reference type a is a static subtype of reference type b
// (Capability<a> may be handed out as Capability<b>).
func RefTypeSub(a, b BT) bool {
	return authLE(BTs[b].Auth, BTs[a].Auth) && refSub(BTs[a].Ref, BTs[b].Ref)
}

// withAuth returns the borrow type with the referenced type of bt and the given
// authorization (it exists in the universe for every combination that can arise).
func withAuth(bt BT, auth string) BT {
	for i, info := range BTs {
		if info.Ref == BTs[bt].Ref && info.Auth == auth {
			return BT(i)
		}
	}
	panic(fmt.Sprintf("capgen: no borrow type (%q, %s)", auth, BTs[bt].Ref))
}

// ---- model state ----------------------------------------------------------------------

type Ctrl struct {
	Acct   bool
	BT     BT
	Target int
	Tag    string
}

type Stored struct {
	Kind string // "" empty, else S S2 R Int
	V    int
}

// CapRef is a capability value: issuing address, ID (0 = invalid) and the borrow
// type carried by the value.
type CapRef struct {
	Addr int
	ID   uint64
	BT   BT
}

type InboxEntry struct {
	Recipient int
	Cap       CapRef
}

type AcctState struct {
	NextID    uint64
	Ctrls     map[uint64]*Ctrl
	Stored    [NPaths]Stored
	Published [NPub]*CapRef
	Inbox     map[string]InboxEntry
	Kept      []CapRef // /storage/k<i>
}

func (s *AcctState) clone() *AcctState {
	c := &AcctState{NextID: s.NextID, Ctrls: map[uint64]*Ctrl{}, Stored: s.Stored, Inbox: map[string]InboxEntry{}}
	for k, v := range s.Ctrls {
		cp := *v
		c.Ctrls[k] = &cp
	}
	for i, p := range s.Published {
		if p != nil {
			cp := *p
			c.Published[i] = &cp
		}
	}
	for k, v := range s.Inbox {
		c.Inbox[k] = v
	}
	c.Kept = append([]CapRef(nil), s.Kept...)
	return c
}

// CapModel is the controller model of the statement.
type CapModel struct {
	Accts []int
	St    map[int]*AcctState
	NextV int
}

func NewCapModel(accts []int) *CapModel {
	m := &CapModel{Accts: accts, St: map[int]*AcctState{}, NextV: 10}
	for _, a := range accts {
		m.St[a] = &AcctState{Ctrls: map[uint64]*Ctrl{}, Inbox: map[string]InboxEntry{}}
	}
	return m
}

func (m *CapModel) clone() *CapModel {
	c := &CapModel{Accts: m.Accts, St: map[int]*AcctState{}, NextV: m.NextV}
	for a, s := range m.St {
		c.St[a] = s.clone()
	}
	return c
}

// Borrow evaluates the statement's rule for borrow<want>/check<want> on a
// capability value: (succeeds, rendering of what is read through the reference).
func (m *CapModel) Borrow(c CapRef, want BT) (bool, string) {
	if c.ID == 0 {
		return false, ""
	}
	st := m.St[c.Addr]
	if st == nil {
		return false, ""
	}
	ctl := st.Ctrls[c.ID]
	if ctl == nil {
		return false, ""
	}
	if !CanBorrow(want, c.BT) || !CanBorrow(want, ctl.BT) {
		return false, ""
	}
	ref := BTs[want].Ref
	if ctl.Acct {
		if !refSub("Account", ref) {
			return false, ""
		}
		if ref == "Account" {
			return true, fmt.Sprintf("0x%016x", c.Addr)
		}
		return true, "-"
	}
	sv := st.Stored[ctl.Target]
	if sv.Kind == "" || !refSub(sv.Kind, ref) {
		return false, ""
	}
	switch {
	case ref == "AnyStruct" || ref == "AnyResource":
		return true, "-"
	case want == 2:
		return true, fmt.Sprint(sv.V + 1000) // g() needs the entitlement
	default:
		return true, fmt.Sprint(sv.V)
	}
}

// Get is capabilities.get<want>(q) of account b.
func (m *CapModel) Get(b int, q int, want BT) CapRef {
	pub := m.St[b].Published[q]
	invalid := CapRef{Addr: b, ID: 0, BT: want}
	if pub == nil || !CanBorrow(want, pub.BT) {
		return invalid
	}
	st := m.St[pub.Addr]
	if st == nil {
		return invalid
	}
	ctl := st.Ctrls[pub.ID]
	if ctl == nil || !CanBorrow(want, ctl.BT) {
		return invalid
	}
	return CapRef{Addr: pub.Addr, ID: pub.ID, BT: want}
}

// ---- actions ----------------------------------------------------------------------------

// KAction is one capability-related call inside a transaction.
type KAction struct {
	Op   string `json:"op"`
	A    int    `json:"a"`              // acting account (a signer)
	B    int    `json:"b,omitempty"`    // other account: public reads, provider, recipient
	BT   BT     `json:"bt"`             // borrow type argument
	P    int    `json:"p,omitempty"`    // storage path index
	Q    int    `json:"q,omitempty"`    // public path index
	ID   uint64 `json:"id,omitempty"`   // capability ID
	Slot int    `json:"slot,omitempty"` // retained capability slot of A
	Name string `json:"name,omitempty"` // inbox name
	Tag  string `json:"tag,omitempty"`
	Kind string `json:"kind,omitempty"` // value kind for save
	Acct bool   `json:"acct,omitempty"` // account (not storage) controller API
	Stop bool   `json:"stop,omitempty"` // forEachController: stop after the first
	Keep bool   `json:"keep,omitempty"` // retain the obtained capability
}

type KTx struct {
	Actions []KAction `json:"actions"`
	Abort   bool      `json:"abort,omitempty"`
}

// KExpect is the model's prediction for a transaction. Log lines starting with
// "~" form unordered blocks (consecutive "~" lines are compared as multisets);
// a line starting with "?" lists alternatives separated by "|".
type KExpect struct {
	Logs        []string
	Fails       bool
	FailAt      int
	ErrContains string
	Events      []string
	Flags       map[string]bool
}

func spath(p int) string { return fmt.Sprintf("/storage/p%d", p) }
func ppath(q int) string { return fmt.Sprintf("/public/q%d", q) }
func kpath(s int) string { return fmt.Sprintf("/storage/k%d", s) }
func addr(a int) string  { return fmt.Sprintf("0x%016x", a) }
func tf(b bool) string {
	if b {
		return "t"
	}
	return "f"
}

func (m *CapModel) scLine(a int, id uint64) string {
	c := m.St[a].Ctrls[id]
	if c.Acct {
		return fmt.Sprintf("%d %d account [%s] %d", id, c.BT, c.Tag, id)
	}
	return fmt.Sprintf("%d %d %s [%s] %d", id, c.BT, spath(c.Target), c.Tag, id)
}

func (m *CapModel) idsFor(a int, acct bool, p int) []uint64 {
	var ids []uint64
	for id, c := range m.St[a].Ctrls {
		if c.Acct == acct && (acct || c.Target == p) {
			ids = append(ids, id)
		}
	}
	sort.Slice(ids, func(i, j int) bool { return ids[i] < ids[j] })
	return ids
}

// idsForAll lists the live storage controllers of an account.
func (m *CapModel) idsForAll(a int) []uint64 {
	var ids []uint64
	for id, c := range m.St[a].Ctrls {
		if !c.Acct {
			ids = append(ids, id)
		}
	}
	sort.Slice(ids, func(i, j int) bool { return ids[i] < ids[j] })
	return ids
}

// Apply evaluates tx on the model. On success the model is updated; on failure it
// is left unchanged (the host rolls the ledger back).
func (m *CapModel) Apply(tx KTx) KExpect {
	exp := KExpect{Flags: map[string]bool{}}
	w := m.clone()
	logf := func(format string, args ...any) { exp.Logs = append(exp.Logs, fmt.Sprintf(format, args...)) }
	evf := func(format string, args ...any) { exp.Events = append(exp.Events, fmt.Sprintf(format, args...)) }
	fail := func(i int, contains string) KExpect {
		exp.Fails, exp.FailAt, exp.ErrContains, exp.Events = true, i, contains, nil
		return exp
	}
	for i, a := range tx.Actions {
		st := w.St[a.A]
		switch a.Op {
		case "issue":
			st.NextID++
			id := st.NextID
			if a.Acct {
				st.Ctrls[id] = &Ctrl{Acct: true, BT: a.BT}
				evf("flow.AccountCapabilityControllerIssued id=%d address=%s type=%s", id, addr(a.A), BTs[a.BT].ID)
			} else {
				st.Ctrls[id] = &Ctrl{BT: a.BT, Target: a.P}
				evf("flow.StorageCapabilityControllerIssued id=%d address=%s type=%s path=%s", id, addr(a.A), BTs[a.BT].ID, spath(a.P))
			}
			c := CapRef{a.A, id, a.BT}
			ok, _ := w.Borrow(c, a.BT)
			logf("issue %d %s", id, tf(ok))
			st.Kept = append(st.Kept, c)
		case "getController":
			c := st.Ctrls[a.ID]
			if c == nil || c.Acct != a.Acct {
				if c != nil {
					exp.Flags["getController-wrong-kind"] = true
				}
				logf("gc nil")
			} else {
				logf("gc %s", w.scLine(a.A, a.ID))
			}
		case "getControllers":
			ids := w.idsFor(a.A, a.Acct, a.P)
			for _, id := range ids {
				logf("~%s", w.scLine(a.A, id))
			}
			logf("gcs %d", len(ids))
		case "forEachController":
			ids := w.idsFor(a.A, a.Acct, a.P)
			if a.Stop && len(ids) > 0 {
				var alts []string
				for _, id := range ids {
					alts = append(alts, "~"+w.scLine(a.A, id))
				}
				logf("?%s", strings.Join(alts, "|"))
				logf("fe 1")
			} else {
				for _, id := range ids {
					logf("~%s", w.scLine(a.A, id))
				}
				logf("fe %d", len(ids))
			}
		case "retarget":
			c := st.Ctrls[a.ID]
			if c == nil || c.Acct {
				logf("rt nil")
				break
			}
			if c.Target != a.P {
				exp.Flags["retarget-moved"] = true
			}
			c.Target = a.P
			evf("flow.StorageCapabilityControllerTargetChanged id=%d address=%s path=%s", a.ID, addr(a.A), spath(a.P))
			logf("rt %s", spath(a.P))
		case "setTag":
			c := st.Ctrls[a.ID]
			if c == nil || c.Acct != a.Acct {
				logf("tag nil")
				break
			}
			c.Tag = a.Tag
			logf("tag %s", a.Tag)
		case "delete":
			c := st.Ctrls[a.ID]
			if c == nil || c.Acct != a.Acct {
				logf("del nil")
				break
			}
			delete(st.Ctrls, a.ID)
			if c.Acct {
				evf("flow.AccountCapabilityControllerDeleted id=%d address=%s", a.ID, addr(a.A))
			} else {
				evf("flow.StorageCapabilityControllerDeleted id=%d address=%s", a.ID, addr(a.A))
			}
			logf("del ok")
		case "publish":
			c := st.Kept[a.Slot]
			if c.Addr != a.A {
				exp.Flags["publish-foreign-capability"] = true
				return fail(i, "type:CapabilityAddressPublishingError")
			}
			if st.Published[a.Q] != nil {
				return fail(i, "type:OverwriteError")
			}
			cp := c
			st.Published[a.Q] = &cp
			evf("flow.CapabilityPublished address=%s path=%s capability=%s/%d/%s", addr(a.A), ppath(a.Q), addr(c.Addr), c.ID, BTs[c.BT].ID)
			logf("pub ok")
		case "unpublish":
			if p := st.Published[a.Q]; p != nil {
				st.Published[a.Q] = nil
				evf("flow.CapabilityUnpublished address=%s path=%s", addr(a.A), ppath(a.Q))
				logf("unpub %d", p.ID)
			} else {
				logf("unpub nil")
			}
		case "pget":
			c := w.Get(a.B, a.Q, a.BT)
			ok, _ := w.Borrow(c, a.BT)
			logf("get %d %s", c.ID, tf(ok))
			if c.ID != 0 && w.St[a.B].Published[a.Q].BT != a.BT {
				exp.Flags["get-with-other-type"] = true
			}
			if a.Keep {
				st.Kept = append(st.Kept, c)
			}
		case "pborrow":
			c := w.Get(a.B, a.Q, a.BT)
			if ok, read := w.Borrow(c, a.BT); ok {
				logf("pb t %s", read)
			} else {
				logf("pb f")
			}
		case "exists":
			logf("ex %s", tf(w.St[a.B].Published[a.Q] != nil))
		case "cborrow":
			c := st.Kept[a.Slot]
			ok, read := w.Borrow(c, a.BT)
			if ok {
				logf("cb t %s", read)
			} else {
				logf("cb f")
			}
			w.classify(exp.Flags, c, a.BT, ok)
		case "ccheck":
			c := st.Kept[a.Slot]
			ok, _ := w.Borrow(c, a.BT)
			logf("cc %s %d", tf(ok), c.ID)
			w.classify(exp.Flags, c, a.BT, ok)
		case "ipublish":
			c := st.Kept[a.Slot]
			st.Inbox[a.Name] = InboxEntry{Recipient: a.B, Cap: c}
			evf("flow.InboxValuePublished provider=%s recipient=%s name=%s type=Capability<%s>", addr(a.A), addr(a.B), a.Name, BTs[c.BT].ID)
			logf("ipub ok")
		case "iunpublish":
			e, ok := st.Inbox[a.Name]
			if !ok {
				logf("iunpub nil")
				break
			}
			if !RefTypeSub(e.Cap.BT, a.BT) {
				return fail(i, "type:ForceCastTypeMismatchError")
			}
			delete(st.Inbox, a.Name)
			evf("flow.InboxValueUnpublished provider=%s name=%s", addr(a.A), a.Name)
			logf("iunpub %d", e.Cap.ID)
		case "iclaim":
			prov := w.St[a.B]
			e, ok := prov.Inbox[a.Name]
			if !ok {
				logf("claim nil")
				break
			}
			if e.Recipient != a.A {
				exp.Flags["claim-by-non-recipient"] = true
				logf("claim nil")
				break
			}
			if !RefTypeSub(e.Cap.BT, a.BT) {
				return fail(i, "type:ForceCastTypeMismatchError")
			}
			delete(prov.Inbox, a.Name)
			evf("flow.InboxValueClaimed provider=%s recipient=%s name=%s", addr(a.B), addr(a.A), a.Name)
			logf("claim %d", e.Cap.ID)
			// handing the value out as Capability<T> keeps its referenced type and
			// applies T's authorization (an upcast drops entitlements for good)
			kept := e.Cap
			kept.BT = withAuth(e.Cap.BT, BTs[a.BT].Auth)
			if kept.BT != e.Cap.BT {
				exp.Flags["claim-dropped-entitlement"] = true
			}
			st.Kept = append(st.Kept, kept)
			exp.Flags["claim-ok"] = true
		case "save":
			if st.Stored[a.P].Kind != "" {
				return fail(i, "type:OverwriteError")
			}
			st.Stored[a.P] = Stored{Kind: a.Kind, V: w.NextV}
			w.NextV++
			logf("save ok")
		case "load":
			sv := st.Stored[a.P]
			if sv.Kind == "" {
				logf("load nil")
			} else {
				logf("load %s %d", sv.Kind, sv.V)
				st.Stored[a.P] = Stored{}
				exp.Flags["target-unloaded"] = true
			}
		default:
			panic("capgen: unknown capability op " + a.Op)
		}
	}
	if tx.Abort {
		return fail(len(tx.Actions), "abort-marker")
	}
	*m = *w
	return exp
}

// classify records which interesting borrow classes a retained-capability
// borrow/check exercised.
func (m *CapModel) classify(flags map[string]bool, c CapRef, want BT, ok bool) {
	if c.ID == 0 {
		flags["borrow:invalid-capability"] = true
		return
	}
	ctl := m.St[c.Addr].Ctrls[c.ID]
	switch {
	case ctl == nil:
		flags["borrow:deleted-controller"] = true
	case !authLE(BTs[want].Auth, BTs[c.BT].Auth) || !authLE(BTs[want].Auth, BTs[ctl.BT].Auth):
		flags["borrow:authorization-too-strong"] = true
	case !CanBorrow(want, c.BT) || !CanBorrow(want, ctl.BT):
		flags["borrow:unrelated-type"] = true
	case want != c.BT && ok && RefTypeSub(c.BT, want):
		flags["borrow:upcast-ok"] = true
	case want != c.BT && ok:
		flags["borrow:downcast-ok"] = true
	case ok:
		flags["borrow:same-type-ok"] = true
	default:
		flags["borrow:target-mismatch-or-empty"] = true
	}
}

// ---- rendering ------------------------------------------------------------------------------

func readExpr(bt BT, r string) string {
	switch bt {
	case 0, 3, 5:
		return r + ".v.toString()"
	case 1, 6:
		return r + ".f().toString()"
	case 2:
		return r + ".g().toString()"
	case 8, 9:
		return r + ".address.toString()"
	default:
		return `"-"`
	}
}

const signerAuth = "auth(Storage, Capabilities, Inbox) &Account"

// Source renders a transaction; the signers are all model accounts, in order.
func (m *CapModel) Source(tx KTx, before *CapModel) string {
	var b strings.Builder
	b.WriteString("import T from 0x9\ntransaction {\n  prepare(")
	for i, a := range m.Accts {
		if i > 0 {
			b.WriteString(", ")
		}
		fmt.Fprintf(&b, "a%d: %s", a, signerAuth)
	}
	b.WriteString(") {\n")
	w := func(format string, args ...any) { fmt.Fprintf(&b, "    "+format+"\n", args...) }
	// sim runs the model alongside, so that slots, values and stored kinds are
	// rendered for the state each action will see
	sim := before.clone()
	for i, a := range tx.Actions {
		acc := fmt.Sprintf("a%d", a.A)
		bts := BTs[a.BT].Src
		ctlGet := func() string {
			if a.Acct {
				return fmt.Sprintf("%s.capabilities.account.getController(byCapabilityID: %d)", acc, a.ID)
			}
			return fmt.Sprintf("%s.capabilities.storage.getController(byCapabilityID: %d)", acc, a.ID)
		}
		fmtc := "T.sc"
		if a.Acct {
			fmtc = "T.ac"
		}
		switch a.Op {
		case "issue":
			if a.Acct {
				w("let c%d = %s.capabilities.account.issue<%s>()", i, acc, bts)
			} else {
				w("let c%d = %s.capabilities.storage.issue<%s>(%s)", i, acc, bts, spath(a.P))
			}
			w(`log("issue ".concat(c%d.id.toString()).concat(" ").concat(c%d.check() ? "t" : "f"))`, i, i)
			w("%s.storage.save(c%d, to: %s)", acc, i, kpath(len(sim.St[a.A].Kept)))
		case "getController":
			w(`if let c%d = %s { log("gc ".concat(%s(c%d))) } else { log("gc nil") }`, i, ctlGet(), fmtc, i)
		case "getControllers":
			if a.Acct {
				w("let l%d = %s.capabilities.account.getControllers()", i, acc)
			} else {
				w("let l%d = %s.capabilities.storage.getControllers(forPath: %s)", i, acc, spath(a.P))
			}
			w(`for c in l%d { log("~".concat(%s(c))) }`, i, fmtc)
			w(`log("gcs ".concat(l%d.length.toString()))`, i)
		case "forEachController":
			w("var n%d = 0", i)
			cont := "true"
			if a.Stop {
				cont = "false"
			}
			if a.Acct {
				w(`%s.capabilities.account.forEachController(fun (c: &AccountCapabilityController): Bool { n%d = n%d + 1; log("~".concat(T.ac(c))); return %s })`, acc, i, i, cont)
			} else {
				w(`%s.capabilities.storage.forEachController(forPath: %s, fun (c: &StorageCapabilityController): Bool { n%d = n%d + 1; log("~".concat(T.sc(c))); return %s })`, acc, spath(a.P), i, i, cont)
			}
			w(`log("fe ".concat(n%d.toString()))`, i)
		case "retarget":
			w(`if let c%d = %s.capabilities.storage.getController(byCapabilityID: %d) { c%d.retarget(%s); log("rt ".concat(c%d.target().toString())) } else { log("rt nil") }`,
				i, acc, a.ID, i, spath(a.P), i)
		case "setTag":
			w(`if let c%d = %s { c%d.setTag(%q); log("tag ".concat(c%d.tag)) } else { log("tag nil") }`, i, ctlGet(), i, a.Tag, i)
		case "delete":
			w(`if let c%d = %s { c%d.delete(); log("del ok") } else { log("del nil") }`, i, ctlGet(), i)
		case "publish":
			w("%s.capabilities.publish(%s.storage.copy<Capability>(from: %s)!, at: %s)", acc, acc, kpath(a.Slot), ppath(a.Q))
			w(`log("pub ok")`)
		case "unpublish":
			w(`log("unpub ".concat(%s.capabilities.unpublish(%s)?.id?.toString() ?? "nil"))`, acc, ppath(a.Q))
		case "pget":
			w("let g%d = getAccount(0x%x).capabilities.get<%s>(%s)", i, a.B, bts, ppath(a.Q))
			w(`log("get ".concat(g%d.id.toString()).concat(" ").concat(g%d.check() ? "t" : "f"))`, i, i)
			if a.Keep {
				w("%s.storage.save(g%d, to: %s)", acc, i, kpath(len(sim.St[a.A].Kept)))
			}
		case "pborrow":
			w(`if let r%d = getAccount(0x%x).capabilities.borrow<%s>(%s) { log("pb t ".concat(%s)) } else { log("pb f") }`,
				i, a.B, bts, ppath(a.Q), readExpr(a.BT, fmt.Sprintf("r%d", i)))
		case "exists":
			w(`log("ex ".concat(getAccount(0x%x).capabilities.exists(%s) ? "t" : "f"))`, a.B, ppath(a.Q))
		case "cborrow":
			w("let k%d = %s.storage.copy<Capability>(from: %s)!", i, acc, kpath(a.Slot))
			w(`if let r%d = k%d.borrow<%s>() { log("cb t ".concat(%s)) } else { log("cb f") }`, i, i, bts, readExpr(a.BT, fmt.Sprintf("r%d", i)))
		case "ccheck":
			w("let k%d = %s.storage.copy<Capability>(from: %s)!", i, acc, kpath(a.Slot))
			w(`log("cc ".concat(k%d.check<%s>() ? "t" : "f").concat(" ").concat(k%d.id.toString()))`, i, bts, i)
		case "ipublish":
			w("%s.inbox.publish(%s.storage.copy<Capability>(from: %s)!, name: %q, recipient: 0x%x)", acc, acc, kpath(a.Slot), a.Name, a.B)
			w(`log("ipub ok")`)
		case "iunpublish":
			w(`log("iunpub ".concat(%s.inbox.unpublish<%s>(%q)?.id?.toString() ?? "nil"))`, acc, bts, a.Name)
		case "iclaim":
			w(`if let c%d = %s.inbox.claim<%s>(%q, provider: 0x%x) { log("claim ".concat(c%d.id.toString())); %s.storage.save(c%d, to: %s) } else { log("claim nil") }`,
				i, acc, bts, a.Name, a.B, i, acc, i, kpath(len(sim.St[a.A].Kept)))
		case "save":
			switch a.Kind {
			case "S":
				w("%s.storage.save(T.S(%d), to: %s)", acc, sim.NextV, spath(a.P))
			case "S2":
				w("%s.storage.save(T.S2(%d), to: %s)", acc, sim.NextV, spath(a.P))
			case "R":
				w("%s.storage.save(<- T.mkR(%d), to: %s)", acc, sim.NextV, spath(a.P))
			case "Int":
				w("%s.storage.save(%d, to: %s)", acc, sim.NextV, spath(a.P))
			}
			w(`log("save ok")`)
		case "load":
			switch sim.St[a.A].Stored[a.P].Kind {
			case "S":
				w(`if let v%d = %s.storage.load<T.S>(from: %s) { log("load S ".concat(v%d.v.toString())) } else { log("load nil") }`, i, acc, spath(a.P), i)
			case "S2":
				w(`if let v%d = %s.storage.load<T.S2>(from: %s) { log("load S2 ".concat(v%d.v.toString())) } else { log("load nil") }`, i, acc, spath(a.P), i)
			case "R":
				w(`if let v%d <- %s.storage.load<@T.R>(from: %s) { log("load R ".concat(v%d.v.toString())); destroy v%d } else { log("load nil") }`, i, acc, spath(a.P), i, i)
			case "Int":
				w(`if let v%d = %s.storage.load<Int>(from: %s) { log("load Int ".concat(v%d.toString())) } else { log("load nil") }`, i, acc, spath(a.P), i)
			default:
				w(`if let v%d = %s.storage.load<Int>(from: %s) { log("load Int ".concat(v%d.toString())) } else { log("load nil") }`, i, acc, spath(a.P), i)
			}
		}
		// keep the simulation in step so that later renderings see the right state
		sim.Apply(KTx{Actions: []KAction{a}})
	}
	if tx.Abort {
		w(`panic("abort-marker")`)
	}
	b.WriteString("  }\n}\n")
	return b.String()
}

// VerifyScript reads the complete observable state back in a fresh execution:
// per account every controller by ID (live, deleted and never issued), the
// controllers per path, the published capabilities (exists / get / borrow with
// every borrow type) and check<T> for every retained capability.
func (m *CapModel) VerifyScript() (string, []string) {
	var body strings.Builder
	var want []string
	w := func(format string, args ...any) { fmt.Fprintf(&body, "  "+format+"\n", args...) }
	exp := func(format string, args ...any) { want = append(want, fmt.Sprintf(format, args...)) }
	for _, a := range m.Accts {
		st := m.St[a]
		w("let a%d = getAuthAccount<auth(Storage, Capabilities) &Account>(0x%x)", a, a)
		for id := uint64(1); id <= st.NextID+1; id++ {
			w(`if let c = a%d.capabilities.storage.getController(byCapabilityID: %d) { out.append("sc %d ".concat(T.sc(c))) } else { out.append("sc %d nil") }`, a, id, a, a)
			w(`if let c = a%d.capabilities.account.getController(byCapabilityID: %d) { out.append("ac %d ".concat(T.ac(c))) } else { out.append("ac %d nil") }`, a, id, a, a)
			c := st.Ctrls[id]
			switch {
			case c == nil:
				exp("sc %d nil", a)
				exp("ac %d nil", a)
			case c.Acct:
				exp("sc %d nil", a)
				exp("ac %d %s", a, m.scLine(a, id))
			default:
				exp("sc %d %s", a, m.scLine(a, id))
				exp("ac %d nil", a)
			}
		}
		for p := 0; p < NPaths; p++ {
			w(`for c in a%d.capabilities.storage.getControllers(forPath: %s) { out.append("~p %d %d ".concat(c.capabilityID.toString())) }`, a, spath(p), a, p)
			for _, id := range m.idsFor(a, false, p) {
				exp("~p %d %d %d", a, p, id)
			}
			w(`out.append("p-end %d %d")`, a, p)
			exp("p-end %d %d", a, p)
		}
		w(`a%d.capabilities.account.forEachController(fun (c: &AccountCapabilityController): Bool { out.append("~acs %d ".concat(c.capabilityID.toString())); return true })`, a, a)
		for _, id := range m.idsFor(a, true, 0) {
			exp("~acs %d %d", a, id)
		}
		w(`out.append("acs-end %d")`, a)
		exp("acs-end %d", a)
		for q := 0; q < NPub; q++ {
			w(`out.append("ex %d %d ".concat(a%d.capabilities.exists(%s) ? "t" : "f"))`, a, q, a, ppath(q))
			exp("ex %d %d %s", a, q, tf(st.Published[q] != nil))
			if st.Published[q] == nil {
				continue
			}
			for bt := BT(0); bt < nBT; bt++ {
				w(`out.append("pub %d %d %d ".concat(a%d.capabilities.get<%s>(%s).id.toString()).concat(a%d.capabilities.borrow<%s>(%s) != nil ? " t" : " f"))`,
					a, q, bt, a, BTs[bt].Src, ppath(q), a, BTs[bt].Src, ppath(q))
				c := m.Get(a, q, bt)
				ok, _ := m.Borrow(c, bt)
				exp("pub %d %d %d %d %s", a, q, bt, c.ID, tf(ok))
			}
		}
		for s, c := range st.Kept {
			w("let k%d_%d = a%d.storage.copy<Capability>(from: %s)!", a, s, a, kpath(s))
			var sb, eb strings.Builder
			fmt.Fprintf(&sb, `out.append("kept %d %d ".concat(k%d_%d.id.toString()).concat(" ")`, a, s, a, s)
			for bt := BT(0); bt < nBT; bt++ {
				fmt.Fprintf(&sb, `.concat(k%d_%d.check<%s>() ? "t" : "f")`, a, s, BTs[bt].Src)
				ok, _ := m.Borrow(c, bt)
				eb.WriteString(tf(ok))
			}
			sb.WriteString(")")
			w("%s", sb.String())
			exp("kept %d %d %d %s", a, s, c.ID, eb.String())
		}
	}
	src := "import T from 0x9\naccess(all) fun main(): [String] {\n  let out: [String] = []\n" + body.String() + "  return out\n}\n"
	return src, want
}

// ---- generator ---------------------------------------------------------------------------------

type CapGenOptions struct {
	MaxActions int // default 50
}

type CapStep struct {
	Tx         KTx
	Source     string
	Expect     KExpect
	Verify     string
	VerifyWant []string
	// Decisive counts the (retained capability, type) pairs of the verification
	// script whose outcome is decided by the controller-side type check alone.
	Decisive int
	// VerifyFlags are the borrow classes (see classify) the check<T> calls of the
	// verification script exercise.
	VerifyFlags map[string]bool
}

func (m *CapModel) verifyFlags() map[string]bool {
	flags := map[string]bool{}
	for _, a := range m.Accts {
		for _, c := range m.St[a].Kept {
			for bt := BT(0); bt < nBT; bt++ {
				ok, _ := m.Borrow(c, bt)
				m.classify(flags, c, bt, ok)
			}
		}
	}
	return flags
}

// decisiveControllerCases: retained capabilities and wanted types for which the
// capability's own type and the stored value would allow the borrow and only the
// controller's borrow type forbids it.
func (m *CapModel) decisiveControllerCases() int {
	n := 0
	for _, a := range m.Accts {
		for _, c := range m.St[a].Kept {
			if c.ID == 0 {
				continue
			}
			ctl := m.St[c.Addr].Ctrls[c.ID]
			if ctl == nil || ctl.Acct {
				continue
			}
			sv := m.St[c.Addr].Stored[ctl.Target]
			for bt := BT(0); bt < nBT; bt++ {
				if CanBorrow(bt, c.BT) && !CanBorrow(bt, ctl.BT) && sv.Kind != "" && refSub(sv.Kind, BTs[bt].Ref) {
					n++
				}
			}
		}
	}
	return n
}

type CapHistory struct {
	Accts []int
	Steps []CapStep
}

var inboxNames = []string{"n0", "n1"}
var kinds = []string{"S", "S2", "R", "Int"}

func (m *CapModel) genAction(c Chooser, w *CapModel) (KAction, bool) {
	a := m.Accts[c.Intn("acct", len(m.Accts))]
	st := w.St[a]
	other := func() int { return m.Accts[c.Intn("other", len(m.Accts))] }
	anyBT := func() BT {
		if Chance(c, "acctbt", 1, 8) {
			return BT(nStorageBT + c.Intn("abt", nBT-nStorageBT))
		}
		return BT(c.Intn("bt", nStorageBT))
	}
	// an ID of this account: mostly live, sometimes deleted / never issued
	pickID := func(wantAcct bool) (uint64, bool) {
		var live []uint64
		for id, ctl := range st.Ctrls {
			if ctl.Acct == wantAcct {
				live = append(live, id)
			}
		}
		sort.Slice(live, func(i, j int) bool { return live[i] < live[j] })
		if len(live) > 0 && !Chance(c, "anyid", 1, 6) {
			return live[c.Intn("live", len(live))], true
		}
		if st.NextID == 0 {
			return 1, true
		}
		return 1 + uint64(c.Intn("id", int(st.NextID)+1)), true
	}
	pickSlot := func() (int, bool) {
		if len(st.Kept) == 0 {
			return 0, false
		}
		return c.Intn("slot", len(st.Kept)), true
	}
	// a wanted type related to the capability's type most of the time
	relatedBT := func(to BT) BT {
		if Chance(c, "unrelated", 1, 4) {
			return anyBT()
		}
		var rel []BT
		for bt := BT(0); bt < nBT; bt++ {
			if refSub(BTs[bt].Ref, BTs[to].Ref) || refSub(BTs[to].Ref, BTs[bt].Ref) {
				rel = append(rel, bt)
			}
		}
		return rel[c.Intn("rel", len(rel))]
	}
	op := Weighted(c, "op", []int{10, 3, 5, 4, 4, 10, 3, 9, 6, 3, 8, 5, 2, 16, 8, 5, 4, 6, 12, 4})
	// inbox reads are pointless most of the time while every inbox is empty: publish instead
	if op == 16 || op == 17 {
		entries := 0
		for _, x := range m.Accts {
			entries += len(w.St[x].Inbox)
		}
		if entries == 0 && !Chance(c, "emptyinbox", 1, 6) {
			op = 15
		}
	}
	// operations on retained capabilities need an account that retains one
	switch op {
	case 8, 13, 14, 15:
		var have []int
		for _, x := range m.Accts {
			if len(w.St[x].Kept) > 0 {
				have = append(have, x)
			}
		}
		if len(have) > 0 {
			a = have[c.Intn("holder", len(have))]
			st = w.St[a]
		}
	case 16:
		var have []int
		for _, x := range m.Accts {
			if len(w.St[x].Inbox) > 0 {
				have = append(have, x)
			}
		}
		if len(have) > 0 {
			a = have[c.Intn("provider", len(have))]
			st = w.St[a]
		}
	}
	switch op {
	case 0: // storage issue
		return KAction{Op: "issue", A: a, BT: BT(c.Intn("bt", nStorageBT)), P: c.Intn("p", NPaths)}, true
	case 1:
		return KAction{Op: "issue", A: a, BT: BT(nStorageBT + c.Intn("abt", nBT-nStorageBT)), Acct: true}, true
	case 2:
		acct := Chance(c, "acctapi", 1, 4)
		id, _ := pickID(acct != Chance(c, "crosskind", 1, 6))
		return KAction{Op: "getController", A: a, ID: id, Acct: acct}, true
	case 3:
		if Chance(c, "acctapi", 1, 4) {
			return KAction{Op: "getControllers", A: a, Acct: true}, true
		}
		return KAction{Op: "getControllers", A: a, P: c.Intn("p", NPaths)}, true
	case 4:
		stop := Chance(c, "stop", 1, 3)
		if Chance(c, "acctapi", 1, 4) {
			return KAction{Op: "forEachController", A: a, Acct: true, Stop: stop}, true
		}
		return KAction{Op: "forEachController", A: a, P: c.Intn("p", NPaths), Stop: stop}, true
	case 5:
		id, _ := pickID(false)
		return KAction{Op: "retarget", A: a, ID: id, P: c.Intn("p", NPaths)}, true
	case 6:
		acct := Chance(c, "acctapi", 1, 4)
		id, _ := pickID(acct)
		return KAction{Op: "setTag", A: a, ID: id, Acct: acct, Tag: fmt.Sprintf("t%d", c.Intn("tag", 4))}, true
	case 7:
		acct := Chance(c, "acctapi", 1, 4)
		id, _ := pickID(acct)
		return KAction{Op: "delete", A: a, ID: id, Acct: acct}, true
	case 8:
		s, ok := pickSlot()
		if !ok {
			return KAction{}, false
		}
		q := c.Intn("q", NPub)
		if st.Published[q] != nil && !Chance(c, "overwrite", 1, 8) {
			for qq := 0; qq < NPub; qq++ {
				if st.Published[qq] == nil {
					q = qq
				}
			}
		}
		if st.Kept[s].Addr != a && !Chance(c, "foreign", 1, 6) {
			for ss, k := range st.Kept {
				if k.Addr == a {
					s = ss
				}
			}
		}
		return KAction{Op: "publish", A: a, Slot: s, Q: q}, true
	case 9:
		return KAction{Op: "unpublish", A: a, Q: c.Intn("q", NPub)}, true
	case 10, 11:
		b := other()
		q := c.Intn("q", NPub)
		// mostly look at something that is published
		type pq struct{ b, q int }
		var pubs []pq
		for _, bb := range m.Accts {
			for qq := 0; qq < NPub; qq++ {
				if w.St[bb].Published[qq] != nil {
					pubs = append(pubs, pq{bb, qq})
				}
			}
		}
		if len(pubs) > 0 && !Chance(c, "unpublished", 1, 5) {
			x := pubs[c.Intn("pub", len(pubs))]
			b, q = x.b, x.q
		}
		bt := anyBT()
		if p := w.St[b].Published[q]; p != nil {
			bt = relatedBT(p.BT)
		}
		if op == 10 {
			// retaining a capability whose type differs from its controller's makes the
			// controller-side check observable later on
			if p := w.St[b].Published[q]; p != nil && BTs[p.BT].Ref != "AnyStruct" && refSub(BTs[p.BT].Ref, "AnyStruct") && Chance(c, "asany", 1, 2) {
				bt = 4
			}
			return KAction{Op: "pget", A: a, B: b, Q: q, BT: bt, Keep: Chance(c, "keep", 2, 3)}, true
		}
		return KAction{Op: "pborrow", A: a, B: b, Q: q, BT: bt}, true
	case 12:
		return KAction{Op: "exists", A: a, B: other(), Q: c.Intn("q", NPub)}, true
	case 13, 14:
		s, ok := pickSlot()
		if !ok {
			return KAction{}, false
		}
		bt := relatedBT(st.Kept[s].BT)
		if op == 13 {
			return KAction{Op: "cborrow", A: a, Slot: s, BT: bt}, true
		}
		return KAction{Op: "ccheck", A: a, Slot: s, BT: bt}, true
	case 15:
		s, ok := pickSlot()
		if !ok {
			return KAction{}, false
		}
		return KAction{Op: "ipublish", A: a, Slot: s, Name: inboxNames[c.Intn("name", len(inboxNames))], B: other()}, true
	case 16:
		name := inboxNames[c.Intn("name", len(inboxNames))]
		bt := anyBT()
		if len(st.Inbox) > 0 && !Chance(c, "othername", 1, 6) {
			var ns []string
			for n := range st.Inbox {
				ns = append(ns, n)
			}
			sort.Strings(ns)
			name = ns[c.Intn("inboxname", len(ns))]
		}
		if e, ok := st.Inbox[name]; ok && !Chance(c, "mismatch", 1, 3) {
			bt = superOf(c, e.Cap.BT)
		}
		return KAction{Op: "iunpublish", A: a, Name: name, BT: bt}, true
	case 17:
		b := other()
		name := inboxNames[c.Intn("name", len(inboxNames))]
		bt := anyBT()
		// prefer an existing inbox entry, claimed by its recipient most of the time
		type ent struct {
			b int
			n string
			r int
		}
		var ents []ent
		for _, bb := range m.Accts {
			for _, nn := range inboxNames {
				if e, ok := w.St[bb].Inbox[nn]; ok {
					ents = append(ents, ent{bb, nn, e.Recipient})
				}
			}
		}
		if len(ents) > 0 && !Chance(c, "elsewhere", 1, 6) {
			e := ents[c.Intn("entry", len(ents))]
			b, name = e.b, e.n
			if !Chance(c, "thief", 1, 5) {
				a = e.r
				st = w.St[a]
			}
		}
		if e, ok := w.St[b].Inbox[name]; ok && !Chance(c, "mismatch", 1, 4) {
			bt = superOf(c, e.Cap.BT)
		}
		return KAction{Op: "iclaim", A: a, B: b, Name: name, BT: bt}, true
	case 18:
		p := c.Intn("p", NPaths)
		if st.Stored[p].Kind != "" && !Chance(c, "overwrite", 1, 10) {
			// replace: load first
			return KAction{Op: "load", A: a, P: p}, true
		}
		kind := kinds[Weighted(c, "kind", []int{5, 2, 3, 1})]
		// sometimes store a struct the controllers of this path are not typed for
		for _, id := range w.idsFor(a, false, p) {
			switch BTs[st.Ctrls[id].BT].Ref {
			case "S", "I":
				if Chance(c, "mistype", 1, 3) {
					kind = "S2"
				}
			case "S2":
				if Chance(c, "mistype", 1, 3) {
					kind = "S"
				}
			}
		}
		return KAction{Op: "save", A: a, P: p, Kind: kind}, true
	default:
		return KAction{Op: "load", A: a, P: c.Intn("p", NPaths)}, true
	}
}

// superOf picks a borrow type T such that Capability<of> can be handed out as Capability<T>.
func superOf(c Chooser, of BT) BT {
	var sup []BT
	for bt := BT(0); bt < nBT; bt++ {
		if RefTypeSub(of, bt) {
			sup = append(sup, bt)
		}
	}
	return sup[c.Intn("super", len(sup))]
}

// GenCapHistory generates a capability history with the model's predictions.
func GenCapHistory(c Chooser, o CapGenOptions) *CapHistory {
	if o.MaxActions == 0 {
		o.MaxActions = 50
	}
	m := NewCapModel([]int{1, 2, 3})
	h := &CapHistory{Accts: m.Accts}
	// first transaction: put something at most target paths
	var first KTx
	for _, a := range m.Accts {
		for p := 0; p < NPaths; p++ {
			if k := Weighted(c, "initkind", []int{2, 5, 2, 3, 1}); k > 0 {
				first.Actions = append(first.Actions, KAction{Op: "save", A: a, P: p, Kind: kinds[k-1]})
			}
		}
	}
	emit := func(tx KTx) {
		before := m.clone()
		st := CapStep{Tx: tx, Source: m.Source(tx, before)}
		st.Expect = m.Apply(tx)
		st.Verify, st.VerifyWant = m.VerifyScript()
		st.Decisive = m.decisiveControllerCases()
		st.VerifyFlags = m.verifyFlags()
		h.Steps = append(h.Steps, st)
	}
	if len(first.Actions) > 0 {
		emit(first)
	}
	// directed prelude (1 in 3 histories): a retained capability whose type is wider
	// than its controller's, over a target that then holds an unrelated struct — the
	// situation in which only the controller-side check of the borrow rule decides
	if Chance(c, "scenario", 1, 3) {
		a := m.Accts[c.Intn("acct", len(m.Accts))]
		p, q := c.Intn("p", NPaths), c.Intn("q", NPub)
		k := []BT{0, 1, 2, 6, 5}[c.Intn("ctlbt", 5)]
		slot := len(m.St[a].Kept)
		emit(KTx{Actions: []KAction{{Op: "issue", A: a, BT: k, P: p}, {Op: "publish", A: a, Slot: slot, Q: q}}})
		holder := m.Accts[c.Intn("holder", len(m.Accts))]
		emit(KTx{Actions: []KAction{{Op: "pget", A: holder, B: a, Q: q, BT: 4, Keep: true}}})
		kind := "S2"
		if k == 5 {
			kind = "S"
		}
		emit(KTx{Actions: []KAction{{Op: "load", A: a, P: p}, {Op: "save", A: a, P: p, Kind: kind}}})
	}
	total := 20 + c.Intn("actions", o.MaxActions-19)
	retargeted, deletedAfter := false, false
	for n := 0; n < total; {
		tx := KTx{}
		w := m.clone()
		cnt := 1 + c.Intn("txlen", 5)
		for i := 0; i < cnt; i++ {
			var a KAction
			ok := false
			// steer towards the ingredients of a non-trivial history: a retarget that
			// moves a controller, later a delete
			if (!retargeted || !deletedAfter) && Chance(c, "goal", 1, 3) {
				type cand struct {
					a  int
					id uint64
				}
				var live []cand
				for _, x := range m.Accts {
					for _, id := range w.idsForAll(x) {
						live = append(live, cand{x, id})
					}
				}
				if len(live) > 0 {
					x := live[c.Intn("goalctl", len(live))]
					ctl := w.St[x.a].Ctrls[x.id]
					if !retargeted {
						a, ok = KAction{Op: "retarget", A: x.a, ID: x.id, P: (ctl.Target + 1 + c.Intn("goalpath", NPaths-1)) % NPaths}, true
					} else {
						a, ok = KAction{Op: "delete", A: x.a, ID: x.id}, true
					}
				}
			}
			if !ok {
				a, ok = m.genAction(c, w)
			}
			n++
			if !ok {
				continue
			}
			// observations through the same account reference before and after the
			// calls that change what they report
			var obs []KAction
			switch a.Op {
			case "publish", "unpublish":
				bt := BT(4)
				if p := w.St[a.A].Published[a.Q]; p != nil {
					bt = p.BT
				} else if a.Op == "publish" && a.Slot < len(w.St[a.A].Kept) {
					bt = w.St[a.A].Kept[a.Slot].BT
				}
				obs = []KAction{{Op: "exists", A: a.A, B: a.A, Q: a.Q}, {Op: "pborrow", A: a.A, B: a.A, Q: a.Q, BT: bt}}
			case "issue", "delete":
				if a.Acct {
					obs = []KAction{{Op: "getControllers", A: a.A, Acct: true}}
				} else if a.Op == "issue" {
					obs = []KAction{{Op: "getControllers", A: a.A, P: a.P}}
				} else if ctl := w.St[a.A].Ctrls[a.ID]; ctl != nil && !ctl.Acct {
					obs = []KAction{{Op: "getControllers", A: a.A, P: ctl.Target}}
				}
			case "retarget":
				if ctl := w.St[a.A].Ctrls[a.ID]; ctl != nil && !ctl.Acct {
					obs = []KAction{{Op: "forEachController", A: a.A, P: ctl.Target}, {Op: "getControllers", A: a.A, P: a.P}}
				}
			}
			failed := false
			if len(obs) > 0 && Chance(c, "pre-observe", 1, 2) {
				for _, o := range obs {
					tx.Actions = append(tx.Actions, o)
					w.Apply(KTx{Actions: []KAction{o}})
				}
			}
			tx.Actions = append(tx.Actions, a)
			// steer the following choices by the state the transaction would reach
			if e := w.Apply(KTx{Actions: []KAction{a}}); e.Fails {
				failed = true
			}
			if failed {
				break
			}
			for _, o := range obs {
				tx.Actions = append(tx.Actions, o)
				w.Apply(KTx{Actions: []KAction{o}})
			}
		}
		if len(tx.Actions) == 0 {
			continue
		}
		tx.Abort = Chance(c, "abort", 1, 12)
		emit(tx)
		if last := h.Steps[len(h.Steps)-1]; !last.Expect.Fails {
			for _, a := range tx.Actions {
				if a.Op == "delete" && retargeted {
					deletedAfter = true
				}
			}
			if last.Expect.Flags["retarget-moved"] {
				retargeted = true
			}
		}
	}
	return h
}

// Setup returns the steps every capability history starts with (deploying T).
func CapSetup() []prog.Step {
	return []prog.Step{{Kind: prog.Deploy, Name: "T", Source: TypesContract, Signers: []uint64{TypesAccount}}}
}

// Prog converts the history to the common executable form.
func (h *CapHistory) Prog() prog.History {
	var signers []uint64
	for _, a := range h.Accts {
		signers = append(signers, uint64(a))
	}
	out := prog.History{Origin: "capgen.caps", Features: []string{"capabilities", "inbox", "storage"}, Steps: CapSetup()}
	for _, s := range h.Steps {
		out.Steps = append(out.Steps,
			prog.Step{Kind: prog.Tx, Source: s.Source, Signers: signers, MayFail: s.Expect.Fails},
			prog.Step{Kind: prog.Script, Source: s.Verify})
	}
	return out
}
