// Package capgen generates histories (prog.History) that exercise the account
// APIs of Cadence — contract lifecycle (C26), contract updates over stored data
// (C27) and capabilities/publishing/inbox (C25) — together with the Go reference
// models that predict what every step of such a history must observe.
//
// The generators are driven by a Chooser, so that the same code runs under rapid
// (props/caps) and under a plain seeded PRNG (for consumers that just want
// executable histories: C01, C24, C31, C33, C34).
package capgen

import (
	"math/rand"
)

// Chooser is the only source of randomness of the generators.
type Chooser interface {
	// Intn returns a number in [0, n). n >= 1.
	Intn(label string, n int) int
}

// Rand adapts a *rand.Rand.
type Rand struct{ R *rand.Rand }

func (r Rand) Intn(_ string, n int) int {
	if n <= 1 {
		return 0
	}
	return r.R.Intn(n)
}

// Chance returns true with probability num/den. The draw 0 (what shrinking
// tends to) means false.
func Chance(c Chooser, label string, num, den int) bool {
	return c.Intn(label, den) >= den-num
}

// Weighted picks an index according to the weights (all >= 0, sum > 0).
func Weighted(c Chooser, label string, weights []int) int {
	sum := 0
	for _, w := range weights {
		sum += w
	}
	x := c.Intn(label, sum)
	for i, w := range weights {
		if x < w {
			return i
		}
		x -= w
	}
	return len(weights) - 1
}
