package capgen

import (
	"crypto/sha3"
	"encoding/hex"
	"fmt"
	"sort"
	"strconv"
	"strings"

	"verif/lib/prog"
)

// ---- contract sources ---------------------------------------------------------

// Field of a contract's top level.
type Field struct{ Name, Type string }

// Src is one contract source of the pool together with the facts the model needs
// about it. These facts are written down by hand next to the text they describe
// (they are not derived by parsing with cadence).
type Src struct {
	ID    int
	Label string
	Code  string
	// Valid: parses, type checks and declares exactly one contract or contract
	// interface with the pool's name.
	Valid bool
	// Invalid is what the error must contain when !Valid: a substring of the
	// message, or "type:<name>" for a Go error type in the error tree.
	Invalid string
	Iface   bool
	Version int
	Fields  []Field           // top-level fields in declaration order
	Nested  map[string]string // nested type declarations: name -> kind
	Enum    []string          // cases of the nested enum E (nil: no enum)
	// InitPanics: the initializer aborts.
	InitPanics bool
	InitArgs   int    // number of Int parameters of the initializer
	XInit      string // tag() right after init without arguments ("none": no field x)
	// Dep: the contract imports the contract Dep of account DepAccount and calls its
	// version() in dep(); DepInit: also in its initializer (x = Dep.version()).
	Dep     string
	DepInit bool
}

// DepAccount is the account importer sources import from.
const DepAccount = 1

func (s Src) HasEnum() bool { return s.Enum != nil }

func (s Src) field(name string) (string, bool) {
	for _, f := range s.Fields {
		if f.Name == name {
			return f.Type, true
		}
	}
	return "", false
}

type spec struct {
	label      string
	version    int
	xType      string // "Int" | "String" | ""
	extraField string // name of an additional Int field
	nested     string
	nestedMap  map[string]string
	enum       []string
	extraFn    bool
	initPanics bool
	initArgs   int
	dep        string
	depInit    bool
}

func build(name string, sp spec) Src {
	var b strings.Builder
	var fields []Field
	if sp.dep != "" {
		fmt.Fprintf(&b, "import %s from 0x%x\n", sp.dep, DepAccount)
	}
	fmt.Fprintf(&b, "access(all) contract %s {\n", name)
	initBody := ""
	xinit := "none"
	tagExpr := `"none"`
	switch sp.xType {
	case "Int":
		b.WriteString("    access(all) let x: Int\n")
		fields = append(fields, Field{"x", "Int"})
		if sp.initArgs > 0 {
			initBody += "self.x = v; "
			xinit = "?"
		} else if sp.depInit {
			initBody += fmt.Sprintf("self.x = %s.version(); ", sp.dep)
			xinit = "dep"
		} else {
			initBody += fmt.Sprintf("self.x = %d; ", sp.version)
			xinit = strconv.Itoa(sp.version)
		}
		tagExpr = "self.x.toString()"
	case "String":
		b.WriteString("    access(all) let x: String\n")
		fields = append(fields, Field{"x", "String"})
		initBody += fmt.Sprintf("self.x = \"s%d\"; ", sp.version)
		xinit = fmt.Sprintf("s%d", sp.version)
		tagExpr = "self.x"
	}
	if sp.extraField != "" {
		fmt.Fprintf(&b, "    access(all) let %s: Int\n", sp.extraField)
		fields = append(fields, Field{sp.extraField, "Int"})
		initBody += fmt.Sprintf("self.%s = 0; ", sp.extraField)
	}
	b.WriteString("    access(all) var n: Int\n")
	fields = append(fields, Field{"n", "Int"})
	initBody += "self.n = 0"
	if sp.nested != "" {
		b.WriteString("    " + sp.nested + "\n")
	}
	if sp.enum != nil {
		b.WriteString("    access(all) enum E: UInt8 {")
		for _, c := range sp.enum {
			fmt.Fprintf(&b, " access(all) case %s;", c)
		}
		b.WriteString(" }\n")
	}
	fmt.Fprintf(&b, "    access(all) view fun version(): Int { return %d }\n", sp.version)
	fmt.Fprintf(&b, "    access(all) view fun tag(): String { return %s }\n", tagExpr)
	b.WriteString("    access(all) fun bump(): Int { self.n = self.n + 1; return self.n }\n")
	if sp.extraFn {
		b.WriteString("    access(all) fun extra(): Int { return 0 }\n")
	}
	if sp.dep != "" {
		fmt.Fprintf(&b, "    access(all) view fun dep(): Int { return %s.version() }\n", sp.dep)
	}
	if sp.initPanics {
		initBody += `; panic("init-panic")`
	}
	params := ""
	if sp.initArgs > 0 {
		params = "v: Int"
	}
	fmt.Fprintf(&b, "    init(%s) { %s }\n}\n", params, initBody)
	nested := map[string]string{}
	for k, v := range sp.nestedMap {
		nested[k] = v
	}
	if sp.enum != nil {
		nested["E"] = "enum"
	}
	return Src{Label: sp.label, Code: b.String(), Valid: true, Version: sp.version, Fields: fields, Nested: nested,
		Enum: sp.enum, InitPanics: sp.initPanics, InitArgs: sp.initArgs, XInit: xinit, Dep: sp.dep, DepInit: sp.depInit}
}

// Source labels (stable: used in class histograms).
const (
	SV1 = iota
	SCompatFn
	SCompatNested
	SFieldAdded
	SFieldRetyped
	SFieldRemoved
	STypeError
	SNameMismatch
	SEnum
	SEnumMore
	SEnumReordered
	SInterface
	SInterface2
	SSyntaxError
	STwoDecls
	SNoDecl
	SInitPanics
	SInitArg
	SImporter
	SImporterInit
	numSources
)

// Pool returns the source pool for a contract name. Index = source id.
func Pool(name string) []Src {
	p := make([]Src, numSources)
	p[SV1] = build(name, spec{label: "v1", version: 1, xType: "Int"})
	p[SCompatFn] = build(name, spec{label: "compat-fn", version: 2, xType: "Int", extraFn: true})
	p[SCompatNested] = build(name, spec{label: "compat-nested", version: 3, xType: "Int",
		nested:    "access(all) struct S { access(all) let a: Int; init() { self.a = 1 } }",
		nestedMap: map[string]string{"S": "struct"}})
	p[SFieldAdded] = build(name, spec{label: "field-added", version: 4, xType: "Int", extraField: "y"})
	p[SFieldRetyped] = build(name, spec{label: "field-retyped", version: 5, xType: "String"})
	p[SFieldRemoved] = build(name, spec{label: "field-removed", version: 6, xType: ""})
	p[STypeError] = Src{Label: "type-error", Invalid: "type:CheckerError",
		Code: fmt.Sprintf("access(all) contract %s {\n    access(all) fun version(): Int { return \"six\" }\n}\n", name)}
	p[SNameMismatch] = Src{Label: "name-mismatch", Invalid: "the name argument must match the name of the declaration",
		Code: fmt.Sprintf("access(all) contract %sX {\n    access(all) fun version(): Int { return 7 }\n}\n", name)}
	p[SEnum] = build(name, spec{label: "enum", version: 8, xType: "Int", enum: []string{"a", "b"}})
	p[SEnumMore] = build(name, spec{label: "enum-more", version: 9, xType: "Int", enum: []string{"a", "b", "c"}})
	p[SEnumReordered] = build(name, spec{label: "enum-reordered", version: 10, xType: "Int", enum: []string{"b", "a"}})
	p[SInterface] = Src{Label: "interface", Valid: true, Iface: true, Version: 11, Nested: map[string]string{}, XInit: "none",
		Code: fmt.Sprintf("access(all) contract interface %s {\n    access(all) view fun version(): Int\n}\n", name)}
	p[SInterface2] = Src{Label: "interface2", Valid: true, Iface: true, Version: 12, Nested: map[string]string{}, XInit: "none",
		Code: fmt.Sprintf("access(all) contract interface %s {\n    access(all) view fun version(): Int\n    access(all) view fun more(): Int\n}\n", name)}
	p[SSyntaxError] = Src{Label: "syntax-error", Invalid: "type:parser.Error",
		Code: fmt.Sprintf("access(all) contract %s {\n", name)}
	p[STwoDecls] = Src{Label: "two-decls", Invalid: "the code must declare exactly one contract or contract interface",
		Code: fmt.Sprintf("access(all) contract %s {}\naccess(all) contract %sB {}\n", name, name)}
	p[SNoDecl] = Src{Label: "no-decl", Invalid: "the code must declare exactly one contract or contract interface",
		Code: "// nothing is declared here\n"}
	p[SInitPanics] = build(name, spec{label: "init-panics", version: 14, xType: "Int", initPanics: true})
	p[SInitArg] = build(name, spec{label: "init-arg", version: 15, xType: "Int", initArgs: 1})
	// A imports B, B imports C (both from DepAccount); C's slots are plain contracts
	dep := map[string]string{"A": "B", "B": "C"}[name]
	p[SImporter] = build(name, spec{label: "importer", version: 18, xType: "Int", dep: dep})
	p[SImporterInit] = build(name, spec{label: "importer-init", version: 19, xType: "Int", dep: dep, depInit: dep != ""})
	for i := range p {
		p[i].ID = i
	}
	return p
}

// UpdateAccepted is the harness-side statement of the update rules for the pool:
// the new source must be valid, keep the declaration kind, declare no field the
// old one lacks and keep the type of the others, keep every nested declaration,
// and extend the enum cases only at the end.
func UpdateAccepted(old, new Src) bool {
	if !new.Valid || old.Iface != new.Iface {
		return false
	}
	for _, f := range new.Fields {
		ot, ok := old.field(f.Name)
		if !ok || ot != f.Type {
			return false
		}
	}
	for n, k := range old.Nested {
		if new.Nested[n] != k {
			return false
		}
	}
	if old.Enum != nil {
		if len(new.Enum) < len(old.Enum) {
			return false
		}
		for i, c := range old.Enum {
			if new.Enum[i] != c {
				return false
			}
		}
	}
	return true
}

// ---- model ----------------------------------------------------------------------

type CKey struct {
	Acct int
	Name string
}

func (k CKey) String() string { return fmt.Sprintf("%d.%s", k.Acct, k.Name) }

// Deployed is the committed state of one (account, name).
type Deployed struct {
	Src      int
	HasValue bool   // a contract value exists (false for interfaces)
	X        string // rendering of field x of the stored value ("" when the value has no x)
	HasX     bool
	N        int // counter field of the stored value
}

// CAction is one lifecycle call inside a transaction.
type CAction struct {
	Op   string `json:"op"` // add update tryUpdate remove get borrow names version tag bump
	Acct int    `json:"acct"`
	Name string `json:"name,omitempty"`
	Src  int    `json:"src,omitempty"`
	Arg  string `json:"arg,omitempty"` // "", "int", "str": extra constructor argument of add
}

// CTx is one generated transaction.
type CTx struct {
	Actions []CAction `json:"actions"`
	Abort   bool      `json:"abort,omitempty"`
}

// CEvent is an expected AccountContract* event.
type CEvent struct {
	Type     string // flow.AccountContractAdded | Updated | Removed
	Acct     int
	Name     string
	CodeHash string // hex sha3-256 of the code
}

// CExpect is what the model says about a transaction.
type CExpect struct {
	Logs        []string
	Fails       bool
	FailAt      int    // index of the failing action; len(Actions) for the abort; -1: rejected before execution (import)
	ErrContains string // substring of the error message, or "type:<Go error type name>"
	Events      []CEvent
	HostCalls   []string // "UpdateAccountContractCode <loc>" / "RemoveAccountContractCode <loc>" in order
	Flags       map[string]bool
}

// ContractModel is the per-account lifecycle model.
type ContractModel struct {
	Accts []int
	Names []string
	Pools map[string][]Src
	State map[CKey]*Deployed
	// DepsFirst orders aliased imports so that a contract is imported before the
	// contracts importing it (avoids known finding FK4); OnReorder is called for
	// every script/transaction whose natural import order would have hit it.
	DepsFirst bool
	OnReorder func()
}

// importLines renders aliased imports of the given slots (natural order: by
// account, then name), reordered dependencies-first when DepsFirst is set.
func (m *ContractModel) importLines(keys []CKey, code map[CKey]int) string {
	trips := false
	seenImporterOf := map[CKey]bool{}
	for _, k := range keys {
		if seenImporterOf[k] {
			trips = true
		}
		if id, ok := code[k]; ok {
			if s := m.src(k, id); s.Dep != "" {
				seenImporterOf[CKey{DepAccount, s.Dep}] = true
				// transitively
				dk := CKey{DepAccount, s.Dep}
				if id2, ok2 := code[dk]; ok2 && m.src(dk, id2).Dep != "" {
					seenImporterOf[CKey{DepAccount, m.src(dk, id2).Dep}] = true
				}
			}
		}
	}
	if trips && m.DepsFirst {
		if m.OnReorder != nil {
			m.OnReorder()
		}
		keys = append([]CKey(nil), keys...)
		sort.SliceStable(keys, func(i, j int) bool { return keys[i].Name > keys[j].Name })
	}
	var b strings.Builder
	for _, k := range keys {
		fmt.Fprintf(&b, "import %s as %s from 0x%x\n", k.Name, alias(k), k.Acct)
	}
	return b.String()
}

func NewContractModel(accts []int, names []string) *ContractModel {
	m := &ContractModel{Accts: accts, Names: names, Pools: map[string][]Src{}, State: map[CKey]*Deployed{}}
	for _, n := range names {
		m.Pools[n] = Pool(n)
	}
	return m
}

func (m *ContractModel) Keys() []CKey {
	var ks []CKey
	for _, a := range m.Accts {
		for _, n := range m.Names {
			ks = append(ks, CKey{a, n})
		}
	}
	return ks
}

func (m *ContractModel) src(k CKey, id int) Src { return m.Pools[k.Name][id] }

// healthy: the slot holds a contract (not an interface) whose imports resolve to
// healthy contracts, i.e. a program importing it checks.
func (m *ContractModel) healthy(k CKey, code map[CKey]int) bool {
	id, ok := code[k]
	if !ok {
		return false
	}
	s := m.src(k, id)
	if s.Iface {
		return false
	}
	return s.Dep == "" || m.healthy(CKey{DepAccount, s.Dep}, code)
}

// deployable: the source checks in the current state of its dependency.
func (m *ContractModel) deployable(k CKey, s Src, code map[CKey]int) bool {
	return s.Valid && (s.Dep == "" || m.healthy(CKey{DepAccount, s.Dep}, code))
}

func (m *ContractModel) invalidToken(s Src) string {
	if !s.Valid {
		return s.Invalid
	}
	return "cannot deploy invalid contract" // unresolved import
}

func CodeHash(code string) string {
	h := sha3.Sum256([]byte(code))
	return hex.EncodeToString(h[:])
}

func location(k CKey) string { return fmt.Sprintf("%016x.%s", k.Acct, k.Name) }

// Apply evaluates the transaction against the model, returns the expectation and
// (when the transaction succeeds) commits its effects to the model.
func (m *ContractModel) Apply(tx CTx) CExpect {
	exp := CExpect{Flags: map[string]bool{}}

	// working copies
	code := map[CKey]int{}
	start := map[CKey]int{}
	for k, d := range m.State {
		code[k] = d.Src
		start[k] = d.Src
	}
	nval := map[CKey]int{}
	for k, d := range m.State {
		if d.HasValue {
			nval[k] = d.N
		}
	}
	recorded := map[CKey]bool{}
	pendingAdd := map[CKey]*Deployed{}
	pendingRemove := map[CKey]bool{}

	// calls need an import that resolves when the transaction is checked
	for _, a := range tx.Actions {
		switch a.Op {
		case "version", "tag", "bump", "dep":
			k := CKey{a.Acct, a.Name}
			if !m.healthy(k, start) || (a.Op == "dep" && m.src(k, start[k]).Dep == "") {
				exp.Fails, exp.FailAt = true, -1
				return exp
			}
		}
	}

	fail := func(i int, contains string) CExpect {
		exp.Fails, exp.FailAt, exp.ErrContains = true, i, contains
		exp.Events, exp.HostCalls = nil, nil
		return exp
	}
	logf := func(format string, args ...any) { exp.Logs = append(exp.Logs, fmt.Sprintf(format, args...)) }

	// change is the shared part of update and tryUpdate: "" when accepted.
	change := func(k CKey, a CAction) string {
		cur, ok := code[k]
		if !ok {
			return "cannot update non-existing contract"
		}
		s := m.src(k, a.Src)
		if !m.deployable(k, s, code) {
			return m.invalidToken(s)
		}
		if !UpdateAccepted(m.src(k, cur), s) {
			return "type:ContractUpdateError"
		}
		code[k] = a.Src
		exp.Events = append(exp.Events, CEvent{"flow.AccountContractUpdated", k.Acct, k.Name, CodeHash(s.Code)})
		exp.HostCalls = append(exp.HostCalls, "UpdateAccountContractCode "+location(k))
		return ""
	}

	for i, a := range tx.Actions {
		k := CKey{a.Acct, a.Name}
		switch a.Op {
		case "add":
			if _, ok := code[k]; ok || recorded[k] {
				if !ok {
					exp.Flags["add-after-remove-same-tx"] = true
				}
				return fail(i, "cannot overwrite existing contract")
			}
			s := m.src(k, a.Src)
			if !m.deployable(k, s, code) {
				return fail(i, m.invalidToken(s))
			}
			var dep *Deployed
			if !s.Iface {
				given := 0
				if a.Arg != "" {
					given = 1
				}
				if given != s.InitArgs {
					return fail(i, "invalid argument count")
				}
				if a.Arg == "str" {
					return fail(i, "invalid argument at index 0")
				}
				if s.InitPanics {
					return fail(i, "init-panic")
				}
				dep = &Deployed{Src: a.Src, HasValue: true}
				if _, has := s.field("x"); has {
					dep.HasX = true
					dep.X = s.XInit
					if a.Arg == "int" {
						dep.X = "77"
					}
					if s.DepInit {
						// the initializer calls the dependency (the generator only does this
						// when the dependency was not touched in this transaction)
						dk := CKey{DepAccount, s.Dep}
						dep.X = strconv.Itoa(m.src(dk, code[dk]).Version)
						if pendingAdd[dk] != nil || code[dk] != start[dk] {
							exp.Flags["importer-init-over-dependency-changed-same-tx"] = true
						}
					}
				}
			} else {
				dep = &Deployed{Src: a.Src}
			}
			code[k] = a.Src
			recorded[k] = true
			pendingAdd[k] = dep
			delete(pendingRemove, k)
			exp.Events = append(exp.Events, CEvent{"flow.AccountContractAdded", k.Acct, k.Name, CodeHash(s.Code)})
			exp.HostCalls = append(exp.HostCalls, "UpdateAccountContractCode "+location(k))
			logf("add %s", a.Name)
		case "update":
			if why := change(k, a); why != "" {
				return fail(i, why)
			}
			logf("upd %s", a.Name)
		case "tryUpdate":
			if why := change(k, a); why != "" {
				exp.Flags["tryUpdate-failed"] = true
				if _, ok := start[k]; ok && code[k] == start[k] && !m.src(k, start[k]).Iface {
					exp.Flags["tryUpdate-failed-deployed"] = true
				}
				logf("try nil")
			} else {
				logf("try %s", a.Name)
			}
		case "remove":
			cur, ok := code[k]
			if !ok {
				logf("rm nil")
				break
			}
			s := m.src(k, cur)
			if s.HasEnum() {
				exp.Flags["remove-enum-refused"] = true
				return fail(i, "type:ContractRemovalError")
			}
			if pendingAdd[k] != nil && pendingAdd[k].HasValue {
				exp.Flags["remove-after-add-same-tx"] = true
			}
			delete(code, k)
			recorded[k] = true
			delete(pendingAdd, k)
			pendingRemove[k] = true
			exp.Events = append(exp.Events, CEvent{"flow.AccountContractRemoved", k.Acct, k.Name, CodeHash(s.Code)})
			exp.HostCalls = append(exp.HostCalls, "RemoveAccountContractCode "+location(k))
			logf("rm %s", a.Name)
		case "get":
			if cur, ok := code[k]; ok {
				logf("get %s", m.src(k, cur).Code)
			} else {
				logf("get nil")
			}
		case "borrow":
			cur, ok := code[k]
			_, hasVal := nval[k]
			if ok && m.src(k, cur).Dep != "" && !m.healthy(k, code) {
				// loading the program of a contract whose import no longer resolves fails
				return fail(i, "")
			}
			// the value of a contract added in this transaction is written at commit only
			res := ok && !m.src(k, cur).Iface && hasVal && pendingAdd[k] == nil
			if ok && pendingAdd[k] != nil && pendingAdd[k].HasValue {
				exp.Flags["borrow-after-add-same-tx"] = true
			}
			logf("borrow %t", res)
		case "obs":
			var ns []string
			for _, n := range m.Names {
				if _, ok := code[CKey{a.Acct, n}]; ok {
					ns = append(ns, n)
				}
			}
			sort.Strings(ns)
			if cur, ok := code[k]; ok {
				logf("obs %s|%d|%s|%s", strings.Join(ns, ","), len(ns), a.Name, m.src(k, cur).Code)
			} else {
				logf("obs %s|%d|nil|nil", strings.Join(ns, ","), len(ns))
			}
			if len(exp.HostCalls) > 0 {
				exp.Flags["observation-after-change-same-tx"] = true
			}
		case "names":
			var ns []string
			for _, n := range m.Names {
				if _, ok := code[CKey{a.Acct, n}]; ok {
					ns = append(ns, n)
				}
			}
			sort.Strings(ns)
			logf("names %s", strings.Join(ns, ","))
		case "version":
			// the program imported when the transaction started stays in effect
			logf("ver %d", m.src(k, start[k]).Version)
			if code[k] != start[k] {
				exp.Flags["call-old-version-after-change"] = true
			}
		case "tag":
			d := m.State[k]
			if _, has := m.src(k, start[k]).field("x"); has && d.HasX {
				logf("tag %s", d.X)
			} else {
				logf("tag none")
			}
		case "bump":
			nval[k]++
			logf("bump %d", nval[k])
		case "dep":
			dk := CKey{DepAccount, m.src(k, start[k]).Dep}
			logf("dep %d", m.src(dk, start[dk]).Version)
		default:
			panic("capgen: unknown contract op " + a.Op)
		}
	}
	if tx.Abort {
		return fail(len(tx.Actions), "abort-marker")
	}

	// commit
	for k := range pendingRemove {
		delete(m.State, k)
		delete(nval, k)
	}
	for k, d := range pendingAdd {
		m.State[k] = d
		if d.HasValue {
			nval[k] = 0
		}
	}
	for k, id := range code {
		d := m.State[k]
		d.Src = id
		if d.HasValue {
			d.N = nval[k]
		}
	}
	return exp
}

// ---- rendering --------------------------------------------------------------------

func hexLit(s string) string { return `"` + hex.EncodeToString([]byte(s)) + `".decodeHex()` }

func alias(k CKey) string { return fmt.Sprintf("%s_%d", k.Name, k.Acct) }

// Source renders the transaction. Signers are all model accounts, in order.
func (m *ContractModel) Source(tx CTx) string {
	var b strings.Builder
	imported := map[CKey]bool{}
	var importKeys []CKey
	for _, a := range tx.Actions {
		switch a.Op {
		case "version", "tag", "bump", "dep":
			k := CKey{a.Acct, a.Name}
			if !imported[k] {
				imported[k] = true
				importKeys = append(importKeys, k)
			}
		}
	}
	committedNow := map[CKey]int{}
	for k, d := range m.State {
		committedNow[k] = d.Src
	}
	b.WriteString(m.importLines(importKeys, committedNow))
	b.WriteString("transaction {\n  prepare(")
	for i, a := range m.Accts {
		if i > 0 {
			b.WriteString(", ")
		}
		fmt.Fprintf(&b, "a%d: auth(Contracts) &Account", a)
	}
	b.WriteString(") {\n")
	for i, a := range tx.Actions {
		k := CKey{a.Acct, a.Name}
		acct := fmt.Sprintf("a%d", a.Acct)
		switch a.Op {
		case "add":
			extra := ""
			switch a.Arg {
			case "int":
				extra = ", 77"
			case "str":
				extra = `, "seventy-seven"`
			}
			fmt.Fprintf(&b, "    let r%d = %s.contracts.add(name: %q, code: %s%s)\n    log(\"add \".concat(r%d.name))\n",
				i, acct, a.Name, hexLit(m.src(k, a.Src).Code), extra, i)
		case "update":
			fmt.Fprintf(&b, "    let r%d = %s.contracts.update(name: %q, code: %s)\n    log(\"upd \".concat(r%d.name))\n",
				i, acct, a.Name, hexLit(m.src(k, a.Src).Code), i)
		case "tryUpdate":
			fmt.Fprintf(&b, "    let r%d = %s.contracts.tryUpdate(name: %q, code: %s)\n    log(\"try \".concat(r%d.deployedContract?.name ?? \"nil\"))\n",
				i, acct, a.Name, hexLit(m.src(k, a.Src).Code), i)
		case "remove":
			fmt.Fprintf(&b, "    let r%d = %s.contracts.remove(name: %q)\n    log(\"rm \".concat(r%d?.name ?? \"nil\"))\n", i, acct, a.Name, i)
		case "get":
			fmt.Fprintf(&b, "    if let r%d = %s.contracts.get(name: %q) { log(\"get \".concat(String.fromUTF8(r%d.code) ?? \"<bad utf8>\")) } else { log(\"get nil\") }\n",
				i, acct, a.Name, i)
		case "borrow":
			fmt.Fprintf(&b, "    log(\"borrow \".concat(%s.contracts.borrow<&AnyStruct>(name: %q) != nil ? \"true\" : \"false\"))\n", acct, a.Name)
		case "obs":
			fmt.Fprintf(&b, "    var s%d = \"\"\n    for n in %s.contracts.names { s%d = s%d.concat(s%d == \"\" ? \"\" : \",\").concat(n) }\n", i, acct, i, i, i)
			fmt.Fprintf(&b, "    let g%d = %s.contracts.get(name: %q)\n", i, acct, a.Name)
			fmt.Fprintf(&b, "    log(\"obs \".concat(s%d).concat(\"|\").concat(%s.contracts.names.length.toString()).concat(\"|\").concat(g%d?.name ?? \"nil\").concat(\"|\").concat(g%d == nil ? \"nil\" : (String.fromUTF8(g%d!.code) ?? \"<bad utf8>\")))\n",
				i, acct, i, i, i)
		case "names":
			fmt.Fprintf(&b, "    var s%d = \"\"\n    for n in %s.contracts.names { s%d = s%d.concat(s%d == \"\" ? \"\" : \",\").concat(n) }\n    log(\"names \".concat(s%d))\n", i, acct, i, i, i, i)
		case "version":
			fmt.Fprintf(&b, "    log(\"ver \".concat(%s.version().toString()))\n", alias(k))
		case "tag":
			fmt.Fprintf(&b, "    log(\"tag \".concat(%s.tag()))\n", alias(k))
		case "bump":
			fmt.Fprintf(&b, "    log(\"bump \".concat(%s.bump().toString()))\n", alias(k))
		case "dep":
			fmt.Fprintf(&b, "    log(\"dep \".concat(%s.dep().toString()))\n", alias(k))
		}
	}
	if tx.Abort {
		b.WriteString("    panic(\"abort-marker\")\n")
	}
	b.WriteString("  }\n}\n")
	return b.String()
}

// VerifyScript renders the script that reads back the complete committed state,
// and the lines it must return according to the model.
func (m *ContractModel) VerifyScript() (string, []string) {
	var body strings.Builder
	var importKeys []CKey
	var want []string
	committed := map[CKey]int{}
	for k, d := range m.State {
		committed[k] = d.Src
	}
	for _, a := range m.Accts {
		fmt.Fprintf(&body, "  let a%d = getAccount(0x%x)\n", a, a)
		var ns []string
		for _, n := range m.Names {
			if _, ok := m.State[CKey{a, n}]; ok {
				ns = append(ns, n)
			}
		}
		sort.Strings(ns)
		fmt.Fprintf(&body, "  out.append(\"names %d \".concat(joined(a%d.contracts.names)))\n", a, a)
		want = append(want, fmt.Sprintf("names %d %s", a, strings.Join(ns, ",")))
		for _, n := range m.Names {
			k := CKey{a, n}
			d := m.State[k]
			fmt.Fprintf(&body, "  out.append(\"get %s \".concat(codeOf(a%d.contracts.get(name: %q))))\n", k, a, n)
			// a contract whose import no longer resolves cannot be loaded: neither borrowed nor imported
			broken := d != nil && !m.src(k, d.Src).Iface && !m.healthy(k, committed)
			if !broken {
				fmt.Fprintf(&body, "  out.append(\"borrow %s \".concat(a%d.contracts.borrow<&AnyStruct>(name: %q) != nil ? \"true\" : \"false\"))\n", k, a, n)
			}
			if d == nil {
				want = append(want, fmt.Sprintf("get %s nil", k), fmt.Sprintf("borrow %s false", k))
				continue
			}
			s := m.src(k, d.Src)
			want = append(want, fmt.Sprintf("get %s %s", k, s.Code))
			if broken {
				continue
			}
			want = append(want, fmt.Sprintf("borrow %s %t", k, d.HasValue))
			if s.Iface {
				continue
			}
			importKeys = append(importKeys, k)
			fmt.Fprintf(&body, "  out.append(\"state %s \".concat(%s.version().toString()).concat(\" \").concat(%s.tag()).concat(\" \").concat(%s.n.toString()))\n",
				k, alias(k), alias(k), alias(k))
			tag := "none"
			if _, has := s.field("x"); has && d.HasX {
				tag = d.X
			}
			want = append(want, fmt.Sprintf("state %s %d %s %d", k, s.Version, tag, d.N))
			if s.Dep != "" {
				dk := CKey{DepAccount, s.Dep}
				fmt.Fprintf(&body, "  out.append(\"dep %s \".concat(%s.dep().toString()))\n", k, alias(k))
				want = append(want, fmt.Sprintf("dep %s %d", k, m.src(dk, committed[dk]).Version))
			}
		}
	}
	src := m.importLines(importKeys, committed) +
		"access(all) fun codeOf(_ c: DeployedContract?): String {\n  if let d = c { return String.fromUTF8(d.code) ?? \"<bad utf8>\" }\n  return \"nil\"\n}\n" +
		"access(all) fun joined(_ names: &[String]): String {\n  var s = \"\"\n  for n in names { s = s.concat(s == \"\" ? \"\" : \",\").concat(n) }\n  return s\n}\n" +
		"access(all) fun main(): [String] {\n  let out: [String] = []\n" + body.String() + "  return out\n}\n"
	return src, want
}

// ---- generator ----------------------------------------------------------------------

// ContractGenOptions tune the generator.
type ContractGenOptions struct {
	MaxActions int // total number of actions of the history (default 25)
	// Avoid lists known findings whose trigger must not be generated; OnAvoid is
	// called for each suppressed action.
	//   FK1: `borrow` of a contract added earlier in the same transaction
	//   FK2: `remove` of a contract (not interface) added earlier in the same transaction
	//   FK4: (VM) an aliased import after the import of a contract that imports the same contract
	Avoid   map[string]bool
	OnAvoid func(id string)
}

// ContractStep is one generated transaction with its expectation and the
// verification script that follows it.
type ContractStep struct {
	Tx         CTx
	Source     string
	Expect     CExpect
	Verify     string
	VerifyWant []string
}

// ContractHistory is a generated lifecycle history with the model's predictions.
type ContractHistory struct {
	Accts []int
	Names []string
	Steps []ContractStep
}

var validIDs = []int{SV1, SCompatFn, SCompatNested, SFieldAdded, SFieldRetyped, SFieldRemoved, SEnum, SEnumMore, SEnumReordered, SInterface, SInterface2, SImporter, SImporterInit, SInitPanics}

// genGoals steers the generator towards the ingredients of a non-trivial history.
type genGoals struct {
	failedTry      bool          // a tryUpdate failed on a deployed contract
	addAfterRemove bool          // an add succeeded on a name removed by an earlier transaction
	removed        map[CKey]bool // names removed by committed transactions
}

// goalAction returns an action that works towards an unmet goal, if one applies.
func (m *ContractModel) goalAction(c Chooser, g *genGoals, shadow map[CKey]int, start map[CKey]int, addedHere map[CKey]bool) (CAction, bool) {
	if !g.failedTry {
		var cand []CKey
		for _, k := range m.Keys() {
			if id, ok := shadow[k]; ok && start[k] == id && !m.src(k, id).Iface {
				if _, was := start[k]; was {
					cand = append(cand, k)
				}
			}
		}
		if len(cand) > 0 {
			k := cand[c.Intn("goalkey", len(cand))]
			var no []int
			for _, id := range validIDs {
				if !UpdateAccepted(m.src(k, shadow[k]), m.src(k, id)) {
					no = append(no, id)
				}
			}
			if len(no) > 0 {
				return CAction{Op: "tryUpdate", Acct: k.Acct, Name: k.Name, Src: no[c.Intn("goalsrc", len(no))]}, true
			}
		}
	}
	if !g.addAfterRemove {
		var free, removable []CKey
		for _, k := range m.Keys() {
			id, dep := shadow[k]
			_, atStart := start[k]
			switch {
			case !dep && g.removed[k] && !atStart:
				free = append(free, k)
			case dep && atStart && !addedHere[k] && !m.src(k, id).HasEnum():
				removable = append(removable, k)
			}
		}
		if len(free) > 0 {
			k := free[c.Intn("goalkey", len(free))]
			return CAction{Op: "add", Acct: k.Acct, Name: k.Name, Src: []int{SV1, SCompatFn, SFieldAdded, SFieldRetyped}[c.Intn("goalsrc", 4)]}, true
		}
		if len(removable) > 0 {
			k := removable[c.Intn("goalkey", len(removable))]
			return CAction{Op: "remove", Acct: k.Acct, Name: k.Name}, true
		}
	}
	return CAction{}, false
}

func (m *ContractModel) genAction(c Chooser, tx *CTx, shadow map[CKey]int, start map[CKey]int, addedHere map[CKey]bool, o ContractGenOptions) (CAction, bool) {
	acct := m.Accts[c.Intn("acct", len(m.Accts))]
	name := m.Names[c.Intn("name", len(m.Names))]
	k := CKey{acct, name}
	cur, deployed := shadow[k]
	anySrc := func() int { return c.Intn("src", numSources) }
	sensible := !Chance(c, "wild", 1, 5)
	op := Weighted(c, "op", []int{20, 14, 14, 14, 5, 6, 5, 8, 4, 6})
	switch op {
	case 0: // add
		a := CAction{Op: "add", Acct: acct, Name: name}
		if sensible {
			if deployed {
				// pick a free name instead, if there is one
				var free []CKey
				for _, kk := range m.Keys() {
					if _, d := shadow[kk]; !d {
						free = append(free, kk)
					}
				}
				if len(free) > 0 {
					kk := free[c.Intn("free", len(free))]
					a.Acct, a.Name = kk.Acct, kk.Name
				} else if !(o.Avoid["FK2"] && addedHere[k]) && !m.src(k, cur).HasEnum() {
					// everything is occupied: make room instead
					return CAction{Op: "remove", Acct: acct, Name: name}, true
				}
			}
			a.Src = validIDs[c.Intn("validsrc", len(validIDs)-1)] // not init-panics
			if Chance(c, "initarg", 1, 8) {
				a.Src = SInitArg
				a.Arg = "int"
			}
		} else {
			a.Src = anySrc()
			a.Arg = []string{"", "", "", "int", "str"}[c.Intn("arg", 5)]
			if a.Src == SInitArg && Chance(c, "argok", 1, 2) {
				a.Arg = "int"
			}
		}
		return a, true
	case 1, 2: // update / tryUpdate
		a := CAction{Op: "update", Acct: acct, Name: name}
		if op == 2 {
			a.Op = "tryUpdate"
		}
		if !deployed && sensible {
			var used []CKey
			for _, kk := range m.Keys() {
				if _, d := shadow[kk]; d {
					used = append(used, kk)
				}
			}
			if len(used) > 0 {
				k = used[c.Intn("used", len(used))]
				a.Acct, a.Name = k.Acct, k.Name
				cur, deployed = shadow[k]
			}
		}
		// update: mostly accepted; tryUpdate: mostly a valid but incompatible source
		mode := Weighted(c, "updmode", []int{12, 5, 3})
		if op == 2 {
			mode = Weighted(c, "trymode", []int{7, 10, 3})
		}
		if !sensible {
			mode = 2
		}
		a.Src = anySrc()
		if deployed && mode < 2 {
			var yes, no []int
			for _, id := range validIDs {
				if UpdateAccepted(m.src(k, cur), m.src(k, id)) {
					yes = append(yes, id)
				} else {
					no = append(no, id)
				}
			}
			pickFrom := yes
			if mode == 1 {
				pickFrom = no
			}
			if len(pickFrom) > 0 {
				a.Src = pickFrom[c.Intn("updsrc", len(pickFrom))]
			}
		}
		return a, true
	case 3:
		if o.Avoid["FK2"] && addedHere[k] {
			if o.OnAvoid != nil {
				o.OnAvoid("FK2")
			}
			return CAction{}, false
		}
		return CAction{Op: "remove", Acct: acct, Name: name}, true
	case 4:
		return CAction{Op: "get", Acct: acct, Name: name}, true
	case 5:
		if o.Avoid["FK1"] && addedHere[k] {
			if o.OnAvoid != nil {
				o.OnAvoid("FK1")
			}
			return CAction{}, false
		}
		return CAction{Op: "borrow", Acct: acct, Name: name}, true
	case 6:
		return CAction{Op: "names", Acct: acct}, true
	default: // calls
		opn := []string{"version", "version", "tag", "bump", "bump"}[c.Intn("call", 5)]
		if !m.healthy(k, start) && !Chance(c, "badimport", 1, 12) {
			// look for a callable contract
			var callable []CKey
			for _, kk := range m.Keys() {
				if m.healthy(kk, start) {
					callable = append(callable, kk)
				}
			}
			if len(callable) == 0 {
				return CAction{}, false
			}
			kk := callable[c.Intn("callable", len(callable))]
			acct, name = kk.Acct, kk.Name
			k = kk
		}
		if id, ok := start[k]; ok && m.src(k, id).Dep != "" && m.healthy(k, start) && Chance(c, "depcall", 1, 2) {
			opn = "dep"
		}
		return CAction{Op: opn, Acct: acct, Name: name}, true
	}
}

// orderDependent: the outcome of the action would depend on which version of a
// dependency's program the transaction happened to load first (or it trips over
// FK1): deploying an importer after its dependency was touched in the same
// transaction, or loading a contract whose import no longer resolves.
func (m *ContractModel) orderDependent(a CAction, shadow map[CKey]int, start map[CKey]int, addedHere map[CKey]bool, o ContractGenOptions) bool {
	k := CKey{a.Acct, a.Name}
	switch a.Op {
	case "add", "update", "tryUpdate":
		s := m.src(k, a.Src)
		if s.Dep == "" {
			return false
		}
		dk := CKey{DepAccount, s.Dep}
		sid, sok := start[dk]
		cid, cok := shadow[dk]
		if sok != cok || sid != cid {
			if addedHere[dk] && a.Op == "add" && s.DepInit && o.Avoid["FK1"] && o.OnAvoid != nil {
				o.OnAvoid("FK1")
			}
			return true
		}
	case "borrow":
		if id, ok := shadow[k]; ok && m.src(k, id).Dep != "" && !m.healthy(k, shadow) {
			return true
		}
	}
	return false
}

// shadowApply tracks which source would be deployed after the action, assuming
// the transaction goes on (used only to steer generation).
func (m *ContractModel) shadowApply(a CAction, shadow map[CKey]int, addedHere map[CKey]bool) {
	k := CKey{a.Acct, a.Name}
	switch a.Op {
	case "add":
		if _, ok := shadow[k]; !ok && m.deployable(k, m.src(k, a.Src), shadow) {
			shadow[k] = a.Src
			if !m.src(k, a.Src).Iface {
				addedHere[k] = true
			}
		}
	case "update", "tryUpdate":
		if cur, ok := shadow[k]; ok && m.deployable(k, m.src(k, a.Src), shadow) && UpdateAccepted(m.src(k, cur), m.src(k, a.Src)) {
			shadow[k] = a.Src
		}
	case "remove":
		if cur, ok := shadow[k]; ok && !m.src(k, cur).HasEnum() {
			delete(shadow, k)
			delete(addedHere, k)
		}
	}
}

// GenContractHistory generates a history of lifecycle transactions, each followed
// by a verification script, with the model's expectation for every step.
func GenContractHistory(c Chooser, o ContractGenOptions) *ContractHistory {
	if o.MaxActions == 0 {
		o.MaxActions = 25
	}
	m := NewContractModel([]int{1, 2}, []string{"A", "B", "C"})
	if o.Avoid["FK4"] {
		m.DepsFirst = true
		m.OnReorder = func() {
			if o.OnAvoid != nil {
				o.OnAvoid("FK4")
			}
		}
	}
	h := &ContractHistory{Accts: m.Accts, Names: m.Names}
	total := 10 + c.Intn("actions", o.MaxActions-9)
	goals := &genGoals{removed: map[CKey]bool{}}
	for n := 0; n < total; {
		tx := CTx{}
		shadow := map[CKey]int{}
		start := map[CKey]int{}
		for k, d := range m.State {
			shadow[k], start[k] = d.Src, d.Src
		}
		addedHere := map[CKey]bool{}
		cnt := 1 + c.Intn("txlen", 3)
		for i := 0; i < cnt; i++ {
			var a CAction
			ok := false
			if (!goals.failedTry || !goals.addAfterRemove) && Chance(c, "goal", 2, 5) {
				a, ok = m.goalAction(c, goals, shadow, start, addedHere)
			}
			if !ok {
				a, ok = m.genAction(c, &tx, shadow, start, addedHere, o)
			}
			n++
			if !ok || m.orderDependent(a, shadow, start, addedHere, o) {
				continue
			}
			lifecycle := a.Op == "add" || a.Op == "update" || a.Op == "tryUpdate" || a.Op == "remove"
			k := CKey{a.Acct, a.Name}
			callable := m.healthy(k, start)
			// observe through the same account reference before and after every
			// lifecycle call: names, names.length, get(name:) and a call of the contract
			if lifecycle && Chance(c, "pre-observe", 1, 2) {
				tx.Actions = append(tx.Actions, CAction{Op: "obs", Acct: a.Acct, Name: a.Name})
				if callable && Chance(c, "pre-call", 1, 2) {
					tx.Actions = append(tx.Actions, CAction{Op: "version", Acct: a.Acct, Name: a.Name})
				}
			}
			m.shadowApply(a, shadow, addedHere)
			tx.Actions = append(tx.Actions, a)
			if lifecycle {
				tx.Actions = append(tx.Actions, CAction{Op: "obs", Acct: a.Acct, Name: a.Name})
				if b := (CAction{Op: "borrow", Acct: a.Acct, Name: a.Name}); !(o.Avoid["FK1"] && addedHere[k]) &&
					!m.orderDependent(b, shadow, start, addedHere, o) && Chance(c, "post-borrow", 1, 2) {
					tx.Actions = append(tx.Actions, b)
				}
				if callable && Chance(c, "post-call", 2, 3) {
					tx.Actions = append(tx.Actions, CAction{Op: []string{"version", "tag", "bump"}[c.Intn("which-call", 3)], Acct: a.Acct, Name: a.Name})
				}
			}
		}
		if len(tx.Actions) == 0 {
			continue
		}
		tx.Abort = Chance(c, "abort", 1, 10)
		st := ContractStep{Tx: tx, Source: m.Source(tx)}
		st.Expect = m.Apply(tx)
		st.Verify, st.VerifyWant = m.VerifyScript()
		h.Steps = append(h.Steps, st)
		if !st.Expect.Fails {
			if st.Expect.Flags["tryUpdate-failed-deployed"] {
				goals.failedTry = true
			}
			for _, a := range tx.Actions {
				k := CKey{a.Acct, a.Name}
				switch a.Op {
				case "remove":
					if _, still := m.State[k]; !still {
						goals.removed[k] = true
					}
				case "add":
					if goals.removed[k] {
						goals.addAfterRemove = true
					}
				}
			}
		}
	}
	return h
}

// Prog converts the history to the common executable form.
func (h *ContractHistory) Prog() prog.History {
	var signers []uint64
	for _, a := range h.Accts {
		signers = append(signers, uint64(a))
	}
	out := prog.History{Origin: "capgen.contracts", Features: []string{"contracts"}}
	for _, s := range h.Steps {
		out.Steps = append(out.Steps,
			prog.Step{Kind: prog.Tx, Source: s.Source, Signers: signers, MayFail: s.Expect.Fails},
			prog.Step{Kind: prog.Script, Source: s.Verify})
	}
	return out
}
