package capgen

import (
	"fmt"
	"sort"
	"strings"

	"verif/lib/prog"
)

// ---- contract IR for update pairs (C27) ---------------------------------------------

// ImpContract is a second, fixed contract the generated contracts import, so that
// types and conformances can be written through an imported contract (Imp.A, Imp.I).
const ImpContract = `access(all) contract Imp {
    access(all) struct interface I {}
    access(all) struct interface J {}
    access(all) resource interface RI {}
    access(all) resource interface RJ {}
    access(all) struct A { access(all) let a: Int; init() { self.a = 1 } }
    access(all) struct B { access(all) let b: Int; init() { self.b = 2 } }
}
`

func isExt(name string) bool { return strings.HasPrefix(name, "Imp.") }

// norm strips the spelling "C." from a conformance written in qualified form.
func (c *UContract) norm(cf string) string { return strings.TrimPrefix(cf, c.Name+".") }

// UType is a field type of the generated contracts.
type UType struct {
	K    string // Int Int8 String Bool | opt arr carr dict | named (composite or enum) | iface ({Name}) | ext (Imp.A / Imp.B) | cap (Capability<&Elem>, contract fields only)
	Elem *UType
	N    int    // carr size
	Name string // named / iface
	// Qualified: written as C.Name instead of Name (same type, other spelling)
	Qualified bool
}

func (t *UType) clone() *UType {
	if t == nil {
		return nil
	}
	c := *t
	c.Elem = t.Elem.clone()
	return &c
}

type UField struct {
	Name   string
	Type   *UType
	Access string // "access(all)" | "access(self)" | "access(contract)"
	Var    bool
	Seed   int // selects the default value
}

// UDecl is a nested declaration.
type UDecl struct {
	Kind     string // struct resource enum sinterface rinterface event
	Name     string
	Fields   []UField
	Conforms []string
	Cases    []string
	RawType  string // enums
}

// UContract is a generated contract.
type UContract struct {
	Name    string
	Decls   []*UDecl
	Fields  []UField // contract fields
	Removed []string // #removedType pragmas
	nextID  int
}

func (c *UContract) clone() *UContract {
	n := &UContract{Name: c.Name, Removed: append([]string(nil), c.Removed...), nextID: c.nextID}
	cf := func(fs []UField) []UField {
		out := make([]UField, len(fs))
		for i, f := range fs {
			out[i] = f
			out[i].Type = f.Type.clone()
		}
		return out
	}
	n.Fields = cf(c.Fields)
	for _, d := range c.Decls {
		nd := *d
		nd.Fields = cf(d.Fields)
		nd.Conforms = append([]string(nil), d.Conforms...)
		nd.Cases = append([]string(nil), d.Cases...)
		n.Decls = append(n.Decls, &nd)
	}
	return n
}

func (c *UContract) decl(name string) *UDecl {
	for _, d := range c.Decls {
		if d.Name == name {
			return d
		}
	}
	return nil
}

func (c *UContract) isResource(t *UType) bool {
	switch t.K {
	case "opt", "arr", "carr", "dict":
		return c.isResource(t.Elem)
	case "named", "iface":
		d := c.decl(t.Name)
		return d != nil && (d.Kind == "resource" || d.Kind == "rinterface")
	}
	return false // ext types are structs; a capability is a struct value
}

func (c *UContract) bare(t *UType) string {
	switch t.K {
	case "opt":
		return c.bare(t.Elem) + "?"
	case "arr":
		return "[" + c.bare(t.Elem) + "]"
	case "carr":
		return fmt.Sprintf("[%s; %d]", c.bare(t.Elem), t.N)
	case "dict":
		return "{String: " + c.bare(t.Elem) + "}"
	case "named":
		if t.Qualified {
			return c.Name + "." + t.Name
		}
		return t.Name
	case "iface":
		if t.Qualified {
			return "{" + c.Name + "." + t.Name + "}"
		}
		return "{" + t.Name + "}"
	case "ext":
		return "Imp." + t.Name
	case "cap":
		return "Capability<&" + c.bare(t.Elem) + ">"
	}
	return t.K
}

// typeSrc renders a type annotation (with @ for resource types).
func (c *UContract) typeSrc(t *UType) string {
	if c.isResource(t) {
		return "@" + c.bare(t)
	}
	return c.bare(t)
}

// closure returns the interfaces the declaration conforms to, directly or through
// interface inheritance (sorted).
func (c *UContract) closure(d *UDecl) []string {
	seen := map[string]bool{}
	var walk func(names []string)
	walk = func(names []string) {
		for _, n := range names {
			n = c.norm(n)
			if seen[n] {
				continue
			}
			seen[n] = true
			if id := c.decl(n); id != nil {
				walk(id.Conforms)
			}
		}
	}
	walk(d.Conforms)
	var out []string
	for n := range seen {
		out = append(out, n)
	}
	sort.Strings(out)
	return out
}

func (c *UContract) conformsTo(d *UDecl, iface string) bool {
	for _, n := range c.closure(d) {
		if n == iface {
			return true
		}
	}
	return false
}

// implOf returns a composite conforming to the interface (the first one).
func (c *UContract) implOf(iface string) *UDecl {
	for _, d := range c.Decls {
		if (d.Kind == "struct" || d.Kind == "resource") && c.conformsTo(d, iface) {
			return d
		}
	}
	return nil
}

// value renders a default value expression of the type (with <- for resources).
func (c *UContract) value(t *UType, seed int) string {
	res := c.isResource(t)
	mv := ""
	if res {
		mv = "<- "
	}
	switch t.K {
	case "Int":
		return fmt.Sprint(100 + seed)
	case "Int8":
		return fmt.Sprint(seed % 100)
	case "String":
		return fmt.Sprintf("\"s%d\"", seed)
	case "Bool":
		return []string{"true", "false"}[seed%2]
	case "opt":
		if seed%4 == 3 {
			return "nil"
		}
		return c.value(t.Elem, seed)
	case "arr":
		return mv + "[" + c.value(t.Elem, seed) + ", " + c.value(t.Elem, seed+1) + "]"
	case "carr":
		var vs []string
		for i := 0; i < t.N; i++ {
			vs = append(vs, c.value(t.Elem, seed+i))
		}
		return mv + "[" + strings.Join(vs, ", ") + "]"
	case "dict":
		return mv + "{\"k\": " + c.value(t.Elem, seed) + "}"
	case "named":
		d := c.decl(t.Name)
		switch d.Kind {
		case "enum":
			return fmt.Sprintf("%s.%s", d.Name, d.Cases[seed%len(d.Cases)])
		case "resource":
			return "<- create " + d.Name + "()"
		default:
			return d.Name + "()"
		}
	case "iface":
		d := c.implOf(t.Name)
		if d.Kind == "resource" {
			return "<- create " + d.Name + "()"
		}
		return d.Name + "()"
	case "ext":
		return "Imp." + t.Name + "()"
	case "cap":
		return fmt.Sprintf("self.account.capabilities.storage.issue<&%s>(/storage/capTarget%d)", c.bare(t.Elem), seed)
	}
	panic("capgen: value of " + t.K)
}

// chkField renders the statements that validate one field inside chk().
func (c *UContract) chkField(f UField, where string) string {
	var b strings.Builder
	fmt.Fprintf(&b, "        if !self.%s.isInstance(Type<%s>()) { return \"%s.%s is not a %s\" }\n", f.Name, c.typeSrc(f.Type), where, f.Name, c.bare(f.Type))
	// descend into directly nested composites
	t := f.Type
	isComposite := func(t *UType) bool {
		if t.K != "named" {
			return false
		}
		d := c.decl(t.Name)
		return d != nil && (d.Kind == "struct" || d.Kind == "resource")
	}
	switch {
	case isComposite(t):
		fmt.Fprintf(&b, "        if self.%s.chk() != \"\" { return \"%s.%s: \".concat(self.%s.chk()) }\n", f.Name, where, f.Name, f.Name)
	case t.K == "arr" && isComposite(t.Elem):
		fmt.Fprintf(&b, "        for x in &self.%s as &%s { if x.chk() != \"\" { return \"%s.%s[]: \".concat(x.chk()) } }\n", f.Name, c.bare(t), where, f.Name)
	}
	return b.String()
}

func (c *UContract) fieldDecl(f UField) string {
	kw := "let"
	if f.Var {
		kw = "var"
	}
	return fmt.Sprintf("%s %s %s: %s", f.Access, kw, f.Name, c.typeSrc(f.Type))
}

func (c *UContract) initStmt(f UField) string {
	if c.isResource(f.Type) {
		v := c.value(f.Type, f.Seed)
		if !strings.HasPrefix(v, "<- ") {
			v = "<- " + v // nil
		}
		return fmt.Sprintf("self.%s %s", f.Name, v)
	}
	return fmt.Sprintf("self.%s = %s", f.Name, c.value(f.Type, f.Seed))
}

// Source renders the contract. withChk adds the self-check functions used by the
// reader (functions may change freely between versions).
func (c *UContract) Source(withChk bool) string {
	var b strings.Builder
	fmt.Fprintf(&b, "import Imp from 0x%x\naccess(all) contract %s {\n", UpdateAccount, c.Name)
	for _, r := range c.Removed {
		fmt.Fprintf(&b, "    #removedType(%s)\n", r)
	}
	for _, f := range c.Fields {
		fmt.Fprintf(&b, "    %s\n", c.fieldDecl(f))
	}
	for _, d := range c.Decls {
		switch d.Kind {
		case "sinterface", "rinterface":
			kw := "struct"
			if d.Kind == "rinterface" {
				kw = "resource"
			}
			conf := ""
			if len(d.Conforms) > 0 {
				conf = ": " + strings.Join(d.Conforms, ", ")
			}
			fmt.Fprintf(&b, "    access(all) %s interface %s%s {}\n", kw, d.Name, conf)
		case "event":
			var ps []string
			for _, f := range d.Fields {
				ps = append(ps, f.Name+": "+c.bare(f.Type))
			}
			fmt.Fprintf(&b, "    access(all) event %s(%s)\n", d.Name, strings.Join(ps, ", "))
		case "enum":
			fmt.Fprintf(&b, "    access(all) enum %s: %s {", d.Name, d.RawType)
			for _, cs := range d.Cases {
				fmt.Fprintf(&b, " access(all) case %s;", cs)
			}
			b.WriteString(" }\n")
		default:
			conf := ""
			if len(d.Conforms) > 0 {
				conf = ": " + strings.Join(d.Conforms, ", ")
			}
			fmt.Fprintf(&b, "    access(all) %s %s%s {\n", d.Kind, d.Name, conf)
			var inits []string
			for _, f := range d.Fields {
				fmt.Fprintf(&b, "        %s\n", c.fieldDecl(f))
				inits = append(inits, c.initStmt(f))
			}
			fmt.Fprintf(&b, "        init() { %s }\n", strings.Join(inits, "; "))
			if withChk {
				b.WriteString("        access(all) fun chk(): String {\n")
				for _, f := range d.Fields {
					b.WriteString(c.chkField(f, d.Name))
				}
				b.WriteString("        return \"\"\n        }\n")
			}
			b.WriteString("    }\n")
			if d.Kind == "resource" {
				fmt.Fprintf(&b, "    access(all) fun mk%s(): @%s { return <- create %s() }\n", d.Name, d.Name, d.Name)
			}
		}
	}
	if withChk {
		b.WriteString("    access(all) fun chk(): String {\n")
		for _, f := range c.Fields {
			b.WriteString(c.chkField(f, c.Name))
		}
		b.WriteString("        return \"\"\n    }\n")
	}
	var inits []string
	for _, f := range c.Fields {
		inits = append(inits, c.initStmt(f))
	}
	fmt.Fprintf(&b, "    init() { %s }\n}\n", strings.Join(inits, "; "))
	return b.String()
}

// ---- generation ---------------------------------------------------------------------------

func (c *UContract) fresh(prefix string) string {
	c.nextID++
	return fmt.Sprintf("%s%d", prefix, c.nextID)
}

// randType draws a field type. upto: only declarations with index < upto may be
// referenced (no cycles); allowRes: resource types are allowed (resource and
// contract fields).
func (c *UContract) randType(ch Chooser, upto int, allowRes bool, depth int) *UType {
	var named []*UType
	for i := 0; i < upto && i < len(c.Decls); i++ {
		d := c.Decls[i]
		switch d.Kind {
		case "struct", "enum":
			named = append(named, &UType{K: "named", Name: d.Name})
		case "resource":
			if allowRes {
				named = append(named, &UType{K: "named", Name: d.Name})
			}
		case "sinterface":
			if im := c.implOf(d.Name); im != nil && c.indexOf(im.Name) < upto {
				named = append(named, &UType{K: "iface", Name: d.Name})
			}
		case "rinterface":
			if im := c.implOf(d.Name); allowRes && im != nil && c.indexOf(im.Name) < upto {
				named = append(named, &UType{K: "iface", Name: d.Name})
			}
		}
	}
	w := []int{4, 1, 3, 1, 0, 0, 0, 0, 0}
	if depth < 2 {
		w[4], w[5], w[6], w[7] = 2, 3, 3, 2
	}
	if len(named) > 0 {
		w[8] = 8
	}
	switch Weighted(ch, "type", w) {
	case 0:
		return &UType{K: "Int"}
	case 1:
		return &UType{K: "Int8"}
	case 2:
		return &UType{K: "String"}
	case 3:
		return &UType{K: "Bool"}
	case 4:
		return &UType{K: "opt", Elem: c.randType(ch, upto, allowRes, depth+1)}
	case 5:
		return &UType{K: "arr", Elem: c.randType(ch, upto, allowRes, depth+1)}
	case 6:
		return &UType{K: "carr", N: 1 + ch.Intn("n", 2), Elem: c.randType(ch, upto, allowRes, depth+1)}
	case 7:
		return &UType{K: "dict", Elem: c.randType(ch, upto, allowRes, depth+1)}
	default:
		if Chance(ch, "ext", 1, 6) {
			return &UType{K: "ext", Name: []string{"A", "B"}[ch.Intn("extname", 2)]}
		}
		t := named[ch.Intn("named", len(named))]
		t.Qualified = Chance(ch, "qualified", 2, 5)
		return t
	}
}

func (c *UContract) indexOf(name string) int {
	for i, d := range c.Decls {
		if d.Name == name {
			return i
		}
	}
	return -1
}

func (c *UContract) randField(ch Chooser, upto int, allowRes bool) UField {
	return UField{Name: c.fresh("f"), Type: c.randType(ch, upto, allowRes, 0), Access: "access(all)", Var: Chance(ch, "var", 1, 3), Seed: ch.Intn("seed", 8)}
}

// GenUContract generates a contract with nested interfaces, enums, structs and
// resources whose fields use containers, optionals, interface and enum types.
func GenUContract(ch Chooser, name string) *UContract {
	c := &UContract{Name: name}
	c.Decls = append(c.Decls, &UDecl{Kind: "sinterface", Name: "SI"}, &UDecl{Kind: "rinterface", Name: "RI"})
	// interface inheritance: SI2: SI and RI2: RI (most of the time)
	si2 := &UDecl{Kind: "sinterface", Name: "SI2"}
	ri2 := &UDecl{Kind: "rinterface", Name: "RI2"}
	if !Chance(ch, "flat-si", 1, 4) {
		si2.Conforms = []string{"SI"}
	}
	if !Chance(ch, "flat-ri", 1, 4) {
		ri2.Conforms = []string{"RI"}
	}
	c.Decls = append(c.Decls, si2, ri2)
	ne := 1 + ch.Intn("enums", 2)
	for i := 0; i < ne; i++ {
		d := &UDecl{Kind: "enum", Name: c.fresh("E"), RawType: "UInt8"}
		for k := 0; k < 2+ch.Intn("cases", 3); k++ {
			d.Cases = append(d.Cases, fmt.Sprintf("c%d", k))
		}
		c.Decls = append(c.Decls, d)
	}
	n := 2 + ch.Intn("composites", 4)
	for i := 0; i < n; i++ {
		kind := "struct"
		if Chance(ch, "resource", 1, 3) {
			kind = "resource"
		}
		d := &UDecl{Kind: kind}
		if kind == "struct" {
			d.Name = c.fresh("S")
			if i == 0 || Chance(ch, "conforms", 1, 2) {
				d.Conforms = []string{[]string{"SI", "SI2", "SI2"}[ch.Intn("iface", 3)]}
			}
			if Chance(ch, "extconforms", 1, 3) {
				d.Conforms = append(d.Conforms, []string{"Imp.I", "Imp.J"}[ch.Intn("extiface", 2)])
			}
		} else {
			d.Name = c.fresh("R")
			if Chance(ch, "conforms", 1, 2) {
				d.Conforms = []string{[]string{"RI", "RI2", "RI2"}[ch.Intn("iface", 3)]}
			}
			if Chance(ch, "extconforms", 1, 3) {
				d.Conforms = append(d.Conforms, []string{"Imp.RI", "Imp.RJ"}[ch.Intn("extiface", 2)])
			}
		}
		upto := len(c.Decls)
		c.Decls = append(c.Decls, d)
		for k := 0; k < 1+ch.Intn("fields", 4); k++ {
			d.Fields = append(d.Fields, c.randField(ch, upto, kind == "resource"))
		}
	}
	if Chance(ch, "event", 1, 3) {
		c.Decls = append(c.Decls, &UDecl{Kind: "event", Name: c.fresh("Ev"), Fields: []UField{{Name: c.fresh("f"), Type: &UType{K: "Int"}, Access: "access(all)"}}})
	}
	for k := 0; k < ch.Intn("cfields", 4); k++ {
		f := c.randField(ch, len(c.Decls), true)
		if comps := c.composites(); Chance(ch, "capfield", 1, 4) {
			d := comps[ch.Intn("captarget", len(comps))]
			f.Type = &UType{K: "cap", Elem: &UType{K: "named", Name: d.Name, Qualified: Chance(ch, "qualified", 1, 2)}}
			f.Seed = k
		}
		c.Fields = append(c.Fields, f)
	}
	return c
}

// ---- mutation ------------------------------------------------------------------------------

// Mutation kinds (class labels).
var MutationKinds = []string{
	"field-add", "field-remove", "field-retype", "field-retype-subtle", "field-reorder", "field-rename", "field-access", "field-let-var",
	"decl-add", "decl-remove", "decl-remove-pragma", "conformance-add", "conformance-remove",
	"iface-inherit-remove", "iface-inherit-add", "field-retype-sibling", "conformance-swap",
	"enum-case-append", "enum-case-insert", "enum-case-remove", "enum-case-swap", "enum-rawtype", "kind-change",
	"contract-field-add", "contract-field-remove", "contract-field-retype",
}

// refs reports whether any field type (or conformance) refers to the declaration.
func (c *UContract) refs(name string) bool {
	var uses func(t *UType) bool
	uses = func(t *UType) bool {
		if t == nil {
			return false
		}
		if (t.K == "named" || t.K == "iface") && t.Name == name {
			return true
		}
		return uses(t.Elem)
	}
	for _, f := range c.Fields {
		if uses(f.Type) {
			return true
		}
	}
	for _, d := range c.Decls {
		for _, f := range d.Fields {
			if uses(f.Type) {
				return true
			}
		}
		for _, cf := range d.Conforms {
			if c.norm(cf) == name {
				return true
			}
		}
	}
	return false
}

func (c *UContract) composites() []*UDecl {
	var out []*UDecl
	for _, d := range c.Decls {
		if d.Kind == "struct" || d.Kind == "resource" {
			out = append(out, d)
		}
	}
	return out
}

func (c *UContract) enums() []*UDecl {
	var out []*UDecl
	for _, d := range c.Decls {
		if d.Kind == "enum" {
			out = append(out, d)
		}
	}
	return out
}

// subtle returns a type that is close to t but different.
func (c *UContract) subtle(ch Chooser, t *UType) *UType {
	switch t.K {
	case "Int":
		return &UType{K: "Int8"}
	case "Int8":
		return &UType{K: "Int"}
	case "arr":
		if Chance(ch, "deep", 1, 3) {
			return &UType{K: "arr", Elem: c.subtle(ch, t.Elem)}
		}
		return &UType{K: "carr", N: 2, Elem: t.Elem.clone()}
	case "carr":
		if Chance(ch, "resize", 1, 2) {
			return &UType{K: "carr", N: t.N + 1, Elem: t.Elem.clone()}
		}
		return &UType{K: "arr", Elem: t.Elem.clone()}
	case "opt":
		if Chance(ch, "deep", 1, 2) {
			return &UType{K: "opt", Elem: c.subtle(ch, t.Elem)}
		}
		return t.Elem.clone()
	case "dict":
		return &UType{K: "dict", Elem: c.subtle(ch, t.Elem)}
	case "named":
		// the same type spelled with the contract's name (must stay acceptable and usable)
		if Chance(ch, "qualify", 1, 3) {
			q := t.clone()
			q.Qualified = !q.Qualified
			return q
		}
		// a composite becomes the interface it conforms to, or is wrapped
		if d := c.decl(t.Name); d != nil && len(d.Conforms) > 0 && Chance(ch, "toiface", 1, 2) {
			return &UType{K: "iface", Name: d.Conforms[0]}
		}
		return &UType{K: "opt", Elem: t.clone()}
	case "iface":
		if Chance(ch, "qualify", 1, 3) {
			q := t.clone()
			q.Qualified = !q.Qualified
			return q
		}
		if d := c.implOf(t.Name); d != nil {
			return &UType{K: "named", Name: d.Name}
		}
	}
	return &UType{K: "opt", Elem: t.clone()}
}

// Mutate applies one random mutation in place and returns its kind ("" if the
// drawn mutation does not apply).
func (c *UContract) Mutate(ch Chooser) string {
	comps := c.composites()
	pickComp := func() *UDecl { return comps[ch.Intn("comp", len(comps))] }
	// near-boundary mutations (types that differ only slightly) get more weight
	weights := make([]int, len(MutationKinds))
	for i, k := range MutationKinds {
		switch k {
		case "field-retype-subtle", "field-retype-sibling":
			weights[i] = 8
		case "kind-change":
			weights[i] = 9
		case "conformance-swap":
			weights[i] = 5
		case "iface-inherit-remove":
			weights[i] = 5
		case "contract-field-retype", "enum-case-swap", "enum-case-insert", "conformance-remove":
			weights[i] = 3
		case "field-remove", "field-reorder", "field-access", "field-let-var", "conformance-add", "enum-case-append", "contract-field-remove":
			weights[i] = 4 // usually accepted: these make the reader run over changed declarations
		default:
			weights[i] = 2
		}
	}
	kind := MutationKinds[Weighted(ch, "mutation", weights)]
	if len(comps) == 0 && (strings.HasPrefix(kind, "field-") || strings.HasPrefix(kind, "conformance-")) {
		return ""
	}
	switch kind {
	case "field-add":
		d := pickComp()
		d.Fields = append(d.Fields, c.randField(ch, c.indexOf(d.Name), d.Kind == "resource"))
	case "field-remove":
		d := pickComp()
		if len(d.Fields) == 0 {
			return ""
		}
		i := ch.Intn("field", len(d.Fields))
		d.Fields = append(d.Fields[:i:i], d.Fields[i+1:]...)
	case "field-retype":
		d := pickComp()
		if len(d.Fields) == 0 {
			return ""
		}
		f := &d.Fields[ch.Intn("field", len(d.Fields))]
		nt := c.randType(ch, c.indexOf(d.Name), d.Kind == "resource", 0)
		if c.bare(nt) == c.bare(f.Type) {
			return ""
		}
		f.Type = nt
	case "field-retype-subtle":
		d := pickComp()
		if len(d.Fields) == 0 {
			return ""
		}
		f := &d.Fields[ch.Intn("field", len(d.Fields))]
		nt := c.subtle(ch, f.Type)
		if d.Kind != "resource" && c.isResource(nt) {
			return ""
		}
		f.Type = nt
	case "field-reorder":
		d := pickComp()
		if len(d.Fields) < 2 {
			return ""
		}
		i := ch.Intn("field", len(d.Fields)-1)
		d.Fields[i], d.Fields[i+1] = d.Fields[i+1], d.Fields[i]
	case "field-rename":
		d := pickComp()
		if len(d.Fields) == 0 {
			return ""
		}
		d.Fields[ch.Intn("field", len(d.Fields))].Name = c.fresh("g")
	case "field-access":
		d := pickComp()
		if len(d.Fields) == 0 {
			return ""
		}
		f := &d.Fields[ch.Intn("field", len(d.Fields))]
		f.Access = []string{"access(self)", "access(contract)", "access(account)"}[ch.Intn("access", 3)]
	case "field-let-var":
		d := pickComp()
		if len(d.Fields) == 0 {
			return ""
		}
		f := &d.Fields[ch.Intn("field", len(d.Fields))]
		f.Var = !f.Var
	case "decl-add":
		if Chance(ch, "enum", 1, 3) {
			c.Decls = append(c.Decls, &UDecl{Kind: "enum", Name: c.fresh("E"), RawType: "UInt8", Cases: []string{"c0", "c1"}})
		} else {
			d := &UDecl{Kind: "struct", Name: c.fresh("S")}
			upto := len(c.Decls)
			c.Decls = append(c.Decls, d)
			d.Fields = append(d.Fields, c.randField(ch, upto, false))
		}
	case "decl-remove", "decl-remove-pragma":
		var cand []*UDecl
		for _, d := range c.Decls {
			if d.Kind == "sinterface" || d.Kind == "rinterface" || c.refs(d.Name) {
				continue
			}
			// values of the implementation chosen for interface-typed fields are stored
			// inside other values: removing that type (which #removedType permits by
			// design) would make those unreadable, which is not what C27 is about
			embedded := false
			for _, cf := range c.closure(d) {
				if c.refsIface(cf) && c.implOf(cf) == d {
					embedded = true
				}
			}
			if !embedded {
				cand = append(cand, d)
			}
		}
		if len(cand) == 0 {
			return ""
		}
		d := cand[ch.Intn("decl", len(cand))]
		i := c.indexOf(d.Name)
		c.Decls = append(c.Decls[:i:i], c.Decls[i+1:]...)
		if kind == "decl-remove-pragma" {
			c.Removed = append(c.Removed, d.Name)
		}
	case "field-retype-sibling":
		// change only the name of a nominal type inside the field's type, keeping the
		// spelling (qualified or not) and every wrapper: A -> B of the same kind
		type slot struct {
			leaf *UType
			upto int
			res  bool
		}
		var slots, qualified []slot
		var collect func(t *UType, upto int, res bool)
		collect = func(t *UType, upto int, res bool) {
			if t == nil {
				return
			}
			if t.K == "named" || t.K == "iface" || t.K == "ext" {
				sl := slot{t, upto, res}
				slots = append(slots, sl)
				if t.Qualified || t.K == "ext" {
					qualified = append(qualified, sl)
				}
			}
			collect(t.Elem, upto, res)
		}
		for i, d := range c.Decls {
			for j := range d.Fields {
				collect(d.Fields[j].Type, i, d.Kind == "resource")
			}
		}
		for j := range c.Fields {
			collect(c.Fields[j].Type, len(c.Decls), true)
		}
		if len(qualified) > 0 && !Chance(ch, "unqualified", 1, 4) {
			slots = qualified
		}
		if len(slots) == 0 {
			return ""
		}
		sl := slots[ch.Intn("slot", len(slots))]
		if sl.leaf.K == "ext" {
			sl.leaf.Name = map[string]string{"A": "B", "B": "A"}[sl.leaf.Name]
			break
		}
		old := c.decl(sl.leaf.Name)
		var sib []string
		for i, d := range c.Decls {
			if d.Kind == old.Kind && d.Name != old.Name && (i < sl.upto || d.Kind == "sinterface" || d.Kind == "rinterface") {
				sib = append(sib, d.Name)
			}
		}
		if len(sib) == 0 {
			return ""
		}
		sl.leaf.Name = sib[ch.Intn("sibling", len(sib))]
	case "conformance-swap":
		var cand []*UDecl
		for _, d := range comps {
			if len(d.Conforms) > 0 {
				cand = append(cand, d)
			}
		}
		if len(cand) == 0 {
			return ""
		}
		d := cand[ch.Intn("decl", len(cand))]
		i := ch.Intn("conf", len(d.Conforms))
		swap := map[string]string{"SI": "SI2", "SI2": "SI", "RI": "RI2", "RI2": "RI",
			"Imp.I": "Imp.J", "Imp.J": "Imp.I", "Imp.RI": "Imp.RJ", "Imp.RJ": "Imp.RI"}
		d.Conforms[i] = swap[d.Conforms[i]]
	case "iface-inherit-remove":
		var cand []*UDecl
		for _, d := range c.Decls {
			if (d.Kind == "sinterface" || d.Kind == "rinterface") && len(d.Conforms) > 0 {
				cand = append(cand, d)
			}
		}
		if len(cand) == 0 {
			return ""
		}
		cand[ch.Intn("decl", len(cand))].Conforms = nil
	case "iface-inherit-add":
		d := c.decl([]string{"SI2", "RI2"}[ch.Intn("which", 2)])
		if d == nil || len(d.Conforms) > 0 {
			return ""
		}
		d.Conforms = []string{strings.TrimSuffix(d.Name, "2")}
	case "conformance-add":
		d := pickComp()
		want := []string{"SI", "SI2"}[ch.Intn("iface", 2)]
		if d.Kind == "resource" {
			want = "R" + want[1:]
		}
		for _, cf := range d.Conforms {
			if c.norm(cf) == want {
				return ""
			}
		}
		d.Conforms = append(d.Conforms, want)
	case "conformance-remove":
		var cand []*UDecl
		for _, d := range comps {
			if len(d.Conforms) > 0 {
				cand = append(cand, d)
			}
		}
		if len(cand) == 0 {
			return ""
		}
		d := cand[ch.Intn("decl", len(cand))]
		d.Conforms = d.Conforms[1:]
	case "enum-case-append":
		es := c.enums()
		if len(es) == 0 {
			return ""
		}
		d := es[ch.Intn("enum", len(es))]
		d.Cases = append(d.Cases, fmt.Sprintf("n%d", len(d.Cases)))
	case "enum-case-insert":
		es := c.enums()
		if len(es) == 0 {
			return ""
		}
		d := es[ch.Intn("enum", len(es))]
		i := ch.Intn("pos", len(d.Cases))
		d.Cases = append(d.Cases[:i:i], append([]string{fmt.Sprintf("n%d", len(d.Cases))}, d.Cases[i:]...)...)
	case "enum-case-remove":
		es := c.enums()
		if len(es) == 0 {
			return ""
		}
		d := es[ch.Intn("enum", len(es))]
		if len(d.Cases) < 2 {
			return ""
		}
		i := ch.Intn("pos", len(d.Cases))
		d.Cases = append(d.Cases[:i:i], d.Cases[i+1:]...)
	case "enum-case-swap":
		es := c.enums()
		if len(es) == 0 {
			return ""
		}
		d := es[ch.Intn("enum", len(es))]
		if len(d.Cases) < 2 {
			return ""
		}
		i := ch.Intn("pos", len(d.Cases)-1)
		d.Cases[i], d.Cases[i+1] = d.Cases[i+1], d.Cases[i]
	case "enum-rawtype":
		es := c.enums()
		if len(es) == 0 {
			return ""
		}
		d := es[ch.Intn("enum", len(es))]
		d.RawType = []string{"UInt16", "Int8", "UInt8"}[ch.Intn("raw", 2)]
	case "kind-change":
		// the declaration keeps its name and becomes another kind of declaration;
		// fields are kept as far as the new kind allows, conformances are dropped
		var cand []*UDecl
		for _, d := range c.Decls {
			if !c.refs(d.Name) {
				cand = append(cand, d)
			}
		}
		if len(cand) == 0 {
			return ""
		}
		// prefer declarations with stored instances (composites and enums)
		var stored []*UDecl
		for _, d := range cand {
			if d.Kind == "struct" || d.Kind == "resource" || d.Kind == "enum" {
				stored = append(stored, d)
			}
		}
		if len(stored) > 0 && !Chance(ch, "unstored", 1, 4) {
			cand = stored
		}
		d := cand[ch.Intn("decl", len(cand))]
		var targets []string
		for _, k := range []string{"struct", "resource", "enum", "sinterface", "rinterface", "event", "event"} {
			if k != d.Kind {
				targets = append(targets, k)
			}
		}
		from, to := d.Kind, targets[ch.Intn("tokind", len(targets))]
		d.Kind = to
		d.Conforms = nil
		d.Cases, d.RawType = nil, ""
		var keep []UField
		for _, f := range d.Fields {
			prim := f.Type.K == "Int" || f.Type.K == "Int8" || f.Type.K == "String" || f.Type.K == "Bool"
			switch to {
			case "resource":
				keep = append(keep, f)
			case "struct":
				if !c.isResource(f.Type) {
					keep = append(keep, f)
				}
			case "event":
				if prim {
					keep = append(keep, f)
				}
			}
		}
		d.Fields = keep
		if to == "enum" {
			d.Cases, d.RawType = []string{"c0", "c1"}, "UInt8"
		}
		kind = "kind-change:" + from + "->" + to
	case "contract-field-add":
		c.Fields = append(c.Fields, c.randField(ch, len(c.Decls), true))
	case "contract-field-remove":
		if len(c.Fields) == 0 {
			return ""
		}
		i := ch.Intn("field", len(c.Fields))
		c.Fields = append(c.Fields[:i:i], c.Fields[i+1:]...)
	case "contract-field-retype":
		if len(c.Fields) == 0 {
			return ""
		}
		f := &c.Fields[ch.Intn("field", len(c.Fields))]
		nt := c.randType(ch, len(c.Decls), true, 0)
		if Chance(ch, "subtle", 1, 2) {
			nt = c.subtle(ch, f.Type)
		}
		if c.bare(nt) == c.bare(f.Type) {
			return ""
		}
		f.Type = nt
	}
	// any field that refers to a declaration which no longer exists (or lost its
	// last implementation) makes the program ill-typed: drop such mutations
	if !c.wellFormed() {
		return "ill-formed:" + kind
	}
	return kind
}

func (c *UContract) refsIface(name string) bool {
	var uses func(t *UType) bool
	uses = func(t *UType) bool {
		if t == nil {
			return false
		}
		if t.K == "iface" && t.Name == name {
			return true
		}
		return uses(t.Elem)
	}
	for _, f := range c.Fields {
		if uses(f.Type) {
			return true
		}
	}
	for _, d := range c.Decls {
		for _, f := range d.Fields {
			if uses(f.Type) {
				return true
			}
		}
	}
	return false
}

// wellFormed: every referenced declaration exists, precedes its user, interface
// types have an implementation, struct fields hold no resources.
func (c *UContract) wellFormed() bool {
	var ok func(t *UType, upto int, allowRes bool) bool
	ok = func(t *UType, upto int, allowRes bool) bool {
		switch t.K {
		case "opt", "arr", "carr", "dict":
			return ok(t.Elem, upto, allowRes)
		case "named":
			i := c.indexOf(t.Name)
			if i < 0 || i >= upto {
				return false
			}
			return allowRes || !c.isResource(t)
		case "iface":
			im := c.implOf(t.Name)
			if c.indexOf(t.Name) < 0 || im == nil || c.indexOf(im.Name) >= upto {
				return false
			}
			return allowRes || !c.isResource(t)
		case "cap":
			d := c.decl(t.Elem.Name)
			return t.Elem.K == "named" && d != nil && (d.Kind == "struct" || d.Kind == "resource")
		}
		return true
	}
	for i, d := range c.Decls {
		for _, f := range d.Fields {
			if !ok(f.Type, i, d.Kind == "resource") {
				return false
			}
		}
		if (d.Kind == "enum" || d.Kind == "event") && len(d.Conforms) > 0 {
			return false
		}
		seenConf := map[string]bool{}
		for _, cf := range d.Conforms {
			cf = c.norm(cf)
			if seenConf[cf] {
				return false
			}
			seenConf[cf] = true
			structSide := d.Kind == "struct" || d.Kind == "sinterface"
			if isExt(cf) {
				if structSide != (cf == "Imp.I" || cf == "Imp.J") {
					return false
				}
				continue
			}
			id := c.decl(cf)
			if id == nil || structSide != (id.Kind == "sinterface") || id == d {
				return false
			}
		}
	}
	for _, f := range c.Fields {
		if !ok(f.Type, len(c.Decls), true) {
			return false
		}
	}
	return true
}

// ---- update pair -------------------------------------------------------------------------------

// StoredItem is one value stored under v1.
type StoredItem struct {
	Acct     int
	Path     string
	Decl     string   // declaration name (composite or enum)
	Kind     string   // struct resource enum
	Case     string   // enum: name of the stored case
	Conforms []string // interfaces the value's type conformed to in v1
}

// UpdatePair is a generated (v1, v2) pair with everything needed to run it.
type UpdatePair struct {
	V1, V2    *UContract
	Mutations []string
	ImpCode   string // deployed as Imp at UpdateAccount before v1
	V1Code    string
	V2Code    string
	StoreTx   []string // one per account (1, 2)
	Items     []StoredItem
	// Lost lists stored items (or the meaning of enum values / v1 conformances) that
	// v2 no longer declares; if the update is accepted although Lost is non-empty
	// (and not covered by a #removedType pragma), the data cannot stay usable.
	Lost   []string
	Reader string // script reading every stored value under v2 ("" if none applies)
	// Touched: some stored value belongs to a declaration the mutations changed.
	Touched bool
	// IfaceInheritanceLost: an interface declaration of v2 no longer inherits an
	// interface it inherited in v1 (predicate of known finding FK3).
	IfaceInheritanceLost bool
}

const UpdateAccount = 1

// GenUpdatePair generates v1, mutates it 1-3 times into v2 and renders the
// transactions and the reader script.
func GenUpdatePair(ch Chooser) *UpdatePair {
	v1 := GenUContract(ch, "C")
	v2 := v1.clone()
	p := &UpdatePair{V1: v1, V2: v2, ImpCode: ImpContract}
	n := 1 + Weighted(ch, "mutations", []int{6, 3, 1})
	for tries := 0; len(p.Mutations) < n && tries < 12; tries++ {
		save := v2.clone()
		k := v2.Mutate(ch)
		if k == "" || strings.HasPrefix(k, "ill-formed:") {
			*v2 = *save
			continue
		}
		p.Mutations = append(p.Mutations, k)
	}
	for _, d := range v1.Decls {
		if d.Kind != "sinterface" && d.Kind != "rinterface" {
			continue
		}
		if d2 := v2.decl(d.Name); d2 != nil {
			for _, cf := range d.Conforms {
				if !v2.conformsTo(d2, cf) {
					p.IfaceInheritanceLost = true
				}
			}
		}
	}
	p.V1Code = v1.Source(false)
	p.V2Code = v2.Source(true)

	// what is stored under v1: every composite, every enum case, in two accounts
	for _, acct := range []int{1, 2} {
		var b strings.Builder
		fmt.Fprintf(&b, "import C from 0x%x\ntransaction {\n  prepare(a: auth(Storage) &Account) {\n", UpdateAccount)
		for _, d := range v1.Decls {
			switch d.Kind {
			case "struct":
				path := "/storage/v_" + d.Name
				fmt.Fprintf(&b, "    a.storage.save(C.%s(), to: %s)\n", d.Name, path)
				p.Items = append(p.Items, StoredItem{acct, path, d.Name, "struct", "", v1.closure(d)})
			case "resource":
				path := "/storage/v_" + d.Name
				fmt.Fprintf(&b, "    a.storage.save(<- C.mk%s(), to: %s)\n", d.Name, path)
				p.Items = append(p.Items, StoredItem{acct, path, d.Name, "resource", "", v1.closure(d)})
			case "enum":
				for _, cs := range d.Cases {
					path := fmt.Sprintf("/storage/e_%s_%s", d.Name, cs)
					fmt.Fprintf(&b, "    a.storage.save(C.%s.%s, to: %s)\n", d.Name, cs, path)
					p.Items = append(p.Items, StoredItem{acct, path, d.Name, "enum", cs, nil})
				}
			}
		}
		// the same values behind AnyStruct / AnyResource containers
		var anyS, anyR []string
		for _, d := range v1.Decls {
			switch d.Kind {
			case "struct":
				anyS = append(anyS, "C."+d.Name+"()")
			case "enum":
				anyS = append(anyS, "C."+d.Name+"."+d.Cases[0])
			case "resource":
				anyR = append(anyR, "<- C.mk"+d.Name+"()")
			}
		}
		fmt.Fprintf(&b, "    let anys: [AnyStruct] = [%s]\n    a.storage.save(anys, to: /storage/anys)\n", strings.Join(anyS, ", "))
		fmt.Fprintf(&b, "    let anyr: @[AnyResource] <- [%s]\n    a.storage.save(<- anyr, to: /storage/anyr)\n", strings.Join(anyR, ", "))
		b.WriteString("  }\n}\n")
		p.StoreTx = append(p.StoreTx, b.String())
	}

	// reader under v2
	removed := map[string]bool{}
	for _, r := range v2.Removed {
		removed[r] = true
	}
	changed := changedDecls(v1, v2)
	var body strings.Builder
	fmt.Fprintf(&body, "  let c = C.chk()\n  if c != \"\" { out.append(\"contract: \".concat(c)) }\n")
	for i, it := range p.Items {
		if changed[it.Decl] {
			p.Touched = true
		}
		d2 := v2.decl(it.Decl)
		if d2 == nil {
			if !removed[it.Decl] {
				p.Lost = append(p.Lost, fmt.Sprintf("type %s of the value at %d:%s", it.Decl, it.Acct, it.Path))
			}
			continue
		}
		acc := fmt.Sprintf("getAuthAccount<auth(Storage) &Account>(0x%x)", it.Acct)
		switch it.Kind {
		case "enum":
			if d2.Kind != "enum" {
				p.Lost = append(p.Lost, fmt.Sprintf("enum %s", it.Decl))
				continue
			}
			found := false
			for _, cs := range d2.Cases {
				if cs == it.Case {
					found = true
				}
			}
			if !found {
				p.Lost = append(p.Lost, fmt.Sprintf("enum case %s.%s", it.Decl, it.Case))
				continue
			}
			fmt.Fprintf(&body, "  if let v%d = %s.storage.copy<C.%s>(from: %s) { if v%d != C.%s.%s { out.append(\"%d:%s changed its meaning: raw \".concat(v%d.rawValue.toString())) } } else { out.append(\"%d:%s cannot be loaded\") }\n",
				i, acc, it.Decl, it.Path, i, it.Decl, it.Case, it.Acct, it.Path, i, it.Acct, it.Path)
		default:
			if d2.Kind != it.Kind {
				p.Lost = append(p.Lost, fmt.Sprintf("%s %s changed its kind", it.Kind, it.Decl))
				continue
			}
			amp := "&C." + it.Decl
			fmt.Fprintf(&body, "  if let v%d = %s.storage.borrow<%s>(from: %s) {\n    let r = v%d.chk()\n    if r != \"\" { out.append(\"%d:%s \".concat(r)) }\n",
				i, acc, amp, it.Path, i, it.Acct, it.Path)
			for _, cf := range it.Conforms {
				still := v2.conformsTo(d2, cf)
				if (!isExt(cf) && v2.decl(cf) == nil) || !still {
					// conformance is nominal: without the declaration in v2 the stored value
					// cannot be an instance of the interface any more
					p.Lost = append(p.Lost, fmt.Sprintf("conformance %s: %s", it.Decl, cf))
					continue
				}
				at := ""
				if it.Kind == "resource" {
					at = "@"
				}
				fmt.Fprintf(&body, "    if !Type<%sC.%s>().isSubtype(of: Type<%s{%s}>()) { out.append(\"%d:%s no longer conforms to %s\") }\n",
					at, it.Decl, at, qualName(cf), it.Acct, it.Path, cf)
			}
			fmt.Fprintf(&body, "  } else { out.append(\"%d:%s cannot be borrowed\") }\n", it.Acct, it.Path)
			if it.Kind == "struct" {
				fmt.Fprintf(&body, "  if let w%d = %s.storage.copy<C.%s>(from: %s) {\n", i, acc, it.Decl, it.Path)
				for _, cf := range it.Conforms {
					if isExt(cf) || v2.decl(cf) != nil {
						fmt.Fprintf(&body, "    if !w%d.isInstance(Type<{%s}>()) { out.append(\"%d:%s is not an instance of %s\") }\n", i, qualName(cf), it.Acct, it.Path, cf)
					}
				}
				fmt.Fprintf(&body, "  } else { out.append(\"%d:%s cannot be copied\") }\n", it.Acct, it.Path)
			}
		}
	}
	// the AnyStruct / AnyResource containers (only when no element type was removed
	// with #removedType: such elements are unreadable by design)
	containersReadable := true
	for _, d := range v1.Decls {
		if (d.Kind == "struct" || d.Kind == "enum" || d.Kind == "resource") && removed[d.Name] {
			containersReadable = false
		}
	}
	if containersReadable && len(p.Lost) == 0 {
		for _, acct := range []int{1, 2} {
			acc := fmt.Sprintf("getAuthAccount<auth(Storage) &Account>(0x%x)", acct)
			fmt.Fprintf(&body, "  if let anys = %s.storage.copy<[AnyStruct]>(from: /storage/anys) {\n", acc)
			i := 0
			for _, d := range v1.Decls {
				if d.Kind == "struct" || d.Kind == "enum" {
					fmt.Fprintf(&body, "    if !anys[%d].isInstance(Type<C.%s>()) { out.append(\"%d:anys[%d] is not a %s\") }\n", i, d.Name, acct, i, d.Name)
					i++
				}
			}
			fmt.Fprintf(&body, "    if anys.length != %d { out.append(\"%d:anys has another length\") }\n  } else { out.append(\"%d:anys cannot be copied\") }\n", i, acct, acct)
			fmt.Fprintf(&body, "  if let anyr = %s.storage.borrow<&[AnyResource]>(from: /storage/anyr) {\n", acc)
			i = 0
			for _, d := range v1.Decls {
				if d.Kind == "resource" {
					fmt.Fprintf(&body, "    if !anyr[%d].isInstance(Type<@C.%s>()) { out.append(\"%d:anyr[%d] is not a %s\") }\n", i, d.Name, acct, i, d.Name)
					i++
				}
			}
			fmt.Fprintf(&body, "    if anyr.length != %d { out.append(\"%d:anyr has another length\") }\n  } else { out.append(\"%d:anyr cannot be borrowed\") }\n", i, acct, acct)
		}
	}
	sort.Strings(p.Lost)
	p.Reader = fmt.Sprintf("import Imp from 0x1\nimport C from 0x%x\naccess(all) fun main(): [String] {\n  let out: [String] = []\n%s  return out\n}\n", UpdateAccount, body.String())
	return p
}

// qualName spells an interface name for use outside the contract.
func qualName(cf string) string {
	if isExt(cf) {
		return cf
	}
	return "C." + cf
}

// changedDecls compares the declarations of the two versions structurally.
func changedDecls(a, b *UContract) map[string]bool {
	out := map[string]bool{}
	sig := func(c *UContract, d *UDecl) string {
		var sb strings.Builder
		fmt.Fprintf(&sb, "%s %v %v %s|", d.Kind, d.Conforms, d.Cases, d.RawType)
		for _, f := range d.Fields {
			fmt.Fprintf(&sb, "%s %s %v:%s;", f.Access, f.Name, f.Var, c.bare(f.Type))
		}
		return sb.String()
	}
	for _, d := range a.Decls {
		d2 := b.decl(d.Name)
		if d2 == nil || sig(a, d) != sig(b, d2) {
			out[d.Name] = true
		}
	}
	return out
}

// Prog converts the pair to the common executable form.
func (p *UpdatePair) Prog() prog.History {
	h := prog.History{Origin: "capgen.updates", Features: append([]string{"contract-update"}, p.Mutations...)}
	h.Steps = append(h.Steps, prog.Step{Kind: prog.Deploy, Name: "Imp", Source: p.ImpCode, Signers: []uint64{UpdateAccount}})
	h.Steps = append(h.Steps, prog.Step{Kind: prog.Deploy, Name: "C", Source: p.V1Code, Signers: []uint64{UpdateAccount}})
	for i, tx := range p.StoreTx {
		h.Steps = append(h.Steps, prog.Step{Kind: prog.Tx, Source: tx, Signers: []uint64{uint64(i + 1)}})
	}
	h.Steps = append(h.Steps, prog.Step{Kind: prog.Update, Name: "C", Source: p.V2Code, Signers: []uint64{UpdateAccount}, MayFail: true})
	h.Steps = append(h.Steps, prog.Step{Kind: prog.Script, Source: p.Reader, MayFail: true})
	return h
}
