// Package evid collects what a check actually covered (evaluations, distinct
// non-trivial cases, class histogram, samples, exclusions) and dumps it to the
// file named by VERIF_STATS_OUT, from which the driver (/verif/check) writes
// /verif/evidence/<ID>.json. It also carries the conventions shared by all
// property tests: tier/seed/scale from the environment, the violation marker,
// the inconclusive marker and the known-findings file.
package evid

import (
	"encoding/binary"
	"encoding/json"
	"fmt"
	"hash/fnv"
	"math/rand"
	"os"
	"path/filepath"
	"sort"
	"strconv"
	"sync"
	"testing"
	"time"
)

const (
	maxDistinct   = 2_000_000 // in-process cap of the distinct set (conservative undercount beyond)
	maxDumpHashes = 200_000   // hashes written to the sidecar file for cross-shard union
	maxSamples    = 8
)

// Rec is the per-property recorder. All methods are safe for concurrent use.
type Rec struct {
	mu         sync.Mutex
	ID         string
	start      time.Time
	evals      int64
	nontrivial int64
	distinct   map[uint64]struct{}
	classes    map[string]int64
	excluded   map[string]int64
	samples    []any
	sampleSeen map[string]bool
	rule       string
	exhaustive bool
	extra      map[string]any
	known      []string // KNOWN-FINDING lines printed
	flushed    bool
}

// Tier returns "quick" or "thorough".
func Tier() string {
	if os.Getenv("VERIF_TIER") == "thorough" {
		return "thorough"
	}
	return "quick"
}

// Thorough reports whether the thorough tier is running.
func Thorough() bool { return Tier() == "thorough" }

// Seed is the VERIF_SEED value (default 0) combined with the shard index.
func Seed() int64 {
	s, _ := strconv.ParseInt(os.Getenv("VERIF_SEED"), 10, 64)
	return s*1000 + int64(Shard())
}

// Shard is this process's shard index (0-based) and Shards the shard count.
func Shard() int {
	s, _ := strconv.Atoi(os.Getenv("VERIF_SHARD"))
	return s
}

func Shards() int {
	s, _ := strconv.Atoi(os.Getenv("VERIF_SHARDS"))
	if s < 1 {
		return 1
	}
	return s
}

// Rand returns a PRNG that is a pure function of VERIF_SEED, the shard and salt.
func Rand(salt int64) *rand.Rand {
	return rand.New(rand.NewSource(Seed()*7919 + salt + 1))
}

// N picks a case count by tier, scaled by VERIF_SCALE (float, default 1).
func N(quick, thorough int) int {
	n := quick
	if Thorough() {
		n = thorough
	}
	if sc, err := strconv.ParseFloat(os.Getenv("VERIF_SCALE"), 64); err == nil && sc > 0 {
		n = int(float64(n) * sc)
		if n < 1 {
			n = 1
		}
	}
	return n
}

// Root is the /verif directory (VERIF_ROOT or found by walking up to go.mod).
func Root() string {
	if r := os.Getenv("VERIF_ROOT"); r != "" {
		return r
	}
	d, _ := os.Getwd()
	for d != "/" && d != "." {
		if _, err := os.Stat(filepath.Join(d, "known_findings.json")); err == nil {
			return d
		}
		d = filepath.Dir(d)
	}
	return "/verif"
}

// Start creates the recorder and arranges for the stats to be flushed when the
// test ends.
func Start(t testing.TB, id string, rule string) *Rec {
	r := &Rec{
		ID:         id,
		start:      time.Now(),
		distinct:   map[uint64]struct{}{},
		classes:    map[string]int64{},
		excluded:   map[string]int64{},
		sampleSeen: map[string]bool{},
		extra:      map[string]any{},
		rule:       rule,
	}
	t.Cleanup(func() { r.Flush() })
	return r
}

func Hash(parts ...any) uint64 {
	h := fnv.New64a()
	for _, p := range parts {
		fmt.Fprintf(h, "%v\x00", p)
	}
	return h.Sum64()
}

// Case records one evaluated case. key identifies the case for distinctness
// (any printable value); nontrivial is the property's stated rule.
func (r *Rec) Case(nontrivial bool, key ...any) {
	r.mu.Lock()
	defer r.mu.Unlock()
	r.evals++
	if nontrivial {
		r.nontrivial++
		if len(r.distinct) < maxDistinct {
			r.distinct[Hash(key...)] = struct{}{}
		}
	}
}

// CaseH is Case with a precomputed hash (cheap path for hot loops).
func (r *Rec) CaseH(nontrivial bool, h uint64) {
	r.mu.Lock()
	r.evals++
	if nontrivial {
		r.nontrivial++
		if len(r.distinct) < maxDistinct {
			r.distinct[h] = struct{}{}
		}
	}
	r.mu.Unlock()
}

// Evals adds n evaluations that are not individually classified.
func (r *Rec) Evals(n int64) {
	r.mu.Lock()
	r.evals += n
	r.mu.Unlock()
}

// Class bumps a class-histogram counter.
func (r *Rec) Class(label string) { r.ClassN(label, 1) }

func (r *Rec) ClassN(label string, n int64) {
	r.mu.Lock()
	r.classes[label] += n
	r.mu.Unlock()
}

// ClassCount returns the current count of a class label.
func (r *Rec) ClassCount(label string) int64 {
	r.mu.Lock()
	defer r.mu.Unlock()
	return r.classes[label]
}

// Excluded counts a generated case skipped because it matches a known finding.
func (r *Rec) Excluded(findingID string) {
	r.mu.Lock()
	r.excluded[findingID]++
	r.mu.Unlock()
}

// Sample keeps up to maxSamples literal cases (distinct by their JSON form),
// preferring one per label.
func (r *Rec) Sample(label string, v any) {
	r.mu.Lock()
	defer r.mu.Unlock()
	if r.sampleSeen[label] || len(r.samples) >= maxSamples {
		return
	}
	r.sampleSeen[label] = true
	r.samples = append(r.samples, map[string]any{"class": label, "case": v})
}

// SampleCount is how many samples have been kept.
func (r *Rec) WantSample(label string) bool {
	r.mu.Lock()
	defer r.mu.Unlock()
	return !r.sampleSeen[label] && len(r.samples) < maxSamples
}

func (r *Rec) SetExhaustive(b bool) { r.mu.Lock(); r.exhaustive = b; r.mu.Unlock() }

// Extra attaches an additional coverage key (tables, matrices, rates).
func (r *Rec) Extra(key string, v any) { r.mu.Lock(); r.extra[key] = v; r.mu.Unlock() }

type statsFile struct {
	ID          string           `json:"property_id"`
	Shard       int              `json:"shard"`
	Evaluations int64            `json:"evaluations"`
	Nontrivial  int64            `json:"nontrivial_evaluations"`
	Distinct    int              `json:"distinct_nontrivial"`
	Classes     map[string]int64 `json:"classes"`
	Excluded    map[string]int64 `json:"excluded"`
	Samples     []any            `json:"samples"`
	Rule        string           `json:"rule"`
	Exhaustive  bool             `json:"exhaustive"`
	Extra       map[string]any   `json:"extra"`
	Known       []string         `json:"known_findings_printed"`
	WallS       float64          `json:"wall_s"`
}

// Flush writes the stats file (idempotent).
func (r *Rec) Flush() {
	r.mu.Lock()
	defer r.mu.Unlock()
	if r.flushed {
		return
	}
	r.flushed = true
	out := os.Getenv("VERIF_STATS_OUT")
	if out == "" {
		return
	}
	sf := statsFile{
		ID: r.ID, Shard: Shard(), Evaluations: r.evals, Nontrivial: r.nontrivial,
		Distinct: len(r.distinct), Classes: r.classes, Excluded: r.excluded,
		Samples: r.samples, Rule: r.rule, Exhaustive: r.exhaustive, Extra: r.extra,
		Known: r.known, WallS: time.Since(r.start).Seconds(),
	}
	b, err := json.Marshal(sf)
	if err != nil {
		// samples that cannot be marshalled must not lose the counts
		sf.Samples = []any{fmt.Sprintf("%v", r.samples)}
		b, _ = json.Marshal(sf)
	}
	_ = os.WriteFile(out, b, 0o644)
	// sidecar: sorted prefix of the distinct hashes for cross-shard union
	hs := make([]uint64, 0, len(r.distinct))
	for h := range r.distinct {
		hs = append(hs, h)
	}
	sort.Slice(hs, func(i, j int) bool { return hs[i] < hs[j] })
	if len(hs) > maxDumpHashes {
		hs = hs[:maxDumpHashes]
	}
	buf := make([]byte, 8*len(hs))
	for i, h := range hs {
		binary.LittleEndian.PutUint64(buf[8*i:], h)
	}
	_ = os.WriteFile(out+".hashes", buf, 0o644)
}

// Violation reports a property violation found outside rapid (enumerations,
// replay tiers): it writes the case as a JSON replay file, prints the marker
// the driver looks for and fails the test.
func (r *Rec) Violation(t testing.TB, c any, format string, args ...any) {
	t.Helper()
	msg := fmt.Sprintf(format, args...)
	dir := os.Getenv("VERIF_REPLAY_DIR")
	if dir == "" {
		dir = filepath.Join(Root(), "replays")
	}
	_ = os.MkdirAll(dir, 0o755)
	b, err := json.MarshalIndent(map[string]any{"property": r.ID, "message": msg, "case": c}, "", " ")
	if err != nil {
		b = []byte(fmt.Sprintf(`{"property":%q,"message":%q,"case":%q}`, r.ID, msg, fmt.Sprintf("%v", c)))
	}
	p := filepath.Join(dir, fmt.Sprintf("%s-%016x.json", r.ID, Hash(string(b))))
	_ = os.WriteFile(p, b, 0o644)
	fmt.Printf("VERIF-VIOLATION property=%s replay=%s %s\n", r.ID, p, msg)
	r.Flush()
	t.Fatalf("violation: %s", msg)
}

// Inconclusive marks the run as inconclusive (generator health check failed,
// resource problem): the driver maps it to exit 2, never to a VIOLATION line.
func (r *Rec) Inconclusive(t testing.TB, format string, args ...any) {
	t.Helper()
	fmt.Printf("VERIF-INCONCLUSIVE property=%s %s\n", r.ID, fmt.Sprintf(format, args...))
	r.Flush()
	t.Fatalf("inconclusive: "+format, args...)
}

// RequireClasses fails the run as inconclusive when one of the listed class
// counters is zero: that means the generator regressed, not the code.
func (r *Rec) RequireClasses(t testing.TB, labels ...string) {
	t.Helper()
	if Shards() > 1 && os.Getenv("VERIF_REQUIRE_CLASSES") == "" {
		// in sharded runs the driver checks the merged histogram instead
	}
	for _, l := range labels {
		if r.ClassCount(l) == 0 {
			r.Inconclusive(t, "class %q never generated", l)
		}
	}
}

// ---- known findings ------------------------------------------------------

// Finding is one entry of /verif/known_findings.json.
type Finding struct {
	Property string `json:"property"`
	ID       string `json:"id"`
	Status   string `json:"status"` // "known" | "fixed"
	Commit   string `json:"commit,omitempty"`
	What     string `json:"what"`
	Repro    string `json:"repro,omitempty"`
}

var (
	findingsOnce sync.Once
	findings     []Finding
)

func loadFindings() {
	findingsOnce.Do(func() {
		b, err := os.ReadFile(filepath.Join(Root(), "known_findings.json"))
		if err != nil {
			return
		}
		var f struct {
			Findings []Finding `json:"findings"`
		}
		if json.Unmarshal(b, &f) == nil {
			findings = f.Findings
		}
	})
}

// Known reports whether the finding id is listed with status "known" for this
// property. Only then may a check exclude cases matching its predicate.
func (r *Rec) Known(id string) bool {
	loadFindings()
	for _, f := range findings {
		if f.Property == r.ID && f.ID == id && f.Status == "known" {
			return true
		}
	}
	return false
}

// ReportKnown is called by a check after it has re-run the repro of a listed
// known finding: stillFails=true prints the KNOWN-FINDING line; stillFails=false
// means the defect is gone although the file still lists it as known, which is
// only noted (the predicate stays harmless).
func (r *Rec) ReportKnown(id string, stillFails bool) {
	loadFindings()
	for _, f := range findings {
		if f.Property == r.ID && f.ID == id && f.Status == "known" {
			if stillFails {
				line := fmt.Sprintf("KNOWN-FINDING: property=%s %s: %s", r.ID, f.ID, f.What)
				fmt.Println(line)
				r.mu.Lock()
				r.known = append(r.known, line)
				r.mu.Unlock()
			} else {
				fmt.Printf("NOTE: property=%s finding %s is listed as known but its repro no longer fails\n", r.ID, f.ID)
			}
		}
	}
}

// ReplayFile returns the path given with --replay (VERIF_REPLAY_FILE) or "".
func ReplayFile() string { return os.Getenv("VERIF_REPLAY_FILE") }

// LoadReplay decodes the "case" member of a JSON replay file into v.
func LoadReplay(path string, v any) error {
	b, err := os.ReadFile(path)
	if err != nil {
		return err
	}
	var w struct {
		Case json.RawMessage `json:"case"`
	}
	if err := json.Unmarshal(b, &w); err != nil {
		return err
	}
	return json.Unmarshal(w.Case, v)
}
