package evid

import _ "pgregory.net/rapid" // keeps the dependency pinned in go.mod/go.sum
