package execgen

import (
	"fmt"
	"math/rand"
	"strings"
	"time"

	"verif/lib/host"
	"verif/lib/prog"
)

// BoundCase is one C30 case: the last step of Item runs under the given limits
// (earlier steps are set-up and run unlimited).
type BoundCase struct {
	Seed            string `json:"seed"` // seed template name
	Item            Item   `json:"item"`
	Engine          int    `json:"engine"`
	CompLimit       uint64 `json:"comp_limit"`
	MemLimit        uint64 `json:"mem_limit"`
	StackDepthLimit uint64 `json:"stack_depth_limit"`
	// Diverges: without a limit the program would not terminate (or would run
	// orders of magnitude beyond the limit), so a limit error MUST be the outcome.
	Diverges bool `json:"diverges"`
	// Depth > 0: the program recurses to exactly this depth and then returns.
	Depth int `json:"depth,omitempty"`
	// WantDepthError: the outcome must be the call-stack-depth error.
	WantDepthError bool `json:"want_depth_error,omitempty"`
	// GrowthBound > 0: a feedback loop feeds the result of an allocating built-in
	// back into it until the value holds at least GrowthBound bytes (>= 64x the
	// memory limit) and then returns: the memory limit error MUST come first
	// (bounded growth); a normal return means the growth was not metered.
	GrowthBound uint64 `json:"growth_bound,omitempty"`
}

// BoundResult is what the child observed.
type BoundResult struct {
	Class      string   `json:"class"`
	Root       string   `json:"root,omitempty"`
	Types      []string `json:"types,omitempty"`
	ErrMsg     string   `json:"err_msg,omitempty"`
	Panic      string   `json:"panic,omitempty"`
	LimitHit   bool     `json:"limit_hit"`
	CompErrAt  int      `json:"comp_err_at"`
	MemErrAt   int      `json:"mem_err_at"`
	CallsAfter int      `json:"calls_after"`
	CompCalls  int      `json:"comp_calls"`
	MemCalls   int      `json:"mem_calls"`
	CompTotal  uint64   `json:"comp_total"`
	MemTotal   uint64   `json:"mem_total"`
	SetupFail  string   `json:"setup_fail,omitempty"`
	Millis     int64    `json:"millis"`
	HostCalls  int      `json:"host_calls"`
}

// RunBound executes the case in this process.
func RunBound(bc BoundCase) BoundResult {
	h := NewHost(bc.Item)
	eng := host.Engine(bc.Engine)
	steps := bc.Item.Hist.Steps
	for i := 0; i < len(steps)-1; i++ {
		r := RunStep(h, steps[i], host.Options{Engine: eng})
		if r.Err != nil || r.Panic != nil {
			return BoundResult{SetupFail: fmt.Sprintf("step %d: %v %v", i, r.Err, r.Panic)}
		}
	}
	g := host.NewGauge(false)
	g.CompLimit, g.MemLimit = bc.CompLimit, bc.MemLimit
	t0 := time.Now()
	r := RunStep(h, steps[len(steps)-1], host.Options{Engine: eng, Gauge: g, StackDepthLimit: bc.StackDepthLimit})
	info := host.Classify(r)
	br := BoundResult{Class: info.Class, Root: info.Root, Types: info.Types, LimitHit: g.LimitHit(), CompErrAt: g.CompErrAt, MemErrAt: g.MemErrAt,
		CallsAfter: g.CallsAfter, CompCalls: g.CompCalls, MemCalls: g.MemCalls, CompTotal: g.CompTotal, MemTotal: g.MemTotal,
		Millis: time.Since(t0).Milliseconds(), HostCalls: len(r.Trace)}
	if r.Err != nil {
		br.ErrMsg = r.Err.Error()
		if len(br.ErrMsg) > 300 {
			br.ErrMsg = br.ErrMsg[:300]
		}
	}
	if r.Panic != nil {
		br.Panic = fmt.Sprint(r.Panic)
		if len(br.Panic) > 300 {
			br.Panic = br.Panic[:300]
		}
	}
	return br
}

// ---- divergence seeds ---------------------------------------------------------------

type boundSeed struct {
	name string
	// gen returns the item; n is the amplification parameter (loop bound / depth).
	gen      func(r *rand.Rand, n int) Item
	diverges bool // ignores n: never terminates by itself
	depth    bool // unbounded recursion: the depth error (or a metering error) is the outcome
	// growth: feedback loop through an allocating built-in, n = number of "units" the value must
	// reach before the program returns; unit = lower bound of the bytes one unit occupies
	growth bool
	unit   int
	// slow: reaching 64x the limit takes the interpreter minutes even when nothing stops it
	// (element-wise loops, quadratic conversions): the program returns at 8x the limit
	slow bool
}

// growthSeed builds a script `setup; while <size> < N { step }; return <size>`.
func growthSeed(name string, unit int, setup, size, step string) boundSeed {
	return boundSeed{name: name, growth: true, unit: unit, gen: func(r *rand.Rand, n int) Item {
		decl := ""
		if strings.Contains(setup, "[S]") {
			decl = "access(all) struct S { access(all) let v: Int; init(_ v: Int) { self.v = v } }\n"
		}
		return scriptItem(name, fmt.Sprintf(`%saccess(all) fun main(): Int { %s; while %s < %d { %s }; return %s }`, decl, setup, size, n, step, size))
	}}
}

// growthSeeds: the result of every allocating built-in is fed back into it, so the value grows
// geometrically (or linearly) without any other allocation dominating: if the built-in does not
// meter what it allocates, the memory limit is never reached.
var growthSeeds = []boundSeed{
	growthSeed("feedback-join-empty-sep", 1, `var s = "0123456789abcdef"`, `s.length`, `s = String.join([s, s], separator: "")`),
	growthSeed("feedback-join-short-sep", 1, `var s = "0123456789abcdef"`, `s.length`, `s = String.join([s, s, s], separator: ",")`),
	growthSeed("feedback-join-array", 1, `var s = "ab"; var a = [s, s]`, `s.length`, `s = String.join(a, separator: ""); a = [s, s, s, s]`),
	// NOTE: replaceAll / split with MANY matches cost quadratic (metered) computation: one / two matches only
	growthSeed("feedback-replaceall", 1, `var s = "aXa"`, `s.length`, `s = s.replaceAll(of: "X", with: s)`),
	growthSeed("feedback-replaceall-with-longer", 1, `var s = "0123456789abcdefX"`, `s.length`, `s = s.replaceAll(of: "X", with: s.concat(s))`),
	growthSeed("feedback-split-join", 1, `var s = "abcdefgh,abcdefgh"`, `s.length`, `let parts = s.split(separator: ","); s = String.join([parts[0], parts[0], parts[0]], separator: "").concat(",").concat(parts[1]).concat(parts[1])`),
	growthSeed("feedback-concat", 1, `var s = "0123456789abcdef"`, `s.length`, `s = s.concat(s)`),
	growthSeed("feedback-template", 1, `var s = "0123456789abcdef"`, `s.length`, `s = "\(s)\(s)"`),
	growthSeed("feedback-tolower", 1, `var s = "ABCDEFGH"`, `s.length`, `s = s.toLower().concat(s.toLower())`),
	growthSeed("feedback-slice", 1, `var s = "0123456789abcdef"`, `s.length`, `s = s.slice(from: 0, upTo: s.length).concat(s.slice(from: 0, upTo: s.length))`),
	growthSeed("feedback-int-tostring", 1, `var s = "123456789"`, `s.length`, `let n = Int.fromString(s)!; s = (n * n).toString()`),
	growthSeed("feedback-encodehex", 1, `var s = "00ff"`, `s.length`, `s = String.encodeHex(s.utf8)`),
	growthSeed("feedback-utf8-fromutf8", 1, `var s = "0123456789abcdef"`, `s.length`, `let b = s.utf8; s = String.fromUTF8(b.concat(b))!`),
	growthSeed("feedback-decodehex", 1, `var b: [UInt8] = [1, 2, 3, 4]`, `b.length`, `let h = String.encodeHex(b); b = h.concat(h).decodeHex()`),
	growthSeed("feedback-fromcharacters", 1, `var s = "0123456789abcdef"`, `s.length`, `var cs: [Character] = []; for c in s { cs.append(c); cs.append(c) }; s = String.fromCharacters(cs)`),
	growthSeed("feedback-array-concat", 8, `var a: [Int] = [1, 2, 3, 4]`, `a.length`, `a = a.concat(a)`),
	growthSeed("feedback-array-map", 8, `var a: [Int] = [1, 2, 3, 4]`, `a.length`, `a = a.concat(a.map(fun (x: Int): Int { return x + 1 }))`),
	growthSeed("feedback-array-filter", 8, `var a: [Int] = [1, 2, 3, 4]`, `a.length`, `a = a.concat(a.filter(view fun (x: Int): Bool { return true }))`),
	growthSeed("feedback-array-reverse", 8, `var a: [Int] = [1, 2, 3, 4]`, `a.length`, `a = a.reverse().concat(a.reverse())`),
	growthSeed("feedback-array-slice", 8, `var a: [Int] = [1, 2, 3, 4]`, `a.length`, `a = a.slice(from: 0, upTo: a.length).concat(a.slice(from: 0, upTo: a.length))`),
	growthSeed("feedback-array-appendall", 8, `var a: [Int] = [1, 2, 3, 4]`, `a.length`, `a.appendAll(a.slice(from: 0, upTo: a.length))`),
	growthSeed("feedback-array-insert", 8, `var a: [Int] = [1, 2, 3, 4]`, `a.length`, `a = a.concat(a); a.insert(at: a.length / 2, a.length)`),
	growthSeed("feedback-array-tovariable", 8, `var a: [Int] = [1, 2, 3, 4]`, `a.length`, `let c: [Int; 4] = [a[0], a[1], a[2], a[3]]; a = a.concat(c.toVariableSized())`),
	growthSeed("feedback-dict-insert", 32, `let d: {Int: Int} = {}`, `d.length`, `d[d.length] = d.length`),
	growthSeed("feedback-dict-keys-values", 8, `let d: {Int: Int} = {1: 1, 2: 2}; var a: [Int] = [1]`, `a.length`, `a = a.concat(d.keys).concat(d.values); d[a.length] = 1`),
	growthSeed("feedback-dict-string-keys", 32, `let d: {String: String} = {}`, `d.length`, `let k = d.length.toString(); d[k] = k`),
	growthSeed("feedback-nested-arrays", 8, `var a: [[Int]] = [[1, 2, 3, 4, 5, 6, 7, 8]]`, `a.length * 8`, `a = a.concat(a)`),
	growthSeed("feedback-bigint-square", 1, `var x: Int = 1000003`, `x.toBigEndianBytes().length`, `x = x * x`),
	growthSeed("feedback-bigint-shift", 1, `var x: UInt = 255`, `x.toBigEndianBytes().length`, `x = x << UInt(x.toBigEndianBytes().length * 8)`),
	growthSeed("feedback-bigendianbytes", 1, `var b: [UInt8] = [1, 2, 3, 4]`, `b.length`, `b = b.concat(UInt.fromBigEndianBytes(b)!.toBigEndianBytes())`),
	growthSeed("feedback-struct-array", 8, `var a: [S] = [S(1)]`, `a.length`, `a = a.concat(a)`),
}

func scriptItem(name, src string) Item {
	return Item{Name: name, Hist: prog.History{Steps: []prog.Step{{Kind: prog.Script, Source: src, MayFail: true}}, Origin: "execgen/bound:" + name}}
}

func txItem(name, src string, setup ...prog.Step) Item {
	steps := append(append([]prog.Step{}, setup...), prog.Step{Kind: prog.Tx, Source: src, Signers: []uint64{1}, MayFail: true})
	return Item{Name: name, Hist: prog.History{Steps: steps, Origin: "execgen/bound:" + name}}
}

const recContract = `access(all) contract Rec {
    access(all) struct interface Walker { access(all) fun walk(_ n: Int): Int { return self.step(n + 1) } access(all) fun step(_ n: Int): Int }
    access(all) struct W: Walker { access(all) fun step(_ n: Int): Int { return self.walk(n) } }
    access(all) resource Node { access(all) var next: @Node?; init(_ n: @Node?) { self.next <- n }
        access(all) fun depth(): Int { if let r = &self.next as &Node? { return 1 + r.depth() }; return 1 } }
    access(all) fun chain(_ n: Int): @Node { if n <= 1 { return <- create Node(nil) }; return <- create Node(<- self.chain(n - 1)) }
    access(all) fun down(_ n: Int): Int { if n == 0 { return 0 }; return 1 + self.down(n - 1) }
    access(all) fun forever(_ n: Int): Int { return self.forever(n + 1) + 1 }
}`

var boundSeeds = []boundSeed{
	// --- loops that never end ---------------------------------------------------------
	{name: "while-true-empty", diverges: true, gen: func(r *rand.Rand, n int) Item {
		return scriptItem("while-true-empty", `access(all) fun main() { while true {} }`)
	}},
	{name: "while-true-counter", diverges: true, gen: func(r *rand.Rand, n int) Item {
		return scriptItem("while-true-counter", `access(all) fun main(): Int { var i = 0; while true { i = i + 1 }; return i }`)
	}},
	{name: "while-continue", diverges: true, gen: func(r *rand.Rand, n int) Item {
		return scriptItem("while-continue", `access(all) fun main() { var i = 0; while i >= 0 { i = i + 1; if i % 2 == 0 { continue } } }`)
	}},
	{name: "for-over-growing-array", diverges: true, gen: func(r *rand.Rand, n int) Item {
		return scriptItem("for-over-growing-array", `access(all) fun main(): Int { var xs: [Int] = [1]; var t = 0; while true { for x in xs { t = t + x }; xs.append(t) }; return t }`)
	}},
	{name: "grow-array", diverges: true, gen: func(r *rand.Rand, n int) Item {
		return scriptItem("grow-array", `access(all) fun main() { var a: [String] = []; while true { a.append("some element of moderate length") } }`)
	}},
	{name: "grow-array-doubling", diverges: true, gen: func(r *rand.Rand, n int) Item {
		return scriptItem("grow-array-doubling", `access(all) fun main() { var a: [Int] = [1, 2, 3, 4]; while true { a = a.concat(a) } }`)
	}},
	{name: "grow-string-doubling", diverges: true, gen: func(r *rand.Rand, n int) Item {
		return scriptItem("grow-string-doubling", `access(all) fun main() { var s = "ab"; while true { s = s.concat(s) } }`)
	}},
	{name: "grow-string-replace", diverges: true, gen: func(r *rand.Rand, n int) Item {
		return scriptItem("grow-string-replace", `access(all) fun main() { var s = "aXa"; while true { s = s.replaceAll(of: "a", with: "aXa") } }`)
	}},
	{name: "grow-string-template", diverges: true, gen: func(r *rand.Rand, n int) Item {
		return scriptItem("grow-string-template", `access(all) fun main() { var s = "x"; while true { s = "\(s)-\(s)" } }`)
	}},
	{name: "grow-dict", diverges: true, gen: func(r *rand.Rand, n int) Item {
		return scriptItem("grow-dict", `access(all) fun main() { let d: {Int: String} = {}; var i = 0; while true { d[i] = i.toString(); i = i + 1 } }`)
	}},
	{name: "grow-bigint-square", diverges: true, gen: func(r *rand.Rand, n int) Item {
		return scriptItem("grow-bigint-square", `access(all) fun main() { var x: Int = 3; while true { x = x * x } }`)
	}},
	{name: "grow-bigint-shift", diverges: true, gen: func(r *rand.Rand, n int) Item {
		return scriptItem("grow-bigint-shift", `access(all) fun main() { var x: UInt = 1; var k: UInt = 1; while true { x = x << k; k = k * 2 } }`)
	}},
	{name: "grow-nested-value", diverges: true, gen: func(r *rand.Rand, n int) Item {
		return scriptItem("grow-nested-value", `access(all) fun main() { var x: AnyStruct = 0; while true { x = [x] } }`)
	}},
	{name: "grow-stored-array-tx", diverges: true, gen: func(r *rand.Rand, n int) Item {
		return txItem("grow-stored-array-tx", `transaction { prepare(a: auth(Storage) &Account) { a.storage.save([] as [Int], to: /storage/grow); let r = a.storage.borrow<auth(Mutate) &[Int]>(from: /storage/grow)!; var i = 0; while true { r.append(i); i = i + 1 } } }`)
	}},
	{name: "grow-resources", diverges: true, gen: func(r *rand.Rand, n int) Item {
		return txItem("grow-resources", `import Rec from 0x1
transaction { prepare(a: &Account) { var n = 1; while true { let c <- Rec.chain(n); destroy c; n = n * 2 } } }`, dep(1, "Rec", recContract))
	}},
	// --- unbounded recursion ------------------------------------------------------------
	{name: "rec-self", depth: true, gen: func(r *rand.Rand, n int) Item {
		return scriptItem("rec-self", `access(all) fun f(_ n: Int): Int { return f(n + 1) + 1 }
access(all) fun main(): Int { return f(0) }`)
	}},
	{name: "rec-mutual", depth: true, gen: func(r *rand.Rand, n int) Item {
		return scriptItem("rec-mutual", `access(all) fun f(_ n: Int): Int { return g(n + 1) }
access(all) fun g(_ n: Int): Int { return f(n) + 1 }
access(all) fun main(): Int { return f(0) }`)
	}},
	{name: "rec-closure", depth: true, gen: func(r *rand.Rand, n int) Item {
		return scriptItem("rec-closure", `access(all) fun main(): Int { var f: fun(Int): Int = fun (_ n: Int): Int { return n }; let g = fun (_ n: Int): Int { return f(n + 1) + 1 }; f = g; return f(0) }`)
	}},
	{name: "rec-method", depth: true, gen: func(r *rand.Rand, n int) Item {
		return scriptItem("rec-method", `access(all) struct S { access(all) fun m(_ n: Int): Int { return self.m(n + 1) + 1 } }
access(all) fun main(): Int { return S().m(0) }`)
	}},
	{name: "rec-interface-default", depth: true, gen: func(r *rand.Rand, n int) Item {
		return Item{Name: "rec-interface-default", Hist: prog.History{Steps: []prog.Step{dep(1, "Rec", recContract),
			{Kind: prog.Script, MayFail: true, Source: `import Rec from 0x1
access(all) fun main(): Int { return Rec.W().walk(0) }`}}}}
	}},
	{name: "rec-contract-function", depth: true, gen: func(r *rand.Rand, n int) Item {
		return Item{Name: "rec-contract-function", Hist: prog.History{Steps: []prog.Step{dep(1, "Rec", recContract),
			{Kind: prog.Script, MayFail: true, Source: `import Rec from 0x1
access(all) fun main(): Int { return Rec.forever(0) }`}}}}
	}},
	{name: "rec-initializer", depth: true, gen: func(r *rand.Rand, n int) Item {
		return scriptItem("rec-initializer", `access(all) struct T { access(all) let c: [T]; init(_ n: Int) { self.c = [T(n + 1)] } }
access(all) fun main(): Int { return T(0).c.length }`)
	}},
	{name: "rec-map-callback", depth: true, gen: func(r *rand.Rand, n int) Item {
		return scriptItem("rec-map-callback", `access(all) fun f(_ n: Int): Int { return [n].map(fun (x: Int): Int { return f(x + 1) })[0] }
access(all) fun main(): Int { return f(0) }`)
	}},
	// --- finite recursion of exact depth n (limit semantics, FX5) ----------------------------
	{name: "depth-exact", gen: func(r *rand.Rand, n int) Item {
		return scriptItem("depth-exact", fmt.Sprintf(`access(all) fun down(_ n: Int): Int { if n == 0 { return 0 }; return 1 + down(n - 1) }
access(all) fun main(): Int { return down(%d) }`, n))
	}},
	{name: "depth-exact-method", gen: func(r *rand.Rand, n int) Item {
		return scriptItem("depth-exact-method", fmt.Sprintf(`access(all) struct S { access(all) fun down(_ n: Int): Int { if n == 0 { return 0 }; return 1 + self.down(n - 1) } }
access(all) fun main(): Int { return S().down(%d) }`, n))
	}},
	// --- amplified built-ins that loop internally (bounded by n, n amplified) -------------------
	{name: "builtin-join", gen: func(r *rand.Rand, n int) Item {
		return scriptItem("builtin-join", fmt.Sprintf(`access(all) fun main(): Int { var a: [String] = ["seed"]; var i = 0; while i < %d { a = a.concat(a); i = i + 1 }; var t = 0; while true { t = t + String.join(a, separator: ",").length }; return t }`, 3+n%12))
	}, diverges: true},
	{name: "builtin-split-contains", gen: func(r *rand.Rand, n int) Item {
		return scriptItem("builtin-split-contains", fmt.Sprintf(`access(all) fun main(): Int { var s = "a,b"; var i = 0; while i < %d { s = s.concat(",").concat(s); i = i + 1 }; var t = 0; while true { let parts = s.split(separator: ","); if parts.contains("zz") { t = t + 1 }; t = t + parts.length }; return t }`, 3+n%10))
	}, diverges: true},
	{name: "builtin-array-ops", gen: func(r *rand.Rand, n int) Item {
		return scriptItem("builtin-array-ops", fmt.Sprintf(`access(all) fun main(): Int { var a: [Int] = [1, 2, 3]; var i = 0; while i < %d { a = a.concat(a); i = i + 1 }; var t = 0; while true { t = t + a.reverse().map(fun (x: Int): Int { return x + 1 }).filter(view fun (x: Int): Bool { return x > 1 }).length; if a.contains(-1) { t = 0 }; t = t + a.slice(from: 0, upTo: a.length / 2).length + (a.firstIndex(of: -5) ?? 0) }; return t }`, 3+n%10))
	}, diverges: true},
	{name: "builtin-range", gen: func(r *rand.Rand, n int) Item {
		return scriptItem("builtin-range", `access(all) fun main(): Int { var t = 0; for i in InclusiveRange(0, 1000000000000) { t = t + i }; return t }`)
	}, diverges: true},
	{name: "builtin-range-contains", gen: func(r *rand.Rand, n int) Item {
		return scriptItem("builtin-range-contains", `access(all) fun main(): Int { let r = InclusiveRange(0, 1000000000000000, step: 7); var t = 0; while true { if r.contains(t) { t = t + 3 } else { t = t + 1 } }; return t }`)
	}, diverges: true},
	{name: "builtin-foreachkey", gen: func(r *rand.Rand, n int) Item {
		return scriptItem("builtin-foreachkey", fmt.Sprintf(`access(all) fun main(): Int { let d: {Int: Int} = {}; var i = 0; while i < %d { d[i] = i; i = i + 1 }; var t = 0; while true { d.forEachKey(fun (k: Int): Bool { t = t + k; return true }); t = t + d.keys.length + d.values.length }; return t }`, 10+n%200))
	}, diverges: true},
	{name: "builtin-foreachstored", gen: func(r *rand.Rand, n int) Item {
		var b strings.Builder
		for i := 0; i < 3+n%20; i++ {
			fmt.Fprintf(&b, "a.storage.save(%d, to: /storage/v%d); ", i, i)
		}
		return txItem("builtin-foreachstored", `transaction { prepare(a: auth(Storage) &Account) { var t = 0; while true { a.storage.forEachStored(fun (p: StoragePath, ty: Type): Bool { t = t + 1; return true }); a.storage.forEachPublic(fun (p: PublicPath, ty: Type): Bool { return true }) } } }`,
			tx("transaction { prepare(a: auth(Storage) &Account) { "+b.String()+"} }", 1))
	}, diverges: true},
	{name: "builtin-foreachattachment", gen: func(r *rand.Rand, n int) Item {
		return scriptItem("builtin-foreachattachment", `access(all) struct S {}
access(all) attachment A for S {}
access(all) attachment B for S {}
access(all) fun main(): Int { let s = attach B() to attach A() to S(); var t = 0; while true { s.forEachAttachment(fun (r: &AnyStructAttachment) { t = t + 1 }) }; return t }`)
	}, diverges: true},
	{name: "builtin-tostring-nested", gen: func(r *rand.Rand, n int) Item {
		return scriptItem("builtin-tostring-nested", fmt.Sprintf(`access(all) fun main(): Int { var x: AnyStruct = 0; var i = 0; while i < %d { x = [x, x]; i = i + 1 }; var t = 0; while true { log(x); t = t + 1 }; return t }`, 2+n%12))
	}, diverges: true},
	{name: "builtin-equality-nested", gen: func(r *rand.Rand, n int) Item {
		return scriptItem("builtin-equality-nested", fmt.Sprintf(`access(all) fun main(): Int { var x: [[Int]] = [[1, 2, 3]]; var i = 0; while i < %d { x = x.concat(x); i = i + 1 }; let y = x; var t = 0; while true { if x == y { t = t + 1 } }; return t }`, 2+n%12))
	}, diverges: true},
	{name: "builtin-save-load-nested", gen: func(r *rand.Rand, n int) Item {
		return txItem("builtin-save-load-nested", fmt.Sprintf(`transaction { prepare(a: auth(Storage) &Account) { var x: [[Int]] = [[1, 2, 3]]; var i = 0; while i < %d { x = x.concat(x); i = i + 1 }; while true { a.storage.save(x, to: /storage/nest); x = a.storage.load<[[Int]]>(from: /storage/nest)! } } }`, 2+n%10))
	}, diverges: true},
	{name: "export-big-value", gen: func(r *rand.Rand, n int) Item {
		return scriptItem("export-big-value", fmt.Sprintf(`access(all) fun main(): [[Int]] { var x: [[Int]] = [[1, 2, 3]]; var i = 0; while i < %d { x = x.concat(x); i = i + 1 }; return x }`, 4+n%14))
	}},
	{name: "bounded-loop", gen: func(r *rand.Rand, n int) Item {
		return scriptItem("bounded-loop", fmt.Sprintf(`access(all) fun main(): Int { var t = 0; var i = 0; while i < %d { t = t + i; i = i + 1 }; return t }`, n))
	}},
}

// BoundSeedNames lists the seed templates.
func BoundSeedNames() []string {
	var out []string
	for _, s := range boundSeeds {
		out = append(out, s.name)
	}
	for _, s := range growthSeeds {
		out = append(out, s.name)
	}
	return out
}

// GrowthFactor: a value may grow to at most this multiple of the memory limit before the
// memory limit error must have been raised (GrowthFactorSlow for the seeds marked slow).
const GrowthFactor = 64
const GrowthFactorSlow = 8

var slowGrowth = map[string]bool{"feedback-int-tostring": true, "feedback-fromcharacters": true, "feedback-array-tovariable": true, "feedback-dict-insert": true, "feedback-dict-keys-values": true, "feedback-dict-string-keys": true, "feedback-struct-array": true, "feedback-decodehex": true, "feedback-utf8-fromutf8": true, "feedback-bigint-shift": true, "feedback-bigendianbytes": true, "feedback-array-appendall": true}

var growthMemLimits = []uint64{10_000, 30_000}

// GrowthCases: every growth seed x memory limit x engine (n > 0: a random sample of n seeds).
func GrowthCases(r *rand.Rand, n int) []BoundCase {
	var out []BoundCase
	idx := r.Perm(len(growthSeeds))
	if n > 0 && n < len(idx) {
		idx = idx[:n]
	}
	for _, k := range idx {
		s := growthSeeds[k]
		mem := growthMemLimits[r.Intn(len(growthMemLimits))]
		bound := GrowthFactor * mem
		if slowGrowth[s.name] {
			bound = GrowthFactorSlow * mem
		}
		units := int(bound) / s.unit
		bc := BoundCase{Seed: s.name, CompLimit: 40_000_000, MemLimit: mem, GrowthBound: bound, Item: s.gen(r, units)}
		for _, e := range host.Engines {
			c := bc
			c.Engine = int(e)
			out = append(out, c)
		}
	}
	return out
}

var compLimits = []uint64{1_000, 10_000, 100_000}
var memLimits = []uint64{3_000_000, 30_000_000}
var depthLimits = []uint64{10, 100, 0} // 0 = default (2000)

// BoundCases generates n cases (both engines are generated as separate cases, adjacent).
func BoundCases(r *rand.Rand, n int) []BoundCase {
	var out []BoundCase
	var exact []boundSeed
	for _, s := range boundSeeds {
		if strings.HasPrefix(s.name, "depth-exact") {
			exact = append(exact, s)
		}
	}
	for i := 0; len(out) < n; i++ {
		s := boundSeeds[(i-i/5)%len(boundSeeds)]
		if i%5 == 4 {
			// every fifth case probes the call-depth limit semantics with an exact depth
			s = exact[(i/5)%len(exact)]
		}
		amp := []int{5, 50, 500, 5000, 50000}[r.Intn(5)] + r.Intn(5)
		comp := compLimits[r.Intn(len(compLimits))]
		mem := memLimits[r.Intn(len(memLimits))]
		depth := depthLimits[r.Intn(len(depthLimits))]
		if (s.depth || s.diverges) && depth == 0 && r.Intn(8) != 0 {
			// reaching the default depth (2000) costs 10-40 s of unwinding in the interpreter: keep it rare
			depth = depthLimits[r.Intn(2)]
		}
		bc := BoundCase{Seed: s.name, CompLimit: comp, MemLimit: mem, StackDepthLimit: depth, Diverges: s.diverges || s.depth}
		switch {
		case s.depth:
			// unbounded recursion: generous metering limits in half of the cases so
			// that the depth limit is what must stop it
			if r.Intn(2) == 0 {
				bc.CompLimit, bc.MemLimit = 50_000_000, 2_000_000_000
				bc.WantDepthError = true
				if s.name == "rec-initializer" && bc.StackDepthLimit == 0 {
					// 2000 nested initializers take ~15 s in the interpreter (quadratic), keep the quick tier quick
					bc.StackDepthLimit = 100
				}
			}
		case strings.HasPrefix(s.name, "depth-exact"):
			d := []int{5, 9, 10, 11, 50, 99, 100, 101, 500, 1990, 2010, 2500}[r.Intn(12)]
			amp = d
			bc.Depth = d
			bc.CompLimit, bc.MemLimit = 50_000_000, 2_000_000_000
		}
		it := s.gen(r, amp)
		bc.Item = it
		for _, e := range host.Engines {
			c := bc
			c.Engine = int(e)
			out = append(out, c)
		}
	}
	return out
}

// DepthExactItem is the exact-depth recursion script (used by the FX6 repro).
func DepthExactItem(n int) Item {
	for _, s := range boundSeeds {
		if s.name == "depth-exact" {
			return s.gen(nil, n)
		}
	}
	panic("no depth-exact seed")
}
