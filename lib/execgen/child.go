package execgen

import (
	"bufio"
	"bytes"
	"encoding/json"
	"fmt"
	"io"
	"os"
	"os/exec"
	"runtime"
	"strings"
	"time"

	"verif/lib/host"
)

// Child-process protocol: the test binary is re-executed with
// -test.run=^TestChildExec$ and VERIF_EXEC_CHILD=1; the job is read from stdin
// as JSON, one reply line per unit of work is written to stdout, prefixed by
// replyMarker (the test framework writes its own lines to the same stream).

const replyMarker = "@@EXEC-REPLY@@ "

// Job modes.
const (
	ModeGauge = "gauge" // per item: gauge traces of every step
	ModeTrace = "trace" // per item: outcome trace
	ModeBound = "bound" // per bound case: run under limits
	ModeInfo  = "info"  // report GOMAXPROCS / NumCPU
	ModeBatch = "batch" // C36: concurrent rounds vs sequential baseline
)

type Job struct {
	Mode   string      `json:"mode"`
	Engine int         `json:"engine"`
	Items  []Item      `json:"items,omitempty"`
	Full   bool        `json:"full,omitempty"` // gauge mode: include the full sequences
	// Validation: run with runtime.Config.AtreeValidationEnabled (gauge and trace modes).
	Validation bool `json:"validation,omitempty"`
	Bounds []BoundCase `json:"bounds,omitempty"`
	Batch  *BatchJob   `json:"batch,omitempty"`
}

type Reply struct {
	Index      int          `json:"index"`
	Gauges     []GaugeTrace `json:"gauges,omitempty"`
	Trace      *Trace       `json:"trace,omitempty"`
	Bound      *BoundResult `json:"bound,omitempty"`
	Batch      *BatchResult `json:"batch,omitempty"`
	GoMaxProcs int          `json:"gomaxprocs,omitempty"`
	NumCPU     int          `json:"numcpu,omitempty"`
	Done       bool         `json:"done,omitempty"` // final line
}

// IsChild reports whether this process is a child worker.
func IsChild() bool { return os.Getenv("VERIF_EXEC_CHILD") != "" }

// ChildMain is the body of TestChildExec.
func ChildMain() {
	in, err := io.ReadAll(os.Stdin)
	if err != nil {
		fmt.Println("child: cannot read job:", err)
		os.Exit(3)
	}
	var job Job
	if err := json.Unmarshal(in, &job); err != nil {
		fmt.Println("child: bad job:", err)
		os.Exit(3)
	}
	w := bufio.NewWriter(os.Stdout)
	emit := func(r Reply) {
		b, _ := json.Marshal(r)
		w.WriteString("\n" + replyMarker)
		w.Write(b)
		w.WriteString("\n")
		w.Flush()
	}
	eng := host.Engine(job.Engine)
	switch job.Mode {
	case ModeGauge:
		for i, it := range job.Items {
			emit(Reply{Index: i, Gauges: RunGauges(it, eng, job.Full, job.Validation)})
		}
	case ModeTrace:
		for i, it := range job.Items {
			tr := RunTrace(it, RunOpts{Engine: eng, NoAtreeValidation: !job.Validation})
			emit(Reply{Index: i, Trace: &tr, GoMaxProcs: runtime.GOMAXPROCS(0), NumCPU: runtime.NumCPU()})
		}
	case ModeBound:
		for i, bc := range job.Bounds {
			br := RunBound(bc)
			emit(Reply{Index: i, Bound: &br})
		}
	case ModeBatch:
		br := RunBatch(*job.Batch)
		emit(Reply{Batch: &br, GoMaxProcs: runtime.GOMAXPROCS(0), NumCPU: runtime.NumCPU()})
	case ModeInfo:
		emit(Reply{GoMaxProcs: runtime.GOMAXPROCS(0), NumCPU: runtime.NumCPU()})
	}
	emit(Reply{Index: -1, Done: true})
}

// ChildOpts configure one child process.
type ChildOpts struct {
	GoMaxProcs int           // 0: inherit
	CPUs       string        // taskset -c list ("" = no affinity change)
	Timeout    time.Duration // whole job; 0 = 10 min
	// PerReply, when > 0, is the watchdog for the gap between two reply lines.
	PerReply time.Duration
	// MaxOutput: how much of the diagnostics output to keep (default 16000 bytes: head + tail).
	MaxOutput int
}

// ChildResult is what came back from a child.
type ChildResult struct {
	Replies  []Reply
	Complete bool   // the Done line was seen
	TimedOut bool   // killed by the watchdog (Replies holds what arrived before)
	Output   string // tail of the non-reply output (diagnostics)
	Err      error
}

func testBinary() string {
	if b := os.Getenv("VERIF_BIN"); b != "" {
		if _, err := os.Stat(b); err == nil {
			return b
		}
	}
	return os.Args[0]
}

var tasksetPath = func() string {
	p, err := exec.LookPath("taskset")
	if err != nil {
		return ""
	}
	return p
}()

// HaveTaskset reports whether CPU affinity can be varied.
func HaveTaskset() bool { return tasksetPath != "" }

// RunChild runs the job in a fresh child process.
func RunChild(job Job, o ChildOpts) ChildResult {
	in, err := json.Marshal(job)
	if err != nil {
		return ChildResult{Err: err}
	}
	args := []string{"-test.run=^TestChildExec$", "-test.count=1", "-test.timeout=0"}
	bin := testBinary()
	var cmd *exec.Cmd
	if o.CPUs != "" && tasksetPath != "" {
		cmd = exec.Command(tasksetPath, append([]string{"-c", o.CPUs, bin}, args...)...)
	} else {
		cmd = exec.Command(bin, args...)
	}
	env := make([]string, 0, len(os.Environ())+2)
	for _, e := range os.Environ() {
		if strings.HasPrefix(e, "VERIF_STATS_OUT=") || strings.HasPrefix(e, "VERIF_REPLAY_FILE=") || strings.HasPrefix(e, "GOMAXPROCS=") {
			continue
		}
		env = append(env, e)
	}
	env = append(env, "VERIF_EXEC_CHILD=1")
	if o.GoMaxProcs > 0 {
		env = append(env, fmt.Sprintf("GOMAXPROCS=%d", o.GoMaxProcs))
	}
	cmd.Env = env
	cmd.Stdin = bytes.NewReader(in)
	stdout, err := cmd.StdoutPipe()
	if err != nil {
		return ChildResult{Err: err}
	}
	var stderr bytes.Buffer
	cmd.Stderr = &stderr
	if err := cmd.Start(); err != nil {
		return ChildResult{Err: err}
	}
	type line struct {
		s   string
		eof bool
	}
	lines := make(chan line, 64)
	go func() {
		rd := bufio.NewReaderSize(stdout, 1<<20)
		for {
			s, err := rd.ReadString('\n')
			if s != "" {
				lines <- line{s: s}
			}
			if err != nil {
				lines <- line{eof: true}
				return
			}
		}
	}()
	total := o.Timeout
	if total == 0 {
		total = 10 * time.Minute
	}
	deadline := time.NewTimer(total)
	defer deadline.Stop()
	var res ChildResult
	var other strings.Builder
	gap := o.PerReply
	if gap == 0 {
		gap = total
	}
	watch := time.NewTimer(gap)
	defer watch.Stop()
loop:
	for {
		select {
		case l := <-lines:
			if l.eof {
				break loop
			}
			if strings.HasPrefix(l.s, replyMarker) {
				var r Reply
				if err := json.Unmarshal([]byte(strings.TrimPrefix(l.s, replyMarker)), &r); err != nil {
					res.Err = fmt.Errorf("bad reply line: %v", err)
					continue
				}
				if r.Done {
					res.Complete = true
				} else {
					res.Replies = append(res.Replies, r)
				}
				if !watch.Stop() {
					select {
					case <-watch.C:
					default:
					}
				}
				watch.Reset(gap)
			} else if other.Len() < 1<<16 {
				other.WriteString(l.s)
			}
		case <-watch.C:
			res.TimedOut = true
			_ = cmd.Process.Kill()
			break loop
		case <-deadline.C:
			res.TimedOut = true
			_ = cmd.Process.Kill()
			break loop
		}
	}
	werr := cmd.Wait()
	res.Output = other.String() + stderr.String()
	if max := o.MaxOutput; max > 16000 {
		if len(res.Output) > max {
			res.Output = res.Output[:max-6000] + "\n...[cut]...\n" + res.Output[len(res.Output)-6000:]
		}
	} else if len(res.Output) > 16000 {
		// keep the head (fatal error / race report header) and the tail
		res.Output = res.Output[:10000] + "\n...[cut]...\n" + res.Output[len(res.Output)-6000:]
	}
	if !res.Complete && !res.TimedOut && res.Err == nil {
		res.Err = fmt.Errorf("child ended without completing the job: %v", werr)
	}
	return res
}

// NumCPU is the number of CPUs usable for affinity experiments.
func NumCPU() int { return runtime.NumCPU() }
