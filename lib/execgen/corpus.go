// Package execgen is the corpus / generator library of the `exec` property
// group (C28, C30, C31, C33, C36): a hand-written corpus of histories that
// together touch every host callback kind the runtime can reach, simple
// template-based history generators, divergence seeds, shared-contract batches,
// and the runners (outcome traces, gauge traces, child-process protocol) those
// properties need. Everything is expressed as prog.History values so that other
// properties (C01, C24, C34, ...) can consume the corpus as well.
package execgen

import (
	"encoding/hex"
	"fmt"

	"verif/lib/prog"
)

// Item is a named history plus the few things a prog.History cannot express.
type Item struct {
	Name string       `json:"name"`
	Hist prog.History `json:"hist"`
	// ExtraCode maps string-location names (`import "x"`) to their code; it is
	// installed as host.ExtraCode before the history runs. Items with ExtraCode
	// are not exported through Corpus() (other consumers use plain prog.Run).
	ExtraCode map[string]string `json:"extra_code,omitempty"`
}

func hexs(s string) string { return hex.EncodeToString([]byte(s)) }

// contract sources used by several corpus entries ---------------------------------

const contractCounter = `access(all) contract Counter {
    access(all) event Bumped(by: Int, total: Int)
    access(all) var total: Int
    access(all) resource Box {
        access(all) var n: Int
        access(all) let tags: {String: Int}
        init(n: Int) { self.n = n; self.tags = {} }
        access(all) fun bump(by: Int) { self.n = self.n + by; self.tags["k".concat(self.n.toString())] = self.n }
    }
    access(all) struct Point { access(all) let x: Int; access(all) let y: Int; init(x: Int, y: Int) { self.x = x; self.y = y } }
    access(all) fun mk(_ n: Int): @Box { return <- create Box(n: n) }
    access(all) fun bump(by: Int): Int { self.total = self.total + by; emit Bumped(by: by, total: self.total); return self.total }
    init() { self.total = 0 }
}`

const contractCounterV2 = `access(all) contract Counter {
    access(all) event Bumped(by: Int, total: Int)
    access(all) var total: Int
    access(all) resource Box {
        access(all) var n: Int
        access(all) let tags: {String: Int}
        init(n: Int) { self.n = n; self.tags = {} }
        access(all) fun bump(by: Int) { self.n = self.n + by + 1; self.tags["k".concat(self.n.toString())] = self.n }
    }
    access(all) struct Point { access(all) let x: Int; access(all) let y: Int; init(x: Int, y: Int) { self.x = x; self.y = y } }
    access(all) fun mk(_ n: Int): @Box { return <- create Box(n: n) }
    access(all) fun bump(by: Int): Int { self.total = self.total + by * 2; emit Bumped(by: by, total: self.total); return self.total }
    access(all) fun extra(): String { return "v2" }
    init() { self.total = 0 }
}`

const contractIface = `access(all) contract Shapes {
    access(all) entitlement Grow
    access(all) struct interface Shape {
        access(all) fun area(): Int
        access(all) fun describe(): String { return "shape of area ".concat(self.area().toString()) }
    }
    access(all) struct Square: Shape { access(all) var s: Int; init(_ s: Int) { self.s = s }
        access(all) fun area(): Int { return self.s * self.s }
        access(Grow) fun grow() { self.s = self.s + 1 } }
    access(all) struct Rect: Shape { access(all) let w: Int; access(all) let h: Int; init(_ w: Int, _ h: Int) { self.w = w; self.h = h }
        access(all) fun area(): Int { return self.w * self.h }
        access(all) fun describe(): String { return "rect" } }
    access(all) resource interface Holder { access(all) fun count(): Int }
    access(all) resource Bag: Holder {
        access(all) var items: @[Item]
        init() { self.items <- [] }
        access(all) fun put(_ i: @Item) { self.items.append(<- i) }
        access(all) fun count(): Int { return self.items.length }
    }
    access(all) resource Item { access(all) let id: UInt64; init() { self.id = self.uuid } }
    access(all) fun bag(): @Bag { return <- create Bag() }
    access(all) fun item(): @Item { return <- create Item() }
}`

const contractUser = `import Counter from 0x1
access(all) contract User {
    access(all) fun twice(_ n: Int): Int { return Counter.bump(by: n) + Counter.bump(by: n) }
}`

const pubKeyExpr = `PublicKey(publicKey: "0102030405060708".decodeHex(), signatureAlgorithm: SignatureAlgorithm.ECDSA_P256)`
const blsKeyExpr = `PublicKey(publicKey: "aabbccdd".decodeHex(), signatureAlgorithm: SignatureAlgorithm.BLS_BLS12_381)`

func dep(addr uint64, name, src string) prog.Step {
	return prog.Step{Kind: prog.Deploy, Name: name, Source: src, Signers: []uint64{addr}}
}
func upd(addr uint64, name, src string) prog.Step {
	return prog.Step{Kind: prog.Update, Name: name, Source: src, Signers: []uint64{addr}}
}
func tx(src string, signers ...uint64) prog.Step {
	return prog.Step{Kind: prog.Tx, Source: src, Signers: signers}
}
func txArgs(src string, args []string, signers ...uint64) prog.Step {
	return prog.Step{Kind: prog.Tx, Source: src, Signers: signers, Args: args}
}
func script(src string, args ...string) prog.Step {
	return prog.Step{Kind: prog.Script, Source: src, Args: args}
}
func mayFail(s prog.Step) prog.Step { s.MayFail = true; return s }

func item(name string, feats []string, steps ...prog.Step) Item {
	return Item{Name: name, Hist: prog.History{Steps: steps, Features: feats, Origin: "execgen/corpus:" + name}}
}

// JSON-CDC argument literals.
func argInt(n int) string       { return fmt.Sprintf(`{"type":"Int","value":"%d"}`, n) }
func argString(s string) string { return fmt.Sprintf(`{"type":"String","value":%q}`, s) }
func argAddr(n uint64) string   { return fmt.Sprintf(`{"type":"Address","value":"0x%016x"}`, n) }
func argIntArray(ns ...int) string {
	s := `{"type":"Array","value":[`
	for i, n := range ns {
		if i > 0 {
			s += ","
		}
		s += argInt(n)
	}
	return s + `]}`
}

const acct = `getAuthAccount<auth(Storage, Capabilities, Contracts, Keys, Inbox) &Account>(0x1)`

// FullCorpus returns every hand-written history, including those that need
// ExtraCode. The order is fixed.
func FullCorpus() []Item {
	var c []Item
	add := func(it Item) { c = append(c, it) }

	// -- pure computation, logs, events ---------------------------------------------
	add(item("script-arith", []string{"script", "arith"},
		script(`access(all) fun main(): Int { var s = 0; var i = 0; while i < 20 { s = s + i * i; i = i + 1 }; return s }`)))
	add(item("script-log", []string{"script", "log"},
		script(`access(all) fun main(): String { log("a"); log(1 + 2); log([1, 2]); return "done" }`)))
	add(item("script-args", []string{"script", "args"},
		script(`access(all) fun main(a: Int, s: String, xs: [Int], who: Address): String { var t = a; for x in xs { t = t + x }; return s.concat(t.toString()).concat(who.toString()) }`,
			argInt(5), argString("sum="), argIntArray(1, 2, 3), argAddr(1))))
	add(item("script-strings", []string{"script", "strings"},
		script(`access(all) fun main(): [String] { let s = "héllo wörld, ça va?"; return [s.toLower(), s.slice(from: 1, upTo: 5), String.join(s.split(separator: " "), separator: "-"), s.replaceAll(of: "l", with: "LL"), "\(s.length) \(s.utf8.length)"] }`)))
	add(item("script-containers", []string{"script", "array", "dict"},
		script(`access(all) struct P { access(all) let a: Int; access(all) let b: [String]; init(_ a: Int) { self.a = a; self.b = [a.toString()] } }
access(all) fun main(): {String: [P]} { let d: {String: [P]} = {}; var i = 0; while i < 6 { let k = "k".concat((i % 3).toString()); if d[k] == nil { d[k] = [] }; d[k]!.append(P(i)); i = i + 1 }; return d }`)))
	add(item("script-closures", []string{"script", "closure", "recursion"},
		script(`access(all) fun fib(_ n: Int): Int { if n < 2 { return n }; return fib(n - 1) + fib(n - 2) }
access(all) fun main(): [Int] { var acc: [Int] = []; let add = fun (_ x: Int) { acc.append(x) }; var i = 0; while i < 8 { add(fib(i)); i = i + 1 }; return acc.map(fun (x: Int): Int { return x * 2 }).filter(view fun (x: Int): Bool { return x % 4 == 0 }) }`)))
	add(item("script-fail-user", []string{"script", "user-error"},
		mayFail(script(`access(all) fun main(): Int { let xs: [Int] = [1]; log("before"); return xs[3] }`))))
	add(item("script-check-error", []string{"script", "check-error", "recover-program"},
		mayFail(script(`access(all) fun main(): Int { return "not an int" }`))))
	add(item("script-random", []string{"script", "random"},
		script(`access(all) fun main(): [UInt64] { return [revertibleRandom<UInt64>(), revertibleRandom<UInt64>(modulo: 10), UInt64(revertibleRandom<UInt8>(modulo: 7)), UInt64(revertibleRandom<UInt256>(modulo: 1000))] }`)))
	add(item("script-blocks", []string{"script", "block"},
		script(`access(all) fun main(): [UInt64] { let b = getCurrentBlock(); let p = getBlock(at: b.height - 2)!; let none = getBlock(at: b.height + 100); log(b.id); log(p.timestamp); return [b.height, p.height, b.view, none == nil ? 0 : 1] }`)))
	add(item("script-hash", []string{"script", "hash"},
		script(`access(all) fun main(): [[UInt8]] { let d: [UInt8] = [1, 2, 3]; return [HashAlgorithm.SHA3_256.hash(d), HashAlgorithm.SHA2_256.hashWithTag(d, tag: "t"), HashAlgorithm.KECCAK_256.hash([])] }`)))
	add(item("script-pubkey-verify", []string{"script", "publickey", "signature"},
		script(`access(all) fun main(): [Bool] { let k = `+pubKeyExpr+`
 let ok = k.verify(signature: "76616c6964".decodeHex(), signedData: [1, 2], domainSeparationTag: "tag", hashAlgorithm: HashAlgorithm.SHA3_256)
 let bad = k.verify(signature: [0], signedData: [1, 2], domainSeparationTag: "tag", hashAlgorithm: HashAlgorithm.SHA2_256)
 return [ok, bad] }`)))
	add(item("script-pubkey-invalid", []string{"script", "publickey", "user-error"},
		mayFail(script(`access(all) fun main(): Int { let k = PublicKey(publicKey: [], signatureAlgorithm: SignatureAlgorithm.ECDSA_P256); return k.publicKey.length }`))))
	add(item("script-bls", []string{"script", "bls"},
		script(`access(all) fun main(): [Int] { let k = `+blsKeyExpr+`
 let pop = k.verifyPoP([1, 2, 3])
 let sig = BLS.aggregateSignatures([[1, 2], [3]])
 let agg = BLS.aggregatePublicKeys([k, k])
 return [pop ? 1 : 0, sig?.length ?? -1, agg?.publicKey?.length ?? -1] }`)))
	add(item("script-account-info", []string{"script", "account", "balance", "storage-info"},
		script(`access(all) fun main(): [UFix64] { let a = getAccount(0x1); return [a.balance, a.availableBalance, UFix64(a.storage.used), UFix64(a.storage.capacity)] }`)))

	// -- storage -----------------------------------------------------------------------
	add(item("tx-storage-basic", []string{"tx", "storage"},
		tx(`transaction { prepare(a: auth(Storage) &Account) { a.storage.save(42, to: /storage/n); a.storage.save("hello", to: /storage/s); a.storage.save([1, 2, 3], to: /storage/xs); log(a.storage.load<Int>(from: /storage/n)) } }`, 1),
		script(`access(all) fun main(): [AnyStruct] { let a = `+acct+`; return [a.storage.copy<String>(from: /storage/s), a.storage.borrow<&[Int]>(from: /storage/xs)!.length, a.storage.type(at: /storage/n), a.storage.check<String>(from: /storage/s)] }`)))
	add(item("tx-storage-big", []string{"tx", "storage", "slabs"},
		tx(`transaction { prepare(a: auth(Storage) &Account) { var xs: [String] = []; var i = 0; while i < 120 { xs.append("element number ".concat(i.toString()).concat(" padding padding padding")); i = i + 1 }; a.storage.save(xs, to: /storage/big); let d: {Int: String} = {}; i = 0; while i < 60 { d[i] = xs[i]; i = i + 1 }; a.storage.save(d, to: /storage/dict) } }`, 1),
		tx(`transaction { prepare(a: auth(Storage) &Account) { let xs = a.storage.borrow<auth(Mutate) &[String]>(from: /storage/big)!; xs.remove(at: 3); xs.append("tail"); let d = a.storage.borrow<auth(Mutate) &{Int: String}>(from: /storage/dict)!; d.remove(key: 7); d[1000] = "k" } }`, 1),
		script(`access(all) fun main(): Int { let a = `+acct+`; var n = 0; a.storage.forEachStored(fun (p: StoragePath, t: Type): Bool { n = n + 1; return true }); return n + a.storage.borrow<&[String]>(from: /storage/big)!.length + a.storage.borrow<&{Int: String}>(from: /storage/dict)!.length }`)))
	add(item("tx-storage-multi-account", []string{"tx", "storage", "multi-signer"},
		tx(`transaction { prepare(a: auth(Storage) &Account, b: auth(Storage) &Account, c: auth(Storage) &Account) { a.storage.save(1, to: /storage/v); b.storage.save([a.address, b.address], to: /storage/v); c.storage.save({"x": 1, "y": 2, "z": 3}, to: /storage/v); log(c.address) } }`, 3, 1, 2),
		tx(`transaction { prepare(a: auth(Storage) &Account, b: auth(Storage) &Account) { let x = a.storage.load<Int>(from: /storage/v)!; b.storage.save(x + 1, to: /storage/w) } execute { log("moved") } }`, 3, 2)))
	add(item("tx-failing-after-writes", []string{"tx", "storage", "user-error", "rollback"},
		mayFail(tx(`transaction { prepare(a: auth(Storage) &Account) { a.storage.save(1, to: /storage/a1); a.storage.save([1, 2, 3], to: /storage/a2) } execute { panic("abort after writes") } }`, 1)),
		script(`access(all) fun main(): Bool { return `+acct+`.storage.type(at: /storage/a1) == nil }`)))
	add(item("tx-pre-post", []string{"tx", "conditions"},
		txArgs(`transaction(n: Int) { let m: Int; prepare(a: auth(Storage) &Account) { self.m = n * 2; a.storage.save(self.m, to: /storage/m) } pre { n > 0: "n must be positive" } execute { log(self.m) } post { self.m == n * 2: "doubled" } }`, []string{argInt(4)}, 1),
		mayFail(txArgs(`transaction(n: Int) { prepare(a: &Account) {} pre { n > 0: "n must be positive" } }`, []string{argInt(0)}, 1))))

	// -- resources, contracts, events -------------------------------------------------
	add(item("contract-resources", []string{"deploy", "tx", "resource", "uuid", "event"},
		dep(1, "Counter", contractCounter),
		tx(`import Counter from 0x1
transaction { prepare(a: auth(Storage) &Account) { let b <- Counter.mk(3); b.bump(by: 2); a.storage.save(<- b, to: /storage/box); log(Counter.bump(by: 5)) } }`, 1),
		tx(`import Counter from 0x1
transaction { prepare(a: auth(Storage) &Account) { let b <- a.storage.load<@Counter.Box>(from: /storage/box)!; b.bump(by: 1); log(b.n); log(b.uuid); destroy b; log(Counter.bump(by: 1)) } }`, 1),
		script(`import Counter from 0x1
access(all) fun main(): [AnyStruct] { return [Counter.total, Counter.Point(x: 1, y: 2), Counter.getType().identifier] }`)))
	add(item("contract-import-chain", []string{"deploy", "import-chain", "event"},
		dep(1, "Counter", contractCounter),
		dep(2, "User", contractUser),
		tx(`import User from 0x2
transaction { execute { log(User.twice(3)) } }`),
		script(`import User from 0x2
import Counter from 0x1
access(all) fun main(): Int { return User.twice(1) + Counter.total }`)))
	add(item("contract-update", []string{"deploy", "update", "event"},
		dep(1, "Counter", contractCounter),
		tx(`import Counter from 0x1
transaction { prepare(a: auth(Storage) &Account) { a.storage.save(<- Counter.mk(1), to: /storage/box); log(Counter.bump(by: 1)) } }`, 1),
		upd(1, "Counter", contractCounterV2),
		tx(`import Counter from 0x1
transaction { prepare(a: auth(Storage) &Account) { let b = a.storage.borrow<&Counter.Box>(from: /storage/box)!; b.bump(by: 1); log(b.n); log(Counter.bump(by: 1)); log(Counter.extra()) } }`, 1)))
	add(item("contract-update-invalid", []string{"deploy", "update", "user-error"},
		dep(1, "Counter", contractCounter),
		mayFail(upd(1, "Counter", `access(all) contract Counter { access(all) var total: String; init() { self.total = "" } }`))))
	add(item("contract-lifecycle-in-tx", []string{"tx", "contracts-api", "remove"},
		tx(fmt.Sprintf(`transaction { prepare(a: auth(Contracts) &Account) {
 let c = a.contracts.add(name: "Tiny", code: %q.decodeHex()); log(c.name); log(a.contracts.names)
 let g = a.contracts.get(name: "Tiny")!; log(g.code.length)
 a.contracts.update(name: "Tiny", code: %q.decodeHex())
 log(a.contracts.borrow<&AnyStruct>(name: "Nope") == nil) } }`,
			hexs(`access(all) contract Tiny { access(all) fun f(): Int { return 1 } }`),
			hexs(`access(all) contract Tiny { access(all) fun f(): Int { return 2 } access(all) fun g(): Int { return 3 } }`)), 1),
		tx(`transaction { prepare(a: auth(Contracts) &Account) { let r = a.contracts.remove(name: "Tiny"); log(r != nil); log(a.contracts.names); log(a.contracts.remove(name: "Tiny") == nil) } }`, 1)))
	add(item("contract-tryupdate", []string{"tx", "contracts-api", "tryupdate"},
		dep(1, "Counter", contractCounter),
		tx(fmt.Sprintf(`transaction { prepare(a: auth(Contracts, Storage) &Account) {
 a.storage.save(1, to: /storage/beforeTry)
 log("tryUpdate:begin"); let r = a.contracts.tryUpdate(name: "Counter", code: %q.decodeHex()); log("tryUpdate:end")
 log("tryUpdate:deployed=".concat(r.deployedContract != nil ? "true" : "false"))
 a.storage.save(2, to: /storage/afterTry) } }`, hexs(contractCounterV2)), 1),
		tx(fmt.Sprintf(`transaction { prepare(a: auth(Contracts) &Account) {
 log("tryUpdate:begin"); let r = a.contracts.tryUpdate(name: "Counter", code: %q.decodeHex()); log("tryUpdate:end")
 log("tryUpdate:deployed=".concat(r.deployedContract != nil ? "true" : "false")) } }`,
			hexs(`access(all) contract Counter { access(all) var total: String; init() { self.total = "" } }`)), 1),
		script(`import Counter from 0x1
access(all) fun main(): String { return Counter.extra() }`)))
	add(item("contract-init-args", []string{"tx", "contracts-api", "event"},
		tx(fmt.Sprintf(`transaction { prepare(a: auth(Contracts, Storage) &Account) {
 a.contracts.add(name: "Init", code: %q.decodeHex(), 7, "seven") } }`,
			hexs(`access(all) contract Init { access(all) event Made(n: Int, s: String); access(all) let n: Int; access(all) resource R {} init(_ n: Int, _ s: String) { self.n = n; emit Made(n: n, s: s); self.account.storage.save(<- create R(), to: /storage/initR) } }`)), 1),
		script(`import Init from 0x1
access(all) fun main(): Int { return Init.n }`)))
	add(item("interfaces-and-bags", []string{"deploy", "tx", "interface", "resource", "nested-resource", "uuid"},
		dep(1, "Shapes", contractIface),
		tx(`import Shapes from 0x1
transaction { prepare(a: auth(Storage) &Account) { let bag <- Shapes.bag(); var i = 0; while i < 5 { bag.put(<- Shapes.item()); i = i + 1 }; log(bag.count()); a.storage.save(<- bag, to: /storage/bag); let shapes: [{Shapes.Shape}] = [Shapes.Square(3), Shapes.Rect(2, 5)]; for s in shapes { log(s.describe()) }; a.storage.save(shapes, to: /storage/shapes) } }`, 1),
		script(`import Shapes from 0x1
access(all) fun main(): [AnyStruct] { let a = `+acct+`; let h = a.storage.borrow<&{Shapes.Holder}>(from: /storage/bag)!; let sq = a.storage.borrow<auth(Mutate) &[{Shapes.Shape}]>(from: /storage/shapes)!; return [h.count(), sq[0].area(), sq[1].describe(), sq[0].isInstance(Type<Shapes.Square>())] }`),
		tx(`import Shapes from 0x1
transaction { prepare(a: auth(Storage) &Account) { let bag <- a.storage.load<@Shapes.Bag>(from: /storage/bag)!; destroy bag } }`, 1)))
	add(item("events-many", []string{"tx", "event"},
		dep(1, "Counter", contractCounter),
		tx(`import Counter from 0x1
transaction { execute { var i = 1; while i <= 6 { Counter.bump(by: i); i = i + 1 } } }`)))
	add(item("resource-destroyed-event", []string{"deploy", "tx", "resource", "default-destroy-event"},
		dep(1, "Vaults", `access(all) contract Vaults { access(all) resource Vault { access(all) event ResourceDestroyed(id: UInt64 = self.uuid, bal: Int = self.bal); access(all) var bal: Int; init(_ b: Int) { self.bal = b } } access(all) fun mk(_ b: Int): @Vault { return <- create Vault(b) } }`),
		tx(`import Vaults from 0x1
transaction { execute { let v <- Vaults.mk(10); let w <- Vaults.mk(20); destroy v; destroy w } }`)))

	// -- accounts, keys ----------------------------------------------------------------
	add(item("account-create", []string{"tx", "account-create", "event"},
		tx(`transaction { prepare(a: auth(BorrowValue) &Account) { let n = Account(payer: a); log(n.address); n.storage.save(1, to: /storage/fresh); let m = Account(payer: a); log(m.address) } }`, 1)))
	add(item("account-keys", []string{"tx", "keys", "publickey"},
		tx(`transaction { prepare(a: auth(Keys) &Account) {
 let k0 = a.keys.add(publicKey: `+pubKeyExpr+`, hashAlgorithm: HashAlgorithm.SHA3_256, weight: 100.0); log(k0.keyIndex)
 let k1 = a.keys.add(publicKey: `+pubKeyExpr+`, hashAlgorithm: HashAlgorithm.SHA2_256, weight: 50.0); log(k1.weight)
 log(a.keys.count); log(a.keys.get(keyIndex: 1)!.hashAlgorithm); log(a.keys.get(keyIndex: 9) == nil)
 a.keys.forEach(fun (k: AccountKey): Bool { log(k.keyIndex); return true })
 let r = a.keys.revoke(keyIndex: 0)!; log(r.isRevoked); log(a.keys.revoke(keyIndex: 9) == nil) } }`, 1),
		script(`access(all) fun main(): [AnyStruct] { let a = getAccount(0x1); return [a.keys.count, a.keys.get(keyIndex: 0)!.isRevoked, a.keys.get(keyIndex: 1)!.publicKey.publicKey] }`)))
	add(item("account-info-tx", []string{"tx", "balance", "storage-info"},
		tx(`transaction { prepare(a: auth(Storage) &Account) { a.storage.save([1, 2, 3], to: /storage/q); log(a.storage.used); log(a.storage.capacity); log(a.balance); log(a.availableBalance) } }`, 1)))

	// -- capabilities -------------------------------------------------------------------
	add(item("capabilities-basic", []string{"tx", "capabilities", "account-id"},
		dep(1, "Counter", contractCounter),
		tx(`import Counter from 0x1
transaction { prepare(a: auth(Storage, Capabilities) &Account) { a.storage.save(<- Counter.mk(9), to: /storage/box); let cap = a.capabilities.storage.issue<&Counter.Box>(/storage/box); log(cap.id); a.capabilities.publish(cap, at: /public/box); let c2 = a.capabilities.storage.issue<&Counter.Box>(/storage/box); log(c2.id); log(a.capabilities.storage.getControllers(forPath: /storage/box).length) } }`, 1),
		script(`import Counter from 0x1
access(all) fun main(): [AnyStruct] { let a = getAccount(0x1); let c = a.capabilities.get<&Counter.Box>(/public/box); return [c.check(), c.borrow()!.n, a.capabilities.borrow<&Counter.Box>(/public/box)!.n, a.capabilities.exists(/public/box), a.capabilities.get<&Int>(/public/box).check()] }`),
		tx(`transaction { prepare(a: auth(Capabilities) &Account) { let c = a.capabilities.unpublish(/public/box)!; log(c.id); let ctl = a.capabilities.storage.getController(byCapabilityID: 1)!; ctl.setTag("t"); log(ctl.tag); ctl.delete() } }`, 1)))
	add(item("capabilities-account-and-inbox", []string{"tx", "capabilities", "inbox", "account-id", "event"},
		tx(`transaction { prepare(a: auth(Storage, Capabilities, Inbox) &Account) { a.storage.save("msg", to: /storage/m); let ac = a.capabilities.account.issue<&Account>(); log(ac.id); let c = a.capabilities.storage.issue<&String>(/storage/m); a.inbox.publish(c, name: "hello", recipient: 0x2); let d = a.capabilities.storage.issue<&String>(/storage/m); a.inbox.publish(d, name: "bye", recipient: 0x2); log(a.inbox.unpublish<&String>("bye") != nil) } }`, 1),
		tx(`transaction { prepare(b: auth(Storage, Inbox) &Account) { let c = b.inbox.claim<&String>("hello", provider: 0x1)!; log(c.borrow()!.length); b.storage.save(c, to: /storage/claimed) } }`, 2)))

	// -- attachments, entitlements, misc language --------------------------------------
	add(item("attachments", []string{"script", "attachment"},
		script(`access(all) struct S { access(all) let v: Int; init(_ v: Int) { self.v = v } }
access(all) attachment A for S { access(all) let k: Int; init(_ k: Int) { self.k = k } access(all) fun sum(): Int { return self.k + base.v } }
access(all) fun main(): [Int] { let s = attach A(5) to S(7); var n = 0; s.forEachAttachment(fun (r: &AnyStructAttachment) { n = n + 1 }); let t = s; remove A from t; return [s[A]!.sum(), n, t[A] == nil ? 0 : 1] }`)))
	add(item("entitlements", []string{"deploy", "script", "entitlement", "reference"},
		dep(1, "Shapes", contractIface),
		script(`import Shapes from 0x1
access(all) fun main(): [Int] { let sq = Shapes.Square(2); let r = &sq as auth(Shapes.Grow) &Shapes.Square; r.grow(); r.grow(); let plain = r as &Shapes.Square; let back = plain as? auth(Shapes.Grow) &Shapes.Square; let opt: Int? = nil; return [sq.area(), plain.area(), back == nil ? 0 : 1, opt ?? 9] }`)))
	add(item("ranges-and-numbers", []string{"script", "range", "numbers", "fixedpoint"},
		script(`access(all) fun main(): [AnyStruct] { var t: Int = 0; for i in InclusiveRange(1, 30, step: 3) { t = t + i }; let big: UInt256 = 1 << 200; let f: UFix64 = 1.5 * 2.25; let w: Word8 = Word8(250) + Word8(10); let s: Int8 = Int8(100).saturatingAdd(100); return [t, big / UInt256(7), f, w, s, (-7) % 3, Int.fromString("123")!, UInt8(255).toBigEndianBytes(), UInt16.fromBigEndianBytes([1, 2])] }`)))
	// storage iteration over values whose types live in another program: the iteration loads the
	// type's program (GetOrLoadProgram) without the iterating transaction importing it (FX9)
	add(item("tx-foreachstored-imported-types", []string{"deploy", "tx", "storage-iteration", "import-at-runtime"},
		dep(1, "Counter", contractCounter),
		tx(`import Counter from 0x1
transaction { prepare(a: auth(Storage, Capabilities) &Account) { a.storage.save(Counter.Point(x: 1, y: 2), to: /storage/pt); a.storage.save(<- Counter.mk(3), to: /storage/box); a.storage.save(7, to: /storage/seven)
 a.capabilities.publish(a.capabilities.storage.issue<&Counter.Box>(/storage/box), at: /public/box) } }`, 2),
		tx(`transaction { prepare(a: auth(Storage) &Account) { var n = 0; a.storage.forEachStored(fun (p: StoragePath, t: Type): Bool { log(p); log(t); n = n + 1; return true })
 a.storage.forEachPublic(fun (p: PublicPath, t: Type): Bool { log(p); log(t); n = n + 1; return true }); log(n) } }`, 2)))
	add(item("import-missing", []string{"script", "user-error", "import-error"},
		mayFail(script(`import Nope from 0x5
access(all) fun main(): Int { return 1 }`))))

	// -- string-location import (GetCode) -----------------------------------------------
	it := item("import-string-location", []string{"script", "string-import", "getcode"},
		script(`import "helper"
access(all) fun main(): Int { return triple(4) + Helper().v }`))
	it.ExtraCode = map[string]string{"helper": `access(all) fun triple(_ n: Int): Int { return n * 3 }
access(all) struct Helper { access(all) let v: Int; init() { self.v = 1 } }`}
	add(it)
	it = item("import-string-broken", []string{"script", "string-import", "getcode", "recover-program", "check-error"},
		mayFail(script(`import "broken"
access(all) fun main(): Int { return f() }`)))
	it.ExtraCode = map[string]string{"broken": `access(all) fun f(): Int { return "nope" }`}
	add(it)
	return c
}

// Corpus returns the hand-written histories that run with plain prog.Run (no
// ExtraCode).
func Corpus() []prog.History {
	var out []prog.History
	for _, it := range FullCorpus() {
		if len(it.ExtraCode) == 0 {
			out = append(out, it.Hist)
		}
	}
	return out
}
