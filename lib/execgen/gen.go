package execgen

import (
	"fmt"
	"math/rand"
	"strings"

	"verif/lib/prog"
)

// Template-based history generators. Every template draws its parameters from r
// only, and produces histories whose non-MayFail steps succeed on both engines.

type template struct {
	name string
	gen  func(r *rand.Rand) prog.History
}

var templates = []template{
	{"storage-churn", genStorageChurn},
	{"dict-order", genDictOrder},
	{"resource-shuffle", genResourceShuffle},
	{"multi-contract-update", genMultiContractUpdate},
	{"events-and-logs", genEventsAndLogs},
	{"caps", genCaps},
	{"compute", genCompute},
	{"accounts-keys", genAccountsKeys},
}

// Templates generates n histories, cycling through the templates.
func Templates(r *rand.Rand, n int) []prog.History {
	out := make([]prog.History, 0, n)
	for i := 0; i < n; i++ {
		t := templates[i%len(templates)]
		h := t.gen(r)
		h.Origin = "execgen/template:" + t.name
		h.Features = append(h.Features, "template:"+t.name)
		out = append(out, h)
	}
	return out
}

func pick[T any](r *rand.Rand, xs ...T) T { return xs[r.Intn(len(xs))] }

func signersN(r *rand.Rand, n int) []uint64 {
	p := r.Perm(6)
	out := make([]uint64, n)
	for i := range out {
		out[i] = uint64(p[i] + 1)
	}
	return out
}

// valueExpr returns a Cadence expression of a storable struct type and its type.
func valueExpr(r *rand.Rand, depth int) (expr, typ string) {
	switch k := r.Intn(9); {
	case k == 0:
		return fmt.Sprint(r.Intn(2000) - 1000), "Int"
	case k == 1:
		return fmt.Sprintf("UInt64(%d)", r.Uint32()), "UInt64"
	case k == 2:
		return fmt.Sprintf("%q", strings.Repeat(pick(r, "a", "xy", "é", "long-"), 1+r.Intn(12))), "String"
	case k == 3:
		return pick(r, "true", "false"), "Bool"
	case k == 4:
		return fmt.Sprintf("%d.%02d", r.Intn(1000), r.Intn(100)), "UFix64"
	case k == 5:
		return fmt.Sprintf("Address(0x%x)", 1+r.Intn(9)), "Address"
	case k >= 6 && depth > 0 && k == 6:
		n := r.Intn(5)
		e, t := valueExpr(r, depth-1)
		parts := []string{e}
		for i := 0; i < n; i++ {
			parts = append(parts, e)
		}
		return "[" + strings.Join(parts, ", ") + "] as [" + t + "]", "[" + t + "]"
	case k >= 6 && depth > 0 && k == 7:
		n := 1 + r.Intn(5)
		e, t := valueExpr(r, depth-1)
		var parts []string
		for i := 0; i < n; i++ {
			parts = append(parts, fmt.Sprintf("%q: %s", fmt.Sprintf("k%d", r.Intn(50)+i*50), e))
		}
		return "{" + strings.Join(parts, ", ") + "} as {String: " + t + "}", "{String: " + t + "}"
	case k >= 6 && depth > 0:
		e, t := valueExpr(r, depth-1)
		return "(" + e + ") as " + t + "?", t + "?"
	}
	return fmt.Sprint(r.Intn(100)), "Int"
}

func genStorageChurn(r *rand.Rand) prog.History {
	var steps []prog.Step
	who := signersN(r, 2)
	type slot struct {
		owner int
		path  string
		typ   string
	}
	var slots []slot
	for t := 0; t < 1+r.Intn(3); t++ {
		var body0, body1 strings.Builder
		for i := 0; i < 2+r.Intn(6); i++ {
			e, ty := valueExpr(r, 2)
			o := r.Intn(2)
			p := fmt.Sprintf("s%d_%d", t, i)
			b := &body0
			if o == 1 {
				b = &body1
			}
			fmt.Fprintf(b, "let v%d: %s = %s; acct%d.storage.save(v%d, to: /storage/%s); ", i, ty, e, o, i, p)
			slots = append(slots, slot{o, p, ty})
		}
		steps = append(steps, prog.Step{Kind: prog.Tx, Signers: who,
			Source: fmt.Sprintf(`transaction { prepare(acct0: auth(Storage) &Account, acct1: auth(Storage) &Account) { %s %s } }`, body0.String(), body1.String())})
	}
	// move / overwrite some
	var body strings.Builder
	for i, s := range slots {
		switch r.Intn(4) {
		case 0:
			fmt.Fprintf(&body, "let m%d = acct%d.storage.load<%s>(from: /storage/%s)!; acct%d.storage.save(m%d, to: /storage/moved%d); ", i, s.owner, s.typ, s.path, 1-s.owner, i, i)
		case 1:
			fmt.Fprintf(&body, "log(acct%d.storage.copy<%s>(from: /storage/%s)); ", s.owner, s.typ, s.path)
		case 2:
			fmt.Fprintf(&body, "log(acct%d.storage.type(at: /storage/%s)); ", s.owner, s.path)
		}
	}
	steps = append(steps, prog.Step{Kind: prog.Tx, Signers: who,
		Source: fmt.Sprintf(`transaction { prepare(acct0: auth(Storage) &Account, acct1: auth(Storage) &Account) { %s } }`, body.String())})
	steps = append(steps, prog.Step{Kind: prog.Script, Source: fmt.Sprintf(`access(all) fun main(): [String] { let a = getAuthAccount<auth(Storage) &Account>(0x%x); var out: [String] = []; a.storage.forEachStored(fun (p: StoragePath, t: Type): Bool { out.append(p.toString().concat(":").concat(t.identifier)); return true }); return out }`, who[0])})
	return prog.History{Steps: steps, Features: []string{"storage", "multi-account"}}
}

func genDictOrder(r *rand.Rand) prog.History {
	n := 20 + r.Intn(120)
	mul := 1 + 2*r.Intn(50)
	rem := 2 + r.Intn(5)
	kt := pick(r, "Int", "String", "UInt8", "Address")
	key := map[string]string{"Int": "i * %d %% 1009", "String": `"key".concat((i * %d %% 1009).toString())`, "UInt8": "UInt8(i * %d %% 251)", "Address": "Address(UInt64(i * %d %% 1009 + 1))"}[kt]
	key = fmt.Sprintf(key, mul)
	who := signersN(r, 1)
	src := fmt.Sprintf(`transaction { prepare(a: auth(Storage) &Account) {
 let d: {%s: Int} = {}; var i = 0
 while i < %d { d[%s] = i; i = i + 1 }
 i = 0
 while i < %d { if i %% %d == 0 { d.remove(key: %s) }; i = i + 1 }
 var acc: [Int] = []
 for k in d.keys { acc.append(d[k]!) }
 log(acc); log(d.values.length)
 d.forEachKey(fun (k: %s): Bool { log(k); return d[k]! %% 7 != 0 })
 a.storage.save(d, to: /storage/d) } }`, kt, n, key, n, rem, key, kt)
	s2 := fmt.Sprintf(`access(all) fun main(): [Int] { let d = getAuthAccount<auth(Storage) &Account>(0x%x).storage.borrow<&{%s: Int}>(from: /storage/d)!; var out: [Int] = []; for k in d.keys { out.append(d[k]!) }; return out }`, who[0], kt)
	return prog.History{Steps: []prog.Step{{Kind: prog.Tx, Signers: who, Source: src}, {Kind: prog.Script, Source: s2}}, Features: []string{"dict", "ordering", "storage"}}
}

const contractNFT = `access(all) contract Things {
    access(all) event Minted(id: UInt64, tag: String)
    access(all) event Moved(id: UInt64, to: Address?)
    access(all) var minted: Int
    access(all) resource Thing { access(all) let tag: String; access(all) var hops: Int
        init(tag: String) { self.tag = tag; self.hops = 0 }
        access(all) fun hop() { self.hops = self.hops + 1 } }
    access(all) resource Shelf {
        access(all) var things: @{UInt64: Thing}
        init() { self.things <- {} }
        access(all) fun put(_ t: @Thing) { t.hop(); emit Moved(id: t.uuid, to: self.owner?.address); let old <- self.things[t.uuid] <- t; destroy old }
        access(all) fun take(_ id: UInt64): @Thing { return <- self.things.remove(key: id)! }
        access(all) fun ids(): [UInt64] { return self.things.keys }
    }
    access(all) fun mint(_ tag: String): @Thing { self.minted = self.minted + 1; let t <- create Thing(tag: tag); emit Minted(id: t.uuid, tag: tag); return <- t }
    access(all) fun shelf(): @Shelf { return <- create Shelf() }
    init() { self.minted = 0 }
}`

func genResourceShuffle(r *rand.Rand) prog.History {
	owner := uint64(1 + r.Intn(3))
	users := signersN(r, 2)
	imp := fmt.Sprintf("import Things from 0x%x\n", owner)
	steps := []prog.Step{{Kind: prog.Deploy, Name: "Things", Source: contractNFT, Signers: []uint64{owner}}}
	steps = append(steps, prog.Step{Kind: prog.Tx, Signers: users, Source: imp + `transaction { prepare(a: auth(Storage) &Account, b: auth(Storage) &Account) { a.storage.save(<- Things.shelf(), to: /storage/shelf); b.storage.save(<- Things.shelf(), to: /storage/shelf) } }`})
	n := 2 + r.Intn(8)
	steps = append(steps, prog.Step{Kind: prog.Tx, Signers: users[:1], Source: imp + fmt.Sprintf(`transaction { prepare(a: auth(Storage) &Account) { let s = a.storage.borrow<&Things.Shelf>(from: /storage/shelf)!; var i = 0; while i < %d { s.put(<- Things.mint("t".concat(i.toString()))); i = i + 1 }; log(s.ids()) } }`, n)})
	for k := 0; k < 1+r.Intn(3); k++ {
		m := 1 + r.Intn(n)
		steps = append(steps, prog.Step{Kind: prog.Tx, Signers: users, Source: imp + fmt.Sprintf(`transaction { prepare(a: auth(Storage) &Account, b: auth(Storage) &Account) { let from = a.storage.borrow<&Things.Shelf>(from: /storage/shelf)!; let to = b.storage.borrow<&Things.Shelf>(from: /storage/shelf)!; var moved = 0; for id in from.ids() { if moved < %d { to.put(<- from.take(id)); moved = moved + 1 } }; log(to.ids().length) } }`, m)})
		users[0], users[1] = users[1], users[0]
	}
	if r.Intn(2) == 0 {
		steps = append(steps, prog.Step{Kind: prog.Tx, Signers: users[:1], Source: imp + `transaction { prepare(a: auth(Storage) &Account) { let s <- a.storage.load<@Things.Shelf>(from: /storage/shelf)!; log(s.ids().length); destroy s } }`})
	}
	steps = append(steps, prog.Step{Kind: prog.Script, Source: imp + fmt.Sprintf(`access(all) fun main(): [AnyStruct] { let s = getAuthAccount<auth(Storage) &Account>(0x%x).storage.borrow<&Things.Shelf>(from: /storage/shelf); return [Things.minted, s?.ids()] }`, users[1])})
	return prog.History{Steps: steps, Features: []string{"resource", "nested-resource", "event", "uuid", "multi-account"}}
}

func smallContract(name string, version, fields int) string {
	var fs, ini, fn strings.Builder
	for i := 0; i < fields; i++ {
		fmt.Fprintf(&fs, " access(all) var f%d: Int\n", i)
		fmt.Fprintf(&ini, " self.f%d = %d;", i, i)
	}
	for v := 0; v <= version; v++ {
		fmt.Fprintf(&fn, " access(all) fun v%d(): Int { return %d }\n", v, v*10+version)
	}
	return fmt.Sprintf("access(all) contract %s {\n access(all) event Ping(n: Int)\n%s%s access(all) fun ping(): Int { emit Ping(n: %d); return %d }\n init() {%s }\n}", name, fs.String(), fn.String(), version, version, ini.String())
}

func genMultiContractUpdate(r *rand.Rand) prog.History {
	who := uint64(1 + r.Intn(4))
	n := 2 + r.Intn(4)
	names := r.Perm(8)[:n]
	var addB, updB, imp, call strings.Builder
	for _, k := range names {
		nm := fmt.Sprintf("K%c", 'A'+k)
		fields := r.Intn(4)
		fmt.Fprintf(&addB, " a.contracts.add(name: %q, code: %q.decodeHex())\n", nm, hexs(smallContract(nm, 0, fields)))
		fmt.Fprintf(&updB, " a.contracts.update(name: %q, code: %q.decodeHex())\n", nm, hexs(smallContract(nm, 1+r.Intn(2), fields)))
		fmt.Fprintf(&imp, "import %s from 0x%x\n", nm, who)
		fmt.Fprintf(&call, "%s.ping(), %s.v0(), ", nm, nm)
	}
	steps := []prog.Step{
		{Kind: prog.Tx, Signers: []uint64{who}, Source: "transaction { prepare(a: auth(Contracts) &Account) {\n" + addB.String() + " log(a.contracts.names) } }"},
		{Kind: prog.Tx, Signers: []uint64{who}, Source: "transaction { prepare(a: auth(Contracts) &Account) {\n" + updB.String() + " log(a.contracts.names) } }"},
		{Kind: prog.Script, Source: imp.String() + "access(all) fun main(): [Int] { return [" + call.String() + "0] }"},
	}
	return prog.History{Steps: steps, Features: []string{"contracts-api", "multi-update", "event"}}
}

func genEventsAndLogs(r *rand.Rand) prog.History {
	n := 1 + r.Intn(12)
	e, t := valueExpr(r, 2)
	src := fmt.Sprintf(`access(all) event E(i: Int, v: %s, s: String?)
access(all) struct S { access(all) let v: %s; init(_ v: %s) { self.v = v } }
access(all) fun main(): [S] { var out: [S] = []; var i = 0; while i < %d { let v: %s = %s; emit E(i: i, v: v, s: i %% 2 == 0 ? nil : i.toString()); log(v); out.append(S(v)); i = i + 1 }; return out }`, t, t, t, n, t, e)
	return prog.History{Steps: []prog.Step{{Kind: prog.Script, Source: src}}, Features: []string{"script", "event", "log"}}
}

func genCaps(r *rand.Rand) prog.History {
	who := signersN(r, 2)
	n := 1 + r.Intn(4)
	var b strings.Builder
	for i := 0; i < n; i++ {
		fmt.Fprintf(&b, " a.storage.save(%d, to: /storage/c%d); let cap%d = a.capabilities.storage.issue<&Int>(/storage/c%d); a.capabilities.publish(cap%d, at: /public/c%d); log(cap%d.id)\n", i*7, i, i, i, i, i, i)
	}
	k := r.Intn(n)
	steps := []prog.Step{
		{Kind: prog.Tx, Signers: who[:1], Source: "transaction { prepare(a: auth(Storage, Capabilities) &Account) {\n" + b.String() + " } }"},
		{Kind: prog.Script, Source: fmt.Sprintf(`access(all) fun main(): [Int] { let a = getAccount(0x%x); return [*a.capabilities.borrow<&Int>(/public/c%d)!, a.capabilities.get<&Int>(/public/c%d).id == 0 ? 0 : 1, a.capabilities.borrow<&String>(/public/c%d) == nil ? 0 : 1] }`, who[0], k, k, k)},
		{Kind: prog.Tx, Signers: who[:1], Source: fmt.Sprintf(`transaction { prepare(a: auth(Capabilities) &Account) { a.capabilities.storage.forEachController(forPath: /storage/c%d, fun (c: &StorageCapabilityController): Bool { log(c.capabilityID); return true }); let c = a.capabilities.unpublish(/public/c%d); log(c != nil); a.capabilities.storage.getControllers(forPath: /storage/c%d)[0].retarget(/storage/c0) } }`, k, k, k)},
		{Kind: prog.Tx, Signers: who, Source: fmt.Sprintf(`transaction { prepare(a: auth(Capabilities, Inbox) &Account, b: auth(Inbox, Storage) &Account) { let c = a.capabilities.storage.issue<&Int>(/storage/c%d); a.inbox.publish(c, name: "n", recipient: b.address); let got = b.inbox.claim<&Int>("n", provider: a.address)!; log(got.borrow()); b.storage.save(got, to: /storage/got) } }`, k)},
	}
	return prog.History{Steps: steps, Features: []string{"capabilities", "inbox", "account-id", "event"}}
}

func genCompute(r *rand.Rand) prog.History {
	n := 5 + r.Intn(60)
	t := pick(r, "Int", "Int64", "UInt128", "Int256", "UFix64", "Word32")
	lit := func(v int) string {
		if t == "UFix64" {
			return fmt.Sprintf("%d.0", v)
		}
		return fmt.Sprint(v)
	}
	src := fmt.Sprintf(`access(all) struct Acc { access(all) var v: %[1]s; init() { self.v = %[2]s } access(all) fun add(_ x: %[1]s) { self.v = self.v + x } }
access(all) fun step(_ x: %[1]s): %[1]s { if x > %[3]s { return x - %[3]s }; return x + %[4]s }
access(all) fun main(): [AnyStruct] { let a = Acc(); var x: %[1]s = %[2]s; var i = 0; let seen: {%[1]s: Int} = {}; var strs: [String] = []
 while i < %[5]d { x = step(x); a.add(x); seen[x] = i; if i %% 5 == 0 { strs.append(x.toString()) }; i = i + 1 }
 let f = fun (_ k: Int): Int { return k * k }
 return [a.v, seen.length, String.join(strs, separator: ","), f(%[5]d), strs.contains("%[4]s"), [1, 2, 3].reverse(), strs.length > 1 ? strs.slice(from: 0, upTo: 2) : strs] }`,
		t, lit(1), lit(40+r.Intn(50)), lit(3+r.Intn(17)), n)
	return prog.History{Steps: []prog.Step{{Kind: prog.Script, Source: src}}, Features: []string{"script", "arith", "dict", "strings", "closure"}}
}

func genAccountsKeys(r *rand.Rand) prog.History {
	who := signersN(r, 1)
	nk := 1 + r.Intn(4)
	var b strings.Builder
	for i := 0; i < nk; i++ {
		fmt.Fprintf(&b, " let k%d = n.keys.add(publicKey: PublicKey(publicKey: \"%02x%02x%02x\".decodeHex(), signatureAlgorithm: SignatureAlgorithm.%s), hashAlgorithm: HashAlgorithm.%s, weight: %d.0); log(k%d.keyIndex)\n",
			i, r.Intn(256), r.Intn(256), r.Intn(256), pick(r, "ECDSA_P256", "ECDSA_secp256k1"), pick(r, "SHA2_256", "SHA3_256"), 1+r.Intn(999), i)
	}
	src := "transaction { prepare(a: auth(BorrowValue) &Account) { let n = Account(payer: a); log(n.address)\n" + b.String() +
		fmt.Sprintf(" log(n.keys.count); n.keys.revoke(keyIndex: %d); n.storage.save(n.keys.get(keyIndex: 0)!.weight, to: /storage/w); log(n.balance); log(getCurrentBlock().height); log(revertibleRandom<UInt16>(modulo: 1000)) } }", r.Intn(nk))
	return prog.History{Steps: []prog.Step{{Kind: prog.Tx, Signers: who, Source: src}}, Features: []string{"account-create", "keys", "publickey", "random", "block"}}
}
