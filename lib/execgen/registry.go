package execgen

import (
	"fmt"
	"math/rand"

	"verif/lib/prog"
)

// Source is a named producer of histories. The exec properties (C28, C31, C33)
// draw from every registered source; plugging in another generator package is
// one line in sources_ext.go (kept separate so that this file never needs to
// import other agents' packages).
type Source struct {
	Name string
	// Gen returns up to n histories drawn from r (a pure function of r).
	Gen func(r *rand.Rand, n int) []prog.History
}

// Sources is the registry. Own sources first; external generator packages are
// appended by init() functions in sources_ext.go.
var Sources = []Source{
	{Name: "execgen/templates", Gen: func(r *rand.Rand, n int) []prog.History { return Templates(r, 3*n) }},
	{Name: "execgen/typeprobe", Gen: func(r *rand.Rand, n int) []prog.History { return TypeProbes(r, n) }},
}

// Register appends a source (used by sources_ext.go).
func Register(name string, gen func(r *rand.Rand, n int) []prog.History) {
	Sources = append(Sources, Source{Name: name, Gen: gen})
}

// Generated draws perSource histories from every registered source and wraps
// them as Items named "<source>#<i>".
func Generated(r *rand.Rand, perSource int) []Item {
	var out []Item
	for _, s := range Sources {
		hs := safeGen(s, r, perSource)
		for i, h := range hs {
			if h.Origin == "" {
				h.Origin = s.Name
			}
			out = append(out, Item{Name: fmt.Sprintf("%s#%d", s.Name, i), Hist: h})
		}
	}
	return out
}

// safeGen shields the consumers from a panicking external generator.
func safeGen(s Source, r *rand.Rand, n int) (hs []prog.History) {
	defer func() {
		if e := recover(); e != nil {
			hs = nil
		}
	}()
	return s.Gen(r, n)
}

// All returns the hand-written corpus followed by perSource generated items of
// every source.
func All(r *rand.Rand, perSource int) []Item {
	return append(FullCorpus(), Generated(r, perSource)...)
}
