package execgen

import (
	"crypto/sha256"
	"encoding/binary"
	"encoding/hex"
	"fmt"

	"github.com/onflow/cadence"
	"github.com/onflow/cadence/common"
	"github.com/onflow/cadence/encoding/ccf"
	cdcerrors "github.com/onflow/cadence/errors"

	"verif/lib/host"
	"verif/lib/prog"
)

// RunOpts are the per-run options of this package's runners.
type RunOpts struct {
	Engine          host.Engine
	Gauges          bool   // attach a recording gauge to every step
	FullGauges      bool   // keep the full (kind, amount) sequences in the trace
	CompLimit       uint64 // gauge limits (0 = none); the limit applies per step
	MemLimit        uint64
	StackDepthLimit uint64
	// NoAtreeValidation turns runtime.Config.AtreeValidationEnabled off (the
	// production configuration; the harness default is on).
	NoAtreeValidation bool
	// Faults are installed on the host for the step FaultStep only (-1: never).
	Faults    []*host.Fault
	FaultStep int
}

// NewHost builds the host an item runs on.
func NewHost(it Item) *host.Host {
	h := host.New()
	h.TraceDetail = true
	for name, code := range it.ExtraCode {
		h.ExtraCode[common.StringLocation(name)] = []byte(code)
	}
	return h
}

func addrs(ns []uint64) []common.Address {
	out := make([]common.Address, len(ns))
	for i, n := range ns {
		out[i] = host.Addr(n)
	}
	return out
}

func byteArgs(as []string) [][]byte {
	out := make([][]byte, len(as))
	for i, a := range as {
		out[i] = []byte(a)
	}
	return out
}

// DeployTx / UpdateTx are the transactions a Deploy / Update step stands for
// (the same text lib/host uses).
func DeployTx(name, code string) string {
	return fmt.Sprintf(`transaction { prepare(signer: auth(Contracts) &Account) { signer.contracts.add(name: %q, code: %q.decodeHex()) } }`,
		name, hex.EncodeToString([]byte(code)))
}

func UpdateTx(name, code string) string {
	return fmt.Sprintf(`transaction { prepare(signer: auth(Contracts) &Account) { signer.contracts.update(name: %q, code: %q.decodeHex()) } }`,
		name, hex.EncodeToString([]byte(code)))
}

// RunStep executes one step with full options (unlike prog.RunStep, deploy and
// update steps also get the gauge / limits / depth limit).
func RunStep(h *host.Host, s prog.Step, o host.Options) host.Result {
	switch s.Kind {
	case prog.Deploy:
		return h.Tx(DeployTx(s.Name, s.Source), nil, addrs(s.Signers[:1]), o)
	case prog.Update:
		return h.Tx(UpdateTx(s.Name, s.Source), nil, addrs(s.Signers[:1]), o)
	case prog.Tx:
		return h.Tx(s.Source, byteArgs(s.Args), addrs(s.Signers), o)
	case prog.Script:
		return h.Script(s.Source, byteArgs(s.Args), o)
	}
	panic("execgen: unknown step kind " + s.Kind)
}

// StepRun is everything observed about one executed step.
type StepRun struct {
	Res   host.Result
	Gauge *host.Gauge
}

// Run executes the item on a fresh host and returns the raw per-step results
// and the final host.
func Run(it Item, o RunOpts) ([]StepRun, *host.Host) {
	h := NewHost(it)
	out := make([]StepRun, 0, len(it.Hist.Steps))
	for i, s := range it.Hist.Steps {
		ho := host.Options{Engine: o.Engine, StackDepthLimit: o.StackDepthLimit, NoAtreeValidation: o.NoAtreeValidation}
		var g *host.Gauge
		if o.Gauges || o.CompLimit != 0 || o.MemLimit != 0 {
			g = host.NewGauge(o.Gauges)
			g.CompLimit, g.MemLimit = o.CompLimit, o.MemLimit
			ho.Gauge = g
		}
		h.Faults = nil
		if len(o.Faults) > 0 && o.FaultStep == i {
			h.Faults = o.Faults
		}
		r := RunStep(h, s, ho)
		out = append(out, StepRun{Res: r, Gauge: g})
	}
	h.Faults = nil
	return out, h
}

// ---- outcome trace (C33, C36) -------------------------------------------------------

// StepTrace is the observable outcome of one step, in a byte-comparable form.
type StepTrace struct {
	Class    string   `json:"class"`
	ErrType  string   `json:"err_type,omitempty"`
	ErrMsg   string   `json:"err_msg,omitempty"`
	Panic    string   `json:"panic,omitempty"`
	Value    string   `json:"value"`               // JSON-CDC
	ValueCCF string   `json:"value_ccf,omitempty"` // hex CCF
	Events   []string `json:"events,omitempty"`    // hex CCF, in emission order
	Logs     []string `json:"logs,omitempty"`
	Writes   []string `json:"writes,omitempty"` // owner|key=value (hex), in SetValue order
	Allocs   []string `json:"allocs,omitempty"` // AllocateSlabIndex owners / GenerateUUID results in call order
	Digest   string   `json:"digest"`           // ledger digest after the step
	NCalls   int      `json:"ncalls"`           // number of host callbacks
}

// Trace is the outcome of a whole history.
type Trace struct {
	Steps []StepTrace `json:"steps"`
}

func init() {
	// error messages must not contain Go stack traces (addresses differ between processes)
	cdcerrors.StackTracesEnabled = false
}

// TraceOf renders the raw result of a step.
func TraceOf(r host.Result, h *host.Host) StepTrace {
	info := host.Classify(r)
	st := StepTrace{Class: info.Class, ErrType: info.Root, Value: host.ExportJSON(r.Value), Logs: r.Logs, NCalls: len(r.Trace)}
	if r.Err != nil {
		st.ErrMsg = r.Err.Error()
	}
	if r.Panic != nil {
		st.Panic = fmt.Sprint(r.Panic)
	}
	if r.Value != nil {
		if b, err := safeCCF(r.Value); err == nil {
			st.ValueCCF = hex.EncodeToString(b)
		} else {
			st.ValueCCF = "!" + err.Error()
		}
	}
	for _, e := range r.Events {
		b, err := safeCCF(e)
		if err != nil {
			st.Events = append(st.Events, "!"+err.Error())
			continue
		}
		st.Events = append(st.Events, hex.EncodeToString(b))
	}
	for _, w := range r.Writes {
		st.Writes = append(st.Writes, fmt.Sprintf("%x|%x=%x", w.Owner, w.Key, w.Value))
	}
	ui := 0
	for _, c := range r.Trace {
		switch c.Kind {
		case "AllocateSlabIndex":
			st.Allocs = append(st.Allocs, "slab:"+c.Detail)
		case "GenerateUUID":
			if ui < len(r.UUIDs) {
				st.Allocs = append(st.Allocs, fmt.Sprintf("uuid:%d", r.UUIDs[ui]))
				ui++
			} else {
				st.Allocs = append(st.Allocs, "uuid:?")
			}
		case "GenerateAccountID", "CreateAccount":
			st.Allocs = append(st.Allocs, c.Kind+":"+c.Detail)
		}
	}
	if h != nil {
		st.Digest = h.Ledger.Digest()
	}
	return st
}

// safeCCF encodes v as CCF; a panic of the encoder (C42's concern, not ours) is
// turned into an error so that it becomes part of the compared trace.
func safeCCF(v cadence.Value) (b []byte, err error) {
	defer func() {
		if r := recover(); r != nil {
			err = fmt.Errorf("ccf encoder panic: %v", r)
		}
	}()
	return ccf.Encode(v)
}

// RunTrace executes the item and returns its outcome trace.
func RunTrace(it Item, o RunOpts) Trace {
	h := NewHost(it)
	var tr Trace
	for _, s := range it.Hist.Steps {
		r := RunStep(h, s, host.Options{Engine: o.Engine, StackDepthLimit: o.StackDepthLimit, NoAtreeValidation: o.NoAtreeValidation})
		tr.Steps = append(tr.Steps, TraceOf(r, h))
	}
	return tr
}

// DiffTraces returns "" when equal, otherwise a description of the first difference.
func DiffTraces(a, b Trace) string {
	if len(a.Steps) != len(b.Steps) {
		return fmt.Sprintf("step count %d vs %d", len(a.Steps), len(b.Steps))
	}
	for i := range a.Steps {
		if d := DiffStep(a.Steps[i], b.Steps[i]); d != "" {
			return fmt.Sprintf("step %d: %s", i, d)
		}
	}
	return ""
}

func diffList(what string, a, b []string) string {
	if len(a) != len(b) {
		return fmt.Sprintf("%s: %d vs %d entries", what, len(a), len(b))
	}
	for i := range a {
		if a[i] != b[i] {
			return fmt.Sprintf("%s[%d]: %.200q vs %.200q", what, i, a[i], b[i])
		}
	}
	return ""
}

func DiffStep(a, b StepTrace) string {
	switch {
	case a.Class != b.Class:
		return fmt.Sprintf("class %s vs %s (%s | %s)", a.Class, b.Class, a.ErrMsg, b.ErrMsg)
	case a.ErrType != b.ErrType:
		return fmt.Sprintf("error type %s vs %s", a.ErrType, b.ErrType)
	case a.ErrMsg != b.ErrMsg:
		return fmt.Sprintf("error message %q vs %q", a.ErrMsg, b.ErrMsg)
	case a.Panic != b.Panic:
		return fmt.Sprintf("panic %q vs %q", a.Panic, b.Panic)
	case a.Value != b.Value:
		return fmt.Sprintf("value %s vs %s", a.Value, b.Value)
	case a.ValueCCF != b.ValueCCF:
		return fmt.Sprintf("CCF value %s vs %s", a.ValueCCF, b.ValueCCF)
	}
	for _, d := range []string{diffList("events", a.Events, b.Events), diffList("logs", a.Logs, b.Logs),
		diffList("writes", a.Writes, b.Writes), diffList("allocs", a.Allocs, b.Allocs)} {
		if d != "" {
			return d
		}
	}
	if a.Digest != b.Digest {
		return "final ledger digest differs"
	}
	if a.NCalls != b.NCalls {
		return fmt.Sprintf("host callback count %d vs %d", a.NCalls, b.NCalls)
	}
	return ""
}

// ---- gauge trace (C31) --------------------------------------------------------------

// GaugeTrace summarises the metering call sequences of one step.
type GaugeTrace struct {
	MemCalls  int    `json:"mem_calls"`
	CompCalls int    `json:"comp_calls"`
	MemTotal  uint64 `json:"mem_total"`
	CompTotal uint64 `json:"comp_total"`
	MemHash   string `json:"mem_hash"`  // hash of the ordered [(kind, amount)]
	CompHash  string `json:"comp_hash"` // hash of the ordered [(kind, intensity)]
	MemBag    string `json:"mem_bag"`   // order-insensitive hash of the multiset of (kind, amount)
	CompBag   string `json:"comp_bag"`
	// full sequences, only when requested: kind, amount pairs flattened
	Mem  []uint64 `json:"mem,omitempty"`
	Comp []uint64 `json:"comp,omitempty"`
}

func GaugeTraceOf(g *host.Gauge, full bool) GaugeTrace {
	gt := GaugeTrace{MemCalls: g.MemCalls, CompCalls: g.CompCalls, MemTotal: g.MemTotal, CompTotal: g.CompTotal}
	hm, hc := sha256.New(), sha256.New()
	var b [16]byte
	for _, m := range g.Mem {
		binary.LittleEndian.PutUint64(b[:8], uint64(m.Kind))
		binary.LittleEndian.PutUint64(b[8:], m.Amount)
		hm.Write(b[:])
		if full {
			gt.Mem = append(gt.Mem, uint64(m.Kind), m.Amount)
		}
	}
	for _, c := range g.Comp {
		binary.LittleEndian.PutUint64(b[:8], uint64(c.Kind))
		binary.LittleEndian.PutUint64(b[8:], c.Intensity)
		hc.Write(b[:])
		if full {
			gt.Comp = append(gt.Comp, uint64(c.Kind), c.Intensity)
		}
	}
	gt.MemBag, gt.CompBag = bagHash(g), ""
	{
		var acc [4]uint64
		for _, c := range g.Comp {
			mixBag(&acc, uint64(c.Kind), c.Intensity)
		}
		gt.CompBag = fmt.Sprintf("%x", acc)
	}
	gt.MemHash = hex.EncodeToString(hm.Sum(nil)[:12])
	gt.CompHash = hex.EncodeToString(hc.Sum(nil)[:12])
	return gt
}

// mixBag adds one (kind, amount) pair to an order-insensitive accumulator.
func mixBag(acc *[4]uint64, kind, amount uint64) {
	x := kind*0x9e3779b97f4a7c15 ^ (amount+0x7f4a7c15)*0xbf58476d1ce4e5b9
	x ^= x >> 31
	x *= 0x94d049bb133111eb
	x ^= x >> 29
	acc[0] += x
	acc[1] += x * x
	acc[2] ^= x
	acc[3]++
}

func bagHash(g *host.Gauge) string {
	var acc [4]uint64
	for _, m := range g.Mem {
		mixBag(&acc, uint64(m.Kind), m.Amount)
	}
	return fmt.Sprintf("%x", acc)
}

// RunGauges executes the item with recording gauges and returns one GaugeTrace
// per step. validation selects runtime.Config.AtreeValidationEnabled.
func RunGauges(it Item, eng host.Engine, full bool, validation bool) []GaugeTrace {
	runs, _ := Run(it, RunOpts{Engine: eng, Gauges: true, FaultStep: -1, NoAtreeValidation: !validation})
	out := make([]GaugeTrace, len(runs))
	for i, r := range runs {
		out[i] = GaugeTraceOf(r.Gauge, full)
	}
	return out
}

func firstDiff(a, b []uint64) string {
	n := len(a)
	if len(b) < n {
		n = len(b)
	}
	for i := 0; i+1 < n; i += 2 {
		if a[i] != b[i] || a[i+1] != b[i+1] {
			return fmt.Sprintf("call %d: (kind %d, amount %d) vs (kind %d, amount %d)", i/2, a[i], a[i+1], b[i], b[i+1])
		}
	}
	if len(a) != len(b) {
		return fmt.Sprintf("call %d: one sequence ends (%d vs %d calls)", n/2, len(a)/2, len(b)/2)
	}
	return ""
}

// DiffGaugeBags compares only the multisets of metering calls (and their counts
// and totals), not their order.
func DiffGaugeBags(a, b []GaugeTrace) string {
	if len(a) != len(b) {
		return fmt.Sprintf("step count %d vs %d", len(a), len(b))
	}
	for i := range a {
		x, y := a[i], b[i]
		if x.MemBag != y.MemBag || x.MemCalls != y.MemCalls || x.MemTotal != y.MemTotal {
			return fmt.Sprintf("step %d: memory metering multiset differs (%d calls total %d vs %d calls total %d)", i, x.MemCalls, x.MemTotal, y.MemCalls, y.MemTotal)
		}
		if x.CompBag != y.CompBag || x.CompCalls != y.CompCalls || x.CompTotal != y.CompTotal {
			return fmt.Sprintf("step %d: computation metering multiset differs (%d calls total %d vs %d calls total %d)", i, x.CompCalls, x.CompTotal, y.CompCalls, y.CompTotal)
		}
	}
	return ""
}

// DiffGauges returns "" when the two per-step gauge traces are identical.
func DiffGauges(a, b []GaugeTrace) string {
	if len(a) != len(b) {
		return fmt.Sprintf("step count %d vs %d", len(a), len(b))
	}
	for i := range a {
		x, y := a[i], b[i]
		if x.MemHash != y.MemHash || x.MemCalls != y.MemCalls {
			d := fmt.Sprintf("step %d: memory metering differs (%d calls total %d vs %d calls total %d)", i, x.MemCalls, x.MemTotal, y.MemCalls, y.MemTotal)
			if x.Mem != nil && y.Mem != nil {
				d += " at " + firstDiff(x.Mem, y.Mem)
			}
			return d
		}
		if x.CompHash != y.CompHash || x.CompCalls != y.CompCalls {
			d := fmt.Sprintf("step %d: computation metering differs (%d calls total %d vs %d calls total %d)", i, x.CompCalls, x.CompTotal, y.CompCalls, y.CompTotal)
			if x.Comp != nil && y.Comp != nil {
				d += " at " + firstDiff(x.Comp, y.Comp)
			}
			return d
		}
	}
	return ""
}
