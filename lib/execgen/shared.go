package execgen

import (
	"fmt"
	"math/rand"
	"strings"
	"sync"

	"github.com/onflow/cadence/common"
	"github.com/onflow/cadence/runtime"

	"verif/lib/host"
	"verif/lib/prog"
)

// ---- shared program cache ------------------------------------------------------------

// SharedPrograms is what a host's program cache shares between executions: the
// loaded *runtime.Program of contract (address) locations. The first caller of
// a location loads it, the others wait and get the same object (and the same
// error), as the GetOrLoadProgram contract demands.
type SharedPrograms struct {
	mu sync.Mutex
	m  map[common.Location]*sharedEntry
	// Loads counts how many programs were loaded (not served from the cache).
	Loads int
	Hits  int
}

type sharedEntry struct {
	once    sync.Once
	program *runtime.Program
	err     error
	panic   any // a panic raised by load: re-raised for every caller (never turned into "nil, nil")
}

func NewSharedPrograms() *SharedPrograms {
	return &SharedPrograms{m: map[common.Location]*sharedEntry{}}
}

func (s *SharedPrograms) getOrLoad(location common.Location, load func() (*runtime.Program, error)) (*runtime.Program, error) {
	s.mu.Lock()
	e := s.m[location]
	if e == nil {
		e = &sharedEntry{}
		s.m[location] = e
	}
	s.mu.Unlock()
	loaded := false
	e.once.Do(func() {
		loaded = true
		defer func() {
			if r := recover(); r != nil {
				e.panic = r
			}
		}()
		e.program, e.err = load()
	})
	s.mu.Lock()
	if loaded {
		s.Loads++
	} else {
		s.Hits++
	}
	s.mu.Unlock()
	if e.panic != nil {
		panic(e.panic)
	}
	return e.program, e.err
}

// CachingHost is a host whose contract programs come from a shared cache.
type CachingHost struct {
	*host.Host
	Shared *SharedPrograms
	// loading holds the locations this execution is loading right now: a re-entrant
	// request for one of them (from inside its own load callback) is answered by
	// loading directly, as a plain map-based host would, instead of dead-locking.
	loading map[common.Location]bool
}

func (c *CachingHost) GetOrLoadProgram(location runtime.Location, load func() (*runtime.Program, error)) (*runtime.Program, error) {
	if _, ok := location.(common.AddressLocation); ok && c.Shared != nil {
		if c.loading[location] {
			return load()
		}
		return c.Shared.getOrLoad(location, func() (*runtime.Program, error) {
			if c.loading == nil {
				c.loading = map[common.Location]bool{}
			}
			c.loading[location] = true
			defer delete(c.loading, location)
			return load()
		})
	}
	return c.Host.GetOrLoadProgram(location, load)
}

// runShared executes one script / transaction step on a fork of base, with the
// contract programs coming from shared.
func runShared(base *host.Host, shared *SharedPrograms, s prog.Step, eng host.Engine) StepTrace {
	h := base.Fork()
	ch := &CachingHost{Host: h, Shared: shared}
	h.BeginExecution(addrs(s.Signers))
	rt := runtime.NewRuntime(runtime.Config{AtreeValidationEnabled: true})
	var res host.Result
	func() {
		defer func() {
			if r := recover(); r != nil {
				res.Panic = r
			}
		}()
		switch s.Kind {
		case prog.Script:
			res.Value, res.Err = rt.ExecuteScript(runtime.Script{Source: []byte(s.Source), Arguments: byteArgs(s.Args)},
				runtime.Context{Interface: ch, UseVM: eng != host.Interp, Location: common.ScriptLocation{0x53}})
		case prog.Tx:
			res.Err = rt.ExecuteTransaction(runtime.Script{Source: []byte(s.Source), Arguments: byteArgs(s.Args)},
				runtime.Context{Interface: ch, UseVM: eng != host.Interp, Location: common.TransactionLocation{0x54}})
		default:
			panic("execgen: batch programs must be scripts or transactions")
		}
	}()
	res.Events, res.Logs, res.Writes, res.Trace, res.UUIDs = h.Events, h.Logs, h.Writes, h.Trace, h.NewUUIDs
	st := TraceOf(res, h)
	// the number of host callbacks legitimately depends on what the shared cache already holds
	st.NCalls = 0
	return st
}

// Batch is a C36 case: shared contracts plus independent programs importing them.
type Batch struct {
	Contracts []prog.Step `json:"contracts"`
	Programs  []prog.Step `json:"programs"`
}

// BatchJob is the child job of C36.
type BatchJob struct {
	Batch      Batch `json:"batch"`
	Engine     int   `json:"engine"`
	Goroutines int   `json:"goroutines"`
	Seed       int64 `json:"seed"`
	Repeat     int   `json:"repeat"` // number of concurrent rounds (each with a fresh shared cache)
	// Warm: before every concurrent round, load (and on the VM compile) the shared
	// contracts into the fresh cache sequentially. Only used to continue the search
	// behind known finding FX7 (VM compiles cached programs lazily and unsynchronised).
	Warm bool `json:"warm,omitempty"`
	// AloneOnly: only compute the reference traces: every program ALONE, each with its
	// own fresh program cache (so the shared contracts are parsed and checked anew
	// for every program), in a process that never ran anything concurrently.
	AloneOnly bool `json:"alone_only,omitempty"`
	// Alone are the reference traces (from an AloneOnly job run in another fresh
	// process); the concurrent rounds AND the sequential runs over a shared cache
	// (program order and reverse order) must all equal them.
	Alone []StepTrace `json:"alone,omitempty"`
}

// BatchResult reports the comparison of the concurrent rounds with the
// sequential baseline.
type BatchResult struct {
	Programs   int      `json:"programs"`
	Rounds     int      `json:"rounds"`
	Diffs      []string `json:"diffs,omitempty"` // "round r program i: <difference>"
	SetupFail  string   `json:"setup_fail,omitempty"`
	Alone      []StepTrace `json:"alone,omitempty"` // AloneOnly job: the reference traces
	Classes    []string `json:"classes"` // outcome class of every program in the reference
	Errs       []string `json:"errs,omitempty"`
	CacheLoads int      `json:"cache_loads"`
	CacheHits  int      `json:"cache_hits"`
}

func deployBase(b Batch, eng host.Engine) (*host.Host, string) {
	base := host.New()
	base.TraceDetail = true
	for i, c := range b.Contracts {
		r := RunStep(base, c, host.Options{Engine: eng})
		if r.Err != nil || r.Panic != nil {
			return nil, fmt.Sprintf("contract %d (%s): %v %v", i, c.Name, r.Err, r.Panic)
		}
	}
	return base, ""
}

// RunBatch. AloneOnly job: every program alone with a fresh cache (the reference).
// Otherwise: the concurrent rounds FIRST (so that lazily initialised shared
// structures are touched for the first time concurrently when the process is
// fresh), then two sequential passes over one shared cache each (program order,
// reverse order); every result is compared with the reference of the program
// run alone: "behaves like sequential runs" of each program on its own, whatever
// ran before it or runs next to it against the same shared imports.
func RunBatch(j BatchJob) BatchResult {
	eng := host.Engine(j.Engine)
	res := BatchResult{Programs: len(j.Batch.Programs)}
	base, fail := deployBase(j.Batch, eng)
	if fail != "" {
		res.SetupFail = fail
		return res
	}
	n := len(j.Batch.Programs)
	if j.AloneOnly {
		res.Alone = make([]StepTrace, n)
		for i := range j.Batch.Programs {
			res.Alone[i] = runShared(base, NewSharedPrograms(), j.Batch.Programs[i], eng)
		}
		return res
	}
	if len(j.Alone) != n {
		res.SetupFail = fmt.Sprintf("%d reference traces for %d programs", len(j.Alone), n)
		return res
	}
	rnd := rand.New(rand.NewSource(j.Seed))
	rounds := j.Repeat
	if rounds < 1 {
		rounds = 1
	}
	warmUp := func(shared *SharedPrograms) bool {
		if !j.Warm {
			return true
		}
		warm := "access(all) fun main() {}"
		for _, c := range j.Batch.Contracts {
			warm = fmt.Sprintf("import %s from 0x%x\n", c.Name, c.Signers[0]) + warm
		}
		if st := runShared(base, shared, prog.Step{Kind: prog.Script, Source: warm}, eng); st.Class != "ok" {
			res.SetupFail = "warm-up failed: " + st.ErrMsg
			return false
		}
		return true
	}
	conc := make([][]StepTrace, rounds)
	for r := 0; r < rounds; r++ {
		shared := NewSharedPrograms()
		if !warmUp(shared) {
			return res
		}
		out := make([]StepTrace, n)
		order := rnd.Perm(n)
		work := make(chan int, n)
		for _, i := range order {
			work <- i
		}
		close(work)
		start := make(chan struct{})
		var wg sync.WaitGroup
		for g := 0; g < j.Goroutines; g++ {
			wg.Add(1)
			go func() {
				defer wg.Done()
				<-start
				for i := range work {
					out[i] = runShared(base, shared, j.Batch.Programs[i], eng)
				}
			}()
		}
		close(start)
		wg.Wait()
		conc[r] = out
		res.CacheLoads += shared.Loads
		res.CacheHits += shared.Hits
	}
	// sequential passes over a shared cache: program order, reverse order
	seq := make([][]StepTrace, 2)
	for pass := range seq {
		shared := NewSharedPrograms()
		seq[pass] = make([]StepTrace, n)
		for k := 0; k < n; k++ {
			i := k
			if pass == 1 {
				i = n - 1 - k
			}
			seq[pass][i] = runShared(base, shared, j.Batch.Programs[i], eng)
		}
	}
	for i := range j.Alone {
		res.Classes = append(res.Classes, j.Alone[i].Class)
		e := j.Alone[i].ErrMsg
		if len(e) > 400 {
			e = e[:400]
		}
		res.Errs = append(res.Errs, e)
	}
	for i := range j.Alone {
		for pass := range seq {
			if d := DiffStep(j.Alone[i], seq[pass][i]); d != "" {
				res.Diffs = append(res.Diffs, fmt.Sprintf("sequential pass %d (%s) over a shared program cache, program %d (%s) differs from the program run alone: %s",
					pass, []string{"program order", "reverse order"}[pass], i, j.Batch.Programs[i].Name, d))
			}
		}
		for r := 0; r < rounds; r++ {
			if d := DiffStep(j.Alone[i], conc[r][i]); d != "" {
				res.Diffs = append(res.Diffs, fmt.Sprintf("concurrent round %d, program %d (%s) differs from the program run alone: %s", r, i, j.Batch.Programs[i].Name, d))
			}
		}
	}
	if len(res.Diffs) > 12 {
		res.Diffs = append(res.Diffs[:12], fmt.Sprintf("... and %d more", len(res.Diffs)-12))
	}
	res.Rounds = rounds
	return res
}

// ---- batch generator -----------------------------------------------------------------

const libContract = `access(all) contract Lib {
    access(all) entitlement E
    access(all) entitlement F
    access(all) entitlement G
    access(all) entitlement mapping M { E -> F
        F -> G }
    access(all) entitlement mapping N { include M
        G -> E }
    access(all) event Made(id: UInt64, kind: String)
    access(all) enum Color: UInt8 { access(all) case red; access(all) case green; access(all) case blue }
    access(all) struct interface Shape {
        access(all) fun area(): Int
        access(all) fun describe(): String { return "shape:".concat(self.area().toString()) }
        access(all) fun double(): Int { return self.area() * 2 }
    }
    access(all) struct interface Named { access(all) fun name(): String { return "anon" } }
    access(all) struct Inner { access(all) var v: Int; init(_ v: Int) { self.v = v }
        access(F) fun bump() { self.v = self.v + 1 }
        access(G) fun reset() { self.v = 0 } }
    access(all) struct Big: Shape, Named {
        access(all) let f0: Int; access(all) let f1: String; access(all) let f2: [Int]; access(all) let f3: {String: Int}
        access(all) let f4: UInt8?; access(all) let f5: Address; access(all) let f6: UFix64; access(all) let f7: Color
        access(all) let f8: [String]; access(all) let f9: Int256; access(all) let f10: Bool; access(all) let f11: Character
        access(mapping M) var inner: Inner
        access(mapping N) var inner2: Inner
        init(_ n: Int) { self.f0 = n; self.f1 = n.toString(); self.f2 = [n, n + 1]; self.f3 = {"n": n}; self.f4 = n % 2 == 0 ? nil : UInt8(n % 200)
            self.f5 = 0x1; self.f6 = 1.5; self.f7 = Color(rawValue: UInt8(n % 3))!; self.f8 = ["a", "b"]; self.f9 = Int256(n) * 1000000007
            self.f10 = n > 3; self.f11 = "x"; self.inner = Inner(n); self.inner2 = Inner(n * 2) }
        access(all) fun area(): Int { return self.f0 * self.f2.length }
        access(all) fun name(): String { return "big".concat(self.f1) }
        access(E) fun touch(): Int { return self.inner.v }
    }
    access(all) resource interface Holder { access(all) fun count(): Int; access(all) fun total(): Int { return self.count() * 10 } }
    access(all) resource Vault: Holder {
        access(all) event ResourceDestroyed(id: UInt64 = self.uuid, n: Int = self.n)
        access(all) var n: Int
        init(_ n: Int) { self.n = n; emit Made(id: self.uuid, kind: "vault") }
        access(all) fun count(): Int { return self.n }
        access(E) fun add(_ k: Int) { self.n = self.n + k }
    }
    access(all) attachment Tag for Vault { access(all) let label: String; init(_ l: String) { self.label = l } access(all) fun show(): String { return self.label.concat(base.n.toString()) } }
    access(all) fun vault(_ n: Int): @Vault { return <- create Vault(n) }
    access(all) fun sum(_ xs: [Int]): Int { var t = 0; for x in xs { t = t + x }; return t }
    access(all) view fun colorName(_ c: Color): String { switch c { case Color.red: return "red"; case Color.green: return "green" }; return "blue" }
}`

const lib2Contract = `import Lib from 0x1
access(all) contract Lib2 {
    access(all) entitlement mapping P { include Lib.M
        Lib.E -> Lib.G }
    access(all) struct Circle: Lib.Shape { access(all) let r: Int; init(_ r: Int) { self.r = r } access(all) fun area(): Int { return 3 * self.r * self.r } }
    access(all) struct Labeled: Lib.Shape, Lib.Named { access(all) let s: {Lib.Shape}; init(_ s: {Lib.Shape}) { self.s = s }
        access(all) fun area(): Int { return self.s.area() + 1 }
        access(all) fun describe(): String { return "labeled(".concat(self.s.describe()).concat(")") } }
    access(all) struct Wrap { access(mapping P) var big: Lib.Big; init(_ n: Int) { self.big = Lib.Big(n) } }
    access(all) fun shapes(_ n: Int): [{Lib.Shape}] { return [Circle(n), Lib.Big(n), Labeled(Circle(n + 1))] }
}`

const lib3Contract = `access(all) contract Lib3 {
    access(all) fun fib(_ n: Int): Int { var a = 0; var b = 1; var i = 0; while i < n { let t = a + b; a = b; b = t; i = i + 1 }; return a }
    access(all) fun gcd(_ a: Int, _ b: Int): Int { var x = a; var y = b; while y != 0 { let t = x % y; x = y; y = t }; return x }
    access(all) fun words(_ n: Int): [String] { var out: [String] = []; var i = 0; while i < n { out.append("w".concat(i.toString())); i = i + 1 }; return out }
    access(all) struct Pair { access(all) let a: Int; access(all) let b: String; init(_ a: Int, _ b: String) { self.a = a; self.b = b } }
    access(all) fun pairs(_ n: Int): {Int: Pair} { let d: {Int: Pair} = {}; var i = 0; while i < n { d[i * 7 % 11] = Pair(i, i.toString()); i = i + 1 }; return d }
}`

type batchTemplate struct {
	name string
	gen  func(r *rand.Rand) prog.Step
}

var batchTemplates = []batchTemplate{
	{"big-mapped-refs", func(r *rand.Rand) prog.Step {
		n := 1 + r.Intn(50)
		return prog.Step{Kind: prog.Script, Source: fmt.Sprintf(`import Lib from 0x1
access(all) fun main(): [AnyStruct] { let b = Lib.Big(%d); let r = &b as auth(Lib.E, Lib.F) &Lib.Big; let i = r.inner; i.bump(); let i2 = r.inner2; i2.bump(); i2.reset()
 let plain = r as &Lib.Big; let back = plain as? auth(Lib.E) &Lib.Big
 return [r.touch(), b.inner.v, b.inner2.v, back == nil, b.describe(), b.double(), b.name(), b.f7, b.f9, b.f4, Lib.colorName(b.f7), r.getType().identifier] }`, n)}
	}},
	{"shapes-interfaces", func(r *rand.Rand) prog.Step {
		n := 1 + r.Intn(30)
		return prog.Step{Kind: prog.Script, Source: fmt.Sprintf(`import Lib from 0x1
import Lib2 from 0x2
access(all) fun main(): [AnyStruct] { let ss = Lib2.shapes(%d); var out: [AnyStruct] = []; for s in ss { out.append(s.describe()); out.append(s.double()); out.append(s.isInstance(Type<Lib.Big>())); out.append(s.getType().identifier); if let n = s as? {Lib.Named} { out.append(n.name()) } }
 let w = Lib2.Wrap(%d); let wr = &w as auth(Lib.E) &Lib2.Wrap; let bigRef = wr.big; let inner = bigRef.inner; inner.reset(); out.append(w.big.inner.v); out.append(Type<Lib2.Labeled>().isSubtype(of: Type<{Lib.Shape}>())); return out }`, n, n+2)}
	}},
	{"types-runtime", func(r *rand.Rand) prog.Step {
		return prog.Step{Kind: prog.Script, Source: fmt.Sprintf(`import Lib from 0x1
import Lib2 from 0x2
access(all) fun main(): [AnyStruct] { let t = CompositeType("A.0000000000000001.Lib.Big")!; let rt = ReferenceType(entitlements: ["A.0000000000000001.Lib.E", "A.0000000000000001.Lib.F"], type: t)!
 let it = IntersectionType(types: ["A.0000000000000001.Lib.Shape"])!
 return [t.identifier, rt.identifier, it.identifier, t.isSubtype(of: it), Type<auth(Lib.E) &Lib.Big>().isSubtype(of: Type<&Lib.Big>()), Type<&Lib.Big>().isSubtype(of: Type<auth(Lib.E) &Lib.Big>()), Type<Lib2.Circle>().isSubtype(of: it), Type<Lib.Color>().identifier, Type<@Lib.Vault>().isSubtype(of: Type<@{Lib.Holder}>()), t.isRecovered, OptionalType(t).identifier, DictionaryType(key: Type<String>(), value: t)!.identifier, %d] }`, r.Intn(1000))}
	}},
	{"resources-attachments", func(r *rand.Rand) prog.Step {
		n := 1 + r.Intn(40)
		return prog.Step{Kind: prog.Tx, Signers: []uint64{uint64(3 + r.Intn(4))}, Source: fmt.Sprintf(`import Lib from 0x1
transaction { prepare(a: auth(Storage, Capabilities) &Account) { let v <- Lib.vault(%d); let t <- attach Lib.Tag("L") to <- v; log(t[Lib.Tag]!.show()); log(t.total())
 let r = &t as auth(Lib.E) &Lib.Vault; r.add(%d); log(t.count()); a.storage.save(<- t, to: /storage/v)
 let cap = a.capabilities.storage.issue<auth(Lib.E) &Lib.Vault>(/storage/v); cap.borrow()!.add(1); a.capabilities.publish(a.capabilities.storage.issue<&{Lib.Holder}>(/storage/v), at: /public/h)
 log(a.capabilities.borrow<&{Lib.Holder}>(/public/h)!.total()); let w <- a.storage.load<@Lib.Vault>(from: /storage/v)!; destroy w } }`, n, n%7)}
	}},
	{"math-lib3", func(r *rand.Rand) prog.Step {
		n := 5 + r.Intn(60)
		return prog.Step{Kind: prog.Script, Source: fmt.Sprintf(`import Lib3 from 0x3
import Lib from 0x1
access(all) fun main(): [AnyStruct] { let ps = Lib3.pairs(%d); var keys: [Int] = []; for k in ps.keys { keys.append(ps[k]!.a) }
 return [Lib3.fib(%d), Lib3.gcd(%d, %d), String.join(Lib3.words(%d), separator: "-"), keys, Lib.sum(keys), Lib.Color.blue.rawValue] }`, n%13+1, n, n*3+6, n*9, n%9+1)}
	}},
	{"check-error", func(r *rand.Rand) prog.Step {
		bad := []string{
			`let b = Lib.Big(1); let r = &b as &Lib.Big; return r.touch()`,
			`let b = Lib.Big(1); let r = &b as auth(Lib.E) &Lib.Big; r.inner.reset(); return 1`,
			`let s: {Lib.Shape} = Lib.Inner(1); return s.area()`,
			`let v <- Lib.vault(1); return v.n`,
			`return Lib.nope(1) + Lib.sum("x")`,
		}[r.Intn(5)]
		return prog.Step{Kind: prog.Script, MayFail: true, Source: fmt.Sprintf(`import Lib from 0x1
access(all) fun main(): Int { %s }`, bad)}
	}},
	{"runtime-error", func(r *rand.Rand) prog.Step {
		n := r.Intn(20)
		return prog.Step{Kind: prog.Script, MayFail: true, Source: fmt.Sprintf(`import Lib from 0x1
import Lib2 from 0x2
access(all) fun main(): Int { let ss = Lib2.shapes(%d); let b = ss[1] as! Lib.Big; let c = ss[%d] as! Lib2.Circle; return b.f2[%d] + c.r }`, n, n%3, n%4)}
	}},
	{"ranges-small-ints", func(r *rand.Rand) prog.Step {
		ty := []string{"Int", "Int8", "Int16", "Int32", "Int64", "Int128", "Int256", "UInt", "UInt8", "UInt16", "UInt32", "UInt64", "UInt128", "UInt256", "Word8", "Word16", "Word32", "Word64"}[r.Intn(18)]
		n := 3 + r.Intn(40)
		return prog.Step{Kind: prog.Script, Source: fmt.Sprintf(`import Lib3 from 0x3
access(all) fun main(): [AnyStruct] { var t: %[1]s = 0; let rg = InclusiveRange(%[1]s(1), %[1]s(%[2]d)); for i in rg { t = t + i }; let down = InclusiveRange(%[1]s(2), %[1]s(%[2]d), step: %[1]s(3)); var c = 0; for j in down { c = c + 1 }
 return [t, c, rg.contains(%[1]s(%[3]d)), down.contains(%[1]s(4)), Lib3.fib(%[3]d)] }`, ty, n, n/2)}
	}},
	{"enum-switch", func(r *rand.Rand) prog.Step {
		n := r.Intn(200)
		return prog.Step{Kind: prog.Script, Source: fmt.Sprintf(`import Lib from 0x1
access(all) fun main(): [String] { var out: [String] = []; var i: UInt8 = 0; while i < 5 { if let c = Lib.Color(rawValue: i) { out.append(Lib.colorName(c)) } else { out.append("none") }; i = i + 1 }
 let bigs = [Lib.Big(%d), Lib.Big(%d)]; for b in bigs { out.append(b.f1.concat(":").concat(b.f8[0])); out.append(b.f11.toString()) }; return out }`, n, n+1)}
	}},
}


// entContract: interfaces with DISTINCT entitlement sets (conjunctive members and
// disjunction-style access(C | D) members), used by the programs in intersections
// {I1, I2}, post-conditions with `result`, attachments for interfaces, and
// deliberately ill-typed programs whose checker errors depend on the entitlements
// of ONE interface.
const entContract = `access(all) contract Ent {
    access(all) entitlement A
    access(all) entitlement B
    access(all) entitlement C
    access(all) entitlement D
    access(all) entitlement X
    access(all) resource interface I1 { access(A) fun a(): Int; access(all) fun id(): Int { return 1 } }
    access(all) resource interface I2 { access(B) fun b(): Int { return 2 } }
    access(all) resource interface I3 { access(C | D) fun cd(): Int { return 3 } }
    access(all) resource interface I4 { access(A | C) fun ac(): Int { return 4 }
        access(X) fun x(): Int { return 5 } }
    access(all) resource interface I5 { access(all) fun plain(): Int { return 6 } }
    access(all) resource R: I1, I2, I3, I4, I5 { access(all) var n: Int; init() { self.n = 0 }
        access(A) fun a(): Int { return 10 } }
    access(all) attachment At1 for I1 { access(all) fun show(): Int { return base.id() + 100 } }
    access(all) attachment At2 for I2 { access(B) fun b2(): Int { return 200 } }
    access(all) attachment At3 for I3 { access(all) fun show(): Int { return 300 } }
    access(all) attachment At5 for I5 { access(all) fun show(): Int { return base.plain() + 500 } }
    access(all) fun make(): @R { return <- create R() }
}`

// model of entContract for the generator
var entIfaces = []struct {
	name string
	ents []string   // conjunctive entitlements
	disj [][]string // disjunctions
}{
	{"I1", []string{"A"}, nil},
	{"I2", []string{"B"}, nil},
	{"I3", nil, [][]string{{"C", "D"}}},
	{"I4", []string{"X"}, [][]string{{"A", "C"}}},
	{"I5", nil, nil},
}
var entAll = []string{"A", "B", "C", "D", "X"}

// entSupported: the conjunctive entitlements of an intersection (after minimising)
// and every entitlement its fully entitled access grants when used as a conjunction.
func entConj(idx []int) []string {
	seen := map[string]bool{}
	var out []string
	for _, i := range idx {
		for _, e := range entIfaces[i].ents {
			if !seen[e] {
				seen[e] = true
				out = append(out, e)
			}
		}
	}
	return out
}

// entGranted reports whether a fully entitled reference to the intersection is a
// subtype of auth(e) &T.
func entGranted(idx []int, e string) bool {
	conj := entConj(idx)
	for _, c := range conj {
		if c == e {
			return true
		}
	}
	// remaining disjunctions (not containing a conjunctive entitlement)
	var rest [][]string
	for _, i := range idx {
	next:
		for _, d := range entIfaces[i].disj {
			for _, x := range d {
				for _, c := range conj {
					if x == c {
						continue next
					}
				}
			}
			rest = append(rest, d)
		}
	}
	if len(conj) == 0 && len(rest) == 1 {
		return false // access is the disjunction (C | D): does not grant C
	}
	for _, d := range rest {
		for _, x := range d {
			if x == e {
				return true // over-approximated to the conjunction of everything
			}
		}
	}
	return false
}

func entSetName(idx []int) string {
	s := "{"
	for k, i := range idx {
		if k > 0 {
			s += ", "
		}
		s += "Ent." + entIfaces[i].name
	}
	return s + "}"
}

func entAuth(ents []string) string {
	if len(ents) == 0 {
		return ""
	}
	s := "auth("
	for k, e := range ents {
		if k > 0 {
			s += ", "
		}
		s += "Ent." + e
	}
	return s + ") "
}

func entPick(r *rand.Rand, n int) []int { return r.Perm(len(entIfaces))[:n] }

var entTemplates = []batchTemplate{
	// the checker (post-condition `result`) and the interpreter (resultValue) compute the supported
	// entitlements of an intersection of 2..3 imported interfaces with different entitlements
	{"ent-intersection-result", func(r *rand.Rand) prog.Step {
		idx := entPick(r, 2+r.Intn(2))
		set := entSetName(idx)
		probe := entAll[r.Intn(len(entAll))]
		return prog.Step{Kind: prog.Script, MayFail: true, Source: fmt.Sprintf(`import Ent from 0x4
access(all) view fun chk(_ r: %[2]s&%[1]s): Bool { return true }
access(all) fun f(): @%[1]s { post { chk(result); ((result as? auth(Ent.%[3]s) &%[1]s) != nil) == %[4]v : "unexpected authorization of result" }
 return <- Ent.make() }
access(all) fun main(): [AnyStruct] { let r <- f(); let ref = &r as &%[1]s; let t = ref.getType().identifier; destroy r; return [t] }`,
			set, entAuth(entConj(idx)), probe, entGranted(idx, probe))}
	}},
	// depends on the entitlements of ONE interface: ill-typed iff the interface does not support the entitlement
	{"ent-single-result-static", func(r *rand.Rand) prog.Step {
		idx := entPick(r, 1)
		e := entAll[r.Intn(len(entAll))]
		return prog.Step{Kind: prog.Script, MayFail: true, Source: fmt.Sprintf(`import Ent from 0x4
access(all) view fun chk(_ r: auth(Ent.%[2]s) &%[1]s): Bool { return true }
access(all) fun g(): @%[1]s { post { chk(result) }
 return <- Ent.make() }
access(all) fun main(): Int { let r <- g(); destroy r; return 1 }`, entSetName(idx), e)}
	}},
	{"ent-single-result-dynamic", func(r *rand.Rand) prog.Step {
		idx := entPick(r, 1)
		e := entAll[r.Intn(len(entAll))]
		return prog.Step{Kind: prog.Script, MayFail: true, Source: fmt.Sprintf(`import Ent from 0x4
access(all) fun g(): @%[1]s { post { ((result as? auth(Ent.%[2]s) &%[1]s) != nil) == %[3]v : "unexpected authorization of result" }
 return <- Ent.make() }
access(all) fun main(): Int { let r <- g(); destroy r; return 1 }`, entSetName(idx), e, entGranted(idx, e))}
	}},
	// an attachment declared by the program for ONE imported interface: its members may only use
	// entitlements the interface supports; self / base are fully entitled
	{"ent-attachment-decl", func(r *rand.Rand) prog.Step {
		idx := entPick(r, 1)
		e := entAll[r.Intn(len(entAll))]
		return prog.Step{Kind: prog.Script, MayFail: true, Source: fmt.Sprintf(`import Ent from 0x4
access(all) attachment Loc for Ent.%[1]s { access(Ent.%[2]s) fun z(): Int { return 7 }
 access(all) fun selfType(): String { return self.getType().identifier } }
access(all) fun main(): [AnyStruct] { let r <- Ent.make(); let r2 <- attach Loc() to <- r; let a = r2[Loc]!; let out: [AnyStruct] = [a.z(), a.getType().identifier, a.selfType()]; destroy r2; return out }`,
			entIfaces[idx[0]].name, e)}
	}},
	// attachments of the shared contract for interfaces: the reference obtained from an owned value is
	// entitled to what the attachment supports = its own members + what its base interface supports
	{"ent-attachment-access", func(r *rand.Rand) prog.Step {
		at := []struct {
			name  string
			iface int
			own   []string
		}{{"At1", 0, nil}, {"At2", 1, []string{"B"}}, {"At3", 2, nil}, {"At5", 4, nil}}[r.Intn(4)]
		e := entAll[r.Intn(len(entAll))]
		if r.Intn(2) == 0 {
			// static: ill-typed unless the attachment supports the entitlement
			return prog.Step{Kind: prog.Script, MayFail: true, Source: fmt.Sprintf(`import Ent from 0x4
access(all) fun main(): Int { let r <- Ent.make(); let r2 <- attach Ent.%[1]s() to <- r; let a: auth(Ent.%[2]s) &Ent.%[1]s = r2[Ent.%[1]s]!; let n = a.getType().identifier.length; destroy r2; return n }`, at.name, e)}
		}
		return prog.Step{Kind: prog.Script, MayFail: true, Source: fmt.Sprintf(`import Ent from 0x4
access(all) fun main(): [AnyStruct] { let r <- Ent.make(); let r2 <- attach Ent.%[1]s() to <- r; let a = r2[Ent.%[1]s]!
 let out: [AnyStruct] = [a.getType().identifier, (a as? auth(Ent.%[2]s) &Ent.%[1]s) != nil]; destroy r2; return out }`, at.name, e)}
	}},
}

func init() { batchTemplates = append(batchTemplates, entTemplates...) }

// GenBatchOf is GenBatch restricted to the templates whose name has the prefix.
func GenBatchOf(r *rand.Rand, n int, prefix string) Batch {
	var sel []batchTemplate
	for _, t := range batchTemplates {
		if strings.HasPrefix(t.name, prefix) {
			sel = append(sel, t)
		}
	}
	return genBatch(r, n, sel)
}

// GenBatch generates a batch of n programs over the shared contracts.
func GenBatch(r *rand.Rand, n int) Batch { return genBatch(r, n, batchTemplates) }

func genBatch(r *rand.Rand, n int, templates []batchTemplate) Batch {
	var ent []batchTemplate
	for _, t := range templates {
		if strings.HasPrefix(t.name, "ent-") {
			ent = append(ent, t)
		}
	}
	b := Batch{Contracts: []prog.Step{dep(1, "Lib", libContract), dep(2, "Lib2", lib2Contract), dep(3, "Lib3", lib3Contract), dep(4, "Ent", entContract)}}
	for i := 0; i < n; i++ {
		t := templates[r.Intn(len(templates))]
		if len(ent) > 0 && len(ent) < len(templates) && r.Intn(3) == 0 {
			// the entitlement templates get extra weight (about half of the programs)
			t = ent[r.Intn(len(ent))]
		}
		s := t.gen(r)
		s.Name = t.name
		b.Programs = append(b.Programs, s)
	}
	return b
}
