package execgen

import (
	"math/rand"

	"pgregory.net/rapid"

	"verif/lib/capgen"
	"verif/lib/host"
	"verif/lib/prog"
	"verif/lib/resgen"
	"verif/lib/storgen"
	"verif/lib/vir/virhost"
)

// meteringCalls runs the history once on the VM with a counting (non-recording) gauge under a
// generous computation limit and returns the number of metering calls: a deterministic cost measure.
func meteringCalls(h prog.History) int {
	runs, _ := Run(Item{Hist: h}, RunOpts{Engine: host.VM, CompLimit: 3_000_000, FaultStep: -1})
	n := 0
	for _, r := range runs {
		n += r.Gauge.MemCalls + r.Gauge.CompCalls
	}
	return n
}

// External history sources: one Register line per generator package. Each
// adapter is a pure function of r.

func init() {
	Register("storgen/containers", func(r *rand.Rand, n int) []prog.History {
		out := make([]prog.History, 0, n)
		for i := 0; i < n; i++ {
			// storgen's bulk operations (up to 400 elements, repeated) can make one history cost tens of
			// seconds and millions of metering calls; the exec properties re-run every history many times,
			// so take the first of up to 6 candidates whose clean run stays small (deterministic: the
			// measure is the number of metering calls, not time)
			var h prog.History
			for try := 0; try < 6; try++ {
				h = storgen.GenContHistory(storgen.FromRand(r), storgen.ContGenConfig{MaxExecs: 4, MaxOps: 5}).History()
				if meteringCalls(h) <= 500_000 {
					break
				}
			}
			out = append(out, h)
		}
		return out
	})
	Register("capgen/caps", func(r *rand.Rand, n int) []prog.History {
		out := make([]prog.History, 0, n)
		for i := 0; i < n; i++ {
			out = append(out, capgen.GenCapHistory(capgen.Rand{R: r}, capgen.CapGenOptions{MaxActions: 16}).Prog())
		}
		return out
	})
	Register("capgen/contracts", func(r *rand.Rand, n int) []prog.History {
		out := make([]prog.History, 0, n)
		for i := 0; i < n; i++ {
			// FK1/FK2 (findings of group caps) end in internal errors: not generated here
			out = append(out, capgen.GenContractHistory(capgen.Rand{R: r}, capgen.ContractGenOptions{MaxActions: 12, Avoid: map[string]bool{"FK1": true, "FK2": true}}).Prog())
		}
		return out
	})
	Register("resgen/resources", func(r *rand.Rand, n int) []prog.History {
		out := make([]prog.History, 0, n)
		o := resgen.DefaultOptions()
		o.MaxTx, o.MaxOps = 4, 12
		for i := 0; i < n; i++ {
			out = append(out, resgen.Generate(resgen.FromRand(r), o).Prog)
		}
		return out
	})
	Register("vir/order+cond+copy", func(r *rand.Rand, n int) []prog.History {
		gens := []*rapid.Generator[prog.History]{
			rapid.Custom(virhost.GenOrderHistory), rapid.Custom(virhost.GenCondHistory), rapid.Custom(virhost.GenCopyHistory),
		}
		out := make([]prog.History, 0, n)
		for i := 0; i < n; i++ {
			out = append(out, gens[i%len(gens)].Example(int(r.Int31())))
		}
		return out
	})
}
