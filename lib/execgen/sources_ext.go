package execgen

import (
	"math/rand"

	"pgregory.net/rapid"

	"verif/lib/capgen"
	"verif/lib/prog"
	"verif/lib/resgen"
	"verif/lib/storgen"
	"verif/lib/vir/virhost"
)

// External history sources: one Register line per generator package. Each
// adapter is a pure function of r.

func init() {
	Register("storgen/containers", func(r *rand.Rand, n int) []prog.History {
		out := make([]prog.History, 0, n)
		for i := 0; i < n; i++ {
			out = append(out, storgen.GenContHistory(storgen.FromRand(r), storgen.ContGenConfig{MaxExecs: 6, MaxOps: 6}).History())
		}
		return out
	})
	Register("capgen/caps", func(r *rand.Rand, n int) []prog.History {
		out := make([]prog.History, 0, n)
		for i := 0; i < n; i++ {
			out = append(out, capgen.GenCapHistory(capgen.Rand{R: r}, capgen.CapGenOptions{MaxActions: 16}).Prog())
		}
		return out
	})
	Register("capgen/contracts", func(r *rand.Rand, n int) []prog.History {
		out := make([]prog.History, 0, n)
		for i := 0; i < n; i++ {
			// FK1/FK2 (findings of group caps) end in internal errors: not generated here
			out = append(out, capgen.GenContractHistory(capgen.Rand{R: r}, capgen.ContractGenOptions{MaxActions: 12, Avoid: map[string]bool{"FK1": true, "FK2": true}}).Prog())
		}
		return out
	})
	Register("resgen/resources", func(r *rand.Rand, n int) []prog.History {
		out := make([]prog.History, 0, n)
		o := resgen.DefaultOptions()
		o.MaxTx, o.MaxOps = 4, 12
		for i := 0; i < n; i++ {
			out = append(out, resgen.Generate(resgen.FromRand(r), o).Prog)
		}
		return out
	})
	Register("vir/order+cond+copy", func(r *rand.Rand, n int) []prog.History {
		gens := []*rapid.Generator[prog.History]{
			rapid.Custom(virhost.GenOrderHistory), rapid.Custom(virhost.GenCondHistory), rapid.Custom(virhost.GenCopyHistory),
		}
		out := make([]prog.History, 0, n)
		for i := 0; i < n; i++ {
			out = append(out, gens[i%len(gens)].Example(int(r.Int31())))
		}
		return out
	})
}
