package execgen

import (
	"fmt"
	"math/rand"
	"strings"

	"verif/lib/prog"
)

// Type probes: histories whose observable output is the INFERRED static type of
// expressions - heterogeneous array / dictionary literals, ?: and ?? over
// composites that share several interfaces (the inferred type is an intersection
// type whose `Types` order must not depend on anything but the program), mixed
// numeric literals, optionals, nested containers. Every probe value is logged
// (getType(), getType().identifier), returned from a script (JSON-CDC + CCF carry
// the static type), SAVED to storage (the slab encodes the static type: register
// values) and used in an ill-typed declaration / failing cast (the error message
// prints the type).

const contractHet = `access(all) contract Het {
    access(all) struct interface I1 { access(all) fun one(): Int { return 1 } }
    access(all) struct interface I2 { access(all) fun two(): Int { return 2 } }
    access(all) struct interface I3 { access(all) fun three(): Int { return 3 } }
    access(all) struct interface I4 { access(all) fun four(): Int { return 4 } }
    access(all) struct interface I5: I1 { access(all) fun five(): Int { return 5 } }
    access(all) struct A: I1, I2, I3, I4 { access(all) let v: Int; init() { self.v = 1 } }
    access(all) struct B: I4, I3, I2, I1 { access(all) let v: Int; init() { self.v = 2 } }
    access(all) struct C: I2, I3, I1 { access(all) let v: Int; init() { self.v = 3 } }
    access(all) struct D: I3, I1, I4, I2, I5 { access(all) let v: Int; init() { self.v = 4 } }
    access(all) struct E: I5, I2 { access(all) let v: Int; init() { self.v = 5 } }
    access(all) resource interface R1 { access(all) fun one(): Int { return 1 } }
    access(all) resource interface R2 { access(all) fun two(): Int { return 2 } }
    access(all) resource interface R3 { access(all) fun three(): Int { return 3 } }
    access(all) resource RA: R1, R2, R3 { access(all) let v: Int; init() { self.v = 1 } }
    access(all) resource RB: R3, R2, R1 { access(all) let v: Int; init() { self.v = 2 } }
    access(all) resource RC: R2, R1 { access(all) let v: Int; init() { self.v = 3 } }
    access(all) fun ra(): @RA { return <- create RA() }
    access(all) fun rb(): @RB { return <- create RB() }
    access(all) fun rc(): @RC { return <- create RC() }
}`

var hetStructs = []string{"A", "B", "C", "D", "E"}
var hetResources = []string{"ra", "rb", "rc"}

// hetExpr returns an expression (no annotation anywhere) whose inferred type is
// built from >= 2 different Het structs.
func hetExpr(r *rand.Rand) string {
	p := r.Perm(len(hetStructs))
	n := 2 + r.Intn(2)
	var cs []string
	for _, i := range p[:n] {
		cs = append(cs, "Het."+hetStructs[i]+"()")
	}
	switch r.Intn(8) {
	case 0:
		return "[" + strings.Join(cs, ", ") + "]"
	case 1:
		var kv []string
		for i, c := range cs {
			kv = append(kv, fmt.Sprintf("%q: %s", fmt.Sprint("k", i), c))
		}
		return "{" + strings.Join(kv, ", ") + "}"
	case 2:
		return fmt.Sprintf("(flag ? %s : %s)", cs[0], cs[1])
	case 3:
		return fmt.Sprintf("((flag ? nil : %s) ?? %s)", cs[0], cs[1])
	case 4:
		return fmt.Sprintf("[[%s], [%s]]", cs[0], cs[1])
	case 5:
		return fmt.Sprintf("[%s, nil, %s]", cs[0], cs[1])
	case 6:
		return fmt.Sprintf("{1: [%s], 2: [%s, %s]}", cs[0], cs[1], cs[0])
	default:
		return fmt.Sprintf("[flag ? %s : %s, %s]", cs[0], cs[1], cs[n-1])
	}
}

// plainProbes: expressions whose inferred type is a computed common supertype.
var plainProbes = []string{
	`[1, 2]`, `[1, "a"]`, `[1, 2.5]`, `[Int8(1), Int16(2)]`, `[UInt8(1), Word8(1)]`, `[UInt8(1), Int8(1)]`, `[1.5, -2.5]`, `[UFix64(1.5), Fix64(-2.5)]`,
	`[nil, 1]`, `[[1], ["a"]]`, `{1: "a", 2: nil}`, `{"a": 1, "b": 2.5}`, `{"a": [1], "b": ["x"]}`, `[/storage/a, /public/b]`, `[/storage/a, /storage/b]`,
	`[Type<Int>(), Type<String>()]`, `(flag ? 1 : "one")`, `(flag ? 1 : nil)`, `(flag ? [1] : ["a"])`, `[0x1, 0x2]`, `["a", "b"].concat(["c"])`,
	`[true, 1]`, `[fun (): Int { return 1 }, fun (): Int { return 2 }]`, `[fun (): Int { return 1 }, fun (): String { return "s" }]`, `[InclusiveRange(1, 2), InclusiveRange(3, 4)]`,
	`{"x": {"y": [1, nil]}}`, `[Het.A(), 1]`, `[Het.A(), nil, "s"]`, `[[Het.A()], [1]]`, `[1 as Int8, 2 as Int8]`, `["a", "b"]`, `[("a" as Character), "b"]`,
}

// storable reports whether the probe may be saved (no functions / ranges of non-storable kind).
func storableProbe(e string) bool { return !strings.Contains(e, "fun (") && !strings.Contains(e, "InclusiveRange") }

func genTypeProbe(r *rand.Rand) prog.History {
	signer := uint64(1 + r.Intn(4))
	n := 3 + r.Intn(4)
	var exprs []string
	for i := 0; i < n; i++ {
		if r.Intn(3) == 0 {
			exprs = append(exprs, plainProbes[r.Intn(len(plainProbes))])
		} else {
			exprs = append(exprs, hetExpr(r))
		}
	}
	var txb, scb strings.Builder
	txb.WriteString("import Het from 0x1\ntransaction(flag: Bool) { prepare(a: auth(Storage) &Account) {\n")
	scb.WriteString("import Het from 0x1\naccess(all) fun main(flag: Bool): [AnyStruct] { let out: [AnyStruct] = []\n")
	for i, e := range exprs {
		fmt.Fprintf(&txb, " let x%[1]d = %[2]s; log(x%[1]d.getType()); log(x%[1]d.getType().identifier)\n", i, e)
		if storableProbe(e) {
			fmt.Fprintf(&txb, " a.storage.save(x%[1]d, to: /storage/probe%[1]d); log(a.storage.type(at: /storage/probe%[1]d)!)\n", i)
		}
		if storableProbe(e) {
			fmt.Fprintf(&scb, " let x%[1]d = %[2]s; out.append(x%[1]d.getType()); out.append(x%[1]d.getType().identifier); out.append(x%[1]d)\n", i, e)
		} else {
			fmt.Fprintf(&scb, " let x%[1]d = %[2]s; log(x%[1]d.getType()); out.append(x%[1]d.getType().identifier)\n", i, e)
		}
	}
	// resources: inferred intersection of resource interfaces, saved
	p := r.Perm(len(hetResources))
	fmt.Fprintf(&txb, " let rs <- [<- Het.%s(), <- Het.%s()]; log(rs.getType()); a.storage.save(<- rs, to: /storage/proberes); log(a.storage.type(at: /storage/proberes)!)\n", hetResources[p[0]], hetResources[p[1]])
	fmt.Fprintf(&txb, " let rd <- {\"a\": <- Het.%s(), \"b\": <- Het.%s()}; log(rd.getType().identifier); a.storage.save(<- rd, to: /storage/probedict)\n", hetResources[p[1]], hetResources[p[2%len(p)]])
	txb.WriteString("} }")
	scb.WriteString(" return out }")
	bad := hetExpr(r)
	steps := []prog.Step{
		dep(1, "Het", contractHet),
		{Kind: prog.Tx, Source: txb.String(), Args: []string{`{"type":"Bool","value":true}`}, Signers: []uint64{signer}},
		{Kind: prog.Script, Source: scb.String(), Args: []string{`{"type":"Bool","value":false}`}},
		// the error message prints the inferred type
		{Kind: prog.Script, MayFail: true, Args: []string{`{"type":"Bool","value":true}`}, Source: fmt.Sprintf("import Het from 0x1\naccess(all) fun main(flag: Bool): Int { let y: Int = %s; return y }", bad)},
		{Kind: prog.Script, MayFail: true, Args: []string{`{"type":"Bool","value":true}`}, Source: fmt.Sprintf("import Het from 0x1\naccess(all) fun main(flag: Bool): Int { let x = %s; let y: AnyStruct = x; return (y as! Int) }", bad)},
		// read back what was saved: the loaded value's type
		{Kind: prog.Tx, Signers: []uint64{signer}, Source: `transaction { prepare(a: auth(Storage) &Account) { a.storage.forEachStored(fun (p: StoragePath, t: Type): Bool { log(p); log(t); return true }) } }`},
	}
	return prog.History{Steps: steps, Features: []string{"type-probe", "inferred-type", "intersection", "storage"}}
}

// TypeProbes generates n type-probe histories.
func TypeProbes(r *rand.Rand, n int) []prog.History {
	out := make([]prog.History, 0, n)
	for i := 0; i < n; i++ {
		h := genTypeProbe(r)
		h.Origin = "execgen/typeprobe"
		out = append(out, h)
	}
	return out
}
