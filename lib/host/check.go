package host

import (
	"github.com/onflow/cadence/common"
	"github.com/onflow/cadence/runtime"
)

// Check parses and checks code at location loc through the runtime's
// ParseAndCheckProgram (the production checker configuration: import
// resolution through this host, production access handlers). Programs imported
// by earlier Check calls stay cached (they are the deployed contracts); the
// entry of loc itself is dropped before and after, so that the same location can
// be checked again with different code. A Go panic escaping the runtime is
// returned in panicked.
func (h *Host) Check(code string, loc common.Location) (err error, panicked any) {
	if h.Programs == nil {
		h.BeginExecution(nil)
	}
	h.Trace = nil
	h.Counts = map[string]int{}
	delete(h.Programs, loc)
	defer delete(h.Programs, loc)
	defer func() {
		if r := recover(); r != nil {
			panicked = r
		}
	}()
	rt := runtime.NewRuntime(runtime.Config{})
	_, err = rt.ParseAndCheckProgram([]byte(code), runtime.Context{Interface: h, Location: loc})
	return err, nil
}

// ForgetPrograms drops every cached program (call after deploying or updating
// contracts when Check is used between executions).
func (h *Host) ForgetPrograms() { h.Programs = map[common.Location]programEntry{} }
