package host

// Whole-ledger storage health check (used by C23, C20, C22): a fresh
// runtime.Storage is built over a read-only view of the ledger, every slab
// register and every account storage root is loaded, atree's / the runtime's
// health check is run, every stored value is walked and rendered, and the
// number of slab registers is compared with an independent reachability walk
// from the account roots. Nothing here touches the host call trace.
//
// (added by the storage group)

import (
	"bytes"
	"fmt"
	"sort"

	"github.com/onflow/atree"

	"github.com/onflow/cadence/common"
	"github.com/onflow/cadence/interpreter"
	"github.com/onflow/cadence/runtime"
)

// ROLedger is a read-only atree.Ledger over a Ledger: reads are served, writes
// and index allocations are counted and refused.
type ROLedger struct {
	L        *Ledger
	Writes   int
	Allocs   int
	ReadKeys map[string]int
}

var _ atree.Ledger = &ROLedger{}

func NewROLedger(l *Ledger) *ROLedger { return &ROLedger{L: l, ReadKeys: map[string]int{}} }

func (r *ROLedger) GetValue(owner, key []byte) ([]byte, error) {
	k := RegKey(owner, key)
	r.ReadKeys[k]++
	return r.L.Values[k], nil
}

func (r *ROLedger) SetValue(owner, key, value []byte) error {
	r.Writes++
	return fmt.Errorf("read-only ledger: SetValue(%x, %q)", owner, key)
}

func (r *ROLedger) ValueExists(owner, key []byte) (bool, error) {
	return len(r.L.Values[RegKey(owner, key)]) > 0, nil
}

func (r *ROLedger) AllocateSlabIndex(owner []byte) (atree.SlabIndex, error) {
	r.Allocs++
	return atree.SlabIndex{}, fmt.Errorf("read-only ledger: AllocateSlabIndex(%x)", owner)
}

// HealthReport summarises one whole-ledger check.
type HealthReport struct {
	SlabRegisters  int      // non-empty registers whose key starts with '$'
	Accounts       int      // owners with an account storage root register ("stored")
	Reachable      int      // slabs reached by the independent walk from the account roots
	StoredValues   int      // values found in all domain storage maps
	OtherRegisters []string // non-empty registers that are neither slabs nor account roots
	Rendered       []string // "owner/domain/key = value" (only when Health is called with render=true)
}

func (r HealthReport) String() string {
	return fmt.Sprintf("slabs=%d accounts=%d reachable=%d values=%d other=%v", r.SlabRegisters, r.Accounts, r.Reachable, r.StoredValues, r.OtherRegisters)
}

// SlabRegisterKey reports whether a register key names an atree slab.
func SlabRegisterKey(key string) bool { return len(key) == 9 && key[0] == '$' }

// Health checks the committed state in l. A non-nil error describes the first
// problem found (the report is valid up to that point).
func Health(l *Ledger, render bool) (rep HealthReport, err error) {
	defer func() {
		if r := recover(); r != nil {
			err = fmt.Errorf("panic during health check: %v", r)
		}
	}()
	ro := NewROLedger(l)
	storage := runtime.NewStorage(ro, nil, nil, runtime.StorageConfig{})

	type owner = string
	slabsOf := map[owner][]atree.SlabID{}
	var roots []common.Address
	for _, k := range l.SortedKeys() {
		ow, key := SplitRegKey(k)
		switch {
		case SlabRegisterKey(key):
			rep.SlabRegisters++
			var addr atree.Address
			copy(addr[:], ow)
			var idx atree.SlabIndex
			copy(idx[:], key[1:])
			slabsOf[ow] = append(slabsOf[ow], atree.NewSlabID(addr, idx))
		case key == runtime.AccountStorageKey:
			rep.Accounts++
			var a common.Address
			copy(a[:], ow)
			roots = append(roots, a)
		default:
			rep.OtherRegisters = append(rep.OtherRegisters, fmt.Sprintf("%x|%q", ow, key))
		}
	}

	// 1. every slab register decodes
	owners := make([]string, 0, len(slabsOf))
	for o := range slabsOf {
		owners = append(owners, o)
	}
	sort.Strings(owners)
	for _, o := range owners {
		for _, id := range slabsOf[o] {
			slab, found, e := storage.Retrieve(id)
			if e != nil {
				return rep, fmt.Errorf("slab %s does not decode: %w", id, e)
			}
			if !found || slab == nil {
				return rep, fmt.Errorf("slab register %s not retrievable", id)
			}
		}
	}

	// 2. every account root loads; remember the root slab ids
	inter, e := interpreter.NewInterpreter(nil, common.StringLocation("verif-health"), &interpreter.Config{Storage: storage})
	if e != nil {
		return rep, e
	}
	rootIDs := map[atree.SlabID]bool{}
	for _, a := range roots {
		reg := l.Values[RegKey(a[:], []byte(runtime.AccountStorageKey))]
		if len(reg) != 8 {
			return rep, fmt.Errorf("account root register of %s has length %d", a.Hex(), len(reg))
		}
		var idx atree.SlabIndex
		copy(idx[:], reg)
		rootID := atree.NewSlabID(atree.Address(a), idx)
		rootIDs[rootID] = true
		if _, found, _ := storage.Retrieve(rootID); !found {
			return rep, fmt.Errorf("account root of %s points to missing slab %s", a.Hex(), rootID)
		}
		for _, d := range common.AllStorageDomains {
			m := storage.GetDomainStorageMap(inter, a, d, false)
			if m == nil {
				continue
			}
			it := m.Iterator()
			for {
				k, v := it.Next(nil)
				if k == nil {
					break
				}
				rep.StoredValues++
				s := renderValue(inter, v)
				if render {
					rep.Rendered = append(rep.Rendered, fmt.Sprintf("%s/%s/%v = %s", a.Hex(), d.Identifier(), k, s))
				}
			}
		}
	}
	for o := range slabsOf {
		var a common.Address
		copy(a[:], o)
		if len(l.Values[RegKey(a[:], []byte(runtime.AccountStorageKey))]) == 0 {
			return rep, fmt.Errorf("account %s has %d slab registers but no storage root register", a.Hex(), len(slabsOf[o]))
		}
	}

	// 3. atree + runtime health check (every slab reachable from exactly one root, no orphan roots)
	if e := storage.CheckHealth(); e != nil {
		return rep, fmt.Errorf("CheckHealth: %w", e)
	}

	// 4. independent reachability count from the account roots
	visited := map[atree.SlabID]bool{}
	var visit func(id atree.SlabID) error
	visit = func(id atree.SlabID) error {
		if visited[id] {
			return fmt.Errorf("slab %s is referenced twice", id)
		}
		visited[id] = true
		slab, found, e := storage.Retrieve(id)
		if e != nil || !found {
			return fmt.Errorf("referenced slab %s missing (%v)", id, e)
		}
		if !bytes.Equal(addrOf(slab.SlabID()), addrOf(id)) {
			return fmt.Errorf("slab %s stored under a different id %s", id, slab.SlabID())
		}
		stack := slab.ChildStorables()
		for len(stack) > 0 {
			s := stack[len(stack)-1]
			stack = stack[:len(stack)-1]
			if sid, ok := s.(atree.SlabIDStorable); ok {
				if e := visit(atree.SlabID(sid)); e != nil {
					return e
				}
				continue
			}
			stack = append(stack, s.ChildStorables()...)
		}
		return nil
	}
	rootList := make([]atree.SlabID, 0, len(rootIDs))
	for id := range rootIDs {
		rootList = append(rootList, id)
	}
	sort.Slice(rootList, func(i, j int) bool { return rootList[i].Compare(rootList[j]) < 0 })
	for _, id := range rootList {
		if e := visit(id); e != nil {
			return rep, e
		}
	}
	rep.Reachable = len(visited)
	if rep.Reachable != rep.SlabRegisters {
		var orphans []string
		for _, o := range owners {
			for _, id := range slabsOf[o] {
				if !visited[id] {
					orphans = append(orphans, id.String())
				}
			}
		}
		return rep, fmt.Errorf("%d slab registers but %d slabs reachable from the account roots; unreachable: %v", rep.SlabRegisters, rep.Reachable, orphans)
	}
	if ro.Writes != 0 || ro.Allocs != 0 {
		return rep, fmt.Errorf("loading the committed state wrote to the ledger (%d writes, %d index allocations)", ro.Writes, ro.Allocs)
	}
	return rep, nil
}

func addrOf(id atree.SlabID) []byte {
	a := id.Address()
	return a[:]
}

func renderValue(inter *interpreter.Interpreter, v interpreter.Value) string {
	if v == nil {
		panic("nil stored value")
	}
	// String() decodes the whole value tree (all child slabs are loaded).
	s := v.String()
	_ = v.StaticType(inter)
	return s
}
