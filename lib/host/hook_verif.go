//go:build verif

package host

import "github.com/onflow/cadence/runtime"

func init() {
	peepholeEnv = func(cfg runtime.Config, script bool) runtime.Environment {
		return runtime.NewVerifVMEnvironment(cfg, script, true)
	}
}
