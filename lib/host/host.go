// Package host is the harness's own implementation of runtime.Interface: an
// in-memory ledger, a complete ordered call trace, a fault injector and
// recording gauges. It deliberately does not use cadence's test_utils so that a
// change there cannot blind the checks. See DESIGN §3.5.
package host

import (
	"crypto/sha256"
	"encoding/binary"
	"encoding/hex"
	"errors"
	"fmt"
	"sort"
	"strings"
	"time"

	"github.com/onflow/atree"
	"go.opentelemetry.io/otel/attribute"

	"github.com/onflow/cadence"
	"github.com/onflow/cadence/ast"
	"github.com/onflow/cadence/common"
	jsoncdc "github.com/onflow/cadence/encoding/json"
	"github.com/onflow/cadence/interpreter"
	"github.com/onflow/cadence/runtime"
	"github.com/onflow/cadence/sema"
	"github.com/onflow/cadence/stdlib"
)

// ---- ledger -----------------------------------------------------------------

// Ledger is the register store: (owner, key) -> value, plus the per-owner slab
// index counter.
type Ledger struct {
	Values  map[string][]byte
	Indices map[string]uint64
}

func NewLedger() *Ledger {
	return &Ledger{Values: map[string][]byte{}, Indices: map[string]uint64{}}
}

func RegKey(owner, key []byte) string { return string(owner) + "|" + string(key) }

func SplitRegKey(k string) (owner, key string) {
	// owner is always 8 bytes
	return k[:8], k[9:]
}

func (l *Ledger) Clone() *Ledger {
	c := NewLedger()
	for k, v := range l.Values {
		c.Values[k] = append([]byte(nil), v...)
	}
	for k, v := range l.Indices {
		c.Indices[k] = v
	}
	return c
}

// SortedKeys returns the keys of all non-empty registers in sorted order.
func (l *Ledger) SortedKeys() []string {
	keys := make([]string, 0, len(l.Values))
	for k, v := range l.Values {
		if len(v) > 0 {
			keys = append(keys, k)
		}
	}
	sort.Strings(keys)
	return keys
}

// Digest is a hash over all non-empty registers (order independent of history).
func (l *Ledger) Digest() string {
	h := sha256.New()
	for _, k := range l.SortedKeys() {
		v := l.Values[k]
		var n [8]byte
		binary.BigEndian.PutUint64(n[:], uint64(len(k)))
		h.Write(n[:])
		h.Write([]byte(k))
		binary.BigEndian.PutUint64(n[:], uint64(len(v)))
		h.Write(n[:])
		h.Write(v)
	}
	return hex.EncodeToString(h.Sum(nil))
}

// Equal compares the non-empty registers of two ledgers.
func (l *Ledger) Equal(o *Ledger) bool { return l.Digest() == o.Digest() }

// Diff lists register keys whose value differs between l and o (printable).
func (l *Ledger) Diff(o *Ledger) []string {
	var out []string
	seen := map[string]bool{}
	for _, k := range append(l.SortedKeys(), o.SortedKeys()...) {
		if seen[k] {
			continue
		}
		seen[k] = true
		if string(l.Values[k]) != string(o.Values[k]) {
			ow, key := SplitRegKey(k)
			out = append(out, fmt.Sprintf("%x|%q", ow, key))
		}
	}
	sort.Strings(out)
	return out
}

// ---- trace and faults ---------------------------------------------------------

// Call is one entry of the host call trace.
type Call struct {
	Kind   string
	Detail string
}

// Fault variants.
const (
	FaultError      = "error"       // return the sentinel error (callbacks with an error result)
	FaultPanicError = "panic-error" // panic(sentinel error)
	FaultPanicValue = "panic-value" // panic(non-error value carrying the token)
)

// Fault plans the failure of the Index-th (0-based) call of callback Kind.
type Fault struct {
	Kind    string
	Index   int
	Variant string
	Token   string
	Fired   bool
	// FiredAt is the trace position at which the fault fired.
	FiredAt int
}

// SentinelError is the error injected by faults.
type SentinelError struct{ Token string }

func (e *SentinelError) Error() string { return "injected host fault " + e.Token }

// ---- gauges -------------------------------------------------------------------

type MemUse struct {
	Kind   common.MemoryKind
	Amount uint64
}
type CompUse struct {
	Kind      common.ComputationKind
	Intensity uint64
}

// Gauge records all metering calls and optionally enforces limits.
type Gauge struct {
	Mem        []MemUse
	Comp       []CompUse
	MemTotal   uint64
	CompTotal  uint64
	MemLimit   uint64 // 0 = none
	CompLimit  uint64 // 0 = none
	Record     bool   // keep the full sequences
	MemErrAt   int    // number of MeterMemory calls when the limit was first hit (-1 = never)
	CompErrAt  int
	MemCalls   int
	CompCalls  int
	CallsAfter int // metering calls made after the first limit error
	limitHit   bool
	OnLimit    func()
}

func NewGauge(record bool) *Gauge { return &Gauge{Record: record, MemErrAt: -1, CompErrAt: -1} }

type MemoryLimitError struct{ Total, Limit uint64 }

func (e MemoryLimitError) Error() string {
	return fmt.Sprintf("memory limit exceeded: %d > %d", e.Total, e.Limit)
}

type ComputationLimitError struct{ Total, Limit uint64 }

func (e ComputationLimitError) Error() string {
	return fmt.Sprintf("computation limit exceeded: %d > %d", e.Total, e.Limit)
}

func (g *Gauge) MeterMemory(u common.MemoryUsage) error {
	if g.limitHit {
		g.CallsAfter++
	}
	g.MemCalls++
	if g.Record {
		g.Mem = append(g.Mem, MemUse{u.Kind, u.Amount})
	}
	g.MemTotal += u.Amount
	if g.MemLimit != 0 && g.MemTotal > g.MemLimit {
		if g.MemErrAt < 0 {
			g.MemErrAt = g.MemCalls
		}
		g.limitHit = true
		return MemoryLimitError{g.MemTotal, g.MemLimit}
	}
	return nil
}

func (g *Gauge) MeterComputation(u common.ComputationUsage) error {
	if g.limitHit {
		g.CallsAfter++
	}
	g.CompCalls++
	if g.Record {
		g.Comp = append(g.Comp, CompUse{u.Kind, u.Intensity})
	}
	g.CompTotal += u.Intensity
	if g.CompLimit != 0 && g.CompTotal > g.CompLimit {
		if g.CompErrAt < 0 {
			g.CompErrAt = g.CompCalls
		}
		g.limitHit = true
		return ComputationLimitError{g.CompTotal, g.CompLimit}
	}
	return nil
}

func (g *Gauge) LimitHit() bool { return g.limitHit }

// ---- host ---------------------------------------------------------------------

// Host implements runtime.Interface.
type Host struct {
	Ledger *Ledger
	// Code holds deployed contract code by "address.name".
	Code map[string][]byte
	// UUID is the next resource UUID.
	UUID uint64
	// NextAccount is the next account number handed out by CreateAccount.
	NextAccount uint64
	AccountIDs  map[common.Address]uint64
	Keys        map[common.Address][]*stdlib.AccountKey

	// per-execution state
	Signers  []common.Address
	Events   []cadence.Event
	Logs     []string
	Trace    []Call
	Counts   map[string]int
	Programs map[common.Location]programEntry
	Faults   []*Fault
	Random   []byte // scripted random source (cycled); nil => counter bytes
	randPos  int
	// TraceDetail controls whether register keys/values are put in the trace.
	TraceDetail bool
	// FailGetCode etc. can be added through Faults only.

	// UUIDs handed out during the current execution.
	NewUUIDs []uint64
	// Writes is the ordered list of SetValue calls of the current execution.
	Writes []Write
	// ReadOnly makes SetValue record but the caller can assert on Writes.
	BlockHeight uint64

	// OnResolveLocation / OnGetCode allow string/identifier imports in scripts.
	ExtraCode map[common.Location][]byte
}

type Write struct {
	Owner, Key, Value []byte
	TracePos          int
}

type programEntry struct {
	program *runtime.Program
	err     error
}

var _ runtime.Interface = &Host{}

func New() *Host {
	return &Host{
		Ledger:      NewLedger(),
		Code:        map[string][]byte{},
		AccountIDs:  map[common.Address]uint64{},
		Keys:        map[common.Address][]*stdlib.AccountKey{},
		Counts:      map[string]int{},
		NextAccount: 0x100,
		BlockHeight: 7,
		ExtraCode:   map[common.Location][]byte{},
	}
}

// State is the persistent part of a host (what a transaction rollback restores).
type State struct {
	Ledger      *Ledger
	Code        map[string][]byte
	UUID        uint64
	NextAccount uint64
	AccountIDs  map[common.Address]uint64
	Keys        map[common.Address][]*stdlib.AccountKey
}

func (h *Host) Snapshot() *State {
	s := &State{Ledger: h.Ledger.Clone(), Code: map[string][]byte{}, UUID: h.UUID, NextAccount: h.NextAccount,
		AccountIDs: map[common.Address]uint64{}, Keys: map[common.Address][]*stdlib.AccountKey{}}
	for k, v := range h.Code {
		s.Code[k] = append([]byte(nil), v...)
	}
	for k, v := range h.AccountIDs {
		s.AccountIDs[k] = v
	}
	for k, v := range h.Keys {
		cp := make([]*stdlib.AccountKey, len(v))
		for i, key := range v {
			c := *key
			cp[i] = &c
		}
		s.Keys[k] = cp
	}
	return s
}

func (h *Host) Restore(s *State) {
	c := (&Host{Ledger: s.Ledger, Code: s.Code, AccountIDs: s.AccountIDs, Keys: s.Keys}).Snapshot()
	h.Ledger, h.Code, h.AccountIDs, h.Keys = c.Ledger, c.Code, c.AccountIDs, c.Keys
	h.UUID, h.NextAccount = s.UUID, s.NextAccount
}

// Fork returns an independent host with the same persistent state.
func (h *Host) Fork() *Host {
	n := New()
	n.Restore(h.Snapshot())
	n.Random = h.Random
	n.BlockHeight = h.BlockHeight
	n.TraceDetail = h.TraceDetail
	for k, v := range h.ExtraCode {
		n.ExtraCode[k] = v
	}
	return n
}

// BeginExecution resets the per-execution state.
func (h *Host) BeginExecution(signers []common.Address) {
	h.Signers = signers
	h.Events = nil
	h.Logs = nil
	h.Trace = nil
	h.Counts = map[string]int{}
	h.Programs = map[common.Location]programEntry{}
	h.NewUUIDs = nil
	h.Writes = nil
	h.randPos = 0
	for _, f := range h.Faults {
		f.Fired = false
	}
}

// enter records the call and applies the fault plan. It returns the error to
// return (for FaultError) or panics.
func (h *Host) enter(kind string, detail string) error {
	idx := h.Counts[kind]
	h.Counts[kind] = idx + 1
	h.Trace = append(h.Trace, Call{Kind: kind, Detail: detail})
	for _, f := range h.Faults {
		if f.Fired || f.Kind != kind || f.Index != idx {
			continue
		}
		f.Fired = true
		f.FiredAt = len(h.Trace) - 1
		switch f.Variant {
		case FaultError:
			return &SentinelError{Token: f.Token}
		case FaultPanicError:
			panic(&SentinelError{Token: f.Token})
		default:
			panic("non-error host panic " + f.Token)
		}
	}
	return nil
}

// AnyFaultFired reports whether a planned fault fired in this execution.
func (h *Host) AnyFaultFired() *Fault {
	for _, f := range h.Faults {
		if f.Fired {
			return f
		}
	}
	return nil
}

func codeKey(l common.AddressLocation) string { return l.Address.Hex() + "." + l.Name }

func (h *Host) ResolveLocation(identifiers []runtime.Identifier, location runtime.Location) ([]runtime.ResolvedLocation, error) {
	if err := h.enter("ResolveLocation", fmt.Sprint(location)); err != nil {
		return nil, err
	}
	addr, ok := location.(common.AddressLocation)
	if !ok {
		return []runtime.ResolvedLocation{{Location: location, Identifiers: identifiers}}, nil
	}
	// import X from 0x1  => AddressLocation{0x1, ""} with identifiers [X]
	if len(identifiers) == 0 {
		// import all contracts of the account
		names := h.contractNames(addr.Address)
		if len(names) == 0 {
			return nil, fmt.Errorf("no identifiers provided in import of %s", addr.Address.Hex())
		}
		for _, n := range names {
			identifiers = append(identifiers, runtime.Identifier{Identifier: n})
		}
	}
	out := make([]runtime.ResolvedLocation, len(identifiers))
	for i, id := range identifiers {
		out[i] = runtime.ResolvedLocation{
			Location:    common.AddressLocation{Address: addr.Address, Name: id.Identifier},
			Identifiers: []runtime.Identifier{id},
		}
	}
	return out, nil
}

func (h *Host) contractNames(a common.Address) []string {
	var names []string
	prefix := a.Hex() + "."
	for k, v := range h.Code {
		if strings.HasPrefix(k, prefix) && len(v) > 0 {
			names = append(names, k[len(prefix):])
		}
	}
	sort.Strings(names)
	return names
}

func (h *Host) GetCode(location runtime.Location) ([]byte, error) {
	if err := h.enter("GetCode", fmt.Sprint(location)); err != nil {
		return nil, err
	}
	if c, ok := h.ExtraCode[location]; ok {
		return c, nil
	}
	if al, ok := location.(common.AddressLocation); ok {
		return h.Code[codeKey(al)], nil
	}
	return nil, nil
}

func (h *Host) GetOrLoadProgram(location runtime.Location, load func() (*runtime.Program, error)) (*runtime.Program, error) {
	if err := h.enter("GetOrLoadProgram", fmt.Sprint(location)); err != nil {
		return nil, err
	}
	if e, ok := h.Programs[location]; ok {
		return e.program, e.err
	}
	p, err := load()
	h.Programs[location] = programEntry{p, err}
	return p, err
}

func (h *Host) detailKV(owner, key []byte) string {
	if !h.TraceDetail {
		return ""
	}
	return fmt.Sprintf("%x|%q", owner, key)
}

func (h *Host) GetValue(owner, key []byte) ([]byte, error) {
	if err := h.enter("GetValue", h.detailKV(owner, key)); err != nil {
		return nil, err
	}
	return h.Ledger.Values[RegKey(owner, key)], nil
}

func (h *Host) SetValue(owner, key, value []byte) error {
	if err := h.enter("SetValue", h.detailKV(owner, key)); err != nil {
		return err
	}
	h.Writes = append(h.Writes, Write{append([]byte(nil), owner...), append([]byte(nil), key...), append([]byte(nil), value...), len(h.Trace) - 1})
	h.Ledger.Values[RegKey(owner, key)] = append([]byte(nil), value...)
	return nil
}

func (h *Host) ValueExists(owner, key []byte) (bool, error) {
	if err := h.enter("ValueExists", h.detailKV(owner, key)); err != nil {
		return false, err
	}
	return len(h.Ledger.Values[RegKey(owner, key)]) > 0, nil
}

func (h *Host) AllocateSlabIndex(owner []byte) (atree.SlabIndex, error) {
	var r atree.SlabIndex
	if err := h.enter("AllocateSlabIndex", fmt.Sprintf("%x", owner)); err != nil {
		return r, err
	}
	i := h.Ledger.Indices[string(owner)] + 1
	h.Ledger.Indices[string(owner)] = i
	binary.BigEndian.PutUint64(r[:], i)
	return r, nil
}

func (h *Host) CreateAccount(payer runtime.Address, _ interpreter.InvocationContext) (runtime.Address, error) {
	if err := h.enter("CreateAccount", payer.Hex()); err != nil {
		return runtime.Address{}, err
	}
	h.NextAccount++
	var a common.Address
	binary.BigEndian.PutUint64(a[:], h.NextAccount)
	return a, nil
}

func (h *Host) AddAccountKey(address runtime.Address, publicKey *runtime.PublicKey, hashAlgo runtime.HashAlgorithm, weight int) (*runtime.AccountKey, error) {
	if err := h.enter("AddAccountKey", address.Hex()); err != nil {
		return nil, err
	}
	k := &stdlib.AccountKey{KeyIndex: uint32(len(h.Keys[address])), PublicKey: publicKey, HashAlgo: hashAlgo, Weight: weight}
	h.Keys[address] = append(h.Keys[address], k)
	c := *k
	return &c, nil
}

func (h *Host) GetAccountKey(address runtime.Address, index uint32) (*runtime.AccountKey, error) {
	if err := h.enter("GetAccountKey", address.Hex()); err != nil {
		return nil, err
	}
	ks := h.Keys[address]
	if int(index) >= len(ks) {
		return nil, nil
	}
	c := *ks[index]
	return &c, nil
}

func (h *Host) AccountKeysCount(address runtime.Address) (uint32, error) {
	if err := h.enter("AccountKeysCount", address.Hex()); err != nil {
		return 0, err
	}
	return uint32(len(h.Keys[address])), nil
}

func (h *Host) RevokeAccountKey(address runtime.Address, index uint32) (*runtime.AccountKey, error) {
	if err := h.enter("RevokeAccountKey", address.Hex()); err != nil {
		return nil, err
	}
	ks := h.Keys[address]
	if int(index) >= len(ks) {
		return nil, nil
	}
	ks[index].IsRevoked = true
	c := *ks[index]
	return &c, nil
}

func (h *Host) UpdateAccountContractCode(location common.AddressLocation, code []byte) error {
	if err := h.enter("UpdateAccountContractCode", location.String()); err != nil {
		return err
	}
	h.Code[codeKey(location)] = append([]byte(nil), code...)
	return nil
}

func (h *Host) GetAccountContractCode(location common.AddressLocation) ([]byte, error) {
	if err := h.enter("GetAccountContractCode", location.String()); err != nil {
		return nil, err
	}
	return h.Code[codeKey(location)], nil
}

func (h *Host) RemoveAccountContractCode(location common.AddressLocation) error {
	if err := h.enter("RemoveAccountContractCode", location.String()); err != nil {
		return err
	}
	delete(h.Code, codeKey(location))
	return nil
}

func (h *Host) GetSigningAccounts() ([]runtime.Address, error) {
	if err := h.enter("GetSigningAccounts", ""); err != nil {
		return nil, err
	}
	return h.Signers, nil
}

func (h *Host) ProgramLog(s string) error {
	if err := h.enter("ProgramLog", s); err != nil {
		return err
	}
	h.Logs = append(h.Logs, s)
	return nil
}

func (h *Host) EmitEvent(e cadence.Event) error {
	d := ""
	if e.EventType != nil {
		d = e.EventType.ID()
	}
	if err := h.enter("EmitEvent", d); err != nil {
		return err
	}
	h.Events = append(h.Events, e)
	return nil
}

func (h *Host) GenerateUUID() (uint64, error) {
	if err := h.enter("GenerateUUID", ""); err != nil {
		return 0, err
	}
	h.UUID++
	h.NewUUIDs = append(h.NewUUIDs, h.UUID)
	return h.UUID, nil
}

func (h *Host) DecodeArgument(argument []byte, _ cadence.Type) (cadence.Value, error) {
	if err := h.enter("DecodeArgument", ""); err != nil {
		return nil, err
	}
	return jsoncdc.Decode(nil, argument)
}

func (h *Host) GetCurrentBlockHeight() (uint64, error) {
	if err := h.enter("GetCurrentBlockHeight", ""); err != nil {
		return 0, err
	}
	return h.BlockHeight, nil
}

func (h *Host) GetBlockAtHeight(height uint64) (runtime.Block, bool, error) {
	if err := h.enter("GetBlockAtHeight", fmt.Sprint(height)); err != nil {
		return runtime.Block{}, false, err
	}
	if height > h.BlockHeight {
		return runtime.Block{}, false, nil
	}
	var hash stdlib.BlockHash
	binary.BigEndian.PutUint64(hash[len(hash)-8:], height)
	return runtime.Block{Height: height, View: height, Hash: hash, Timestamp: int64(height) * 1_000_000_000}, true, nil
}

func (h *Host) ReadRandom(b []byte) error {
	if err := h.enter("ReadRandom", fmt.Sprint(len(b))); err != nil {
		return err
	}
	for i := range b {
		if len(h.Random) > 0 {
			b[i] = h.Random[h.randPos%len(h.Random)]
		} else {
			b[i] = byte(h.randPos*37 + 11)
		}
		h.randPos++
	}
	return nil
}

func (h *Host) VerifySignature(signature []byte, tag string, signedData []byte, publicKey []byte, _ runtime.SignatureAlgorithm, _ runtime.HashAlgorithm) (bool, error) {
	if err := h.enter("VerifySignature", ""); err != nil {
		return false, err
	}
	return string(signature) == "valid", nil
}

func (h *Host) Hash(data []byte, tag string, _ runtime.HashAlgorithm) ([]byte, error) {
	if err := h.enter("Hash", ""); err != nil {
		return nil, err
	}
	s := sha256.Sum256(append([]byte(tag), data...))
	return s[:], nil
}

func (h *Host) GetAccountBalance(a common.Address) (uint64, error) {
	if err := h.enter("GetAccountBalance", a.Hex()); err != nil {
		return 0, err
	}
	return 1_000_000_00, nil
}

func (h *Host) GetAccountAvailableBalance(a common.Address) (uint64, error) {
	if err := h.enter("GetAccountAvailableBalance", a.Hex()); err != nil {
		return 0, err
	}
	return 900_000_00, nil
}

func (h *Host) GetStorageUsed(a runtime.Address) (uint64, error) {
	if err := h.enter("GetStorageUsed", a.Hex()); err != nil {
		return 0, err
	}
	return 1234, nil
}

func (h *Host) GetStorageCapacity(a runtime.Address) (uint64, error) {
	if err := h.enter("GetStorageCapacity", a.Hex()); err != nil {
		return 0, err
	}
	return 1 << 30, nil
}

func (h *Host) ImplementationDebugLog(message string) error {
	if err := h.enter("ImplementationDebugLog", message); err != nil {
		return err
	}
	return nil
}

func (h *Host) ValidatePublicKey(key *runtime.PublicKey) error {
	if err := h.enter("ValidatePublicKey", ""); err != nil {
		return err
	}
	if len(key.PublicKey) == 0 {
		return errors.New("empty public key")
	}
	return nil
}

func (h *Host) GetAccountContractNames(address runtime.Address) ([]string, error) {
	if err := h.enter("GetAccountContractNames", address.Hex()); err != nil {
		return nil, err
	}
	return h.contractNames(address), nil
}

func (h *Host) RecordTrace(string, time.Duration, []attribute.KeyValue) {}

func (h *Host) BLSVerifyPOP(*runtime.PublicKey, []byte) (bool, error) {
	if err := h.enter("BLSVerifyPOP", ""); err != nil {
		return false, err
	}
	return true, nil
}

func (h *Host) BLSAggregateSignatures(sigs [][]byte) ([]byte, error) {
	if err := h.enter("BLSAggregateSignatures", ""); err != nil {
		return nil, err
	}
	var out []byte
	for _, s := range sigs {
		out = append(out, s...)
	}
	return out, nil
}

func (h *Host) BLSAggregatePublicKeys(keys []*runtime.PublicKey) (*runtime.PublicKey, error) {
	if err := h.enter("BLSAggregatePublicKeys", ""); err != nil {
		return nil, err
	}
	if len(keys) == 0 {
		return nil, errors.New("no keys")
	}
	return keys[0], nil
}

func (h *Host) ResourceOwnerChanged(*interpreter.Interpreter, *interpreter.CompositeValue, common.Address, common.Address) {
}

func (h *Host) GenerateAccountID(a common.Address) (uint64, error) {
	if err := h.enter("GenerateAccountID", a.Hex()); err != nil {
		return 0, err
	}
	h.AccountIDs[a]++
	return h.AccountIDs[a], nil
}

func (h *Host) RecoverProgram(*ast.Program, common.Location) ([]byte, error) {
	if err := h.enter("RecoverProgram", ""); err != nil {
		return nil, err
	}
	return nil, nil
}

func (h *Host) ValidateAccountCapabilitiesGet(interpreter.AccountCapabilityGetValidationContext, interpreter.AddressValue, interpreter.PathValue, *sema.ReferenceType, *sema.ReferenceType) (bool, error) {
	if err := h.enter("ValidateAccountCapabilitiesGet", ""); err != nil {
		return false, err
	}
	return true, nil
}

func (h *Host) ValidateAccountCapabilitiesPublish(interpreter.AccountCapabilityPublishValidationContext, interpreter.AddressValue, interpreter.PathValue, *interpreter.ReferenceStaticType) (bool, error) {
	if err := h.enter("ValidateAccountCapabilitiesPublish", ""); err != nil {
		return false, err
	}
	return true, nil
}

func (h *Host) MinimumRequiredVersion() (string, error) {
	if err := h.enter("MinimumRequiredVersion", ""); err != nil {
		return "", err
	}
	return "0.0.0", nil
}
