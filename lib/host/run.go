package host

import (
	"encoding/hex"
	"fmt"
	"reflect"
	"strings"

	"github.com/onflow/cadence"
	"github.com/onflow/cadence/common"
	jsoncdc "github.com/onflow/cadence/encoding/json"
	cdcerrors "github.com/onflow/cadence/errors"
	"github.com/onflow/cadence/runtime"
)

// Engine selects the execution engine.
type Engine int

const (
	Interp Engine = iota
	VM
	VMPeephole // VM with peephole optimisations (needs -tags verif; falls back to panic otherwise)
)

func (e Engine) String() string { return [...]string{"interpreter", "vm", "vm+peephole"}[e] }

// Engines are the two engines every program check runs.
var Engines = []Engine{Interp, VM}

// Options of one execution.
type Options struct {
	Engine            Engine
	Gauge             *Gauge // used as memory and computation gauge when non-nil
	StackDepthLimit   uint64
	NoAtreeValidation bool
	Location          common.Location // default: ScriptLocation / TransactionLocation zero
}

// Result of one execution.
type Result struct {
	Value  cadence.Value
	Err    error
	Panic  any // a panic that escaped the runtime (always a violation of C01-like properties)
	Events []cadence.Event
	Logs   []string
	Writes []Write
	Trace  []Call
	UUIDs  []uint64
}

// peepholeEnv is set by hook_verif.go (build tag verif).
var peepholeEnv func(cfg runtime.Config, script bool) runtime.Environment

func (o Options) runtimeAndContext(h *Host, script bool) (runtime.Runtime, runtime.Context) {
	cfg := runtime.Config{AtreeValidationEnabled: !o.NoAtreeValidation, StackDepthLimit: o.StackDepthLimit}
	rt := runtime.NewRuntime(cfg)
	ctx := runtime.Context{Interface: h, UseVM: o.Engine != Interp}
	if o.Location != nil {
		ctx.Location = o.Location
	} else if script {
		ctx.Location = common.ScriptLocation{0x53}
	} else {
		ctx.Location = common.TransactionLocation{0x54}
	}
	if o.Gauge != nil {
		ctx.MemoryGauge = o.Gauge
		ctx.ComputationGauge = o.Gauge
	}
	if o.Engine == VMPeephole {
		if peepholeEnv == nil {
			panic("host: VMPeephole needs the verif build tag")
		}
		ctx.Environment = peepholeEnv(cfg, script)
	}
	return rt, ctx
}

// Script executes a script. The ledger is never rolled back (scripts must not
// write; C24 asserts that).
func (h *Host) Script(src string, args [][]byte, o Options) (res Result) {
	h.BeginExecution(nil)
	rt, ctx := o.runtimeAndContext(h, true)
	func() {
		defer func() {
			if r := recover(); r != nil {
				res.Panic = r
			}
		}()
		res.Value, res.Err = rt.ExecuteScript(runtime.Script{Source: []byte(src), Arguments: args}, ctx)
	}()
	h.fill(&res)
	return
}

// Tx executes a transaction; on failure the persistent state is rolled back, as
// a real host does.
func (h *Host) Tx(src string, args [][]byte, signers []common.Address, o Options) (res Result) {
	snap := h.Snapshot()
	h.BeginExecution(signers)
	rt, ctx := o.runtimeAndContext(h, false)
	func() {
		defer func() {
			if r := recover(); r != nil {
				res.Panic = r
			}
		}()
		res.Err = rt.ExecuteTransaction(runtime.Script{Source: []byte(src), Arguments: args}, ctx)
	}()
	h.fill(&res)
	if res.Err != nil || res.Panic != nil {
		h.Restore(snap)
	}
	return
}

func (h *Host) fill(res *Result) {
	res.Events, res.Logs, res.Writes, res.Trace, res.UUIDs = h.Events, h.Logs, h.Writes, h.Trace, h.NewUUIDs
}

// Deploy adds a contract through a transaction signed by addr.
func (h *Host) Deploy(addr common.Address, name, code string, eng Engine) Result {
	tx := fmt.Sprintf(`transaction { prepare(signer: auth(Contracts) &Account) { signer.contracts.add(name: %q, code: %q.decodeHex()) } }`,
		name, hex.EncodeToString([]byte(code)))
	return h.Tx(tx, nil, []common.Address{addr}, Options{Engine: eng})
}

// Update updates a contract through a transaction signed by addr.
func (h *Host) Update(addr common.Address, name, code string, eng Engine) Result {
	tx := fmt.Sprintf(`transaction { prepare(signer: auth(Contracts) &Account) { signer.contracts.update(name: %q, code: %q.decodeHex()) } }`,
		name, hex.EncodeToString([]byte(code)))
	return h.Tx(tx, nil, []common.Address{addr}, Options{Engine: eng})
}

// Addr builds an address from a small number.
func Addr(n uint64) common.Address {
	var a common.Address
	for i := 7; i >= 0; i-- {
		a[i] = byte(n)
		n >>= 8
	}
	return a
}

// Args encodes values as JSON-CDC arguments.
func Args(vs ...cadence.Value) [][]byte {
	out := make([][]byte, len(vs))
	for i, v := range vs {
		out[i] = jsoncdc.MustEncode(v)
	}
	return out
}

// ---- error classification -------------------------------------------------------

// ErrInfo summarises an error returned by the runtime.
type ErrInfo struct {
	Class string   // "ok" | "user" | "external" | "internal" | "panic"
	Types []string // Go types found in the error tree, outermost first
	Root  string   // innermost cadence error type (the root cause)
}

type hasChildren interface{ ChildErrors() []error }
type unwrapper interface{ Unwrap() error }

func walk(err error, f func(error)) {
	if err == nil {
		return
	}
	f(err)
	if c, ok := err.(hasChildren); ok {
		for _, e := range c.ChildErrors() {
			walk(e, f)
		}
	}
	if u, ok := err.(unwrapper); ok {
		walk(u.Unwrap(), f)
	}
}

// Classify classifies the outcome of an execution.
func Classify(res Result) ErrInfo {
	if res.Panic != nil {
		return ErrInfo{Class: "panic", Root: fmt.Sprintf("%T", res.Panic)}
	}
	return ClassifyErr(res.Err)
}

func ClassifyErr(err error) ErrInfo {
	if err == nil {
		return ErrInfo{Class: "ok"}
	}
	info := ErrInfo{Class: "user"}
	internal, external := false, false
	walk(err, func(e error) {
		tn := reflect.TypeOf(e).String()
		info.Types = append(info.Types, tn)
		if _, ok := e.(cdcerrors.InternalError); ok {
			internal = true
		}
		switch e.(type) {
		case cdcerrors.ExternalError, cdcerrors.ExternalNonError, *cdcerrors.ExternalError:
			external = true
		}
		if !strings.HasPrefix(tn, "runtime.Error") && !strings.HasPrefix(tn, "interpreter.Error") &&
			!strings.HasPrefix(tn, "*interpreter.Error") && !strings.Contains(tn, "errors.errorString") {
			info.Root = tn
		}
	})
	if internal {
		info.Class = "internal"
	} else if external {
		info.Class = "external"
	}
	return info
}

// HasType reports whether the error tree contains a Go type whose name contains s.
func (i ErrInfo) HasType(s string) bool {
	for _, t := range i.Types {
		if strings.Contains(t, s) {
			return true
		}
	}
	return false
}

// ExportJSON renders a result value as JSON-CDC (or "<nil>").
func ExportJSON(v cadence.Value) string {
	if v == nil {
		return "<nil>"
	}
	b, err := jsoncdc.Encode(v)
	if err != nil {
		return "<encode error: " + err.Error() + ">"
	}
	return string(b)
}

// HasPeephole reports whether the verif hook is compiled in.
func HasPeephole() bool { return peepholeEnv != nil }
