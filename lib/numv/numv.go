// Package numv is the glue between lib/oracle's raw integers and cadence's
// interpreter number values: build a value of a named numeric type from its raw
// integer, and read the raw integer back. It performs no arithmetic itself.
package numv

import (
	"fmt"
	"math/big"

	"github.com/onflow/cadence/common"
	"github.com/onflow/cadence/interpreter"
	"github.com/onflow/cadence/values"

	"verif/lib/oracle"
)

// Make builds the interpreter value of type t with raw value v (which must fit).
func Make(t oracle.Type, v *big.Int) interpreter.NumberValue {
	if !t.Fits(v) {
		panic(fmt.Sprintf("numv.Make: %s does not fit %s", v, t.Name))
	}
	c := new(big.Int).Set(v)
	switch t.Name {
	case "Int":
		return interpreter.NewUnmeteredIntValueFromBigInt(c)
	case "Int8":
		return interpreter.NewUnmeteredInt8Value(int8(c.Int64()))
	case "Int16":
		return interpreter.NewUnmeteredInt16Value(int16(c.Int64()))
	case "Int32":
		return interpreter.NewUnmeteredInt32Value(int32(c.Int64()))
	case "Int64":
		return interpreter.NewUnmeteredInt64Value(c.Int64())
	case "Int128":
		return interpreter.NewUnmeteredInt128ValueFromBigInt(c)
	case "Int256":
		return interpreter.NewUnmeteredInt256ValueFromBigInt(c)
	case "UInt":
		return interpreter.NewUnmeteredUIntValueFromBigInt(c)
	case "UInt8":
		return interpreter.NewUnmeteredUInt8Value(uint8(c.Uint64()))
	case "UInt16":
		return interpreter.NewUnmeteredUInt16Value(uint16(c.Uint64()))
	case "UInt32":
		return interpreter.NewUnmeteredUInt32Value(uint32(c.Uint64()))
	case "UInt64":
		return interpreter.NewUnmeteredUInt64Value(c.Uint64())
	case "UInt128":
		return interpreter.NewUnmeteredUInt128ValueFromBigInt(c)
	case "UInt256":
		return interpreter.NewUnmeteredUInt256ValueFromBigInt(c)
	case "Word8":
		return interpreter.NewUnmeteredWord8Value(uint8(c.Uint64()))
	case "Word16":
		return interpreter.NewUnmeteredWord16Value(uint16(c.Uint64()))
	case "Word32":
		return interpreter.NewUnmeteredWord32Value(uint32(c.Uint64()))
	case "Word64":
		return interpreter.NewUnmeteredWord64Value(c.Uint64())
	case "Word128":
		return interpreter.NewUnmeteredWord128ValueFromBigInt(c)
	case "Word256":
		return interpreter.NewUnmeteredWord256ValueFromBigInt(c)
	case "Fix64":
		return interpreter.NewUnmeteredFix64Value(c.Int64())
	case "UFix64":
		return interpreter.NewUnmeteredUFix64Value(c.Uint64())
	case "Fix128":
		return interpreter.NewFix128ValueFromBigInt(nil, c)
	case "UFix128":
		return interpreter.NewUFix128ValueFromBigInt(nil, c)
	}
	panic("numv.Make: unknown type " + t.Name)
}

// Raw reads the raw integer of a number value and its type name.
func Raw(v interpreter.Value) (string, *big.Int) {
	switch v := v.(type) {
	case interpreter.IntValue:
		return "Int", new(big.Int).Set(v.BigInt)
	case interpreter.Int8Value:
		return "Int8", big.NewInt(int64(v))
	case interpreter.Int16Value:
		return "Int16", big.NewInt(int64(v))
	case interpreter.Int32Value:
		return "Int32", big.NewInt(int64(v))
	case interpreter.Int64Value:
		return "Int64", big.NewInt(int64(v))
	case interpreter.Int128Value:
		return "Int128", new(big.Int).Set(v.BigInt)
	case interpreter.Int256Value:
		return "Int256", new(big.Int).Set(v.BigInt)
	case interpreter.UIntValue:
		return "UInt", new(big.Int).Set(v.BigInt)
	case interpreter.UInt8Value:
		return "UInt8", new(big.Int).SetUint64(uint64(v))
	case interpreter.UInt16Value:
		return "UInt16", new(big.Int).SetUint64(uint64(v))
	case interpreter.UInt32Value:
		return "UInt32", new(big.Int).SetUint64(uint64(v))
	case interpreter.UInt64Value:
		return "UInt64", new(big.Int).SetUint64(uint64(v))
	case interpreter.UInt128Value:
		return "UInt128", new(big.Int).Set(v.BigInt)
	case interpreter.UInt256Value:
		return "UInt256", new(big.Int).Set(v.BigInt)
	case interpreter.Word8Value:
		return "Word8", new(big.Int).SetUint64(uint64(v))
	case interpreter.Word16Value:
		return "Word16", new(big.Int).SetUint64(uint64(v))
	case interpreter.Word32Value:
		return "Word32", new(big.Int).SetUint64(uint64(v))
	case interpreter.Word64Value:
		return "Word64", new(big.Int).SetUint64(uint64(v))
	case interpreter.Word128Value:
		return "Word128", new(big.Int).Set(v.BigInt)
	case interpreter.Word256Value:
		return "Word256", new(big.Int).Set(v.BigInt)
	case interpreter.Fix64Value:
		return "Fix64", big.NewInt(int64(v))
	case interpreter.UFix64Value:
		return "UFix64", new(big.Int).SetUint64(uint64(v.UFix64Value))
	case interpreter.Fix128Value:
		return "Fix128", v.ToBigInt()
	case interpreter.UFix128Value:
		return "UFix128", v.ToBigInt()
	}
	panic(fmt.Sprintf("numv.Raw: not a number value: %T", v))
}

// Outcome of a guarded call into the code under test.
type Outcome struct {
	Value interpreter.Value
	Panic any // recovered panic value, nil when the call returned
}

// Call runs f, recovering any panic.
func Call(f func() interpreter.Value) (o Outcome) {
	defer func() {
		if r := recover(); r != nil {
			o.Panic = r
		}
	}()
	o.Value = f()
	return
}

// ErrClass classifies a recovered panic value of the arithmetic code.
func ErrClass(p any) string {
	switch e := p.(type) {
	case nil:
		return "ok"
	case *interpreter.OverflowError, interpreter.OverflowError:
		return "overflow"
	case *interpreter.UnderflowError, interpreter.UnderflowError:
		return "underflow"
	case *interpreter.DivisionByZeroError, interpreter.DivisionByZeroError:
		return "divzero"
	case *interpreter.NegativeShiftError, interpreter.NegativeShiftError:
		return "negshift"
	case values.OverflowError, *values.OverflowError:
		return "overflow"
	case values.UnderflowError, *values.UnderflowError:
		return "underflow"
	case values.DivisionByZeroError, *values.DivisionByZeroError:
		return "divzero"
	case values.NegativeShiftError, *values.NegativeShiftError:
		return "negshift"
	case error:
		return fmt.Sprintf("other:%T", e)
	default:
		return fmt.Sprintf("other:%T:%v", p, p)
	}
}

// RangeFail reports whether class is one of the two range-failure kinds the
// statements allow interchangeably.
func RangeFail(class string) bool { return class == "overflow" || class == "underflow" }

var _ = common.MemoryGauge(nil)
