// Package oracle is the exact-arithmetic reference model for the numeric
// properties (C11–C17, C21, C32, C40, C47). It is pure math/big and imports
// nothing from cadence: it must stay an independent statement of what the
// property texts say.
package oracle

import (
	"math/big"
	"math/rand"
)

type Kind int

const (
	SignedInt Kind = iota
	UnsignedInt
	Word
	SignedFix
	UnsignedFix
)

// Type describes one of the 27 numeric types. Values are handled as *raw*
// integers: the integer itself for integer types, value·10^Scale for
// fixed-point types.
type Type struct {
	Name  string
	Kind  Kind
	Bits  int      // 0 = unbounded (Int, UInt)
	Scale int      // decimal places (0, 8, 24)
	Min   *big.Int // nil = unbounded below
	Max   *big.Int // nil = unbounded above
}

func pow2(n int) *big.Int { return new(big.Int).Lsh(big.NewInt(1), uint(n)) }

func Pow10(n int) *big.Int {
	return new(big.Int).Exp(big.NewInt(10), big.NewInt(int64(n)), nil)
}

func signed(name string, bits int) Type {
	return Type{Name: name, Kind: SignedInt, Bits: bits,
		Min: new(big.Int).Neg(pow2(bits - 1)), Max: new(big.Int).Sub(pow2(bits-1), big.NewInt(1))}
}
func unsigned(name string, bits int, k Kind) Type {
	return Type{Name: name, Kind: k, Bits: bits, Min: big.NewInt(0), Max: new(big.Int).Sub(pow2(bits), big.NewInt(1))}
}

// Types is the table of all 27 numeric types.
var Types = []Type{
	{Name: "Int", Kind: SignedInt},
	signed("Int8", 8), signed("Int16", 16), signed("Int32", 32), signed("Int64", 64), signed("Int128", 128), signed("Int256", 256),
	{Name: "UInt", Kind: UnsignedInt, Min: big.NewInt(0)},
	unsigned("UInt8", 8, UnsignedInt), unsigned("UInt16", 16, UnsignedInt), unsigned("UInt32", 32, UnsignedInt),
	unsigned("UInt64", 64, UnsignedInt), unsigned("UInt128", 128, UnsignedInt), unsigned("UInt256", 256, UnsignedInt),
	unsigned("Word8", 8, Word), unsigned("Word16", 16, Word), unsigned("Word32", 32, Word),
	unsigned("Word64", 64, Word), unsigned("Word128", 128, Word), unsigned("Word256", 256, Word),
	{Name: "Fix64", Kind: SignedFix, Bits: 64, Scale: 8, Min: new(big.Int).Neg(pow2(63)), Max: new(big.Int).Sub(pow2(63), big.NewInt(1))},
	{Name: "UFix64", Kind: UnsignedFix, Bits: 64, Scale: 8, Min: big.NewInt(0), Max: new(big.Int).Sub(pow2(64), big.NewInt(1))},
	{Name: "Fix128", Kind: SignedFix, Bits: 128, Scale: 24, Min: new(big.Int).Neg(pow2(127)), Max: new(big.Int).Sub(pow2(127), big.NewInt(1))},
	{Name: "UFix128", Kind: UnsignedFix, Bits: 128, Scale: 24, Min: big.NewInt(0), Max: new(big.Int).Sub(pow2(128), big.NewInt(1))},
}

func ByName(n string) Type {
	for _, t := range Types {
		if t.Name == n {
			return t
		}
	}
	panic("oracle: unknown type " + n)
}

func (t Type) IsInteger() bool { return t.Kind == SignedInt || t.Kind == UnsignedInt || t.Kind == Word }
func (t Type) IsFixed() bool   { return t.Kind == SignedFix || t.Kind == UnsignedFix }
func (t Type) Signed() bool    { return t.Kind == SignedInt || t.Kind == SignedFix }
func (t Type) Bounded() bool   { return t.Bits != 0 }

// Fits reports whether raw value v is representable in t.
func (t Type) Fits(v *big.Int) bool {
	if t.Min != nil && v.Cmp(t.Min) < 0 {
		return false
	}
	if t.Max != nil && v.Cmp(t.Max) > 0 {
		return false
	}
	return true
}

// Wrap reduces v modulo 2^Bits into the type's range (two's complement for
// signed types).
func (t Type) Wrap(v *big.Int) *big.Int {
	if t.Bits == 0 {
		return new(big.Int).Set(v)
	}
	m := pow2(t.Bits)
	r := new(big.Int).Mod(v, m) // Euclidean: 0 <= r < m
	if t.Signed() && r.Cmp(pow2(t.Bits-1)) >= 0 {
		r.Sub(r, m)
	}
	return r
}

// Clamp saturates v to the type's range.
func (t Type) Clamp(v *big.Int) *big.Int {
	if t.Min != nil && v.Cmp(t.Min) < 0 {
		return new(big.Int).Set(t.Min)
	}
	if t.Max != nil && v.Cmp(t.Max) > 0 {
		return new(big.Int).Set(t.Max)
	}
	return new(big.Int).Set(v)
}

// TruncQuo / TruncRem: division truncating toward zero; remainder has the
// dividend's sign. b must be non-zero.
func TruncQuo(a, b *big.Int) *big.Int { return new(big.Int).Quo(a, b) }
func TruncRem(a, b *big.Int) *big.Int { return new(big.Int).Rem(a, b) }

// FloorDivPow2 is floor(x / 2^n).
func FloorDivPow2(x *big.Int, n uint) *big.Int { return new(big.Int).Rsh(x, n) } // big.Int.Rsh is arithmetic (floor)

// ToTwos returns the two's-complement bit pattern of v at width bits as a
// non-negative integer.
func ToTwos(v *big.Int, bits int) *big.Int { return new(big.Int).Mod(v, pow2(bits)) }

// FromTwos interprets pattern p (0 <= p < 2^bits) for type t.
func (t Type) FromTwos(p *big.Int) *big.Int { return t.Wrap(p) }

// RatOfRaw converts a raw value of type t to the rational it denotes.
func (t Type) RatOfRaw(raw *big.Int) *big.Rat {
	return new(big.Rat).SetFrac(new(big.Int).Set(raw), Pow10(t.Scale))
}

// Rounding rules (names as in the language).
type Rounding int

const (
	TowardZero Rounding = iota
	AwayFromZero
	NearestHalfAway
	NearestHalfEven
)

var Roundings = []Rounding{TowardZero, AwayFromZero, NearestHalfAway, NearestHalfEven}

func (r Rounding) String() string {
	return [...]string{"towardZero", "awayFromZero", "nearestHalfAway", "nearestHalfEven"}[r]
}

// RoundRat rounds q to an integer by rule.
func RoundRat(q *big.Rat, rule Rounding) *big.Int {
	num, den := q.Num(), q.Denom()                          // den > 0
	quo, rem := new(big.Int).QuoRem(num, den, new(big.Int)) // truncated
	if rem.Sign() == 0 {
		return quo
	}
	sign := int64(num.Sign())
	away := new(big.Int).Add(quo, big.NewInt(sign))
	switch rule {
	case TowardZero:
		return quo
	case AwayFromZero:
		return away
	}
	// compare 2*|rem| with den
	twice := new(big.Int).Mul(new(big.Int).Abs(rem), big.NewInt(2))
	c := twice.Cmp(den)
	if c > 0 {
		return away
	}
	if c < 0 {
		return quo
	}
	if rule == NearestHalfAway {
		return away
	}
	// half even
	if quo.Bit(0) == 0 {
		return quo
	}
	return away
}

// ScaleRat returns round_rule(q · 10^scale): the raw value at scale.
func ScaleRat(q *big.Rat, scale int, rule Rounding) *big.Int {
	s := new(big.Rat).Mul(q, new(big.Rat).SetInt(Pow10(scale)))
	return RoundRat(s, rule)
}

// ---- boundary-biased generation ---------------------------------------------

// Pool returns the boundary pool of raw values for t (all representable), as in
// DESIGN §3.1.
func (t Type) Pool() []*big.Int {
	var out []*big.Int
	seen := map[string]bool{}
	add := func(v *big.Int) {
		if !t.Fits(v) {
			return
		}
		k := v.String()
		if seen[k] {
			return
		}
		seen[k] = true
		out = append(out, new(big.Int).Set(v))
	}
	bits := t.Bits
	if bits == 0 {
		bits = 320 // unbounded: go beyond 256 bits
	}
	for _, s := range []int64{0, 1, 2, 3, -1, -2, -3, 10, -10, 100, 255, 256} {
		add(big.NewInt(s))
	}
	one := big.NewInt(1)
	if t.Min != nil {
		for d := int64(0); d <= 2; d++ {
			add(new(big.Int).Add(t.Min, big.NewInt(d)))
		}
	}
	if t.Max != nil {
		for d := int64(0); d <= 2; d++ {
			add(new(big.Int).Sub(t.Max, big.NewInt(d)))
		}
	}
	for k := 1; k <= bits; k++ {
		p := pow2(k)
		for _, v := range []*big.Int{p, new(big.Int).Sub(p, one), new(big.Int).Add(p, one)} {
			add(v)
			add(new(big.Int).Neg(v))
		}
	}
	// square-root neighbourhood of the bounds
	if t.Max != nil {
		r := new(big.Int).Sqrt(t.Max)
		for d := int64(-1); d <= 1; d++ {
			v := new(big.Int).Add(r, big.NewInt(d))
			add(v)
			add(new(big.Int).Neg(v))
		}
	}
	if t.IsFixed() {
		for k := 0; k <= 40; k++ {
			p := Pow10(k)
			for _, v := range []*big.Int{p, new(big.Int).Sub(p, one), new(big.Int).Add(p, one), new(big.Int).Mul(p, big.NewInt(5))} {
				add(v)
				add(new(big.Int).Neg(v))
			}
		}
		// sqrt(max)·10^(scale/2) neighbourhood: a·b/10^scale near max
		if t.Max != nil {
			r := new(big.Int).Sqrt(new(big.Int).Mul(t.Max, Pow10(t.Scale)))
			for d := int64(-2); d <= 2; d++ {
				v := new(big.Int).Add(r, big.NewInt(d))
				add(v)
				add(new(big.Int).Neg(v))
			}
		}
	}
	return out
}

// Random draws a raw value of t: uniformly random bit length then random bits,
// random sign; always representable.
func (t Type) Random(r *rand.Rand) *big.Int {
	bits := t.Bits
	if bits == 0 {
		bits = 320
	}
	for {
		n := r.Intn(bits + 1)
		v := new(big.Int)
		if n > 0 {
			v.Rand(r, pow2(n))
		}
		if t.Signed() && r.Intn(2) == 0 {
			v.Neg(v)
		}
		if t.Fits(v) {
			return v
		}
	}
}

// Picker draws operands pool×pool / pool×random / random×random (4:3:3).
type Picker struct {
	T    Type
	pool []*big.Int
}

func NewPicker(t Type) *Picker { return &Picker{T: t, pool: t.Pool()} }

func (p *Picker) One(r *rand.Rand) *big.Int {
	if r.Intn(10) < 6 {
		return p.pool[r.Intn(len(p.pool))]
	}
	return p.T.Random(r)
}

func (p *Picker) PoolValues() []*big.Int { return p.pool }

// Pair draws two operands; with some probability the second is derived from the
// first so that sums/products/quotients land near a bound.
func (p *Picker) Pair(r *rand.Rand) (*big.Int, *big.Int) {
	a := p.One(r)
	switch r.Intn(10) {
	case 0, 1: // b such that a+b or a-b is near a bound
		if p.T.Max != nil {
			bound := p.T.Max
			if r.Intn(2) == 0 && p.T.Min != nil {
				bound = p.T.Min
			}
			b := new(big.Int).Sub(bound, a)
			b.Add(b, big.NewInt(int64(r.Intn(5)-2)))
			if r.Intn(2) == 0 {
				b.Neg(b)
			}
			if p.T.Fits(b) {
				return a, b
			}
		}
	case 2, 3: // b such that a*b is near a bound
		if p.T.Max != nil && a.Sign() != 0 {
			bound := p.T.Max
			if r.Intn(2) == 0 && p.T.Min != nil && p.T.Min.Sign() != 0 {
				bound = p.T.Min
			}
			num := new(big.Int).Set(bound)
			if p.T.IsFixed() {
				num.Mul(num, Pow10(p.T.Scale))
			}
			b := new(big.Int).Quo(num, a)
			b.Add(b, big.NewInt(int64(r.Intn(5)-2)))
			if p.T.Fits(b) {
				return a, b
			}
		}
	}
	return a, p.One(r)
}
