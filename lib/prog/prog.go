// Package prog is the common currency between the program/history generators
// (lib/*gen packages) and the properties that consume *any* executable program
// (C01, C24, C31, C33, C34): a History is a list of steps (contract deployments,
// transactions, scripts) run in order against one host.
package prog

import (
	"fmt"
	"strings"

	"github.com/onflow/cadence/common"

	"verif/lib/host"
)

// Step kinds.
const (
	Deploy = "deploy" // deploy contract Name with Source to account Signers[0]
	Update = "update" // update contract Name
	Tx     = "tx"
	Script = "script"
)

// Step is one execution.
type Step struct {
	Kind    string   `json:"kind"`
	Name    string   `json:"name,omitempty"`
	Source  string   `json:"source"`
	Signers []uint64 `json:"signers,omitempty"` // account numbers (host.Addr)
	Args    []string `json:"args,omitempty"`    // JSON-CDC encoded arguments
	// MayFail marks steps whose failure is an intended outcome (user errors).
	MayFail bool `json:"may_fail,omitempty"`
}

// History is an executable multi-step program.
type History struct {
	Steps    []Step   `json:"steps"`
	Features []string `json:"features,omitempty"` // feature classes used (for evidence histograms)
	Origin   string   `json:"origin,omitempty"`   // generator name
}

func (h History) String() string {
	var sb strings.Builder
	for i, s := range h.Steps {
		fmt.Fprintf(&sb, "--- step %d %s %s signers=%v args=%v\n%s\n", i, s.Kind, s.Name, s.Signers, s.Args, s.Source)
	}
	return sb.String()
}

// Hash identifies the history.
func (h History) Key() string { return h.String() }

func signers(s Step) []common.Address {
	out := make([]common.Address, len(s.Signers))
	for i, n := range s.Signers {
		out[i] = host.Addr(n)
	}
	return out
}

func args(s Step) [][]byte {
	out := make([][]byte, len(s.Args))
	for i, a := range s.Args {
		out[i] = []byte(a)
	}
	return out
}

// RunStep executes one step on h.
func RunStep(h *host.Host, s Step, o host.Options) host.Result {
	switch s.Kind {
	case Deploy:
		r := h.Deploy(host.Addr(s.Signers[0]), s.Name, s.Source, o.Engine)
		return r
	case Update:
		return h.Update(host.Addr(s.Signers[0]), s.Name, s.Source, o.Engine)
	case Tx:
		return h.Tx(s.Source, args(s), signers(s), o)
	case Script:
		return h.Script(s.Source, args(s), o)
	}
	panic("prog: unknown step kind " + s.Kind)
}

// Run executes the whole history on a fresh fork of base (or a new host when
// base is nil) and returns the per-step results and the final host.
func Run(base *host.Host, hist History, o host.Options) ([]host.Result, *host.Host) {
	var h *host.Host
	if base != nil {
		h = base.Fork()
	} else {
		h = host.New()
	}
	out := make([]host.Result, 0, len(hist.Steps))
	for _, s := range hist.Steps {
		out = append(out, RunStep(h, s, o))
	}
	return out, h
}
