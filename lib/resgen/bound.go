package resgen

import (
	"fmt"
	"strings"

	"verif/lib/prog"
)

// BoundContract: two concrete types per interface, for "bound function through a
// reference" scenarios of C04: `let f = ref.method` now, relocate/replace, call `f()` later.
const BoundContract = `access(all) contract C {
  access(all) resource interface I { access(all) var n: Int; access(all) fun hello(): String }
  access(all) resource Foo: I {
    access(all) var n: Int
    init(_ n: Int) { self.n = n }
    access(all) fun hello(): String { return "foo".concat(self.n.toString()) }
  }
  access(all) resource Bar: I {
    access(all) var n: Int
    init(_ n: Int) { self.n = n }
    access(all) fun hello(): String { return "bar".concat(self.n.toString()) }
  }
  access(all) struct interface SI { access(all) var n: Int; access(all) fun hello(): String }
  access(all) struct SFoo: SI {
    access(all) var n: Int
    init(_ n: Int) { self.n = n }
    access(all) fun hello(): String { return "sfoo".concat(self.n.toString()) }
  }
  access(all) struct SBar: SI {
    access(all) var n: Int
    init(_ n: Int) { self.n = n }
    access(all) fun hello(): String { return "sbar".concat(self.n.toString()) }
  }
  access(all) fun mkFoo(_ n: Int): @Foo { return <- create Foo(n) }
  access(all) fun mkBar(_ n: Int): @Bar { return <- create Bar(n) }
  access(all) fun id(_ r: &{I}): &{I} { return r }
}`

// GenBoundCase draws a bound-function scenario (reported as a RefCase so that the
// C04 judge applies unchanged).
//
// Rule (statement + interpreter.storageReferenceWithNarrowedType + the existing test
// TestInterpretStorageReferenceBoundFunction): a function bound through a storage reference
// runs on the value stored at the path when it is CALLED, provided that value still has the
// concrete type the path held when the function was BOUND; otherwise (other type, nothing
// stored) the call fails with a DereferenceError (ReferencedValueChangedError when the path is
// empty - observed on both engines of the unchanged tree). A direct call through the reference only
// needs the borrow type to match. A function bound through an ephemeral reference fails with
// an invalidated-reference error iff the resource moved in between.
func GenBoundCase(s Src) *RefCase {
	c := &RefCase{Shape: "(bound)", Target: "root", Through: true}
	var lines []string
	emit := func(f string, a ...any) { lines = append(lines, "    "+fmt.Sprintf(f, a...)) }
	res := chance(s, 2, 3)
	n0 := 1 + s.Intn(9)
	concrete, other, iface, anyT, mk, mkOther, word, wordOther := "C.SFoo", "C.SBar", "{C.SI}", "AnyStruct", "C.SFoo", "C.SBar", "sfoo", "sbar"
	if res {
		concrete, other, iface, anyT, mk, mkOther, word, wordOther = "C.Foo", "C.Bar", "{C.I}", "AnyResource", "C.mkFoo", "C.mkBar", "foo", "bar"
	}
	_ = other
	mv := ""
	if res {
		mv = "<- "
	}
	ann := func(t string) string {
		if res {
			return "@" + t
		}
		return t
	}
	ephemeral := res && chance(s, 1, 3)
	borrows := []string{concrete, iface, anyT}
	bt := borrows[s.Intn(3)]
	bound := !chance(s, 1, 4)
	c.Route = "bound-function"
	if !bound {
		c.Route = "direct-call"
	}
	c.Use = "call:&" + bt
	call := "hello"
	if bt == anyT {
		call = "getType"
	}
	result := func(w string, n int) string {
		if bt == anyT {
			return fmt.Sprintf("%q", "A.0000000000000001."+map[string]string{"foo": "C.Foo", "bar": "C.Bar", "sfoo": "C.SFoo", "sbar": "C.SBar"}[w])
		}
		return fmt.Sprintf("%q", fmt.Sprintf("%s%d", w, n))
	}
	post := func(e string) string {
		if bt == anyT {
			return e + ".identifier"
		}
		return e
	}
	c.Logs = []string{`"pre"`}

	if ephemeral {
		c.Holder = "var"
		emit("var r <- %s(%d)", mk, n0)
		if bt == iface && chance(s, 1, 2) {
			emit("let ref = C.id(&r as &%s)", bt)
		} else {
			emit("let ref = &r as &%s", bt)
		}
		if bound {
			emit("let f = ref.%s", call)
		}
		owners := []string{}
		relocs := []string{"none", "move-var", "function-pass", "into-array", "destroy", "swap"}
		c.Reloc = relocs[s.Intn(len(relocs))]
		if !bound {
			// a direct use of `ref` after a local move is rejected statically: only the control
			c.Reloc = "none"
		}
		moved := true
		switch c.Reloc {
		case "none":
			moved = false
			owners = append(owners, "r")
		case "move-var":
			emit("let r2 <- r")
			owners = append(owners, "r2")
		case "function-pass":
			emit("let r2 <- pass(<- r)")
			owners = append(owners, "r2")
		case "into-array":
			emit("let c2: @[%s] <- [<- r]", concrete)
			owners = append(owners, "c2")
		case "destroy":
			emit("destroy r")
		case "swap":
			emit("var other <- %s(77)", mk)
			emit("r <-> other")
			owners = append(owners, "r", "other")
		}
		c.Relation = "none"
		if moved {
			c.Relation = "self"
			c.Invalid, c.FailKind = true, "InvalidatedResourceReferenceError"
		}
		emit(`log("pre")`)
		if bound {
			emit("log(%s)", post("f()"))
		} else {
			emit("log(%s)", post("ref."+call+"()"))
		}
		if !c.Invalid {
			c.Logs = append(c.Logs, result(word, n0), `"post"`)
		}
		emit(`log("post")`)
		for _, o := range owners {
			emit("destroy %s", o)
		}
	} else {
		c.Holder = "storage"
		emit("a.storage.save(%s%s(%d), to: /storage/x)", mv, mk, n0)
		emit("let ref = a.storage.borrow<&%s>(from: /storage/x)!", bt)
		if bound {
			emit("let f = ref.%s", call)
		}
		relocs := []string{"none", "replace-same-type", "replace-other-conforming-type", "remove", "load-and-restore"}
		c.Reloc = relocs[s.Intn(len(relocs))]
		n1 := 10 + s.Intn(80)
		take := func() {
			if res {
				emit("let old <- a.storage.load<%s>(from: /storage/x)!", ann(concrete))
			} else {
				emit("let old = a.storage.load<%s>(from: /storage/x)!", concrete)
			}
		}
		c.Relation = "self"
		cleanupOld := res
		expect := result(word, n0)
		switch c.Reloc {
		case "none":
			c.Relation = "none"
			cleanupOld = false
		case "replace-same-type":
			take()
			emit("a.storage.save(%s%s(%d), to: /storage/x)", mv, mk, n1)
			expect = result(word, n1)
		case "replace-other-conforming-type":
			take()
			emit("a.storage.save(%s%s(%d), to: /storage/x)", mv, mkOther, n1)
			// bound: the stored type differs from the bind-time type; direct: only the borrow type counts
			if bound || bt == concrete {
				c.Invalid, c.FailKind = true, "DereferenceError"
			} else {
				expect = result(wordOther, n1)
			}
		case "remove":
			take()
			c.Invalid, c.FailKind = true, "DereferenceError"
			if bound {
				// (both engines report the emptied path of a bound function's receiver as "referenced value has been changed")
				c.FailKind = "ReferencedValueChangedError"
			}
		case "load-and-restore":
			take()
			emit("a.storage.save(%sold, to: /storage/x)", mv)
			cleanupOld = false
		}
		emit(`log("pre")`)
		if bound {
			emit("log(%s)", post("f()"))
		} else {
			emit("log(%s)", post("ref."+call+"()"))
		}
		if !c.Invalid {
			c.Logs = append(c.Logs, expect, `"post"`)
		}
		emit(`log("post")`)
		if cleanupOld {
			emit("destroy old")
		}
	}
	src := "import C from 0x1\naccess(all) fun pass(_ r: @C.Foo): @C.Foo { return <- r }\ntransaction {\n  prepare(a: auth(Storage) &Account) {\n" +
		strings.Join(lines, "\n") + "\n  }\n}\n"
	c.Prog = prog.History{Origin: "resgen/bound", Steps: []prog.Step{
		{Kind: prog.Deploy, Name: "C", Source: BoundContract, Signers: []uint64{1}},
		{Kind: prog.Tx, Source: src, Signers: []uint64{1}, MayFail: c.Invalid},
	}}
	return c
}
