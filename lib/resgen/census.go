package resgen

import (
	"encoding/binary"
	"fmt"
	"sort"
	"strings"

	"github.com/onflow/atree"

	"github.com/onflow/cadence/common"
	"github.com/onflow/cadence/interpreter"
	"github.com/onflow/cadence/runtime"

	"verif/lib/host"
)

// roLedger serves a frozen copy of the registers to a fresh runtime.Storage.
type roLedger struct{ l *host.Ledger }

func (r roLedger) GetValue(owner, key []byte) ([]byte, error) {
	return r.l.Values[host.RegKey(owner, key)], nil
}
func (r roLedger) SetValue(owner, key, value []byte) error {
	return fmt.Errorf("census: ledger is read-only")
}
func (r roLedger) ValueExists(owner, key []byte) (bool, error) {
	return len(r.l.Values[host.RegKey(owner, key)]) > 0, nil
}
func (r roLedger) AllocateSlabIndex(owner []byte) (atree.SlabIndex, error) {
	var i atree.SlabIndex
	n := r.l.Indices[string(owner)] + 1
	r.l.Indices[string(owner)] = n
	binary.BigEndian.PutUint64(i[:], n)
	return i, nil
}

// CensusResult is what a walk over a committed ledger found.
type CensusResult struct {
	// UUIDs of every resource composite found anywhere (with multiplicity), sorted.
	UUIDs []uint64
	// Canon maps a location ("<acct>/storage/<path>", "vault/<key>") to the
	// canonical form (see Val.Canon) of the value stored there.
	Canon map[string]string
}

// TakeCensus decodes the committed ledger in a fresh runtime.Storage (nothing is
// shared with the execution that produced it) and walks every storage path of
// the given accounts plus the contract domain, recursively through composites
// (including attachments), arrays, dictionaries and optionals.
func TakeCensus(l *host.Ledger, u *Universe, accounts []uint64) (res CensusResult, err error) {
	defer func() {
		if r := recover(); r != nil {
			err = fmt.Errorf("census: panic while walking the ledger: %v", r)
		}
	}()
	res.Canon = map[string]string{}
	storage := runtime.NewStorage(roLedger{l.Clone()}, nil, nil, runtime.StorageConfig{})
	inter, ierr := interpreter.NewInterpreter(nil, common.StringLocation("census"), &interpreter.Config{Storage: storage})
	if ierr != nil {
		return res, ierr
	}
	w := &walker{inter: inter, u: u}
	for _, a := range accounts {
		addr := host.Addr(a)
		for _, dom := range []common.StorageDomain{common.StorageDomainPathStorage, common.StorageDomainContract,
			common.StorageDomainPathPublic, common.StorageDomainPathPrivate, common.StorageDomainInbox} {
			m := storage.GetDomainStorageMap(inter, addr, dom, false)
			if m == nil {
				continue
			}
			it := m.Iterator()
			for {
				k, v := it.Next(nil)
				if k == nil {
					break
				}
				key := fmt.Sprint(k)
				if sk, ok := k.(interpreter.StringAtreeValue); ok {
					key = string(sk)
				}
				switch dom {
				case common.StorageDomainPathStorage:
					var b strings.Builder
					w.canon(v, &b)
					res.Canon[fmt.Sprintf("%d/storage/%s", a, key)] = b.String()
				case common.StorageDomainContract:
					// the contract value: its vault entries are locations of their own
					if c, ok := v.(*interpreter.CompositeValue); ok {
						if d, ok := c.GetField(inter, "vault").(*interpreter.DictionaryValue); ok {
							d.IterateReadOnly(inter, func(dk, dv interpreter.Value) bool {
								var b strings.Builder
								w.canon(dv, &b)
								res.Canon[fmt.Sprintf("vault/%v", dk)] = b.String()
								return true
							})
						}
					}
				}
				w.uuids(v)
			}
		}
	}
	sort.Slice(w.found, func(i, j int) bool { return w.found[i] < w.found[j] })
	res.UUIDs = w.found
	return res, nil
}

type walker struct {
	inter *interpreter.Interpreter
	u     *Universe
	found []uint64
}

// uuids walks generically: every field of every composite, every element.
func (w *walker) uuids(v interpreter.Value) {
	switch v := v.(type) {
	case *interpreter.CompositeValue:
		if v.Kind == common.CompositeKindResource {
			if id, ok := v.GetField(w.inter, "uuid").(interpreter.UInt64Value); ok {
				w.found = append(w.found, uint64(id))
			} else {
				panic(fmt.Sprintf("resource %s without uuid", v.QualifiedIdentifier))
			}
		}
		v.ForEachField(w.inter, func(_ string, fv interpreter.Value) bool {
			w.uuids(fv)
			return true
		})
	case *interpreter.ArrayValue:
		v.Iterate(w.inter, func(e interpreter.Value) bool {
			w.uuids(e)
			return true
		}, false)
	case *interpreter.DictionaryValue:
		v.IterateReadOnly(w.inter, func(_, dv interpreter.Value) bool {
			w.uuids(dv)
			return true
		})
	case *interpreter.SomeValue:
		w.uuids(v.InnerValue())
	}
}

func (w *walker) canon(v interpreter.Value, b *strings.Builder) {
	switch v := v.(type) {
	case *interpreter.CompositeValue:
		name := v.QualifiedIdentifier
		name = strings.TrimPrefix(name, ContractName+".")
		var rt *ResType
		for _, r := range w.u.Res {
			if r.Name == name {
				rt = r
			}
		}
		if rt == nil {
			fmt.Fprintf(b, "?%s", v.QualifiedIdentifier)
			return
		}
		fmt.Fprintf(b, "%s#%v(n=%v)", name, v.GetField(w.inter, "uuid"), v.GetField(w.inter, "n"))
		if len(rt.Fields) > 0 {
			b.WriteString("{")
			for i, f := range rt.Fields {
				if i > 0 {
					b.WriteString(",")
				}
				b.WriteString(f.Name + ":")
				fv := v.GetField(w.inter, f.Name)
				if fv == nil {
					b.WriteString("<missing>")
				} else {
					w.canon(fv, b)
				}
			}
			b.WriteString("}")
		}
		// attachments: composite-kinded fields of kind attachment
		var atts []string
		v.ForEachField(w.inter, func(_ string, fv interpreter.Value) bool {
			if c, ok := fv.(*interpreter.CompositeValue); ok && c.Kind == common.CompositeKindAttachment {
				atts = append(atts, fmt.Sprintf("%s(y=%v)", strings.TrimPrefix(c.QualifiedIdentifier, ContractName+"."), c.GetField(w.inter, "y")))
			}
			return true
		})
		if len(atts) > 0 {
			sort.Strings(atts)
			b.WriteString("<" + strings.Join(atts, ",") + ">")
		}
	case *interpreter.SomeValue:
		b.WriteString("some(")
		w.canon(v.InnerValue(), b)
		b.WriteString(")")
	case interpreter.NilValue:
		b.WriteString("nil")
	case *interpreter.ArrayValue:
		b.WriteString("[")
		first := true
		v.Iterate(w.inter, func(e interpreter.Value) bool {
			if !first {
				b.WriteString(",")
			}
			first = false
			w.canon(e, b)
			return true
		}, false)
		b.WriteString("]")
	case *interpreter.DictionaryValue:
		type kv struct {
			k int
			s string
		}
		var kvs []kv
		v.IterateReadOnly(w.inter, func(dk, dv interpreter.Value) bool {
			var sb strings.Builder
			w.canon(dv, &sb)
			n := 0
			fmt.Sscan(fmt.Sprint(dk), &n)
			kvs = append(kvs, kv{n, sb.String()})
			return true
		})
		sort.Slice(kvs, func(i, j int) bool { return kvs[i].k < kvs[j].k })
		b.WriteString("{")
		for i, e := range kvs {
			if i > 0 {
				b.WriteString(",")
			}
			fmt.Fprintf(b, "%d:%s", e.k, e.s)
		}
		b.WriteString("}")
	default:
		fmt.Fprintf(b, "?%T", v)
	}
}
