package resgen

import (
	"fmt"
	"strings"

	"verif/lib/prog"
)

// ---- event declarations with parameters of every exportable kind (C48) -------------

// ETy is a type of an event parameter.
type ETy struct {
	K    string // prim | opt | arr | carr | dict | struct | enum
	Name string // primitive or composite name
	E    *ETy   // element / value type
	Key  *ETy   // dictionary key type
	N    int    // constant array size
}

const evPrefix = "A.0000000000000001.E."

// Src prints the type as written inside contract E; q qualifies composites ("E." outside).
func (t *ETy) Src(q string) string {
	switch t.K {
	case "prim":
		return t.Name
	case "opt":
		return t.E.Src(q) + "?"
	case "arr":
		return "[" + t.E.Src(q) + "]"
	case "carr":
		return fmt.Sprintf("[%s; %d]", t.E.Src(q), t.N)
	case "dict":
		return "{" + t.Key.Src(q) + ": " + t.E.Src(q) + "}"
	default:
		return q + t.Name
	}
}

// ID is the cadence type ID of the type.
func (t *ETy) ID() string {
	switch t.K {
	case "prim":
		return t.Name
	case "opt":
		return "(" + t.E.ID() + ")?"
	case "arr":
		return "[" + t.E.ID() + "]"
	case "carr":
		return fmt.Sprintf("[%s;%d]", t.E.ID(), t.N)
	case "dict":
		return "{" + t.Key.ID() + ":" + t.E.ID() + "}"
	default:
		return evPrefix + t.Name
	}
}

// Kind label for evidence.
func (t *ETy) Kind() string {
	if t.K == "prim" {
		switch {
		case strings.Contains(t.Name, "Fix"):
			return "fixed"
		case strings.HasPrefix(t.Name, "Int") || strings.HasPrefix(t.Name, "UInt") || strings.HasPrefix(t.Name, "Word"):
			return "integer"
		case strings.HasSuffix(t.Name, "Path"):
			return "path"
		}
		return strings.ToLower(t.Name)
	}
	return t.K
}

// EVal is an expected value: the literal to write and the tree to compare with.
type EVal struct {
	T      *ETy
	Lit    string  // source expression (inside contract E / with q outside)
	S      string  // scalar: expected String() of the cadence value
	Nil    bool    // optional: empty
	In     *EVal   // optional: inner
	El     []*EVal // array elements / struct fields (a, b) / enum raw value
	Keys   []*EVal // dictionary keys (parallel to El)
	Fields []string
}

var evPrims = []string{"Int", "Int8", "Int64", "Int128", "UInt8", "UInt64", "UInt256", "Word8", "Word64", "Fix64", "UFix64",
	"String", "Bool", "Address", "Character", "StoragePath", "PublicPath", "Type"}

var evKeyPrims = []string{"String", "Int", "Bool", "Address", "UInt8"}

func genETy(s Src, depth int) *ETy {
	k := s.Intn(10)
	if depth >= 2 && k >= 5 {
		k = s.Intn(5)
	}
	switch {
	case k < 5:
		return &ETy{K: "prim", Name: evPrims[s.Intn(len(evPrims))]}
	case k == 5:
		e := genETy(s, depth+1)
		if e.K == "opt" {
			return e
		}
		return &ETy{K: "opt", E: e}
	case k == 6:
		return &ETy{K: "arr", E: genETy(s, depth+1)}
	case k == 7:
		if chance(s, 1, 2) {
			return &ETy{K: "carr", E: genETy(s, depth+1), N: 1 + s.Intn(2)}
		}
		return &ETy{K: "dict", Key: &ETy{K: "prim", Name: evKeyPrims[s.Intn(len(evKeyPrims))]}, E: genETy(s, depth+1)}
	case k == 8:
		return &ETy{K: "struct", Name: "S"}
	default:
		// (enums are not valid event parameter types; T nests a struct and an array)
		return &ETy{K: "struct", Name: "T"}
	}
}

func quoteCadence(x string) string {
	var b strings.Builder
	b.WriteByte('"')
	for _, r := range x {
		switch {
		case r == '\n':
			b.WriteString(`\n`)
		case r == '\t':
			b.WriteString(`\t`)
		case r == '\\':
			b.WriteString(`\\`)
		case r == '"':
			b.WriteString(`\"`)
		case r == 0:
			b.WriteString(`\0`)
		case 0x20 <= r && r <= 0x7e:
			b.WriteRune(r)
		default:
			fmt.Fprintf(&b, `\u{%x}`, r)
		}
	}
	b.WriteByte('"')
	return b.String()
}

func genEVal(s Src, t *ETy, q string) *EVal {
	v := &EVal{T: t}
	pick := func(xs ...[2]string) {
		x := xs[s.Intn(len(xs))]
		v.Lit, v.S = x[0], x[1]
	}
	switch t.K {
	case "prim":
		switch t.Name {
		case "Int":
			pick([2]string{"0", "0"}, [2]string{"-7", "-7"}, [2]string{"123456789012345678901234567890", "123456789012345678901234567890"})
		case "Int8":
			pick([2]string{"-128", "-128"}, [2]string{"127", "127"}, [2]string{"5", "5"})
		case "Int64":
			pick([2]string{"-9223372036854775808", "-9223372036854775808"}, [2]string{"42", "42"})
		case "Int128":
			pick([2]string{"170141183460469231731687303715884105727", "170141183460469231731687303715884105727"}, [2]string{"-1", "-1"})
		case "UInt8":
			pick([2]string{"255", "255"}, [2]string{"0", "0"})
		case "UInt64":
			pick([2]string{"18446744073709551615", "18446744073709551615"}, [2]string{"9", "9"})
		case "UInt256":
			pick([2]string{"115792089237316195423570985008687907853269984665640564039457584007913129639935", "115792089237316195423570985008687907853269984665640564039457584007913129639935"}, [2]string{"1", "1"})
		case "Word8":
			pick([2]string{"200", "200"}, [2]string{"0", "0"})
		case "Word64":
			pick([2]string{"18446744073709551615", "18446744073709551615"}, [2]string{"3", "3"})
		case "Fix64":
			pick([2]string{"-1.5", "-1.50000000"}, [2]string{"0.00000001", "0.00000001"}, [2]string{"92233720368.54775807", "92233720368.54775807"})
		case "UFix64":
			pick([2]string{"2.25", "2.25000000"}, [2]string{"0.0", "0.00000000"}, [2]string{"184467440737.09551615", "184467440737.09551615"})
		case "String":
			x := []string{"", "abc", "é\n\"q\"", "中文 \U0001F600", "tab\there"}[s.Intn(5)]
			v.Lit, v.S = quoteCadence(x), quoteCadence(x)
		case "Bool":
			pick([2]string{"true", "true"}, [2]string{"false", "false"})
		case "Address":
			pick([2]string{"0x1", "0x0000000000000001"}, [2]string{"0xffffffffffffffff", "0xffffffffffffffff"})
		case "Character":
			x := []string{"a", "é", "\U0001F600"}[s.Intn(3)]
			v.Lit, v.S = quoteCadence(x), quoteCadence(x)
		case "StoragePath":
			pick([2]string{"/storage/foo", "/storage/foo"}, [2]string{"/storage/a_1", "/storage/a_1"})
		case "PublicPath":
			pick([2]string{"/public/bar", "/public/bar"})
		case "Type":
			pick([2]string{"Type<Int>()", "Type<Int>()"}, [2]string{"Type<[String]>()", "Type<[String]>()"}, [2]string{"Type<" + q + "S>()", "Type<" + evPrefix + "S>()"})
		}
	case "opt":
		if chance(s, 1, 3) {
			v.Nil, v.Lit = true, "nil"
		} else {
			v.In = genEVal(s, t.E, q)
			v.Lit = v.In.Lit
		}
	case "arr", "carr":
		n := s.Intn(3)
		if t.K == "carr" {
			n = t.N
		}
		var parts []string
		for i := 0; i < n; i++ {
			e := genEVal(s, t.E, q)
			v.El = append(v.El, e)
			parts = append(parts, e.Lit)
		}
		v.Lit = "[" + strings.Join(parts, ", ") + "]"
	case "dict":
		n := s.Intn(3)
		seen := map[string]bool{}
		var parts []string
		for i := 0; i < n; i++ {
			k := genEVal(s, t.Key, q)
			if seen[k.S] {
				continue
			}
			seen[k.S] = true
			e := genEVal(s, t.E, q)
			v.Keys = append(v.Keys, k)
			v.El = append(v.El, e)
			parts = append(parts, k.Lit+": "+e.Lit)
		}
		v.Lit = "{" + strings.Join(parts, ", ") + "}"
	case "struct":
		if t.Name == "T" {
			a := genEVal(s, &ETy{K: "struct", Name: "S"}, q)
			b := genEVal(s, &ETy{K: "arr", E: &ETy{K: "prim", Name: "UInt8"}}, q)
			v.El, v.Fields = []*EVal{a, b}, []string{"s", "xs"}
			v.Lit = fmt.Sprintf("%sT(s: %s, xs: %s)", q, a.Lit, b.Lit)
			break
		}
		a := genEVal(s, &ETy{K: "prim", Name: "Int"}, q)
		b := genEVal(s, &ETy{K: "opt", E: &ETy{K: "prim", Name: "String"}}, q)
		v.El, v.Fields = []*EVal{a, b}, []string{"a", "b"}
		v.Lit = fmt.Sprintf("%sS(a: %s, b: %s)", q, a.Lit, b.Lit)
	case "enum":
		i := s.Intn(3)
		v.Lit = q + "Color." + []string{"red", "green", "blue"}[i]
		v.El = []*EVal{{T: &ETy{K: "prim", Name: "UInt8"}, S: fmt.Sprint(i)}}
		v.Fields = []string{"rawValue"}
	}
	return v
}

// EvDecl is a declared event.
type EvDecl struct {
	Contract string // E or F
	Name     string
	Params   []string
	Types    []*ETy
}

func (d *EvDecl) TypeID() string {
	if d.Contract == "F" {
		return "A.0000000000000002.F." + d.Name
	}
	return evPrefix + d.Name
}

// ExpEmit is one expected event emission.
type ExpEmit struct {
	Decl *EvDecl
	Args []*EVal
	Site string // how it was emitted (class label)
}

// EventCase is a generated program emitting declared events, with the expected payloads in order.
type EventCase struct {
	Prog   prog.History
	Expect []ExpEmit // events of the last step (the transaction), in program order
	Decls  []*EvDecl

	relays []string
}

// GenEventCase draws contracts E (0x1) and F (0x2, imports E) and a transaction.
func GenEventCase(s Src) *EventCase {
	c := &EventCase{}
	nev := 1 + s.Intn(4)
	for i := 0; i < nev; i++ {
		d := &EvDecl{Contract: "E", Name: fmt.Sprintf("Ev%d", i)}
		np := s.Intn(6)
		for p := 0; p < np; p++ {
			// parameter names are not in alphabetical order of declaration (p3 before p1 ...)
			d.Params = append(d.Params, fmt.Sprintf("%c%d", 'z'-rune(p), p))
			d.Types = append(d.Types, genETy(s, 0))
		}
		c.Decls = append(c.Decls, d)
	}
	fdecl := &EvDecl{Contract: "F", Name: "Relayed", Params: []string{"who", "n"}, Types: []*ETy{{K: "prim", Name: "Address"}, {K: "opt", E: &ETy{K: "prim", Name: "Int"}}}}
	c.Decls = append(c.Decls, fdecl)

	var e strings.Builder
	w := func(f string, a ...any) { fmt.Fprintf(&e, f+"\n", a...) }
	w("access(all) contract E {")
	w("  access(all) struct S { access(all) let a: Int; access(all) let b: String?; view init(a: Int, b: String?) { self.a = a; self.b = b } }")
	w("  access(all) struct T { access(all) let s: S; access(all) let xs: [UInt8]; view init(s: S, xs: [UInt8]) { self.s = s; self.xs = xs } }")
	for _, d := range c.Decls[:nev] {
		var ps []string
		for i := range d.Params {
			ps = append(ps, d.Params[i]+": "+d.Types[i].Src(""))
		}
		w("  access(all) event %s(%s)", d.Name, strings.Join(ps, ", "))
	}

	// emission sites; the transaction body is assembled alongside
	var tx []string
	nem := 1 + s.Intn(5)
	nfun := 0
	for i := 0; i < nem; i++ {
		d := c.Decls[s.Intn(nev)]
		site := []string{"literal", "parameter", "pre", "post", "relay", "loop"}[s.Intn(6)]
		fn := fmt.Sprintf("f%d", nfun)
		nfun++
		mk := func(q string) ([]*EVal, string) {
			var args []*EVal
			var parts []string
			for j := range d.Params {
				a := genEVal(s, d.Types[j], q)
				args = append(args, a)
				parts = append(parts, d.Params[j]+": "+a.Lit)
			}
			return args, strings.Join(parts, ", ")
		}
		switch site {
		case "literal":
			args, as := mk("")
			w("  access(all) fun %s() { emit %s(%s) }", fn, d.Name, as)
			tx = append(tx, fmt.Sprintf("E.%s()", fn))
			c.Expect = append(c.Expect, ExpEmit{d, args, site})
		case "parameter":
			// values travel through function parameters
			var args []*EVal
			var ps, fw, lits []string
			for j := range d.Params {
				a := genEVal(s, d.Types[j], "E.")
				args = append(args, a)
				ps = append(ps, fmt.Sprintf("_ x%d: %s", j, d.Types[j].Src("")))
				fw = append(fw, fmt.Sprintf("%s: x%d", d.Params[j], j))
				lits = append(lits, a.Lit)
			}
			w("  access(all) fun %s(%s) { emit %s(%s) }", fn, strings.Join(ps, ", "), d.Name, strings.Join(fw, ", "))
			tx = append(tx, fmt.Sprintf("E.%s(%s)", fn, strings.Join(lits, ", ")))
			c.Expect = append(c.Expect, ExpEmit{d, args, site})
		case "pre", "post":
			args, as := mk("")
			w("  access(all) fun %s() { %s { emit %s(%s) } }", fn, site, d.Name, as)
			tx = append(tx, fmt.Sprintf("E.%s()", fn))
			c.Expect = append(c.Expect, ExpEmit{d, args, site + "-condition"})
		case "relay":
			// F calls E and emits its own event before and after
			args, as := mk("")
			w("  access(all) fun %s() { emit %s(%s) }", fn, d.Name, as)
			n := s.Intn(50)
			tx = append(tx, fmt.Sprintf("F.relay%d()", i))
			c.relays = append(c.relays, fmt.Sprintf("  access(all) fun relay%d() { emit Relayed(who: 0x2, n: %d); E.%s(); emit Relayed(who: 0x1, n: nil) }", i, n, fn))
			c.Expect = append(c.Expect,
				ExpEmit{fdecl, []*EVal{{T: fdecl.Types[0], S: "0x0000000000000002"}, {T: fdecl.Types[1], In: &EVal{T: fdecl.Types[1].E, S: fmt.Sprint(n)}}}, "imported-contract"},
				ExpEmit{d, args, "called-from-other-contract"},
				ExpEmit{fdecl, []*EVal{{T: fdecl.Types[0], S: "0x0000000000000001"}, {T: fdecl.Types[1], Nil: true}}, "imported-contract"})
		case "loop":
			args, as := mk("")
			k := 2 + s.Intn(2)
			w("  access(all) fun %s() { var i = 0; while i < %d { emit %s(%s); i = i + 1 } }", fn, k, d.Name, as)
			tx = append(tx, fmt.Sprintf("E.%s()", fn))
			for j := 0; j < k; j++ {
				c.Expect = append(c.Expect, ExpEmit{d, args, "loop"})
			}
		}
	}
	w("}")
	var f strings.Builder
	f.WriteString("import E from 0x1\naccess(all) contract F {\n  access(all) event Relayed(who: Address, n: Int?)\n")
	for _, r := range c.relays {
		f.WriteString(r + "\n")
	}
	f.WriteString("}\n")
	src := "import E from 0x1\nimport F from 0x2\ntransaction {\n  prepare(a: auth(Storage) &Account) {\n"
	for _, l := range tx {
		src += "    " + l + "\n"
	}
	src += "  }\n}\n"
	c.Prog = prog.History{Origin: "resgen/events", Steps: []prog.Step{
		{Kind: prog.Deploy, Name: "E", Source: e.String(), Signers: []uint64{1}},
		{Kind: prog.Deploy, Name: "F", Source: f.String(), Signers: []uint64{2}},
		{Kind: prog.Tx, Source: src, Signers: []uint64{1}},
	}}
	return c
}
