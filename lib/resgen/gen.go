package resgen

import (
	"fmt"
	"sort"
	"strings"

	"verif/lib/prog"
)

// Options of the history generator.
type Options struct {
	Universe UniverseOptions
	MaxTx    int // transactions per history
	MaxOps   int // statements per transaction (before closing)
	MaxLive  int // bound on live resources
	FailPct  int // percentage of transactions that contain an intended run-time failure
	// AttachFocus raises the weight of attachment operations (C49).
	AttachFocus bool
	// NoSwapMemberIndex suppresses swap statements whose operand is `x.f[i]` with a
	// resource-kinded container field f (finding FR1).
	NoSwapMemberIndex bool
	// Alias allows a hole to touch the variable the enclosing statement operates on
	// (e.g. `arr.append(<- arr.remove(at: 0))`).
	Alias bool
}

// DefaultOptions are the bounds of DESIGN §4 C02.
func DefaultOptions() Options {
	return Options{
		Universe: UniverseOptions{MaxRes: 3, MaxFields: 3, Attachments: 2, DeepTypes: true},
		MaxTx:    6, MaxOps: 25, MaxLive: 30, FailPct: 15, Alias: true,
	}
}

// TxExpect is the model's expectation for one step.
type TxExpect struct {
	Fails    bool     `json:"fails,omitempty"`
	FailKind string   `json:"fail_kind,omitempty"` // substring of the Go type of the expected root error
	Created  []uint64 `json:"created,omitempty"`   // uuids handed out, in order
	Events   []Event  `json:"events,omitempty"`    // destruction events (compared as a multiset)
	Logs     []string `json:"logs,omitempty"`
	// Census after the step (location -> canonical value) and the stored uuids.
	Census map[string]string `json:"census,omitempty"`
	Stored []uint64          `json:"stored,omitempty"`
}

// History is a generated program with the model's expectations.
type History struct {
	Prog     prog.History
	U        *Universe
	Expect   []TxExpect // parallel to Prog.Steps (step 0 deploys C)
	Accounts []uint64
	// Stats for the non-triviality rules of the consumers.
	Stats Stats
	// UsesFR1 is set when a swap through `x.f[i]` (finding FR1) was generated.
	UsesFR1 bool
}

// Stats counts what a history exercised (only in executed, non-failing code).
type Stats struct {
	Created      int
	Nested       int // resources placed inside another resource
	ContainerMv  int // moves into/out of arrays, dictionaries, optionals
	StorageMv    int // save/load/vault
	TreeDestroys int // destroys of a value containing >= 2 resources
	Destroyed    int
	FuncMv       int
	Swaps        int
	Attach       int
	AttRemove    int
	AttBaseMoves int // moves of a base that carries >= 1 attachment
	AttStorage   int // storage round trips of a base carrying attachments
	AttBaseDestr int // destroys of a base carrying attachments
	TwoAtts      int // a base carrying >= 2 attachment types at some point
	FailedTx     int
	Blocks       int
	Loops        int
}

// Var is a variable of the linear environment.
type Var struct {
	Name string
	T    *Ty
	V    *Val
	Live bool
	Mut  bool
	Pin  int // > 0: must not be moved (an outer variable inside a block)
}

type state struct {
	store   *Store
	vars    []*Var
	logs    []string
	events  []Event
	created []uint64
	failed  bool
	fail    string
	stats   Stats
}

func (s *state) clone() *state {
	m := map[*Val]*Val{}
	c := &state{store: s.store.clone(m), failed: s.failed, fail: s.fail, stats: s.stats}
	c.logs = append([]string{}, s.logs...)
	c.events = append([]Event{}, s.events...)
	c.created = append([]uint64{}, s.created...)
	for _, v := range s.vars {
		nv := *v
		if v.V != nil {
			if x, ok := m[v.V]; ok {
				nv.V = x
			} else {
				nv.V = v.V.clone(m)
			}
		}
		c.vars = append(c.vars, &nv)
	}
	return c
}

type gen struct {
	s        Src
	o        Options
	u        *Universe
	st       *state
	lines    []string
	indent   int
	helpers  []string
	hseen    map[string]bool
	nvar     int
	npath    int
	signers  []uint64 // accounts of the current transaction; variable names a, b
	busy     map[*Var]bool
	dry      int
	depthB   int
	types    []*Ty
	fr1      bool
	wantFail bool
	halted   bool // the current block ends in a `panic`: nothing may follow (unreachable code is a checker error)
}

// Generate draws a history.
func Generate(s Src, o Options) *History {
	g := &gen{s: s, o: o, hseen: map[string]bool{}, busy: map[*Var]bool{}}
	g.u = GenUniverse(s, o.Universe)
	g.types = g.typePool()
	g.st = &state{store: newStore()}
	h := &History{U: g.u, Accounts: []uint64{1, 2}}
	h.Prog.Origin = "resgen"
	h.Prog.Steps = append(h.Prog.Steps, prog.Step{Kind: prog.Deploy, Name: ContractName, Source: g.u.ContractSource(), Signers: []uint64{ContractAddr}})
	h.Expect = append(h.Expect, TxExpect{Census: map[string]string{}})
	ntx := 1 + s.Intn(max1(o.MaxTx))
	for t := 0; t < ntx; t++ {
		step, exp := g.genTx(t == ntx-1)
		h.Prog.Steps = append(h.Prog.Steps, step)
		h.Expect = append(h.Expect, exp)
	}
	h.Stats = g.st.stats
	h.UsesFR1 = g.fr1
	feats := map[string]bool{}
	st := h.Stats
	for k, v := range map[string]int{"nest": st.Nested, "container": st.ContainerMv, "storage": st.StorageMv, "tree-destroy": st.TreeDestroys,
		"func": st.FuncMv, "swap": st.Swaps, "attach": st.Attach, "fail": st.FailedTx, "block": st.Blocks, "loop": st.Loops} {
		if v > 0 {
			feats[k] = true
		}
	}
	for k := range feats {
		h.Prog.Features = append(h.Prog.Features, k)
	}
	sort.Strings(h.Prog.Features)
	return h
}

func (g *gen) typePool() []*Ty {
	var out []*Ty
	add := func(t *Ty) {
		for _, x := range out {
			if x.Eq(t) {
				return
			}
		}
		out = append(out, t)
	}
	for i := range g.u.Res {
		add(TRes(i))
	}
	for i := range g.u.Res {
		add(TOpt(TRes(i)))
		add(TArr(TRes(i)))
		add(TDict(TRes(i)))
	}
	for _, rt := range g.u.Res {
		for _, f := range rt.Fields {
			add(f.T)
			if f.T.K != KRes && f.T.E.K != KRes {
				add(f.T.E)
			}
		}
	}
	return out
}

// ---- text -------------------------------------------------------------------

func (g *gen) emit(f string, a ...any) {
	g.lines = append(g.lines, strings.Repeat("  ", g.indent+2)+fmt.Sprintf(f, a...))
}

func (g *gen) fresh(prefix string) string {
	g.nvar++
	return fmt.Sprintf("%s%d", prefix, g.nvar)
}

func (g *gen) helper(name, src string) string {
	if !g.hseen[name] {
		g.hseen[name] = true
		g.helpers = append(g.helpers, src)
	}
	return name
}

const q = ContractName + "."

func (g *gen) acctVar(i int) string { return string(rune('a' + i)) }

// ---- model primitives ----------------------------------------------------------

func (g *gen) live() bool { return !g.st.failed }

func (g *gen) liveCount() int {
	n := len(g.st.store.StoredUUIDs())
	for _, v := range g.st.vars {
		if v.Live && v.V != nil {
			n += len(v.V.Resources(nil))
		}
	}
	return n
}

func (g *gen) zero(t *Ty) *Val {
	switch t.K {
	case KRes:
		v := &Val{K: KRes, R: t.R}
		for _, f := range g.u.Res[t.R].Fields {
			v.F = append(v.F, g.zero(f.T))
		}
		return v
	case KOpt:
		return &Val{K: KOpt}
	case KArr:
		return &Val{K: KArr}
	default:
		return &Val{K: KDict, M: map[int]*Val{}}
	}
}

func (g *gen) wrap(v *Val) *Val { return &Val{K: KOpt, In: v} }

func (g *gen) failWith(kind string) {
	if !g.st.failed {
		g.st.failed = true
		g.st.fail = kind
	}
}

func (g *gen) destroyed(v *Val) {
	if v == nil {
		return
	}
	rs := v.Resources(nil)
	g.st.events = append(g.st.events, g.u.destroyEvents(v)...)
	g.st.stats.Destroyed += len(rs)
	if len(rs) >= 2 {
		g.st.stats.TreeDestroys++
	}
	for _, r := range rs {
		if len(r.Atts) > 0 {
			g.st.stats.AttBaseDestr++
		}
	}
}

func hasAtts(v *Val) bool {
	for _, r := range v.Resources(nil) {
		if len(r.Atts) > 0 {
			return true
		}
	}
	return false
}

func (g *gen) noteMove(v *Val) {
	if v != nil && hasAtts(v) {
		g.st.stats.AttBaseMoves++
	}
}

func (g *gen) log(s string) { g.st.logs = append(g.st.logs, s) }

// ---- environment ----------------------------------------------------------------

func (g *gen) declare(t *Ty, v *Val, expr string) *Var {
	mut := !chance(g.s, 2, 5)
	kw := "let"
	if mut {
		kw = "var"
	}
	nv := &Var{Name: g.fresh("v"), T: t, V: v, Live: true, Mut: mut}
	g.emit("%s %s: %s <- %s", kw, nv.Name, t.Ann(q), expr)
	g.st.vars = append(g.st.vars, nv)
	return nv
}

func (g *gen) movable(v *Var) bool { return v.Live && v.Pin == 0 && !g.busy[v] }
func (g *gen) usable(v *Var) bool  { return v.Live && !g.busy[v] }

func (g *gen) varsWhere(f func(*Var) bool) []*Var {
	var out []*Var
	for _, v := range g.st.vars {
		if f(v) {
			out = append(out, v)
		}
	}
	return out
}

func (g *gen) pick(vs []*Var) *Var { return vs[g.s.Intn(len(vs))] }

// cpath is a place holding a container that can be mutated in place.
type cpath struct {
	expr string
	val  *Val
	t    *Ty
	root *Var
	fld  bool // a field of an owned resource variable (x.f)
}

func (g *gen) cpaths(want func(*Ty) bool) []cpath {
	var out []cpath
	for _, v := range g.st.vars {
		if !g.usable(v) {
			continue
		}
		if v.T.K != KRes {
			if want(v.T) && v.T.K != KOpt {
				out = append(out, cpath{v.Name, v.V, v.T, v, false})
			}
			continue
		}
		for i, f := range g.u.Res[v.T.R].Fields {
			if f.T.K != KRes && f.T.K != KOpt && want(f.T) {
				out = append(out, cpath{v.Name + "." + f.Name, v.V.F[i], f.T, v, true})
			}
		}
	}
	return out
}

// rpath denotes a resource through an owned variable or a chain of accesses.
type rpath struct {
	expr string
	val  *Val
	root *Var
	opt  bool // the expression is optional (continue with ?.)
	own  bool // the variable itself
}

func (p rpath) dot() string {
	if p.opt {
		return p.expr + "?."
	}
	return p.expr + "."
}

func (g *gen) rpaths() []rpath {
	var out []rpath
	var walkRes func(p rpath, depth int)
	var walkC func(expr string, v *Val, root *Var, depth int)
	walkC = func(expr string, v *Val, root *Var, depth int) {
		switch v.K {
		case KArr:
			for i, e := range v.El {
				if i >= 3 {
					break
				}
				ex := fmt.Sprintf("%s[%d]", expr, i)
				if e.K == KRes {
					walkRes(rpath{ex, e, root, false, false}, depth+1)
				} else {
					walkC(ex, e, root, depth+1)
				}
			}
		case KDict:
			for i, k := range v.Keys() {
				if i >= 3 {
					break
				}
				e := v.M[k]
				if e.K == KRes {
					walkRes(rpath{fmt.Sprintf("%s[%d]", expr, k), e, root, true, false}, depth+1)
				}
			}
		}
	}
	walkRes = func(p rpath, depth int) {
		out = append(out, p)
		if depth >= 3 {
			return
		}
		for i, f := range g.u.Res[p.val.R].Fields {
			fv := p.val.F[i]
			switch f.T.K {
			case KRes:
				walkRes(rpath{p.dot() + f.Name, fv, p.root, p.opt, false}, depth+1)
			case KOpt:
				if fv.In != nil && fv.In.K == KRes {
					walkRes(rpath{p.dot() + f.Name, fv.In, p.root, true, false}, depth+1)
				}
			default:
				if !p.opt {
					walkC(p.expr+"."+f.Name, fv, p.root, depth)
				}
			}
		}
	}
	for _, v := range g.st.vars {
		if !g.usable(v) || v.V == nil {
			continue
		}
		switch v.T.K {
		case KRes:
			walkRes(rpath{v.Name, v.V, v, false, true}, 0)
		case KArr, KDict:
			walkC(v.Name, v.V, v, 0)
		}
	}
	return out
}

// ---- producers --------------------------------------------------------------------

func (g *gen) newRes(r int, n int, req []*Val) *Val {
	v := g.zero(TRes(r))
	v.N, v.N0 = n, n
	ri := 0
	for i, f := range g.u.Res[r].Fields {
		if f.T.K == KRes {
			v.F[i] = req[ri]
			ri++
			g.st.stats.Nested++
		}
	}
	g.st.store.UUID++
	v.UUID = g.st.store.UUID
	g.st.created = append(g.st.created, v.UUID)
	g.st.stats.Created++
	return v
}

func (g *gen) create(r int, depth int) (string, *Val) {
	rt := g.u.Res[r]
	// evaluate arguments left to right
	n := g.s.Intn(100)
	args := []string{fmt.Sprint(n)}
	var req []*Val
	for _, i := range rt.Required() {
		e, v := g.produce(rt.Fields[i].T, depth+1, false)
		args = append(args, "<- "+e)
		req = append(req, v)
	}
	v := g.newRes(r, n, req)
	g.st.stats.FuncMv++
	return fmt.Sprintf("%smk%d(%s)", q, r, strings.Join(args, ", ")), v
}

type choice struct {
	w int
	f func() (string, *Val)
}

// produce fills a hole of type t: it returns an expression (to be prefixed with
// `<-`) whose evaluation yields a value of type t, and applies its effects to the
// model. noLit forbids bare `nil`.
func (g *gen) produce(t *Ty, depth int, noLit bool) (string, *Val) {
	var cs []choice
	add := func(w int, f func() (string, *Val)) { cs = append(cs, choice{w, f}) }
	deep := depth >= 3

	for _, v := range g.varsWhere(func(v *Var) bool { return g.movable(v) && v.T.Eq(t) }) {
		v := v
		add(6, func() (string, *Val) {
			v.Live = false
			g.noteMove(v.V)
			return v.Name, v.V
		})
	}
	if t.K == KOpt {
		// implicit wrapping of a value of the element type
		add(3, func() (string, *Val) {
			e, v := g.produce(t.E, depth+1, true)
			g.st.stats.ContainerMv++
			return e, g.wrap(v)
		})
		if !noLit {
			add(1, func() (string, *Val) { return "nil", &Val{K: KOpt} })
		}
	}
	if t.K == KRes {
		w := 5
		if g.liveCount() >= g.o.MaxLive {
			w = 0
		}
		if deep && w > 0 {
			w = 8
		}
		add(w, func() (string, *Val) { return g.create(t.R, depth) })
	}
	if t.K == KArr {
		add(2, func() (string, *Val) {
			n := g.s.Intn(3)
			if deep || g.liveCount() >= g.o.MaxLive {
				n = 0
			}
			v := &Val{K: KArr}
			var parts []string
			for i := 0; i < n; i++ {
				e, x := g.produce(t.E, depth+1, true)
				parts = append(parts, "<- "+e)
				v.El = append(v.El, x)
				g.st.stats.ContainerMv++
			}
			return "[" + strings.Join(parts, ", ") + "]", v
		})
	}
	if t.K == KDict {
		add(2, func() (string, *Val) {
			n := g.s.Intn(3)
			if deep || g.liveCount() >= g.o.MaxLive {
				n = 0
			}
			v := &Val{K: KDict, M: map[int]*Val{}}
			var parts []string
			for i := 0; i < n; i++ {
				k := i*3 + g.s.Intn(3)
				e, x := g.produce(t.E, depth+1, true)
				parts = append(parts, fmt.Sprintf("%d: <- %s", k, e))
				v.M[k] = x
				g.st.stats.ContainerMv++
			}
			if n == 0 {
				return "{}", v
			}
			return "{" + strings.Join(parts, ", ") + "}", v
		})
	}
	if !deep {
		// removal from an array holding t
		for _, p := range g.cpaths(func(x *Ty) bool { return x.K == KArr && x.E.Eq(t) }) {
			p := p
			if len(p.val.El) == 0 {
				continue
			}
			add(4, func() (string, *Val) {
				n := len(p.val.El)
				var i int
				var e string
				switch g.s.Intn(3) {
				case 0:
					i = g.s.Intn(n)
					e = fmt.Sprintf("%s.remove(at: %d)", p.expr, i)
				case 1:
					i, e = 0, p.expr+".removeFirst()"
				default:
					i, e = n-1, p.expr+".removeLast()"
				}
				x := p.val.El[i]
				p.val.El = append(p.val.El[:i:i], p.val.El[i+1:]...)
				g.st.stats.ContainerMv++
				g.noteMove(x)
				return e, x
			})
		}
		// removal from a dictionary holding t (forced) or t.E (optional result)
		for _, p := range g.cpaths(func(x *Ty) bool {
			return x.K == KDict && (x.E.Eq(t) || (t.K == KOpt && x.E.Eq(t.E)))
		}) {
			p := p
			forced := p.t.E.Eq(t)
			keys := p.val.Keys()
			if forced && len(keys) == 0 {
				continue
			}
			add(4, func() (string, *Val) {
				g.st.stats.ContainerMv++
				if forced {
					k := keys[g.s.Intn(len(keys))]
					x := p.val.M[k]
					delete(p.val.M, k)
					g.noteMove(x)
					return fmt.Sprintf("%s.remove(key: %d)!", p.expr, k), x
				}
				// optional result: present or absent key
				if len(keys) > 0 && !chance(g.s, 1, 4) {
					k := keys[g.s.Intn(len(keys))]
					x := p.val.M[k]
					delete(p.val.M, k)
					g.noteMove(x)
					return fmt.Sprintf("%s.remove(key: %d)", p.expr, k), g.wrap(x)
				}
				k := 90 + g.s.Intn(5)
				for p.val.M[k] != nil {
					k++
				}
				return fmt.Sprintf("%s.remove(key: %d)", p.expr, k), &Val{K: KOpt}
			})
		}
		// force-unwrap of an optional variable
		for _, v := range g.varsWhere(func(v *Var) bool {
			return g.movable(v) && v.T.K == KOpt && v.T.E.Eq(t) && v.V.In != nil
		}) {
			v := v
			add(4, func() (string, *Val) {
				v.Live = false
				g.st.stats.ContainerMv++
				g.noteMove(v.V.In)
				return v.Name + "!", v.V.In
			})
		}
		// storage load
		for ai, acct := range g.signers {
			ai, acct := ai, acct
			for _, p := range g.storedPaths(acct) {
				p := p
				st := g.st.store.Types[fmt.Sprintf("%d/%s", acct, p)]
				switch {
				case st.Eq(t):
					add(5, func() (string, *Val) {
						x := g.st.store.Acct[acct][p]
						delete(g.st.store.Acct[acct], p)
						g.st.stats.StorageMv++
						if hasAtts(x) {
							g.st.stats.AttStorage++
						}
						return fmt.Sprintf("%s.storage.load<%s>(from: /storage/%s)!", g.acctVar(ai), t.Ann(q), p), x
					})
				case t.K == KOpt && st.Eq(t.E):
					add(3, func() (string, *Val) {
						x := g.st.store.Acct[acct][p]
						delete(g.st.store.Acct[acct], p)
						g.st.stats.StorageMv++
						return fmt.Sprintf("%s.storage.load<%s>(from: /storage/%s)", g.acctVar(ai), t.E.Ann(q), p), g.wrap(x)
					})
				}
			}
		}
		// contract vault
		if (t.K == KRes && t.R == 0) || (t.K == KOpt && t.E.K == KRes && t.E.R == 0) {
			var keys []int
			for k := range g.st.store.Vault {
				keys = append(keys, k)
			}
			sort.Ints(keys)
			if len(keys) > 0 {
				add(4, func() (string, *Val) {
					k := keys[g.s.Intn(len(keys))]
					x := g.st.store.Vault[k]
					delete(g.st.store.Vault, k)
					g.st.stats.StorageMv++
					if t.K == KOpt {
						return fmt.Sprintf("%swithdraw(%d)", q, k), g.wrap(x)
					}
					return fmt.Sprintf("%swithdraw(%d)!", q, k), x
				})
			}
		}
		// methods of resources that hand out a nested value
		for _, p := range g.rpaths() {
			p := p
			if p.opt {
				continue
			}
			for i, f := range g.u.Res[p.val.R].Fields {
				i, f := i, f
				fv := p.val.F[i]
				switch {
				case f.T.K == KOpt && f.T.E.Eq(t) && fv.In != nil:
					add(3, func() (string, *Val) {
						x := fv.In
						fv.In = nil
						g.st.stats.ContainerMv++
						g.st.stats.FuncMv++
						g.noteMove(x)
						return fmt.Sprintf("%s.take_%s()", p.expr, f.Name), x
					})
				case f.T.K == KArr && f.T.E.Eq(t) && len(fv.El) > 0:
					add(3, func() (string, *Val) {
						k := g.s.Intn(len(fv.El))
						x := fv.El[k]
						fv.El = append(fv.El[:k:k], fv.El[k+1:]...)
						g.st.stats.ContainerMv++
						g.st.stats.FuncMv++
						g.noteMove(x)
						return fmt.Sprintf("%s.pop_%s(%d)", p.expr, f.Name, k), x
					})
				case f.T.K == KDict && t.K == KOpt && f.T.E.Eq(t.E):
					add(3, func() (string, *Val) {
						keys := fv.Keys()
						g.st.stats.FuncMv++
						if len(keys) > 0 && !chance(g.s, 1, 4) {
							k := keys[g.s.Intn(len(keys))]
							x := fv.M[k]
							delete(fv.M, k)
							g.st.stats.ContainerMv++
							g.noteMove(x)
							return fmt.Sprintf("%s.drop_%s(%d)", p.expr, f.Name, k), g.wrap(x)
						}
						return fmt.Sprintf("%s.drop_%s(%d)", p.expr, f.Name, 77), &Val{K: KOpt}
					})
				case (f.T.K == KRes || f.T.K == KOpt) && f.T.Eq(t):
					// swap_f: hands out the old field value, takes a new one
					add(2, func() (string, *Val) {
						old := g.busy[p.root]
						g.busy[p.root] = true
						e, x := g.produce(t, depth+1, true) // `f(<- nil)` is not a valid move
						g.busy[p.root] = old
						prev := p.val.F[i]
						p.val.F[i] = x
						g.st.stats.Swaps++
						g.st.stats.FuncMv++
						g.st.stats.Nested++
						g.noteMove(prev)
						return fmt.Sprintf("%s.swap_%s(<- %s)", p.expr, f.Name, e), prev
					})
				case f.T.K == KArr && f.T.E.Eq(t) && len(fv.El) > 0 && !(g.o.NoSwapMemberIndex):
					add(2, func() (string, *Val) {
						g.fr1 = true
						old := g.busy[p.root]
						g.busy[p.root] = true
						e, x := g.produce(t, depth+1, true)
						g.busy[p.root] = old
						k := g.s.Intn(len(fv.El))
						prev := fv.El[k]
						fv.El[k] = x
						g.st.stats.Swaps++
						g.st.stats.FuncMv++
						return fmt.Sprintf("%s.swapAt_%s(%d, <- %s)", p.expr, f.Name, k, e), prev
					})
				}
			}
		}
		// pass through a function (argument and return)
		add(2, func() (string, *Val) {
			e, v := g.produce(t, depth+1, true)
			name := g.helper("pass_"+t.ID(), fmt.Sprintf("access(all) fun pass_%s(_ x: %s): %s { return <- x }", t.ID(), t.Ann(q), t.Ann(q)))
			g.st.stats.FuncMv++
			return fmt.Sprintf("%s(<- %s)", name, e), v
		})
		// attach
		if t.K == KRes {
			if ats := g.u.AttsFor(t.R); len(ats) > 0 {
				w := 2
				if g.o.AttachFocus {
					w = 10
				}
				add(w, func() (string, *Val) {
					e, v := g.produce(t, depth+1, true)
					at := ats[g.s.Intn(len(ats))]
					if v.att(at.Idx) != nil {
						return e, v // already attached: leave it (the duplicate case is an intended-failure form)
					}
					y := g.s.Intn(50)
					v.Atts = append(v.Atts, &Att{T: at.Idx, Y: y})
					g.st.stats.Attach++
					if len(v.Atts) >= 2 {
						g.st.stats.TwoAtts++
					}
					return fmt.Sprintf("attach %s%s(%d) to <- %s", q, at.Name, y, e), v
				})
			}
		}
	}
	var ws []int
	for _, c := range cs {
		ws = append(ws, c.w)
	}
	i := weighted(g.s, ws)
	if i < 0 {
		// only possible for a resource type over the live bound: create anyway
		return g.create(t.R, depth)
	}
	return cs[i].f()
}

// typed gives a literal expression a type context (for sinks that have none).
func (g *gen) typed(t *Ty, e string) string {
	if strings.HasPrefix(e, "[") || strings.HasPrefix(e, "{") || e == "nil" || t.K == KOpt {
		name := g.helper("pass_"+t.ID(), fmt.Sprintf("access(all) fun pass_%s(_ x: %s): %s { return <- x }", t.ID(), t.Ann(q), t.Ann(q)))
		return fmt.Sprintf("%s(<- %s)", name, e)
	}
	return e
}

func (g *gen) storedPaths(acct uint64) []string {
	var ps []string
	for p := range g.st.store.Acct[acct] {
		ps = append(ps, p)
	}
	sort.Strings(ps)
	return ps
}

// ---- statements ---------------------------------------------------------------------

// withBusy runs f (which fills holes) while the variable must not be touched by holes.
func (g *gen) withBusy(v *Var, f func()) {
	if v == nil {
		f()
		return
	}
	old := g.busy[v]
	g.busy[v] = true
	f()
	g.busy[v] = old
}

func (g *gen) randType() *Ty { return g.types[g.s.Intn(len(g.types))] }

func (g *gen) stmtDeclare() {
	t := g.randType()
	e, v := g.produce(t, 0, false)
	g.declare(t, v, e)
}

func (g *gen) stmtDestroy() bool {
	vs := g.varsWhere(g.movable)
	if len(vs) > 0 && !chance(g.s, 1, 4) {
		v := g.pick(vs)
		v.Live = false
		g.emit("destroy %s", v.Name)
		g.destroyed(v.V)
		return true
	}
	t := g.randType()
	e, v := g.produce(t, 1, true)
	if t.K == KRes && chance(g.s, 1, 3) {
		g.emit("%sburn%d(<- %s)", q, t.R, e)
		g.st.stats.FuncMv++
	} else if chance(g.s, 1, 4) {
		name := g.helper("burn_"+t.ID(), fmt.Sprintf("access(all) fun burn_%s(_ x: %s) { destroy x }", t.ID(), t.Ann(q)))
		g.emit("%s(<- %s)", name, e)
		g.st.stats.FuncMv++
	} else {
		g.emit("destroy %s", g.typed(t, e))
	}
	g.destroyed(v)
	return true
}

func (g *gen) freeKey(d *Val) int {
	k := g.s.Intn(12)
	for d.M[k] != nil {
		k++
	}
	return k
}

func (g *gen) stmtInsert() bool {
	ps := g.cpaths(func(t *Ty) bool { return t.K == KArr || t.K == KDict })
	if len(ps) == 0 {
		return false
	}
	p := ps[g.s.Intn(len(ps))]
	var e string
	var x *Val
	g.withBusy(p.root, func() { e, x = g.produce(p.t.E, 1, true) })
	g.st.stats.ContainerMv++
	if p.fld {
		g.st.stats.Nested++
	}
	if p.t.K == KArr {
		if chance(g.s, 1, 2) {
			g.emit("%s.append(<- %s)", p.expr, e)
			p.val.El = append(p.val.El, x)
		} else {
			i := g.s.Intn(len(p.val.El) + 1)
			g.emit("%s.insert(at: %d, <- %s)", p.expr, i, e)
			p.val.El = append(p.val.El[:i:i], append([]*Val{x}, p.val.El[i:]...)...)
		}
		return true
	}
	keys := p.val.Keys()
	present := len(keys) > 0 && chance(g.s, 1, 3)
	k := g.freeKey(p.val)
	if present {
		k = keys[g.s.Intn(len(keys))]
	}
	old := p.val.M[k]
	switch g.s.Intn(4) {
	case 0: // insert, old value destroyed in place
		g.emit("destroy %s.insert(key: %d, <- %s)", p.expr, k, e)
		p.val.M[k] = x
		g.destroyed(old)
	case 1: // insert, old value bound
		name := g.fresh("v")
		g.emit("let %s <- %s.insert(key: %d, <- %s)", name, p.expr, k, e)
		p.val.M[k] = x
		ov := &Val{K: KOpt, In: old}
		g.st.vars = append(g.st.vars, &Var{Name: name, T: TOpt(p.t.E), V: ov, Live: true})
	case 2: // double transfer
		name := g.fresh("v")
		g.emit("let %s <- %s[%d] <- %s", name, p.expr, k, e)
		p.val.M[k] = x
		ov := &Val{K: KOpt, In: old}
		g.st.vars = append(g.st.vars, &Var{Name: name, T: TOpt(p.t.E), V: ov, Live: true})
	default: // force assignment: only into a free slot (the occupied case is an intended-failure form)
		if old != nil {
			k = g.freeKey(p.val)
		}
		g.emit("%s[%d] <-! %s", p.expr, k, e)
		p.val.M[k] = x
	}
	return true
}

func (g *gen) stmtOptAssign() bool {
	vs := g.varsWhere(func(v *Var) bool { return g.usable(v) && v.Mut && v.T.K == KOpt && v.V.In == nil })
	if len(vs) == 0 {
		return false
	}
	v := g.pick(vs)
	var e string
	var x *Val
	g.withBusy(v, func() { e, x = g.produce(v.T.E, 1, true) })
	g.emit("%s <-! %s", v.Name, e)
	v.V.In = x
	g.st.stats.ContainerMv++
	return true
}

func (g *gen) stmtDoubleTransfer() bool {
	vs := g.varsWhere(func(v *Var) bool { return g.usable(v) && v.Mut })
	if len(vs) == 0 {
		return false
	}
	v := g.pick(vs)
	var e string
	var x *Val
	g.withBusy(v, func() { e, x = g.produce(v.T, 1, false) })
	name := g.fresh("v")
	g.emit("let %s <- %s <- %s", name, v.Name, e)
	g.st.vars = append(g.st.vars, &Var{Name: name, T: v.T, V: v.V, Live: true})
	v.V = x
	g.noteMove(x)
	return true
}

func (g *gen) stmtSwap() bool {
	var cs []func()
	muts := g.varsWhere(func(v *Var) bool { return g.usable(v) && v.Mut })
	// variable <-> variable
	for i, a := range muts {
		for _, b := range muts[i+1:] {
			a, b := a, b
			if a.T.Eq(b.T) {
				cs = append(cs, func() {
					g.emit("%s <-> %s", a.Name, b.Name)
					a.V, b.V = b.V, a.V
				})
			}
		}
	}
	// element <-> variable
	for _, p := range g.cpaths(func(t *Ty) bool { return t.K == KArr || t.K == KDict }) {
		p := p
		if p.fld && g.o.NoSwapMemberIndex {
			continue
		}
		for _, v := range muts {
			v := v
			if v == p.root {
				continue
			}
			switch {
			case p.t.K == KArr && p.t.E.Eq(v.T) && len(p.val.El) > 0:
				cs = append(cs, func() {
					i := g.s.Intn(len(p.val.El))
					if p.fld {
						g.fr1 = true
					}
					if chance(g.s, 1, 2) {
						g.emit("%s[%d] <-> %s", p.expr, i, v.Name)
					} else {
						g.emit("%s <-> %s[%d]", v.Name, p.expr, i)
					}
					p.val.El[i], v.V = v.V, p.val.El[i]
					g.st.stats.ContainerMv++
				})
			case p.t.K == KDict && v.T.K == KOpt && p.t.E.Eq(v.T.E):
				cs = append(cs, func() {
					keys := p.val.Keys()
					k := g.freeKey(p.val)
					if len(keys) > 0 && chance(g.s, 2, 3) {
						k = keys[g.s.Intn(len(keys))]
					}
					if p.fld {
						g.fr1 = true
					}
					g.emit("%s[%d] <-> %s", p.expr, k, v.Name)
					old := p.val.M[k]
					if v.V.In != nil {
						p.val.M[k] = v.V.In
					} else {
						delete(p.val.M, k)
					}
					v.V = &Val{K: KOpt, In: old}
					g.st.stats.ContainerMv++
				})
			}
		}
		// element <-> element of the same array
		if p.t.K == KArr && len(p.val.El) >= 2 {
			cs = append(cs, func() {
				i, j := g.s.Intn(len(p.val.El)), g.s.Intn(len(p.val.El))
				if p.fld {
					g.fr1 = true
				}
				g.emit("%s[%d] <-> %s[%d]", p.expr, i, p.expr, j)
				p.val.El[i], p.val.El[j] = p.val.El[j], p.val.El[i]
				g.st.stats.ContainerMv++
			})
		}
	}
	if len(cs) == 0 {
		return false
	}
	cs[g.s.Intn(len(cs))]()
	g.st.stats.Swaps++
	return true
}

func (g *gen) stmtSave() bool {
	t := g.randType()
	// prefer saving something that exists
	vs := g.varsWhere(g.movable)
	if len(vs) > 0 && chance(g.s, 2, 3) {
		t = g.pick(vs).T
	}
	e, v := g.produce(t, 1, true)
	if v.K == KOpt && v.In == nil {
		// a saved nil is a storage-semantics corner (C22), not a resource: destroy it instead
		g.emit("destroy %s", g.typed(t, e))
		return true
	}
	ai := g.s.Intn(len(g.signers))
	g.npath++
	p := fmt.Sprintf("p%d", g.npath)
	g.emit("%s.storage.save(<- %s, to: /storage/%s)", g.acctVar(ai), g.typed(t, e), p)
	g.save(g.signers[ai], p, t, v)
	return true
}

func (g *gen) save(acct uint64, p string, t *Ty, v *Val) {
	if g.st.store.Acct[acct] == nil {
		g.st.store.Acct[acct] = map[string]*Val{}
	}
	g.st.store.Acct[acct][p] = v
	g.st.store.Types[fmt.Sprintf("%d/%s", acct, p)] = t
	g.st.stats.StorageMv++
	if hasAtts(v) {
		g.st.stats.AttStorage++
	}
}

func (g *gen) stmtDeposit() bool {
	k := g.s.Intn(6)
	e, v := g.produce(TRes(0), 1, true)
	old := g.st.store.Vault[k]
	g.st.store.Vault[k] = v
	g.st.stats.StorageMv++
	g.st.stats.FuncMv++
	if chance(g.s, 1, 2) {
		g.emit("destroy %sdeposit(%d, <- %s)", q, k, e)
		g.destroyed(old)
	} else {
		name := g.fresh("v")
		g.emit("let %s <- %sdeposit(%d, <- %s)", name, q, k, e)
		g.st.vars = append(g.st.vars, &Var{Name: name, T: TOpt(TRes(0)), V: &Val{K: KOpt, In: old}, Live: true})
	}
	return true
}

// stmtMethod calls a mutating method on a (possibly nested, possibly referenced) resource.
func (g *gen) stmtMethod() bool {
	ps := g.rpaths()
	if len(ps) == 0 {
		return false
	}
	p := ps[g.s.Intn(len(ps))]
	rt := g.u.Res[p.val.R]
	// through an optional chain only calls without resource arguments are linear for the
	// checker (the arguments of `x?.f(<- v)` are not evaluated when x is nil)
	if len(rt.Fields) == 0 || p.opt || chance(g.s, 1, 5) {
		n := g.s.Intn(100)
		g.emit("%ssetN(%d)", p.dot(), n)
		p.val.N = n
		return true
	}
	i := g.s.Intn(len(rt.Fields))
	f, fv := rt.Fields[i], p.val.F[i]
	hole := func(t *Ty) (e string, x *Val) {
		g.withBusy(p.root, func() { e, x = g.produce(t, 1, true) })
		return
	}
	switch f.T.K {
	case KArr:
		e, x := hole(f.T.E)
		g.emit("%spush_%s(<- %s)", p.dot(), f.Name, e)
		fv.El = append(fv.El, x)
		g.st.stats.Nested++
		g.st.stats.ContainerMv++
		g.st.stats.FuncMv++
	case KOpt:
		if fv.In != nil || p.opt {
			if p.opt {
				return false
			}
			// swap through the method, bind the old value
			e, x := hole(f.T)
			name := g.fresh("v")
			g.emit("let %s <- %s.swap_%s(<- %s)", name, p.expr, f.Name, e)
			g.st.vars = append(g.st.vars, &Var{Name: name, T: f.T, V: fv, Live: true})
			p.val.F[i] = x
			g.st.stats.Swaps++
			g.st.stats.FuncMv++
			return true
		}
		e, x := hole(f.T.E)
		g.emit("%sset_%s(<- %s)", p.dot(), f.Name, e)
		fv.In = x
		g.st.stats.Nested++
		g.st.stats.ContainerMv++
		g.st.stats.FuncMv++
	case KDict:
		if p.opt {
			return false
		}
		e, x := hole(f.T.E)
		keys := fv.Keys()
		k := g.freeKey(fv)
		if len(keys) > 0 && chance(g.s, 1, 3) {
			k = keys[g.s.Intn(len(keys))]
		}
		old := fv.M[k]
		fv.M[k] = x
		g.st.stats.Nested++
		g.st.stats.ContainerMv++
		g.st.stats.FuncMv++
		if chance(g.s, 1, 2) {
			g.emit("destroy %s.put_%s(%d, <- %s)", p.expr, f.Name, k, e)
			g.destroyed(old)
		} else {
			name := g.fresh("v")
			g.emit("let %s <- %s.put_%s(%d, <- %s)", name, p.expr, f.Name, k, e)
			g.st.vars = append(g.st.vars, &Var{Name: name, T: TOpt(f.T.E), V: &Val{K: KOpt, In: old}, Live: true})
		}
	case KRes:
		if p.opt {
			return false
		}
		e, x := hole(f.T)
		name := g.fresh("v")
		g.emit("let %s <- %s.swap_%s(<- %s)", name, p.expr, f.Name, e)
		g.st.vars = append(g.st.vars, &Var{Name: name, T: f.T, V: fv, Live: true})
		p.val.F[i] = x
		g.st.stats.Swaps++
		g.st.stats.FuncMv++
		g.st.stats.Nested++
	}
	return true
}

func (g *gen) stmtObserve() bool {
	var cs []func()
	for _, p := range g.rpaths() {
		p := p
		cs = append(cs, func() {
			if chance(g.s, 1, 3) && !p.opt {
				g.emit("log(%s.uuid)", p.expr)
				g.log(fmt.Sprint(p.val.UUID))
			} else {
				g.emit("log(%sn)", p.dot())
				g.log(fmt.Sprint(p.val.N))
			}
		})
	}
	for _, p := range g.cpaths(func(t *Ty) bool { return t.K == KArr || t.K == KDict }) {
		p := p
		cs = append(cs, func() {
			if p.t.K == KArr {
				g.emit("log(%s.length)", p.expr)
				g.log(fmt.Sprint(len(p.val.El)))
			} else if chance(g.s, 1, 2) {
				g.emit("log(%s.length)", p.expr)
				g.log(fmt.Sprint(len(p.val.M)))
			} else {
				k := g.s.Intn(8)
				g.emit("log(%s.containsKey(%d))", p.expr, k)
				g.log(fmt.Sprint(p.val.M[k] != nil))
			}
		})
	}
	for _, v := range g.varsWhere(func(v *Var) bool { return g.usable(v) && v.T.K == KOpt }) {
		v := v
		cs = append(cs, func() {
			if v.T.E.K == KRes && chance(g.s, 1, 2) {
				g.emit("log(%s?.n)", v.Name)
				if v.V.In == nil {
					g.log("nil")
				} else {
					g.log(fmt.Sprint(v.V.In.N))
				}
			} else {
				g.emit("log(%s == nil)", v.Name)
				g.log(fmt.Sprint(v.V.In == nil))
			}
		})
	}
	if len(g.st.store.Vault) > 0 || chance(g.s, 1, 8) {
		cs = append(cs, func() {
			k := g.s.Intn(6)
			g.emit("log(%speek(%d))", q, k)
			if v := g.st.store.Vault[k]; v != nil {
				g.log(fmt.Sprint(v.N))
			} else {
				g.log("nil")
			}
		})
	}
	if len(cs) == 0 {
		return false
	}
	cs[g.s.Intn(len(cs))]()
	return true
}

// stmtAttachment: remove / access / iterate attachments of a resource variable.
func (g *gen) stmtAttachment() bool {
	if len(g.u.Atts) == 0 {
		return false
	}
	var cs []func()
	for _, p := range g.rpaths() {
		p := p
		ats := g.u.AttsFor(p.val.R)
		if len(ats) == 0 {
			continue
		}
		at := ats[g.s.Intn(len(ats))]
		a := p.val.att(at.Idx)
		acc := fmt.Sprintf("%s[%s%s]", p.expr, q, at.Name)
		if p.own && p.root.Pin == 0 && a != nil {
			cs = append(cs, func() {
				g.emit("remove %s%s from %s", q, at.Name, p.expr)
				if ev, ok := g.u.attEvent(a, p.val); ok {
					g.st.events = append(g.st.events, ev)
				}
				p.val.removeAtt(at.Idx)
				g.st.stats.AttRemove++
			})
		}
		if p.opt {
			continue
		}
		cs = append(cs, func() {
			g.emit("log(%s == nil)", acc)
			g.log(fmt.Sprint(a == nil))
		})
		cs = append(cs, func() {
			g.emit("log(%s?.y)", acc)
			if a == nil {
				g.log("nil")
			} else {
				g.log(fmt.Sprint(a.Y))
			}
		})
		if a != nil {
			cs = append(cs, func() {
				switch g.s.Intn(4) {
				case 0:
					y := g.s.Intn(50)
					g.emit("%s!.setY(%d)", acc, y)
					a.Y = y
				case 1:
					g.emit("log(%s!.sum())", acc)
					g.log(fmt.Sprint(a.Y + p.val.N))
				case 2:
					g.emit("log(%s!.baseID())", acc)
					g.log(fmt.Sprint(p.val.UUID))
				default:
					// mutate the base, then read it through the attachment
					n := g.s.Intn(100)
					g.emit("%s.setN(%d)", p.expr, n)
					p.val.N = n
					g.emit("log(%s!.baseN())", acc)
					g.log(fmt.Sprint(n))
				}
			})
		}
		iterate := func(expr string, val *Val) {
			// forEachAttachment: the visited set, order-independent (count, and a checksum over type, the
			// attachment's own field and the CURRENT base's field read through the attachment)
			c, sum := g.fresh("c"), g.fresh("s")
			g.emit("var %s = 0", c)
			g.emit("var %s = 0", sum)
			g.emit("%s.forEachAttachment(fun (att: &AnyResourceAttachment) {", expr)
			g.emit("  %s = %s + 1", c, c)
			for _, x := range ats {
				g.emit("  if let t = att as? &%s%s { %s = %s + %d + t.y + 7 * t.baseN() }", q, x.Name, sum, sum, 1000*(x.Idx+1))
			}
			g.emit("})")
			g.emit("log(%s)", c)
			g.emit("log(%s)", sum)
			tot := 0
			for _, x := range val.Atts {
				tot += 1000*(x.T+1) + x.Y + 7*val.N
			}
			g.log(fmt.Sprint(len(val.Atts)))
			g.log(fmt.Sprint(tot))
		}
		cs = append(cs, func() { iterate(p.expr, p.val) })
		if p.own && g.movable(p.root) && a != nil {
			// access b[A] (binds whatever the implementation caches), move the base, then iterate:
			// the callback must see the base where it is now
			cs = append(cs, func() {
				g.emit("log(%s?.y)", acc)
				g.log(fmt.Sprint(a.Y))
				if chance(g.s, 1, 2) {
					n := g.s.Intn(100)
					g.emit("%s.setN(%d)", p.expr, n)
					p.val.N = n
				}
				p.root.Live = false
				name := g.fresh("v")
				var mv string
				switch g.s.Intn(3) {
				case 0:
					mv = p.expr
				case 1:
					mv = fmt.Sprintf("%s(<- %s)", g.helper("pass_"+p.root.T.ID(), fmt.Sprintf("access(all) fun pass_%s(_ x: %s): %s { return <- x }", p.root.T.ID(), p.root.T.Ann(q), p.root.T.Ann(q))), p.expr)
				default:
					tmp := g.fresh("tmp")
					g.emit("var %s: @[%s] <- [<- %s]", tmp, p.root.T.Src(q), p.expr)
					mv = tmp + ".removeFirst()"
					defer g.emit("destroy %s", tmp)
				}
				g.emit("let %s <- %s", name, mv)
				g.st.vars = append(g.st.vars, &Var{Name: name, T: p.root.T, V: p.val, Live: true})
				g.noteMove(p.val)
				iterate(name, p.val)
				if chance(g.s, 1, 2) {
					g.emit("log(%s[%s%s]!.baseN())", name, q, at.Name)
					g.log(fmt.Sprint(p.val.N))
				}
			})
		}
	}
	if len(cs) == 0 {
		return false
	}
	cs[g.s.Intn(len(cs))]()
	return true
}

// ---- blocks and loops ----------------------------------------------------------------

// cond returns a boolean expression and its value in the model.
func (g *gen) cond() (string, bool) {
	var cs []func() (string, bool)
	for _, p := range g.rpaths() {
		p := p
		if p.opt {
			continue
		}
		cs = append(cs, func() (string, bool) {
			k := g.s.Intn(100)
			return fmt.Sprintf("%s.n < %d", p.expr, k), p.val.N < k
		})
	}
	for _, p := range g.cpaths(func(t *Ty) bool { return t.K == KArr || t.K == KDict }) {
		p := p
		cs = append(cs, func() (string, bool) {
			k := g.s.Intn(3)
			n := len(p.val.El) + len(p.val.M)
			return fmt.Sprintf("%s.length > %d", p.expr, k), n > k
		})
	}
	for _, v := range g.varsWhere(func(v *Var) bool { return g.usable(v) && v.T.K == KOpt }) {
		v := v
		cs = append(cs, func() (string, bool) { return v.Name + " == nil", v.V.In == nil })
	}
	cs = append(cs, func() (string, bool) {
		a, b := g.s.Intn(5), g.s.Intn(5)
		return fmt.Sprintf("%d < %d", a, b), a < b
	})
	return cs[g.s.Intn(len(cs))]()
}

// block generates a self-contained block: outer variables are pinned (usable, not
// movable), variables declared inside are consumed before the block ends.
func (g *gen) block(nops int) {
	first := len(g.st.vars)
	for _, v := range g.st.vars {
		v.Pin++
	}
	g.indent++
	g.depthB++
	for i := 0; i < nops && g.live(); i++ {
		g.stmt()
	}
	g.closeVars(first)
	g.depthB--
	g.indent--
	for _, v := range g.st.vars[:first] {
		v.Pin--
	}
}

func (g *gen) stmtIf() bool {
	if g.depthB >= 2 {
		return false
	}
	c, val := g.cond()
	g.emit("if %s {", c)
	run := func(taken bool) {
		if taken {
			g.block(1 + g.s.Intn(4))
			return
		}
		saved := g.st
		g.st = saved.clone()
		g.dry++
		g.block(1 + g.s.Intn(4))
		g.dry--
		g.st = saved
	}
	run(val)
	if chance(g.s, 3, 4) {
		g.emit("} else {")
		run(!val)
	}
	g.emit("}")
	g.st.stats.Blocks++
	return true
}

func (g *gen) stmtLoop() bool {
	var cs []func()
	for _, p := range g.cpaths(func(t *Ty) bool { return t.K == KArr }) {
		p := p
		if p.t.E.K == KRes && len(g.u.Res[p.t.E.R].Required()) == 0 && g.liveCount()+3 < g.o.MaxLive {
			cs = append(cs, func() {
				k := 1 + g.s.Intn(3)
				base := g.s.Intn(90)
				i := g.fresh("i")
				g.emit("var %s = 0", i)
				g.emit("while %s < %d {", i, k)
				g.emit("  %s.append(<- %smk%d(%d + %s))", p.expr, q, p.t.E.R, base, i)
				g.emit("  %s = %s + 1", i, i)
				g.emit("}")
				for j := 0; j < k; j++ {
					p.val.El = append(p.val.El, g.newRes(p.t.E.R, base+j, nil))
				}
				g.st.stats.ContainerMv++
			})
		}
		if len(p.val.El) > 0 {
			cs = append(cs, func() {
				m := g.s.Intn(len(p.val.El))
				g.emit("while %s.length > %d {", p.expr, m)
				if chance(g.s, 1, 2) {
					g.emit("  destroy %s.removeLast()", p.expr)
					for len(p.val.El) > m {
						x := p.val.El[len(p.val.El)-1]
						p.val.El = p.val.El[:len(p.val.El)-1]
						g.destroyed(x)
					}
				} else {
					g.emit("  destroy %s.removeFirst()", p.expr)
					for len(p.val.El) > m {
						x := p.val.El[0]
						p.val.El = append([]*Val{}, p.val.El[1:]...)
						g.destroyed(x)
					}
				}
				g.emit("}")
				g.st.stats.ContainerMv++
			})
			// move all elements to another array of the same type
			for _, p2 := range g.cpaths(func(t *Ty) bool { return t.Eq(p.t) }) {
				p2 := p2
				if p2.val == p.val {
					continue
				}
				cs = append(cs, func() {
					g.emit("while %s.length > 0 {", p.expr)
					g.emit("  %s.append(<- %s.removeFirst())", p2.expr, p.expr)
					g.emit("}")
					p2.val.El = append(p2.val.El, p.val.El...)
					p.val.El = nil
					g.st.stats.ContainerMv++
				})
			}
		}
	}
	for _, p := range g.cpaths(func(t *Ty) bool { return t.K == KDict }) {
		p := p
		if len(p.val.M) > 0 {
			cs = append(cs, func() {
				k := g.fresh("k")
				g.emit("for %s in %s.keys {", k, p.expr)
				g.emit("  destroy %s.remove(key: %s)", p.expr, k)
				g.emit("}")
				// destruction order follows the dictionary's key order (not modelled: events are a multiset)
				for _, key := range p.val.Keys() {
					g.destroyed(p.val.M[key])
				}
				p.val.M = map[int]*Val{}
				g.st.stats.ContainerMv++
			})
		}
	}
	if len(cs) == 0 {
		return false
	}
	cs[g.s.Intn(len(cs))]()
	g.st.stats.Loops++
	return true
}

// ---- intended failures ---------------------------------------------------------------------

func (g *gen) stmtFail() {
	var cs []func()
	cs = append(cs, func() {
		g.emit("panic(\"boom\")")
		g.failWith("PanicError")
		g.halted = true
	})
	for _, v := range g.varsWhere(func(v *Var) bool { return g.usable(v) && v.Mut && v.T.K == KOpt && v.V.In != nil }) {
		v := v
		cs = append(cs, func() {
			var e string
			g.withBusy(v, func() { e, _ = g.produce(v.T.E, 1, true) })
			g.emit("%s <-! %s", v.Name, e)
			g.failWith("ResourceLossError")
		})
	}
	for _, v := range g.varsWhere(func(v *Var) bool { return g.movable(v) && v.T.K == KOpt && v.V.In == nil }) {
		v := v
		cs = append(cs, func() {
			g.emit("destroy %s!", v.Name)
			v.Live = false
			g.failWith("ForceNilError")
		})
	}
	for _, p := range g.cpaths(func(t *Ty) bool { return t.K == KArr || t.K == KDict }) {
		p := p
		if p.t.K == KArr {
			cs = append(cs, func() {
				g.emit("destroy %s.remove(at: %d)", p.expr, len(p.val.El)+g.s.Intn(2))
				g.failWith("ArrayIndexOutOfBoundsError")
			})
			continue
		}
		if len(p.val.M) > 0 {
			cs = append(cs, func() {
				keys := p.val.Keys()
				var e string
				g.withBusy(p.root, func() { e, _ = g.produce(p.t.E, 1, true) })
				g.emit("%s[%d] <-! %s", p.expr, keys[g.s.Intn(len(keys))], e)
				g.failWith("ResourceLossError")
			})
		}
		cs = append(cs, func() {
			g.emit("destroy %s.remove(key: %d)!", p.expr, g.freeKey(p.val)+50)
			g.failWith("ForceNilError")
		})
	}
	for ai, acct := range g.signers {
		ai, acct := ai, acct
		ps := g.storedPaths(acct)
		if len(ps) > 0 {
			cs = append(cs, func() {
				t := g.randType()
				e, v := g.produce(t, 1, true)
				p := ps[g.s.Intn(len(ps))]
				g.emit("%s.storage.save(<- %s, to: /storage/%s)", g.acctVar(ai), g.typed(t, e), p)
				if g.st.store.Acct[acct][p] == nil {
					// the hole emptied the path: an ordinary save
					g.save(acct, p, t, v)
					if v.K == KOpt && v.In == nil {
						delete(g.st.store.Acct[acct], p)
						g.failWith("PanicError")
						g.emit("panic(\"boom\")")
						g.halted = true
					}
					return
				}
				g.failWith("OverwriteError")
			})
			cs = append(cs, func() {
				p := ps[g.s.Intn(len(ps))]
				st := g.st.store.Types[fmt.Sprintf("%d/%s", acct, p)]
				var other *Ty
				for _, t := range g.types {
					if !t.Eq(st) && !(t.K == KOpt && t.E.Eq(st)) && !(st.K == KOpt) {
						other = t
						break
					}
				}
				if other == nil {
					g.emit("panic(\"boom\")")
					g.failWith("PanicError")
					g.halted = true
					return
				}
				g.emit("destroy %s.storage.load<%s>(from: /storage/%s)!", g.acctVar(ai), other.Ann(q), p)
				g.failWith("StoredValueTypeMismatchError")
			})
		}
		cs = append(cs, func() {
			t := g.randType()
			g.emit("destroy %s.storage.load<%s>(from: /storage/absent)!", g.acctVar(ai), t.Ann(q))
			g.failWith("ForceNilError")
		})
	}
	for _, p := range g.rpaths() {
		p := p
		if p.opt {
			continue
		}
		for i, f := range g.u.Res[p.val.R].Fields {
			f, fv := f, p.val.F[i]
			if f.T.K != KOpt {
				continue
			}
			if fv.In != nil {
				cs = append(cs, func() {
					var e string
					g.withBusy(p.root, func() { e, _ = g.produce(f.T.E, 1, true) })
					g.emit("%s.set_%s(<- %s)", p.expr, f.Name, e)
					g.failWith("ResourceLossError")
				})
			} else {
				cs = append(cs, func() {
					g.emit("destroy %s.take_%s()", p.expr, f.Name)
					g.failWith("ForceNilError")
				})
			}
		}
		if p.own && g.movable(p.root) {
			for _, at := range g.u.AttsFor(p.val.R) {
				at := at
				if p.val.att(at.Idx) != nil {
					cs = append(cs, func() {
						p.root.Live = false
						name := g.fresh("v")
						g.emit("let %s <- attach %s%s(1) to <- %s", name, q, at.Name, p.expr)
						g.st.vars = append(g.st.vars, &Var{Name: name, T: p.root.T, V: p.val, Live: true})
						g.failWith("DuplicateAttachmentError")
					})
				}
			}
		}
	}
	// prefer the state-dependent forms over the plain panic
	i := 0
	if len(cs) > 1 && !chance(g.s, 1, 6) {
		i = 1 + g.s.Intn(len(cs)-1)
	}
	cs[i]()
}

// ---- driver -------------------------------------------------------------------------------------

func (g *gen) stmt() {
	aw := 3
	if g.o.AttachFocus {
		aw = 14
	}
	type k struct {
		w int
		f func() bool
	}
	kinds := []k{
		{10, func() bool { g.stmtDeclare(); return true }},
		{6, g.stmtDestroy},
		{9, g.stmtInsert},
		{3, g.stmtOptAssign},
		{3, g.stmtDoubleTransfer},
		{6, g.stmtSwap},
		{5, g.stmtSave},
		{3, g.stmtDeposit},
		{8, g.stmtMethod},
		{6, g.stmtObserve},
		{aw, g.stmtAttachment},
		{3, g.stmtIf},
		{3, g.stmtLoop},
	}
	for tries := 0; tries < 8; tries++ {
		var ws []int
		for _, x := range kinds {
			ws = append(ws, x.w)
		}
		if kinds[weighted(g.s, ws)].f() {
			return
		}
	}
	g.stmtDeclare()
}

// closeVars consumes every live variable declared at index >= first.
func (g *gen) closeVars(first int) {
	for i := first; i < len(g.st.vars); i++ {
		v := g.st.vars[i]
		if !v.Live {
			continue
		}
		v.Live = false
		if g.halted {
			continue
		}
		if g.st.failed {
			g.emit("destroy %s", v.Name)
			continue
		}
		switch c := g.s.Intn(10); {
		case c < 4:
			g.emit("destroy %s", v.Name)
			g.destroyed(v.V)
		case (c < 7 || g.depthB > 0 && c < 9) && !(v.V.K == KOpt && v.V.In == nil):
			ai := g.s.Intn(len(g.signers))
			g.npath++
			p := fmt.Sprintf("p%d", g.npath)
			g.emit("%s.storage.save(<- %s, to: /storage/%s)", g.acctVar(ai), v.Name, p)
			g.save(g.signers[ai], p, v.T, v.V)
		case v.T.K == KRes && v.T.R == 0:
			k := g.s.Intn(6)
			g.emit("destroy %sdeposit(%d, <- %s)", q, k, v.Name)
			g.destroyed(g.st.store.Vault[k])
			g.st.store.Vault[k] = v.V
			g.st.stats.StorageMv++
		default:
			name := g.helper("burn_"+v.T.ID(), fmt.Sprintf("access(all) fun burn_%s(_ x: %s) { destroy x }", v.T.ID(), v.T.Ann(q)))
			g.emit("%s(<- %s)", name, v.Name)
			g.st.stats.FuncMv++
			g.destroyed(v.V)
		}
	}
	g.st.vars = g.st.vars[:first]
}

func (g *gen) genTx(last bool) (prog.Step, TxExpect) {
	g.lines, g.helpers, g.hseen = nil, nil, map[string]bool{}
	g.halted = false
	g.indent = 0
	g.signers = []uint64{uint64(1 + g.s.Intn(2))}
	if chance(g.s, 1, 4) {
		g.signers = append(g.signers, 3-g.signers[0])
	}
	saved := g.st.clone()
	g.st.logs, g.st.events, g.st.created = nil, nil, nil
	g.st.vars = nil
	nops := 2 + g.s.Intn(max1(g.o.MaxOps-1))
	g.wantFail = g.s.Intn(100) < g.o.FailPct
	failAt := g.s.Intn(nops)
	for i := 0; i < nops && g.live(); i++ {
		if g.wantFail && i == failAt {
			g.stmtFail()
			break
		}
		g.stmt()
	}
	g.closeVars(0)

	var params []string
	for i := range g.signers {
		params = append(params, fmt.Sprintf("%s: auth(Storage) &Account", g.acctVar(i)))
	}
	var b strings.Builder
	fmt.Fprintf(&b, "import %s from 0x%d\n", ContractName, ContractAddr)
	for _, h := range g.helpers {
		b.WriteString(h + "\n")
	}
	fmt.Fprintf(&b, "transaction {\n  prepare(%s) {\n", strings.Join(params, ", "))
	for _, l := range g.lines {
		b.WriteString(l + "\n")
	}
	b.WriteString("  }\n}\n")
	step := prog.Step{Kind: prog.Tx, Source: b.String(), Signers: append([]uint64{}, g.signers...)}

	var exp TxExpect
	if g.st.failed {
		exp.Fails, exp.FailKind = true, g.st.fail
		step.MayFail = true
		g.st = saved
		g.st.stats.FailedTx++
		g.st.vars = nil
	} else {
		exp.Created = g.st.created
		exp.Events = g.st.events
		exp.Logs = g.st.logs
	}
	exp.Census = g.st.store.Census(g.u)
	exp.Stored = g.st.store.StoredUUIDs()
	return step, exp
}
