package resgen

import (
	"fmt"
	"strings"

	"verif/lib/prog"
)

// "Checker-decides" programs (C02, second family): small resource programs that
// are NOT linear by construction. A resource move is placed where its evaluation
// is only potential (right operand of && / || / ??, one branch of ?: or if,
// argument of an optional-chaining call, loop bodies, behind a conditional
// return ...), mixed with balanced variants of the same constructs. The checker
// decides which of them run; for every accepted one the conservation invariant
// must hold on every successful execution, for both values of the run-time flag.
// An unsound checker (accepting a program that loses or duplicates a resource on
// some path) thereby becomes a visible run-time loss.

// LooseContract is the fixed contract of the family.
const LooseContract = `access(all) contract C {
  access(all) resource R {
    access(all) event ResourceDestroyed(id: UInt64 = self.uuid)
    access(all) var n: Int
    access(all) var arr: @[R]
    init(_ n: Int) { self.n = n; self.arr <- [] }
    access(all) fun absorb(_ x: @R) { self.arr.append(<- x) }
    access(all) fun absorbB(_ x: @R): Bool { self.arr.append(<- x); return true }
  }
  access(all) fun mk(_ n: Int): @R { return <- create R(n) }
  access(all) fun eat(_ r: @R): Bool { destroy r; return true }
  access(all) fun eatF(_ r: @R): Bool { destroy r; return false }
  access(all) fun eatInt(_ r: @R): Int { destroy r; return 7 }
  access(all) fun eatOpt(_ r: @R): Int? { destroy r; return nil }
  access(all) fun burn(_ r: @R) { destroy r }
  access(all) fun pass(_ r: @R): @R { return <- r }
  access(all) fun yes(): Bool { return true }
}`

// LooseCase is one program of the family; it is run with flag = true and false.
type LooseCase struct {
	Prog       prog.History // deploy + the transaction (argument: flag)
	Constructs []string     // construct labels used (class labels: accept rate per construct)
	Balanced   bool         // every construct used is of a balanced (linear) variant
}

type loosePattern struct {
	name     string
	balanced bool
	// gen emits the statements disposing of resource variable r (declared `var`/`let` before)
	gen func(g *looseGen, r string) []string
}

type looseGen struct {
	s    Src
	nvar int
}

func (g *looseGen) fresh(p string) string { g.nvar++; return fmt.Sprintf("%s%d", p, g.nvar) }

// flag expressions: the transaction argument or its negation, so that each path is taken by one of the two runs
func (g *looseGen) flag() string {
	switch g.s.Intn(4) {
	case 0:
		return "!flag"
	case 1:
		return "(flag && C.yes())"
	default:
		return "flag"
	}
}

func loosePatterns() []loosePattern {
	return []loosePattern{
		{"plain-destroy", true, func(g *looseGen, r string) []string { return []string{"destroy " + r} }},
		{"plain-save", true, func(g *looseGen, r string) []string {
			return []string{fmt.Sprintf("a.storage.save(<- %s, to: /storage/%s)", r, g.fresh("l"))}
		}},
		{"or-right", false, func(g *looseGen, r string) []string {
			return []string{fmt.Sprintf("let %s = %s || C.eat(<- %s)", g.fresh("b"), g.flag(), r)}
		}},
		{"and-right", false, func(g *looseGen, r string) []string {
			return []string{fmt.Sprintf("let %s = %s && C.eat(<- %s)", g.fresh("b"), g.flag(), r)}
		}},
		{"or-right-nested", false, func(g *looseGen, r string) []string {
			return []string{fmt.Sprintf("let %s = (%s || (C.yes() && C.eat(<- %s))) && C.yes()", g.fresh("b"), g.flag(), r)}
		}},
		{"or-right-in-condition", false, func(g *looseGen, r string) []string {
			return []string{fmt.Sprintf("if %s || C.eatF(<- %s) { log(1) }", g.flag(), r)}
		}},
		{"or-both-sides", false, func(g *looseGen, r string) []string {
			// moved on the left (always evaluated) and on the right: must be rejected (double move)
			return []string{fmt.Sprintf("let %s = C.eatF(<- %s) || C.eat(<- %s)", g.fresh("b"), r, r)}
		}},
		{"or-left", true, func(g *looseGen, r string) []string {
			return []string{fmt.Sprintf("let %s = C.eat(<- %s) || %s", g.fresh("b"), r, g.flag())}
		}},
		{"nil-coalescing-right", false, func(g *looseGen, r string) []string {
			return []string{fmt.Sprintf("let %s = (%s ? 1 : nil) ?? C.eatInt(<- %s)", g.fresh("n"), g.flag(), r)}
		}},
		{"nil-coalescing-left", true, func(g *looseGen, r string) []string {
			return []string{fmt.Sprintf("let %s = C.eatOpt(<- %s) ?? 3", g.fresh("n"), r)}
		}},
		{"conditional-one-branch", false, func(g *looseGen, r string) []string {
			return []string{fmt.Sprintf("let %s = %s ? C.eat(<- %s) : false", g.fresh("b"), g.flag(), r)}
		}},
		{"conditional-both-branches", true, func(g *looseGen, r string) []string {
			return []string{fmt.Sprintf("let %s = %s ? C.eat(<- %s) : C.eatF(<- %s)", g.fresh("b"), g.flag(), r, r)}
		}},
		{"conditional-resource-result", true, func(g *looseGen, r string) []string {
			o, x := g.fresh("o"), g.fresh("x")
			return []string{fmt.Sprintf("let %s <- C.mk(50)", o),
				fmt.Sprintf("let %s <- %s ? <- %s : <- %s", x, g.flag(), r, o), "destroy " + x}
		}},
		{"optional-chaining-argument", false, func(g *looseGen, r string) []string {
			o := g.fresh("o")
			return []string{fmt.Sprintf("var %s: @C.R? <- nil", o), fmt.Sprintf("if %s { %s <-! C.mk(60) }", g.flag(), o),
				fmt.Sprintf("%s?.absorb(<- %s)", o, r), "destroy " + o}
		}},
		{"optional-chaining-argument-value", false, func(g *looseGen, r string) []string {
			o := g.fresh("o")
			return []string{fmt.Sprintf("var %s: @C.R? <- nil", o), fmt.Sprintf("if %s { %s <-! C.mk(61) }", g.flag(), o),
				fmt.Sprintf("let %s = %s?.absorbB(<- %s) ?? false", g.fresh("b"), o, r), "destroy " + o}
		}},
		{"if-one-branch", false, func(g *looseGen, r string) []string {
			return []string{fmt.Sprintf("if %s { destroy %s }", g.flag(), r)}
		}},
		{"if-else-only", false, func(g *looseGen, r string) []string {
			return []string{fmt.Sprintf("if %s { log(2) } else { C.burn(<- %s) }", g.flag(), r)}
		}},
		{"if-both-branches", true, func(g *looseGen, r string) []string {
			return []string{fmt.Sprintf("if %s { destroy %s } else { C.burn(<- %s) }", g.flag(), r, r)}
		}},
		{"if-then-use-after", false, func(g *looseGen, r string) []string {
			return []string{fmt.Sprintf("if %s { destroy %s }", g.flag(), r), "destroy " + r}
		}},
		{"if-let-one-branch", false, func(g *looseGen, r string) []string {
			o, x := g.fresh("o"), g.fresh("x")
			return []string{fmt.Sprintf("var %s: @C.R? <- nil", o), fmt.Sprintf("if %s { %s <-! C.mk(62) }", g.flag(), o),
				fmt.Sprintf("if let %s <- %s { destroy %s; destroy %s } else { log(3) }", x, o, x, r)}
		}},
		{"if-let-both-branches", true, func(g *looseGen, r string) []string {
			o, x := g.fresh("o"), g.fresh("x")
			return []string{fmt.Sprintf("var %s: @C.R? <- nil", o), fmt.Sprintf("if %s { %s <-! C.mk(63) }", g.flag(), o),
				fmt.Sprintf("if let %s <- %s { destroy %s; destroy %s } else { destroy %s }", x, o, x, r, r)}
		}},
		{"while-body", false, func(g *looseGen, r string) []string {
			i := g.fresh("i")
			return []string{fmt.Sprintf("var %s = 0", i), fmt.Sprintf("while %s < (%s ? 1 : 0) { destroy %s; %s = %s + 1 }", i, g.flag(), r, i, i)}
		}},
		{"while-body-break", false, func(g *looseGen, r string) []string {
			return []string{fmt.Sprintf("while %s { destroy %s; break }", g.flag(), r)}
		}},
		{"while-true-break", true, func(g *looseGen, r string) []string {
			return []string{fmt.Sprintf("while true { destroy %s; break }", r)}
		}},
		{"for-body", false, func(g *looseGen, r string) []string {
			return []string{fmt.Sprintf("for %s in (%s ? [1] : []) { destroy %s }", g.fresh("k"), g.flag(), r)}
		}},
		{"conditional-return-before", false, func(g *looseGen, r string) []string {
			return []string{fmt.Sprintf("if %s { return }", g.flag()), "destroy " + r}
		}},
		{"conditional-return-after-destroy", true, func(g *looseGen, r string) []string {
			return []string{fmt.Sprintf("if %s { destroy %s; return }", g.flag(), r), "destroy " + r}
		}},
		{"switch-one-case", false, func(g *looseGen, r string) []string {
			return []string{fmt.Sprintf("switch %s { case true: destroy %s\n      default: log(4) }", g.flag(), r)}
		}},
		{"switch-all-cases", true, func(g *looseGen, r string) []string {
			return []string{fmt.Sprintf("switch %s { case true: destroy %s\n      default: C.burn(<- %s) }", g.flag(), r, r)}
		}},
		{"function-argument-and-or", false, func(g *looseGen, r string) []string {
			// the move sits in an argument of a call that is itself the right operand
			return []string{fmt.Sprintf("let %s = %s || C.eat(<- C.pass(<- %s))", g.fresh("b"), g.flag(), r)}
		}},
		{"array-literal-in-or", false, func(g *looseGen, r string) []string {
			return []string{fmt.Sprintf("let %s = %s || eatAll(<- [<- %s])", g.fresh("b"), g.flag(), r)}
		}},
		{"force-nil-coalescing-resource", true, func(g *looseGen, r string) []string {
			// `opt ?? <- r` on resources: both operands are resources; the checker forbids or handles it
			o, x := g.fresh("o"), g.fresh("x")
			return []string{fmt.Sprintf("var %s: @C.R? <- nil", o), fmt.Sprintf("if %s { %s <-! C.mk(64) }", g.flag(), o),
				fmt.Sprintf("let %s <- %s ?? %s", x, o, r), "destroy " + x}
		}},
	}
}

// GenLooseCase draws a program with 1-3 resources, each disposed of by a random construct.
func GenLooseCase(s Src) *LooseCase {
	g := &looseGen{s: s}
	c := &LooseCase{Balanced: true}
	pats := loosePatterns()
	var lines []string
	emit := func(ind int, l string) { lines = append(lines, strings.Repeat("  ", ind+2)+l) }
	n := 1
	if chance(s, 1, 2) {
		n = 2 + s.Intn(2)
	}
	type pending struct {
		r string
		p loosePattern
	}
	var vars []pending
	for i := 0; i < n; i++ {
		r := g.fresh("r")
		kw := "let"
		if chance(s, 1, 3) {
			kw = "var"
		}
		switch s.Intn(3) {
		case 0:
			emit(0, fmt.Sprintf("%s %s <- C.mk(%d)", kw, r, i))
		case 1:
			emit(0, fmt.Sprintf("%s %s <- C.pass(<- C.mk(%d))", kw, r, i))
		default:
			t := g.fresh("t")
			emit(0, fmt.Sprintf("let %s <- C.mk(%d)", t, i))
			emit(0, fmt.Sprintf("%s.absorb(<- C.mk(%d))", t, 10+i))
			emit(0, fmt.Sprintf("%s %s <- %s", kw, r, t))
		}
		// mostly the potentially-unevaluated constructs, sometimes the plain ones
		p := pats[2+s.Intn(len(pats)-2)]
		if chance(s, 1, 6) {
			p = pats[s.Intn(2)]
		}
		if i > 0 && chance(s, 2, 3) {
			// the companions of the first resource are mostly balanced, so that the verdict on the program is the verdict on one construct
			for !p.balanced {
				p = pats[s.Intn(len(pats))]
			}
		}
		vars = append(vars, pending{r, p})
	}
	// dispose in random order; optionally nest the construct in an enclosing block
	for len(vars) > 0 {
		k := s.Intn(len(vars))
		v := vars[k]
		vars = append(vars[:k:k], vars[k+1:]...)
		c.Constructs = append(c.Constructs, v.p.name)
		if !v.p.balanced {
			c.Balanced = false
		}
		body := v.p.gen(g, v.r)
		switch w := s.Intn(8); {
		case w == 0 && !strings.Contains(strings.Join(body, " "), "return"):
			// inside both branches of an if (still executed exactly once)
			emit(0, fmt.Sprintf("if %s {", g.flag()))
			for _, l := range body {
				emit(1, l)
			}
			emit(0, "} else {")
			for _, l := range v.p.gen(g, v.r) {
				emit(1, l)
			}
			emit(0, "}")
			c.Constructs = append(c.Constructs, "wrapped-in-if-else")
		default:
			for _, l := range body {
				emit(0, l)
			}
		}
	}
	src := "import C from 0x1\naccess(all) fun eatAll(_ rs: @[C.R]): Bool { destroy rs; return true }\n" +
		"transaction(flag: Bool) {\n  prepare(a: auth(Storage) &Account) {\n" + strings.Join(lines, "\n") + "\n  }\n}\n"
	c.Prog = prog.History{Origin: "resgen/loose", Steps: []prog.Step{
		{Kind: prog.Deploy, Name: "C", Source: LooseContract, Signers: []uint64{1}},
		{Kind: prog.Tx, Source: src, Signers: []uint64{1}, Args: []string{`{"type":"Bool","value":true}`}, MayFail: true},
	}}
	return c
}

// WithFlag returns the history with the transaction argument set.
func (c *LooseCase) WithFlag(flag bool) prog.History {
	h := c.Prog
	h.Steps = append([]prog.Step{}, c.Prog.Steps...)
	h.Steps[1].Args = []string{fmt.Sprintf(`{"type":"Bool","value":%v}`, flag)}
	return h
}
