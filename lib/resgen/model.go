package resgen

import (
	"fmt"
	"sort"
	"strings"
)

// Att is an attachment instance on a resource.
type Att struct {
	T int // attachment type index
	Y int
}

// Val is a resource-kinded value of the model.
type Val struct {
	K Kind
	// resource
	R    int
	UUID uint64
	N    int // current value of field n
	N0   int // constructor argument (tag, info, tags, fx derive from it)
	F    []*Val
	Atts []*Att
	// optional (nil In = nil)
	In *Val
	// array
	El []*Val
	// dictionary
	M map[int]*Val
}

func (v *Val) Keys() []int {
	ks := make([]int, 0, len(v.M))
	for k := range v.M {
		ks = append(ks, k)
	}
	sort.Ints(ks)
	return ks
}

func (v *Val) att(t int) *Att {
	for _, a := range v.Atts {
		if a.T == t {
			return a
		}
	}
	return nil
}

func (v *Val) removeAtt(t int) *Att {
	for i, a := range v.Atts {
		if a.T == t {
			v.Atts = append(v.Atts[:i:i], v.Atts[i+1:]...)
			return a
		}
	}
	return nil
}

// clone deep-copies a value; m maps old to new nodes.
func (v *Val) clone(m map[*Val]*Val) *Val {
	if v == nil {
		return nil
	}
	c := &Val{K: v.K, R: v.R, UUID: v.UUID, N: v.N, N0: v.N0}
	m[v] = c
	for _, f := range v.F {
		c.F = append(c.F, f.clone(m))
	}
	for _, a := range v.Atts {
		ac := *a
		c.Atts = append(c.Atts, &ac)
	}
	c.In = v.In.clone(m)
	for _, e := range v.El {
		c.El = append(c.El, e.clone(m))
	}
	if v.M != nil {
		c.M = map[int]*Val{}
		for k, e := range v.M {
			c.M[k] = e.clone(m)
		}
	}
	return c
}

// Canon is the canonical textual form of a value: type, uuid, n, resource
// fields in declaration order, attachments sorted by type. The census produces
// the same form from the decoded ledger.
func (v *Val) Canon(u *Universe) string {
	var b strings.Builder
	v.canon(u, &b)
	return b.String()
}

func (v *Val) canon(u *Universe, b *strings.Builder) {
	switch v.K {
	case KRes:
		fmt.Fprintf(b, "R%d#%d(n=%d)", v.R, v.UUID, v.N)
		if len(v.F) > 0 {
			b.WriteString("{")
			for i, f := range v.F {
				if i > 0 {
					b.WriteString(",")
				}
				b.WriteString(u.Res[v.R].Fields[i].Name + ":")
				f.canon(u, b)
			}
			b.WriteString("}")
		}
		if len(v.Atts) > 0 {
			as := append([]*Att{}, v.Atts...)
			sort.Slice(as, func(i, j int) bool { return as[i].T < as[j].T })
			b.WriteString("<")
			for i, a := range as {
				if i > 0 {
					b.WriteString(",")
				}
				fmt.Fprintf(b, "A%d(y=%d)", a.T, a.Y)
			}
			b.WriteString(">")
		}
	case KOpt:
		if v.In == nil {
			b.WriteString("nil")
		} else {
			b.WriteString("some(")
			v.In.canon(u, b)
			b.WriteString(")")
		}
	case KArr:
		b.WriteString("[")
		for i, e := range v.El {
			if i > 0 {
				b.WriteString(",")
			}
			e.canon(u, b)
		}
		b.WriteString("]")
	case KDict:
		b.WriteString("{")
		for i, k := range v.Keys() {
			if i > 0 {
				b.WriteString(",")
			}
			fmt.Fprintf(b, "%d:", k)
			v.M[k].canon(u, b)
		}
		b.WriteString("}")
	}
}

// Resources appends all resources of the tree, children before parents (the
// order in which nested destruction proceeds does not matter to the model).
func (v *Val) Resources(out []*Val) []*Val {
	if v == nil {
		return out
	}
	switch v.K {
	case KRes:
		for _, f := range v.F {
			out = f.Resources(out)
		}
		out = append(out, v)
	case KOpt:
		out = v.In.Resources(out)
	case KArr:
		for _, e := range v.El {
			out = e.Resources(out)
		}
	case KDict:
		for _, k := range v.Keys() {
			out = v.M[k].Resources(out)
		}
	}
	return out
}

// UUIDs lists the uuids of all resources in the tree.
func (v *Val) UUIDs() []uint64 {
	var out []uint64
	for _, r := range v.Resources(nil) {
		out = append(out, r.UUID)
	}
	return out
}

// Event is an expected (or observed) event in comparable form.
type Event struct {
	Type   string   `json:"type"`
	Names  []string `json:"names"`
	Types  []string `json:"types"`         // cadence type IDs of the field values' declared types
	Values []string `json:"values"`        // cadence String() forms
	Dyn    []string `json:"dyn,omitempty"` // observed events only: type IDs of the values' own (dynamic) types
}

// TypeID converts a declared type as written in source ("Int?", "String") to the
// canonical type ID ("(Int)?", "String").
func TypeID(decl string) string {
	if strings.HasSuffix(decl, "?") {
		return "(" + TypeID(strings.TrimSuffix(decl, "?")) + ")?"
	}
	return decl
}

func (e Event) String() string {
	var parts []string
	for i := range e.Names {
		parts = append(parts, fmt.Sprintf("%s: %s = %s", e.Names[i], e.Types[i], e.Values[i]))
	}
	return e.Type + "(" + strings.Join(parts, ", ") + ")"
}

// ID returns the value of the id parameter of a resource destruction event.
func (e Event) Field(name string) (string, bool) {
	for i, n := range e.Names {
		if n == name {
			return e.Values[i], true
		}
	}
	return "", false
}

// destroyEvents returns the events the destruction of the tree v emits.
func (u *Universe) destroyEvents(v *Val) []Event {
	var out []Event
	for _, r := range v.Resources(nil) {
		for _, a := range r.Atts {
			if ev, ok := u.attEvent(a, r); ok {
				out = append(out, ev)
			}
		}
		out = append(out, u.resEvents(r)...)
	}
	return out
}

func (u *Universe) resEvents(r *Val) []Event {
	rt := u.Res[r.R]
	var out []Event
	if rt.Iface {
		out = append(out, Event{Type: IfaceEventTypeID, Names: []string{"iid", "inn"}, Types: []string{"UInt64", "Int"},
			Values: []string{fmt.Sprint(r.UUID), fmt.Sprint(r.N)}})
	}
	ev := Event{Type: rt.EventTypeID()}
	for _, p := range rt.Ev {
		ev.Names = append(ev.Names, p.Name)
		ev.Types = append(ev.Types, TypeID(p.Type))
		ev.Values = append(ev.Values, p.eval(r))
	}
	return append(out, ev)
}

func (u *Universe) attEvent(a *Att, base *Val) (Event, bool) {
	at := u.Atts[a.T]
	if !at.HasEvent {
		return Event{}, false
	}
	ev := Event{Type: at.EventTypeID()}
	for _, p := range at.Ev {
		ev.Names = append(ev.Names, p.Name)
		ev.Types = append(ev.Types, TypeID(p.Type))
		ev.Values = append(ev.Values, p.evalAtt(a, base))
	}
	return ev, true
}

// Store is the persistent part of the model: account storage and the contract's vault.
type Store struct {
	// Acct[account number][path identifier] = value
	Acct  map[uint64]map[string]*Val
	Types map[string]*Ty // "acct/path" -> static type the value was saved with
	Vault map[int]*Val
	UUID  uint64 // last uuid handed out
}

func newStore() *Store {
	return &Store{Acct: map[uint64]map[string]*Val{}, Types: map[string]*Ty{}, Vault: map[int]*Val{}}
}

func (s *Store) clone(m map[*Val]*Val) *Store {
	c := newStore()
	c.UUID = s.UUID
	for a, ps := range s.Acct {
		c.Acct[a] = map[string]*Val{}
		for p, v := range ps {
			c.Acct[a][p] = v.clone(m)
		}
	}
	for k, t := range s.Types {
		c.Types[k] = t
	}
	for k, v := range s.Vault {
		c.Vault[k] = v.clone(m)
	}
	return c
}

// Census is the canonical description of everything stored: location -> Canon.
// Locations: "<acct>/storage/<path>" and "vault/<key>".
func (s *Store) Census(u *Universe) map[string]string {
	out := map[string]string{}
	for a, ps := range s.Acct {
		for p, v := range ps {
			out[fmt.Sprintf("%d/storage/%s", a, p)] = v.Canon(u)
		}
	}
	for k, v := range s.Vault {
		out[fmt.Sprintf("vault/%d", k)] = v.Canon(u)
	}
	return out
}

// StoredUUIDs lists the uuids of all stored resources (sorted).
func (s *Store) StoredUUIDs() []uint64 {
	var out []uint64
	for _, ps := range s.Acct {
		for _, v := range ps {
			out = append(out, v.UUIDs()...)
		}
	}
	for _, v := range s.Vault {
		out = append(out, v.UUIDs()...)
	}
	sort.Slice(out, func(i, j int) bool { return out[i] < out[j] })
	return out
}
