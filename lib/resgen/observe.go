package resgen

import (
	"encoding/json"
	"fmt"
	"sort"
	"strings"

	"github.com/onflow/cadence"
	jsoncdc "github.com/onflow/cadence/encoding/json"
)

// ObserveEvent converts an event delivered to the host into the comparable form.
// Field order is taken from the payload's wire form (what a host sees), the
// declared field types from the event type carried by the payload.
func ObserveEvent(ev cadence.Event) (Event, error) {
	if ev.EventType == nil {
		return Event{}, fmt.Errorf("event without type")
	}
	out := Event{Type: ev.EventType.ID()}
	b, err := jsoncdc.Encode(ev)
	if err != nil {
		return out, fmt.Errorf("event %s cannot be encoded: %w", out.Type, err)
	}
	var wire struct {
		Value struct {
			ID     string `json:"id"`
			Fields []struct {
				Name string `json:"name"`
			} `json:"fields"`
		} `json:"value"`
	}
	if err := json.Unmarshal(b, &wire); err != nil {
		return out, err
	}
	if wire.Value.ID != out.Type {
		return out, fmt.Errorf("wire type id %q differs from event type id %q", wire.Value.ID, out.Type)
	}
	types := ev.EventType.FieldsMappedByName()
	values := ev.FieldsMappedByName()
	if len(types) != len(wire.Value.Fields) || len(values) != len(wire.Value.Fields) {
		return out, fmt.Errorf("event %s: %d wire fields, %d typed fields, %d values", out.Type, len(wire.Value.Fields), len(types), len(values))
	}
	for _, f := range wire.Value.Fields {
		t, ok := types[f.Name]
		v, ok2 := values[f.Name]
		if !ok || !ok2 || t == nil || v == nil {
			return out, fmt.Errorf("event %s: field %q has no type or value", out.Type, f.Name)
		}
		out.Names = append(out.Names, f.Name)
		out.Types = append(out.Types, t.ID())
		out.Values = append(out.Values, v.String())
		dyn := "<nil type>"
		if vt := v.Type(); vt != nil {
			dyn = vt.ID()
		}
		out.Dyn = append(out.Dyn, dyn)
	}
	return out, nil
}

// IsDestroyEvent reports whether the type id is a default destruction event.
func IsDestroyEvent(typeID string) bool { return strings.HasSuffix(typeID, ".ResourceDestroyed") }

// SortedStrings renders events as sorted strings (multiset comparison).
func SortedStrings(evs []Event) []string {
	out := make([]string, len(evs))
	for i, e := range evs {
		out[i] = e.String()
	}
	sort.Strings(out)
	return out
}
