package resgen

import (
	"fmt"
	"sort"
	"strings"

	"verif/lib/prog"
)

// RefContract is the fixed contract of the reference-invalidation scenarios (C04).
const RefContract = `access(all) contract C {
  access(all) resource R {
    access(all) var n: Int
    access(all) var child: @R?
    access(all) var arr: @[R]
    access(all) var dict: @{Int: R}
    access(all) var deep: @R??
    access(all) var oarr: @[R??]
    access(all) var odict: @{Int: R?}
    init(_ n: Int) { self.n = n; self.child <- nil; self.arr <- []; self.dict <- {}; self.deep <- nil; self.oarr <- []; self.odict <- {} }
    access(all) fun getN(): Int { return self.n }
    access(all) fun setN(_ n: Int) { self.n = n }
    access(all) fun setChild(_ c: @R) { self.child <-! c }
    access(all) fun push(_ c: @R) { self.arr.append(<- c) }
    access(all) fun put(_ k: Int, _ c: @R) { self.dict[k] <-! c }
    access(all) fun childRef(): &R { return (&self.child as &R?)! }
    access(all) fun arrRef(_ i: Int): &R { return &self.arr[i] as &R }
    access(all) fun dictRef(_ k: Int): &R { return (&self.dict[k] as &R?)! }
    access(all) fun takeChild(): @R { let c <- self.child <- nil; return <- c! }
    access(all) fun popArr(_ i: Int): @R { return <- self.arr.remove(at: i) }
    access(all) fun dropDict(_ k: Int): @R { return <- self.dict.remove(key: k)! }
    access(all) fun setDeep(_ c: @R) { self.deep <-! c }
    access(all) fun pushO(_ c: @R) { self.oarr.append(<- c) }
    access(all) fun putO(_ k: Int, _ c: @R) { self.odict[k] <-! c }
    access(all) fun deepRef(): &R { return (&self.deep as &R??)!! }
    access(all) fun oarrRef(_ i: Int): &R { return (&self.oarr[i] as &R??)!! }
    access(all) fun odictRef(_ k: Int): &R { return (&self.odict[k] as &R??)!! }
    access(all) fun takeDeep(): @R { let c <- self.deep <- nil; return <- c!! }
    access(all) fun popO(_ i: Int): @R { return <- self.oarr.remove(at: i)!! }
    access(all) fun dropO(_ k: Int): @R { return <- self.odict.remove(key: k)!! }
  }
  access(all) attachment A for R {
    access(all) var y: Int
    init(_ y: Int) { self.y = y }
    access(all) fun getY(): Int { return self.y }
    access(all) fun baseN(): Int { return base.n }
  }
  access(all) struct Holder { access(all) let ref: &R; init(_ r: &R) { self.ref = r } }
  access(all) struct AHolder { access(all) let ref: &A; init(_ r: &A) { self.ref = r } }
  access(all) fun mk(_ n: Int): @R { return <- create R(n) }
  access(all) fun consume(_ r: @R) { destroy r }
  access(all) fun pass(_ r: @R): @R { return <- r }
  access(all) fun id(_ r: &R): &R { return r }
  access(all) fun idA(_ r: &A): &A { return r }
}`

// rnode is a node of the resource tree of a scenario.
type rnode struct {
	id     int
	n      int
	child  *rnode
	arr    []*rnode
	dict   map[int]*rnode
	deep   *rnode         // field deep: @R?? (two optional levels)
	oarr   []*rnode       // field oarr: @[R??]
	odict  map[int]*rnode // field odict: @{Int: R?} (a lookup yields R??)
	att    int            // -1: none, else y
	parent *rnode
	edge   string // "child" | "arr" | "dict" | "deep" | "oarr" | "odict" (how the parent holds it); index/key looked up dynamically
}

func (x *rnode) dictKeys() []int {
	var ks []int
	for k := range x.dict {
		ks = append(ks, k)
	}
	sort.Ints(ks)
	return ks
}

func (x *rnode) odictKeys() []int {
	var ks []int
	for k := range x.odict {
		ks = append(ks, k)
	}
	sort.Ints(ks)
	return ks
}

func (x *rnode) all(out []*rnode) []*rnode {
	out = append(out, x)
	if x.child != nil {
		out = x.child.all(out)
	}
	if x.deep != nil {
		out = x.deep.all(out)
	}
	for _, c := range x.oarr {
		out = c.all(out)
	}
	for _, k := range x.odictKeys() {
		out = x.odict[k].all(out)
	}
	for _, c := range x.arr {
		out = c.all(out)
	}
	for _, k := range x.dictKeys() {
		out = x.dict[k].all(out)
	}
	return out
}

func (x *rnode) depth() int {
	d := 0
	for p := x.parent; p != nil; p = p.parent {
		d++
	}
	return d
}

func (x *rnode) isAncestorOrSelf(of *rnode) bool {
	for p := of; p != nil; p = p.parent {
		if p == x {
			return true
		}
	}
	return false
}

func (x *rnode) shape() string {
	var b strings.Builder
	b.WriteString("(")
	if x.att >= 0 {
		b.WriteString("@")
	}
	if x.child != nil {
		b.WriteString("c" + x.child.shape())
	}
	for _, c := range x.arr {
		b.WriteString("a" + c.shape())
	}
	for _, k := range x.dictKeys() {
		b.WriteString("d" + x.dict[k].shape())
	}
	if x.deep != nil {
		b.WriteString("D" + x.deep.shape())
	}
	for _, c := range x.oarr {
		b.WriteString("A" + c.shape())
	}
	for _, k := range x.odictKeys() {
		b.WriteString("O" + x.odict[k].shape())
	}
	b.WriteString(")")
	return b.String()
}

// RefCase is one reference-invalidation scenario with the model's expectation.
type RefCase struct {
	Prog prog.History `json:"prog"`
	// description (class labels)
	Shape    string `json:"shape"`
	Holder   string `json:"holder"`   // where the root lives: var | arr | dict | opt | storage
	Route    string `json:"route"`    // how the reference escapes the static analysis
	Target   string `json:"target"`   // path of the referenced node from the root
	Relation string `json:"relation"` // victim of the relocation relative to the target: self | ancestor | descendant | other | none
	Reloc    string `json:"reloc"`    // relocation form
	Use      string `json:"use"`
	Depth    int    `json:"depth"` // depth of the target below the root
	Through  bool   `json:"through_container"`
	// DoubleOptional: the target sits behind two optional levels somewhere between the holder and itself
	DoubleOptional bool `json:"double_optional"`
	// expectation
	Invalid  bool     `json:"invalid"`             // the use must fail
	FailKind string   `json:"fail_kind,omitempty"` // expected root error type
	Logs     []string `json:"logs"`                // expected log lines

	storageValue *string // a storage reference now reaches another value with this n
}

type refGen struct {
	s      Src
	lines  []string
	nid    int
	nvar   int
	owners []string // live resource-typed local variables (destroyed at the end)
}

func (g *refGen) emit(f string, a ...any) { g.lines = append(g.lines, "    "+fmt.Sprintf(f, a...)) }
func (g *refGen) fresh(p string) string   { g.nvar++; return fmt.Sprintf("%s%d", p, g.nvar) }

func (g *refGen) tree(depth, budget int) *rnode {
	g.nid++
	x := &rnode{id: g.nid, n: 10 + g.nid, att: -1, dict: map[int]*rnode{}, odict: map[int]*rnode{}}
	if chance(g.s, 1, 4) {
		x.att = 40 + g.nid
	}
	if depth >= 3 {
		return x
	}
	if chance(g.s, 1, 2) {
		x.child = g.tree(depth+1, budget)
		x.child.parent, x.child.edge = x, "child"
	}
	for i, n := 0, g.s.Intn(3); i < n && g.nid < budget; i++ {
		c := g.tree(depth+1, budget)
		c.parent, c.edge = x, "arr"
		x.arr = append(x.arr, c)
	}
	for i, n := 0, g.s.Intn(3); i < n && g.nid < budget; i++ {
		c := g.tree(depth+1, budget)
		c.parent, c.edge = x, "dict"
		x.dict[3*i+g.s.Intn(3)] = c
	}
	// values behind two optional levels: field R??, elements of [R??], values of {Int: R?}
	if chance(g.s, 1, 2) && g.nid < budget {
		x.deep = g.tree(depth+1, budget)
		x.deep.parent, x.deep.edge = x, "deep"
	}
	for i, n := 0, g.s.Intn(2); i < n && g.nid < budget; i++ {
		c := g.tree(depth+1, budget)
		c.parent, c.edge = x, "oarr"
		x.oarr = append(x.oarr, c)
	}
	if chance(g.s, 1, 3) && g.nid < budget {
		c := g.tree(depth+1, budget)
		c.parent, c.edge = x, "odict"
		x.odict[g.s.Intn(5)] = c
	}
	return x
}

// build emits the creation of the tree bottom-up and returns the variable holding x.
func (g *refGen) build(x *rnode) string {
	var cv string
	if x.child != nil {
		cv = g.build(x.child)
	}
	var avs []string
	for _, c := range x.arr {
		avs = append(avs, g.build(c))
	}
	keys := x.dictKeys()
	var dvs []string
	for _, k := range keys {
		dvs = append(dvs, g.build(x.dict[k]))
	}
	var deepv string
	if x.deep != nil {
		deepv = g.build(x.deep)
	}
	var oavs []string
	for _, c := range x.oarr {
		oavs = append(oavs, g.build(c))
	}
	okeys := x.odictKeys()
	var odvs []string
	for _, k := range okeys {
		odvs = append(odvs, g.build(x.odict[k]))
	}
	v := g.fresh("t")
	if x.att >= 0 {
		g.emit("let %s <- attach C.A(%d) to <- C.mk(%d)", v, x.att, x.n)
	} else {
		g.emit("let %s <- C.mk(%d)", v, x.n)
	}
	if cv != "" {
		g.emit("%s.setChild(<- %s)", v, cv)
	}
	for _, a := range avs {
		g.emit("%s.push(<- %s)", v, a)
	}
	for i, k := range keys {
		g.emit("%s.put(%d, <- %s)", v, k, dvs[i])
	}
	if deepv != "" {
		g.emit("%s.setDeep(<- %s)", v, deepv)
	}
	for _, a := range oavs {
		g.emit("%s.pushO(<- %s)", v, a)
	}
	for i, k := range okeys {
		g.emit("%s.putO(%d, <- %s)", v, k, odvs[i])
	}
	return v
}

// step renders the access from a reference expression e (denoting x's parent) to x.
func (g *refGen) step(e string, x *rnode, method bool) string {
	p := x.parent
	switch x.edge {
	case "child":
		if method {
			return e + ".childRef()"
		}
		return e + ".child!"
	case "arr":
		i := 0
		for j, c := range p.arr {
			if c == x {
				i = j
			}
		}
		if method {
			return fmt.Sprintf("%s.arrRef(%d)", e, i)
		}
		return fmt.Sprintf("%s.arr[%d]", e, i)
	case "deep":
		if method {
			return e + ".deepRef()"
		}
		return e + ".deep!!"
	case "oarr":
		i := 0
		for j, c := range p.oarr {
			if c == x {
				i = j
			}
		}
		return fmt.Sprintf("%s.oarrRef(%d)", e, i)
	case "odict":
		k := 0
		for kk, c := range p.odict {
			if c == x {
				k = kk
			}
		}
		return fmt.Sprintf("%s.odictRef(%d)", e, k)
	default:
		k := 0
		for kk, c := range p.dict {
			if c == x {
				k = kk
			}
		}
		// (indexing a dictionary of resources through a reference expression is typed as a
		// resource move by the checker, so dictionary edges always go through the method)
		return fmt.Sprintf("%s.dictRef(%d)", e, k)
	}
}

func (g *refGen) pathExpr(rootRef string, x *rnode, methods bool) string {
	var chain []*rnode
	for p := x; p.parent != nil; p = p.parent {
		chain = append([]*rnode{p}, chain...)
	}
	e := rootRef
	// The checker types `f().arr` (member access on a call result) as a resource, so after a
	// method step the array/dictionary steps must be method calls, too (`.child!` is fine).
	afterCall := false
	for _, c := range chain {
		m := methods && chance(g.s, 1, 2)
		if afterCall && c.edge != "child" && c.edge != "deep" {
			m = true
		}
		if c.edge == "oarr" || c.edge == "odict" {
			m = true
		}
		if c.edge == "dict" && !m && chance(g.s, 1, 2) {
			// both spellings of a dictionary step on a reference
			k := 0
			for kk, d := range c.parent.dict {
				if d == c {
					k = kk
				}
			}
			e = fmt.Sprintf("%s.dict[%d]!", e, k)
			afterCall = true
			continue
		}
		if c.edge == "dict" {
			m = true
		}
		e = g.step(e, c, m)
		if m || c.edge == "child" || c.edge == "deep" {
			afterCall = true // also after a force-unwrap
		}
	}
	return e
}

func pathName(x *rnode) string {
	var parts []string
	for p := x; p.parent != nil; p = p.parent {
		parts = append([]string{p.edge}, parts...)
	}
	if len(parts) == 0 {
		return "root"
	}
	return strings.Join(parts, ".")
}

// detach removes x from its parent in the model.
func detach(x *rnode) {
	p := x.parent
	switch x.edge {
	case "child":
		p.child = nil
	case "arr":
		for i, c := range p.arr {
			if c == x {
				p.arr = append(p.arr[:i:i], p.arr[i+1:]...)
				break
			}
		}
	case "dict":
		for k, c := range p.dict {
			if c == x {
				delete(p.dict, k)
			}
		}
	case "deep":
		p.deep = nil
	case "oarr":
		for i, c := range p.oarr {
			if c == x {
				p.oarr = append(p.oarr[:i:i], p.oarr[i+1:]...)
				break
			}
		}
	case "odict":
		for k, c := range p.odict {
			if c == x {
				delete(p.odict, k)
			}
		}
	}
	x.parent = nil
}

// GenRefCase draws a scenario.
func GenRefCase(s Src) *RefCase {
	g := &refGen{s: s}
	c := &RefCase{}
	root := g.tree(0, 3+s.Intn(6))
	c.Shape = root.shape()
	rv := g.build(root)

	// where the root lives
	holders := []string{"var", "arr", "dict", "opt", "storage", "var", "opt2", "arropt"}
	c.Holder = holders[s.Intn(len(holders))]
	var rootRef string
	switch c.Holder {
	case "var":
		g.emit("var r <- %s", rv)
		rootRef = "(&r as &C.R)"
		g.owners = append(g.owners, "r")
	case "arr":
		g.emit("var hold: @[C.R] <- [<- C.mk(1), <- %s]", rv)
		rootRef = "(&hold[1] as &C.R)"
		g.owners = append(g.owners, "hold")
	case "dict":
		g.emit("var hold: @{Int: C.R} <- {7: <- %s, 8: <- C.mk(1)}", rv)
		rootRef = "(&hold[7] as &C.R?)!"
		g.owners = append(g.owners, "hold")
	case "opt":
		g.emit("var hold: @C.R? <- %s", rv)
		rootRef = "(&hold as &C.R?)!"
		g.owners = append(g.owners, "hold")
	case "opt2":
		g.emit("var hold: @C.R?? <- %s", rv)
		rootRef = "(&hold as &C.R??)!!"
		g.owners = append(g.owners, "hold")
	case "arropt":
		g.emit("var hold: @[C.R??] <- [<- C.mk(1), <- %s]", rv)
		rootRef = "(&hold[1] as &C.R??)!!"
		g.owners = append(g.owners, "hold")
	case "storage":
		g.emit("a.storage.save(<- %s, to: /storage/root)", rv)
		rootRef = "a.storage.borrow<&C.R>(from: /storage/root)!"
	}

	// a reference variable to the root is the base of every access path (the checker tracks
	// it, so it is not used after a relocation of the root)
	rootExpr := rootRef
	g.emit("let rr = %s", rootRef)
	rootRef = "rr"

	// target and reference
	nodes := root.all(nil)
	target := nodes[s.Intn(len(nodes))]
	if chance(s, 1, 4) || (c.Holder == "storage" && chance(s, 1, 3)) {
		target = root
	} else if chance(s, 1, 3) { // prefer deep targets
		for _, x := range nodes {
			if x.depth() > target.depth() {
				target = x
			}
		}
	}
	c.Target, c.Depth = pathName(target), target.depth()
	for p := target; p.parent != nil; p = p.parent {
		if p.edge != "child" {
			c.Through = true
		}
	}
	if c.Holder != "var" && c.Holder != "storage" {
		c.Through = true
	}
	for p := target; p.parent != nil; p = p.parent {
		if p.edge == "deep" || p.edge == "oarr" || p.edge == "odict" {
			c.DoubleOptional = true
		}
	}
	if c.Holder == "opt2" || c.Holder == "arropt" {
		c.DoubleOptional = true
	}
	toAtt := target.att >= 0 && chance(s, 1, 3) && !(c.Holder == "storage" && target == root)
	expr := g.pathExpr(rootRef, target, true)
	if target == root && chance(s, 1, 2) {
		expr = rootExpr // a second reference object to the root instead of rr itself
	}
	if chance(s, 1, 2) {
		// another reference to the same node, taken first: every reference must be invalidated, not only the first
		g.emit("let decoy = C.id(%s)", g.pathExpr(rootRef, target, true))
	}
	var use string // expression denoting the routed reference
	routes := []string{"fun", "struct", "array", "dictref", "optref"}
	c.Route = routes[s.Intn(len(routes))]
	T, idf, hold := "&C.R", "C.id", "C.Holder"
	if toAtt {
		expr = "C.id(" + expr + ")[C.A]!"
		T, idf, hold = "&C.A", "C.idA", "C.AHolder"
		c.Route += "+attachment"
	}
	switch strings.TrimSuffix(c.Route, "+attachment") {
	case "fun":
		g.emit("let ref = %s(%s)", idf, expr)
		use = "ref"
	case "struct":
		g.emit("let h = %s(%s)", hold, expr)
		use = "h.ref"
	case "array":
		g.emit("let refs: [%s] = [%s]", T, expr)
		use = "refs[0]"
	case "dictref":
		g.emit("let refs: {Int: %s} = {1: %s}", T, expr)
		use = "refs[1]!"
	default:
		g.emit("let oref: %s? = %s(%s)", T, idf, expr)
		use = "oref!"
	}

	// relocation
	relocated := g.relocate(c, root, target, rootRef)

	// use
	c.Logs = []string{`"pre"`}
	g.emit(`log("pre")`)
	c.Invalid = relocated
	val := ""
	if toAtt {
		switch s.Intn(2) {
		case 0:
			c.Use = "att.getY()"
			g.emit("log(%s.getY())", use)
			val = fmt.Sprint(target.att)
		default:
			c.Use = "att.baseN()"
			g.emit("log(%s.baseN())", use)
			val = fmt.Sprint(target.n)
		}
	} else {
		switch s.Intn(6) {
		case 0:
			c.Use = "field"
			g.emit("log(%s.n)", use)
			val = fmt.Sprint(target.n)
		case 1:
			c.Use = "method"
			g.emit("log(%s.getN())", use)
			val = fmt.Sprint(target.n)
		case 2:
			c.Use = "nested-array"
			g.emit("log(%s.arr.length)", use)
			val = fmt.Sprint(len(target.arr))
		case 3:
			c.Use = "nested-optional"
			g.emit("log(%s.child?.n)", use)
			val = "nil"
			if target.child != nil {
				val = fmt.Sprint(target.child.n)
			}
		case 4:
			c.Use = "mutate"
			g.emit("%s.setN(5)", use)
			g.emit("log(%s.n)", use)
			val = "5"
		default:
			c.Use = "nested-dict"
			g.emit("log(%s.dict.length)", use)
			val = fmt.Sprint(len(target.dict))
		}
	}
	if c.FailKind == "" && c.Invalid {
		c.FailKind = "InvalidatedResourceReferenceError"
	}
	if c.storageValue != nil {
		// a storage reference reaches whatever is stored now
		c.Invalid = false
		val = *c.storageValue
		switch c.Use {
		case "nested-array", "nested-dict":
			val = "0"
		case "nested-optional":
			val = "nil"
		case "mutate":
			val = "5"
		}
	}
	if !c.Invalid {
		c.Logs = append(c.Logs, val, `"post"`)
	}
	g.emit(`log("post")`)
	for _, o := range g.owners {
		g.emit("destroy %s", o)
	}
	src := "import C from 0x1\naccess(all) fun passOO(_ x: @C.R??): @C.R?? { return <- x }\naccess(all) fun passAO(_ x: @[C.R??]): @[C.R??] { return <- x }\ntransaction {\n  prepare(a: auth(Storage) &Account) {\n" + strings.Join(g.lines, "\n") + "\n  }\n}\n"
	c.Prog = prog.History{Origin: "resgen/refs", Steps: []prog.Step{
		{Kind: prog.Deploy, Name: "C", Source: RefContract, Signers: []uint64{1}},
		{Kind: prog.Tx, Source: src, Signers: []uint64{1}, MayFail: c.Invalid},
	}}
	return c
}

// relocate emits one relocation (or a control) and reports whether the target's
// reference must be invalid afterwards.
func (g *refGen) relocate(c *RefCase, root, target *rnode, rootRef string) bool {
	s := g.s
	nodes := root.all(nil)
	// choose the victim by relation
	var victim *rnode
	rel := []string{"self", "ancestor", "descendant", "other", "none"}[weighted(s, []int{4, 5, 2, 2, 1})]
	pick := func(f func(*rnode) bool) *rnode {
		var c []*rnode
		for _, x := range nodes {
			if f(x) {
				c = append(c, x)
			}
		}
		if len(c) == 0 {
			return nil
		}
		return c[s.Intn(len(c))]
	}
	switch rel {
	case "self":
		victim = target
	case "ancestor":
		victim = pick(func(x *rnode) bool { return x != target && x.isAncestorOrSelf(target) })
		if victim != nil && chance(s, 1, 2) {
			victim = root
		}
	case "descendant":
		victim = pick(func(x *rnode) bool { return x != target && target.isAncestorOrSelf(x) })
	case "other":
		victim = pick(func(x *rnode) bool { return !x.isAncestorOrSelf(target) && !target.isAncestorOrSelf(x) })
	}
	if victim == nil {
		if rel == "ancestor" {
			victim, rel = target, "self"
		} else {
			rel = "none"
		}
	}
	c.Relation = rel
	if rel == "none" {
		if chance(s, 1, 2) {
			c.Reloc = "none"
		} else {
			// mutate the target through another path: visible through the reference, nothing moves
			c.Reloc = "mutate-in-place"
			g.emit("%s.setN(77)", g.pathExpr(rootRef, target, false))
			target.n = 77
		}
		return false
	}
	invalid := victim.isAncestorOrSelf(target)
	if victim.parent != nil {
		// nested victim: taken out through a method of its parent (reached by a reference)
		pe := g.pathExpr(rootRef, victim.parent, false)
		x := g.fresh("x")
		switch victim.edge {
		case "child":
			c.Reloc = "method-take-child"
			g.emit("let %s <- %s.takeChild()", x, pe)
		case "arr":
			i := 0
			for j, e := range victim.parent.arr {
				if e == victim {
					i = j
				}
			}
			c.Reloc = "method-remove-array-element"
			g.emit("let %s <- %s.popArr(%d)", x, pe, i)
		case "deep":
			c.Reloc = "method-take-double-optional"
			g.emit("let %s <- %s.takeDeep()", x, pe)
		case "oarr":
			i := 0
			for j, e := range victim.parent.oarr {
				if e == victim {
					i = j
				}
			}
			c.Reloc = "method-remove-optional-array-element"
			g.emit("let %s <- %s.popO(%d)", x, pe, i)
		case "odict":
			k := 0
			for kk, e := range victim.parent.odict {
				if e == victim {
					k = kk
				}
			}
			c.Reloc = "method-remove-optional-dict-element"
			g.emit("let %s <- %s.dropO(%d)", x, pe, k)
		default:
			k := 0
			for kk, e := range victim.parent.dict {
				if e == victim {
					k = kk
				}
			}
			c.Reloc = "method-remove-dict-element"
			g.emit("let %s <- %s.dropDict(%d)", x, pe, k)
		}
		detach(victim)
		g.owners = append(g.owners, x)
		return invalid
	}
	// the root is the victim: depends on where it lives
	own := func(v string) { g.owners = append(g.owners, v) }
	drop := func(v string) {
		for i, o := range g.owners {
			if o == v {
				g.owners = append(g.owners[:i:i], g.owners[i+1:]...)
			}
		}
	}
	switch c.Holder {
	case "var":
		forms := []string{"move-var", "destroy", "into-array", "into-dict", "into-optional", "save", "function-consume", "function-pass",
			"swap", "force-assign", "nest-in-resource", "attach", "append-to-array", "into-double-optional", "function-pass"}
		c.Reloc = forms[s.Intn(len(forms))]
		if c.Reloc == "attach" && root.att >= 0 {
			c.Reloc = "move-var"
		}
		drop("r")
		switch c.Reloc {
		case "move-var":
			g.emit("let r2 <- r")
			own("r2")
		case "destroy":
			g.emit("destroy r")
		case "into-array":
			g.emit("let c2: @[C.R] <- [<- r]")
			own("c2")
		case "into-dict":
			g.emit("let c2: @{Int: C.R} <- {1: <- r}")
			own("c2")
		case "into-optional":
			g.emit("let c2: @C.R? <- r")
			own("c2")
		case "save":
			g.emit("a.storage.save(<- r, to: /storage/moved)")
		case "function-consume":
			g.emit("C.consume(<- r)")
		case "function-pass":
			g.emit("let r2 <- C.pass(<- r)")
			own("r2")
		case "swap":
			g.emit("var other <- C.mk(99)")
			g.emit("r <-> other")
			own("r")
			own("other")
		case "force-assign":
			g.emit("var c2: @C.R? <- nil")
			g.emit("c2 <-! r")
			own("c2")
		case "nest-in-resource":
			g.emit("let p2 <- C.mk(98)")
			g.emit("p2.setChild(<- r)")
			own("p2")
		case "attach":
			g.emit("let r2 <- attach C.A(5) to <- r")
			own("r2")
		case "append-to-array":
			g.emit("var c2: @[C.R] <- []")
			g.emit("c2.append(<- r)")
			own("c2")
		case "into-double-optional":
			g.emit("let c2: @C.R?? <- r")
			own("c2")
		}
	case "arr":
		forms := []string{"array-remove", "move-container", "destroy-container", "swap-element", "save-container", "remove-sibling-before"}
		c.Reloc = forms[s.Intn(len(forms))]
		switch c.Reloc {
		case "array-remove":
			g.emit("let r2 <- hold.remove(at: 1)")
			own("r2")
		case "move-container":
			drop("hold")
			g.emit("let hold2 <- hold")
			own("hold2")
		case "destroy-container":
			drop("hold")
			g.emit("destroy hold")
		case "swap-element":
			g.emit("var other <- C.mk(99)")
			g.emit("hold[1] <-> other")
			own("other")
		case "save-container":
			drop("hold")
			g.emit("a.storage.save(<- hold, to: /storage/moved)")
		case "remove-sibling-before":
			// control: the element before the root leaves, the root only shifts its index
			g.emit("let r2 <- hold.remove(at: 0)")
			own("r2")
			c.Relation = "other"
			return false
		}
	case "dict":
		forms := []string{"dict-remove", "move-container", "destroy-container", "swap-element", "insert-overwrite", "remove-sibling"}
		c.Reloc = forms[s.Intn(len(forms))]
		switch c.Reloc {
		case "dict-remove":
			g.emit("let r2 <- hold.remove(key: 7)")
			own("r2")
		case "move-container":
			drop("hold")
			g.emit("let hold2 <- hold")
			own("hold2")
		case "destroy-container":
			drop("hold")
			g.emit("destroy hold")
		case "swap-element":
			g.emit("var other: @C.R? <- nil")
			g.emit("hold[7] <-> other")
			own("other")
		case "insert-overwrite":
			g.emit("let r2 <- hold.insert(key: 7, <- C.mk(99))")
			own("r2")
		case "remove-sibling":
			g.emit("let r2 <- hold.remove(key: 8)")
			own("r2")
			c.Relation = "other"
			return false
		}
	case "opt":
		forms := []string{"unwrap", "move-optional", "destroy-optional", "swap-optional", "double-transfer"}
		c.Reloc = forms[s.Intn(len(forms))]
		switch c.Reloc {
		case "unwrap":
			drop("hold")
			g.emit("let r2 <- hold!")
			own("r2")
		case "move-optional":
			drop("hold")
			g.emit("let hold2 <- hold")
			own("hold2")
		case "destroy-optional":
			drop("hold")
			g.emit("destroy hold")
		case "swap-optional":
			g.emit("var other: @C.R? <- C.mk(99)")
			g.emit("hold <-> other")
			own("other")
		case "double-transfer":
			g.emit("let r2 <- hold <- nil")
			own("r2")
		}
	case "opt2":
		forms := []string{"move-optional", "destroy-optional", "double-transfer", "function-pass", "into-array"}
		c.Reloc = forms[s.Intn(len(forms))]
		switch c.Reloc {
		case "move-optional":
			drop("hold")
			g.emit("let hold2 <- hold")
			own("hold2")
		case "destroy-optional":
			drop("hold")
			g.emit("destroy hold")
		case "double-transfer":
			g.emit("let r2 <- hold <- nil")
			own("r2")
		case "function-pass":
			drop("hold")
			g.emit("let hold2 <- passOO(<- hold)")
			own("hold2")
		case "into-array":
			drop("hold")
			g.emit("let hold2: @[C.R??] <- [<- hold]")
			own("hold2")
		}
	case "arropt":
		forms := []string{"array-remove", "move-container", "destroy-container", "function-pass", "remove-sibling-before"}
		c.Reloc = forms[s.Intn(len(forms))]
		switch c.Reloc {
		case "array-remove":
			g.emit("let r2 <- hold.remove(at: 1)")
			own("r2")
		case "move-container":
			drop("hold")
			g.emit("let hold2 <- hold")
			own("hold2")
		case "destroy-container":
			drop("hold")
			g.emit("destroy hold")
		case "function-pass":
			drop("hold")
			g.emit("let hold2 <- passAO(<- hold)")
			own("hold2")
		case "remove-sibling-before":
			g.emit("let r2 <- hold.remove(at: 0)")
			own("r2")
			c.Relation = "other"
			return false
		}
	case "storage":
		forms := []string{"load", "load-and-restore", "replace-same-type", "replace-other-type"}
		c.Reloc = forms[s.Intn(len(forms))]
		g.emit("let r2 <- a.storage.load<@C.R>(from: /storage/root)!")
		own("r2")
		switch c.Reloc {
		case "load":
			if target == root {
				c.FailKind = "DereferenceError" // storage reference, nothing stored
			}
		case "load-and-restore":
			drop("r2")
			g.emit("a.storage.save(<- r2, to: /storage/root)")
			if target == root {
				// the storage reference reaches the value stored now: the same resource again
				return false
			}
		case "replace-same-type":
			g.emit("a.storage.save(<- C.mk(66), to: /storage/root)")
			if target == root {
				v := "66"
				c.storageValue = &v
			}
		case "replace-other-type":
			g.emit("a.storage.save(<- [<- C.mk(66)], to: /storage/root)")
			if target == root {
				c.FailKind = "DereferenceError"
			}
		}
	}
	return invalid
}
