// Package resgen generates resource-linear Cadence programs (multi-transaction
// histories) together with the outcome an independent Go model of the resource
// semantics expects: which uuids are created, which destruction events are
// emitted with which payloads, what ends up in which storage location, what the
// program logs. The programs are linear by construction (typed holes filled from
// a linear environment), so the type checker accepts them; the accept rate is
// measured by the consumers (C02, C04, C48, C49).
//
// Nothing in the model calls into cadence: census.go (the Go-side walk over the
// committed ledger) is the only file that does, and it only decodes.
package resgen

import (
	"math/bits"
	"math/rand"

	"pgregory.net/rapid"
)

// Src is the source of choices of a generator.
type Src interface {
	// Intn returns a number in [0, n).
	Intn(n int) int
}

type randSrc struct{ r *rand.Rand }

func (s randSrc) Intn(n int) int {
	if n <= 1 {
		return 0
	}
	return s.r.Intn(n)
}

// FromRand adapts a PRNG.
func FromRand(r *rand.Rand) Src { return randSrc{r} }

type rapidSrc struct{ t *rapid.T }

// Intn draws uniformly: rapid's integer generators are deliberately biased
// towards small magnitudes (which would distort every weight of the generators),
// its booleans are not, so the number is assembled from boolean draws. All-false
// (what the shrinker aims for) is 0.
func (s rapidSrc) Intn(n int) int {
	if n <= 1 {
		return 0
	}
	k := bits.Len(uint(n-1)) + 3
	bs := rapid.SliceOfN(rapid.Bool(), k, k).Draw(s.t, "c")
	v := 0
	for _, b := range bs {
		v <<= 1
		if b {
			v |= 1
		}
	}
	return v % n
}

// FromRapid adapts a rapid test (choices shrink towards 0, so generators put the
// simplest alternative first).
func FromRapid(t *rapid.T) Src { return rapidSrc{t} }

// chance returns true with probability num/den.
func chance(s Src, num, den int) bool { return s.Intn(den) < num }

// weighted picks an index according to weights (zero weights are never picked);
// returns -1 when all weights are zero.
func weighted(s Src, w []int) int {
	tot := 0
	for _, x := range w {
		tot += x
	}
	if tot == 0 {
		return -1
	}
	k := s.Intn(tot)
	for i, x := range w {
		if k < x {
			return i
		}
		k -= x
	}
	return -1
}
