package resgen

import (
	"fmt"
	"strings"

	"verif/lib/prog"
)

// StructAttContract declares struct attachments (C49, value-semantics part).
const StructAttContract = `access(all) contract C {
  access(all) entitlement E
  access(all) struct interface HasX { access(all) var x: Int }
  access(all) struct S: HasX {
    access(all) var x: Int
    init(_ x: Int) { self.x = x }
    access(all) fun setX(_ x: Int) { self.x = x }
    access(E) fun guarded(): Int { return self.x }
  }
  access(all) attachment SA for S {
    access(all) var y: Int
    init(_ y: Int) { self.y = y }
    access(all) fun setY(_ y: Int) { self.y = y }
    access(all) fun baseX(): Int { return base.x }
    access(E) fun secret(): Int { return self.y * 2 + base.x }
  }
  access(all) attachment SB for HasX {
    access(all) let z: String
    init(_ z: String) { self.z = z }
    access(all) fun tag(): String { return self.z.concat(base.x.toString()) }
  }
}`

type sval struct {
	x  int
	sa *int
	sb *string
}

func (v sval) copy() sval {
	c := sval{x: v.x}
	if v.sa != nil {
		y := *v.sa
		c.sa = &y
	}
	if v.sb != nil {
		z := *v.sb
		c.sb = &z
	}
	return c
}

// StructAttCase is a multi-transaction sequence over struct values with attachments.
type StructAttCase struct {
	Prog   prog.History
	Expect []TxExpect // logs and intended failures per step (step 0 deploys)
	Stats  struct{ Attach, Remove, Copies, Storage, TwoAtts, Fails int }
}

// GenStructAttCase draws a sequence: attach (copying the base), access, mutation of base
// and attachment, copies (variables, arrays, function calls, storage round trips across
// transactions), remove, forEachAttachment, entitled access, duplicate attach.
func GenStructAttCase(s Src) *StructAttCase {
	c := &StructAttCase{}
	c.Prog.Origin = "resgen/structatt"
	c.Prog.Steps = append(c.Prog.Steps, prog.Step{Kind: prog.Deploy, Name: "C", Source: StructAttContract, Signers: []uint64{1}})
	c.Expect = append(c.Expect, TxExpect{})
	stored := map[string]sval{} // path -> value
	npath, nvar := 0, 0
	ntx := 1 + s.Intn(3)
	for t := 0; t < ntx; t++ {
		vars := map[string]sval{}
		var names []string
		var lines, logs []string
		failed, failKind := false, ""
		fresh := map[string]bool{} // paths written by this transaction
		before := map[string]sval{}
		for p, v := range stored {
			before[p] = v.copy()
		}
		emit := func(f string, a ...any) { lines = append(lines, "    "+fmt.Sprintf(f, a...)) }
		newVar := func(v sval, expr string) string {
			nvar++
			n := fmt.Sprintf("s%d", nvar)
			emit("var %s = %s", n, expr)
			vars[n] = v
			names = append(names, n)
			return n
		}
		pick := func() string { return names[s.Intn(len(names))] }
		x0 := 1 + s.Intn(9)
		newVar(sval{x: x0}, fmt.Sprintf("C.S(%d)", x0))
		nops := 3 + s.Intn(12)
		for i := 0; i < nops && !failed; i++ {
			n := pick()
			v := vars[n]
			switch s.Intn(14) {
			case 0:
				x := s.Intn(50)
				newVar(sval{x: x}, fmt.Sprintf("C.S(%d)", x))
			case 1: // attach SA (copy of the base gets it; the original stays as it was)
				y := s.Intn(50)
				if v.sa != nil {
					if chance(s, 1, 2) {
						emit("var dup = attach C.SA(%d) to %s", y, n)
						failed, failKind = true, "DuplicateAttachmentError"
						c.Stats.Fails++
					}
					continue
				}
				nv := v.copy()
				nv.sa = &y
				newVar(nv, fmt.Sprintf("attach C.SA(%d) to %s", y, n))
				c.Stats.Attach++
				if nv.sb != nil {
					c.Stats.TwoAtts++
				}
			case 2: // attach SB (declared for the interface HasX)
				if v.sb != nil {
					continue
				}
				z := fmt.Sprintf("z%d", s.Intn(9))
				nv := v.copy()
				nv.sb = &z
				newVar(nv, fmt.Sprintf("attach C.SB(%q) to %s", z, n))
				c.Stats.Attach++
				if nv.sa != nil {
					c.Stats.TwoAtts++
				}
			case 3: // copy through a variable, an array or a function
				switch s.Intn(3) {
				case 0:
					newVar(v.copy(), n)
				case 1:
					newVar(v.copy(), fmt.Sprintf("[%s][0]", n))
				default:
					newVar(v.copy(), fmt.Sprintf("pass(%s)", n))
				}
				c.Stats.Copies++
			case 4: // mutate the attachment in place
				if v.sa != nil {
					y := s.Intn(50)
					emit("%s[C.SA]!.setY(%d)", n, y)
					*v.sa = y
				}
			case 5: // mutate the base, read it through the attachment
				x := s.Intn(50)
				emit("%s.setX(%d)", n, x)
				v.x = x
				vars[n] = v
				emit("log(%s[C.SA]?.baseX())", n)
				if v.sa != nil {
					logs = append(logs, fmt.Sprint(x))
				} else {
					logs = append(logs, "nil")
				}
			case 6:
				emit("log(%s[C.SA]?.y)", n)
				if v.sa != nil {
					logs = append(logs, fmt.Sprint(*v.sa))
				} else {
					logs = append(logs, "nil")
				}
			case 7:
				emit("log(%s[C.SB]?.tag())", n)
				if v.sb != nil {
					logs = append(logs, fmt.Sprintf("%q", *v.sb+fmt.Sprint(v.x)))
				} else {
					logs = append(logs, "nil")
				}
			case 8:
				emit("log(%s[C.SA] == nil)", n)
				logs = append(logs, fmt.Sprint(v.sa == nil))
				emit("log(%s[C.SB] == nil)", n)
				logs = append(logs, fmt.Sprint(v.sb == nil))
			case 9: // remove (no error when absent)
				if chance(s, 1, 2) {
					emit("remove C.SA from %s", n)
					if v.sa != nil {
						c.Stats.Remove++
					}
					v.sa = nil
				} else {
					emit("remove C.SB from %s", n)
					if v.sb != nil {
						c.Stats.Remove++
					}
					v.sb = nil
				}
				vars[n] = v
			case 10: // storage: save a copy
				npath++
				p := fmt.Sprintf("s%d", npath)
				emit("a.storage.save(%s, to: /storage/%s)", n, p)
				stored[p] = v.copy()
				fresh[p] = true
				c.Stats.Storage++
			case 11: // storage: load or copy something saved by an earlier transaction
				var ps []string
				for p := range stored {
					if !fresh[p] {
						ps = append(ps, p)
					}
				}
				if len(ps) == 0 {
					continue
				}
				sortStrings(ps)
				p := ps[s.Intn(len(ps))]
				if chance(s, 1, 2) {
					newVar(stored[p].copy(), fmt.Sprintf("a.storage.copy<C.S>(from: /storage/%s)!", p))
				} else {
					newVar(stored[p].copy(), fmt.Sprintf("a.storage.load<C.S>(from: /storage/%s)!", p))
					delete(stored, p)
				}
				c.Stats.Storage++
			case 12: // forEachAttachment visits exactly the present set
				emit("var cnt%d = 0", i)
				if v.sa != nil && chance(s, 1, 2) {
					// access the attachment, then mutate the base: the callback must read the current base
					emit("log(%s[C.SA]?.y)", n)
					logs = append(logs, fmt.Sprint(*v.sa))
					x := s.Intn(50)
					emit("%s.setX(%d)", n, x)
					v.x = x
					vars[n] = v
				}
				emit("%s.forEachAttachment(fun (att: &AnyStructAttachment) { cnt%d = cnt%d + 1; if let t = att as? &C.SA { cnt%d = cnt%d + 100 + t.y + 7 * t.baseX() } })", n, i, i, i, i)
				emit("log(cnt%d)", i)
				tot := 0
				if v.sa != nil {
					tot += 101 + *v.sa + 7*v.x
				}
				if v.sb != nil {
					tot++
				}
				logs = append(logs, fmt.Sprint(tot))
			default: // entitled member through an authorized reference to the base
				if v.sa != nil {
					emit("log((&%s as auth(C.E) &C.S)[C.SA]!.secret())", n)
					logs = append(logs, fmt.Sprint(*v.sa*2+v.x))
				}
			}
		}
		src := "import C from 0x1\naccess(all) fun pass(_ s: C.S): C.S { return s }\ntransaction {\n  prepare(a: auth(Storage) &Account) {\n" +
			strings.Join(lines, "\n") + "\n  }\n}\n"
		c.Prog.Steps = append(c.Prog.Steps, prog.Step{Kind: prog.Tx, Source: src, Signers: []uint64{1}, MayFail: failed})
		if failed {
			c.Expect = append(c.Expect, TxExpect{Fails: true, FailKind: failKind})
			stored = before // rolled back
		} else {
			c.Expect = append(c.Expect, TxExpect{Logs: logs})
		}
	}
	return c
}

func sortStrings(xs []string) {
	for i := range xs {
		for j := i + 1; j < len(xs); j++ {
			if xs[j] < xs[i] {
				xs[i], xs[j] = xs[j], xs[i]
			}
		}
	}
}
