package resgen

import (
	"fmt"
	"strings"
)

// Kind of a resource-kinded type.
type Kind uint8

const (
	KRes  Kind = iota // resource composite R<i>
	KOpt              // T?
	KArr              // [T]
	KDict             // {Int: T}
)

// Ty is a resource-kinded type of the universe.
type Ty struct {
	K Kind
	R int // resource type index (KRes)
	E *Ty // element type (KOpt, KArr, KDict)
}

func TRes(i int) *Ty  { return &Ty{K: KRes, R: i} }
func TOpt(e *Ty) *Ty  { return &Ty{K: KOpt, E: e} }
func TArr(e *Ty) *Ty  { return &Ty{K: KArr, E: e} }
func TDict(e *Ty) *Ty { return &Ty{K: KDict, E: e} }

// Src prints the type (without the @ annotation); q qualifies composite names
// ("C." outside the contract, "" inside).
func (t *Ty) Src(q string) string {
	switch t.K {
	case KRes:
		return fmt.Sprintf("%sR%d", q, t.R)
	case KOpt:
		return t.E.Src(q) + "?"
	case KArr:
		return "[" + t.E.Src(q) + "]"
	default:
		return "{Int: " + t.E.Src(q) + "}"
	}
}

// Ann prints the type annotation.
func (t *Ty) Ann(q string) string { return "@" + t.Src(q) }

// ID is an identifier-safe name of the type.
func (t *Ty) ID() string {
	switch t.K {
	case KRes:
		return fmt.Sprintf("R%d", t.R)
	case KOpt:
		return "o" + t.E.ID()
	case KArr:
		return "a" + t.E.ID()
	default:
		return "d" + t.E.ID()
	}
}

func (t *Ty) Eq(o *Ty) bool {
	if t == nil || o == nil {
		return t == o
	}
	if t.K != o.K {
		return false
	}
	if t.K == KRes {
		return t.R == o.R
	}
	return t.E.Eq(o.E)
}

// Depth is the container nesting depth (a resource has depth 0).
func (t *Ty) Depth() int {
	if t.K == KRes {
		return 0
	}
	return 1 + t.E.Depth()
}

// Field is a resource-kinded field of a resource type.
type Field struct {
	Name string
	T    *Ty
}

// EvParam is one parameter of a default destruction event: the declaration and
// the model's evaluation of its default argument on a resource (the expected
// cadence value in its String() form).
type EvParam struct {
	Name    string
	Type    string // declared type = expected cadence type ID
	Default string // default argument expression
	// eval for resources; evalAtt for attachments (with their base).
	eval    func(r *Val) string
	evalAtt func(a *Att, base *Val) string
}

// ResType is a generated resource declaration.
type ResType struct {
	Idx    int
	Name   string
	Fields []Field
	Iface  bool // conforms to resource interface I, which declares its own ResourceDestroyed
	Ev     []EvParam
}

// AttType is a generated attachment declaration (for resource type Base).
type AttType struct {
	Idx      int
	Name     string
	Base     int
	HasEvent bool
	Ev       []EvParam
}

// Universe is the set of declarations of one history; printed as contract C at 0x1.
type Universe struct {
	Res  []*ResType
	Atts []*AttType
}

const (
	ContractName = "C"
	ContractAddr = 1
	// TypePrefix is the location-qualified prefix of every declared type.
	TypePrefix = "A.0000000000000001.C."
)

func fix8(n int, minusQuarter bool) string {
	// value n - 0.25 as Fix64/UFix64 string with 8 decimals
	if !minusQuarter {
		return fmt.Sprintf("%d.00000000", n)
	}
	if n <= 0 {
		// -(|n| + 0.25)
		return fmt.Sprintf("-%d.25000000", -n)
	}
	return fmt.Sprintf("%d.75000000", n-1)
}

// the pool of default-argument forms sema allows: literals of every literal kind,
// self.uuid, fields, nested struct field reads, dictionary indexing.
func resEvPool() []EvParam {
	return []EvParam{
		{Name: "id", Type: "UInt64", Default: "self.uuid", eval: func(r *Val) string { return fmt.Sprint(r.UUID) }},
		{Name: "n", Type: "Int", Default: "self.n", eval: func(r *Val) string { return fmt.Sprint(r.N) }},
		{Name: "tag", Type: "String", Default: "self.tag", eval: func(r *Val) string { return fmt.Sprintf("%q", fmt.Sprintf("t%d", r.N0)) }},
		{Name: "ix", Type: "Int", Default: "self.info.x", eval: func(r *Val) string { return fmt.Sprint(r.N0*3 + 1) }},
		{Name: "isx", Type: "String", Default: "self.info.s", eval: func(r *Val) string { return fmt.Sprintf("%q", fmt.Sprintf("i%d", r.N0)) }},
		{Name: "t", Type: "Int?", Default: `self.tags["a"]`, eval: func(r *Val) string { return fmt.Sprint(r.N0 * 2) }},
		{Name: "tm", Type: "Int?", Default: `self.tags["zz"]`, eval: func(r *Val) string { return "nil" }},
		{Name: "lit", Type: "String", Default: `"lit"`, eval: func(r *Val) string { return `"lit"` }},
		{Name: "p", Type: "StoragePath", Default: "/storage/zz", eval: func(r *Val) string { return "/storage/zz" }},
		{Name: "pp", Type: "PublicPath", Default: "/public/q", eval: func(r *Val) string { return "/public/q" }},
		{Name: "f", Type: "UFix64", Default: "1.5", eval: func(r *Val) string { return "1.50000000" }},
		{Name: "nn", Type: "Int?", Default: "nil", eval: func(r *Val) string { return "nil" }},
		{Name: "b", Type: "Bool", Default: "true", eval: func(r *Val) string { return "true" }},
		{Name: "ad", Type: "Address", Default: "0x2", eval: func(r *Val) string { return "0x0000000000000002" }},
		{Name: "neg", Type: "Int8", Default: "-3", eval: func(r *Val) string { return "-3" }},
		{Name: "fx", Type: "Fix64", Default: "self.fx", eval: func(r *Val) string { return fix8(r.N0, true) }},
		{Name: "w", Type: "Word16", Default: "65535", eval: func(r *Val) string { return "65535" }},
		{Name: "ch", Type: "String?", Default: `"é"`, eval: func(r *Val) string { return `"\u{e9}"` }},
	}
}

func attEvPool() []EvParam {
	return []EvParam{
		{Name: "y", Type: "Int", Default: "self.y", evalAtt: func(a *Att, b *Val) string { return fmt.Sprint(a.Y) }},
		{Name: "bn", Type: "Int", Default: "base.n", evalAtt: func(a *Att, b *Val) string { return fmt.Sprint(b.N) }},
		{Name: "bid", Type: "UInt64", Default: "base.uuid", evalAtt: func(a *Att, b *Val) string { return fmt.Sprint(b.UUID) }},
		{Name: "btag", Type: "String", Default: "base.tag", evalAtt: func(a *Att, b *Val) string { return fmt.Sprintf("%q", fmt.Sprintf("t%d", b.N0)) }},
		{Name: "lit", Type: "Bool", Default: "false", evalAtt: func(a *Att, b *Val) string { return "false" }},
	}
}

// UniverseOptions bound the generated declarations.
type UniverseOptions struct {
	MaxRes      int  // resource types (1..MaxRes)
	MaxFields   int  // resource-kinded fields per type
	Attachments int  // 0 = none, else up to that many attachment types
	DeepTypes   bool // allow container-of-container field types
	// AttEventsAlways gives every attachment a destruction event that carries y and the base's uuid.
	AttEventsAlways bool
}

// GenUniverse draws a universe.
func GenUniverse(s Src, o UniverseOptions) *Universe {
	if o.MaxRes < 1 {
		o.MaxRes = 1
	}
	u := &Universe{}
	nres := 1 + s.Intn(o.MaxRes)
	for i := 0; i < nres; i++ {
		u.Res = append(u.Res, &ResType{Idx: i, Name: fmt.Sprintf("R%d", i)})
	}
	for i, rt := range u.Res {
		nf := 1 + s.Intn(max1(o.MaxFields))
		if i > 0 && chance(s, 1, 4) {
			nf = 0 // a leaf type
		}
		for f := 0; f < nf; f++ {
			j := s.Intn(nres)
			var t *Ty
			switch s.Intn(8) {
			case 0, 1:
				t = TOpt(TRes(j))
			case 2, 3:
				t = TArr(TRes(j))
			case 4, 5:
				t = TDict(TRes(j))
			case 6:
				if i+1 < nres {
					t = TRes(i + 1 + s.Intn(nres-i-1)) // mandatory nested resource, only "downwards" (finite types)
				} else {
					t = TOpt(TRes(j))
				}
			default:
				if o.DeepTypes {
					switch s.Intn(3) {
					case 0:
						t = TArr(TArr(TRes(j)))
					case 1:
						t = TDict(TArr(TRes(j)))
					default:
						t = TArr(TDict(TRes(j)))
					}
				} else {
					t = TArr(TRes(j))
				}
			}
			rt.Fields = append(rt.Fields, Field{Name: fmt.Sprintf("f%d", f), T: t})
		}
		rt.Iface = chance(s, 1, 3)
		// event parameters: id always, at a random position, plus a random subset in random order
		pool := resEvPool()
		rt.Ev = append(rt.Ev, pool[0])
		rest := pool[1:]
		k := s.Intn(5)
		for n := 0; n < k && len(rest) > 0; n++ {
			x := s.Intn(len(rest))
			p := rest[x]
			rest = append(append([]EvParam{}, rest[:x]...), rest[x+1:]...)
			pos := s.Intn(len(rt.Ev) + 1)
			rt.Ev = append(rt.Ev[:pos], append([]EvParam{p}, rt.Ev[pos:]...)...)
		}
	}
	if o.Attachments > 0 {
		na := 1 + s.Intn(o.Attachments)
		for a := 0; a < na; a++ {
			at := &AttType{Idx: a, Name: fmt.Sprintf("A%d", a), Base: s.Intn(nres), HasEvent: !chance(s, 1, 4)}
			if a == 1 {
				at.Base = u.Atts[0].Base // make two attachment types on one base likely
			}
			if o.AttEventsAlways {
				at.HasEvent = true
			}
			if at.HasEvent {
				pool := attEvPool()
				if o.AttEventsAlways {
					at.Ev = append(at.Ev, pool[0], pool[2])
					pool = append([]EvParam{pool[1]}, pool[3:]...)
				}
				k := s.Intn(len(pool) + 1)
				if len(at.Ev) == 0 && k == 0 {
					k = 1
				}
				for n := 0; n < k; n++ {
					x := s.Intn(len(pool))
					at.Ev = append(at.Ev, pool[x])
					pool = append(append([]EvParam{}, pool[:x]...), pool[x+1:]...)
				}
			}
			u.Atts = append(u.Atts, at)
		}
	}
	return u
}

func max1(n int) int {
	if n < 1 {
		return 1
	}
	return n
}

// Required returns the indices of the mandatory (non-optional, non-container)
// resource fields of a type: they are constructor parameters.
func (rt *ResType) Required() []int {
	var out []int
	for i, f := range rt.Fields {
		if f.T.K == KRes {
			out = append(out, i)
		}
	}
	return out
}

// AttsFor lists the attachment types declared for resource type r.
func (u *Universe) AttsFor(r int) []*AttType {
	var out []*AttType
	for _, a := range u.Atts {
		if a.Base == r {
			out = append(out, a)
		}
	}
	return out
}

// EventTypeID is the location-qualified ID of the destruction event of a resource type.
func (rt *ResType) EventTypeID() string { return TypePrefix + rt.Name + ".ResourceDestroyed" }
func (at *AttType) EventTypeID() string { return TypePrefix + at.Name + ".ResourceDestroyed" }

const IfaceEventTypeID = TypePrefix + "I.ResourceDestroyed"

func evDecl(ps []EvParam) string {
	var parts []string
	for _, p := range ps {
		parts = append(parts, fmt.Sprintf("%s: %s = %s", p.Name, p.Type, p.Default))
	}
	return "access(all) event ResourceDestroyed(" + strings.Join(parts, ", ") + ")"
}

// ContractSource prints contract C.
func (u *Universe) ContractSource() string {
	var b strings.Builder
	w := func(f string, a ...any) { fmt.Fprintf(&b, f+"\n", a...) }
	w("access(all) contract C {")
	w("  access(all) struct Info {")
	w("    access(all) let x: Int")
	w("    access(all) let s: String")
	w("    init(_ n: Int) { self.x = n * 3 + 1; self.s = \"i\".concat(n.toString()) }")
	w("  }")
	w("  access(all) resource interface I {")
	w("    access(all) event ResourceDestroyed(iid: UInt64 = self.uuid, inn: Int = self.n)")
	w("    access(all) var n: Int")
	w("  }")
	for _, rt := range u.Res {
		conf := ""
		if rt.Iface {
			conf = ": I"
		}
		w("  access(all) resource %s%s {", rt.Name, conf)
		w("    %s", evDecl(rt.Ev))
		w("    access(all) var n: Int")
		w("    access(all) let tag: String")
		w("    access(all) let info: Info")
		w("    access(all) let tags: {String: Int}")
		w("    access(all) let fx: Fix64")
		params := []string{"_ n: Int"}
		for _, f := range rt.Fields {
			w("    access(all) var %s: %s", f.Name, f.T.Ann(""))
			if f.T.K == KRes {
				params = append(params, fmt.Sprintf("%s: %s", f.Name, f.T.Ann("")))
			}
		}
		w("    init(%s) {", strings.Join(params, ", "))
		w("      self.n = n")
		w("      self.tag = \"t\".concat(n.toString())")
		w("      self.info = Info(n)")
		w("      self.tags = {\"a\": n * 2}")
		w("      self.fx = Fix64(n) - 0.25")
		for _, f := range rt.Fields {
			switch f.T.K {
			case KRes:
				w("      self.%s <- %s", f.Name, f.Name)
			case KOpt:
				w("      self.%s <- nil", f.Name)
			case KArr:
				w("      self.%s <- []", f.Name)
			case KDict:
				w("      self.%s <- {}", f.Name)
			}
		}
		w("    }")
		w("    access(all) fun setN(_ n: Int) { self.n = n }")
		for _, f := range rt.Fields {
			n, t := f.Name, f.T
			switch t.K {
			case KRes:
				w("    access(all) fun swap_%s(_ x: %s): %s { var y <- x; self.%s <-> y; return <- y }", n, t.Ann(""), t.Ann(""), n)
			case KOpt:
				w("    access(all) fun swap_%s(_ x: %s): %s { var y <- x; self.%s <-> y; return <- y }", n, t.Ann(""), t.Ann(""), n)
				w("    access(all) fun set_%s(_ x: %s) { self.%s <-! x }", n, t.E.Ann(""), n)
				w("    access(all) fun take_%s(): %s { let x <- self.%s <- nil; return <- x! }", n, t.E.Ann(""), n)
			case KArr:
				w("    access(all) fun push_%s(_ x: %s) { self.%s.append(<- x) }", n, t.E.Ann(""), n)
				w("    access(all) fun pop_%s(_ i: Int): %s { return <- self.%s.remove(at: i) }", n, t.E.Ann(""), n)
				w("    access(all) fun swapAt_%s(_ i: Int, _ x: %s): %s { var y <- x; self.%s[i] <-> y; return <- y }", n, t.E.Ann(""), t.E.Ann(""), n)
			case KDict:
				w("    access(all) fun put_%s(_ k: Int, _ x: %s): %s? { let old <- self.%s[k] <- x; return <- old }", n, t.E.Ann(""), t.E.Ann(""), n)
				w("    access(all) fun drop_%s(_ k: Int): %s? { return <- self.%s.remove(key: k) }", n, t.E.Ann(""), n)
			}
		}
		w("  }")
	}
	for _, at := range u.Atts {
		w("  access(all) attachment %s for R%d {", at.Name, at.Base)
		if at.HasEvent {
			w("    %s", evDecl(at.Ev))
		}
		w("    access(all) var y: Int")
		w("    init(_ y: Int) { self.y = y }")
		w("    access(all) fun setY(_ y: Int) { self.y = y }")
		w("    access(all) fun baseN(): Int { return base.n }")
		w("    access(all) fun baseID(): UInt64 { return base.uuid }")
		w("    access(all) fun sum(): Int { return self.y + base.n }")
		w("  }")
	}
	for _, rt := range u.Res {
		params := []string{"_ n: Int"}
		args := []string{"n"}
		for _, f := range rt.Fields {
			if f.T.K == KRes {
				params = append(params, fmt.Sprintf("_ %s: %s", f.Name, f.T.Ann("")))
				args = append(args, fmt.Sprintf("%s: <- %s", f.Name, f.Name))
			}
		}
		w("  access(all) fun mk%d(%s): @%s { return <- create %s(%s) }", rt.Idx, strings.Join(params, ", "), rt.Name, rt.Name, strings.Join(args, ", "))
		w("  access(all) fun burn%d(_ x: @%s) { destroy x }", rt.Idx, rt.Name)
	}
	w("  access(all) var vault: @{Int: R0}")
	w("  access(all) fun deposit(_ k: Int, _ x: @R0): @R0? { let old <- self.vault[k] <- x; return <- old }")
	w("  access(all) fun withdraw(_ k: Int): @R0? { return <- self.vault.remove(key: k) }")
	w("  access(all) fun peek(_ k: Int): Int? { return self.vault[k]?.n }")
	w("  init() { self.vault <- {} }")
	w("}")
	return b.String()
}
