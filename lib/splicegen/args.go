package splicegen

import (
	"fmt"
	"math/big"
	"math/rand"
	"strconv"
	"strings"

	"github.com/onflow/cadence/common"
	"github.com/onflow/cadence/sema"

	"verif/lib/oracle"
)

// Arg is a generated argument: Lit is a Cadence expression of the wanted type,
// JSON the JSON-CDC encoding of the same value ("" when the value has no
// JSON-CDC form, e.g. closures; such values can only be used inside a program).
// Move reports that the expression is a resource and needs `<-`.
type Arg struct {
	Lit  string
	JSON string
	Move bool
}

var abstractNumber = map[string]string{
	"Number": "Int", "SignedNumber": "Int", "Integer": "Int", "SignedInteger": "Int",
	"FixedSizeUnsignedInteger": "UInt8", "FixedPoint": "UFix64", "SignedFixedPoint": "Fix64",
}

// NumLit renders a raw numeric value (lib/oracle convention) as a Cadence literal.
func NumLit(t oracle.Type, raw *big.Int) string {
	if !t.IsFixed() {
		return raw.String()
	}
	neg := raw.Sign() < 0
	abs := new(big.Int).Abs(raw)
	q, m := new(big.Int).QuoRem(abs, oracle.Pow10(t.Scale), new(big.Int))
	frac := m.String()
	frac = strings.Repeat("0", t.Scale-len(frac)) + frac
	s := q.String() + "." + frac
	if neg {
		s = "-" + s
	}
	return s
}

var stringPool = []string{"", "a", "hello", "Café", "\U0001F600", "é", "line\nbreak", "\"quoted\"", "\\", "0", "abc def", "é"}

func quoteCadence(s string) string {
	var sb strings.Builder
	sb.WriteByte('"')
	for _, r := range s {
		switch r {
		case '"':
			sb.WriteString(`\"`)
		case '\\':
			sb.WriteString(`\\`)
		case '\n':
			sb.WriteString(`\n`)
		case '\t':
			sb.WriteString(`\t`)
		case '\r':
			sb.WriteString(`\r`)
		case 0:
			sb.WriteString(`\0`)
		default:
			if r < 0x20 || r > 0x7e {
				fmt.Fprintf(&sb, `\u{%x}`, r)
			} else {
				sb.WriteRune(r)
			}
		}
	}
	sb.WriteByte('"')
	return sb.String()
}

func jsonString(s string) string { return strconv.Quote(s) } // ASCII-safe JSON string

// ArgGen generates argument values for sema types.
type ArgGen struct {
	R *rand.Rand
	// Boundary biases numeric choices towards the type bounds.
	Boundary bool
	// Conformers lists, per interface type ID, composite types implementing it
	// (filled by the analysis of the program the arguments are for).
	Conformers map[common.TypeID][]*sema.CompositeType
}

func (g *ArgGen) num(name string) (Arg, bool) {
	if c, ok := abstractNumber[name]; ok {
		a, ok2 := g.num(c)
		if ok2 {
			a.Lit = "(" + a.Lit + " as " + c + ")"
		}
		return a, ok2
	}
	var t oracle.Type
	found := false
	for _, ot := range oracle.Types {
		if ot.Name == name {
			t, found = ot, true
		}
	}
	if !found {
		return Arg{}, false
	}
	var raw *big.Int
	small := []int64{0, 1, 2, 3, 5, 10, 42, 100}
	switch k := g.R.Intn(10); {
	case k < 5 && !g.Boundary || k < 2:
		raw = big.NewInt(small[g.R.Intn(len(small))])
		if t.IsFixed() {
			raw.Mul(raw, oracle.Pow10(t.Scale))
			if g.R.Intn(3) == 0 {
				raw.Add(raw, big.NewInt(int64(g.R.Intn(100000))))
			}
		}
		if t.Signed() && g.R.Intn(4) == 0 {
			raw.Neg(raw)
		}
	case k < 8:
		pool := t.Pool()
		raw = pool[g.R.Intn(len(pool))]
		// keep unbounded values printable and cheap
		if raw.BitLen() > 300 {
			raw = big.NewInt(int64(g.R.Intn(1000)))
		}
	default:
		raw = t.Random(g.R)
		if raw.BitLen() > 300 {
			raw = big.NewInt(int64(g.R.Intn(1000)))
		}
	}
	if !t.Fits(raw) {
		raw = big.NewInt(0)
	}
	lit := NumLit(t, raw)
	return Arg{Lit: lit, JSON: fmt.Sprintf(`{"type":%q,"value":%q}`, name, lit)}, true
}

// Gen produces an argument of type t (depth bounds recursion).
func (g *ArgGen) Gen(t sema.Type, depth int) (Arg, bool) {
	if depth > 4 {
		return Arg{}, false
	}
	r := g.R
	switch t := t.(type) {
	case *sema.NumericType, *sema.FixedPointNumericType:
		return g.num(t.String())
	case *sema.AddressType:
		n := []uint64{1, 2, 3, 0, 0x42}[r.Intn(5)]
		return Arg{Lit: fmt.Sprintf("0x%x", n), JSON: fmt.Sprintf(`{"type":"Address","value":"0x%016x"}`, n)}, true
	case *sema.OptionalType:
		if r.Intn(4) == 0 {
			return Arg{Lit: "nil", JSON: `{"type":"Optional","value":null}`}, true
		}
		in, ok := g.Gen(t.Type, depth+1)
		if !ok {
			if t.Type.IsResourceType() {
				return Arg{}, false
			}
			return Arg{Lit: "nil", JSON: `{"type":"Optional","value":null}`}, true
		}
		j := ""
		if in.JSON != "" {
			j = `{"type":"Optional","value":` + in.JSON + `}`
		}
		return Arg{Lit: in.Lit, JSON: j, Move: in.Move}, true
	case *sema.VariableSizedType:
		return g.array(t.Type, r.Intn(4), depth, "")
	case *sema.ConstantSizedType:
		if t.Size > 16 {
			return Arg{}, false
		}
		return g.array(t.Type, int(t.Size), depth, "")
	case *sema.DictionaryType:
		n := r.Intn(3)
		if t.ValueType.IsResourceType() {
			n = 0
			return Arg{Lit: "{}", JSON: `{"type":"Dictionary","value":[]}`, Move: true}, true
		}
		var lits, js []string
		jsonOK := true
		seen := map[string]bool{}
		for i := 0; i < n; i++ {
			k, ok1 := g.Gen(t.KeyType, depth+1)
			v, ok2 := g.Gen(t.ValueType, depth+1)
			if !ok1 || !ok2 {
				break
			}
			if seen[k.Lit] {
				continue
			}
			seen[k.Lit] = true
			lits = append(lits, k.Lit+": "+v.Lit)
			if k.JSON == "" || v.JSON == "" {
				jsonOK = false
			}
			js = append(js, `{"key":`+k.JSON+`,"value":`+v.JSON+`}`)
		}
		if len(lits) == 0 {
			return Arg{Lit: "{}", JSON: `{"type":"Dictionary","value":[]}`}, true
		}
		j := ""
		if jsonOK {
			j = `{"type":"Dictionary","value":[` + strings.Join(js, ",") + `]}`
		}
		return Arg{Lit: "{" + strings.Join(lits, ", ") + "}", JSON: j}, true
	case *sema.CompositeType:
		return g.composite(t, depth)
	case *sema.InterfaceType:
		cs := g.Conformers[t.ID()]
		if len(cs) == 0 {
			return Arg{}, false
		}
		return g.composite(cs[r.Intn(len(cs))], depth)
	case *sema.IntersectionType:
		if len(t.Types) == 1 {
			return g.Gen(t.Types[0], depth)
		}
		return Arg{}, false
	case *sema.FunctionType:
		return g.closure(t, depth)
	case *sema.ReferenceType:
		if t.Type.IsResourceType() || t.Authorization != sema.UnauthorizedAccess {
			return Arg{}, false
		}
		in, ok := g.Gen(t.Type, depth+1)
		if !ok || in.Move {
			return Arg{}, false
		}
		return Arg{Lit: "(&" + g.typed(in.Lit, t.Type) + " as " + t.QualifiedString() + ")"}, true
	case *sema.InclusiveRangeType:
		a, ok := g.Gen(t.MemberType, depth+1)
		if !ok {
			return Arg{}, false
		}
		return Arg{Lit: fmt.Sprintf("InclusiveRange(%s, %s)", g.typed(a.Lit, t.MemberType), g.typed(a.Lit, t.MemberType))}, true
	}
	switch t {
	case sema.StringType:
		s := stringPool[r.Intn(len(stringPool))]
		return Arg{Lit: quoteCadence(s), JSON: `{"type":"String","value":` + jsonString(s) + `}`}, true
	case sema.CharacterType:
		cs := []string{"a", "Z", "é", "\U0001F600", "é", "0"}
		s := cs[r.Intn(len(cs))]
		return Arg{Lit: "(" + quoteCadence(s) + " as Character)", JSON: `{"type":"Character","value":` + jsonString(s) + `}`}, true
	case sema.BoolType:
		if r.Intn(2) == 0 {
			return Arg{Lit: "true", JSON: `{"type":"Bool","value":true}`}, true
		}
		return Arg{Lit: "false", JSON: `{"type":"Bool","value":false}`}, true
	case sema.StoragePathType:
		return pathArg("storage", r), true
	case sema.PublicPathType, sema.CapabilityPathType:
		return pathArg("public", r), true
	case sema.PathType:
		return pathArg([]string{"storage", "public"}[r.Intn(2)], r), true
	case sema.PrivatePathType:
		return pathArg("private", r), true
	case sema.MetaType:
		ts := []string{"Int", "String", "[Int]", "Int?", "AnyStruct", "&Int", "{String: Int}", "UInt8", "Never"}
		return Arg{Lit: "Type<" + ts[r.Intn(len(ts))] + ">()"}, true
	case sema.AnyStructType, sema.HashableStructType, sema.StorableType:
		cands := []sema.Type{sema.IntType, sema.StringType, sema.BoolType, sema.UInt8Type, sema.UFix64Type, sema.TheAddressType}
		if t == sema.AnyStructType {
			cands = append(cands, &sema.VariableSizedType{Type: sema.IntType}, &sema.OptionalType{Type: sema.StringType},
				&sema.DictionaryType{KeyType: sema.StringType, ValueType: sema.IntType})
		}
		c := cands[r.Intn(len(cands))]
		a, ok := g.Gen(c, depth+1)
		if ok {
			a.Lit = g.typed(a.Lit, c)
		}
		return a, ok
	case sema.VoidType:
		return Arg{Lit: "()"}, false
	}
	return Arg{}, false
}

// typed forces the static type of a literal (so that `1` stays an Int8 etc.).
func (g *ArgGen) typed(lit string, t sema.Type) string {
	switch t.(type) {
	case *sema.NumericType, *sema.FixedPointNumericType, *sema.VariableSizedType, *sema.ConstantSizedType, *sema.DictionaryType, *sema.OptionalType:
		if _, abstract := abstractNumber[t.String()]; abstract {
			return lit
		}
		return "(" + lit + " as " + t.QualifiedString() + ")"
	}
	return lit
}

func pathArg(domain string, r *rand.Rand) Arg {
	id := []string{"r", "foo", "s", "cap", "x1"}[r.Intn(5)]
	return Arg{Lit: "/" + domain + "/" + id,
		JSON: fmt.Sprintf(`{"type":"Path","value":{"domain":%q,"identifier":%q}}`, domain, id)}
}

func (g *ArgGen) array(elem sema.Type, n int, depth int, _ string) (Arg, bool) {
	var lits, js []string
	jsonOK := true
	move := elem.IsResourceType()
	for i := 0; i < n; i++ {
		a, ok := g.Gen(elem, depth+1)
		if !ok {
			return Arg{}, false
		}
		l := a.Lit
		if a.Move {
			l = "<- " + l
		}
		lits = append(lits, l)
		if a.JSON == "" {
			jsonOK = false
		}
		js = append(js, a.JSON)
	}
	j := ""
	if jsonOK {
		j = `{"type":"Array","value":[` + strings.Join(js, ",") + `]}`
	}
	return Arg{Lit: "[" + strings.Join(lits, ", ") + "]", JSON: j, Move: move}, true
}

// CallArgs renders an argument list for the given parameters.
func (g *ArgGen) CallArgs(params []sema.Parameter, depth int) (string, bool) {
	var parts []string
	for _, p := range params {
		a, ok := g.Gen(p.TypeAnnotation.Type, depth+1)
		if !ok {
			return "", false
		}
		s := a.Lit
		if a.Move {
			s = "<- " + s
		}
		if l := p.EffectiveArgumentLabel(); l != "" {
			s = l + ": " + s
		}
		parts = append(parts, s)
	}
	return strings.Join(parts, ", "), true
}

func (g *ArgGen) composite(t *sema.CompositeType, depth int) (Arg, bool) {
	name := t.QualifiedString()
	switch t.Kind {
	case common.CompositeKindStructure:
		if t.Location == nil {
			return Arg{}, false // built-in struct (PublicKey, ...) : not constructed here
		}
		args, ok := g.CallArgs(t.ConstructorParameters, depth)
		if !ok {
			return Arg{}, false
		}
		return Arg{Lit: name + "(" + args + ")"}, true
	case common.CompositeKindResource:
		if t.Location == nil {
			return Arg{}, false
		}
		args, ok := g.CallArgs(t.ConstructorParameters, depth)
		if !ok {
			return Arg{}, false
		}
		return Arg{Lit: "create " + name + "(" + args + ")", Move: true}, true
	case common.CompositeKindEnum:
		if t.Location == nil {
			return Arg{}, false
		}
		return Arg{Lit: name + "(rawValue: 0)!"}, true
	}
	return Arg{}, false
}

func (g *ArgGen) closure(t *sema.FunctionType, depth int) (Arg, bool) {
	if len(t.TypeParameters) > 0 {
		return Arg{}, false
	}
	var ps []string
	for i, p := range t.Parameters {
		ps = append(ps, fmt.Sprintf("_ p%d: %s", i, annot(p.TypeAnnotation.Type)))
	}
	ret := t.ReturnTypeAnnotation.Type
	body := ""
	for i, p := range t.Parameters {
		if p.TypeAnnotation.Type.IsResourceType() {
			body += fmt.Sprintf("destroy p%d; ", i)
		}
	}
	if ret != sema.VoidType {
		// return a parameter of the same type when there is one (identity-like), else a generated value
		done := false
		for i, p := range t.Parameters {
			if p.TypeAnnotation.Type.Equal(ret) && !ret.IsResourceType() && g.R.Intn(2) == 0 {
				body += fmt.Sprintf("return p%d", i)
				done = true
				break
			}
		}
		if !done {
			a, ok := g.Gen(ret, depth+1)
			if !ok {
				return Arg{}, false
			}
			if a.Move {
				body += "return <- " + a.Lit
			} else {
				body += "return " + a.Lit
			}
		}
	}
	purity := ""
	if t.Purity == sema.FunctionPurityView {
		purity = "view "
		if strings.Contains(body, "destroy") || strings.Contains(body, "create ") {
			return Arg{}, false
		}
	}
	sig := purity + "fun (" + strings.Join(ps, ", ") + ")"
	if ret != sema.VoidType {
		sig += ": " + annot(ret)
	}
	return Arg{Lit: "(" + sig + " { " + body + " })"}, true
}

// annot renders a type annotation (with @ for resources).
func annot(t sema.Type) string {
	if t.IsResourceType() {
		return "@" + t.QualifiedString()
	}
	return t.QualifiedString()
}
