package splicegen

import (
	"encoding/binary"
	"fmt"
	"math/rand"
	"sort"
	"strings"

	"github.com/onflow/cadence/ast"
	"github.com/onflow/cadence/common"
	"github.com/onflow/cadence/interpreter"
	"github.com/onflow/cadence/parser"
	"github.com/onflow/cadence/sema"

	"verif/lib/host"
	"verif/lib/prog"
)

// Shapes of harvested snippets.
const (
	ShapeScript   = "script-main" // has `fun main`
	ShapeTx       = "transaction"
	ShapeContract = "contract" // a sole contract (interface): deployed, then driven by generated callers
	ShapeDecls    = "decls"    // declarations only: wrapped with generated `main`s
)

// Base is an accepted, normalised snippet from which histories are assembled.
type Base struct {
	Snippet  Snippet
	Shape    string
	Source   string      // after the access-modifier normalisation
	Deps     []prog.Step // contract deployments the source imports
	Features []string
	depHost  *host.Host // host with Deps deployed (nil when there are none)
}

// contractSrc is one harvested contract usable as an import target.
type contractSrc struct {
	Name   string
	File   string
	Source string
}

type builder struct {
	contracts map[string][]contractSrc
}

func shapeOf(p *ast.Program) string {
	if len(p.TransactionDeclarations()) > 0 {
		return ShapeTx
	}
	for _, f := range p.FunctionDeclarations() {
		if f.Identifier.Identifier == "main" {
			return ShapeScript
		}
	}
	if p.SoleContractDeclaration() != nil || p.SoleContractInterfaceDeclaration() != nil {
		return ShapeContract
	}
	return ShapeDecls
}

func soleContractName(p *ast.Program) string {
	if d := p.SoleContractDeclaration(); d != nil {
		return d.Identifier.Identifier
	}
	if d := p.SoleContractInterfaceDeclaration(); d != nil {
		return d.Identifier.Identifier
	}
	return ""
}

func addrNum(a common.Address) uint64 { return binary.BigEndian.Uint64(a[:]) }

// checkFix checks src and, when the only problem is missing access modifiers
// (non-strict test sources), normalises and re-checks.
func checkFix(h *host.Host, kind, src string) (string, Checked) {
	c := Check(h, kind, src)
	if c.OK() || c.ParseErr {
		return src, c
	}
	if fixed, changed := FixAccess(src, c.Sema); changed {
		c2 := Check(h, kind, fixed)
		if c2.OK() {
			return fixed, c2
		}
		// a second round: fixing can uncover nested declarations
		if fixed2, changed2 := FixAccess(fixed, c2.Sema); changed2 {
			c3 := Check(h, kind, fixed2)
			return fixed2, c3
		}
		return fixed, c2
	}
	return src, c
}

// resolveDeps finds harvested contracts for the address imports of p, deploys
// them on a scratch host and returns the deployment steps.
func (b *builder) resolveDeps(p *ast.Program, file string, depth int) ([]prog.Step, *host.Host, bool) {
	imps := p.ImportDeclarations()
	if len(imps) == 0 {
		return nil, nil, true
	}
	h := host.New()
	var steps []prog.Step
	deployed := map[string]bool{}
	for _, imp := range imps {
		al, ok := imp.Location.(common.AddressLocation)
		if !ok || len(imp.Imports) == 0 {
			return nil, nil, false
		}
		for _, im := range imp.Imports {
			name := im.Identifier.Identifier
			key := al.Address.Hex() + "." + name
			if deployed[key] {
				continue
			}
			cands := append([]contractSrc(nil), b.contracts[name]...)
			// prefer contracts from the same test file
			sort.SliceStable(cands, func(i, j int) bool { return cands[i].File == file && cands[j].File != file })
			if len(cands) > 6 {
				cands = cands[:6]
			}
			done := false
			for _, c := range cands {
				sub, ok := b.deployOn(h, al.Address, c, depth)
				if ok {
					steps = append(steps, sub...)
					deployed[key] = true
					done = true
					break
				}
			}
			if !done {
				return nil, nil, false
			}
		}
	}
	return steps, h, true
}

// deployOn deploys contract c (and, recursively, what it imports) at addr on h.
func (b *builder) deployOn(h *host.Host, addr common.Address, c contractSrc, depth int) ([]prog.Step, bool) {
	var steps []prog.Step
	p, err := parser.ParseProgram(nil, []byte(c.Source), parser.Config{})
	if err != nil {
		return nil, false
	}
	if len(p.ImportDeclarations()) > 0 {
		if depth >= 2 {
			return nil, false
		}
		for _, imp := range p.ImportDeclarations() {
			al, ok := imp.Location.(common.AddressLocation)
			if !ok || len(imp.Imports) == 0 {
				return nil, false
			}
			for _, im := range imp.Imports {
				if len(h.Code[al.Address.Hex()+"."+im.Identifier.Identifier]) > 0 {
					continue
				}
				ok := false
				for _, cc := range b.contracts[im.Identifier.Identifier] {
					sub, ok2 := b.deployOn(h, al.Address, cc, depth+1)
					if ok2 {
						steps = append(steps, sub...)
						ok = true
						break
					}
				}
				if !ok {
					return nil, false
				}
			}
		}
	}
	src := c.Source
	snap := h.Snapshot()
	res := loadDeploy(h, addr, c.Name, src)
	if res.Err != nil || res.Panic != nil {
		h.Restore(snap)
		return nil, false
	}
	steps = append(steps, prog.Step{Kind: prog.Deploy, Name: c.Name, Source: src, Signers: []uint64{addrNum(addr)}})
	return steps, true
}

// normaliseContract makes a harvested contract deployable by the runtime
// (access modifiers); returns "" if the checker rejects it.
func normaliseContract(src string) string {
	fixed, c := checkFix(nil, KContract, src)
	if !c.OK() {
		// contracts importing others cannot be checked stand-alone; keep as is
		if strings.Contains(src, "import ") {
			return src
		}
		return ""
	}
	return fixed
}

// ---- program analysis -----------------------------------------------------------

type analysis struct {
	prog  *interpreter.Program
	elab  *sema.Elaboration
	funcs []*ast.FunctionDeclaration
	gen   *ArgGen
}

func analyse(p *interpreter.Program, r *rand.Rand) *analysis {
	a := &analysis{prog: p, elab: p.Elaboration, funcs: p.Program.FunctionDeclarations()}
	a.gen = &ArgGen{R: r, Boundary: r.Intn(3) == 0, Conformers: map[common.TypeID][]*sema.CompositeType{}}
	var visit func(ds []*ast.CompositeDeclaration)
	visit = func(ds []*ast.CompositeDeclaration) {
		for _, d := range ds {
			t := a.elab.CompositeDeclarationType(d)
			if t == nil {
				continue
			}
			if t.Kind == common.CompositeKindStructure || t.Kind == common.CompositeKindResource {
				for _, c := range t.EffectiveInterfaceConformances() {
					id := c.InterfaceType.ID()
					a.gen.Conformers[id] = append(a.gen.Conformers[id], t)
				}
			}
			visit(d.Members.Composites())
		}
	}
	visit(p.Program.CompositeDeclarations())
	return a
}

func isPublic(a sema.Access) bool {
	pa, ok := a.(sema.PrimitiveAccess)
	return ok && ast.PrimitiveAccess(pa) == ast.AccessAll
}

// useCall renders a statement that calls `callee(args)` and disposes of the result.
// asReturn renders it as the body of `main` returning the value when exportable.
func (a *analysis) useCall(callee string, ft *sema.FunctionType, allowReturn bool) (body string, retAnnot string, ok bool) {
	if len(ft.TypeParameters) > 0 {
		return "", "", false
	}
	args, ok := a.gen.CallArgs(ft.Parameters, 0)
	if !ok {
		return "", "", false
	}
	call := callee + "(" + args + ")"
	ret := ft.ReturnTypeAnnotation.Type
	switch {
	case ret == sema.VoidType || ret == sema.NeverType:
		return call, "", true
	case ret.IsResourceType():
		return "destroy " + call, "", true
	case allowReturn && ret.IsExportable(map[*sema.Member]bool{}) && !strings.Contains(ret.QualifiedString(), "&"):
		return "return " + call, annot(ret), true
	default:
		return "log(" + call + ")", "", true
	}
}

// wrappers generates `main` functions for a declaration-only program: one per
// chosen global function, one per chosen composite, one for the global variables.
func (a *analysis) wrappers(max int) []string {
	var out []string
	r := a.gen.R
	// global functions
	idx := r.Perm(len(a.funcs))
	for _, i := range idx {
		if len(out) >= max {
			break
		}
		f := a.funcs[i]
		ft := a.elab.FunctionDeclarationFunctionType(f)
		if ft == nil {
			continue
		}
		body, ret, ok := a.useCall(f.Identifier.Identifier, ft, true)
		if !ok {
			continue
		}
		sig := "access(all) fun main()"
		if ret != "" {
			sig += ": " + ret
		}
		out = append(out, sig+" {\n    "+body+"\n}")
	}
	// composites: construct, read fields, call methods
	comps := a.prog.Program.CompositeDeclarations()
	for _, i := range r.Perm(len(comps)) {
		if len(out) >= max+1 {
			break
		}
		if w, ok := a.compositeWrapper(comps[i]); ok {
			out = append(out, w)
		}
	}
	// global variables
	var logs []string
	for _, v := range a.prog.Program.VariableDeclarations() {
		vt := a.elab.VariableDeclarationTypes(v)
		if vt.TargetType == nil || vt.TargetType.IsResourceType() {
			continue
		}
		logs = append(logs, "log("+v.Identifier.Identifier+")")
	}
	if len(logs) > 0 && (len(out) == 0 || r.Intn(2) == 0) {
		if len(logs) > 8 {
			logs = logs[:8]
		}
		out = append(out, "access(all) fun main() {\n    "+strings.Join(logs, "\n    ")+"\n}")
	}
	return out
}

func (a *analysis) compositeWrapper(d *ast.CompositeDeclaration) (string, bool) {
	t := a.elab.CompositeDeclarationType(d)
	if t == nil || (t.Kind != common.CompositeKindStructure && t.Kind != common.CompositeKindResource) {
		return "", false
	}
	arg, ok := a.gen.composite(t, 0)
	if !ok {
		return "", false
	}
	var sb strings.Builder
	sb.WriteString("access(all) fun main() {\n")
	if arg.Move {
		sb.WriteString("    let v <- " + arg.Lit + "\n")
	} else {
		sb.WriteString("    let v = " + arg.Lit + "\n")
	}
	n := 0
	t.Members.Foreach(func(name string, m *sema.Member) {
		if n >= 6 || !isPublic(m.Access) {
			return
		}
		mt := m.TypeAnnotation.Type
		switch m.DeclarationKind {
		case common.DeclarationKindField:
			if mt.IsResourceType() {
				return
			}
			sb.WriteString("    log(v." + name + ")\n")
			n++
		case common.DeclarationKindFunction:
			ft, ok := mt.(*sema.FunctionType)
			if !ok {
				return
			}
			body, _, ok := a.useCall("v."+name, ft, false)
			if !ok {
				return
			}
			sb.WriteString("    " + body + "\n")
			n++
		}
	})
	if arg.Move {
		sb.WriteString("    destroy v\n")
	}
	sb.WriteString("}")
	return sb.String(), true
}

// entryArgs generates JSON-CDC arguments for entry-point parameters.
func (a *analysis) entryArgs(params []sema.Parameter) ([]string, bool) {
	var out []string
	for _, p := range params {
		arg, ok := a.gen.Gen(p.TypeAnnotation.Type, 0)
		if !ok || arg.JSON == "" {
			return nil, false
		}
		out = append(out, arg.JSON)
	}
	return out, true
}

// contractDrivers generates transactions/scripts calling the public functions
// of a deployed contract.
func (a *analysis) contractDrivers(addr uint64, name string, max int) []prog.Step {
	d := a.prog.Program.SoleContractDeclaration()
	if d == nil {
		return nil
	}
	t := a.elab.CompositeDeclarationType(d)
	if t == nil {
		return nil
	}
	r := a.gen.R
	var steps []prog.Step
	imp := fmt.Sprintf("import %s from 0x%x\n", name, addr)
	type cand struct {
		name string
		m    *sema.Member
	}
	var cs []cand
	t.Members.Foreach(func(n string, m *sema.Member) {
		if isPublic(m.Access) {
			cs = append(cs, cand{n, m})
		}
	})
	var fieldLogs []string
	for _, i := range r.Perm(len(cs)) {
		c := cs[i]
		mt := c.m.TypeAnnotation.Type
		switch c.m.DeclarationKind {
		case common.DeclarationKindField:
			if !mt.IsResourceType() && len(fieldLogs) < 4 {
				fieldLogs = append(fieldLogs, "log("+name+"."+c.name+")")
			}
		case common.DeclarationKindFunction:
			ft, ok := mt.(*sema.FunctionType)
			if !ok || len(steps) >= max {
				continue
			}
			asTx := r.Intn(2) == 0
			body, ret, ok := a.useCall(name+"."+c.name, ft, !asTx)
			if !ok {
				continue
			}
			if asTx {
				if strings.HasPrefix(body, "destroy ") && r.Intn(2) == 0 && !strings.Contains(ft.ReturnTypeAnnotation.Type.QualifiedString(), "?") {
					body = fmt.Sprintf("a.storage.save(<- %s, to: /storage/drv%d)", strings.TrimPrefix(body, "destroy "), len(steps))
				}
				steps = append(steps, prog.Step{Kind: prog.Tx, Signers: []uint64{addr}, MayFail: true,
					Source: imp + "transaction {\n  prepare(a: auth(Storage) &Account) {\n    " + body + "\n  }\n}"})
			} else {
				sig := "access(all) fun main()"
				if ret != "" {
					sig += ": " + ret
				}
				steps = append(steps, prog.Step{Kind: prog.Script, MayFail: true, Source: imp + sig + " {\n    " + body + "\n}"})
			}
		}
	}
	if len(fieldLogs) > 0 {
		steps = append(steps, prog.Step{Kind: prog.Script, MayFail: true,
			Source: imp + "access(all) fun main() {\n    " + strings.Join(fieldLogs, "\n    ") + "\n}"})
	}
	return steps
}

// ---- assembling a history from a source text ---------------------------------------

// Reject reasons (also accept-rate table keys).
const (
	RejParse   = "parse-error"
	RejCheck   = "checker-rejected"
	RejImports = "imports-unresolved"
	RejArgs    = "no-arguments"
	RejWrap    = "no-wrapper"
	RejDeploy  = "deploy-failed"
)

// assemble turns src (an original or mutated snippet of the given base) into an
// executable history. It returns the reject reason when it cannot.
func assemble(b *Base, src string, r *rand.Rand) (prog.History, string) {
	hist := prog.History{Origin: "splice:" + b.Snippet.File + ":" + fmt.Sprint(b.Snippet.Line)}
	hist.Steps = append(hist.Steps, b.Deps...)
	var h *host.Host
	if b.depHost != nil {
		h = b.depHost.Fork()
	} else {
		h = host.New()
	}
	switch b.Shape {
	case ShapeScript:
		c := Check(h, KScript, src)
		if !c.OK() {
			return hist, rej(c)
		}
		a := analyse(c.Program, r)
		ft, err := a.elab.FunctionEntryPointType()
		if err != nil {
			return hist, RejCheck
		}
		args, ok := a.entryArgs(ft.Parameters)
		if !ok {
			return hist, RejArgs
		}
		hist.Steps = append(hist.Steps, prog.Step{Kind: prog.Script, Source: src, Args: args, MayFail: true})
		hist.Features = FeaturesOf(c.Program.Program)
	case ShapeTx:
		c := Check(h, KTx, src)
		if !c.OK() {
			return hist, rej(c)
		}
		a := analyse(c.Program, r)
		d := c.Program.Program.SoleTransactionDeclaration()
		if d == nil {
			return hist, RejCheck
		}
		tt := a.elab.TransactionDeclarationType(d)
		if tt == nil {
			return hist, RejCheck
		}
		args, ok := a.entryArgs(tt.Parameters)
		if !ok {
			return hist, RejArgs
		}
		var signers []uint64
		for i := range tt.PrepareParameters {
			signers = append(signers, uint64(i+1))
		}
		hist.Steps = append(hist.Steps, prog.Step{Kind: prog.Tx, Source: src, Args: args, Signers: signers, MayFail: true})
		hist.Features = FeaturesOf(c.Program.Program)
	case ShapeContract:
		c := Check(h, KContract, src)
		if !c.OK() {
			return hist, rej(c)
		}
		name := soleContractName(c.Program.Program)
		res := loadDeploy(h, host.Addr(1), name, src)
		if res.Err != nil || res.Panic != nil {
			return hist, RejDeploy
		}
		hist.Steps = append(hist.Steps, prog.Step{Kind: prog.Deploy, Name: name, Source: src, Signers: []uint64{1}})
		a := analyse(c.Program, r)
		hist.Features = FeaturesOf(c.Program.Program)
		for _, st := range a.contractDrivers(1, name, 3) {
			kind := KScript
			if st.Kind == prog.Tx {
				kind = KTx
			}
			if cc := Check(h, kind, st.Source); cc.OK() {
				hist.Steps = append(hist.Steps, st)
				hist.Features = MergeFeatures(hist.Features, FeaturesOf(cc.Program.Program))
			}
		}
	default:
		c := Check(h, KScript, src)
		if !c.OK() {
			return hist, rej(c)
		}
		a := analyse(c.Program, r)
		hist.Features = FeaturesOf(c.Program.Program)
		n := 0
		for _, w := range a.wrappers(3) {
			full := strings.TrimRight(src, " \t\n") + "\n\n" + w + "\n"
			if cc := Check(h, KScript, full); cc.OK() {
				hist.Steps = append(hist.Steps, prog.Step{Kind: prog.Script, Source: full, MayFail: true})
				hist.Features = MergeFeatures(hist.Features, FeaturesOf(cc.Program.Program))
				n++
			}
		}
		if n == 0 {
			return hist, RejWrap
		}
	}
	return hist, ""
}

func rej(c Checked) string {
	if c.ParseErr {
		return RejParse
	}
	return RejCheck
}
