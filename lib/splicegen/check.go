package splicegen

import (
	"errors"
	"fmt"

	"github.com/onflow/cadence/common"
	"github.com/onflow/cadence/interpreter"
	"github.com/onflow/cadence/parser"
	"github.com/onflow/cadence/runtime"
	"github.com/onflow/cadence/sema"

	"verif/lib/host"
)

// Program kinds.
const (
	KScript   = "script"
	KTx       = "tx"
	KContract = "contract"
)

// Checked is the outcome of parsing+checking one source text the way the
// runtime does it (strict access mode, runtime standard library, the location
// kind's valid top-level declarations).
type Checked struct {
	Program  *interpreter.Program // non-nil iff accepted
	Err      error
	ParseErr bool
	Sema     []error // the individual checker errors, if any
	Panic    any     // checker/parser crashed (reported by callers that care)
}

func (c Checked) OK() bool { return c.Program != nil && c.Err == nil && c.Panic == nil }

// Check parses and checks src as a program of the given kind against the
// contracts deployed in h (h may be nil: no contracts). The extended
// elaboration (types of all expressions) is switched on, which the mutators use.
func Check(h *host.Host, kind string, src string) (res Checked) {
	if h == nil {
		h = host.New()
	}
	h.BeginExecution(nil)
	cfg := runtime.Config{}
	var env *runtime.InterpreterEnvironment
	var loc common.Location
	switch kind {
	case KScript:
		env = runtime.NewScriptInterpreterEnvironment(cfg)
		loc = common.ScriptLocation{0x53}
	case KTx:
		env = runtime.NewBaseInterpreterEnvironment(cfg)
		loc = common.TransactionLocation{0x54}
	default:
		env = runtime.NewBaseInterpreterEnvironment(cfg)
		loc = common.AddressLocation{Address: host.Addr(1), Name: "X"}
	}
	env.CheckingEnvironment.Config.ExtendedElaborationEnabled = true
	rt := runtime.NewRuntime(cfg)
	defer func() {
		if r := recover(); r != nil {
			res = Checked{Panic: r, Err: fmt.Errorf("panic: %v", r)}
		}
	}()
	p, err := rt.ParseAndCheckProgram([]byte(src), runtime.Context{Interface: h, Location: loc, Environment: env})
	if err != nil {
		res.Err = err
		var pe parser.Error
		if errors.As(err, &pe) {
			res.ParseErr = true
		}
		var ce *sema.CheckerError
		if errors.As(err, &ce) {
			res.Sema = ce.Errors
		}
		return res
	}
	res.Program = p
	return res
}

// FixAccess inserts `access(all)` in front of every declaration for which the
// strict-mode checker reports a missing access modifier (the interpreter's own
// tests are written for the non-strict mode). It returns the rewritten source
// and whether anything changed.
func FixAccess(src string, semaErrs []error) (string, bool) {
	var offs []int
	seen := map[int]bool{}
	for _, e := range semaErrs {
		if m, ok := e.(*sema.MissingAccessModifierError); ok {
			if !seen[m.Pos.Offset] && m.Pos.Offset >= 0 && m.Pos.Offset <= len(src) {
				seen[m.Pos.Offset] = true
				offs = append(offs, m.Pos.Offset)
			}
		}
	}
	if len(offs) == 0 {
		return src, false
	}
	// descending order so earlier offsets stay valid
	for i := 0; i < len(offs); i++ {
		for j := i + 1; j < len(offs); j++ {
			if offs[j] > offs[i] {
				offs[i], offs[j] = offs[j], offs[i]
			}
		}
	}
	for _, o := range offs {
		src = src[:o] + "access(all) " + src[o:]
	}
	return src, true
}
