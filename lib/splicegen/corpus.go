package splicegen

import (
	"fmt"
	"math/rand"
	"os"
	"sort"
	"strings"
	"sync"
	"time"

	"github.com/onflow/cadence/parser"

	"verif/lib/prog"
)

// Corpus is the set of accepted harvested snippets plus acceptance statistics.
type Corpus struct {
	Harvest HarvestStats
	Bases   []*Base
	ByShape map[string][]*Base
	// Rejected counts harvested candidates by reject reason.
	Rejected map[string]int
	mu       sync.Mutex
	// mutation statistics: tried / accepted per mutator
	MutTried, MutAccepted map[string]int
	MutNoSite             map[string]int
}

var (
	loadOnce sync.Once
	loaded   *Corpus
)

// Load harvests and normalises the snippets once per process.
func Load() *Corpus {
	loadOnce.Do(func() { loaded = build(RepoRoot()) })
	return loaded
}

func build(root string) *Corpus {
	sn, st := Harvest(root)
	c := &Corpus{Harvest: st, ByShape: map[string][]*Base{}, Rejected: map[string]int{},
		MutTried: map[string]int{}, MutAccepted: map[string]int{}, MutNoSite: map[string]int{}}
	b := &builder{contracts: map[string][]contractSrc{}}
	type parsed struct {
		s     Snippet
		shape string
	}
	var ps []parsed
	// pass 1: parse, shape, contract index
	for _, s := range sn {
		p, err := parser.ParseProgram(nil, []byte(s.Text), parser.Config{})
		if err != nil {
			c.Rejected[RejParse]++
			continue
		}
		sh := shapeOf(p)
		if sh == ShapeContract {
			if src := normaliseContract(s.Text); src != "" {
				name := soleContractName(p)
				b.contracts[name] = append(b.contracts[name], contractSrc{Name: name, File: s.File, Source: src})
			}
		}
		ps = append(ps, parsed{s, sh})
	}
	// pass 2: imports, normalisation, acceptance
	r := rand.New(rand.NewSource(1))
	one := func(x parsed) {
		p, _ := parser.ParseProgram(nil, []byte(x.s.Text), parser.Config{})
		deps, dh, ok := b.resolveDeps(p, x.s.File, 0)
		if !ok {
			c.Rejected[RejImports]++
			return
		}
		src, ck := checkFix(dh, kindOfShape(x.shape), x.s.Text)
		if !ck.OK() {
			c.Rejected[rej(ck)]++
			return
		}
		base := &Base{Snippet: x.s, Shape: x.shape, Source: src, Deps: deps, depHost: dh,
			Features: FeaturesOf(ck.Program.Program)}
		// the unmutated snippet must assemble into something executable
		if _, why := assemble(base, src, r); why != "" {
			c.Rejected[why]++
			return
		}
		c.Bases = append(c.Bases, base)
		c.ByShape[x.shape] = append(c.ByShape[x.shape], base)
	}
	debug := os.Getenv("SPLICE_DEBUG") != ""
	for _, x := range ps {
		t0 := time.Now()
		one(x)
		if d := time.Since(t0); debug && d > 30*time.Millisecond {
			fmt.Println("SLOW", d, x.s.File, x.s.Line, x.shape)
		}
	}
	return c
}

// Info describes how a history was produced.
type Info struct {
	Base     *Base
	Mutators []string
}

// Original assembles the unmutated history of base i (deterministic in r).
func (c *Corpus) Original(i int, r *rand.Rand) (prog.History, bool) {
	b := c.Bases[i%len(c.Bases)]
	h, why := assemble(b, b.Source, r)
	return h, why == ""
}

// shapeWeights balances the shapes (decls dominate the harvest).
var shapeOrder = []string{ShapeDecls, ShapeScript, ShapeTx, ShapeContract}
var shapeWeight = map[string]int{ShapeDecls: 5, ShapeScript: 2, ShapeTx: 2, ShapeContract: 2}

func (c *Corpus) pickBase(r *rand.Rand) *Base {
	total := 0
	for _, s := range shapeOrder {
		if len(c.ByShape[s]) > 0 {
			total += shapeWeight[s]
		}
	}
	k := r.Intn(total)
	for _, s := range shapeOrder {
		if len(c.ByShape[s]) == 0 {
			continue
		}
		if k < shapeWeight[s] {
			bs := c.ByShape[s]
			return bs[r.Intn(len(bs))]
		}
		k -= shapeWeight[s]
	}
	return c.Bases[r.Intn(len(c.Bases))]
}

func kindOfShape(shape string) string {
	switch shape {
	case ShapeTx:
		return KTx
	case ShapeContract:
		return KContract
	}
	return KScript
}

// Next produces one checker-accepted history: a harvested snippet with 0..3
// mutations applied (each intermediate program must be accepted by the checker).
func (c *Corpus) Next(r *rand.Rand) (prog.History, Info) {
	for {
		b := c.pickBase(r)
		src := b.Source
		nmut := []int{0, 1, 1, 1, 2, 2, 3}[r.Intn(7)]
		var applied []string
		for i := 0; i < nmut; i++ {
			var h = b.depHost
			if h != nil {
				h = h.Fork()
			}
			ck := Check(h, kindOfShape(b.Shape), src)
			if !ck.OK() {
				break
			}
			m := Mutators[r.Intn(len(Mutators))]
			var mutated string
			var ok bool
			if r.Intn(12) == 0 && b.Shape == ShapeDecls && len(b.Deps) == 0 {
				m = MutConcat
				o := c.ByShape[ShapeDecls][r.Intn(len(c.ByShape[ShapeDecls]))]
				ok = len(o.Deps) == 0 && o != b
				mutated = strings.TrimRight(src, " \t\n") + "\n\n" + o.Source
			} else {
				mutated, ok = Mutate(m, src, ck.Program, r)
			}
			c.mu.Lock()
			if !ok {
				c.MutNoSite[m]++
				c.mu.Unlock()
				continue
			}
			c.MutTried[m]++
			c.mu.Unlock()
			var h2 = b.depHost
			if h2 != nil {
				h2 = h2.Fork()
			}
			if ck2 := Check(h2, kindOfShape(b.Shape), mutated); ck2.OK() {
				src = mutated
				applied = append(applied, m)
				c.mu.Lock()
				c.MutAccepted[m]++
				c.mu.Unlock()
			}
		}
		hist, why := assemble(b, src, r)
		if why != "" {
			continue
		}
		for _, m := range applied {
			hist.Origin += "+" + m
		}
		return hist, Info{Base: b, Mutators: applied}
	}
}

// Stats summarises the harvest and the mutation accept rates.
func (c *Corpus) Stats() map[string]any {
	c.mu.Lock()
	defer c.mu.Unlock()
	shapes := map[string]int{}
	for s, bs := range c.ByShape {
		shapes[s] = len(bs)
	}
	rates := map[string]any{}
	var ms []string
	for m := range c.MutTried {
		ms = append(ms, m)
	}
	sort.Strings(ms)
	for _, m := range ms {
		t, a := c.MutTried[m], c.MutAccepted[m]
		rate := 0.0
		if t > 0 {
			rate = float64(a) / float64(t)
		}
		rates[m] = map[string]any{"tried": t, "accepted": a, "rate": rate, "no_site": c.MutNoSite[m]}
	}
	return map[string]any{
		"test_files":        c.Harvest.Files,
		"raw_strings":       c.Harvest.RawStrings,
		"candidates":        c.Harvest.Candidates,
		"accepted_bases":    len(c.Bases),
		"accept_rate":       float64(len(c.Bases)) / float64(max(1, c.Harvest.Candidates)),
		"accepted_by_shape": shapes,
		"rejected":          c.Rejected,
		"mutators":          rates,
	}
}
