package splicegen

import (
	"sort"
	"strings"

	"github.com/onflow/cadence/ast"
	"github.com/onflow/cadence/common"
	"github.com/onflow/cadence/parser"
)

// Feature class labels (the C01/C34 "feature classes" plus finer ones used for
// the agreement table and for known-finding predicates).
const (
	FResourceMove  = "resource-move"
	FReference     = "reference"
	FClosure       = "closure"
	FCast          = "cast"
	FOptionalChain = "optional-chain"
	FInterface     = "interface"
	FCondition     = "condition"
	FAttachment    = "attachment"
	FStorage       = "storage"
	FCapability    = "capability"
	FContract      = "contract"
	FTransaction   = "transaction"
	FEntitlement   = "entitlement"
	FEnum          = "enum"
	FEvent         = "event"
	FLoop          = "loop"
	FSwitch        = "switch"
	FDictionary    = "dictionary"
	FArray         = "array"
	FStringTpl     = "string-template"
	FFixedPoint    = "fixed-point"
	FDestroy       = "destroy"
	FSwap          = "swap"
	FNilCoalesce   = "nil-coalescing"
	FForce         = "force-unwrap"
	FComposite     = "composite"
	FTypeValue     = "type-value"
	FRange         = "inclusive-range"
	FBitwise       = "bitwise"
	FIfLet         = "if-let"
	FAccount       = "account"
	FImport        = "import"
	FNumConv       = "number-conversion"
	FStringFn      = "string-function"
	FDefaultFn     = "default-function"
)

// CoreFeatures are the classes the C01 non-trivial rule of DESIGN §4 counts.
var CoreFeatures = map[string]bool{
	FResourceMove: true, FReference: true, FClosure: true, FCast: true, FOptionalChain: true,
	FInterface: true, FCondition: true, FAttachment: true, FStorage: true, FCapability: true,
}

var numericTypeNames = func() map[string]bool {
	m := map[string]bool{}
	for _, n := range []string{"Int", "Int8", "Int16", "Int32", "Int64", "Int128", "Int256", "UInt", "UInt8", "UInt16", "UInt32",
		"UInt64", "UInt128", "UInt256", "Word8", "Word16", "Word32", "Word64", "Word128", "Word256", "Fix64", "UFix64", "Fix128", "UFix128"} {
		m[n] = true
	}
	return m
}()

// FeaturesOf labels a parsed program.
func FeaturesOf(p *ast.Program) []string {
	set := map[string]bool{}
	if p == nil {
		return nil
	}
	ast.Inspect(p, func(e ast.Element) bool {
		switch e := e.(type) {
		case *ast.TransactionDeclaration:
			set[FTransaction] = true
		case *ast.ImportDeclaration:
			set[FImport] = true
		case *ast.CompositeDeclaration:
			switch e.CompositeKind {
			case common.CompositeKindContract:
				set[FContract] = true
			case common.CompositeKindEnum:
				set[FEnum] = true
			case common.CompositeKindEvent:
				set[FEvent] = true
			default:
				set[FComposite] = true
			}
			if len(e.Conformances) > 0 {
				set[FInterface] = true
			}
		case *ast.InterfaceDeclaration:
			set[FInterface] = true
			if e.CompositeKind == common.CompositeKindContract {
				set[FContract] = true
			}
			// a function with a body inside an interface is a default function
			for _, f := range e.Members.Functions() {
				if f.FunctionBlock != nil && f.FunctionBlock.Block != nil && len(f.FunctionBlock.Block.Statements) > 0 {
					set[FDefaultFn] = true
				}
			}
		case *ast.AttachmentDeclaration, *ast.AttachExpression, *ast.RemoveStatement:
			set[FAttachment] = true
		case *ast.EntitlementDeclaration, *ast.EntitlementMappingDeclaration:
			set[FEntitlement] = true
		case *ast.FunctionBlock:
			if !e.PreConditions.IsEmpty() || !e.PostConditions.IsEmpty() {
				set[FCondition] = true
			}
		case *ast.EmitStatement:
			set[FEvent] = true
		case *ast.WhileStatement, *ast.ForStatement:
			set[FLoop] = true
		case *ast.SwitchStatement:
			set[FSwitch] = true
		case *ast.SwapStatement:
			set[FSwap] = true
		case *ast.IfStatement:
			if _, ok := e.Test.(*ast.VariableDeclaration); ok {
				set[FIfLet] = true
			}
		case *ast.VariableDeclaration:
			if e.Transfer != nil && e.Transfer.Operation != ast.TransferOperationCopy {
				set[FResourceMove] = true
			}
		case *ast.AssignmentStatement:
			if e.Transfer != nil && e.Transfer.Operation != ast.TransferOperationCopy {
				set[FResourceMove] = true
			}
		case *ast.UnaryExpression:
			if e.Operation == ast.OperationMove {
				set[FResourceMove] = true
			}
		case *ast.CreateExpression:
			set[FResourceMove] = true
		case *ast.DestroyExpression:
			set[FDestroy] = true
		case *ast.ReferenceExpression:
			set[FReference] = true
		case *ast.ReferenceType:
			set[FReference] = true
			if e.Authorization != nil {
				set[FEntitlement] = true
			}
		case *ast.FunctionExpression:
			set[FClosure] = true
		case *ast.CastingExpression:
			set[FCast] = true
		case *ast.ForceExpression:
			set[FForce] = true
		case *ast.ArrayExpression, *ast.VariableSizedType, *ast.ConstantSizedType:
			set[FArray] = true
		case *ast.DictionaryExpression, *ast.DictionaryType:
			set[FDictionary] = true
		case *ast.StringTemplateExpression:
			set[FStringTpl] = true
		case *ast.FixedPointExpression:
			set[FFixedPoint] = true
		case *ast.BinaryExpression:
			switch e.Operation {
			case ast.OperationNilCoalesce:
				set[FNilCoalesce] = true
			case ast.OperationBitwiseAnd, ast.OperationBitwiseOr, ast.OperationBitwiseXor,
				ast.OperationBitwiseLeftShift, ast.OperationBitwiseRightShift:
				set[FBitwise] = true
			}
		case *ast.MemberExpression:
			if e.Optional {
				set[FOptionalChain] = true
			}
			switch e.Identifier.Identifier {
			case "storage":
				set[FStorage] = true
			case "capabilities", "borrow", "check", "issue", "publish", "unpublish":
				if e.Identifier.Identifier == "capabilities" {
					set[FCapability] = true
				}
			case "getType", "isInstance", "isSubtype":
				set[FTypeValue] = true
			case "concat", "slice", "utf8", "split", "join", "toLower", "replaceAll", "decodeHex", "contains", "index":
				set[FStringFn] = true
			}
		case *ast.InvocationExpression:
			if id, ok := e.InvokedExpression.(*ast.IdentifierExpression); ok {
				n := id.Identifier.Identifier
				switch {
				case n == "Type" || n == "CompositeType" || n == "OptionalType" || n == "ReferenceType":
					set[FTypeValue] = true
				case n == "InclusiveRange":
					set[FRange] = true
				case n == "getAccount" || n == "getAuthAccount":
					set[FAccount] = true
				case numericTypeNames[n]:
					set[FNumConv] = true
				}
			}
		case *ast.NominalType:
			switch e.Identifier.Identifier {
			case "Capability":
				set[FCapability] = true
			case "Account":
				set[FAccount] = true
			case "Fix64", "UFix64", "Fix128", "UFix128":
				set[FFixedPoint] = true
			}
		case *ast.InstantiationType:
			set[FRange] = set[FRange] || strings.Contains(e.String(), "InclusiveRange")
		}
		return true
	})
	out := make([]string, 0, len(set))
	for k, v := range set {
		if v {
			out = append(out, k)
		}
	}
	sort.Strings(out)
	return out
}

// FeaturesOfSource parses src and labels it (nil on parse errors).
func FeaturesOfSource(src string) []string {
	p, err := parser.ParseProgram(nil, []byte(src), parser.Config{})
	if err != nil {
		return nil
	}
	return FeaturesOf(p)
}

// MergeFeatures returns the sorted union.
func MergeFeatures(lists ...[]string) []string {
	set := map[string]bool{}
	for _, l := range lists {
		for _, f := range l {
			set[f] = true
		}
	}
	out := make([]string, 0, len(set))
	for k := range set {
		out = append(out, k)
	}
	sort.Strings(out)
	return out
}

// CoreCount is the number of C01 core feature classes among fs.
func CoreCount(fs []string) int {
	n := 0
	for _, f := range fs {
		if CoreFeatures[f] {
			n++
		}
	}
	return n
}
