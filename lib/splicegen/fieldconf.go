package splicegen

import (
	"fmt"
	"math/rand"
	"strings"

	"verif/lib/prog"
)

// Field-conformance family: an interface declaring FIELDS (let/var; optional,
// supertype, interface-typed, container types) and a conforming composite whose
// field types are equal to, proper subtypes of, or unrelated to the interface's
// field types, plus reads through the interface type, writes through default
// functions of the interface and typed reads afterwards. The unchanged checker
// only accepts (some of) the equal pairs; the programs are executed only when the
// checker accepts them, so a checker that becomes too lenient about field
// conformance is caught by the run-time defensive checks (C01) it then trips.

// fcPair is an (interface field type, implementation field type) pair.
type fcPair struct {
	iface, impl string
	value       string // initial value of the implementation's type
	write       string // a value of the INTERFACE field type that is not of the (proper-subtype) implementation type
	read        string // an expression over `v.F` (v: {FI}) exercising the member through the interface type
	rel         string // equal | subtype | unrelated
}

var fcPairs = []fcPair{
	{"Int?", "Int?", "3", "nil", "v.F?.toString() ?? \"nil\"", "equal"},
	{"Int?", "Int", "3", "nil", "v.F?.toString() ?? \"nil\"", "subtype"},
	{"Int", "Int", "3", "4", "v.F.toString()", "equal"},
	{"{SI0}", "{SI0}", "SV(1)", "SW()", "v.F.getType().identifier", "equal"},
	{"{SI0}", "SV", "SV(1)", "SW()", "v.F.getType().identifier", "subtype"},
	{"{SI0}?", "SV", "SV(1)", "nil", "v.F == nil", "subtype"},
	{"[AnyStruct]", "[AnyStruct]", "[1, 2]", "[\"x\"]", "v.F.length", "equal"},
	{"[AnyStruct]", "[Int]", "[1, 2]", "[\"x\"]", "v.F.length", "subtype"},
	{"AnyStruct", "AnyStruct", "\"s\"", "1", "v.F.getType().identifier", "equal"},
	{"AnyStruct", "String", "\"s\"", "1", "v.F.getType().identifier", "subtype"},
	{"Integer", "Int8", "(5 as Int8)", "(300 as Int16)", "v.F.toString()", "subtype"},
	{"{String: AnyStruct}", "{String: Int}", "{\"a\": 1}", "{\"a\": \"b\"}", "v.F.length", "subtype"},
	{"String", "String", "\"s\"", "\"t\"", "v.F.length", "equal"},
	{"Int", "String", "\"s\"", "4", "v.F.toString()", "unrelated"},
	{"String", "Int?", "3", "\"t\"", "v.F.length", "unrelated"},
	{"[Int]", "[Int; 2]", "[1, 2]", "[3]", "v.F.length", "unrelated"},
}

// FieldConformance generates one history; ok=false when the checker rejects it
// (the expected outcome for subtype/unrelated pairs on a correct checker).
func FieldConformance(r *rand.Rand) (prog.History, bool) {
	hist := prog.History{Origin: "grammar-field-conformance"}
	n := 1 + r.Intn(2)
	kind := []string{"struct", "struct", "resource"}[r.Intn(3)]
	var ifields, sfields, inits, clears, reads, typed strings.Builder
	rels := []string{}
	for i := 0; i < n; i++ {
		p := fcPairs[r.Intn(len(fcPairs))]
		// equal pairs are what a correct checker accepts; keep them the majority so that the family also runs today
		if p.rel != "equal" && r.Intn(3) == 0 {
			for p.rel != "equal" {
				p = fcPairs[r.Intn(len(fcPairs))]
			}
		}
		rels = append(rels, p.rel)
		f := fmt.Sprintf("f%d", i)
		ikw := []string{"var", "var", "let"}[r.Intn(3)]
		skw := ikw
		if r.Intn(4) == 0 {
			skw = []string{"var", "let"}[r.Intn(2)]
		}
		fmt.Fprintf(&ifields, "    access(all) %s %s: %s\n", ikw, f, p.iface)
		fmt.Fprintf(&sfields, "    access(all) %s %s: %s\n", skw, f, p.impl)
		fmt.Fprintf(&inits, "        self.%s = %s\n", f, p.value)
		if ikw == "var" {
			fmt.Fprintf(&clears, "        self.%s = %s\n", f, p.write)
		}
		fmt.Fprintf(&reads, "    log(%s)\n", strings.ReplaceAll(p.read, "v.F", "v."+f))
		fmt.Fprintf(&reads, "    log(v.%s)\n", f)
		fmt.Fprintf(&typed, "    let y%d: %s = s.%s\n    log(y%d)\n", i, p.impl, f, i)
	}
	clearFn := ""
	if clears.Len() > 0 {
		clearFn = "    access(all) fun clear() {\n" + clears.String() + "    }\n"
	} else {
		clearFn = "    access(all) fun clear() { log(\"nothing to clear\") }\n"
	}
	mk, vdecl, end := "var s = FS()", "let v: {FI} = s", ""
	if kind == "resource" {
		mk, vdecl, end = "let s <- create FS()", "let v = &s as &{FI}", "    destroy s\n"
	}
	src := "access(all) struct interface SI0 {}\n" +
		"access(all) struct SV: SI0 { access(all) let k: Int; init(_ k: Int) { self.k = k } }\n" +
		"access(all) struct SW: SI0 { init() {} }\n" +
		"access(all) " + kind + " interface FI {\n" + ifields.String() + clearFn +
		"    access(all) fun describe(): Int { log(\"describe\"); return 1 }\n}\n" +
		"access(all) " + kind + " FS: FI {\n" + sfields.String() + "    init() {\n" + inits.String() + "    }\n}\n" +
		"access(all) fun main() {\n    " + mk + "\n    " + vdecl + "\n" + reads.String() +
		"    log(v.describe())\n    s.clear()\n" + typed.String() + strings.ReplaceAll(reads.String(), "v.", "s.") + end + "}\n"
	ck := Check(nil, KScript, src)
	form := "field-conformance-" + strings.Join(rels, "+")
	grammarCount(ck.OK(), form)
	if !ck.OK() {
		debugReject(form, src, ck)
		return hist, false
	}
	hist.Steps = []prog.Step{{Kind: prog.Script, Source: src, MayFail: true}}
	hist.Features = MergeFeatures(FeaturesOf(ck.Program.Program), []string{"field-conformance"})
	return hist, true
}
