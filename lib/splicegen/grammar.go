package splicegen

import (
	"fmt"
	"math/rand"
	"strings"
	"sync"

	"verif/lib/host"
	"verif/lib/prog"
)

// Grammar-based generator of small well-typed programs. It targets what the
// harvested snippets reach poorly (measured in the C34 feature histogram):
// interface inheritance chains with default functions and pre/post conditions
// (before/result/emit), string templates, switch, if-let, nil-coalescing,
// optional chaining, swaps, enums, inclusive ranges, closures with captures,
// attachments, nested resources with ResourceDestroyed events, and — in the
// contract form — storage round trips across transactions.
//
// Programs are well-typed by construction for the most part; what the checker
// rejects is counted (GrammarStats) and dropped by the caller.

type gtype string

const (
	tInt   gtype = "Int"
	tBool  gtype = "Bool"
	tStr   gtype = "String"
	tArr   gtype = "[Int]"
	tDict  gtype = "{String: Int}"
	tOpt   gtype = "Int?"
	tS     gtype = "S0"
	tI     gtype = "{I0}"
	tOptS  gtype = "S0?"
	tColor gtype = "Color"
)

var gtypes = []gtype{tInt, tInt, tInt, tBool, tStr, tArr, tDict, tOpt, tS, tI, tOptS, tColor}

type gvar struct {
	name    string
	t       gtype
	mutable bool
}

type gram struct {
	r          *rand.Rand
	vars       []gvar
	n          int
	q          string // qualifier of declared types/functions ("" in scripts, "G." in transactions using contract G)
	depth      int
	loops      int
	funcs      []string   // helper function names (Int, Int) -> Int
	chain      int        // number of interfaces in the struct interface chain
	putParams  []mixParam // parameters of RI.put (mixed resource / non-resource, random order)
	takeParams []mixParam // parameters of I0.take
	fq         string     // qualifier of contract-level functions inside the contract's own declarations
	inTpl      int        // > 0 while generating inside a string template (templates must not nest: parser finding F12)
}

func (g *gram) fresh(p string) string { g.n++; return fmt.Sprintf("%s%d", p, g.n) }

func (g *gram) pickVar(t gtype, mutable bool) (gvar, bool) {
	var c []gvar
	for _, v := range g.vars {
		if v.t == t && (!mutable || v.mutable) {
			c = append(c, v)
		}
	}
	if len(c) == 0 {
		return gvar{}, false
	}
	return c[g.r.Intn(len(c))], true
}

func (g *gram) intLit() string {
	k := []int{0, 1, 2, 3, 5, 7, 10, 42, 100, -1, -3}[g.r.Intn(11)]
	if k < 0 {
		return fmt.Sprintf("(%d)", k)
	}
	return fmt.Sprint(k)
}

// expr generates an expression of type t.
func (g *gram) expr(t gtype, d int) string {
	r := g.r
	if d > 3 || r.Intn(4) == 0 {
		if v, ok := g.pickVar(t, false); ok && r.Intn(3) != 0 {
			return v.name
		}
		return g.leaf(t)
	}
	switch t {
	case tInt:
		switch r.Intn(16) {
		case 0, 1:
			op := []string{"+", "-", "*"}[r.Intn(3)]
			return "(" + g.expr(tInt, d+1) + " " + op + " " + g.expr(tInt, d+1) + ")"
		case 2:
			return "(" + g.expr(tInt, d+1) + " " + []string{"/", "%"}[r.Intn(2)] + " " + []string{"2", "3", "7", g.expr(tInt, d+2)}[r.Intn(4)] + ")"
		case 3:
			return "(" + g.expr(tBool, d+1) + " ? " + g.expr(tInt, d+1) + " : " + g.expr(tInt, d+1) + ")"
		case 4:
			return "(" + g.expr(tOpt, d+1) + " ?? " + g.expr(tInt, d+1) + ")"
		case 5:
			return g.expr(tArr, d+1) + ".length"
		case 6:
			return "(" + g.expr(tDict, d+1) + "[" + g.expr(tStr, d+2) + "] ?? " + g.intLit() + ")"
		case 7:
			if len(g.funcs) > 0 {
				return g.q + g.fq + g.funcs[r.Intn(len(g.funcs))] + "(" + g.expr(tInt, d+1) + ", " + g.expr(tInt, d+1) + ")"
			}
			return g.leaf(t)
		case 8:
			if len(g.takeParams) > 0 && r.Intn(2) == 0 {
				return g.expr([]gtype{tS, tI}[r.Intn(2)], d+1) + ".take(" + g.mixArgs(g.takeParams) + ")"
			}
			return g.expr(tS, d+1) + ".f(" + g.expr(tInt, d+1) + ")"
		case 9:
			return g.expr(tI, d+1) + "." + []string{"f(" + g.expr(tInt, d+1) + ")", "g()"}[r.Intn(2)]
		case 10:
			return "(" + g.expr(tOptS, d+1) + "?.g() ?? " + g.intLit() + ")"
		case 11:
			c := g.fresh("c")
			return "(fun (_ " + c + ": Int): Int { return " + c + " + " + g.expr(tInt, d+2) + " })(" + g.expr(tInt, d+1) + ")"
		case 12:
			return "Int(" + g.expr(tColor, d+1) + ".rawValue)"
		case 13:
			return "((" + g.expr(tInt, d+1) + " as AnyStruct) as! Int)"
		case 14:
			return g.expr(tStr, d+1) + ".length"
		default:
			return g.expr(tS, d+1) + ".n"
		}
	case tBool:
		switch r.Intn(8) {
		case 0, 1:
			return "(" + g.expr(tInt, d+1) + " " + []string{"<", "<=", ">", ">=", "==", "!="}[r.Intn(6)] + " " + g.expr(tInt, d+1) + ")"
		case 2:
			return "(" + g.expr(tBool, d+1) + " " + []string{"&&", "||"}[r.Intn(2)] + " " + g.expr(tBool, d+1) + ")"
		case 3:
			return "!" + g.expr(tBool, d+1)
		case 4:
			return "(" + g.expr(tOpt, d+1) + " == nil)"
		case 5:
			return g.expr(tArr, d+1) + ".contains(" + g.expr(tInt, d+1) + ")"
		case 6:
			return "(" + g.expr(tStr, d+1) + " == " + g.expr(tStr, d+1) + ")"
		default:
			return "(" + g.expr(tColor, d+1) + " == " + g.q + "Color." + []string{"red", "green", "blue"}[r.Intn(3)] + ")"
		}
	case tStr:
		k := r.Intn(6)
		if g.inTpl > 0 && (k <= 1 || k == 5) {
			k = 2 + r.Intn(3)
		}
		switch k {
		case 0, 1:
			g.inTpl++
			defer func() { g.inTpl-- }()
			return "\"v=\\(" + g.expr(tInt, d+1) + ") b=\\(" + g.expr(tBool, d+1) + ")\""
		case 2:
			return g.expr(tStr, d+1) + ".concat(" + g.expr(tStr, d+1) + ")"
		case 3:
			return "(" + g.expr(tInt, d+1) + ").toString()"
		case 4:
			return "(" + g.expr(tBool, d+1) + " ? " + g.expr(tStr, d+1) + " : " + g.expr(tStr, d+1) + ")"
		default:
			g.inTpl++
			defer func() { g.inTpl-- }()
			return "\"s\\(" + g.expr(tStr, d+1) + ")\""
		}
	case tArr:
		switch r.Intn(6) {
		case 0:
			return "[" + g.expr(tInt, d+1) + ", " + g.expr(tInt, d+1) + "]"
		case 1:
			return g.expr(tArr, d+1) + ".concat(" + g.expr(tArr, d+1) + ")"
		case 2:
			return g.expr(tArr, d+1) + ".map(fun (x: Int): Int { return x + " + g.expr(tInt, d+2) + " })"
		case 3:
			return g.expr(tDict, d+1) + ".values"
		case 4:
			return g.expr(tArr, d+1) + ".reverse()"
		default:
			return g.expr(tArr, d+1) + ".filter(view fun (x: Int): Bool { return x > " + g.intLit() + " })"
		}
	case tDict:
		if r.Intn(2) == 0 {
			return "{\"a\": " + g.expr(tInt, d+1) + ", \"b\": " + g.expr(tInt, d+1) + "}"
		}
		return g.leaf(t)
	case tOpt:
		switch r.Intn(6) {
		case 0:
			return "(" + g.expr(tInt, d+1) + " as Int?)"
		case 1:
			return g.expr(tDict, d+1) + "[" + g.expr(tStr, d+1) + "]"
		case 2:
			return "((" + g.expr(tInt, d+1) + " as AnyStruct) as? Int)"
		case 3:
			return g.expr(tOptS, d+1) + "?.n"
		case 4:
			return g.expr(tArr, d+1) + ".firstIndex(of: " + g.expr(tInt, d+1) + ")"
		default:
			return "(" + g.expr(tBool, d+1) + " ? nil : " + g.expr(tOpt, d+1) + ")"
		}
	case tS:
		return g.q + "S0(n: " + g.expr(tInt, d+1) + ")"
	case tI:
		if r.Intn(2) == 0 {
			return "(" + g.q + "S1(n: " + g.expr(tInt, d+1) + ") as {" + g.q + "I0})"
		}
		return "(" + g.expr(tS, d+1) + " as {" + g.q + "I0})"
	case tOptS:
		if r.Intn(3) == 0 {
			return "(nil as " + g.q + "S0?)"
		}
		return "(" + g.expr(tS, d+1) + " as " + g.q + "S0?)"
	case tColor:
		if r.Intn(3) == 0 {
			return "(" + g.q + "Color(rawValue: UInt8(" + []string{"0", "1", "2"}[r.Intn(3)] + ")) ?? " + g.q + "Color.red)"
		}
		return g.leaf(t)
	}
	return g.leaf(t)
}

func (g *gram) leaf(t gtype) string {
	r := g.r
	switch t {
	case tInt:
		return g.intLit()
	case tBool:
		return []string{"true", "false"}[r.Intn(2)]
	case tStr:
		return []string{"\"\"", "\"a\"", "\"b\"", "\"key\"", "\"héllo\""}[r.Intn(5)]
	case tArr:
		return []string{"[1, 2, 3]", "([] as [Int])", "[7]", "[3, 1, 2, 1]"}[r.Intn(4)]
	case tDict:
		return []string{"{\"a\": 1, \"b\": 2}", "({} as {String: Int})", "{\"key\": 9}"}[r.Intn(3)]
	case tOpt:
		return []string{"(nil as Int?)", "(4 as Int?)"}[r.Intn(2)]
	case tS:
		return g.q + "S0(n: " + g.intLit() + ")"
	case tI:
		return "(" + g.q + "S1(n: " + g.intLit() + ") as {" + g.q + "I0})"
	case tOptS:
		return "(" + g.q + "S0(n: 2) as " + g.q + "S0?)"
	case tColor:
		return g.q + "Color." + []string{"red", "green", "blue"}[r.Intn(3)]
	}
	return "0"
}

func (g *gram) typeName(t gtype) string {
	switch t {
	case tS:
		return g.q + "S0"
	case tI:
		return "{" + g.q + "I0}"
	case tOptS:
		return g.q + "S0?"
	case tColor:
		return g.q + "Color"
	}
	return string(t)
}

func ind(n int) string { return strings.Repeat("    ", n) }

// stmts generates n statements at nesting level lvl.
func (g *gram) stmts(n, lvl int, sb *strings.Builder) {
	for i := 0; i < n; i++ {
		g.stmt(lvl, sb)
	}
}

func (g *gram) block(lvl int, sb *strings.Builder) {
	saved := len(g.vars)
	g.stmts(1+g.r.Intn(3), lvl, sb)
	g.vars = g.vars[:saved]
}

func (g *gram) stmt(lvl int, sb *strings.Builder) {
	r := g.r
	p := ind(lvl)
	k := r.Intn(100)
	if lvl > 3 && k >= 30 && k < 62 {
		k = r.Intn(30)
	}
	switch {
	case k < 18: // declaration
		t := gtypes[r.Intn(len(gtypes))]
		name := g.fresh("v")
		kw := "let"
		mut := r.Intn(2) == 0
		if mut {
			kw = "var"
		}
		annot := ""
		if r.Intn(2) == 0 || t == tOpt || t == tOptS || t == tI {
			annot = ": " + g.typeName(t)
		}
		fmt.Fprintf(sb, "%s%s %s%s = %s\n", p, kw, name, annot, g.expr(t, 0))
		g.vars = append(g.vars, gvar{name, t, mut})
	case k < 28: // assignment
		t := gtypes[r.Intn(len(gtypes))]
		if v, ok := g.pickVar(t, true); ok {
			fmt.Fprintf(sb, "%s%s = %s\n", p, v.name, g.expr(t, 0))
		} else {
			fmt.Fprintf(sb, "%slog(%s)\n", p, g.expr(t, 0))
		}
	case k < 36: // log
		t := gtypes[r.Intn(len(gtypes))]
		fmt.Fprintf(sb, "%slog(%s)\n", p, g.expr(t, 0))
	case k < 43: // if / else
		fmt.Fprintf(sb, "%sif %s {\n", p, g.expr(tBool, 0))
		g.block(lvl+1, sb)
		if r.Intn(2) == 0 {
			fmt.Fprintf(sb, "%s} else {\n", p)
			g.block(lvl+1, sb)
		}
		fmt.Fprintf(sb, "%s}\n", p)
	case k < 48: // if-let
		name := g.fresh("u")
		fmt.Fprintf(sb, "%sif let %s = %s {\n", p, name, g.expr(tOpt, 0))
		saved := len(g.vars)
		g.vars = append(g.vars, gvar{name, tInt, false})
		g.stmts(1+r.Intn(2), lvl+1, sb)
		g.vars = g.vars[:saved]
		fmt.Fprintf(sb, "%s} else {\n%s    log(\"none\")\n%s}\n", p, p, p)
	case k < 53: // bounded while
		if g.loops >= 2 {
			fmt.Fprintf(sb, "%slog(%s)\n", p, g.expr(tInt, 0))
			return
		}
		g.loops++
		c := g.fresh("i")
		fmt.Fprintf(sb, "%svar %s = 0\n%swhile %s < %d {\n%s    %s = %s + 1\n", p, c, p, c, 1+r.Intn(4), p, c, c)
		saved := len(g.vars)
		g.vars = append(g.vars, gvar{c, tInt, false})
		if r.Intn(3) == 0 {
			fmt.Fprintf(sb, "%s    if %s { %s }\n", p, g.expr(tBool, 1), []string{"continue", "break"}[r.Intn(2)])
		}
		g.stmts(1+r.Intn(2), lvl+1, sb)
		g.vars = g.vars[:saved]
		fmt.Fprintf(sb, "%s}\n", p)
		g.loops--
	case k < 58: // for-in
		if g.loops >= 2 {
			fmt.Fprintf(sb, "%slog(%s)\n", p, g.expr(tStr, 0))
			return
		}
		g.loops++
		x := g.fresh("x")
		saved := len(g.vars)
		switch r.Intn(4) {
		case 0:
			fmt.Fprintf(sb, "%sfor %s in %s {\n", p, x, g.expr(tArr, 0))
			g.vars = append(g.vars, gvar{x, tInt, false})
		case 1:
			ix := g.fresh("ix")
			fmt.Fprintf(sb, "%sfor %s, %s in %s {\n", p, ix, x, g.expr(tArr, 0))
			g.vars = append(g.vars, gvar{x, tInt, false}, gvar{ix, tInt, false})
		case 2:
			fmt.Fprintf(sb, "%sfor %s in InclusiveRange(%d, %d, step: %d) {\n", p, x, r.Intn(3), 3+r.Intn(4), 1+r.Intn(2))
			g.vars = append(g.vars, gvar{x, tInt, false})
		default:
			fmt.Fprintf(sb, "%sfor %s in %s.keys {\n", p, x, g.expr(tDict, 0))
			g.vars = append(g.vars, gvar{x, tStr, false})
		}
		g.stmts(1+r.Intn(2), lvl+1, sb)
		g.vars = g.vars[:saved]
		fmt.Fprintf(sb, "%s}\n", p)
		g.loops--
	case k < 62: // switch
		if r.Intn(2) == 0 {
			fmt.Fprintf(sb, "%sswitch %s {\n", p, g.expr(tColor, 0))
			for _, c := range []string{"red", "green"} {
				fmt.Fprintf(sb, "%scase %sColor.%s:\n", p, g.q, c)
				g.block(lvl+1, sb)
			}
		} else {
			fmt.Fprintf(sb, "%sswitch %s {\n", p, g.expr(tInt, 0))
			for _, c := range []string{"0", "1", "5"} {
				fmt.Fprintf(sb, "%scase %s:\n", p, c)
				g.block(lvl+1, sb)
			}
		}
		fmt.Fprintf(sb, "%sdefault:\n%s    log(\"default\")\n%s}\n", p, p, p)
	case k < 66: // swap
		t := []gtype{tInt, tStr, tArr}[r.Intn(3)]
		a, ok1 := g.pickVar(t, true)
		b, ok2 := g.pickVar(t, true)
		if ok1 && ok2 {
			fmt.Fprintf(sb, "%s%s <-> %s\n", p, a.name, b.name)
		} else if v, ok := g.pickVar(tArr, true); ok {
			fmt.Fprintf(sb, "%sif %s.length > 1 { %s[0] <-> %s[%s.length - 1] }\n", p, v.name, v.name, v.name, v.name)
		} else {
			fmt.Fprintf(sb, "%slog(%s)\n", p, g.expr(tArr, 0))
		}
	case k < 72: // container mutation
		if v, ok := g.pickVar(tArr, true); ok {
			switch r.Intn(4) {
			case 0:
				fmt.Fprintf(sb, "%s%s.append(%s)\n", p, v.name, g.expr(tInt, 0))
			case 1:
				fmt.Fprintf(sb, "%sif %s.length > 0 { %s[0] = %s }\n", p, v.name, v.name, g.expr(tInt, 0))
			case 2:
				fmt.Fprintf(sb, "%sif %s.length > 0 { log(%s.removeLast()) }\n", p, v.name, v.name)
			default:
				fmt.Fprintf(sb, "%s%s.insert(at: 0, %s)\n", p, v.name, g.expr(tInt, 0))
			}
		} else if v, ok := g.pickVar(tDict, true); ok {
			if r.Intn(2) == 0 {
				fmt.Fprintf(sb, "%s%s[%s] = %s\n", p, v.name, g.expr(tStr, 1), g.expr(tInt, 0))
			} else {
				fmt.Fprintf(sb, "%slog(%s.remove(key: %s))\n", p, v.name, g.expr(tStr, 1))
			}
		} else {
			name := g.fresh("v")
			fmt.Fprintf(sb, "%svar %s = %s\n", p, name, g.expr(tArr, 0))
			g.vars = append(g.vars, gvar{name, tArr, true})
		}
	case k < 77: // closure capturing and mutating a variable
		c := g.fresh("cnt")
		f := g.fresh("fn")
		fmt.Fprintf(sb, "%svar %s = %s\n%slet %s = fun (_ d: Int): Int {\n%s    %s = %s + d\n%s    return %s * 2\n%s}\n", p, c, g.expr(tInt, 1), p, f, p, c, c, p, c, p)
		fmt.Fprintf(sb, "%slog(%s(%s))\n%slog(%s(%s) + %s)\n", p, f, g.expr(tInt, 1), p, f, g.intLit(), c)
		g.vars = append(g.vars, gvar{c, tInt, true})
	case k < 82: // reference into a container / struct
		if v, ok := g.pickVar(tArr, true); ok {
			ref := g.fresh("ref")
			fmt.Fprintf(sb, "%slet %s = &%s as auth(Mutate) &[Int]\n%s%s.append(%s)\n%slog(%s.length)\n", p, ref, v.name, p, ref, g.expr(tInt, 1), p, ref)
		} else if v, ok := g.pickVar(tS, false); ok {
			ref := g.fresh("ref")
			fmt.Fprintf(sb, "%slet %s = &%s as &%sS0\n%slog(%s.f(%s))\n%slog(%s.n)\n", p, ref, v.name, g.q, p, ref, g.expr(tInt, 1), p, ref)
		} else {
			fmt.Fprintf(sb, "%slog(%s)\n", p, g.expr(tBool, 0))
		}
	case k < 86: // struct field mutation through method
		if v, ok := g.pickVar(tS, true); ok {
			fmt.Fprintf(sb, "%s%s.set(%s)\n%slog(%s.n)\n", p, v.name, g.expr(tInt, 0), p, v.name)
		} else {
			name := g.fresh("v")
			fmt.Fprintf(sb, "%svar %s = %s\n", p, name, g.expr(tS, 0))
			g.vars = append(g.vars, gvar{name, tS, true})
		}
	case k < 89: // emit (events can only be emitted where they are declared)
		if g.q != "" {
			fmt.Fprintf(sb, "%slog(%sbump(%s))\n", p, g.q, g.expr(tInt, 1))
		} else {
			fmt.Fprintf(sb, "%semit Ev(tag: %s, v: %s)\n", p, g.expr(tStr, 1), g.expr(tInt, 1))
		}
	case k < 95: // resource scenario
		g.resourceScenario(lvl, sb)
	default: // attachment on a struct
		a := g.fresh("att")
		fmt.Fprintf(sb, "%slet %s = attach %sTag(k: %s) to %s\n%slog(%s[%sTag]?.show() ?? \"no tag\")\n", p, a, g.q, g.expr(tInt, 1), g.expr(tS, 1), p, a, g.q)
	}
}

// resourceScenario emits a self-contained block that creates, moves, nests,
// attaches to and destroys resources. Placeholders: $A $B fresh names, $Q type
// qualifier, $M qualifier of the contract-level function mk, $I/$J Int
// expressions, $C a Bool expression.
var resourceScenarios = []string{
	// nest, call through interface with conditions, destroy parent
	"let $A <- $Mmk($I)\nlet $B <- $Mmk($J)\n$A.add(<- $B)\nlog($A.h($I))\nlog($A.total())\ndestroy $A",
	// array of resources, remove, append
	"var $A: @[$QR] <- [<- $Mmk(1), <- $Mmk($I)]\nlet $B <- $A.remove(at: 0)\nlog($B.v + $A[0].v)\n$A.append(<- $B)\ndestroy $A",
	// dictionary of resources with force-move
	"var $A: @{String: $QR} <- {}\n$A[\"x\"] <-! $Mmk($I)\nlet $B <- $A.remove(key: \"x\")\nlog($B?.v)\ndestroy $B\ndestroy $A",
	// optional resource, if-let move
	"var $A: @$QR? <- nil\nif $C {\n    $A <-! $Mmk(3)\n}\nif let $B <- $A {\n    log($B.h($I))\n    destroy $B\n} else {\n    log(\"nil resource\")\n}",
	// attachment on a resource, access through a reference
	"let $A <- attach $QBadge(level: $I) to <- $Mmk($J)\nlog($A[$QBadge]?.bonus() ?? -1)\nlet $B = &$A as &$QR\nlog($B[$QBadge]?.level)\ndestroy $A",
	// swap of resource variables and use through an interface reference
	"var $A <- $Mmk(1)\nvar $B <- $Mmk(2)\n$A <-> $B\nlet ref$A = &$A as &{$QRI}\nlog(ref$A.h($I))\ndestroy $A\ndestroy $B",
	// remove attachment, cast through interface
	"let $A <- attach $QBadge(level: 1) to <- $Mmk($I)\nlet $B: @{$QRI} <- $A\nif let back$B <- $B as? @$QR {\n    remove $QBadge from back$B\n    log(back$B[$QBadge] == nil)\n    destroy back$B\n} else {\n    panic(\"unreachable\")\n}",
	// interface function with conditions and mixed resource / non-resource parameters, called directly and through an interface reference
	"let $A <- $Mmk($I)\nlog($A.put($PUT1))\nlet ref$A = &$A as &{$QRI}\nlog(ref$A.put($PUT2))\nlog($A.total())\ndestroy $A",
	"let $A: @{$QRI} <- $Mmk($I)\nlog($A.put($PUT1))\nlog($A.put($PUT2))\ndestroy $A",
	// nested resource reached through references, moved out of the parent
	"let $A <- $Mmk($I)\n$A.add(<- $Mmk($J))\nlet $B = &$A.kids[0] as &$QR\nlog($B.h(1))\nlet out$B <- $A.kids.remove(at: 0)\nlog(out$B.v)\ndestroy out$B\ndestroy $A",
}

func (g *gram) resourceScenario(lvl int, sb *strings.Builder) {
	t := resourceScenarios[g.r.Intn(len(resourceScenarios))]
	rep := strings.NewReplacer("$A", g.fresh("r"), "$B", g.fresh("r"), "$Q", g.q, "$M", g.q+g.fq,
		"$I", g.expr(tInt, 1), "$J", g.expr(tInt, 1), "$C", g.expr(tBool, 1), "$PUT1", g.mixArgs(g.putParams), "$PUT2", g.mixArgs(g.putParams))
	p := ind(lvl)
	for _, line := range strings.Split(rep.Replace(t), "\n") {
		sb.WriteString(p + line + "\n")
	}
}

// cond generates a condition over the named Int parameter.
func (g *gram) cond(param string, tag string, post bool) string {
	r := g.r
	var tests []string
	n := 1 + r.Intn(2)
	for i := 0; i < n; i++ {
		switch k := r.Intn(6); {
		case k == 0 && post:
			tests = append(tests, fmt.Sprintf("result >= before(%s) - %d: \"%s.post.result\"", param, 50+r.Intn(100), tag))
		case k == 1 && post:
			tests = append(tests, fmt.Sprintf("result != %d: \"%s.post.ne\"", 13+r.Intn(5), tag))
		case k == 2:
			tests = append(tests, fmt.Sprintf("emit %sEv(tag: \"%s\", v: %s)", g.q0(), tag, param))
		case k == 3:
			tests = append(tests, fmt.Sprintf("%s < %d: \"%s.upper\"", param, 60+r.Intn(200), tag))
		default:
			tests = append(tests, fmt.Sprintf("%s >= %d: \"%s.lower\"", param, -r.Intn(20), tag))
		}
	}
	kw := "pre"
	if post {
		kw = "post"
	}
	return kw + " { " + strings.Join(tests, "; ") + " }"
}

// q0 is the qualifier usable inside the declarations themselves (always unqualified).
func (g *gram) q0() string { return "" }

// decls generates the type and function declarations.
func (g *gram) decls() string {
	r := g.r
	var sb strings.Builder
	sb.WriteString("access(all) event Ev(tag: String, v: Int)\n")
	sb.WriteString("access(all) enum Color: UInt8 {\n    access(all) case red\n    access(all) case green\n    access(all) case blue\n}\n")
	// struct interface chain I0 <- I1 [<- I2]. Checker rules: at most one default implementation of f in the
	// chain, and an interface below the one with the default may only re-declare f together with conditions.
	g.chain = 2 + r.Intn(2)
	g.takeParams = g.mixParams(false)
	defaultAt := r.Intn(g.chain+1) - 1 // -1: no default implementation
	gDefault := r.Intn(2) == 0
	for i := 0; i < g.chain; i++ {
		name := fmt.Sprintf("I%d", i)
		parent := ""
		if i > 0 {
			parent = fmt.Sprintf(": I%d", i-1)
		}
		fmt.Fprintf(&sb, "access(all) struct interface %s%s {\n", name, parent)
		if i == 0 {
			sb.WriteString("    access(all) var n: Int\n")
			sb.WriteString("    access(all) fun take(" + mixDecl(g.takeParams) + "): Int {\n        " + g.cond("slot", "I0.take", false) + "\n    }\n")
			if gDefault {
				sb.WriteString("    access(all) view fun g(): Int { return 10 + self.n }\n")
			} else {
				sb.WriteString("    access(all) view fun g(): Int\n")
			}
		}
		pre, post := r.Intn(3) != 0, r.Intn(3) != 0
		below := defaultAt >= 0 && i > defaultAt
		if below && !pre && !post {
			if r.Intn(2) == 0 {
				sb.WriteString("}\n") // does not re-declare f
				continue
			}
			pre = true
		}
		if !pre && !post && i != defaultAt {
			sb.WriteString("    access(all) fun f(_ x: Int): Int\n}\n")
			continue
		}
		sb.WriteString("    access(all) fun f(_ x: Int): Int {\n")
		if pre {
			sb.WriteString("        " + g.cond("x", name, false) + "\n")
		}
		if post {
			sb.WriteString("        " + g.cond("x", name, true) + "\n")
		}
		if i == defaultAt {
			fmt.Fprintf(&sb, "        log(\"%s.f default\")\n        return x + self.n + %d\n", name, i+1)
		}
		sb.WriteString("    }\n}\n")
	}
	last := g.chain - 1
	for si, sname := range []string{"S0", "S1"} {
		conf := last
		if si == 1 {
			conf = r.Intn(g.chain)
		}
		fmt.Fprintf(&sb, "access(all) struct %s: I%d {\n    access(all) var n: Int\n    init(n: Int) { self.n = n }\n    access(all) fun set(_ v: Int) { self.n = v }\n", sname, conf)
		// f must be implemented unless a default is inherited (then it is sometimes overridden anyway)
		inheritsDefault := defaultAt >= 0 && defaultAt <= conf
		if !inheritsDefault || r.Intn(3) == 0 {
			fmt.Fprintf(&sb, "    access(all) fun f(_ x: Int): Int {\n        log(\"%s.f\")\n        return x * %d + self.n\n    }\n", sname, 2+si)
		}
		if !gDefault || r.Intn(2) == 0 {
			fmt.Fprintf(&sb, "    access(all) view fun g(): Int { return self.n + %d }\n", si)
		}
		sb.WriteString("    access(all) fun take(" + mixDecl(g.takeParams) + "): Int {\n        var t = slot + self.n\n")
		for _, p := range g.takeParams {
			if p.kind == "res" {
				sb.WriteString("        t = t + " + p.name + ".v\n        destroy " + p.name + "\n")
			}
		}
		sb.WriteString("        return t\n    }\n")
		sb.WriteString("}\n")
	}
	sb.WriteString("access(all) attachment Tag for S0 {\n    access(all) let k: Int\n    init(k: Int) { self.k = k }\n    access(all) fun show(): String { return \"tag \\(self.k) on \\(base.n)\" }\n}\n")
	// resources
	g.putParams = g.mixParams(true)
	putDecl := "    access(all) fun put(" + mixDecl(g.putParams) + "): Int {\n        " + g.cond("slot", "RI.put", false) + "\n"
	if r.Intn(2) == 0 {
		putDecl += "        post { result >= before(slot): \"RI.put.post\" }\n"
	}
	putDecl += "    }\n"
	riPre, riPost, riDefault := r.Intn(3) != 0, r.Intn(2) == 0, r.Intn(2) == 0
	if !riPre && !riPost && !riDefault {
		sb.WriteString("access(all) resource interface RI {\n    access(all) fun h(_ x: Int): Int\n" + putDecl + "}\n")
	} else {
		sb.WriteString("access(all) resource interface RI {\n    access(all) fun h(_ x: Int): Int {\n")
		if riPre {
			sb.WriteString("        " + g.cond("x", "RI", false) + "\n")
		}
		if riPost {
			sb.WriteString("        " + g.cond("x", "RI", true) + "\n")
		}
		if riDefault {
			sb.WriteString("        log(\"RI.h default\")\n        return x + 100\n")
		}
		sb.WriteString("    }\n" + putDecl + "}\n")
	}
	sb.WriteString("access(all) resource R: RI {\n    access(all) var v: Int\n    access(all) var kids: @[R]\n")
	if r.Intn(3) != 0 {
		sb.WriteString("    access(all) event ResourceDestroyed(v: Int = self.v)\n")
	}
	sb.WriteString("    init(v: Int) { self.v = v; self.kids <- [] }\n    access(all) fun add(_ k: @R) { self.kids.append(<- k) }\n")
	sb.WriteString("    access(all) fun total(): Int {\n        var t = self.v\n        var i = 0\n        while i < self.kids.length {\n            t = t + self.kids[i].total()\n            i = i + 1\n        }\n        return t\n    }\n")
	if !riDefault || r.Intn(3) == 0 {
		sb.WriteString("    access(all) fun h(_ x: Int): Int {\n        self.v = self.v + 1\n        return x + self.v\n    }\n")
	}
	sb.WriteString("    access(all) fun put(" + mixDecl(g.putParams) + "): Int {\n")
	for _, p := range g.putParams {
		switch p.kind {
		case "res":
			sb.WriteString("        self.kids.append(<- " + p.name + ")\n")
		case "optres":
			sb.WriteString("        if let e <- " + p.name + " {\n            self.kids.append(<- e)\n        }\n")
		}
	}
	sb.WriteString("        return slot + self.kids.length\n    }\n")
	sb.WriteString("}\n")
	sb.WriteString("access(all) attachment Badge for R {\n    access(all) let level: Int\n    init(level: Int) { self.level = level }\n    access(all) fun bonus(): Int { return base.v + self.level }\n}\n")
	sb.WriteString("access(all) fun mk(_ v: Int): @R { return <- create R(v: v) }\n")
	// helper functions
	nf := 1 + r.Intn(3)
	g.funcs = nil
	for i := 0; i < nf; i++ {
		name := fmt.Sprintf("helper%d", i)
		saved := g.vars
		g.vars = []gvar{{"a", tInt, false}, {"b", tInt, false}}
		var body strings.Builder
		g.stmts(1+r.Intn(3), 1, &body)
		ret := g.expr(tInt, 1)
		g.vars = saved
		fmt.Fprintf(&sb, "access(all) fun %s(_ a: Int, _ b: Int): Int {\n", name)
		if r.Intn(3) == 0 {
			sb.WriteString("    " + g.cond("a", name, false) + "\n")
		}
		sb.WriteString(body.String())
		fmt.Fprintf(&sb, "    return %s\n}\n", ret)
		g.funcs = append(g.funcs, name) // later helpers may call earlier ones
	}
	return sb.String()
}

// GrammarFeatures labels grammar programs in addition to the AST labels.
const FGrammar = "grammar"

// Grammar generates one history. ok=false when the checker rejects the program.
func Grammar(r *rand.Rand) (prog.History, bool) {
	// a third of the programs come from the stateful-object family (stateful.go), a sixth from the field-conformance family (fieldconf.go)
	switch r.Intn(12) {
	case 0, 1, 2, 3:
		return Stateful(r)
	case 4, 5:
		return FieldConformance(r)
	}
	g := &gram{r: r}
	hist := prog.History{Origin: "grammar"}
	asContract := r.Intn(10) < 3
	if !asContract {
		decls := g.decls()
		var body strings.Builder
		g.vars = nil
		g.stmts(4+r.Intn(8), 1, &body)
		ret := g.expr(tInt, 0)
		src := decls + "\naccess(all) fun main(): Int {\n" + body.String() + "    return " + ret + "\n}\n"
		ck := Check(nil, KScript, src)
		grammarCount(ck.OK(), "script")
		if !ck.OK() {
			debugReject("script", src, ck)
			return hist, false
		}
		hist.Steps = []prog.Step{{Kind: prog.Script, Source: src, MayFail: true}}
		hist.Features = FeaturesOf(ck.Program.Program)
		return hist, true
	}
	// contract form: declarations live in contract G; two transactions use it and account storage
	hist.Origin = "grammar-contract"
	g.fq = "G."
	decls := g.decls()
	contract := "access(all) contract G {\n" + indent(decls) + "\n    access(all) var counter: Int\n    access(all) fun bump(_ d: Int): Int { self.counter = self.counter + d; return self.counter }\n    init() { self.counter = 0 }\n}\n"
	g.q, g.fq = "G.", ""
	var b1, b2 strings.Builder
	g.vars = nil
	g.stmts(3+r.Intn(5), 2, &b1)
	saveV := g.expr(tInt, 1)
	g.vars = nil
	g.stmts(2+r.Intn(4), 2, &b2)
	tx1 := "import G from 0x1\ntransaction {\n    prepare(acct: auth(Storage, Capabilities) &Account) {\n" + b1.String() +
		"        let res <- G.mk(" + saveV + ")\n        res.add(<- G.mk(G.bump(2)))\n        acct.storage.save(<- res, to: /storage/gres)\n" +
		"        acct.storage.save(G.S0(n: G.bump(1)), to: /storage/gs)\n        acct.storage.save([1, 2, G.counter], to: /storage/garr)\n" +
		"        let cap = acct.capabilities.storage.issue<&G.R>(/storage/gres)\n        acct.capabilities.publish(cap, at: /public/gres)\n    }\n}\n"
	tx2 := "import G from 0x1\ntransaction {\n    prepare(acct: auth(Storage, Capabilities) &Account) {\n" +
		"        let rr = acct.storage.borrow<&G.R>(from: /storage/gres)!\n        log(rr.h(3))\n        log(rr.total())\n" +
		"        let viaCap = acct.capabilities.borrow<&G.R>(/public/gres)\n        log(viaCap?.v)\n" +
		"        var s = acct.storage.load<G.S0>(from: /storage/gs)!\n        s.set(s.f(2))\n        acct.storage.save(s, to: /storage/gs)\n" +
		"        let arr = acct.storage.borrow<auth(Mutate) &[Int]>(from: /storage/garr)!\n        arr.append(G.bump(5))\n" +
		b2.String() +
		"        if G.counter % 2 == 0 {\n            let res <- acct.storage.load<@G.R>(from: /storage/gres)!\n            destroy res\n        }\n    }\n}\n"
	h := freshHostWithContract("G", contract)
	if h == nil {
		grammarCount(false, "contract")
		debugReject("contract", contract, Check(nil, KContract, contract))
		return hist, false
	}
	c1, c2 := Check(h.Fork(), KTx, tx1), Check(h.Fork(), KTx, tx2)
	ok := c1.OK() && c2.OK()
	grammarCount(ok, "contract")
	if !ok {
		if !c1.OK() {
			debugReject("tx1", tx1, c1)
		} else {
			debugReject("tx2", tx2, c2)
		}
		return hist, false
	}
	hist.Steps = []prog.Step{
		{Kind: prog.Deploy, Name: "G", Source: contract, Signers: []uint64{1}},
		{Kind: prog.Tx, Source: tx1, Signers: []uint64{1}, MayFail: true},
		{Kind: prog.Tx, Source: tx2, Signers: []uint64{1}, MayFail: true},
		{Kind: prog.Script, Source: "import G from 0x1\naccess(all) fun main(): [Int] {\n    let a = getAuthAccount<auth(Storage) &Account>(0x1)\n    return [G.counter, a.storage.borrow<&[Int]>(from: /storage/garr)?.length ?? -1, a.storage.borrow<&G.R>(from: /storage/gres)?.total() ?? -1]\n}\n", MayFail: true},
	}
	hist.Features = MergeFeatures(FeaturesOfSource(contract), FeaturesOf(c1.Program.Program), FeaturesOf(c2.Program.Program))
	return hist, true
}

func indent(s string) string {
	lines := strings.Split(strings.TrimRight(s, "\n"), "\n")
	for i := range lines {
		lines[i] = "    " + lines[i]
	}
	return strings.Join(lines, "\n")
}

var (
	grammarMu    sync.Mutex
	grammarTried = map[string]int{}
	grammarOK    = map[string]int{}
)

func grammarCount(ok bool, form string) {
	grammarMu.Lock()
	grammarTried[form]++
	if ok {
		grammarOK[form]++
	}
	grammarMu.Unlock()
}

// GrammarStats reports the checker accept rate of the grammar generator per form.
func GrammarStats() map[string]any {
	grammarMu.Lock()
	defer grammarMu.Unlock()
	out := map[string]any{}
	for f, t := range grammarTried {
		out[f] = map[string]any{"generated": t, "accepted": grammarOK[f], "rate": float64(grammarOK[f]) / float64(t)}
	}
	return out
}

func freshHostWithContract(name, code string) *host.Host {
	h := host.New()
	res := loadDeploy(h, host.Addr(1), name, code)
	if res.Err != nil || res.Panic != nil {
		return nil
	}
	return h
}

// GrammarDebug, when set, receives every rejected program with the checker's errors.
var GrammarDebug func(form, src string, errs []error, err error)

func debugReject(form, src string, ck Checked) {
	if GrammarDebug != nil {
		GrammarDebug(form, src, ck.Sema, ck.Err)
	}
}

// mixParam is a parameter of an interface function whose parameter list mixes
// resource and non-resource parameters in a random order (the wrappers that run
// inherited pre/post conditions must treat every position correctly).
type mixParam struct {
	name string
	kind string // int | str | res | optres
}

func (g *gram) mixParams(withOpt bool) []mixParam {
	ps := []mixParam{{"slot", "int"}, {"item", "res"}}
	if g.r.Intn(2) == 0 {
		ps = append(ps, mixParam{"tag", "str"})
	}
	if g.r.Intn(3) == 0 {
		ps = append(ps, mixParam{"more", "res"})
	}
	if withOpt && g.r.Intn(3) == 0 {
		ps = append(ps, mixParam{"extra", "optres"})
	}
	g.r.Shuffle(len(ps), func(i, j int) { ps[i], ps[j] = ps[j], ps[i] })
	return ps
}

func mixDecl(ps []mixParam) string {
	var out []string
	for _, p := range ps {
		t := map[string]string{"int": "Int", "str": "String", "res": "@R", "optres": "@R?"}[p.kind]
		out = append(out, p.name+": "+t)
	}
	return strings.Join(out, ", ")
}

// mixArgs renders the arguments of a call (m = qualifier of mk).
func (g *gram) mixArgs(ps []mixParam) string {
	var out []string
	m := g.q + g.fq
	for _, p := range ps {
		switch p.kind {
		case "int":
			out = append(out, p.name+": "+g.expr(tInt, 2))
		case "str":
			out = append(out, p.name+": "+g.leaf(tStr))
		case "res":
			out = append(out, p.name+": <- "+m+"mk("+g.intLit()+")")
		default:
			if g.r.Intn(2) == 0 {
				out = append(out, p.name+": nil")
			} else {
				out = append(out, p.name+": <- "+m+"mk("+g.intLit()+")")
			}
		}
	}
	return strings.Join(out, ", ")
}
