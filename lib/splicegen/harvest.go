// Package splicegen is the "vir/splice" generator of DESIGN §3.4: it harvests
// Cadence snippets from the back-quoted strings of cadence's own test files at
// run time (read-only), turns them into self-contained executable programs
// (scripts / transactions / contract deployments plus a generated driver),
// mutates them, keeps what the checker accepts and exports them as
// prog.History values labelled with feature classes. A second, independent
// grammar-based generator (grammar.go) produces small well-typed programs for
// the features the harvest reaches poorly.
//
// Everything is a pure function of the *rand.Rand handed in and of the (sorted)
// file contents of the harvested directories.
package splicegen

import (
	"go/scanner"
	"go/token"
	"os"
	"path/filepath"
	"sort"
	"strings"
)

// HarvestDirs are the directories (relative to the cadence root) whose
// *_test.go files are harvested.
var HarvestDirs = []string{"interpreter", "runtime", "bbq/vm/test"}

// RepoRoot is the cadence checkout the snippets are read from.
func RepoRoot() string {
	if r := os.Getenv("VERIF_REPO"); r != "" {
		return r
	}
	return "/repo"
}

// Snippet is one back-quoted string literal of a test file.
type Snippet struct {
	File string `json:"file"` // path relative to the repo root
	Line int    `json:"line"`
	Text string `json:"text"`
}

// HarvestStats counts what the raw harvest saw.
type HarvestStats struct {
	Files      int
	RawStrings int
	Candidates int // after the cheap textual filter and de-duplication
}

// looksLikeCadence is a cheap textual pre-filter (the real filter is the parser
// and the checker): the snippet must contain a declaration keyword.
func looksLikeCadence(s string) bool {
	if len(s) < 12 || len(s) > 20000 {
		return false
	}
	for _, kw := range []string{"fun ", "let ", "var ", "transaction", "contract ", "struct ", "resource ", "enum ", "attachment ", "entitlement "} {
		if strings.Contains(s, kw) {
			return true
		}
	}
	return false
}

// Harvest reads every *_test.go of HarvestDirs in sorted order and returns the
// distinct raw string literals that look like Cadence, in deterministic order.
func Harvest(root string) ([]Snippet, HarvestStats) {
	var st HarvestStats
	var files []string
	for _, d := range HarvestDirs {
		m, _ := filepath.Glob(filepath.Join(root, d, "*_test.go"))
		sort.Strings(m)
		files = append(files, m...)
	}
	seen := map[string]bool{}
	var out []Snippet
	for _, f := range files {
		src, err := os.ReadFile(f)
		if err != nil {
			continue
		}
		st.Files++
		rel, _ := filepath.Rel(root, f)
		fset := token.NewFileSet()
		file := fset.AddFile(f, fset.Base(), len(src))
		var sc scanner.Scanner
		sc.Init(file, src, nil, 0)
		for {
			pos, tok, lit := sc.Scan()
			if tok == token.EOF {
				break
			}
			if tok != token.STRING || len(lit) < 2 || lit[0] != '`' {
				continue
			}
			st.RawStrings++
			text := lit[1 : len(lit)-1]
			// the Go scanner strips \r from raw strings already
			if !looksLikeCadence(text) {
				continue
			}
			key := strings.TrimSpace(text)
			if seen[key] {
				continue
			}
			seen[key] = true
			out = append(out, Snippet{File: rel, Line: fset.Position(pos).Line, Text: text})
		}
	}
	st.Candidates = len(out)
	return out, st
}
