package splicegen

import (
	"fmt"
	"math/big"
	"math/rand"
	"sort"
	"strings"

	"github.com/onflow/cadence/ast"
	"github.com/onflow/cadence/common"
	"github.com/onflow/cadence/interpreter"
	"github.com/onflow/cadence/sema"

	"verif/lib/oracle"
)

// Mutator names (evidence: accept rate per mutator).
const (
	MutSwapIdent  = "swap-identifier"
	MutLiteral    = "boundary-literal"
	MutDupStmt    = "duplicate-statement"
	MutWrapExpr   = "wrap-expression"
	MutContainer  = "container-kind"
	MutWrapStmt   = "wrap-statement"
	MutOperator   = "swap-operator"
	MutConcat     = "concat-snippets"
	MutOptionalTy = "optional-annotation"
)

// Mutators is the list in a fixed order.
var Mutators = []string{MutSwapIdent, MutLiteral, MutDupStmt, MutWrapExpr, MutContainer, MutWrapStmt, MutOperator, MutOptionalTy}

type span struct{ start, end int } // [start, end)

func spanOf(e ast.HasPosition) span {
	return span{e.StartPosition().Offset, e.EndPosition(nil).Offset + 1}
}

func (s span) ok(src string) bool { return s.start >= 0 && s.end <= len(src) && s.start < s.end }

func replace(src string, s span, text string) string { return src[:s.start] + text + src[s.end:] }

// exprInfo is one typed expression occurrence.
type exprInfo struct {
	e    ast.Expression
	t    sema.Type
	sp   span
	decl int // index of the enclosing top-level declaration
}

// facts collects what the mutators need from a checked program, in source order.
type facts struct {
	src      string
	elab     *sema.Elaboration
	exprs    []exprInfo
	blocked  map[ast.Expression]bool // expressions that must not be wrapped/replaced (targets, callees)
	stmts    []stmtInfo
	binaries []*ast.BinaryExpression
	varDecls []*ast.VariableDeclaration
}

type stmtInfo struct {
	s  ast.Statement
	sp span
}

func collect(src string, p *interpreter.Program) *facts {
	f := &facts{src: src, elab: p.Elaboration, blocked: map[ast.Expression]bool{}}
	var blockTarget func(e ast.Expression)
	blockTarget = func(e ast.Expression) {
		for e != nil {
			f.blocked[e] = true
			switch x := e.(type) {
			case *ast.MemberExpression:
				e = x.Expression
			case *ast.IndexExpression:
				e = x.TargetExpression
			default:
				return
			}
		}
	}
	for di, d := range p.Program.Declarations() {
		ast.Inspect(d, func(el ast.Element) bool {
			switch x := el.(type) {
			case *ast.AssignmentStatement:
				blockTarget(x.Target)
			case *ast.SwapStatement:
				blockTarget(x.Left)
				blockTarget(x.Right)
			case *ast.InvocationExpression:
				f.blocked[x.InvokedExpression] = true
				if m, ok := x.InvokedExpression.(*ast.MemberExpression); ok {
					_ = m
				}
			case *ast.ReferenceExpression:
				f.blocked[x.Expression] = true
			case *ast.DestroyExpression:
				f.blocked[x.Expression] = true
			case *ast.CreateExpression:
				f.blocked[x.InvocationExpression] = true
			case *ast.AttachExpression:
				f.blocked[x.Base] = true
				f.blocked[x.Attachment] = true
			case *ast.BinaryExpression:
				f.binaries = append(f.binaries, x)
			case *ast.VariableDeclaration:
				f.varDecls = append(f.varDecls, x)
			case *ast.Block:
				for _, s := range x.Statements {
					sp := spanOf(s)
					if sp.ok(src) {
						f.stmts = append(f.stmts, stmtInfo{s, sp})
					}
				}
			}
			if e, ok := el.(ast.Expression); ok {
				et := f.elab.ExpressionTypes(e)
				if et.ActualType != nil && !et.ActualType.IsInvalidType() {
					sp := spanOf(e)
					if sp.ok(src) {
						f.exprs = append(f.exprs, exprInfo{e: e, t: et.ActualType, sp: sp, decl: di})
					}
				}
			}
			return true
		})
	}
	return f
}

func pick[T any](r *rand.Rand, xs []T) (T, bool) {
	var z T
	if len(xs) == 0 {
		return z, false
	}
	return xs[r.Intn(len(xs))], true
}

func typeText(t sema.Type) string { return annotPlain(t) }

// annotPlain renders a type usable in source. Types with no source form are
// filtered by the caller through the checker (the mutation is simply rejected).
func annotPlain(t sema.Type) string { return t.QualifiedString() }

func wrappable(t sema.Type) bool {
	if t == nil || t.IsResourceType() || t == sema.VoidType || t == sema.NeverType || t.IsInvalidType() {
		return false
	}
	if _, ok := t.(*sema.FunctionType); ok {
		return false
	}
	// contract values are not wrapped: copying a contract value into a container is exotic and changes the number of
	// temporary slabs differently per engine (finding FF10)
	if ct, ok := t.(*sema.CompositeType); ok && ct.Kind == common.CompositeKindContract {
		return false
	}
	s := t.QualifiedString()
	return !strings.Contains(s, "<<") && !strings.Contains(s, "invalid")
}

// Mutate applies mutator m once to src (whose checked program is p). The second
// result is false when the mutator found no applicable site.
func Mutate(m string, src string, p *interpreter.Program, r *rand.Rand) (string, bool) {
	f := collect(src, p)
	switch m {
	case MutSwapIdent:
		return f.swapIdent(r)
	case MutLiteral:
		return f.literal(r)
	case MutDupStmt:
		return f.dupStmt(r)
	case MutWrapExpr:
		return f.wrapExpr(r)
	case MutContainer:
		return f.container(r)
	case MutWrapStmt:
		return f.wrapStmt(r)
	case MutOperator:
		return f.operator(r)
	case MutOptionalTy:
		return f.optionalAnnot(r)
	}
	return src, false
}

func (f *facts) swapIdent(r *rand.Rand) (string, bool) {
	var ids []exprInfo
	for _, e := range f.exprs {
		if _, ok := e.e.(*ast.IdentifierExpression); ok && !f.blocked[e.e] {
			if _, isFn := e.t.(*sema.FunctionType); !isFn {
				ids = append(ids, e)
			}
		}
	}
	// try a few random sites
	for try := 0; try < 8 && len(ids) > 1; try++ {
		a := ids[r.Intn(len(ids))]
		an := a.e.(*ast.IdentifierExpression).Identifier.Identifier
		var names []string
		seen := map[string]bool{an: true}
		for _, b := range ids {
			bn := b.e.(*ast.IdentifierExpression).Identifier.Identifier
			if b.decl == a.decl && !seen[bn] && b.t.Equal(a.t) {
				seen[bn] = true
				names = append(names, bn)
			}
		}
		if len(names) == 0 {
			continue
		}
		sort.Strings(names)
		return replace(f.src, a.sp, names[r.Intn(len(names))]), true
	}
	return f.src, false
}

func boundaryNum(name string, r *rand.Rand) (string, bool) {
	if c, ok := abstractNumber[name]; ok {
		name = c
	}
	for _, t := range oracle.Types {
		if t.Name != name {
			continue
		}
		var cands []*big.Int
		one := big.NewInt(1)
		if t.IsFixed() {
			one = oracle.Pow10(t.Scale)
		}
		cands = append(cands, big.NewInt(0), one, big.NewInt(1))
		if t.Min != nil {
			cands = append(cands, t.Min, new(big.Int).Add(t.Min, big.NewInt(1)))
		} else {
			cands = append(cands, new(big.Int).Neg(new(big.Int).Lsh(big.NewInt(1), 64)), big.NewInt(-1))
		}
		if t.Max != nil {
			cands = append(cands, t.Max, new(big.Int).Sub(t.Max, big.NewInt(1)))
		} else {
			cands = append(cands, new(big.Int).Lsh(big.NewInt(1), 64), new(big.Int).Lsh(big.NewInt(1), 128))
		}
		if t.Signed() {
			cands = append(cands, new(big.Int).Neg(one))
		}
		cands = append(cands, big.NewInt(2), big.NewInt(255), big.NewInt(256), big.NewInt(63), big.NewInt(64), big.NewInt(65))
		for try := 0; try < 8; try++ {
			c := cands[r.Intn(len(cands))]
			if t.Fits(c) {
				return NumLit(t, c), true
			}
		}
		return NumLit(t, big.NewInt(0)), true
	}
	return "", false
}

func (f *facts) literal(r *rand.Rand) (string, bool) {
	var sites []exprInfo
	for _, e := range f.exprs {
		switch e.e.(type) {
		case *ast.IntegerExpression, *ast.FixedPointExpression, *ast.StringExpression, *ast.BoolExpression:
			sites = append(sites, e)
		}
	}
	for try := 0; try < 6 && len(sites) > 0; try++ {
		s := sites[r.Intn(len(sites))]
		switch x := s.e.(type) {
		case *ast.IntegerExpression, *ast.FixedPointExpression:
			lit, ok := boundaryNum(s.t.String(), r)
			if !ok {
				continue
			}
			if strings.HasPrefix(lit, "-") {
				lit = "(" + lit + ")"
			}
			return replace(f.src, s.sp, lit), true
		case *ast.StringExpression:
			if s.t != sema.StringType {
				continue
			}
			return replace(f.src, s.sp, quoteCadence(stringPool[r.Intn(len(stringPool))])), true
		case *ast.BoolExpression:
			if x.Value {
				return replace(f.src, s.sp, "false"), true
			}
			return replace(f.src, s.sp, "true"), true
		}
	}
	return f.src, false
}

func (f *facts) dupStmt(r *rand.Rand) (string, bool) {
	var sites []stmtInfo
	for _, s := range f.stmts {
		switch s.s.(type) {
		case *ast.ExpressionStatement, *ast.AssignmentStatement, *ast.SwapStatement, *ast.IfStatement,
			*ast.WhileStatement, *ast.ForStatement, *ast.EmitStatement, *ast.SwitchStatement:
			sites = append(sites, s)
		}
	}
	s, ok := pick(r, sites)
	if !ok {
		return f.src, false
	}
	text := f.src[s.sp.start:s.sp.end]
	return f.src[:s.sp.end] + "\n" + text + "\n" + f.src[s.sp.end:], true
}

func (f *facts) wrapStmt(r *rand.Rand) (string, bool) {
	var sites []stmtInfo
	for _, s := range f.stmts {
		switch s.s.(type) {
		case *ast.VariableDeclaration, *ast.FunctionDeclaration, *ast.CompositeDeclaration, *ast.InterfaceDeclaration:
		default:
			sites = append(sites, s)
		}
	}
	s, ok := pick(r, sites)
	if !ok {
		return f.src, false
	}
	text := f.src[s.sp.start:s.sp.end]
	var w string
	switch r.Intn(6) {
	case 0:
		w = "if true { " + text + " }"
	case 1:
		w = "if false { } else { " + text + " }"
	case 2:
		w = "while true { " + text + "\n break }"
	case 3:
		w = "for i_ in [0] { " + text + " }"
	case 4:
		w = "switch 0 { default: " + text + " }"
	default:
		w = "if let u_ = (1 as Int?) { " + text + " }"
	}
	return replace(f.src, s.sp, w), true
}

func (f *facts) wrapExpr(r *rand.Rand) (string, bool) {
	var sites []exprInfo
	for _, e := range f.exprs {
		if f.blocked[e.e] || !wrappable(e.t) {
			continue
		}
		sites = append(sites, e)
	}
	s, ok := pick(r, sites)
	if !ok {
		return f.src, false
	}
	text := f.src[s.sp.start:s.sp.end]
	T := typeText(s.t)
	var w string
	_, isOpt := s.t.(*sema.OptionalType)
	switch k := r.Intn(9); {
	case k == 0:
		w = fmt.Sprintf("((%s) as %s?)!", text, T)
	case k == 1:
		w = fmt.Sprintf("(fun (): %s { return %s })()", T, text)
	case k == 2:
		w = fmt.Sprintf("[%s][0]", text)
	case k == 3:
		w = fmt.Sprintf("(true ? %s : %s)", text, text)
	case k == 4:
		w = fmt.Sprintf("({0: %s}[0]!)", text)
	case k == 5 && isOpt:
		w = fmt.Sprintf("(%s ?? %s)", text, text)
	case k == 5:
		w = fmt.Sprintf("((%s) as %s? ?? %s)", text, T, text)
	case k == 6:
		w = fmt.Sprintf("(((%s) as AnyStruct) as! %s)", text, T)
	case k == 7:
		w = fmt.Sprintf("(*(&(%s) as &%s))", text, T)
	default:
		w = fmt.Sprintf("(fun (_ x: %s): %s { return x })(%s)", T, T, text)
	}
	return replace(f.src, s.sp, w), true
}

func (f *facts) container(r *rand.Rand) (string, bool) {
	type site struct {
		sp   span
		text string
	}
	var sites []site
	for _, e := range f.exprs {
		if f.blocked[e.e] {
			continue
		}
		text := f.src[e.sp.start:e.sp.end]
		switch x := e.e.(type) {
		case *ast.ArrayExpression:
			at := f.elab.ArrayExpressionTypes(x).ArrayType
			if vs, ok := at.(*sema.VariableSizedType); ok && len(x.Values) > 0 && wrappable(vs.Type) {
				sites = append(sites, site{e.sp, fmt.Sprintf("(%s as [%s; %d]).toVariableSized()", text, typeText(vs.Type), len(x.Values))})
			}
		case *ast.DictionaryExpression:
			dt := f.elab.DictionaryExpressionTypes(x).DictionaryType
			if dt != nil && wrappable(dt.ValueType) && len(x.Entries) > 0 {
				T := typeText(dt)
				var sb strings.Builder
				fmt.Fprintf(&sb, "(fun (): %s { let d_: %s = {}; ", T, T)
				okAll := true
				for _, en := range x.Entries {
					ks, vs := spanOf(en.Key), spanOf(en.Value)
					if !ks.ok(f.src) || !vs.ok(f.src) {
						okAll = false
						break
					}
					fmt.Fprintf(&sb, "d_[%s] = %s; ", f.src[ks.start:ks.end], f.src[vs.start:vs.end])
				}
				if okAll {
					sb.WriteString("return d_ })()")
					sites = append(sites, site{e.sp, sb.String()})
				}
			}
		}
		switch t := e.t.(type) {
		case *sema.VariableSizedType:
			if !wrappable(t.Type) {
				continue
			}
			E := typeText(t.Type)
			A := typeText(t)
			forms := []string{
				fmt.Sprintf("(fun (_ a: %s): %s { return a.slice(from: 0, upTo: a.length) })(%s)", A, A, text),
				fmt.Sprintf("(%s).map(fun (x: %s): %s { return x })", text, E, E),
				fmt.Sprintf("(%s).concat([])", text),
				fmt.Sprintf("(%s).reverse().reverse()", text),
				fmt.Sprintf("(%s).filter(view fun (x: %s): Bool { return true })", text, E),
			}
			sites = append(sites, site{e.sp, forms[r.Intn(len(forms))]})
		case *sema.ConstantSizedType:
			if !wrappable(t.Type) {
				continue
			}
			sites = append(sites, site{e.sp, fmt.Sprintf("(%s).toVariableSized().toConstantSized<%s>()!", text, typeText(t))})
		case *sema.DictionaryType:
			if !wrappable(t.ValueType) {
				continue
			}
			D := typeText(t)
			sites = append(sites, site{e.sp, fmt.Sprintf(
				"(fun (_ s: %s): %s { let d_: %s = {}; for k in s.keys { d_[k] = s[k]! }; return d_ })(%s)", D, D, D, text)})
		}
	}
	// annotation-level: `let xs: [T] = [a, b]` -> `[T; 2]`
	for _, v := range f.varDecls {
		if v.TypeAnnotation == nil {
			continue
		}
		vt, ok := v.TypeAnnotation.Type.(*ast.VariableSizedType)
		if !ok {
			continue
		}
		arr, ok := v.Value.(*ast.ArrayExpression)
		if !ok {
			continue
		}
		sp := spanOf(vt)
		in := spanOf(vt.Type)
		if sp.ok(f.src) && in.ok(f.src) {
			sites = append(sites, site{sp, fmt.Sprintf("[%s; %d]", f.src[in.start:in.end], len(arr.Values))})
		}
	}
	s, ok := pick(r, sites)
	if !ok {
		return f.src, false
	}
	return replace(f.src, s.sp, s.text), true
}

var opClasses = [][]string{
	{"+", "-", "*", "/", "%"},
	{"<", "<=", ">", ">=", "==", "!="},
	{"&&", "||"},
	{"&", "|", "^", "<<", ">>"},
}

func (f *facts) operator(r *rand.Rand) (string, bool) {
	for try := 0; try < 8 && len(f.binaries) > 0; try++ {
		b := f.binaries[r.Intn(len(f.binaries))]
		sym := b.Operation.Symbol()
		var class []string
		for _, c := range opClasses {
			for _, o := range c {
				if o == sym {
					class = c
				}
			}
		}
		if class == nil {
			continue
		}
		l, rt := spanOf(b.Left), spanOf(b.Right)
		if !l.ok(f.src) || !rt.ok(f.src) || l.end > rt.start {
			continue
		}
		gap := f.src[l.end:rt.start]
		i := strings.Index(gap, sym)
		if i < 0 {
			continue
		}
		n := class[r.Intn(len(class))]
		if n == sym {
			continue
		}
		return f.src[:l.end+i] + n + f.src[l.end+i+len(sym):], true
	}
	return f.src, false
}

// optionalAnnot turns `let x: T = e` into `let x: T? = e` (uses of x then need
// the checker's blessing; typically accepted when x is only passed on/logged).
func (f *facts) optionalAnnot(r *rand.Rand) (string, bool) {
	var sites []span
	for _, v := range f.varDecls {
		if v.TypeAnnotation == nil || v.TypeAnnotation.IsResource {
			continue
		}
		sp := spanOf(v.TypeAnnotation.Type)
		if !sp.ok(f.src) {
			continue
		}
		switch v.TypeAnnotation.Type.(type) {
		case *ast.NominalType, *ast.VariableSizedType, *ast.ConstantSizedType, *ast.DictionaryType, *ast.OptionalType:
			sites = append(sites, sp)
		}
	}
	s, ok := pick(r, sites)
	if !ok {
		return f.src, false
	}
	return replace(f.src, s, f.src[s.start:s.end]+"?"), true
}
