package splicegen

import (
	"encoding/hex"
	"fmt"

	"github.com/onflow/cadence/common"

	"verif/lib/host"
	"verif/lib/prog"
)

// Limits that keep generated/mutated programs bounded. They are far above what
// the harvested programs need; a run that hits one is classified "limit" by
// the consumers and not compared across engines (metering is engine specific).
const (
	CompLimit = 300_000
	MemLimit  = 1 << 28
	// InterpStackDepth bounds interpreter recursion: unwinding a call-stack-limit
	// error costs O(depth^2) in the interpreter (11 s at the default depth 2000).
	// The VM ignores the configured value and always uses 2000.
	InterpStackDepth = 150
)

// Options returns execution options for engine e with fresh limit gauges.
// Atree validation is off: it re-validates the whole container on every
// mutation, which makes a metered loop of n inserts cost O(n^2) (a mutated
// harvested loop ran for > 15 min); ValidatingOptions switches it on under a
// much smaller computation limit.
func Options(e host.Engine, record bool) host.Options {
	g := host.NewGauge(record)
	g.CompLimit = CompLimit
	g.MemLimit = MemLimit
	return host.Options{Engine: e, Gauge: g, StackDepthLimit: InterpStackDepth, NoAtreeValidation: true}
}

// ValidatingCompLimit bounds runs with atree/storage validation enabled.
const ValidatingCompLimit = 15_000

// ValidatingOptions is Options with atree and storage-health validation on.
func ValidatingOptions(e host.Engine) host.Options {
	o := Options(e, false)
	o.Gauge.CompLimit = ValidatingCompLimit
	o.NoAtreeValidation = false
	return o
}

// DeployTx is the transaction text that deploys contract `name`.
func DeployTx(name, code string, update bool) string {
	fn := "add"
	if update {
		fn = "update"
	}
	return fmt.Sprintf(`transaction { prepare(signer: auth(Contracts) &Account) { signer.contracts.%s(name: %q, code: %q.decodeHex()) } }`,
		fn, name, hex.EncodeToString([]byte(code)))
}

// RunStep is prog.RunStep with the difference that deployments also run under
// the options' gauges and limits (host.Deploy ignores them).
func RunStep(h *host.Host, s prog.Step, o host.Options) host.Result {
	switch s.Kind {
	case prog.Deploy, prog.Update:
		return h.Tx(DeployTx(s.Name, s.Source, s.Kind == prog.Update), nil, []common.Address{host.Addr(s.Signers[0])}, o)
	}
	return prog.RunStep(h, s, o)
}

// Run executes hist on a fork of base (nil: fresh host) with fresh bounded
// options per step. limited[i] reports that step i hit a metering limit.
func Run(base *host.Host, hist prog.History, e host.Engine, record bool) (results []host.Result, limited []bool, gauges []*host.Gauge, final *host.Host) {
	return run(base, hist, func() host.Options { return Options(e, record) })
}

// RunValidating is Run with ValidatingOptions (atree/storage validation on, small computation limit).
func RunValidating(base *host.Host, hist prog.History, e host.Engine) (results []host.Result, limited []bool, gauges []*host.Gauge, final *host.Host) {
	return run(base, hist, func() host.Options { return ValidatingOptions(e) })
}

func run(base *host.Host, hist prog.History, opts func() host.Options) (results []host.Result, limited []bool, gauges []*host.Gauge, final *host.Host) {
	if base != nil {
		final = base.Fork()
	} else {
		final = host.New()
	}
	for _, s := range hist.Steps {
		o := opts()
		r := RunStep(final, s, o)
		results = append(results, r)
		limited = append(limited, o.Gauge.LimitHit())
		gauges = append(gauges, o.Gauge)
	}
	return
}

func loadDeploy(h *host.Host, addr common.Address, name, src string) host.Result {
	return h.Tx(DeployTx(name, src, false), nil, []common.Address{addr}, Options(host.Interp, false))
}
