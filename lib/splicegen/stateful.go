package splicegen

import (
	"fmt"
	"math/rand"
	"strings"

	"verif/lib/prog"
)

// Stateful-object program family: a struct, resource or contract with container
// FIELDS (`items: [Int]`, `index: {String: Int}`) and generated methods that
// iterate the fields with for-in (directly through `self`, through references,
// over dictionary keys/values, nested, inside closures) and leave the loop early
// at random positions with a bare `return`, a value `return`, `break` or
// `continue`; the methods (and free functions over references to a local array)
// are called SEVERAL times per execution in sequences that interleave iteration
// and mutation of the same field. This reaches compiler/VM state that outlives a
// call (active iterators, mutation-during-iteration tracking), which a
// single-call program never observes.

type sfGen struct {
	r     *rand.Rand
	self  string // "self"
	nName int
}

// loop sources over the object's fields: expression, element kind.
type sfSrc struct {
	setup string // statement before the loop ("" if none)
	expr  string
	str   bool   // element is a String (dictionary keys)
	field string // the field a later mutation should hit: "items" | "index"
}

func (g *sfGen) src() sfSrc {
	switch g.r.Intn(8) {
	case 0, 1, 2:
		return sfSrc{expr: "self.items", field: "items"}
	case 3:
		return sfSrc{setup: "let ref = &self.items as &[Int]", expr: "ref", field: "items"}
	case 4:
		return sfSrc{setup: "let ref = &self.items as auth(Mutate) &[Int]", expr: "ref", field: "items"}
	case 5:
		return sfSrc{expr: "self.index.values", field: "index"}
	case 6:
		return sfSrc{expr: "self.index.keys", str: true, field: "index"}
	default:
		return sfSrc{setup: "let dref = &self.index as &{String: Int}", expr: "dref.keys", str: true, field: "index"}
	}
}

func (g *sfGen) cond(x string, str bool) string {
	if str {
		return []string{x + " == p.toString()", x + ".length > 1", x + " != \"k1\""}[g.r.Intn(3)]
	}
	return []string{x + " == p", x + " == p", x + " > p", x + " % 2 == 0", x + " + p > 6"}[g.r.Intn(5)]
}

// exit statement; void reports whether the method returns nothing.
func (g *sfGen) exit(void bool, x string, str bool) string {
	k := g.r.Intn(10)
	switch {
	case k < 5 && void:
		return "return"
	case k < 5:
		if str {
			return "return " + x + ".length"
		}
		return "return " + x
	case k < 7:
		return "break"
	case k < 9:
		return "continue"
	case void:
		return "return"
	default:
		return "return -1"
	}
}

func (g *sfGen) mutation(field string) string {
	g.nName++
	return strings.ReplaceAll(strings.ReplaceAll(g.mutation0(field), "let gone", fmt.Sprintf("let gone%d", g.nName)), "let old", fmt.Sprintf("let old%d", g.nName))
}

func (g *sfGen) mutation0(field string) string {
	if field == "items" {
		return []string{
			"self.items.append(p)",
			"self.items.append(p)",
			"self.items.insert(at: 0, p)",
			"if self.items.length > 0 { self.items[0] = p }",
			"if self.items.length > 1 { let gone = self.items.remove(at: 1) }",
			"if self.items.length > 0 { let gone = self.items.removeLast() }",
		}[g.r.Intn(6)]
	}
	return []string{
		"self.index[\"k\".concat(p.toString())] = p",
		"self.index[p.toString()] = p + 1",
		"let old = self.index.insert(key: p.toString(), p)",
		"let old = self.index.remove(key: p.toString())",
	}[g.r.Intn(4)]
}

// method generates one method; it returns its text and whether it returns an Int.
func (g *sfGen) method(name string) (string, bool) {
	r := g.r
	void := r.Intn(5) < 3
	var sb strings.Builder
	sig := "access(all) fun " + name + "(_ p: Int)"
	if !void {
		sig += ": Int"
	}
	sb.WriteString("    " + sig + " {\n")
	w := func(lvl int, s string) { sb.WriteString(strings.Repeat("    ", lvl+2) + s + "\n") }
	switch shape := r.Intn(10); {
	case shape < 6: // plain loop with early exit, then mutation of the same (or the other) field
		s := g.src()
		if s.setup != "" {
			w(0, s.setup)
		}
		if r.Intn(5) == 0 {
			w(0, g.mutation(s.field))
		}
		w(0, "for x in "+s.expr+" {")
		if r.Intn(3) == 0 {
			w(1, "self.hits = self.hits + 1")
		}
		w(1, "if "+g.cond("x", s.str)+" {")
		if r.Intn(3) == 0 {
			w(2, "log(\""+name+" exit\")")
		}
		w(2, g.exit(void, "x", s.str))
		w(1, "}")
		if r.Intn(4) == 0 {
			w(1, "self.hits = self.hits + 2")
		}
		w(0, "}")
		field := s.field
		if r.Intn(5) == 0 {
			field = map[string]string{"items": "index", "index": "items"}[field]
		}
		w(0, g.mutation(field))
	case shape < 8: // nested loops
		a, b := g.src(), g.src()
		for a.setup != "" && b.setup != "" {
			b = g.src()
		}
		if a.setup != "" {
			w(0, a.setup)
		}
		if b.setup != "" {
			w(0, b.setup)
		}
		w(0, "for x in "+a.expr+" {")
		w(1, "for y in "+b.expr+" {")
		w(2, "if "+g.cond("y", b.str)+" {")
		w(3, g.exit(void, "y", b.str))
		w(2, "}")
		w(1, "}")
		if r.Intn(2) == 0 {
			w(1, "if "+g.cond("x", a.str)+" {")
			w(2, g.exit(void, "x", a.str))
			w(1, "}")
		}
		w(0, "}")
		w(0, g.mutation(a.field))
		if r.Intn(2) == 0 {
			w(0, g.mutation(b.field))
		}
	default: // loop inside a closure over a reference to the field, called several times
		w(0, "let ref = &self.items as auth(Mutate) &[Int]")
		w(0, "let scan = fun (_ q: Int) {")
		w(1, "for x in ref {")
		w(2, "if x == q {")
		w(3, []string{"return", "return", "break", "continue"}[r.Intn(4)])
		w(2, "}")
		w(1, "}")
		w(1, "ref.append(q)")
		w(0, "}")
		w(0, "scan(p)")
		w(0, "scan(p + 1)")
		w(0, "scan(p)")
	}
	if !void {
		w(0, "return self.items.length + self.index.length")
	}
	sb.WriteString("    }\n")
	return sb.String(), !void
}

// freeFunction is a top-level function over a reference to a caller-owned array.
func (g *sfGen) freeFunction(name string) string {
	ex := []string{"return", "return", "break", "continue"}[g.r.Intn(4)]
	mut := []string{"r.append(x)", "r.insert(at: 0, x)", "if r.length > 0 { r[0] = x }"}[g.r.Intn(3)]
	return "access(all) fun " + name + "(_ r: auth(Mutate) &[Int], _ x: Int) {\n    for e in r {\n        if e == x {\n            " + ex + "\n        }\n    }\n    " + mut + "\n}\n"
}

var sfArgs = []string{"1", "2", "2", "3", "3", "5", "1", "4"}

// calls renders a sequence of calls on receiver recv (e.g. "reg" or "K").
func (g *sfGen) calls(recv string, methods []string, returns []bool, free []string, local string, n int, lvl int) string {
	var sb strings.Builder
	p := strings.Repeat("    ", lvl)
	for i := 0; i < n; i++ {
		arg := sfArgs[g.r.Intn(len(sfArgs))]
		switch k := g.r.Intn(10); {
		case k < 7 || len(free) == 0 || local == "":
			m := g.r.Intn(len(methods))
			if returns[m] {
				fmt.Fprintf(&sb, "%slog(%s.%s(%s))\n", p, recv, methods[m], arg)
			} else {
				fmt.Fprintf(&sb, "%s%s.%s(%s)\n", p, recv, methods[m], arg)
			}
		default:
			fmt.Fprintf(&sb, "%s%s(&%s as auth(Mutate) &[Int], %s)\n", p, free[g.r.Intn(len(free))], local, arg)
		}
		if g.r.Intn(4) == 0 {
			fmt.Fprintf(&sb, "%slog(%s.items)\n", p, recv)
		}
	}
	return sb.String()
}

// Stateful generates one history of the stateful-object family.
func Stateful(r *rand.Rand) (prog.History, bool) {
	g := &sfGen{r: r}
	hist := prog.History{Origin: "grammar-stateful"}
	nm := 2 + r.Intn(3)
	var methods []string
	var returns []bool
	var body strings.Builder
	for i := 0; i < nm; i++ {
		name := fmt.Sprintf("m%d", i)
		text, ret := g.method(name)
		body.WriteString(text)
		methods = append(methods, name)
		returns = append(returns, ret)
	}
	fields := "    access(all) var items: [Int]\n    access(all) var index: {String: Int}\n    access(all) var hits: Int\n"
	init := "    init() {\n        self.items = " + []string{"[]", "[1]", "[2, 4]", "[3, 1, 2]"}[r.Intn(4)] +
		"\n        self.index = " + []string{"{}", "{\"1\": 1}", "{\"k1\": 1, \"2\": 2}"}[r.Intn(3)] + "\n        self.hits = 0\n    }\n"
	var free []string
	var freeText strings.Builder
	for i := 0; i < r.Intn(3); i++ {
		n := fmt.Sprintf("addTo%d", i)
		free = append(free, n)
		freeText.WriteString(g.freeFunction(n))
	}
	form := r.Intn(10)
	switch {
	case form < 7: // struct or resource in a script
		kind, mk, end := "struct", "var reg = Reg()", ""
		if form >= 4 {
			kind, mk, end = "resource", "let reg <- create Reg()", "    destroy reg\n"
		}
		src := "access(all) " + kind + " Reg {\n" + fields + init + body.String() + "}\n" + freeText.String() +
			"access(all) fun main(): [Int] {\n    " + mk + "\n    var local: [Int] = [1, 3]\n" +
			g.calls("reg", methods, returns, free, "local", 5+r.Intn(8), 1) +
			"    log(reg.index)\n    log(reg.hits)\n    log(local)\n    let out = reg.items\n" + end + "    return out\n}\n"
		ck := Check(nil, KScript, src)
		grammarCount(ck.OK(), "stateful-"+kind)
		if !ck.OK() {
			debugReject("stateful-"+kind, src, ck)
			return hist, false
		}
		hist.Steps = []prog.Step{{Kind: prog.Script, Source: src, MayFail: true}}
		hist.Features = MergeFeatures(FeaturesOf(ck.Program.Program), []string{"stateful-object"})
		return hist, true
	default: // contract fields, state persists across two transactions
		contract := "access(all) contract K {\n" + fields + body.String() + init + "}\n"
		h := freshHostWithContract("K", contract)
		if h == nil {
			grammarCount(false, "stateful-contract")
			debugReject("stateful-contract", contract, Check(nil, KContract, contract))
			return hist, false
		}
		tx := func() string {
			return "import K from 0x1\n" + freeText.String() + "transaction {\n    prepare(acct: auth(Storage) &Account) {\n        var local: [Int] = [1, 3]\n" +
				g.calls("K", methods, returns, free, "local", 4+r.Intn(6), 2) + "        log(K.index)\n        log(local)\n    }\n}\n"
		}
		tx1, tx2 := tx(), tx()
		c1, c2 := Check(h.Fork(), KTx, tx1), Check(h.Fork(), KTx, tx2)
		ok := c1.OK() && c2.OK()
		grammarCount(ok, "stateful-contract")
		if !ok {
			if !c1.OK() {
				debugReject("stateful-tx", tx1, c1)
			} else {
				debugReject("stateful-tx", tx2, c2)
			}
			return hist, false
		}
		hist.Steps = []prog.Step{
			{Kind: prog.Deploy, Name: "K", Source: contract, Signers: []uint64{1}},
			{Kind: prog.Tx, Source: tx1, Signers: []uint64{1}, MayFail: true},
			{Kind: prog.Tx, Source: tx2, Signers: []uint64{1}, MayFail: true},
			{Kind: prog.Script, Source: "import K from 0x1\naccess(all) fun main(): [Int] { return K.items.concat(K.index.values).concat([K.hits]) }\n", MayFail: true},
		}
		hist.Features = MergeFeatures(FeaturesOfSource(contract), FeaturesOf(c1.Program.Program), []string{"stateful-object"})
		return hist, true
	}
}
