package srcgen

// ScanComments returns the comments of a Cadence source text in order, each with its delimiters
// (`// …` up to but excluding the newline, `/* … */` with nested comments inside). It is an independent
// scanner (it shares no code with the formatter's trivia scanner): it understands string literals with
// escapes, string templates `\( … )` with balanced parentheses and nested strings, and nested block comments.
// An unterminated block comment extends to the end of the text.
func ScanComments(src []byte) []string {
	var out []string
	for _, c := range ScanCommentsDetailed(src) {
		out = append(out, c.Text)
	}
	return out
}

// ScannedComment is a comment found by ScanCommentsDetailed.
type ScannedComment struct {
	Text       string
	Offset     int
	InTemplate bool // inside the expression of a string template `\( … )`
}

// ScanCommentsDetailed is ScanComments with the position of each comment and whether it lies inside a string template expression.
func ScanCommentsDetailed(src []byte) []ScannedComment {
	var out []ScannedComment
	type frame struct{ parens int } // one per open template expression
	var stack []frame
	inString := false
	n := len(src)
	for i := 0; i < n; {
		c := src[i]
		if inString {
			switch {
			case c == '\\' && i+1 < n && src[i+1] == '(':
				stack = append(stack, frame{parens: 1})
				inString = false
				i += 2
			case c == '\\' && i+1 < n:
				i += 2
			case c == '"' || c == '\n':
				inString = false
				i++
			default:
				i++
			}
			continue
		}
		switch {
		case c == '"':
			inString = true
			i++
		case c == '/' && i+1 < n && src[i+1] == '/':
			j := i
			for j < n && src[j] != '\n' {
				j++
			}
			out = append(out, ScannedComment{Text: string(src[i:j]), Offset: i, InTemplate: len(stack) > 0})
			i = j
		case c == '/' && i+1 < n && src[i+1] == '*':
			depth := 0
			j := i
			for j < n {
				if j+1 < n && src[j] == '/' && src[j+1] == '*' {
					depth++
					j += 2
				} else if j+1 < n && src[j] == '*' && src[j+1] == '/' {
					depth--
					j += 2
					if depth == 0 {
						break
					}
				} else {
					j++
				}
			}
			out = append(out, ScannedComment{Text: string(src[i:j]), Offset: i, InTemplate: len(stack) > 0})
			i = j
		case c == '(':
			if len(stack) > 0 {
				stack[len(stack)-1].parens++
			}
			i++
		case c == ')':
			if len(stack) > 0 {
				stack[len(stack)-1].parens--
				if stack[len(stack)-1].parens == 0 {
					stack = stack[:len(stack)-1]
					inString = true
				}
			}
			i++
		default:
			i++
		}
	}
	return out
}
