package srcgen

import (
	"fmt"
	"math/rand"
	"sort"
	"strings"
)

// Config bounds the grammar generator.
type Config struct {
	MaxExprDepth int  // expression tree depth (the parser limits nesting to 16 recursive levels)
	MaxTypeDepth int  // type nesting
	MaxStmtDepth int  // block nesting
	MaxDecls     int  // top-level declarations
	MaxStmts     int  // statements per block
	Templates    bool // string templates
	// NestedTemplateStrings allows a string literal inside a template expression
	// (`"\(a + "x")"`), which triggers a known parser defect.
	NestedTemplateStrings bool
	NonASCII              bool // non-ASCII code points in string literals
	EmptyElse             bool // allow `if a {} else if b {} else {}` with an empty final else (known printer defect)
}

// DefaultConfig is used by the syntax properties.
func DefaultConfig() Config {
	return Config{MaxExprDepth: 4, MaxTypeDepth: 3, MaxStmtDepth: 3, MaxDecls: 5, MaxStmts: 4,
		Templates: true, NonASCII: true, EmptyElse: true}
}

// Program is a generated program: tokens plus the feature labels used.
type Program struct {
	Toks     []Tok
	Features map[string]int
}

// FeatureList returns the sorted feature labels.
func (p *Program) FeatureList() []string {
	out := make([]string, 0, len(p.Features))
	for k := range p.Features {
		out = append(out, k)
	}
	sort.Strings(out)
	return out
}

// Gen is the grammar generator.
type Gen struct {
	r     *rand.Rand
	cfg   Config
	toks  []Tok
	feats map[string]int
	glue  Glue // glue for the next emitted token
	gap   string
	// context flags
	inTemplate int
}

// New creates a generator.
func New(r *rand.Rand, cfg Config) *Gen {
	return &Gen{r: r, cfg: cfg}
}

func (g *Gen) reset() {
	g.toks = nil
	g.feats = map[string]int{}
	g.glue = Free
	g.inTemplate = 0
}

func (g *Gen) feat(s string) { g.feats[s]++ }

// e emits tokens with the pending glue (then Free).
func (g *Gen) e(ss ...string) {
	for _, s := range ss {
		g.toks = append(g.toks, Tok{S: s, Glue: g.glue, Gap: g.gap})
		g.glue = Free
		g.gap = ""
	}
}

func (g *Gen) tight() *Gen    { g.glue = Tight; return g }
func (g *Gen) sameLine() *Gen { g.glue = SameLine; return g }
func (g *Gen) sep() *Gen      { g.glue = Sep; return g }
func (g *Gen) sepLine() *Gen  { g.glue = SepLine; return g }

func (g *Gen) p(prob float64) bool { return g.r.Float64() < prob }
func (g *Gen) n(n int) int         { return g.r.Intn(n) }
func (g *Gen) pick(ss ...string) string {
	return ss[g.r.Intn(len(ss))]
}

// ---------------------------------------------------------------- names

var valueNames = []string{"a", "b", "c", "x", "y", "z", "foo", "bar", "value", "result", "acct", "r1", "_tmp", "x_1", "self", "from", "all", "account", "view", "to", "type", "remove", "T", "vault"}
var typeNames = []string{"Int", "UInt8", "String", "Bool", "Address", "UFix64", "R", "S", "T", "Vault", "Foo", "AnyStruct", "AnyResource", "Type", "Account", "Character", "Never", "Void", "Path"}
var ifaceNames = []string{"I", "J", "Provider", "Receiver", "HasID"}
var entNames = []string{"E", "F", "G", "Withdraw", "Mutate", "Storage"}
var fieldNames = []string{"id", "balance", "name", "owner", "items", "count", "f", "g"}
var funNames = []string{"f", "g", "main", "deposit", "withdraw", "getBalance", "test", "h"}

func (g *Gen) valueName() string { return valueNames[g.n(len(valueNames))] }

// localName is a name that can be declared (no soft keywords that confuse statement starts).
func (g *Gen) localName() string {
	return g.pick("a", "b", "c", "x", "y", "z", "foo", "bar", "value", "res", "acct", "r1", "_tmp", "x_1", "v2", "from", "all", "account", "to", "type")
}

// ---------------------------------------------------------------- types

func (g *Gen) nominalType() {
	g.feat("type/nominal")
	if g.p(0.2) {
		g.feat("type/nominal-qualified")
		g.e(g.pick("Foo", "C", "FungibleToken", "A"))
		for k := g.n(2); k >= 0; k-- {
			g.tight().e(".")
			g.tight().e(g.pick("Vault", "Bar", "R", "S", "NFT"))
		}
		return
	}
	g.e(typeNames[g.n(len(typeNames))])
}

func (g *Gen) entitlementName() {
	if g.p(0.15) {
		g.e(g.pick("A", "C"))
		g.tight().e(".")
		g.tight().e(entNames[g.n(len(entNames))])
		return
	}
	g.e(entNames[g.n(len(entNames))])
}

// authorization emits `auth(...)` contents including parentheses.
func (g *Gen) authorization() {
	g.e("auth")
	g.e("(")
	switch g.n(4) {
	case 0:
		g.feat("type/auth-mapping")
		g.e("mapping")
		g.entitlementName()
	case 1:
		g.feat("type/auth-disjunction")
		g.entitlementName()
		for k := g.n(2); k >= 0; k-- {
			g.e("|")
			g.entitlementName()
		}
	case 2:
		g.feat("type/auth-conjunction")
		g.entitlementName()
		for k := g.n(2); k >= 0; k-- {
			g.e(",")
			g.entitlementName()
		}
	default:
		g.feat("type/auth-single")
		g.entitlementName()
	}
	g.e(")")
}

// typ emits a type. inner=true when the type is an operand of a prefix/postfix type operator.
func (g *Gen) typ(depth int) {
	if depth <= 0 {
		g.nominalType()
		return
	}
	switch g.n(14) {
	case 0, 1, 2:
		g.nominalType()
	case 3:
		g.feat("type/optional")
		g.typOperand(depth - 1)
		if g.p(0.25) {
			g.feat("type/double-optional")
			g.tight().e("??")
		} else {
			g.tight().e("?")
		}
	case 4:
		g.feat("type/array")
		g.e("[")
		g.typ(depth - 1)
		g.e("]")
	case 5:
		g.feat("type/const-array")
		g.e("[")
		g.typ(depth - 1)
		g.e(";")
		g.e(g.pick("0", "1", "3", "0x10", "1_000", "0b11"))
		g.e("]")
	case 6:
		g.feat("type/dictionary")
		g.e("{")
		g.typ(depth - 1)
		g.e(":")
		g.typ(depth - 1)
		g.e("}")
	case 7:
		g.feat("type/function")
		paren := g.p(0.3)
		if paren {
			g.e("(")
		}
		if g.p(0.3) {
			g.feat("type/function-view")
			g.e("view")
		}
		g.e("fun")
		g.e("(")
		for k, n := 0, g.n(3); k < n; k++ {
			if k > 0 {
				g.e(",")
			}
			g.typeAnnotation(depth - 1)
		}
		g.e(")")
		if g.p(0.95) {
			g.e(":")
			g.typeAnnotation(depth - 1)
		} else {
			g.feat("type/function-noreturn")
		}
		if paren {
			g.e(")")
		}
	case 8:
		g.feat("type/reference")
		g.e("&")
		g.typOperand(depth - 1)
	case 9:
		g.feat("type/auth-reference")
		g.authorization()
		g.e("&")
		g.typOperand(depth - 1)
	case 10:
		g.feat("type/intersection")
		g.e("{")
		for k, n := 0, g.n(3); k <= n; k++ {
			if k > 0 {
				g.e(",")
			}
			g.e(ifaceNames[g.n(len(ifaceNames))])
		}
		g.e("}")
	case 11:
		g.feat("type/instantiation")
		g.e(g.pick("Capability", "InclusiveRange", "Foo"))
		g.tight().e("<")
		for k, n := 0, g.n(2); k <= n; k++ {
			if k > 0 {
				g.e(",")
			}
			g.typeAnnotation(depth - 1)
		}
		g.e(">")
	case 12:
		g.feat("type/parenthesized")
		g.e("(")
		g.typ(depth - 1)
		g.e(")")
	default:
		g.feat("type/empty-intersection")
		if g.p(0.5) {
			g.nominalType()
		} else {
			g.e("{")
			g.e("}")
		}
	}
}

// typOperand emits a type usable under &, ?, with parentheses when the inner type is
// itself composite in a way that needs them (chosen randomly: both forms are valid syntax).
func (g *Gen) typOperand(depth int) {
	if depth > 0 && g.p(0.4) {
		g.e("(")
		g.typ(depth)
		g.e(")")
		return
	}
	if depth > 0 && g.p(0.5) {
		switch g.n(3) {
		case 0:
			g.e("[")
			g.typ(depth - 1)
			g.e("]")
		case 1:
			g.e("{")
			g.e(ifaceNames[g.n(len(ifaceNames))])
			g.e("}")
		default:
			g.nominalType()
		}
		return
	}
	g.nominalType()
}

func (g *Gen) typeAnnotation(depth int) {
	if g.p(0.2) {
		g.feat("type/resource-annotation")
		g.e("@")
		g.tight()
	}
	g.typ(depth)
}

// ---------------------------------------------------------------- literals

func (g *Gen) digits(set string, n int) string {
	var sb strings.Builder
	for i := 0; i < n; i++ {
		sb.WriteByte(set[g.n(len(set))])
		if i+1 < n && g.p(0.1) {
			sb.WriteByte('_')
		}
	}
	return sb.String()
}

func (g *Gen) intLiteral() string {
	switch g.n(8) {
	case 0:
		g.feat("lit/int-binary")
		return "0b" + g.digits("01", 1+g.n(10))
	case 1:
		g.feat("lit/int-octal")
		return "0o" + g.digits("01234567", 1+g.n(8))
	case 2:
		g.feat("lit/int-hex")
		return "0x" + g.digits("0123456789abcdefABCDEF", 1+g.n(12))
	case 3:
		g.feat("lit/int-big")
		return g.pick("1", "9", "3") + g.digits("0123456789", 20+g.n(60))
	case 4:
		g.feat("lit/int-leading-zero")
		return "00" + g.digits("0123456789", 1+g.n(4))
	default:
		g.feat("lit/int-decimal")
		return g.pick("0", "1", "2", "7", "10", "42", "255", "1_000", "18446744073709551616")
	}
}

func (g *Gen) fixedLiteral() string {
	g.feat("lit/fixed")
	return g.pick("0", "1", "12", "003", "1_0") + "." + g.pick("0", "5", "25", "00000001", "10", "0_1", "123456789012345678901234", "500")
}

var strPieces = []string{"", "a", "hello", " ", "x y", "\\n", "\\t", "\\r", "\\0", "\\\\", "\\\"", "\\'", "\\u{41}", "\\u{1F600}", "\\u{0}", "\\u{e9}",
	"'", "//", "/*", "*/", "{", "}", "(", ")", "$", "\\u{2028}", "\\u{7f}", "\\u{a0}", "\\u{FEFF}", "\\u{301}"}
var strPiecesNonASCII = []string{"é", "日本", "ß", "😀", "é", " ", " ", "𝛼"}

func (g *Gen) stringBody() string {
	var sb strings.Builder
	for k := g.n(4); k > 0; k-- {
		if g.cfg.NonASCII && g.p(0.2) {
			g.feat("lit/string-nonascii")
			sb.WriteString(strPiecesNonASCII[g.n(len(strPiecesNonASCII))])
		} else {
			s := strPieces[g.n(len(strPieces))]
			if strings.HasPrefix(s, "\\") {
				g.feat("lit/string-escape")
			}
			sb.WriteString(s)
		}
	}
	return sb.String()
}

// stringLiteral emits a string literal, possibly a template.
func (g *Gen) stringLiteral(depth int) {
	if g.cfg.Templates && depth > 0 && g.p(0.3) && (g.inTemplate == 0 || g.cfg.NestedTemplateStrings) {
		g.feat("expr/string-template")
		// "lit \(expr) lit \(expr) lit"
		n := 1 + g.n(2)
		g.e("\"" + g.stringBody())
		for i := 0; i < n; i++ {
			g.tight().e("\\(")
			g.inTemplate++
			g.glue = pickGlue(g, Tight, SameLine)
			g.templateExpr(depth - 1)
			g.inTemplate--
			g.glue = pickGlue(g, Tight, SameLine)
			g.e(")")
			body := g.stringBody()
			if i == n-1 {
				body += "\""
			}
			g.tight().e(body)
		}
		return
	}
	g.feat("expr/string")
	g.e("\"" + g.stringBody() + "\"")
}

func pickGlue(g *Gen, a, b Glue) Glue {
	if g.p(0.7) {
		return a
	}
	return b
}

// templateExpr emits the expression inside \( ... ): everything must stay on one line.
func (g *Gen) templateExpr(depth int) {
	start := len(g.toks)
	g.expr(depth)
	for i := start; i < len(g.toks); i++ {
		if g.toks[i].Glue == Free {
			g.toks[i].Glue = SameLine
		}
	}
}

// ---------------------------------------------------------------- expressions

var binaryOps = []string{"||", "&&", "==", "!=", "<", "<=", ">", ">=", "??", "|", "^", "&", "<<", ">>", "+", "-", "*", "/", "%"}

// expr emits an expression of at most the given depth.
func (g *Gen) expr(depth int) {
	if depth <= 0 {
		g.atom(0)
		return
	}
	switch g.n(20) {
	case 0, 1, 2, 3, 4:
		g.binary(depth)
	case 5:
		g.feat("expr/unary")
		op := g.pick("-", "!", "*", "<-")
		g.feat("expr/unary" + op)
		g.e(op)
		if g.p(0.6) {
			g.tight()
		}
		g.operand(depth - 1)
	case 6:
		g.feat("expr/conditional")
		g.operand(depth - 1)
		g.e("?")
		g.expr(depth - 1)
		g.e(":")
		g.expr(depth - 1)
	case 7:
		g.casting(depth)
	case 8:
		g.feat("expr/paren")
		g.e("(")
		g.expr(depth - 1)
		g.e(")")
	default:
		g.postfix(depth)
	}
}

func (g *Gen) binary(depth int) {
	op := binaryOps[g.n(len(binaryOps))]
	g.feat("expr/binary")
	g.feat("expr/binary" + op)
	g.operand(depth - 1)
	// chains stress associativity
	for k := 0; ; k++ {
		g.e(op)
		g.operand(depth - 1)
		if k >= 2 || !g.p(0.3) {
			break
		}
		if g.p(0.6) {
			op = binaryOps[g.n(len(binaryOps))]
			g.feat("expr/binary" + op)
			g.feat("expr/binary-mixed")
		}
	}
}

// operand emits a sub-expression in operand position: parenthesised at random so
// that both the parser's precedence decisions and explicit groupings are exercised.
func (g *Gen) operand(depth int) {
	if depth <= 0 {
		g.atom(0)
		return
	}
	switch g.n(10) {
	case 0, 1, 2:
		g.feat("expr/paren-operand")
		g.e("(")
		g.expr(depth)
		g.e(")")
	case 3, 4:
		// bare nested operator expression: the parser decides the grouping
		g.feat("expr/bare-operand")
		g.expr(depth)
	default:
		g.postfix(depth)
	}
}

func (g *Gen) casting(depth int) {
	op := g.pick("as", "as?", "as!")
	g.feat("expr/cast")
	g.feat("expr/cast-" + op)
	paren := g.p(0.5)
	if paren {
		g.e("(")
	}
	g.operand(depth - 1)
	g.e(op)
	g.typeAnnotationNoTrailingQuestion(g.cfg.MaxTypeDepth - 1)
	if paren {
		g.e(")")
	}
}

// typeAnnotationNoTrailingQuestion: after a cast a following `?`/`<` could be absorbed by the type.
func (g *Gen) typeAnnotationNoTrailingQuestion(depth int) {
	g.typeAnnotation(depth)
}

// postfix emits a primary followed by postfix operators.
func (g *Gen) postfix(depth int) {
	g.atom(depth)
	for k := g.n(3); k > 0; k-- {
		switch g.n(8) {
		case 0, 1:
			if last := g.toks[len(g.toks)-1].S; last[0] >= '0' && last[0] <= '9' && !strings.Contains(last, ".") && !g.p(0.05) {
				// member access on an integer literal (`2 .a`) is legal but rare in practice (and hits a known printer defect)
				g.feat("expr/optional-member")
				g.e("?.")
				g.tight().e(g.pick(fieldNames...))
				break
			}
			g.feat("expr/member")
			g.e(".")
			g.tight().e(g.pick(fieldNames...))
		case 2:
			g.feat("expr/optional-member")
			g.e("?.")
			g.tight().e(g.pick(fieldNames...))
		case 3, 4:
			g.feat("expr/invocation")
			g.invocationArgs(depth, true)
		case 5:
			g.feat("expr/index")
			g.sameLine().e("[")
			g.expr(depth - 1)
			g.e("]")
		case 6:
			g.feat("expr/force")
			g.sameLine().e("!")
		default:
			g.feat("expr/invocation-typeargs")
			g.tight().e("<")
			for i, n := 0, g.n(2); i <= n; i++ {
				if i > 0 {
					g.e(",")
				}
				g.typeAnnotation(1)
			}
			g.e(">")
			g.tight()
			g.invocationArgs(depth, false)
		}
	}
}

func (g *Gen) invocationArgs(depth int, setGlue bool) {
	if setGlue {
		g.sameLine()
	}
	g.e("(")
	n := g.n(4)
	for i := 0; i < n; i++ {
		if i > 0 {
			g.e(",")
		}
		if g.p(0.4) {
			g.feat("expr/argument-label")
			g.e(g.pick("from", "to", "amount", "id", "with", "a", "type"))
			g.e(":")
		}
		g.expr(depth - 1)
	}
	if n > 0 {
		g.gap = ListClose
	}
	g.e(")")
}

func (g *Gen) atom(depth int) {
	k := g.n(28)
	if depth <= 0 && k >= 14 {
		k = g.n(14)
	}
	if (k == 17 || k == 21) && !g.p(0.3) {
		// destroy/attach expressions in operand position hit known printer defects; keep them, but rarer
		k = g.n(4)
	}
	switch k {
	case 0, 1, 2, 3:
		g.feat("expr/identifier")
		g.e(g.valueName())
	case 4:
		g.feat("expr/int")
		g.e(g.intLiteral())
	case 5:
		g.feat("expr/int")
		if g.p(0.5) {
			g.feat("expr/negative-literal")
			g.e("-")
			if g.p(0.7) {
				g.tight()
			}
		}
		g.e(g.intLiteral())
	case 6:
		g.feat("expr/fixed")
		if g.p(0.4) {
			g.feat("expr/negative-literal")
			g.e("-")
			g.tight()
		}
		g.e(g.fixedLiteral())
	case 7:
		g.feat("expr/bool")
		g.e(g.pick("true", "false"))
	case 8:
		g.feat("expr/nil")
		g.e("nil")
	case 9, 10:
		g.stringLiteral(depth)
	case 11:
		g.feat("expr/path")
		g.e("/")
		g.tight().e(g.pick("storage", "public", "private", "foo"))
		g.tight().e("/")
		g.tight().e(g.pick("vault", "x", "receiver_1", "r"))
	case 12:
		g.feat("expr/void")
		g.e("(")
		g.e(")")
	case 13:
		g.feat("expr/array")
		g.e("[")
		g.e("]")
	case 14:
		g.feat("expr/array")
		g.e("[")
		n := 1 + g.n(3)
		for i := 0; i < n; i++ {
			if i > 0 {
				g.e(",")
			}
			g.expr(depth - 1)
		}
		g.gap = ListClose
		g.e("]")
	case 15:
		g.feat("expr/dictionary")
		g.e("{")
		n := g.n(3)
		for i := 0; i < n; i++ {
			if i > 0 {
				g.e(",")
			}
			g.expr(depth - 1)
			g.e(":")
			g.expr(depth - 1)
		}
		if n > 0 {
			g.gap = ListClose
		}
		g.e("}")
	case 16:
		g.feat("expr/create")
		g.e("create")
		g.nominalType()
		g.sameLine()
		g.invocationArgs(depth, false)
	case 17:
		g.feat("expr/destroy")
		g.e("destroy")
		g.operand(depth - 1)
	case 18:
		g.feat("expr/reference")
		paren := g.p(0.6)
		if paren {
			g.e("(")
		}
		g.e("&")
		g.tight()
		g.postfix(depth - 1)
		if g.p(0.85) {
			g.e("as")
			g.typ(2)
		} else {
			g.feat("expr/reference-untyped")
		}
		if paren {
			g.e(")")
		}
	case 19, 20:
		g.functionExpression(depth)
	case 21:
		g.feat("expr/attach")
		g.e("attach")
		g.nominalType()
		g.sameLine()
		g.invocationArgs(depth, false)
		g.e("to")
		g.operand(depth - 1)
	case 22:
		g.feat("expr/paren")
		g.e("(")
		g.expr(depth - 1)
		g.e(")")
	case 23:
		g.feat("expr/identifier")
		g.e(g.pick(funNames...))
	default:
		g.feat("expr/identifier")
		g.e(g.valueName())
	}
}

func (g *Gen) functionExpression(depth int) {
	g.feat("expr/function")
	if g.p(0.2) {
		g.feat("expr/function-view")
		g.e("view")
	}
	g.e("fun")
	g.parameterList(false)
	if g.p(0.6) {
		g.e(":")
		g.typeAnnotation(2)
	}
	d := depth - 1
	if d > 1 {
		d = 1
	}
	g.functionBlock(d, g.p(0.15))
}

// ---------------------------------------------------------------- parameters, blocks

func (g *Gen) parameterList(defaults bool) {
	g.e("(")
	n := g.n(4)
	for i := 0; i < n; i++ {
		if i > 0 {
			g.e(",")
		}
		switch g.n(3) {
		case 0:
			g.feat("param/label")
			g.e(g.pick("from", "to", "with", "_", "label"))
			g.e(g.pick("a", "b", "c", "amount", "v"))
		default:
			g.e(g.pick("a", "b", "c", "amount", "recipient", "id"))
		}
		g.e(":")
		g.typeAnnotation(g.cfg.MaxTypeDepth - 1)
		if defaults {
			g.feat("param/default")
			g.e("=")
			g.e(g.pick("self.id", "1", "\"x\"", "self.owner?.address", "nil", "-1", "1.5", "/public/p", "true"))
		}
	}
	if n > 0 {
		g.gap = ListClose
	}
	g.e(")")
}

func (g *Gen) conditions(kind string, depth int) {
	g.feat("cond/" + kind)
	g.e(kind)
	g.e("{")
	n := g.n(3)
	first := true
	for i := 0; i < n; i++ {
		if !first {
			g.sep()
		}
		first = false
		if g.p(0.2) {
			g.feat("cond/emit")
			g.e("emit")
			g.nominalType()
			g.sameLine()
			g.invocationArgs(1, false)
			continue
		}
		start := len(g.toks)
		g.expr(min(depth, 2))
		if i > 0 && strings.ContainsRune("-*/&<", rune(g.toks[start].S[0])) && !g.p(0.03) {
			// a condition that starts with an operator character would continue the previous condition when the two are
			// separated by a newline only (which is what the printer emits: a known defect), so it is parenthesised
			open := g.toks[start]
			open.S = "("
			rest := append([]Tok{{S: g.toks[start].S}}, g.toks[start+1:]...)
			g.toks = append(append(g.toks[:start:start], open), rest...)
			g.e(")")
		}
		if g.p(0.5) {
			g.feat("cond/message")
			g.e(":")
			g.stringLiteral(1)
		}
	}
	g.e("}")
}

func (g *Gen) functionBlock(depth int, conds bool) {
	g.e("{")
	any := false
	if conds {
		if g.p(0.6) {
			g.conditions("pre", depth)
			any = true
		}
		if g.p(0.6) {
			if any {
				g.sepLine()
			}
			g.conditions("post", depth)
			any = true
		}
	}
	g.statements(depth, any)
	g.e("}")
}

func (g *Gen) block(depth int) {
	g.e("{")
	g.statements(depth, false)
	g.e("}")
}

func (g *Gen) statements(depth int, needSepFirst bool) {
	n := g.n(g.cfg.MaxStmts + 1)
	for i := 0; i < n; i++ {
		if i > 0 || needSepFirst {
			g.sep()
		}
		g.statement(depth)
	}
}

// ---------------------------------------------------------------- statements

func (g *Gen) transfer() {
	op := g.pick("=", "=", "<-", "<-!")
	g.feat("transfer/" + op)
	g.e(op)
}

func (g *Gen) variableDeclaration(depth int, access bool) {
	g.feat("decl/variable")
	if access {
		g.access()
	}
	g.e(g.pick("let", "var"))
	g.e(g.localName())
	if g.p(0.5) {
		g.e(":")
		g.typeAnnotation(g.cfg.MaxTypeDepth)
	}
	g.transfer()
	g.expr(depth)
	if g.p(0.08) {
		g.feat("decl/variable-second-value")
		g.e("<-")
		g.expr(1)
	}
}

func (g *Gen) ifStatement(depth int) {
	g.feat("stmt/if")
	g.e("if")
	if g.p(0.3) {
		g.feat("stmt/if-let")
		g.e(g.pick("let", "var"))
		g.e(g.localName())
		if g.p(0.3) {
			g.e(":")
			g.typeAnnotation(1)
		}
		g.e(g.pick("=", "<-"))
		g.expr(min(depth, 2))
	} else {
		g.condExpr(depth)
	}
	g.block(depth - 1)
	if g.p(0.5) {
		g.e("else")
		if g.p(0.4) && depth > 0 {
			g.feat("stmt/else-if")
			g.ifStatement(depth - 1)
		} else {
			g.feat("stmt/else")
			g.elseBlock(depth - 1)
		}
	}
}

// elseBlock emits a final else block; an empty one after an else-if chain is a known printer
// defect, so emptiness is controlled by the configuration.
func (g *Gen) elseBlock(depth int) {
	g.e("{")
	start := len(g.toks)
	g.statements(depth, false)
	if len(g.toks) == start {
		if g.cfg.EmptyElse {
			g.feat("stmt/else-empty")
		} else {
			g.e("return")
		}
	}
	g.e("}")
}

// condExpr emits an expression followed by `{`: a trailing identifier/dictionary would be ambiguous, so
// conditions avoid ending in a bare `{`-starting construct by being parenthesised sometimes.
func (g *Gen) condExpr(depth int) {
	if g.p(0.3) {
		g.e("(")
		g.expr(min(depth, 2))
		g.e(")")
		return
	}
	g.expr(min(depth, 2))
}

func (g *Gen) statement(depth int) {
	if depth <= 0 {
		switch g.n(6) {
		case 0:
			g.feat("stmt/return")
			g.e("return")
		case 1:
			g.feat("stmt/break")
			g.e(g.pick("break", "continue"))
		case 2:
			g.variableDeclaration(1, false)
		default:
			g.feat("stmt/expression")
			g.exprStatement(1)
		}
		return
	}
	ed := g.cfg.MaxExprDepth
	switch g.n(24) {
	case 0:
		g.feat("stmt/return")
		g.e("return")
		if g.p(0.7) {
			g.feat("stmt/return-value")
			g.sameLine()
			g.expr(ed)
		}
	case 1:
		g.feat("stmt/break")
		g.e("break")
	case 2:
		g.feat("stmt/continue")
		g.e("continue")
	case 3, 4:
		g.ifStatement(depth)
	case 5:
		g.feat("stmt/while")
		g.e("while")
		g.condExpr(depth)
		g.block(depth - 1)
	case 6:
		g.feat("stmt/for")
		g.e("for")
		if g.p(0.3) {
			g.feat("stmt/for-index")
			g.e(g.pick("i", "idx"))
			g.e(",")
		}
		g.e(g.pick("x", "e", "elem", "key"))
		g.e("in")
		g.condExpr(depth)
		g.block(depth - 1)
	case 7:
		g.feat("stmt/emit")
		g.e("emit")
		g.nominalType()
		g.sameLine()
		g.invocationArgs(2, false)
	case 8, 9, 10:
		g.variableDeclaration(ed, false)
	case 11, 12:
		g.feat("stmt/assignment")
		g.target()
		g.transfer()
		g.expr(ed)
	case 13:
		g.feat("stmt/swap")
		g.target()
		g.e("<->")
		g.target()
	case 14:
		g.feat("stmt/switch")
		g.e("switch")
		g.condExpr(depth)
		g.e("{")
		n := g.n(3)
		for i := 0; i < n; i++ {
			if i > 0 {
				g.sep()
			}
			g.e("case")
			g.expr(2)
			g.e(":")
			g.caseBody(depth - 1)
		}
		if g.p(0.5) {
			g.feat("stmt/switch-default")
			if n > 0 {
				g.sep()
			}
			g.e("default")
			g.e(":")
			g.caseBody(depth - 1)
		}
		g.e("}")
	case 15:
		g.feat("stmt/remove")
		g.e("remove")
		g.nominalType()
		g.e("from")
		g.expr(2)
	case 16:
		g.feat("stmt/guard")
		g.e("guard")
		if g.p(0.5) {
			g.feat("stmt/guard-let")
			g.e(g.pick("let", "var"))
			g.e(g.localName())
			g.e(g.pick("=", "<-"))
			g.expr(2)
		} else {
			g.condExpr(depth)
		}
		g.e("else")
		g.block(depth - 1)
	case 17:
		g.feat("stmt/function-declaration")
		g.functionDeclaration(depth-1, false, false, true)
	case 18:
		g.feat("stmt/destroy")
		g.e("destroy")
		g.operand(2)
	case 19:
		g.feat("stmt/nested-composite")
		g.compositeDeclaration(1, false)
	default:
		g.feat("stmt/expression")
		g.exprStatement(ed)
	}
}

func (g *Gen) caseBody(depth int) {
	n := g.n(3)
	for i := 0; i < n; i++ {
		g.sep()
		g.statement(depth)
	}
}

// exprStatement emits an expression statement: must not start with a token that
// continues the previous statement or starts a declaration.
func (g *Gen) exprStatement(depth int) {
	g.e(g.pick("f", "foo", "self", "a", "log", "panic", "acct"))
	for k := 1 + g.n(2); k > 0; k-- {
		switch g.n(3) {
		case 0:
			g.e(".")
			g.tight().e(g.pick(fieldNames...))
		default:
			g.invocationArgs(depth, true)
		}
	}
}

func (g *Gen) target() {
	g.e(g.pick("a", "b", "x", "self", "foo"))
	for k := g.n(3); k > 0; k-- {
		switch g.n(3) {
		case 0:
			g.sameLine().e("[")
			g.expr(1)
			g.e("]")
		default:
			g.e(".")
			g.tight().e(g.pick(fieldNames...))
		}
	}
}

// ---------------------------------------------------------------- declarations

func (g *Gen) access() {
	switch g.n(9) {
	case 0, 1, 2:
		g.feat("access/all")
		g.e("access", "(", "all", ")")
	case 3:
		g.feat("access/self")
		g.e("access", "(", "self", ")")
	case 4:
		g.feat("access/contract")
		g.e("access", "(", "contract", ")")
	case 5:
		g.feat("access/account")
		g.e("access", "(", "account", ")")
	case 6:
		g.feat("access/entitlements")
		g.e("access", "(")
		g.entitlementName()
		sep := g.pick(",", "|")
		for k := g.n(3); k > 0; k-- {
			g.e(sep)
			g.entitlementName()
		}
		g.e(")")
	case 7:
		g.feat("access/mapping")
		g.e("access", "(", "mapping")
		g.entitlementName()
		g.e(")")
	default:
		g.feat("access/none")
	}
}

func (g *Gen) functionDeclaration(depth int, access bool, bodyOptional bool, local bool) {
	g.feat("decl/function")
	if access {
		g.access()
	}
	if g.p(0.25) {
		g.feat("decl/function-view")
		g.e("view")
	}
	g.e("fun")
	g.e(g.pick(funNames...))
	g.sameLine()
	g.parameterList(false)
	if g.p(0.6) {
		g.e(":")
		g.typeAnnotation(g.cfg.MaxTypeDepth)
	}
	if bodyOptional && g.p(0.5) {
		g.feat("decl/function-nobody")
		return
	}
	g.functionBlock(depth, g.p(0.35))
}

func (g *Gen) conformances() {
	if g.p(0.4) {
		g.feat("decl/conformances")
		g.e(":")
		for k, n := 0, g.n(3); k <= n; k++ {
			if k > 0 {
				g.e(",")
			}
			if g.p(0.2) {
				g.e("C")
				g.tight().e(".")
				g.tight().e(ifaceNames[g.n(len(ifaceNames))])
			} else {
				g.e(ifaceNames[g.n(len(ifaceNames))])
			}
		}
	}
}

func (g *Gen) members(depth int, kind string, iface bool) {
	n := g.n(5)
	first := true
	sep := func() {
		if !first {
			g.sep()
		}
		first = false
	}
	for i := 0; i < n; i++ {
		switch g.n(10) {
		case 0, 1, 2:
			sep()
			g.feat("member/field")
			g.access()
			g.e(g.pick("let", "var"))
			g.e(g.pick(fieldNames...))
			g.e(":")
			g.typeAnnotation(g.cfg.MaxTypeDepth)
		case 3:
			sep()
			g.feat("member/init")
			if g.p(0.2) {
				g.access()
			}
			if g.p(0.2) {
				g.e("view")
			}
			g.e("init")
			g.sameLine()
			g.parameterList(false)
			if !(iface && g.p(0.5)) {
				g.functionBlock(depth, g.p(0.3))
			}
		case 4, 5, 6:
			sep()
			g.feat("member/function")
			g.functionDeclaration(depth, true, iface, false)
		case 7:
			if depth > 0 && (kind == "contract" || g.p(0.3)) {
				sep()
				g.feat("member/nested-composite")
				g.compositeDeclaration(depth-1, true)
			}
		case 8:
			sep()
			g.feat("member/event")
			g.eventDeclaration(kind == "resource" && g.p(0.5))
		default:
			if kind == "contract" {
				sep()
				g.feat("member/entitlement")
				g.entitlementDeclaration()
			}
		}
	}
}

func (g *Gen) eventDeclaration(resourceDestroyed bool) {
	g.feat("decl/event")
	g.access()
	g.e("event")
	if resourceDestroyed {
		g.feat("decl/event-resource-destroyed")
		g.e("ResourceDestroyed")
		g.sameLine()
		g.parameterList(true)
		return
	}
	g.e(g.pick("Deposit", "Withdrawn", "Ev", "E1"))
	g.sameLine()
	g.parameterList(false)
}

func (g *Gen) entitlementDeclaration() {
	g.access()
	g.e("entitlement")
	if g.p(0.4) {
		g.feat("decl/entitlement-mapping")
		g.e("mapping")
		g.e(g.pick("M", "N", "Map"))
		g.e("{")
		n := g.n(4)
		for i := 0; i < n; i++ {
			if i > 0 {
				g.sepLine()
			}
			if g.p(0.25) {
				g.feat("decl/entitlement-mapping-include")
				g.e("include")
				g.e(g.pick("Identity", "N", "Other"))
				continue
			}
			g.entitlementName()
			g.e("->")
			g.entitlementName()
		}
		g.e("}")
		return
	}
	g.feat("decl/entitlement")
	g.e(entNames[g.n(len(entNames))])
}

func (g *Gen) compositeDeclaration(depth int, access bool) {
	if access {
		g.access()
	}
	switch g.n(9) {
	case 0, 1, 2:
		kind := g.pick("struct", "resource", "contract")
		g.feat("decl/composite-" + kind)
		g.e(kind)
		g.e(g.pick("S", "R", "C", "Vault", "Foo", "Token"))
		g.conformances()
		g.e("{")
		g.members(depth, kind, false)
		g.e("}")
	case 3, 4:
		kind := g.pick("struct", "resource", "contract")
		g.feat("decl/interface-" + kind)
		g.e(kind)
		g.e("interface")
		g.e(g.pick(ifaceNames...))
		g.conformances()
		g.e("{")
		g.members(depth, kind, true)
		g.e("}")
	case 5:
		g.feat("decl/enum")
		g.e("enum")
		g.e(g.pick("Color", "Kind", "E"))
		if g.p(0.85) {
			g.e(":")
			g.e(g.pick("UInt8", "Int", "UInt64"))
		}
		g.e("{")
		n := g.n(4)
		for i := 0; i < n; i++ {
			if i > 0 {
				g.sep()
			}
			g.feat("member/enum-case")
			if g.p(0.5) {
				g.e("access", "(", "all", ")")
			}
			g.e("case")
			g.e(g.pick("red", "green", "blue", "a", "b") + fmt.Sprint(i))
		}
		g.e("}")
	case 6:
		g.feat("decl/attachment")
		g.e("attachment")
		g.e(g.pick("A", "Att", "Extra"))
		g.e("for")
		g.nominalType()
		g.conformances()
		g.e("{")
		g.members(depth, "attachment", false)
		g.e("}")
	case 7:
		g.eventDeclarationNoAccess()
	default:
		g.feat("decl/composite-struct")
		g.e("struct")
		g.e(g.pick("P", "Q", "Point"))
		g.e("{")
		g.members(depth, "struct", false)
		g.e("}")
	}
}

func (g *Gen) eventDeclarationNoAccess() {
	g.feat("decl/event")
	g.e("event")
	g.e(g.pick("Deposit", "Withdrawn", "Ev", "E1"))
	g.sameLine()
	g.parameterList(false)
}

func (g *Gen) importDeclaration() {
	g.feat("decl/import")
	g.e("import")
	switch g.n(6) {
	case 0:
		g.feat("decl/import-identifier")
		g.e(g.pick("Crypto", "Test", "Foo"))
	case 1:
		g.feat("decl/import-string")
		g.e(g.pick("\"file.cdc\"", "\"./a/b.cdc\"", "\"FungibleToken\"", "\"\""))
	case 2:
		g.feat("decl/import-address")
		g.e(g.pick("0x1", "0x01", "0xf8d6e0586b0a20c7", "0x0", "0x00_01"))
	default:
		g.feat("decl/import-from")
		n := 1 + g.n(3)
		for i := 0; i < n; i++ {
			if i > 0 {
				g.e(",")
			}
			g.e(g.pick("FungibleToken", "NonFungibleToken", "A", "B", "Zeta", "alpha", "C"))
			if g.p(0.3) {
				g.feat("decl/import-alias")
				g.e("as")
				g.e(g.pick("FT", "X", "Alias", "b2"))
			}
		}
		g.e("from")
		g.e(g.pick("0x1", "0x02", "0xf8d6e0586b0a20c7", "\"lib.cdc\"", "\"FungibleToken\"", "Other"))
	}
}

func (g *Gen) transactionDeclaration(depth int) {
	g.feat("decl/transaction")
	g.e("transaction")
	if g.p(0.5) {
		g.sameLine()
		g.parameterList(false)
	}
	g.e("{")
	first := true
	sep := func() {
		if !first {
			g.sep()
		}
		first = false
	}
	for k := g.n(3); k > 0; k-- {
		sep()
		g.feat("member/transaction-field")
		g.e(g.pick("let", "var"))
		g.e(g.pick(fieldNames...))
		g.e(":")
		g.typeAnnotation(g.cfg.MaxTypeDepth)
	}
	sepL := func() {
		if !first {
			g.sepLine()
		}
		first = false
	}
	hasPrepare := g.p(0.7)
	if hasPrepare {
		sep()
		g.feat("member/prepare")
		g.e("prepare")
		g.sameLine()
		g.parameterList(false)
		g.functionBlock(depth, false)
		if g.p(0.4) {
			sepL()
			g.conditions("pre", 2)
		}
	}
	order := g.n(3) // execute/post order is free
	exec := func() {
		if g.p(0.7) {
			sepL()
			g.feat("member/execute")
			g.e("execute")
			g.block(depth)
		}
	}
	post := func() {
		if g.p(0.4) {
			sepL()
			g.conditions("post", 2)
		}
	}
	if !hasPrepare {
		// without prepare the first member after the fields must be execute
		sepL()
		g.feat("member/execute")
		g.e("execute")
		g.block(depth)
		post()
	} else if order == 0 {
		g.feat("member/post-before-execute")
		post()
		exec()
	} else {
		exec()
		post()
	}
	g.e("}")
}

func (g *Gen) pragma() {
	g.feat("decl/pragma")
	g.e("#")
	g.tight().e(g.pick("allowAccountLinking", "version", "foo", "removedType"))
	if g.p(0.5) {
		g.sameLine()
		g.e("(")
		if g.p(0.8) {
			g.e(g.pick("\"1.0\"", "1", "Foo", "a: 1", "\"x\", 2"))
		}
		g.e(")")
	}
}

func (g *Gen) declaration(depth int) {
	switch g.n(16) {
	case 0:
		g.importDeclaration()
	case 1:
		g.pragma()
	case 2, 3:
		g.variableDeclaration(g.cfg.MaxExprDepth, true)
	case 4, 5, 6, 7:
		g.functionDeclaration(depth, true, false, false)
	case 8, 9, 10, 11:
		g.compositeDeclaration(depth, true)
	case 12:
		g.entitlementDeclaration()
	case 13:
		g.transactionDeclaration(depth)
	case 14:
		g.eventDeclaration(false)
	default:
		g.functionDeclaration(depth, true, false, false)
	}
}

// Program generates one program.
func (g *Gen) Program() *Program {
	g.reset()
	n := 1 + g.n(g.cfg.MaxDecls)
	for i := 0; i < n; i++ {
		if i > 0 {
			g.sep()
		}
		g.declaration(g.cfg.MaxStmtDepth)
	}
	return &Program{Toks: g.toks, Features: g.feats}
}

// ExpressionProgram generates `let v = <expr>` programs: cheap, dense in operator/precedence decisions.
func (g *Gen) ExpressionProgram() *Program {
	g.reset()
	n := 1 + g.n(3)
	for i := 0; i < n; i++ {
		if i > 0 {
			g.sep()
		}
		g.e("let")
		g.e(fmt.Sprintf("v%d", i))
		if g.p(0.3) {
			g.e(":")
			g.typeAnnotation(g.cfg.MaxTypeDepth)
		}
		g.e("=")
		g.expr(g.cfg.MaxExprDepth)
	}
	return &Program{Toks: g.toks, Features: g.feats}
}

// TypeProgram generates `let v: <type> = x` programs: dense in type syntax.
func (g *Gen) TypeProgram() *Program {
	g.reset()
	n := 1 + g.n(3)
	for i := 0; i < n; i++ {
		if i > 0 {
			g.sep()
		}
		g.e("let")
		g.e(fmt.Sprintf("v%d", i))
		g.e(":")
		g.typeAnnotation(g.cfg.MaxTypeDepth + 1)
		g.e("=")
		g.e("x")
	}
	return &Program{Toks: g.toks, Features: g.feats}
}
