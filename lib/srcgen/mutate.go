package srcgen

import (
	"go/scanner"
	"go/token"
	"math/rand"
	"os"
	"path/filepath"
	"sort"
	"strings"
)

// vocabulary used by token insertion and raw input generation
var vocab = []string{
	"let", "var", "fun", "if", "else", "while", "for", "in", "return", "break", "continue", "switch", "case", "default",
	"struct", "resource", "contract", "interface", "enum", "event", "attachment", "entitlement", "mapping", "transaction",
	"prepare", "execute", "pre", "post", "access", "all", "self", "view", "import", "from", "as", "as?", "as!", "create",
	"destroy", "emit", "attach", "to", "remove", "auth", "nil", "true", "false", "init", "include", "guard", "pub", "priv", "static", "native",
	"(", ")", "{", "}", "[", "]", "<", ">", "<-", "<-!", "<->", "->", "=", "==", "!=", "<=", ">=", "<<", ">>", "+", "-", "*", "/", "%",
	"&", "&&", "|", "||", "^", "?", "??", "?.", "!", ".", ",", ":", ";", "@", "#", "\\", "\\(", "\"", "\"a\"", "\"\\(", "/*", "*/", "//", "\n",
	"x", "y", "Int", "R", "0", "1", "0x", "0b", "0o", "0z1", "1.", "1.0", "1_", "_1", ".5", "é", "\xff", "\xc3", "\xe2\x82", "\x00", "\u2028", "\ufeff", "\r", "\t", "'", "`", "$", "~",
}

// MutateTokens applies 1..3 token-level mutations and returns the new token list and the mutation names.
func MutateTokens(r *rand.Rand, in []Tok) ([]Tok, []string) {
	toks := append([]Tok(nil), in...)
	var names []string
	for k := 1 + r.Intn(3); k > 0; k-- {
		if len(toks) == 0 {
			toks = append(toks, Tok{S: vocab[r.Intn(len(vocab))]})
			names = append(names, "tok-insert")
			continue
		}
		i := r.Intn(len(toks))
		switch r.Intn(6) {
		case 0:
			names = append(names, "tok-delete")
			toks = append(toks[:i], toks[i+1:]...)
		case 1:
			names = append(names, "tok-duplicate")
			toks = append(toks[:i+1], toks[i:]...)
		case 2:
			names = append(names, "tok-swap")
			j := r.Intn(len(toks))
			toks[i], toks[j] = toks[j], toks[i]
		case 3:
			names = append(names, "tok-replace")
			toks[i].S = vocab[r.Intn(len(vocab))]
		case 4:
			names = append(names, "tok-glue")
			toks[i].Glue = Glue(r.Intn(5))
		default:
			names = append(names, "tok-insert")
			t := Tok{S: vocab[r.Intn(len(vocab))], Glue: Glue(r.Intn(3))}
			toks = append(toks[:i], append([]Tok{t}, toks[i:]...)...)
		}
	}
	return toks, names
}

var invalidUTF8 = []string{"\xff", "\xfe", "\xc3", "\xc0\x80", "\xe2\x82", "\xed\xa0\x80", "\xf4\x90\x80\x80", "\xf0\x9f", "\x80", "\xbf\xbf", "\xc3\x28"}
var multiByte = []string{"é", "ß", "日本", "😀", "\u2028", "\ufeff", "\u0301", "𝛼", "\u00a0", "\u0085"}

// MutateBytes applies 1..3 byte-level mutations.
func MutateBytes(r *rand.Rand, in []byte) ([]byte, []string) {
	b := append([]byte(nil), in...)
	var names []string
	for k := 1 + r.Intn(3); k > 0; k-- {
		pos := 0
		if len(b) > 0 {
			pos = r.Intn(len(b) + 1)
		}
		ins := func(s string) {
			b = append(b[:pos], append([]byte(s), b[pos:]...)...)
		}
		switch r.Intn(12) {
		case 0:
			names = append(names, "truncate")
			b = b[:pos]
		case 1:
			names = append(names, "invalid-utf8")
			ins(invalidUTF8[r.Intn(len(invalidUTF8))])
		case 2:
			names = append(names, "multibyte")
			ins(multiByte[r.Intn(len(multiByte))])
		case 3:
			names = append(names, "bracket")
			ins(string("(){}[]<>\"\\"[r.Intn(10)]))
		case 4:
			names = append(names, "delete-range")
			end := pos + r.Intn(8)
			if end > len(b) {
				end = len(b)
			}
			b = append(b[:pos], b[end:]...)
		case 5:
			names = append(names, "duplicate-range")
			end := pos + r.Intn(24)
			if end > len(b) {
				end = len(b)
			}
			ins(string(b[pos:end]))
		case 6:
			names = append(names, "flip-byte")
			if pos < len(b) {
				b[pos] ^= byte(1 << uint(r.Intn(8)))
			}
		case 7:
			names = append(names, "insert-vocab")
			ins(vocab[r.Intn(len(vocab))])
		case 8:
			names = append(names, "comment-open")
			ins([]string{"/*", "*/", "//", "/* /*", "*/ */", "/**/"}[r.Intn(6)])
		case 9:
			names = append(names, "template")
			ins([]string{"\"\\(", "\\(", "\"\\(x)\"", "\"\\(\"\\(y)\")\"", "\")", "\\"}[r.Intn(6)])
		case 10:
			names = append(names, "newline")
			ins([]string{"\n", "\r\n", "\r", "\n\n"}[r.Intn(4)])
		default:
			names = append(names, "random-byte")
			ins(string([]byte{byte(r.Intn(256))}))
		}
	}
	return b, names
}

// Nasty produces stress inputs: deep nesting around the parser's depth limits, huge literals,
// unterminated constructs, nested comments and templates.
func Nasty(r *rand.Rand) (string, string) {
	// depths around the limits (expression/type depth limit 16), and much deeper
	depths := []int{1, 2, 7, 8, 14, 15, 16, 17, 18, 31, 32, 33, 64, 200, 1000, 5000}
	d := depths[r.Intn(len(depths))]
	rep := strings.Repeat
	switch r.Intn(22) {
	case 0:
		return "let x = " + rep("(", d) + "1" + rep(")", d), "deep-parens"
	case 1:
		return "let x = " + rep("[", d) + "1" + rep("]", d), "deep-array-literal"
	case 2:
		return "let x: " + rep("[", d) + "Int" + rep("]", d) + " = y", "deep-array-type"
	case 3:
		return "let x: " + rep("{String: ", d) + "Int" + rep("}", d) + " = y", "deep-dictionary-type"
	case 4:
		return "let x: Int" + rep("?", d) + " = y", "deep-optional-type"
	case 5:
		return "let x: " + rep("&", d) + "Int = y", "deep-reference-type"
	case 6:
		return "fun f() { " + rep("if a { ", d) + rep("} ", d) + "}", "deep-blocks"
	case 7:
		return "let x = " + rep("-", d) + "y", "deep-unary-minus"
	case 8:
		return "let x = " + rep("!", d) + "y", "deep-unary-not"
	case 9:
		return "let x = y" + rep("!", d), "deep-force"
	case 10:
		return "let x = a" + rep(" + a", d), "long-binary-chain"
	case 11:
		return "let x = a" + rep(" ?? a", d), "long-right-assoc-chain"
	case 12:
		return "let x = " + rep("a ? ", d) + "b" + rep(" : c", d), "deep-conditional"
	case 13:
		return rep("/* ", d) + "x" + rep(" */", d) + " let y = 1", "deep-comment"
	case 14:
		return rep("/* ", d) + "x" + rep(" */", d-1), "unterminated-deep-comment"
	case 15:
		return "let x = " + rep("1", d*10), "huge-integer"
	case 16:
		return "let x = 0x" + rep("f", d*10) + " + 1." + rep("0", d*10) + "1", "huge-hex-fixed"
	case 17:
		return "let " + rep("a", d*10) + " = \"" + rep("é", d*10) + "\"", "long-identifier-string"
	case 18:
		return "let x = " + rep("\"\\(", d) + "y" + rep(")\"", d), "deep-template"
	case 19:
		return "let x = f" + rep("(g", d) + rep(")", d), "deep-calls"
	case 20:
		return "let x = a" + rep(".b", d) + rep("[0]", d), "long-postfix-chain"
	default:
		return "let x: " + rep("fun(", d) + "Int" + rep("): Int", d) + " = y", "deep-function-type"
	}
}

// RawBytes produces a random byte string biased to Cadence's alphabet.
func RawBytes(r *rand.Rand) []byte {
	n := r.Intn(40)
	var b []byte
	for i := 0; i < n; i++ {
		switch r.Intn(10) {
		case 0:
			b = append(b, byte(r.Intn(256)))
		case 1:
			b = append(b, ' ')
		case 2:
			b = append(b, multiByte[r.Intn(len(multiByte))]...)
		default:
			b = append(b, vocab[r.Intn(len(vocab))]...)
			if r.Intn(3) > 0 {
				b = append(b, ' ')
			}
		}
	}
	return b
}

// Harvest returns the back-quoted string literals of the *_test.go files in the given directories
// (sorted file order, source order inside a file) that look like Cadence snippets. Files are read-only.
func Harvest(dirs []string, maxLen int) []string {
	var files []string
	for _, d := range dirs {
		m, _ := filepath.Glob(filepath.Join(d, "*_test.go"))
		files = append(files, m...)
	}
	sort.Strings(files)
	var out []string
	seen := map[string]bool{}
	for _, f := range files {
		src, err := os.ReadFile(f)
		if err != nil {
			continue
		}
		fset := token.NewFileSet()
		file := fset.AddFile(f, fset.Base(), len(src))
		var s scanner.Scanner
		s.Init(file, src, func(token.Position, string) {}, 0)
		for {
			_, tok, lit := s.Scan()
			if tok == token.EOF {
				break
			}
			if tok != token.STRING || len(lit) < 2 || lit[0] != '`' {
				continue
			}
			body := lit[1 : len(lit)-1]
			if len(strings.TrimSpace(body)) < 6 || len(body) > maxLen || seen[body] {
				continue
			}
			seen[body] = true
			out = append(out, body)
		}
	}
	return out
}
