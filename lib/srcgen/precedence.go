package srcgen

import "fmt"

// BinaryOp describes a binary operator by the documented precedence level (higher binds tighter) and associativity.
type BinaryOp struct {
	Text       string
	Level      int
	RightAssoc bool
}

// BinaryOps lists every binary operator of the language (docs/language/operators: precedence table).
var BinaryOps = []BinaryOp{
	{"||", 1, false}, {"&&", 2, false},
	{"==", 3, false}, {"!=", 3, false}, {"<", 3, false}, {"<=", 3, false}, {">", 3, false}, {">=", 3, false},
	{"??", 4, true},
	{"|", 5, false}, {"^", 6, false}, {"&", 7, false}, {"<<", 8, false}, {">>", 8, false},
	{"+", 9, false}, {"-", 9, false}, {"*", 10, false}, {"/", 10, false}, {"%", 10, false},
}

// PrecCase is one systematically constructed expression: the parenthesised operand makes the intended tree explicit.
type PrecCase struct {
	Source string // `let v = …`
	// Class is "<assoc of the outer operator>/<side of the parenthesised operand>/<inner precedence relative to outer>"
	// for operator pairs, "mix/<kind>" for the cast/unary/force/conditional mixes.
	Class string
	// NeedsParens: the parentheses in Source change the tree (a printer that drops them changes the AST).
	NeedsParens bool
}

func rel(inner, outer BinaryOp) string {
	switch {
	case inner.Level < outer.Level:
		return "lower"
	case inner.Level > outer.Level:
		return "higher"
	}
	return "equal"
}

func assoc(op BinaryOp) string {
	if op.RightAssoc {
		return "right-assoc"
	}
	return "left-assoc"
}

// PrecedenceCases enumerates, for EVERY ordered pair of binary operators (including equal operators), both shapes
// `(x inner y) outer z` and `x outer (y inner z)`, plus the mixes of every binary operator with casts, unary operators,
// force unwrap, member access and the conditional operator, each in both nesting directions.
func PrecedenceCases() []PrecCase {
	var out []PrecCase
	add := func(expr, class string, needs bool) {
		out = append(out, PrecCase{Source: "let v = " + expr, Class: class, NeedsParens: needs})
	}
	for _, outer := range BinaryOps {
		for _, inner := range BinaryOps {
			r := rel(inner, outer)
			// parenthesised LEFT operand: needed when the inner operator binds less tightly, or equally under a
			// right-associative outer operator
			needL := inner.Level < outer.Level || inner.Level == outer.Level && outer.RightAssoc
			add(fmt.Sprintf("(x %s y) %s z", inner.Text, outer.Text), assoc(outer)+"/left/"+r, needL)
			// parenthesised RIGHT operand: needed when lower, or equal under a left-associative outer operator
			needR := inner.Level < outer.Level || inner.Level == outer.Level && !outer.RightAssoc
			add(fmt.Sprintf("x %s (y %s z)", outer.Text, inner.Text), assoc(outer)+"/right/"+r, needR)
		}
		o := outer.Text
		// three-level nests around a same-level pair (e.g. `a ?? ((b ?? c) ?? d)`)
		add(fmt.Sprintf("a %s ((b %s c) %s d)", o, o, o), "mix/nested-same-operator", true)
		add(fmt.Sprintf("((a %s b) %s c) %s d", o, o, o), "mix/nested-same-operator", outer.RightAssoc)
		// casts
		for _, c := range []string{"as", "as?", "as!"} {
			add(fmt.Sprintf("(x %s y) %s T", o, c), "mix/binary-under-cast", true)
			add(fmt.Sprintf("x %s (y %s T)", o, c), "mix/cast-under-binary-right", false)
			add(fmt.Sprintf("(x %s T) %s y", c, o), "mix/cast-under-binary-left", false)
		}
		// unary prefix operators, force unwrap, member access, invocation, index
		for _, u := range []string{"-", "!", "*"} {
			add(fmt.Sprintf("%s(x %s y)", u, o), "mix/binary-under-unary", true)
			add(fmt.Sprintf("(%sx) %s y", u, o), "mix/unary-under-binary-left", false)
			add(fmt.Sprintf("x %s (%sy)", o, u), "mix/unary-under-binary-right", false)
		}
		add(fmt.Sprintf("(x %s y)!", o), "mix/binary-under-force", true)
		add(fmt.Sprintf("x %s (y!)", o), "mix/force-under-binary", false)
		add(fmt.Sprintf("(x %s y).f", o), "mix/binary-under-member", true)
		add(fmt.Sprintf("(x %s y)?.f", o), "mix/binary-under-member", true)
		add(fmt.Sprintf("(x %s y)[0]", o), "mix/binary-under-index", true)
		add(fmt.Sprintf("(x %s y)(1)", o), "mix/binary-under-invocation", true)
		// conditional operator
		add(fmt.Sprintf("(c ? x : y) %s z", o), "mix/conditional-under-binary-left", true)
		add(fmt.Sprintf("x %s (c ? y : z)", o), "mix/conditional-under-binary-right", true)
		add(fmt.Sprintf("(x %s y) ? a : b", o), "mix/binary-under-conditional-test", false)
		add(fmt.Sprintf("c ? (x %s y) : z", o), "mix/binary-under-conditional-branch", false)
		add(fmt.Sprintf("c ? x : (y %s z)", o), "mix/binary-under-conditional-branch", false)
	}
	// mixes without a binary operator
	for _, c := range []string{"as", "as?", "as!"} {
		add(fmt.Sprintf("(x %s T) %s U", c, c), "mix/cast-under-cast", false)
		add(fmt.Sprintf("(-x) %s T", c), "mix/unary-under-cast", false)
		add(fmt.Sprintf("-(x %s T)", c), "mix/cast-under-unary", true)
		add(fmt.Sprintf("(x %s T)!", c), "mix/cast-under-force", true)
		add(fmt.Sprintf("(x %s T).f", c), "mix/cast-under-member", true)
		add(fmt.Sprintf("(c ? x : y) %s T", c), "mix/conditional-under-cast", true)
		add(fmt.Sprintf("c ? x : (y %s T)", c), "mix/cast-under-conditional", false)
	}
	add("(c ? x : y) ? a : b", "mix/conditional-under-conditional-test", true)
	add("c ? (d ? x : y) : z", "mix/conditional-under-conditional-branch", false)
	add("c ? x : (d ? y : z)", "mix/conditional-under-conditional-branch", false)
	add("(c ? x : y)!", "mix/conditional-under-force", true)
	add("(c ? x : y).f", "mix/conditional-under-member", true)
	add("-(c ? x : y)", "mix/conditional-under-unary", true)
	add("(-x)!", "mix/unary-under-force", true)
	add("-(x!)", "mix/force-under-unary", false)
	add("(-x).f", "mix/unary-under-member", true)
	add("(!x)[0]", "mix/unary-under-index", true)
	add("-(-x)", "mix/unary-under-unary", false)
	add("!(!x)", "mix/unary-under-unary", false)
	return out
}
