// Package srcgen generates Cadence *source text* from a grammar (DESIGN §3.6) for the
// syntax properties C37/C38/C39, renders it with randomised layout (whitespace,
// comments at token gaps, blank lines, semicolons) and mutates it (token and byte
// level). It imports nothing from cadence: it is written against the documented
// syntax, so a parser/printer change cannot blind it.
//
// A generated program is first a list of tokens with *glue* constraints (what may
// stand between a token and its predecessor); Render turns the list into text.
// Keeping the token list makes token-level mutation and comment injection at every
// gap class straightforward, and the generator records ground truth (the comments it
// injected, the feature labels it used) for the oracles.
package srcgen

import (
	"math/rand"
	"strings"
)

// Glue says what may stand between a token and the previous one.
type Glue uint8

const (
	// Free: any whitespace including newlines and comments (whitespace is inserted
	// when the two tokens would otherwise fuse).
	Free Glue = iota
	// SameLine: spaces and block comments without newlines only.
	SameLine
	// Tight: nothing at all.
	Tight
	// Sep: statement/member separator: rendered as a newline and/or a semicolon.
	Sep
	// SepLine: separator that must contain a newline (no semicolon allowed here).
	SepLine
)

// Tok is one token of a generated program.
type Tok struct {
	S    string
	Glue Glue
	// Gap classifies the gap before this token for the C39 evidence (set by the emitter
	// for the interesting places; "" elsewhere).
	Gap string
}

// ListClose marks (in Tok.Gap) the closing bracket of a non-empty argument list, parameter list, array literal or dictionary
// literal: the gap before it may carry several comments (the parser skips trivia there, unlike before the `)` of a
// parenthesised expression or the `]` of an index expression).
const ListClose = "list-close"

// Comment is a comment injected by Render.
type Comment struct {
	Text  string // full text including the delimiters
	Class string // gap class: leading, trailing, sameline, empty-list, between-args, before-else, after-return, eof, inline
}

// Layout controls Render.
type Layout struct {
	Comments     float64 // probability of a comment at an eligible gap
	Semicolons   float64 // probability that a separator carries a semicolon
	BlankLines   float64 // probability of extra blank lines at a separator
	Compact      float64 // probability of omitting optional spaces
	NonASCII     bool    // allow non-ASCII text in comments
	DocComments  bool    // allow /// and /** */ comments
	IndentSpaces int
	// MultiComments is the probability that an eligible gap (after a comma, before a closing bracket) receives
	// 2–3 comments in mixed forms instead of at most one.
	MultiComments float64
}

// Rendered is the result of Render.
type Rendered struct {
	Text     string
	Comments []Comment
	// MultiGaps counts, per gap class, the gaps that received two or more comments.
	MultiGaps map[string]int
}

func isWordByte(c byte) bool {
	return c == '_' || c >= '0' && c <= '9' || c >= 'a' && c <= 'z' || c >= 'A' && c <= 'Z'
}

// needSpace reports whether a and b would fuse (or change meaning) when adjacent.
func needSpace(a, b string) bool {
	if a == "" || b == "" {
		return false
	}
	x, y := a[len(a)-1], b[0]
	if isWordByte(x) && isWordByte(y) {
		return true
	}
	// number followed by '.', '.' followed by digit
	if x >= '0' && x <= '9' && y == '.' || x == '.' && y >= '0' && y <= '9' {
		return true
	}
	// operator fusion: be conservative — any two operator characters
	const ops = "+-*/%<>=!&|^?:.@#\\"
	if strings.IndexByte(ops, x) >= 0 && strings.IndexByte(ops, y) >= 0 {
		return true
	}
	// `as` followed by ? or ! would become as? / as!
	if (y == '?' || y == '!') && strings.HasSuffix(a, "as") {
		return true
	}
	return false
}

// optionalSpace reports whether the gap a|b may be rendered without any whitespace.
func optionalSpace(a, b string) bool {
	if needSpace(a, b) {
		return false
	}
	switch b {
	case ",", ")", "]", ";", ":", "(", "[":
		return true
	}
	switch a {
	case "(", "[", "&", "@":
		return true
	}
	return false
}

var commentWords = []string{"note", "TODO", "let x = 1", "fun", "\"quoted\"", "it's", "a/b", "*", "//", "x <- y", "{", "}", "(", "\\(", "é", "日本語", "ß", "𝛼", " ", "if else", "return"}

func commentBody(r *rand.Rand, nonASCII bool) string {
	n := r.Intn(4)
	var parts []string
	for i := 0; i < n; i++ {
		w := commentWords[r.Intn(len(commentWords))]
		if !nonASCII {
			ascii := true
			for j := 0; j < len(w); j++ {
				if w[j] >= 0x80 {
					ascii = false
				}
			}
			if !ascii {
				w = "w"
			}
		}
		parts = append(parts, w)
	}
	return strings.Join(parts, " ")
}

// lineComment returns a `//` comment (without the newline).
func lineComment(r *rand.Rand, l Layout) string {
	body := commentBody(r, l.NonASCII)
	body = strings.ReplaceAll(body, "\n", " ")
	prefix := "//"
	if l.DocComments && r.Intn(6) == 0 {
		prefix = "///"
	}
	if body == "" {
		return prefix
	}
	return prefix + " " + body
}

// blockComment returns a /* */ comment; multi-line and nested with some probability.
func blockComment(r *rand.Rand, l Layout, allowNewline bool) string {
	body := commentBody(r, l.NonASCII)
	// the body must not contain comment delimiters by accident
	body = strings.ReplaceAll(body, "*/", "* /")
	body = strings.ReplaceAll(body, "/*", "/ *")
	body = strings.ReplaceAll(body, "//", "/ /")
	if strings.HasSuffix(body, "*") || strings.HasSuffix(body, "/") {
		body += " "
	}
	if strings.HasPrefix(body, "*") || strings.HasPrefix(body, "/") {
		body = " " + body
	}
	open := "/*"
	if l.DocComments && r.Intn(8) == 0 {
		open = "/**"
		if body == "" {
			body = " d "
		}
	}
	switch {
	case r.Intn(5) == 0:
		// nested
		inner := "/* " + strings.ReplaceAll(commentBody(r, l.NonASCII), "/", "-") + " */"
		inner = strings.ReplaceAll(inner, "**", "* *")
		body = body + " " + inner + " t"
	case allowNewline && r.Intn(5) == 0:
		body = body + "\n  more " + "\n"
	}
	if strings.HasPrefix(body, "/") {
		body = " " + body
	}
	return open + body + "*/"
}

// Render lays the tokens out. The same token list and the same rand state give the same text.
func Render(toks []Tok, r *rand.Rand, l Layout) Rendered {
	var sb strings.Builder
	var out Rendered
	out.MultiGaps = map[string]int{}
	depth := 0
	indentUnit := strings.Repeat(" ", l.IndentSpaces)
	atLineStart := true
	writeIndent := func() {
		if r.Float64() < 0.9 {
			for i := 0; i < depth; i++ {
				sb.WriteString(indentUnit)
			}
		} else if r.Intn(2) == 0 {
			sb.WriteByte('\t')
		}
	}
	newline := func() {
		sb.WriteByte('\n')
		atLineStart = true
	}
	addComment := func(text, class string) {
		out.Comments = append(out.Comments, Comment{Text: text, Class: class})
		sb.WriteString(text)
		atLineStart = false
	}
	prev := ""
	for i, t := range toks {
		if t.S == "}" && depth > 0 {
			depth--
		}
		gapClass := t.Gap
		if gapClass == "" || gapClass == ListClose {
			switch {
			case (prev == "(" && t.S == ")") || (prev == "[" && t.S == "]") || (prev == "{" && t.S == "}"):
				gapClass = "empty-list"
			case prev == ",":
				gapClass = "between-args"
			case t.S == "else":
				gapClass = "before-else"
			case prev == "return":
				gapClass = "after-return"
			case prev == "{":
				gapClass = "after-open-brace"
			default:
				gapClass = "inline"
			}
		}
		// comments are more frequent between statements/members than inside expressions
		prob := l.Comments * 0.35
		if t.Glue == Sep || t.Glue == SepLine {
			prob = l.Comments * 2.5
		}
		wantComment := i > 0 && l.Comments > 0 && r.Float64() < prob
		switch t.Glue {
		case Tight:
			// nothing
		case SameLine:
			sp := needSpace(prev, t.S) || !(optionalSpace(prev, t.S) && r.Float64() < l.Compact)
			if wantComment && gapClass != "after-return" {
				if sp || needSpace(prev, "/") {
					sb.WriteByte(' ')
				}
				addComment(blockComment(r, l, false), gapClass)
				sb.WriteByte(' ')
			} else if sp {
				sb.WriteByte(' ')
			}
		case Sep, SepLine:
			semi := t.Glue == Sep && r.Float64() < l.Semicolons
			if semi {
				if r.Intn(4) == 0 {
					sb.WriteByte(' ')
				}
				sb.WriteByte(';')
				atLineStart = false
			}
			nl := t.Glue == SepLine || !semi || r.Intn(3) > 0
			trailed, multiSep := false, false
			if wantComment && nl && r.Intn(2) == 0 {
				trailed = true
				// trailing comment on the line of the previous token
				sb.WriteByte(' ')
				if r.Intn(2) == 0 {
					addComment(lineComment(r, l), "trailing")
				} else {
					addComment(blockComment(r, l, false), "trailing")
				}
				wantComment = false
			}
			if nl {
				newline()
				if r.Float64() < l.BlankLines {
					for k := r.Intn(3); k >= 0; k-- {
						newline()
					}
				}
				if (wantComment || trailed) && l.MultiComments > 0 && r.Float64() < l.MultiComments*2 {
					wantComment = true
					multiSep = true
				}
				if wantComment {
					// leading comment(s) on their own line
					nlead := r.Intn(2)
					if multiSep && !trailed && nlead == 0 {
						nlead = 1
					}
					if trailed || nlead > 0 {
						out.MultiGaps["multi/separator"]++
					}
					for k := nlead; k >= 0; k-- {
						writeIndent()
						if r.Intn(2) == 0 {
							addComment(lineComment(r, l), "leading")
						} else {
							addComment(blockComment(r, l, true), "leading")
						}
						newline()
						if r.Float64() < l.BlankLines/2 {
							newline()
						}
					}
				}
				writeIndent()
				atLineStart = false
			} else {
				sb.WriteByte(' ')
			}
		default: // Free
			if i == 0 {
				break
			}
			// several comments in one gap, in mixed forms: after the last element of an argument/parameter list or an
			// array/dictionary literal (before the closing bracket) and after a comma
			multiClass := ""
			switch {
			case t.S == ")" && t.Gap == ListClose:
				multiClass = "multi/before-close-paren"
			case t.S == "]" && t.Gap == ListClose:
				multiClass = "multi/before-close-bracket"
			case t.S == "}" && t.Gap == ListClose:
				multiClass = "multi/before-close-brace"
			case prev == ",":
				multiClass = "multi/after-comma"
			}
			if multiClass != "" && l.MultiComments > 0 && r.Float64() < l.MultiComments {
				switch r.Intn(4) {
				case 0: // same-line `//`, then own-line `//` (one or two)
					sb.WriteByte(' ')
					addComment(lineComment(r, l), multiClass)
					for k := r.Intn(2); k >= 0; k-- {
						newline()
						writeIndent()
						addComment(lineComment(r, l), multiClass)
					}
					newline()
					writeIndent()
				case 1: // block comment followed by a line comment on the same line
					sb.WriteByte(' ')
					addComment(blockComment(r, l, false), multiClass)
					sb.WriteByte(' ')
					addComment(lineComment(r, l), multiClass)
					newline()
					writeIndent()
				case 2: // line comment, then a block comment on the next line
					sb.WriteByte(' ')
					addComment(lineComment(r, l), multiClass)
					newline()
					writeIndent()
					addComment(blockComment(r, l, true), multiClass)
					if r.Intn(2) == 0 {
						newline()
						writeIndent()
					}
				default: // same-line block comment, then own-line line and block comments
					sb.WriteByte(' ')
					addComment(blockComment(r, l, false), multiClass)
					newline()
					writeIndent()
					addComment(lineComment(r, l), multiClass)
					newline()
					writeIndent()
					if r.Intn(2) == 0 {
						addComment(blockComment(r, l, false), multiClass)
						sb.WriteByte(' ')
					}
				}
				sb.WriteByte(' ')
				atLineStart = false
				out.MultiGaps[multiClass]++
				break
			}
			choice := r.Intn(10)
			switch {
			case wantComment && choice < 5:
				// comment on the same line, continue on the same line
				sb.WriteByte(' ')
				addComment(blockComment(r, l, true), gapClass)
				sb.WriteByte(' ')
			case wantComment && choice < 8:
				// line comment, then new line
				sb.WriteByte(' ')
				addComment(lineComment(r, l), gapClass)
				newline()
				writeIndent()
				sb.WriteByte(' ')
				atLineStart = false
			case wantComment && (prev == "{" || prev == "(" || prev == "[" || prev == ","):
				// comment on its own line. Only after an opening token or a comma: the parser does not
				// skip a comment that follows a newline *after* a complete sub-expression (it ends the
				// expression there), so such layouts are not valid inside expressions.
				newline()
				writeIndent()
				if r.Intn(2) == 0 {
					addComment(blockComment(r, l, true), gapClass)
				} else {
					addComment(lineComment(r, l), gapClass)
				}
				newline()
				writeIndent()
				sb.WriteByte(' ')
				atLineStart = false
			case wantComment:
				sb.WriteByte(' ')
				addComment(blockComment(r, l, false), gapClass)
				sb.WriteByte(' ')
			case prev == "{" || t.S == "}":
				// block structure: usually a line break
				if r.Intn(8) > 0 {
					newline()
					writeIndent()
					atLineStart = false
				} else if needSpace(prev, t.S) || r.Float64() >= l.Compact {
					sb.WriteByte(' ')
				}
			case choice == 0 && r.Float64() < 0.3:
				newline()
				writeIndent()
				sb.WriteByte(' ')
				atLineStart = false
			default:
				if needSpace(prev, t.S) || !(optionalSpace(prev, t.S) && r.Float64() < 0.6+l.Compact) {
					sb.WriteByte(' ')
					if choice == 1 && r.Intn(4) == 0 {
						sb.WriteByte(' ')
					}
				}
			}
		}
		sb.WriteString(t.S)
		atLineStart = false
		if t.S == "{" {
			depth++
		}
		prev = t.S
	}
	_ = atLineStart
	// end of file
	if l.Comments > 0 && r.Float64() < l.Comments {
		sb.WriteByte('\n')
		if r.Intn(2) == 0 {
			c := lineComment(r, l)
			out.Comments = append(out.Comments, Comment{Text: c, Class: "eof"})
			sb.WriteString(c)
		} else {
			c := blockComment(r, l, true)
			out.Comments = append(out.Comments, Comment{Text: c, Class: "eof"})
			sb.WriteString(c)
		}
	}
	if r.Intn(3) > 0 {
		sb.WriteByte('\n')
	}
	out.Text = sb.String()
	return out
}

// Join renders tokens in the plainest way (single spaces, newlines at separators):
// used by mutators and for replay-friendly minimal text.
func Join(toks []Tok) string {
	var sb strings.Builder
	prev := ""
	for i, t := range toks {
		switch t.Glue {
		case Tight:
		case Sep, SepLine:
			sb.WriteByte('\n')
		default:
			if i > 0 && !(optionalSpace(prev, t.S) && (t.S == "," || t.S == ")" || t.S == "]" || t.S == "(" || prev == "(" || prev == "[")) {
				sb.WriteByte(' ')
			}
		}
		sb.WriteString(t.S)
		prev = t.S
	}
	sb.WriteByte('\n')
	return sb.String()
}
