package storgen

// C20: arrays and dictionaries against slice / map models. A ContHistory keeps one
// variable-sized array [E], one constant-sized array [E; 8] and one dictionary
// {K: E} in the storage of account 0x1 and applies long operation sequences to
// them, grouped into transactions (commit + reload at every boundary) and scripts
// (effects discarded), either in place through storage references or on the
// loaded value that is saved back at the end ("local" mode). Bulk operations
// (appendAll/concat/insertMany with up to 400 elements, bulk removal) cross the
// atree slab split/merge thresholds. ContModel predicts every logged observable
// and the digests of the committed containers.

import (
	"fmt"
	"math/big"
	"sort"
	"strings"

	"verif/lib/prog"
)

// Element types.
const (
	EInt = iota
	EStr
	EStruct // struct P with a nested array
	EArr    // [Int]
	NElem
)

// Key types.
const (
	KeyInt = iota
	KeyStr
)

const ConstLen = 8
const contMod = 1000000007

var elemType = [NElem]string{"Int", "String", "D.P", "[Int]"}
var elemTypeInContract = [NElem]string{"Int", "String", "P", "[Int]"}

// ElemName is the printable name of an element type.
var ElemName = [NElem]string{"Int", "String", "struct", "[Int]"}

func keyType(k int) string {
	if k == KeyInt {
		return "Int"
	}
	return "String"
}

// elemPrimitive: indexing through a reference yields a value (not a reference).
func elemPrimitive(e int) bool { return e == EInt || e == EStr }

func elemEquatable(e int) bool { return e != EStruct }

// ContContract returns the source of contract D for element type e and key type k.
func ContContract(e, k int) string {
	E := elemTypeInContract[e]
	K := keyType(k)
	var mk, d, refT, dr, key, kd string
	switch e {
	case EInt:
		// every 13th Int is huge (8000+ bits): a scalar that cannot be inlined and lives in its own slab
		mk = "if n % 13 == 0 && n > 0 { return D.big() * n + n }; return n"
		d = "return x % 1000003"
		refT, dr = "Int", "return x % 1000003"
	case EStr:
		mk = "return D.str(n, D.slen(n))"
		d = "return D.ds(x)"
		refT, dr = "String", "return D.ds(x)"
	case EStruct:
		mk = "return P(n)"
		d = "return x.n * 31 + D.da(x.xs)"
		refT, dr = "&P", "return x.n * 31 + D.da(*x.xs)"
	case EArr:
		mk = "return D.range(n, D.alen(n))"
		d = "return D.da(x)"
		refT, dr = "&[Int]", "return D.da(*x)"
	}
	// every 17th key is not inlinable either (huge Int / 300-byte String)
	if k == KeyInt {
		key = "if k % 17 == 0 && k > 0 { return D.big() * k + k }; return k"
		kd = "return k % 1000003"
	} else {
		key = `if k % 17 == 0 && k > 0 { return D.str(0, 300).concat("k").concat(k.toString()) }; return "k".concat(k.toString())`
		kd = "var b = 1; if k.length > 100 { b = 301 }; return Int.fromString(k.slice(from: b, upTo: k.length))!"
	}
	r := strings.NewReplacer("KEYBODY", key, "KDBODY", kd, "MKBODY", mk, "DRBODY", dr, "DBODY", d, "REFT", refT, "ELEM", E, "KEY", K)
	return r.Replace(`access(all) contract D {
  access(all) struct P {
    access(all) let n: Int
    access(all) let xs: [Int]
    init(_ n: Int) { self.n = n; self.xs = D.range(n, n % 5) }
  }
  access(all) fun range(_ from: Int, _ n: Int): [Int] {
    var r: [Int] = []
    var i = 0
    while i < n { r.append(from + i); i = i + 1 }
    return r
  }
  access(all) fun str(_ k: Int, _ n: Int): String {
    var s = "s".concat(k.toString())
    while s.length * 2 <= n { s = s.concat(s) }
    while s.length < n { s = s.concat("x") }
    return s
  }
  access(all) fun slen(_ n: Int): Int {
    if n % 7 == 0 { return 600 }
    if n % 3 == 0 { return 200 }
    return 2 + n % 4
  }
  access(all) fun alen(_ n: Int): Int {
    if n % 11 == 0 { return 130 }
    return n % 6
  }
  access(all) view fun da(_ a: [Int]): Int {
    var sum = 0
    for e in a { sum = sum + e }
    return a.length * 1009 + sum
  }
  access(all) view fun ds(_ s: String): Int {
    var h = s.length * 1000
    var m = s.length
    if m > 8 { m = 8 }
    let b = s.slice(from: 0, upTo: m).utf8
    var i = 0
    while i < b.length { h = h + (i + 1) * Int(b[i]); i = i + 1 }
    return h
  }
  access(all) fun fail(_ m: String) { panic(m) }
  access(all) fun big(): Int {
    var h = 1
    var i = 0
    while i < 125 { h = h * 18446744073709551616; i = i + 1 }
    return h
  }
  access(all) fun echo(_ a: [ELEM]): [ELEM] { return a }
  access(all) fun echoC(_ a: [ELEM; 8]): [ELEM; 8] { return a }
  access(all) fun echoD(_ m: {KEY: ELEM}): {KEY: ELEM} { return m }
  access(all) fun mk(_ n: Int): ELEM { MKBODY }
  access(all) fun mkMany(_ from: Int, _ count: Int): [ELEM] {
    var r: [ELEM] = []
    var i = 0
    while i < count { r.append(D.mk(from + i)); i = i + 1 }
    return r
  }
  access(all) view fun d(_ x: ELEM): Int { DBODY }
  access(all) fun dr(_ x: REFT): Int { DRBODY }
  access(all) fun key(_ k: Int): KEY { KEYBODY }
  access(all) fun kd(_ k: KEY): Int { KDBODY }
  // element digests through references
  access(all) fun at(_ a: &[ELEM], _ i: Int): Int { return D.dr(a[i]) }
  access(all) fun atc(_ a: &[ELEM; 8], _ i: Int): Int { return D.dr(a[i]) }
  access(all) fun atd(_ m: &{KEY: ELEM}, _ k: KEY): Int? {
    if let x = m[k] { return D.dr(x) }
    return nil
  }
  // sequence digests: "length:hash"
  access(all) fun hr(_ a: &[ELEM]): String {
    var h = 7
    var i = 0
    while i < a.length { h = (h * 131 + D.dr(a[i])) % 1000000007; i = i + 1 }
    return a.length.toString().concat(":").concat(h.toString())
  }
  access(all) fun hc(_ a: &[ELEM; 8]): String {
    var h = 7
    var i = 0
    while i < a.length { h = (h * 131 + D.dr(a[i])) % 1000000007; i = i + 1 }
    return a.length.toString().concat(":").concat(h.toString())
  }
  access(all) fun hi(_ a: [Int]): String {
    var h = 7
    for x in a { h = (h * 131 + x) % 1000000007 }
    return a.length.toString().concat(":").concat(h.toString())
  }
  access(all) fun entry(_ k: KEY, _ v: Int): Int { return ((D.kd(k) + 1) * 7919 + v) % 1000000007 }
  // dictionary digest, order independent: "count:sum"; all four enumeration forms must agree
  access(all) fun hd(_ m: &{KEY: ELEM}): String {
    var sum = 0
    for k in m.keys { sum = (sum + D.entry(k, D.atd(m, k)!)) % 1000000007 }
    return m.length.toString().concat(":").concat(sum.toString())
  }
  access(all) fun pad(_ m: Int): Int { return m }
}`)
}

// ---- Go mirror of the contract's value/digest functions -----------------------

func contStrLen(n int) int {
	l := 2 + n%4
	if n%7 == 0 {
		l = 600
	} else if n%3 == 0 {
		l = 200
	}
	return l
}

func contStr(n int) string {
	s := fmt.Sprintf("s%d", n)
	l := contStrLen(n)
	for len(s)*2 <= l {
		s += s
	}
	for len(s) < l {
		s += "x"
	}
	return s
}

func contArrLen(n int) int {
	if n%11 == 0 {
		return 130
	}
	return n % 6
}

// bigModP is 2^8000 mod 1000003 (D.big() reduced by the Int digest modulus).
var bigModP = func() int64 {
	b := new(big.Int).Exp(big.NewInt(2), big.NewInt(8000), big.NewInt(1000003))
	return b.Int64()
}()

func daInts(from, n int) int { return n*1009 + n*from + n*(n-1)/2 }

// ElemDigest mirrors D.d(D.mk(n)).
func ElemDigest(e, n int) int {
	switch e {
	case EInt:
		if n%13 == 0 && n > 0 {
			return int((bigModP*int64(n) + int64(n)) % 1000003)
		}
		return n % 1000003
	case EStr:
		// D.str: "s<n>" doubled while it fits, then padded with 'x'; only length and the first 8 bytes count
		base := fmt.Sprintf("s%d", n)
		l := max(len(base), contStrLen(n))
		d := len(base)
		for d*2 <= l {
			d *= 2
		}
		h := l * 1000
		for i := 0; i < 8 && i < l; i++ {
			c := byte('x')
			if i < d {
				c = base[i%len(base)]
			}
			h += (i + 1) * int(c)
		}
		return h
	case EStruct:
		return n*31 + daInts(n, n%5)
	default:
		return daInts(n, contArrLen(n))
	}
}

// elemEqual mirrors Cadence equality of D.mk(a) and D.mk(b) (digests may collide, values do not).
func elemEqual(e, a, b int) bool {
	if a == b {
		return true
	}
	return e == EArr && contArrLen(a) == 0 && contArrLen(b) == 0
}

// elemBig: the element is stored outside its parent slab.
func elemBig(e, n int) bool {
	switch e {
	case EInt:
		return n%13 == 0 && n > 0
	case EStr:
		return contStrLen(n) >= 600
	case EArr:
		return contArrLen(n) >= bigLen
	}
	return false
}

func seqDigest(ds []int) string {
	h := 7
	for _, d := range ds {
		h = (h*131 + d) % contMod
		if h < 0 {
			h += contMod
		}
	}
	return fmt.Sprintf("%d:%d", len(ds), h)
}

// ---- operations ---------------------------------------------------------------

// ContOp is one operation on the variable array ("va"), the constant array ("ca") or the dictionary ("d").
type ContOp struct {
	On   string `json:"on"`
	Kind string `json:"kind"`
	I    int    `json:"i,omitempty"`   // index / key / from
	J    int    `json:"j,omitempty"`   // upTo / count / stop
	N    int    `json:"n,omitempty"`   // element seed
	M    int    `json:"m,omitempty"`   // closure parameter (modulus / addend)
	R    int    `json:"r,omitempty"`   // closure parameter (remainder / factor)
	Mode int    `json:"mode,omitempty"` // bulk removal mode
}

func (o ContOp) String() string {
	return fmt.Sprintf("%s.%s(i=%d j=%d n=%d m=%d r=%d)", o.On, o.Kind, o.I, o.J, o.N, o.M, o.R)
}

type ContExec struct {
	Script bool     `json:"script,omitempty"`
	Local  bool     `json:"local,omitempty"` // operate on loaded values and save them back (else: in place through references)
	Ops    []ContOp `json:"ops"`
	Inject *Inject  `json:"inject,omitempty"`
}

type ContHistory struct {
	Elem  int        `json:"elem"`
	Key   int        `json:"key"`
	Execs []ContExec `json:"execs"`
}

// ContState is the model state: elements are represented by their seeds.
type ContState struct {
	VA []int
	CA [ConstLen]int
	D  map[int]int
}

func (s *ContState) clone() *ContState {
	c := &ContState{VA: append([]int(nil), s.VA...), CA: s.CA, D: map[int]int{}}
	for k, v := range s.D {
		c.D[k] = v
	}
	return c
}

type ContModel struct {
	Elem, Key int
	S         *ContState
}

func NewContModel(e, k int) *ContModel {
	s := &ContState{D: map[int]int{}}
	for i := range s.CA {
		s.CA[i] = i + 1
	}
	return &ContModel{Elem: e, Key: k, S: s}
}

func (m *ContModel) digests(seeds []int) []int {
	out := make([]int, len(seeds))
	for i, n := range seeds {
		out[i] = ElemDigest(m.Elem, n)
	}
	return out
}

func (m *ContModel) dictDigest(d map[int]int) string {
	sum := 0
	for k, n := range d {
		kd := k // D.kd(D.key(k))
		if m.Key == KeyInt {
			// huge keys (every 17th) are reduced modulo 1000003 like huge Int elements
			if k%17 != 0 || k == 0 {
				kd = k % 1000003
			} else {
				kd = int((bigModP*int64(k) + int64(k)) % 1000003)
			}
		}
		sum = (sum + ((kd+1)*7919+ElemDigest(m.Elem, n))%contMod) % contMod
	}
	return fmt.Sprintf("%d:%d", len(d), sum)
}

// VerifyExpect is what the verification script must return.
func (m *ContModel) VerifyExpect() []string {
	return []string{seqDigest(m.digests(m.S.VA)), seqDigest(m.digests(m.S.CA[:])), m.dictDigest(m.S.D)}
}

// ContFacts of one execution.
type ContFacts struct {
	BadIndex   bool // an operation used an invalid index / key-less removal and failed
	MaxLen     int
	GrewBy     int // elements added by a single bulk operation (≥ 60 crosses a slab split for every element type)
	ShrankBy   int
	RemovedBig bool
}

// ContExpect is the prediction for one execution.
type ContExpect struct {
	Logs    []string
	Fail    string // "", "index", "inject"
	ErrType string
	Commits bool
	Facts   ContFacts
}

func keepIf(d, m, r int) bool { return ((d%m)+m)%m == r }

// apply executes one operation on the state; fail != "" when the operation aborts the execution.
func (m *ContModel) apply(i int, o ContOp, x *ContExpect) (fail string) {
	s := m.S
	log := func(f string, args ...any) { x.Logs = append(x.Logs, fmt.Sprintf("%d:", i)+fmt.Sprintf(f, args...)) }
	dig := func(n int) int { return ElemDigest(m.Elem, n) }
	bad := func() string { x.Facts.BadIndex = true; return "index" }
	switch o.On {
	case "va":
		n := len(s.VA)
		switch o.Kind {
		case "append":
			s.VA = append(s.VA, o.N)
			log("ok")
		case "appendAll":
			for k := 0; k < o.J; k++ {
				s.VA = append(s.VA, o.I+k)
			}
			x.Facts.GrewBy = max(x.Facts.GrewBy, o.J)
			log("ok")
		case "insert":
			if o.I < 0 || o.I > n {
				return bad()
			}
			s.VA = append(s.VA[:o.I:o.I], append([]int{o.N}, s.VA[o.I:]...)...)
			log("ok")
		case "remove":
			if o.I < 0 || o.I >= n {
				return bad()
			}
			log("%d", dig(s.VA[o.I]))
			x.Facts.RemovedBig = x.Facts.RemovedBig || elemBig(m.Elem, s.VA[o.I])
			s.VA = append(s.VA[:o.I:o.I], s.VA[o.I+1:]...)
		case "removeFirst":
			if n == 0 {
				return bad()
			}
			log("%d", dig(s.VA[0]))
			s.VA = s.VA[1:]
		case "removeLast":
			if n == 0 {
				return bad()
			}
			log("%d", dig(s.VA[n-1]))
			s.VA = s.VA[:n-1]
		case "dropMany":
			cnt := 0
			for k := 0; k < o.J && len(s.VA) > 0; k++ {
				x.Facts.RemovedBig = x.Facts.RemovedBig || elemBig(m.Elem, s.VA[len(s.VA)/2])
				s.VA = dropInts(s.VA, 1, o.Mode)
				cnt++
			}
			x.Facts.ShrankBy = max(x.Facts.ShrankBy, cnt)
			log("%d", len(s.VA))
		case "get":
			if o.I < 0 || o.I >= n {
				return bad()
			}
			log("%d", dig(s.VA[o.I]))
		case "set":
			if o.I < 0 || o.I >= n {
				return bad()
			}
			x.Facts.RemovedBig = x.Facts.RemovedBig || elemBig(m.Elem, s.VA[o.I])
			s.VA[o.I] = o.N
			log("ok")
		case "length":
			log("%d", n)
		case "slice":
			if o.I < 0 || o.J > n || o.I > o.J {
				return bad()
			}
			log("%s", seqDigest(m.digests(s.VA[o.I:o.J])))
		case "reverse":
			r := make([]int, n)
			for k, v := range s.VA {
				r[n-1-k] = v
			}
			log("%s", seqDigest(m.digests(r)))
		case "concat":
			r := append([]int(nil), s.VA...)
			for k := 0; k < o.J; k++ {
				r = append(r, o.I+k)
			}
			log("%s", seqDigest(m.digests(r)))
		case "concatAssign":
			for k := 0; k < o.J; k++ {
				s.VA = append(s.VA, o.I+k)
			}
			x.Facts.GrewBy = max(x.Facts.GrewBy, o.J)
			log("%d", len(s.VA))
		case "filter":
			var r []int
			for _, v := range s.VA {
				if keepIf(dig(v), o.M, o.R) {
					r = append(r, v)
				}
			}
			log("%s", seqDigest(m.digests(r)))
		case "filterAssign":
			var r []int
			for _, v := range s.VA {
				if keepIf(dig(v), o.M, o.R) {
					r = append(r, v)
				} else {
					x.Facts.RemovedBig = x.Facts.RemovedBig || elemBig(m.Elem, v)
				}
			}
			x.Facts.ShrankBy = max(x.Facts.ShrankBy, n-len(r))
			s.VA = r
			log("%d", len(s.VA))
		case "map":
			r := make([]int, n)
			for k, v := range s.VA {
				r[k] = dig(v)*o.R + o.M
			}
			log("%s", seqDigest(r))
		case "contains":
			found := false
			for _, v := range s.VA {
				found = found || elemEqual(m.Elem, v, o.N)
			}
			log("%v", found)
		case "firstIndex":
			idx := -1
			for k, v := range s.VA {
				if elemEqual(m.Elem, v, o.N) {
					idx = k
					break
				}
			}
			if idx < 0 {
				log("nil")
			} else {
				log("%d", idx)
			}
		case "toConstantSized":
			if n == ConstLen {
				log("%s", seqDigest(m.digests(s.VA)))
			} else {
				log("nil")
			}
		case "digest":
			log("%s", seqDigest(m.digests(s.VA)))
		case "copy":
			dd := seqDigest(m.digests(s.VA))
			log("%s %s", dd, dd)
		case "smallCopy":
			dd := seqDigest(m.digests([]int{o.N, o.N + 1}))
			log("%s %s", dd, dd)
		default:
			panic("bad va op " + o.Kind)
		}
		x.Facts.MaxLen = max(x.Facts.MaxLen, len(s.VA))
	case "ca":
		switch o.Kind {
		case "get":
			if o.I < 0 || o.I >= ConstLen {
				return bad()
			}
			log("%d", dig(s.CA[o.I]))
		case "set":
			if o.I < 0 || o.I >= ConstLen {
				return bad()
			}
			x.Facts.RemovedBig = x.Facts.RemovedBig || elemBig(m.Elem, s.CA[o.I])
			s.CA[o.I] = o.N
			log("ok")
		case "reverse":
			var r [ConstLen]int
			for k, v := range s.CA {
				r[ConstLen-1-k] = v
			}
			log("%s", seqDigest(m.digests(r[:])))
		case "contains":
			found := false
			for _, v := range s.CA {
				found = found || elemEqual(m.Elem, v, o.N)
			}
			log("%v", found)
		case "firstIndex":
			idx := -1
			for k, v := range s.CA {
				if elemEqual(m.Elem, v, o.N) {
					idx = k
					break
				}
			}
			if idx < 0 {
				log("nil")
			} else {
				log("%d", idx)
			}
		case "toVariableSized", "digest":
			log("%s", seqDigest(m.digests(s.CA[:])))
		case "copy":
			dd := seqDigest(m.digests(s.CA[:]))
			log("%s %s", dd, dd)
		case "map":
			r := make([]int, ConstLen)
			for k, v := range s.CA {
				r[k] = dig(v)*o.R + o.M
			}
			log("%s", seqDigest(r))
		case "filter":
			var r []int
			for _, v := range s.CA {
				if keepIf(dig(v), o.M, o.R) {
					r = append(r, v)
				}
			}
			log("%s", seqDigest(m.digests(r)))
		case "fromVariable":
			// ca = va.toConstantSized<[E; 8]>() ?? ca
			if len(s.VA) == ConstLen {
				copy(s.CA[:], s.VA)
				log("set")
			} else {
				log("nil")
			}
		default:
			panic("bad ca op " + o.Kind)
		}
	case "d":
		old, has := s.D[o.I]
		switch o.Kind {
		case "insert":
			if has {
				log("%d", dig(old))
				x.Facts.RemovedBig = x.Facts.RemovedBig || elemBig(m.Elem, old)
			} else {
				log("nil")
			}
			s.D[o.I] = o.N
		case "remove":
			if has {
				log("%d", dig(old))
				x.Facts.RemovedBig = x.Facts.RemovedBig || elemBig(m.Elem, old)
				delete(s.D, o.I)
			} else {
				log("nil")
			}
		case "get":
			if has {
				log("%d", dig(old))
			} else {
				log("nil")
			}
		case "set":
			if has {
				x.Facts.RemovedBig = x.Facts.RemovedBig || elemBig(m.Elem, old)
			}
			s.D[o.I] = o.N
			log("ok")
		case "setNil":
			if has {
				x.Facts.RemovedBig = x.Facts.RemovedBig || elemBig(m.Elem, old)
			}
			delete(s.D, o.I)
			log("ok")
		case "containsKey":
			log("%v", has)
		case "length":
			log("%d", len(s.D))
		case "insertMany":
			for k := 0; k < o.J; k++ {
				s.D[o.I+k] = o.N + k
			}
			x.Facts.GrewBy = max(x.Facts.GrewBy, o.J)
			log("%d", len(s.D))
		case "removeMany":
			cnt := 0
			for k := 0; k < o.J; k++ {
				if v, ok := s.D[o.I+k]; ok {
					x.Facts.RemovedBig = x.Facts.RemovedBig || elemBig(m.Elem, v)
					delete(s.D, o.I+k)
					cnt++
				}
			}
			x.Facts.ShrankBy = max(x.Facts.ShrankBy, cnt)
			log("%d", cnt)
		case "enumerate":
			// keys / values / forEachKey / for-in digests must all equal the model's
			dd := m.dictDigest(s.D)
			log("%s %s %s %s", dd, dd, dd, dd)
		case "forEachStop":
			cnt := len(s.D)
			if o.J < cnt {
				cnt = o.J
			}
			if o.J == 0 {
				cnt = min(1, len(s.D)) // the callback returns false on its first call
			}
			log("%d", cnt)
		case "digest":
			log("%s", m.dictDigest(s.D))
		case "copy":
			dd := m.dictDigest(s.D)
			log("%s %s", dd, dd)
		default:
			panic("bad d op " + o.Kind)
		}
		x.Facts.MaxLen = max(x.Facts.MaxLen, len(s.D))
	default:
		panic("bad target " + o.On)
	}
	return ""
}

// Step predicts one execution.
func (m *ContModel) Step(e ContExec) ContExpect {
	before := m.S.clone()
	var x ContExpect
	j := e.Inject
	for i, o := range e.Ops {
		if j.InBody() && j.Pos == i {
			x.Fail = "inject"
			break
		}
		if fail := m.apply(i, o, &x); fail != "" {
			x.Fail = fail
			x.ErrType = "Ind" // ArrayIndexOutOfBoundsError / ArraySliceIndicesError / …
			break
		}
	}
	if x.Fail == "" && j != nil {
		x.Fail = "inject"
		if j.Kind == "post" && !e.Script {
			x.Logs = append(x.Logs, "END")
		}
	}
	if x.Fail == "inject" {
		x.ErrType = j.ErrorType()
		if e.Script && !j.InBody() {
			x.ErrType = "PanicError"
		}
	}
	if x.Fail == "" && !e.Script {
		x.Logs = append(x.Logs, "END")
		x.Commits = true
	} else {
		m.S = before
	}
	return x
}

// ---- rendering ----------------------------------------------------------------

// refOnly / localOnly restrictions: operations that return new arrays are rendered through
// references only for primitive element types (for other element types such calls return
// arrays of references).
func contOpAllowed(o ContOp, elem int, local bool) bool {
	switch o.Kind {
	case "concatAssign", "filterAssign", "fromVariable": // assign to the container variable itself
		if !local {
			return false
		}
	case "copy": // through a reference the containers are copied by dereferencing, which needs primitive elements
		if !local && (!elemPrimitive(elem) || o.On == "d") {
			return false
		}
	case "slice", "reverse", "concat", "filter", "map", "toConstantSized", "toVariableSized":
		if !local && !elemPrimitive(elem) {
			return false
		}
	case "contains", "firstIndex":
		if !elemEquatable(elem) || (!local && !elemPrimitive(elem)) {
			return false
		}
	}
	return true
}

type contRender struct {
	elem, key int
	local     bool
}

func (c contRender) E() string { return elemType[c.elem] }

// ref returns an expression of reference type for the container.
func (c contRender) ref(on string) string {
	if !c.local {
		return on
	}
	switch on {
	case "va":
		return "(&va as &[" + c.E() + "])"
	case "ca":
		return fmt.Sprintf("(&ca as &[%s; %d])", c.E(), ConstLen)
	default:
		return "(&d as &{" + keyType(c.key) + ": " + c.E() + "})"
	}
}

func (c contRender) op(i int, o ContOp) (lines []string) {
	w := func(f string, args ...any) { lines = append(lines, fmt.Sprintf(f, args...)) }
	logS := func(expr string) { w(`log("%d:".concat(%s))`, i, expr) }
	logOK := func() { w(`log("%d:ok")`, i) }
	E := c.E()
	x := o.On
	switch o.On {
	case "va", "ca":
		hfun := "D.hr"
		if o.On == "ca" {
			hfun = "D.hc"
		}
		switch o.Kind {
		case "append":
			w(`va.append(D.mk(%d))`, o.N)
			logOK()
		case "appendAll":
			w(`va.appendAll(D.mkMany(%d, %d))`, o.I, o.J)
			logOK()
		case "insert":
			w(`va.insert(at: %d, D.mk(%d))`, o.I, o.N)
			logOK()
		case "remove":
			logS(fmt.Sprintf(`D.d(va.remove(at: %d)).toString()`, o.I))
		case "removeFirst":
			logS(`D.d(va.removeFirst()).toString()`)
		case "removeLast":
			logS(`D.d(va.removeLast()).toString()`)
		case "dropMany":
			w(`var c%d = 0`, i)
			switch o.Mode {
			case 0:
				w(`while c%d < %d && va.length > 0 { va.removeLast(); c%d = c%d + 1 }`, i, o.J, i, i)
			case 1:
				w(`while c%d < %d && va.length > 0 { va.removeFirst(); c%d = c%d + 1 }`, i, o.J, i, i)
			default:
				w(`while c%d < %d && va.length > 0 { va.remove(at: va.length / 2); c%d = c%d + 1 }`, i, o.J, i, i)
			}
			logS(`va.length.toString()`)
		case "get":
			if o.On == "va" {
				logS(fmt.Sprintf(`D.at(%s, %d).toString()`, c.ref("va"), o.I))
			} else {
				logS(fmt.Sprintf(`D.atc(%s, %d).toString()`, c.ref("ca"), o.I))
			}
		case "set":
			w(`%s[%d] = D.mk(%d)`, x, o.I, o.N)
			logOK()
		case "length":
			logS(`va.length.toString()`)
		case "slice":
			w(`let t%d = va.slice(from: %d, upTo: %d)`, i, o.I, o.J)
			logS(fmt.Sprintf(`D.hr(&t%d as &[%s])`, i, E))
		case "reverse":
			w(`let t%d = %s.reverse()`, i, x)
			if o.On == "va" {
				logS(fmt.Sprintf(`D.hr(&t%d as &[%s])`, i, E))
			} else {
				logS(fmt.Sprintf(`D.hc(&t%d as &[%s; %d])`, i, E, ConstLen))
			}
		case "concat":
			w(`let t%d = va.concat(D.mkMany(%d, %d))`, i, o.I, o.J)
			logS(fmt.Sprintf(`D.hr(&t%d as &[%s])`, i, E))
		case "concatAssign":
			w(`va = va.concat(D.mkMany(%d, %d))`, o.I, o.J)
			logS(`va.length.toString()`)
		case "filter":
			w(`let t%d = %s.filter(view fun (e: %s): Bool { return ((D.d(e) %% %d) + %d) %% %d == %d })`, i, x, E, o.M, o.M, o.M, o.R)
			logS(fmt.Sprintf(`D.hr(&t%d as &[%s])`, i, E))
		case "filterAssign":
			w(`va = va.filter(view fun (e: %s): Bool { return ((D.d(e) %% %d) + %d) %% %d == %d })`, E, o.M, o.M, o.M, o.R)
			logS(`va.length.toString()`)
		case "map":
			w(`let t%d = %s.map(fun (e: %s): Int { return D.d(e) * %d + %d })`, i, x, E, o.R, o.M)
			if o.On == "va" {
				logS(fmt.Sprintf(`D.hi(t%d)`, i))
			} else {
				logS(fmt.Sprintf(`D.hi(t%d.toVariableSized())`, i))
			}
		case "contains":
			logS(fmt.Sprintf(`(%s.contains(D.mk(%d)) ? "true" : "false")`, x, o.N))
		case "firstIndex":
			logS(fmt.Sprintf(`(%s.firstIndex(of: D.mk(%d))?.toString() ?? "nil")`, x, o.N))
		case "toConstantSized":
			w(`if let t%d = va.toConstantSized<[%s; %d]>() { log("%d:".concat(D.hc(&t%d as &[%s; %d]))) } else { log("%d:nil") }`, i, E, ConstLen, i, i, E, ConstLen, i)
		case "toVariableSized":
			w(`let t%d = ca.toVariableSized()`, i)
			logS(fmt.Sprintf(`D.hr(&t%d as &[%s])`, i, E))
		case "fromVariable":
			w(`if let t%d = va.toConstantSized<[%s; %d]>() { ca = t%d; log("%d:set") } else { log("%d:nil") }`, i, E, ConstLen, i, i, i)
		case "digest":
			logS(fmt.Sprintf(`%s(%s)`, hfun, c.ref(o.On)))
		case "copy":
			// let-copy, then argument passing + return: three transfers of the whole container
			val, ty, echo := x, "["+E+"]", "D.echo"
			if !c.local {
				val = "*" + x
			}
			if o.On == "ca" {
				ty, echo = fmt.Sprintf("[%s; %d]", E, ConstLen), "D.echoC"
			}
			w(`let c%d = %s`, i, val)
			w(`let r%d = %s(%s)`, i, echo, val)
			logS(fmt.Sprintf(`%s(&c%d as &%s).concat(" ").concat(%s(&r%d as &%s))`, hfun, i, ty, hfun, i, ty))
		case "smallCopy":
			w(`let t%d = [D.mk(%d), D.mk(%d)]`, i, o.N, o.N+1)
			w(`let c%d = t%d`, i, i)
			w(`let r%d = D.echo(t%d)`, i, i)
			logS(fmt.Sprintf(`D.hr(&c%d as &[%s]).concat(" ").concat(D.hr(&r%d as &[%s]))`, i, E, i, E))
		default:
			panic("bad array op " + o.Kind)
		}
	case "d":
		key := fmt.Sprintf("D.key(%d)", o.I)
		K := keyType(c.key)
		optDigest := func(expr string) string {
			return fmt.Sprintf(`if let o%d = %s { log("%d:".concat(D.d(o%d).toString())) } else { log("%d:nil") }`, i, expr, i, i, i)
		}
		switch o.Kind {
		case "insert":
			w(optDigest(fmt.Sprintf(`d.insert(key: %s, D.mk(%d))`, key, o.N)))
		case "remove":
			w(optDigest(fmt.Sprintf(`d.remove(key: %s)`, key)))
		case "get":
			logS(fmt.Sprintf(`(D.atd(%s, %s)?.toString() ?? "nil")`, c.ref("d"), key))
		case "set":
			w(`d[%s] = D.mk(%d)`, key, o.N)
			logOK()
		case "setNil":
			w(`d[%s] = nil`, key)
			logOK()
		case "containsKey":
			logS(fmt.Sprintf(`(d.containsKey(%s) ? "true" : "false")`, key))
		case "length":
			logS(`d.length.toString()`)
		case "insertMany":
			w(`var c%d = 0`, i)
			w(`while c%d < %d { d[D.key(%d + c%d)] = D.mk(%d + c%d); c%d = c%d + 1 }`, i, o.J, o.I, i, o.N, i, i, i)
			logS(`d.length.toString()`)
		case "removeMany":
			w(`var c%d = 0`, i)
			w(`var n%d = 0`, i)
			w(`while c%d < %d { if d.containsKey(D.key(%d + c%d)) { n%d = n%d + 1 }; d.remove(key: D.key(%d + c%d)); c%d = c%d + 1 }`, i, o.J, o.I, i, i, i, o.I, i, i, i)
			logS(fmt.Sprintf(`n%d.toString()`, i))
		case "enumerate":
			r := c.ref("d")
			// 1: keys  2: values (paired by position with keys)  3: forEachKey  4: for-in
			w(`var s1_%d = 0`, i)
			w(`var s2_%d = 0`, i)
			w(`var s3_%d = 0`, i)
			w(`var s4_%d = 0`, i)
			w(`let ks%d = d.keys`, i)
			w(`var q%d = 0`, i)
			w(`for k in ks%d { s1_%d = (s1_%d + D.entry(k, D.atd(%s, k)!)) %% 1000000007 }`, i, i, i, r)
			if c.local || elemPrimitive(c.elem) {
				w(`let vs%d = d.values`, i)
				w(`while q%d < ks%d.length { s2_%d = (s2_%d + D.entry(ks%d[q%d], D.d(vs%d[q%d]))) %% 1000000007; q%d = q%d + 1 }`, i, i, i, i, i, i, i, i, i, i)
			} else {
				w(`s2_%d = s1_%d`, i, i)
			}
			w(`d.forEachKey(fun (k: %s): Bool { s3_%d = (s3_%d + D.entry(k, D.atd(%s, k)!)) %% 1000000007; return true })`, K, i, i, r)
			w(`for k in d.keys { s4_%d = (s4_%d + D.entry(k, D.atd(%s, k)!)) %% 1000000007 }`, i, i, r)
			w(`let n%d = d.length.toString().concat(":")`, i)
			logS(fmt.Sprintf(`n%d.concat(s1_%d.toString()).concat(" ").concat(n%d).concat(s2_%d.toString()).concat(" ").concat(n%d).concat(s3_%d.toString()).concat(" ").concat(n%d).concat(s4_%d.toString())`, i, i, i, i, i, i, i, i))
		case "forEachStop":
			w(`var c%d = 0`, i)
			w(`d.forEachKey(fun (k: %s): Bool { c%d = c%d + 1; return c%d < %d })`, K, i, i, i, o.J)
			logS(fmt.Sprintf(`c%d.toString()`, i))
		case "digest":
			logS(fmt.Sprintf(`D.hd(%s)`, c.ref("d")))
		case "copy":
			w(`let c%d = d`, i)
			w(`let r%d = D.echoD(d)`, i)
			logS(fmt.Sprintf(`D.hd(&c%d as &{%s: %s}).concat(" ").concat(D.hd(&r%d as &{%s: %s}))`, i, K, E, i, K, E))
		default:
			panic("bad d op " + o.Kind)
		}
	}
	return lines
}

// Source renders the execution.
func (e ContExec) Source(elem, key int) string {
	c := contRender{elem: elem, key: key, local: e.Local}
	E, K := c.E(), keyType(key)
	var groups [][]string
	var setup []string
	if e.Local {
		setup = []string{
			fmt.Sprintf(`var va = a0.storage.load<[%s]>(from: /storage/va)!`, E),
			fmt.Sprintf(`var ca = a0.storage.load<[%s; %d]>(from: /storage/ca)!`, E, ConstLen),
			fmt.Sprintf(`var d = a0.storage.load<{%s: %s}>(from: /storage/d)!`, K, E),
		}
	} else {
		setup = []string{
			fmt.Sprintf(`let va = a0.storage.borrow<auth(Mutate) &[%s]>(from: /storage/va)!`, E),
			fmt.Sprintf(`let ca = a0.storage.borrow<auth(Mutate) &[%s; %d]>(from: /storage/ca)!`, E, ConstLen),
			fmt.Sprintf(`let d = a0.storage.borrow<auth(Mutate) &{%s: %s}>(from: /storage/d)!`, K, E),
		}
	}
	for i, o := range e.Ops {
		g := c.op(i, o)
		if i == 0 {
			g = append(append([]string(nil), setup...), g...)
		}
		groups = append(groups, g)
	}
	if e.Local {
		groups = append(groups, []string{`a0.storage.save(va, to: /storage/va)`, `a0.storage.save(ca, to: /storage/ca)`, `a0.storage.save(d, to: /storage/d)`})
	}
	return Wrap("import D from 0x1\n", e.Script, groups, e.Inject)
}

// ContInitSource creates the three containers.
func ContInitSource(elem, key int) string {
	E, K := elemType[elem], keyType(key)
	return fmt.Sprintf(`import D from 0x1
transaction {
  prepare(a0: %s) {
    a0.storage.save<[%s]>([], to: /storage/va)
    let ca: [%s; %d] = [D.mk(1), D.mk(2), D.mk(3), D.mk(4), D.mk(5), D.mk(6), D.mk(7), D.mk(8)]
    a0.storage.save(ca, to: /storage/ca)
    a0.storage.save<{%s: %s}>({}, to: /storage/d)
    log("END")
  }
}
`, AccountAuth, E, E, ConstLen, K, E)
}

// ContVerifyScript digests the three committed containers.
func ContVerifyScript(elem, key int) string {
	E, K := elemType[elem], keyType(key)
	return fmt.Sprintf(`import D from 0x1
access(all) fun main(): [String] {
  let a = getAuthAccount<auth(Storage) &Account>(0x1)
  let va = a.storage.borrow<&[%s]>(from: /storage/va)!
  let ca = a.storage.borrow<&[%s; %d]>(from: /storage/ca)!
  let d = a.storage.borrow<&{%s: %s}>(from: /storage/d)!
  return [D.hr(va), D.hc(ca), D.hd(d)]
}
`, E, E, ConstLen, K, E)
}

func (h ContHistory) History() prog.History {
	out := prog.History{Origin: "storgen.cont", Features: []string{"containers", "storage", "elem-" + ElemName[h.Elem]}}
	out.Steps = append(out.Steps, prog.Step{Kind: prog.Deploy, Name: "D", Source: ContContract(h.Elem, h.Key), Signers: []uint64{1}})
	out.Steps = append(out.Steps, prog.Step{Kind: prog.Tx, Source: ContInitSource(h.Elem, h.Key), Signers: []uint64{1}})
	for _, e := range h.Execs {
		st := prog.Step{Kind: prog.Tx, Source: e.Source(h.Elem, h.Key), Signers: []uint64{1, 2, 3}, MayFail: true}
		if e.Script {
			st = prog.Step{Kind: prog.Script, Source: e.Source(h.Elem, h.Key), MayFail: true}
		}
		out.Steps = append(out.Steps, st)
	}
	out.Steps = append(out.Steps, prog.Step{Kind: prog.Script, Source: ContVerifyScript(h.Elem, h.Key)})
	return out
}

// ---- generator ----------------------------------------------------------------

type ContGenConfig struct {
	MaxExecs   int // default 25
	MaxOps     int // default 12
	Injections bool
	// SkipBuild: do not start with the transaction that builds a multi-slab array and dictionary
	SkipBuild bool
}

var contBulk = []int{1, 3, 60, 8, 150, 25, 400}

var vaKinds = []string{"append", "appendAll", "get", "set", "insert", "remove", "removeLast", "removeFirst", "dropMany", "length", "digest",
	"slice", "reverse", "concat", "concatAssign", "filter", "filterAssign", "map", "contains", "firstIndex", "toConstantSized", "copy", "smallCopy"}
var caKinds = []string{"get", "set", "digest", "reverse", "contains", "firstIndex", "toVariableSized", "map", "filter", "fromVariable", "copy"}
var dKinds = []string{"insert", "insertMany", "get", "set", "remove", "setNil", "containsKey", "length", "digest", "removeMany", "enumerate", "forEachStop", "copy"}

// GenContHistory draws a container history.
func GenContHistory(s Src, cfg ContGenConfig) ContHistory {
	if cfg.MaxExecs == 0 {
		cfg.MaxExecs = 25
	}
	if cfg.MaxOps == 0 {
		cfg.MaxOps = 12
	}
	h := ContHistory{Elem: s.Intn("elem", NElem), Key: s.Intn("keytype", 2)}
	m := NewContModel(h.Elem, h.Key)
	seed := 10
	fresh := func() int { seed++; return seed }
	n := 3 + s.Intn("execs", max(1, cfg.MaxExecs-2))
	sawBadIndex := false
	// Most histories start by building a multi-slab array and dictionary (bulk growth far beyond one
	// 1 KiB slab), so that everything after the first commit works on containers spread over several slabs.
	if !cfg.SkipBuild && !chance(s, "small", 12) {
		count := []int{600, 300, 250, 250}[h.Elem] + s.Intn("buildextra", 60)
		from := fresh()
		for k := 0; k < count; k++ {
			fresh()
		}
		dfrom, dseed, dcount := s.Intn("dbuildfrom", 50), fresh(), 150+s.Intn("dbuildextra", 100)
		for k := 0; k < dcount; k++ {
			fresh()
		}
		e := ContExec{Ops: []ContOp{
			{On: "va", Kind: "appendAll", I: from, J: count},
			{On: "d", Kind: "insertMany", I: dfrom, J: dcount, N: dseed},
		}}
		h.Execs = append(h.Execs, e)
		m.Step(e)
	}
	for len(h.Execs) < n {
		e := ContExec{Script: chance(s, "script", 12), Local: chance(s, "local", 30)}
		nOps := 1 + s.Intn("nops", cfg.MaxOps)
		scratch := &ContModel{Elem: m.Elem, Key: m.Key, S: m.S.clone()}
		var x ContExpect
		failed := false
		// Every execution is a fresh runtime over the ledger (nothing is loaded yet). When it works in place
		// through references it mostly starts with a READ-ONLY query, before any mutating or fully iterating
		// operation could load the slabs.
		if !e.Local && chance(s, "probe", 80) {
			if o, ok := genContProbe(s, scratch); ok {
				e.Ops = append(e.Ops, o)
				failed = scratch.apply(0, o, &x) != ""
			}
		}
		for i := 0; i < nOps && !failed; i++ {
			o, ok := genContOp(s, scratch, e.Local, fresh)
			if !ok {
				continue
			}
			e.Ops = append(e.Ops, o)
			if fail := scratch.apply(len(e.Ops)-1, o, &x); fail != "" {
				failed = true
			}
		}
		if len(e.Ops) == 0 {
			continue
		}
		if cfg.Injections && chance(s, "inject", 35) {
			e.Inject = GenInject(s, len(e.Ops), e.Script)
		} else if !e.Script && chance(s, "abort", 6) {
			e.Inject = &Inject{Kind: "panic", Pos: len(e.Ops)}
		}
		h.Execs = append(h.Execs, e)
		if x := m.Step(e); x.Facts.BadIndex {
			sawBadIndex = true
		}
	}
	if !sawBadIndex {
		// every history contains at least one operation with an invalid index
		bad := ContOp{On: "va", Kind: []string{"get", "remove", "set", "insert"}[s.Intn("badop", 4)], I: len(m.S.VA) + 1 + s.Intn("badby", 3), N: fresh()}
		e := ContExec{Ops: []ContOp{{On: "va", Kind: "length"}, bad}}
		h.Execs = append(h.Execs, e)
		m.Step(e)
	}
	return h
}

// genContProbe draws a read-only query (through a reference) aimed at the first / middle / last element
// or slab of the stored containers, or at an absent element.
func genContProbe(s Src, m *ContModel) (ContOp, bool) {
	st := m.S
	n := len(st.VA)
	pos := func() int { // an index near the start, the middle or the end
		if n == 0 {
			return 0
		}
		return []int{0, n / 2, n - 1, n / 4, 3 * n / 4}[s.Intn("probepos", 5)]
	}
	elemAt := func() int {
		if n == 0 || chance(s, "absent", 20) {
			return 900001 + 13*s.Intn("absentseed", 1000)
		}
		return st.VA[pos()]
	}
	keys := sortedIntKeys(st.D)
	key := func() int {
		if len(keys) == 0 || chance(s, "absentkey", 20) {
			return 5000 + s.Intn("absentk", 100)
		}
		return keys[[]int{0, len(keys) / 2, len(keys) - 1}[s.Intn("keypos", 3)]]
	}
	prim := elemPrimitive(m.Elem)
	var cands []ContOp
	if prim && elemEquatable(m.Elem) {
		cands = append(cands, ContOp{On: "va", Kind: "contains", N: elemAt()}, ContOp{On: "va", Kind: "contains", N: elemAt()},
			ContOp{On: "va", Kind: "contains", N: elemAt()}, ContOp{On: "va", Kind: "contains", N: elemAt()},
			ContOp{On: "va", Kind: "firstIndex", N: elemAt()}, ContOp{On: "va", Kind: "firstIndex", N: elemAt()}, ContOp{On: "ca", Kind: "contains", N: st.CA[s.Intn("capos", ConstLen)]})
	}
	if prim && n > 0 {
		i := pos()
		cands = append(cands, ContOp{On: "va", Kind: "slice", I: i, J: min(n, i+3)})
	}
	if n > 0 {
		cands = append(cands, ContOp{On: "va", Kind: "get", I: pos()})
	}
	cands = append(cands, ContOp{On: "va", Kind: "length"}, ContOp{On: "d", Kind: "containsKey", I: key()}, ContOp{On: "d", Kind: "get", I: key()},
		ContOp{On: "d", Kind: "containsKey", I: key()}, ContOp{On: "d", Kind: "length"})
	return cands[s.Intn("probe", len(cands))], true
}

func sortedIntKeys(m map[int]int) []int {
	out := make([]int, 0, len(m))
	for k := range m {
		out = append(out, k)
	}
	sort.Ints(out)
	return out
}

func genContOp(s Src, m *ContModel, local bool, fresh func() int) (ContOp, bool) {
	var o ContOp
	rot := fresh()
	switch pickRot(s, "target", rot, 5, 2, 4) {
	case 0:
		o.On, o.Kind = "va", vaKinds[(s.Intn("vakind", len(vaKinds))+rot)%len(vaKinds)]
	case 1:
		o.On, o.Kind = "ca", caKinds[(s.Intn("cakind", len(caKinds))+rot)%len(caKinds)]
	default:
		o.On, o.Kind = "d", dKinds[(s.Intn("dkind", len(dKinds))+rot)%len(dKinds)]
	}
	if !contOpAllowed(o, m.Elem, local) {
		return o, false
	}
	st := m.S
	// an existing seed (for contains / firstIndex hits) or a fresh one
	someSeed := func() int {
		pool := append(append([]int(nil), st.VA...), st.CA[:]...)
		if len(pool) > 0 && chance(s, "hit", 60) {
			return pool[s.Intn("hitidx", len(pool))]
		}
		return fresh()
	}
	// a seed whose element is not inlinable for every element type (huge Int, 600-byte String, 130-element array)
	bigSeed := func() int { return 1001 * (1 + s.Intn("bigseed", 50)) }
	// a fresh element, a quarter of them big
	elemSeed := func() int {
		if chance(s, "bigelem", 25) {
			return bigSeed()
		}
		return fresh()
	}
	// index into a sequence of length n: mostly valid, sometimes just outside
	index := func(n int, inclusiveEnd bool) int {
		hi := n
		if inclusiveEnd {
			hi = n + 1
		}
		if hi > 0 && !chance(s, "badindex", 7) {
			return s.Intn("index", hi)
		}
		return []int{hi, -1, hi + 3}[s.Intn("badkind", 3)]
	}
	dictKey := func() int {
		ks := sortedIntKeys(st.D)
		if len(ks) > 0 && chance(s, "haskey", 60) {
			return ks[s.Intn("keyidx", len(ks))]
		}
		return s.Intn("newkey", 40)
	}
	switch o.On {
	case "va":
		n := len(st.VA)
		switch o.Kind {
		case "append":
			o.N = elemSeed()
		case "smallCopy":
			o.N = bigSeed()
		case "appendAll", "concat", "concatAssign":
			o.I, o.J = fresh(), contBulk[s.Intn("bulk", len(contBulk))]
			for k := 0; k < o.J; k++ {
				fresh()
			}
		case "insert":
			o.I, o.N = index(n, true), elemSeed()
		case "remove", "get":
			o.I = index(n, false)
		case "set":
			o.I, o.N = index(n, false), elemSeed()
		case "removeFirst", "removeLast":
			if n == 0 && !chance(s, "emptyremove", 20) {
				return o, false
			}
		case "dropMany":
			if n == 0 {
				return o, false
			}
			o.J, o.Mode = 1+s.Intn("count", n), s.Intn("mode", 3)
			if chance(s, "most", 40) {
				o.J = n - s.Intn("keep", min(n, 5)+1) + 1
				if o.J < 1 {
					o.J = 1
				}
			}
		case "slice":
			o.I = index(n, true)
			o.J = index(n, true)
			if o.I > o.J && !chance(s, "badslice", 10) {
				o.I, o.J = o.J, o.I
			}
		case "filter", "filterAssign":
			o.M = 2 + s.Intn("mod", 4)
			o.R = s.Intn("rem", o.M)
		case "map":
			o.R, o.M = 1+s.Intn("factor", 3), s.Intn("addend", 10)
		case "contains", "firstIndex":
			o.N = someSeed()
		}
	case "ca":
		switch o.Kind {
		case "get":
			o.I = index(ConstLen, false)
		case "set":
			o.I, o.N = index(ConstLen, false), elemSeed()
		case "contains", "firstIndex":
			o.N = someSeed()
		case "map":
			o.R, o.M = 1+s.Intn("factor", 3), s.Intn("addend", 10)
		case "filter":
			o.M = 2 + s.Intn("mod", 4)
			o.R = s.Intn("rem", o.M)
		}
	case "d":
		switch o.Kind {
		case "insert", "set":
			o.I, o.N = dictKey(), elemSeed()
		case "remove", "get", "setNil", "containsKey":
			o.I = dictKey()
		case "insertMany":
			o.I, o.J, o.N = s.Intn("from", 300), contBulk[s.Intn("bulk", len(contBulk)-1)], fresh()
			for k := 0; k < o.J; k++ {
				fresh()
			}
		case "removeMany":
			ks := sortedIntKeys(st.D)
			if len(ks) == 0 {
				return o, false
			}
			o.I = ks[s.Intn("fromkey", len(ks))]
			o.J = contBulk[s.Intn("bulk", len(contBulk)-1)]
			if chance(s, "all", 30) {
				o.I, o.J = ks[0], ks[len(ks)-1]-ks[0]+1
			}
		case "forEachStop":
			o.J = s.Intn("stop", 6)
		}
	}
	return o, true
}
