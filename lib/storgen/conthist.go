package storgen

// placeholder (C20 generator follows)
type ContHistory struct{}
type ContGenConfig struct {
	MaxExecs, MaxOps int
	Injections       bool
}

func GenContHistory(s Src, cfg ContGenConfig) ContHistory { return ContHistory{} }
