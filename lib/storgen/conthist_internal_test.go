package storgen

import "testing"

// the fast string digest must equal the digest of the materialised string
func TestStrDigestMirror(t *testing.T) {
	for n := 0; n < 3000; n++ {
		s := contStr(n)
		h := len(s) * 1000
		for i := 0; i < 8 && i < len(s); i++ {
			h += (i + 1) * int(s[i])
		}
		if got := ElemDigest(EStr, n); got != h {
			t.Fatalf("seed %d: fast digest %d, want %d (%q)", n, got, h, s[:min(len(s), 12)])
		}
	}
}
