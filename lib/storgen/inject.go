package storgen

// Failure injection and the common transaction/script wrapper. An Inject makes an
// execution fail at a chosen point after (optionally) mutating more in-memory
// state: C22 uses it for transactions that abort midway, C24 for its failure
// injectors ("panic, failed assert, failing pre/post condition, type-mismatching
// load, arithmetic overflow").

import (
	"fmt"
	"strings"
)

// Inject kinds.
var InjectKinds = []string{"panic", "assert", "overflow", "mismatch-load", "pre", "post", "execute"}

// Inject describes an injected failure.
type Inject struct {
	Kind string `json:"kind"`
	// Pos: the failure is placed before operation Pos (Pos == number of operations: after the last).
	// Ignored for pre / post / execute, which fail after the whole prepare block ran.
	Pos int `json:"pos"`
	// Mutate: extra in-memory mutation placed right before the failure: "" | "cap" | "contract" | "storage".
	Mutate string `json:"mutate,omitempty"`
}

func (j *Inject) String() string {
	if j == nil {
		return ""
	}
	s := fmt.Sprintf("inject %s@%d", j.Kind, j.Pos)
	if j.Mutate != "" {
		s += "+" + j.Mutate
	}
	return s
}

// InBody reports whether the failure is a statement inside the operation sequence.
func (j *Inject) InBody() bool {
	return j != nil && j.Kind != "pre" && j.Kind != "post" && j.Kind != "execute"
}

// ErrorType is the Go error type name expected in the error tree.
func (j *Inject) ErrorType() string {
	switch j.Kind {
	case "panic", "execute":
		return "PanicError"
	case "assert":
		return "AssertionError"
	case "overflow":
		return "OverflowError"
	case "mismatch-load":
		return "StoredValueTypeMismatchError"
	case "pre", "post":
		return "ConditionError"
	}
	return "?"
}

// lines renders the mutation + failure statements (for in-body kinds).
func (j *Inject) lines(acct string) []string {
	var out []string
	switch j.Mutate {
	case "cap":
		out = append(out,
			fmt.Sprintf(`let injc = %s.capabilities.storage.issue<&AnyStruct>(/storage/injp)`, acct),
			fmt.Sprintf(`%s.capabilities.publish(injc, at: /public/injp)`, acct))
	case "contract":
		out = append(out, fmt.Sprintf(`%s.contracts.add(name: "Inj", code: "access(all) contract Inj { access(all) let xs: [Int]; init() { self.xs = [1, 2, 3] } }".utf8)`, acct))
	case "storage":
		out = append(out, fmt.Sprintf(`%s.storage.save([1, 2, 3], to: /storage/injs)`, acct))
	}
	switch j.Kind {
	case "panic":
		out = append(out, `if 1 < 2 { panic("injected") }`)
	case "assert":
		out = append(out, `assert(1 > 2, message: "injected")`)
	case "overflow":
		out = append(out, `let injo = UInt8(200) + UInt8(100)`)
	case "mismatch-load":
		out = append(out,
			fmt.Sprintf(`%s.storage.save(1, to: /storage/injm)`, acct),
			fmt.Sprintf(`let injl = %s.storage.load<String>(from: /storage/injm)`, acct))
	}
	return out
}

// AccountAuth is the authorisation every generated transaction/script asks for.
const AccountAuth = "auth(Storage, Contracts, Capabilities) &Account"

// Wrap builds the source of a transaction (signed by accounts 0x1..0x3 as a0..a2) or of a
// script (a0..a2 obtained with getAuthAccount) around groups of statements, one group per
// operation. Transactions log "END" as the very last statement of their code.
func Wrap(imports string, script bool, groups [][]string, j *Inject) string {
	var sb strings.Builder
	sb.WriteString(imports)
	emit := func(lines []string) {
		for _, l := range lines {
			sb.WriteString("    " + l + "\n")
		}
	}
	body := func() {
		for i, g := range groups {
			if j.InBody() && j.Pos == i {
				emit(j.lines("a0"))
			}
			emit(g)
		}
		if j.InBody() && j.Pos >= len(groups) {
			emit(j.lines("a0"))
		}
	}
	if script {
		sb.WriteString("access(all) fun main() {\n")
		for a := 0; a < 3; a++ {
			fmt.Fprintf(&sb, "    let a%d = getAuthAccount<%s>(0x%d)\n", a, AccountAuth, a+1)
		}
		body()
		if j != nil && !j.InBody() {
			// scripts have no pre/post/execute blocks: fail at the end
			emit((&Inject{Kind: "panic", Mutate: j.Mutate}).lines("a0"))
		}
		sb.WriteString("}\n")
		return sb.String()
	}
	fmt.Fprintf(&sb, "transaction {\n  prepare(a0: %s, a1: %s, a2: %s) {\n", AccountAuth, AccountAuth, AccountAuth)
	body()
	blocks := j != nil && !j.InBody()
	if blocks {
		emit((&Inject{Mutate: j.Mutate}).lines("a0"))
	} else {
		sb.WriteString("    log(\"END\")\n")
	}
	sb.WriteString("  }\n")
	if blocks {
		if j.Kind == "pre" {
			sb.WriteString("  pre { 1 > 2: \"injected\" }\n")
		}
		sb.WriteString("  execute {\n")
		if j.Kind == "execute" {
			sb.WriteString("    if 1 < 2 { panic(\"injected\") }\n")
		}
		sb.WriteString("    log(\"END\")\n  }\n")
		if j.Kind == "post" {
			sb.WriteString("  post { 1 > 2: \"injected\" }\n")
		}
	}
	sb.WriteString("}\n")
	return sb.String()
}

// GenInject draws an injection for an execution with nOps operations.
func GenInject(s Src, nOps int, script bool) *Inject {
	kinds := InjectKinds
	if script {
		kinds = kinds[:4]
	}
	j := &Inject{Kind: kinds[s.Intn("injkind", len(kinds))]}
	if j.InBody() {
		j.Pos = nOps - s.Intn("injpos", nOps+1) // 0 draws the end position
	}
	j.Mutate = []string{"", "storage", "cap", "contract"}[pick(s, "injmutate", 5, 2, 2, 1)]
	return j
}
