package storgen

// C22: account storage as a typed, path-indexed map. A MapHistory is a list of
// executions (transactions signed by all three accounts, or scripts using
// getAuthAccount) each performing 1..5 storage operations and logging what it
// observed; MapModel is the Go reference model that predicts every log line,
// the failure (if any) and the committed state.

import (
	"fmt"
	"sort"
	"strings"

	"verif/lib/prog"
)

const (
	MapAccounts = 3
	MapPaths    = 4
)

// Value kinds (the dynamic types that get stored).
const (
	KInt = iota
	KString
	KArr
	KS
	KS2
	KR
	KR2
	NKinds
)

// Type arguments: 0..6 are the exact types of the kinds above.
const (
	TAnyStruct   = 7
	TAnyResource = 8
	TI           = 9  // {C.I}   (implemented by S)
	TRI          = 10 // @{C.RI} (implemented by R)
	TArrAny      = 11 // [AnyStruct] (supertype of [Int]: arrays are covariant)
	NTArgs       = 12
)

// Optional forms of a stored value.
const (
	FPlain    = 0 // v            : T
	FSome     = 1 // v            : T?
	FSomeSome = 2 // v            : T??
	FNil      = 3 // nil          : T?   (dynamic type Never?)
	NForms    = 4
)

// MaxTArgDepth: type arguments are used at optional depths 0..MaxTArgDepth (T, T?, T??).
const MaxTArgDepth = 2

// DynType is the dynamic (static-at-run-time) type of a stored value: kind wrapped in Depth optionals, or Never?.
type DynType struct {
	Never bool
	K     int
	Depth int
}

// DynOf returns the dynamic type of a stored value of kind k in optional form f.
func DynOf(k, f int) DynType {
	if f == FNil {
		return DynType{Never: true, Depth: 1}
	}
	return DynType{K: k, Depth: f}
}

func (d DynType) isResource() bool { return !d.Never && kindIsResource(d.K) }

// Ident is the type identifier type(at:) / forEachStored report.
func (d DynType) Ident() string {
	s := "Never"
	if !d.Never {
		s = kindIdent[d.K]
	}
	for i := 0; i < d.Depth; i++ {
		s = "(" + s + ")?"
	}
	return s
}

// String is a short printable form, e.g. "R??", "Never?".
func (d DynType) String() string {
	s := "Never"
	if !d.Never {
		s = KindName[d.K]
	}
	return s + strings.Repeat("?", d.Depth)
}

// SubDyn is the harness-side subtype relation between a stored dynamic type and the type
// argument t at optional depth td:
//
//	T  <: U?  iff T <: U        T? <: U?  iff T <: U        Never <: anything
//	X  <: AnyStruct   iff X is not resource-kinded (optionals of structs and Never? included)
//	X  <: AnyResource iff X is resource-kinded (optionals of resources included) or X is Never?…
//	T? is not a subtype of any other non-optional type
func SubDyn(d DynType, t, td int) bool {
	for td > 0 {
		if d.Depth > 0 {
			d.Depth--
		}
		td--
	}
	if d.Never && d.Depth == 0 {
		return true
	}
	switch t {
	case TAnyStruct:
		return !d.isResource()
	case TAnyResource:
		return d.isResource() || d.Never
	}
	if d.Depth > 0 || d.Never {
		return false
	}
	return SubKind(d.K, t)
}

// TArgString is the printable form of type argument t at depth td.
func TArgString(t, td int) string { return TArgName[t] + strings.Repeat("?", td) }

func tArgCadD(t, td int) string { return tArgCad[t] + strings.Repeat("?", td) }

// MapContract is deployed as "C" to account 0x1 before the history runs.
const MapContract = `access(all) contract C {
  access(all) struct interface I { access(all) fun tag(): String }
  access(all) resource interface RI { access(all) fun tag(): String }
  access(all) struct S: I {
    access(all) let x: Int
    access(all) let xs: [Int]
    init(_ x: Int) { self.x = x; self.xs = C.range(x, (x % 40) * 5) }
    access(all) fun tag(): String { return "S:".concat(self.x.toString()).concat(":").concat(self.xs.length.toString()) }
  }
  access(all) struct S2 { access(all) let y: String; init(_ y: String) { self.y = y } }
  access(all) resource R: RI {
    access(all) let id: Int
    access(all) let xs: [Int]
    init(_ id: Int) { self.id = id; self.xs = C.range(id, (id % 40) * 5) }
    access(all) fun tag(): String { return "R:".concat(self.id.toString()).concat(":").concat(self.xs.length.toString()) }
  }
  access(all) resource R2 { access(all) let id: Int; init(_ id: Int) { self.id = id } }
  access(all) fun mkR(_ id: Int): @R { return <- create R(id) }
  access(all) fun mkR2(_ id: Int): @R2 { return <- create R2(id) }
  access(all) fun fail(_ m: String) { panic(m) }
  access(all) fun range(_ from: Int, _ n: Int): [Int] {
    var r: [Int] = []
    var i = 0
    while i < n { r.append(from + i); i = i + 1 }
    return r
  }
  access(all) fun showStr(_ s: String): String {
    var n = s.length
    if n > 8 { n = 8 }
    return "String:".concat(s.length.toString()).concat(":").concat(s.slice(from: 0, upTo: n))
  }
  access(all) fun showArr(_ a: [Int]): String {
    var sum = 0
    for e in a { sum = sum + e }
    return "[Int]:".concat(a.length.toString()).concat(":").concat(sum.toString())
  }
  access(all) fun show(_ v: AnyStruct): String {
    if let i = v as? Int { return "Int:".concat(i.toString()) }
    if let s = v as? String { return C.showStr(s) }
    if let a = v as? [Int] { return C.showArr(a) }
    if let s = v as? S { return s.tag() }
    if let s = v as? S2 { return "S2:".concat(s.y) }
    return "?"
  }
  // optional-tolerant: dynamic casts unbox optionals, so the innermost payload is shown; "nil" when there is none
  access(all) fun showAny(_ v: AnyStruct?): String {
    if let i = v as? Int { return "Int:".concat(i.toString()) }
    if let s = v as? String { return C.showStr(s) }
    if let a = v as? [Int] { return C.showArr(a) }
    if let s = v as? S { return s.tag() }
    if let s = v as? S2 { return "S2:".concat(s.y) }
    if let a = v as? [AnyStruct] { return "arr:".concat(a.length.toString()) }
    return "nil"
  }
  // for ephemeral references (dynamic casts of ephemeral references are type-checked)
  access(all) fun showR(_ v: &AnyResource): String {
    if let r = v as? &R { return r.tag() }
    if let r = v as? &R2 { return "R2:".concat(r.id.toString()) }
    return "?"
  }
  // for storage references (a cast of a storage reference always succeeds, so dispatch on the type)
  access(all) fun showRR(_ v: &AnyResource): String {
    let t = v.getType()
    if t == Type<@R>() { return (v as! &R).tag() }
    if t == Type<@R2>() { return "R2:".concat((v as! &R2).id.toString()) }
    return "?"
  }
  access(all) fun joinPaths(_ ps: &[StoragePath]): String {
    var s = ""
    for p in ps { s = s.concat(p.toString()).concat(",") }
    return s
  }
}`

const mapTypePrefix = "A.0000000000000001.C."

var kindIdent = [NKinds]string{"Int", "String", "[Int]", mapTypePrefix + "S", mapTypePrefix + "S2", mapTypePrefix + "R", mapTypePrefix + "R2"}

// KindName is a short printable name of a value kind.
var KindName = [NKinds]string{"Int", "String", "[Int]", "S", "S2", "R", "R2"}

// TArgName is the printable name of a type argument.
var TArgName = [NTArgs]string{"Int", "String", "[Int]", "S", "S2", "R", "R2", "AnyStruct", "AnyResource", "{I}", "{RI}", "[AnyStruct]"}

// type arguments as written in Cadence (value position) and their reference form
var tArgCad = [NTArgs]string{"Int", "String", "[Int]", "C.S", "C.S2", "@C.R", "@C.R2", "AnyStruct", "@AnyResource", "{C.I}", "@{C.RI}", "[AnyStruct]"}

func tArgRef(t int) string { return "&" + strings.TrimPrefix(tArgCad[t], "@") }

// TArgIsResource reports whether the type argument is a resource type.
func TArgIsResource(t int) bool { return t == KR || t == KR2 || t == TAnyResource || t == TRI }

func kindIsResource(k int) bool { return k == KR || k == KR2 }

// SubKind is the harness-side subtype table: is the stored kind k a subtype of type argument t?
func SubKind(k, t int) bool {
	if k == t {
		return true
	}
	switch t {
	case TAnyStruct:
		return !kindIsResource(k)
	case TAnyResource:
		return kindIsResource(k)
	case TI:
		return k == KS
	case TRI:
		return k == KR
	case TArrAny:
		return k == KArr
	}
	return false
}

// ---- values ---------------------------------------------------------------

func strPayload(n int) string {
	s := fmt.Sprintf("s%d", n)
	if n%5 == 4 {
		s += strings.Repeat("x", 600) // not inlinable: stored in its own slab
	}
	return s
}

func arrLen(n int) int {
	if n%6 == 5 {
		return 150 // not inlinable
	}
	return n % 4
}

func compLen(n int) int { return (n % 40) * 5 }

func valExpr(k, n int) string {
	switch k {
	case KInt:
		return fmt.Sprint(n)
	case KString:
		return fmt.Sprintf("%q", strPayload(n))
	case KArr:
		return fmt.Sprintf("C.range(%d, %d)", n, arrLen(n))
	case KS:
		return fmt.Sprintf("C.S(%d)", n)
	case KS2:
		return fmt.Sprintf("C.S2(\"y%d\")", n)
	case KR:
		return fmt.Sprintf("<- C.mkR(%d)", n)
	case KR2:
		return fmt.Sprintf("<- C.mkR2(%d)", n)
	}
	panic("bad kind")
}

// Show is what C.show / C.showR / tag() print for a stored value.
func Show(k, n int) string {
	switch k {
	case KInt:
		return fmt.Sprintf("Int:%d", n)
	case KString:
		s := strPayload(n)
		p := s
		if len(p) > 8 {
			p = p[:8]
		}
		return fmt.Sprintf("String:%d:%s", len(s), p)
	case KArr:
		l := arrLen(n)
		return fmt.Sprintf("[Int]:%d:%d", l, l*n+l*(l-1)/2)
	case KS:
		return fmt.Sprintf("S:%d:%d", n, compLen(n))
	case KS2:
		return fmt.Sprintf("S2:y%d", n)
	case KR:
		return fmt.Sprintf("R:%d:%d", n, compLen(n))
	case KR2:
		return fmt.Sprintf("R2:%d", n)
	}
	panic("bad kind")
}

// ---- operations -------------------------------------------------------------

type MapOp struct {
	Op   string `json:"op"` // save load copy borrow check type paths each move
	A    int    `json:"a"`
	P    int    `json:"p"`
	K    int    `json:"k,omitempty"`    // save: value kind
	N    int    `json:"n,omitempty"`    // save: payload
	F    int    `json:"f,omitempty"`    // save: optional form (FPlain, FSome, FSomeSome, FNil)
	T    int    `json:"t,omitempty"`    // type argument
	TD   int    `json:"td,omitempty"`   // optional depth of the type argument (T, T?, T??)
	Stop int    `json:"stop,omitempty"` // each: stop after this many callbacks (0 = never)
	// Generic: a resource load only reports some/nil (always the case for optional type arguments)
	Generic bool `json:"generic,omitempty"`
	A2   int    `json:"a2,omitempty"`   // move: destination
	P2   int    `json:"p2,omitempty"`
}

func (o MapOp) String() string {
	switch o.Op {
	case "save":
		return fmt.Sprintf("save a%d/p%d %s(%d)%s", o.A, o.P, KindName[o.K], o.N, []string{"", " as T?", " as T??", " nil as T?"}[o.F])
	case "load", "copy", "borrow", "check":
		return fmt.Sprintf("%s<%s> a%d/p%d", o.Op, TArgString(o.T, o.TD), o.A, o.P)
	case "move":
		return fmt.Sprintf("move<%s> a%d/p%d -> a%d/p%d", TArgName[o.T], o.A, o.P, o.A2, o.P2)
	case "each":
		return fmt.Sprintf("each a%d stop=%d", o.A, o.Stop)
	}
	return fmt.Sprintf("%s a%d/p%d", o.Op, o.A, o.P)
}

type MapExec struct {
	Script bool    `json:"script,omitempty"`
	Ops    []MapOp `json:"ops"`
	Inject *Inject `json:"inject,omitempty"` // injected failure (nil: none); {panic, Pos=len(Ops)} is a plain abort at the end
}

type MapHistory struct {
	Execs []MapExec `json:"execs"`
}

func acc(a int) string  { return fmt.Sprintf("a%d", a) }
func path(p int) string { return fmt.Sprintf("/storage/p%d", p) }

// borrowRead is the expression that reads through reference r of type &T.
func borrowRead(t int, r string) string {
	switch t {
	case KInt, KString, KArr:
		return "C.show(*" + r + ")"
	case KS, KR, TI, TRI:
		return r + ".tag()"
	case KS2:
		return `"S2:".concat(` + r + ".y)"
	case KR2:
		return `"R2:".concat(` + r + ".id.toString())"
	case TAnyStruct, TAnyResource:
		return `"type:".concat(` + r + ".getType().identifier)"
	case TArrAny:
		return `"len:".concat(` + r + ".length.toString())"
	}
	panic("bad type arg")
}

func valueShow(t int, v string) string {
	if t == TArrAny {
		return `"len:".concat(` + v + ".length.toString())"
	}
	return "C.show(" + v + ")"
}

func renderOp(i int, o MapOp) (lines []string) {
	a, p := acc(o.A), path(o.P)
	w := func(f string, args ...any) { lines = append(lines, fmt.Sprintf(f, args...)) }
	switch o.Op {
	case "save":
		expr := valExpr(o.K, o.N)
		if o.F != FPlain {
			ty, bind := tArgCad[o.K]+strings.Repeat("?", max(1, min(o.F, 2))), "="
			if kindIsResource(o.K) {
				bind = "<-"
			}
			init := strings.TrimPrefix(expr, "<- ")
			if o.F == FNil {
				ty, init = tArgCad[o.K]+"?", "nil"
			}
			w(`let sv%d: %s %s %s`, i, ty, bind, init)
			expr = fmt.Sprintf("sv%d", i)
			if kindIsResource(o.K) {
				expr = "<- " + expr
			}
		}
		w(`%s.storage.save(%s, to: %s)`, a, expr, p)
		w(`log("%d:save")`, i)
	case "load":
		switch {
		case TArgIsResource(o.T) && o.TD == 0 && !o.Generic:
			w(`if let v%d <- %s.storage.load<%s>(from: %s) { log("%d:load:".concat(C.showR(&v%d as &AnyResource))); destroy v%d } else { log("%d:load:nil") }`,
				i, a, tArgCad[o.T], p, i, i, i, i)
		case TArgIsResource(o.T):
			w(`let v%d <- %s.storage.load<%s>(from: %s)`, i, a, tArgCadD(o.T, o.TD), p)
			w(`if let u%d <- v%d { log("%d:load:some"); destroy u%d } else { log("%d:load:nil") }`, i, i, i, i, i)
		default:
			w(`let v%d = %s.storage.load<%s>(from: %s)`, i, a, tArgCadD(o.T, o.TD), p)
			w(`log("%d:load:".concat(C.showAny(v%d)))`, i, i)
		}
	case "copy":
		w(`let v%d = %s.storage.copy<%s>(from: %s)`, i, a, tArgCadD(o.T, o.TD), p)
		w(`log("%d:copy:".concat(C.showAny(v%d)))`, i, i)
	case "borrow":
		w(`if let r%d = %s.storage.borrow<%s>(from: %s) { log("%d:borrow:".concat(%s)) } else { log("%d:borrow:nil") }`,
			i, a, tArgRef(o.T), p, i, borrowRead(o.T, fmt.Sprintf("r%d", i)), i)
	case "check":
		w(`log("%d:check:".concat(%s.storage.check<%s>(from: %s) ? "true" : "false"))`, i, a, tArgCadD(o.T, o.TD), p)
	case "type":
		w(`log("%d:type:".concat(%s.storage.type(at: %s)?.identifier ?? "nil"))`, i, a, p)
	case "paths":
		w(`log("%d:paths:".concat(C.joinPaths(%s.storage.storagePaths)))`, i, a)
	case "each":
		w(`var s%d = ""`, i)
		w(`var n%d = 0`, i)
		w(`%s.storage.forEachStored(fun (p: StoragePath, t: Type): Bool { s%d = s%d.concat(p.toString()).concat("=").concat(t.identifier).concat(","); n%d = n%d + 1; return %d == 0 || n%d < %d })`,
			a, i, i, i, i, o.Stop, i, o.Stop)
		w(`log("%d:each:".concat(s%d))`, i, i)
	case "move":
		b, q := acc(o.A2), path(o.P2)
		if TArgIsResource(o.T) {
			w(`if let v%d <- %s.storage.load<%s>(from: %s) { %s.storage.save(<- v%d, to: %s); log("%d:move:ok") } else { log("%d:move:nil") }`,
				i, a, tArgCad[o.T], p, b, i, q, i, i)
		} else {
			w(`if let v%d = %s.storage.load<%s>(from: %s) { %s.storage.save(v%d, to: %s); log("%d:move:ok") } else { log("%d:move:nil") }`,
				i, a, tArgCad[o.T], p, b, i, q, i, i)
		}
	default:
		panic("bad op " + o.Op)
	}
	return lines
}

// Source renders the execution as a Cadence transaction or script. Transactions
// end with log("END") as their last statement (C24's marker).
func (e MapExec) Source() string {
	groups := make([][]string, len(e.Ops))
	for i, o := range e.Ops {
		groups[i] = renderOp(i, o)
	}
	return Wrap("import C from 0x1\n", e.Script, groups, e.Inject)
}

// Step converts the execution into a prog.Step.
func (e MapExec) Step() prog.Step {
	if e.Script {
		return prog.Step{Kind: prog.Script, Source: e.Source(), MayFail: true}
	}
	return prog.Step{Kind: prog.Tx, Source: e.Source(), Signers: []uint64{1, 2, 3}, MayFail: true}
}

// MapDeployStep deploys the contract the histories import.
func MapDeployStep() prog.Step {
	return prog.Step{Kind: prog.Deploy, Name: "C", Source: MapContract, Signers: []uint64{1}}
}

// History converts the whole history (deployment, executions, final verification script).
func (h MapHistory) History() prog.History {
	out := prog.History{Origin: "storgen.map", Features: []string{"storage-map"}}
	out.Steps = append(out.Steps, MapDeployStep())
	for _, e := range h.Execs {
		out.Steps = append(out.Steps, e.Step())
	}
	out.Steps = append(out.Steps, prog.Step{Kind: prog.Script, Source: MapVerifyScript})
	return out
}

// ---- model ----------------------------------------------------------------

type MapCell struct{ K, N, F int }

// Dyn is the dynamic type of the stored value.
func (c *MapCell) Dyn() DynType { return DynOf(c.K, c.F) }

// payload is what C.showAny / the readers print for the value.
func (c *MapCell) payload() string {
	if c.F == FNil {
		return "nil"
	}
	return Show(c.K, c.N)
}

// MapState is the committed (or in-flight) content of all cells; cells are immutable, so
// copying the array is a snapshot.
type MapState [MapAccounts][MapPaths]*MapCell

// ExpLog is one expected log line. Kind "exact": Text; "paths": Text is the prefix
// and Set the expected set of comma-terminated items in any order; "each": like
// paths but only Count distinct members of Set are expected; "oneof": Text followed by one of Set.
type ExpLog struct {
	Kind  string
	Text  string
	Set   []string
	Count int
}

func (x ExpLog) String() string {
	if x.Kind == "exact" {
		return x.Text
	}
	if x.Kind == "oneof" {
		return x.Text + "{" + strings.Join(x.Set, " | ") + "}"
	}
	return fmt.Sprintf("%s{%d of %v}", x.Text, x.Count, x.Set)
}

// Match compares an actual (unquoted) log line with the expectation.
func (x ExpLog) Match(actual string) bool {
	if x.Kind == "exact" {
		return actual == x.Text
	}
	if x.Kind == "oneof" { // Text is the prefix, Set the admissible remainders
		for _, alt := range x.Set {
			if actual == x.Text+alt {
				return true
			}
		}
		return false
	}
	if !strings.HasPrefix(actual, x.Text) {
		return false
	}
	rest := actual[len(x.Text):]
	var items []string
	if rest != "" {
		if !strings.HasSuffix(rest, ",") {
			return false
		}
		items = strings.Split(strings.TrimSuffix(rest, ","), ",")
	}
	if len(items) != x.Count {
		return false
	}
	allowed := map[string]bool{}
	for _, s := range x.Set {
		allowed[s] = true
	}
	seen := map[string]bool{}
	for _, it := range items {
		if !allowed[it] || seen[it] {
			return false
		}
		seen[it] = true
	}
	return true
}

// MapExpect is the model's prediction for one execution.
type MapExpect struct {
	Logs []ExpLog
	// Fail: "" (succeeds), "overwrite", "mismatch", "inject".
	Fail      string
	InjectErr string // error type of an injected failure
	// Commits: the execution is a successful transaction (its effects persist).
	Commits bool
	// facts for the non-triviality rule
	MutatedBeforeFail bool // a failing/aborting execution (or a script) changed storage in memory first
	Mismatch          bool // a type-mismatching access occurred (error or check==false on an occupied path)
	Accounts          int  // bit set of accounts touched
	Mutations         int
}

// FailErrorType is the Go error type name expected at the root of the failure.
func (e MapExpect) FailErrorType() string {
	switch e.Fail {
	case "overwrite":
		return "OverwriteError"
	case "mismatch":
		return "StoredValueTypeMismatchError"
	case "inject":
		return e.InjectErr
	}
	return ""
}

type MapModel struct {
	State MapState
	draws int
}

func (m *MapModel) pathSet(a int) []string {
	var out []string
	for p := 0; p < MapPaths; p++ {
		if m.State[a][p] != nil {
			out = append(out, path(p))
		}
	}
	return out
}

func (m *MapModel) pathTypeSet(a int) []string {
	var out []string
	for p := 0; p < MapPaths; p++ {
		if c := m.State[a][p]; c != nil {
			out = append(out, path(p)+"="+c.Dyn().Ident())
		}
	}
	return out
}

// apply runs one operation on the in-flight state. It returns the expected log
// lines and the failure kind ("" if the operation succeeds).
func (m *MapModel) apply(i int, o MapOp, x *MapExpect) (logs []ExpLog, fail string) {
	exact := func(f string, args ...any) {
		logs = append(logs, ExpLog{Kind: "exact", Text: fmt.Sprintf("%d:", i) + fmt.Sprintf(f, args...)})
	}
	x.Accounts |= 1 << o.A
	c := m.State[o.A][o.P]
	oneof := func(prefix string, alts ...string) {
		logs = append(logs, ExpLog{Kind: "oneof", Text: fmt.Sprintf("%d:%s", i, prefix), Set: alts})
	}
	// value read by load/copy: the innermost payload as printed by C.showAny
	valueLog := func(op string) {
		switch {
		case o.T == TArrAny && c.F != FNil:
			// the array may or may not have been converted to the static type [AnyStruct]
			oneof(op+":", Show(c.K, c.N), fmt.Sprintf("arr:%d", arrLen(c.N)))
		default:
			exact("%s:%s", op, c.payload())
		}
	}
	switch o.Op {
	case "save":
		if c != nil {
			return nil, "overwrite"
		}
		m.State[o.A][o.P] = &MapCell{o.K, o.N, o.F}
		x.Mutations++
		exact("save")
	case "load":
		if c == nil {
			exact("load:nil")
			break
		}
		if !SubDyn(c.Dyn(), o.T, o.TD) {
			x.Mismatch = true
			// the value is removed before the type check fails: storage was mutated in memory
			x.Mutations++
			return nil, "mismatch"
		}
		m.State[o.A][o.P] = nil
		x.Mutations++
		switch {
		case TArgIsResource(o.T) && o.TD == 0 && !o.Generic:
			if c.F == FPlain {
				exact("load:%s", Show(c.K, c.N))
			} else {
				// whether C.showR's reference casts look through the optional (and whether a stored nil is
				// flattened) is not part of the statement; the generator asks for Generic loads here
				oneof("load:", "?", "nil", c.payload())
			}
		case TArgIsResource(o.T):
			if c.F == FNil {
				oneof("load:", "nil", "some")
			} else {
				exact("load:some")
			}
		default:
			valueLog("load")
		}
	case "copy":
		if c == nil {
			exact("copy:nil")
			break
		}
		if !SubDyn(c.Dyn(), o.T, o.TD) {
			x.Mismatch = true
			return nil, "mismatch"
		}
		valueLog("copy")
	case "borrow":
		if c == nil {
			exact("borrow:nil")
			break
		}
		if !SubDyn(c.Dyn(), o.T, 0) {
			x.Mismatch = true
			return nil, "mismatch"
		}
		switch o.T {
		case TAnyStruct, TAnyResource:
			exact("borrow:type:%s", c.Dyn().Ident())
		case TArrAny:
			exact("borrow:len:%d", arrLen(c.N))
		default:
			exact("borrow:%s", Show(c.K, c.N))
		}
	case "check":
		ok := c != nil && SubDyn(c.Dyn(), o.T, o.TD)
		if c != nil && !ok {
			x.Mismatch = true
		}
		exact("check:%v", ok)
	case "type":
		if c == nil {
			exact("type:nil")
		} else {
			exact("type:%s", c.Dyn().Ident())
		}
	case "paths":
		set := m.pathSet(o.A)
		logs = append(logs, ExpLog{Kind: "paths", Text: fmt.Sprintf("%d:paths:", i), Set: set, Count: len(set)})
	case "each":
		set := m.pathTypeSet(o.A)
		n := len(set)
		if o.Stop > 0 && o.Stop < n {
			n = o.Stop
		}
		logs = append(logs, ExpLog{Kind: "each", Text: fmt.Sprintf("%d:each:", i), Set: set, Count: n})
	case "move":
		x.Accounts |= 1 << o.A2
		if c == nil {
			exact("move:nil")
			break
		}
		if !SubDyn(c.Dyn(), o.T, 0) {
			x.Mismatch = true
			x.Mutations++
			return nil, "mismatch"
		}
		m.State[o.A][o.P] = nil
		x.Mutations++
		if m.State[o.A2][o.P2] != nil {
			return nil, "overwrite"
		}
		m.State[o.A2][o.P2] = c
		exact("move:ok")
	default:
		panic("bad op " + o.Op)
	}
	return logs, ""
}

// Apply performs one operation on the in-flight state without logging (ok=false: the operation fails).
func (m *MapModel) Apply(o MapOp) bool {
	var x MapExpect
	_, fail := m.apply(0, o, &x)
	return fail == ""
}

// Step predicts one execution and advances the committed state.
func (m *MapModel) Step(e MapExec) MapExpect {
	before := m.State
	var x MapExpect
	j := e.Inject
	for i, o := range e.Ops {
		if j.InBody() && j.Pos == i {
			x.Fail = "inject"
			break
		}
		logs, fail := m.apply(i, o, &x)
		x.Logs = append(x.Logs, logs...)
		if fail != "" {
			x.Fail = fail
			break
		}
	}
	if x.Fail == "" && j != nil {
		x.Fail = "inject"
		if j.Kind == "post" && !e.Script {
			// the code ran to its end; only the post-condition fails
			x.Logs = append(x.Logs, ExpLog{Kind: "exact", Text: "END"})
		}
	}
	if x.Fail == "inject" {
		x.InjectErr = j.ErrorType()
		if e.Script && !j.InBody() {
			x.InjectErr = "PanicError"
		}
		if j.Mutate != "" || j.Kind == "mismatch-load" {
			x.Mutations++
		}
	}
	if x.Fail == "" && !e.Script {
		x.Logs = append(x.Logs, ExpLog{Kind: "exact", Text: "END"})
		x.Commits = true
	} else {
		x.MutatedBeforeFail = x.Mutations > 0
		m.State = before
	}
	return x
}

// ---- verification script ------------------------------------------------------

// MapVerifyScript reads, through the ledger only, everything the model knows:
// storagePaths of each account and, for each of the 4 paths, type(at:), the
// value (copy / borrow) and check<T> for every type argument.
var MapVerifyScript = func() string {
	var sb strings.Builder
	sb.WriteString(`import C from 0x1
access(all) fun main(): [String] {
  var out: [String] = []
  let addrs: [Address] = [0x1, 0x2, 0x3]
  let paths: [StoragePath] = [/storage/p0, /storage/p1, /storage/p2, /storage/p3]
  for addr in addrs {
    let a = getAuthAccount<auth(Storage) &Account>(addr)
    out.append("paths:".concat(C.joinPaths(a.storage.storagePaths)))
    for p in paths {
      var s = "-"
      if let t = a.storage.type(at: p) {
        s = t.identifier.concat("=")
        if t.isSubtype(of: Type<AnyStruct>()) {
          s = s.concat(C.showAny(a.storage.copy<AnyStruct>(from: p)))
        } else {
          s = s.concat(C.showRR(a.storage.borrow<&AnyResource>(from: p)!))
        }
      }
      s = s.concat("|")
`)
	for td := 0; td <= MaxTArgDepth; td++ {
		for t := 0; t < NTArgs; t++ {
			fmt.Fprintf(&sb, "      s = s.concat(a.storage.check<%s>(from: p) ? \"1\" : \"0\")\n", tArgCadD(t, td))
		}
	}
	sb.WriteString(`      out.append(s)
    }
  }
  return out
}
`)
	return sb.String()
}()

// VerifyExpect is what MapVerifyScript must return for the state (the "paths:" lines
// are canonicalised by CanonVerify before comparison).
func (s MapState) VerifyExpect() []string {
	var out []string
	m := MapModel{State: s}
	for a := 0; a < MapAccounts; a++ {
		set := m.pathSet(a)
		sort.Strings(set)
		out = append(out, "paths:"+strings.Join(set, ","))
		for p := 0; p < MapPaths; p++ {
			c := s[a][p]
			line := "-"
			if c != nil {
				line = c.Dyn().Ident() + "="
				switch {
				case !c.Dyn().isResource():
					line += c.payload()
				case c.F == FPlain:
					line += Show(c.K, c.N)
				default:
					line += "?" // C.showRR dispatches on the exact type; optional resources are identified by their type only
				}
			}
			line += "|"
			for td := 0; td <= MaxTArgDepth; td++ {
				for t := 0; t < NTArgs; t++ {
					if c != nil && SubDyn(c.Dyn(), t, td) {
						line += "1"
					} else {
						line += "0"
					}
				}
			}
			out = append(out, line)
		}
	}
	return out
}

// CanonVerify sorts the members of the "paths:" lines of an actual script result.
func CanonVerify(lines []string) []string {
	out := make([]string, len(lines))
	for i, l := range lines {
		if strings.HasPrefix(l, "paths:") {
			items := strings.Split(strings.TrimSuffix(strings.TrimPrefix(l, "paths:"), ","), ",")
			if len(items) == 1 && items[0] == "" {
				items = nil
			}
			sort.Strings(items)
			l = "paths:" + strings.Join(items, ",")
		}
		out[i] = l
	}
	return out
}

// ---- generator ----------------------------------------------------------------

// MapGenConfig bounds the generator.
type MapGenConfig struct {
	MaxExecs int // default 25
	MaxOps   int // default 5
	// Injections: 35% of the executions get a failure injector (C24); otherwise ~12% of the
	// transactions abort with a panic at the end or midway (C22).
	Injections bool
	// AvoidNilBorrowAnyResource keeps borrow<&AnyResource> away from paths that hold a stored nil (finding FG3 of
	// C22); set by the properties that only reuse these histories.
	AvoidNilBorrowAnyResource bool
}

func validTArgs(op string) []int {
	switch op {
	case "copy":
		return []int{KInt, KString, KArr, KS, KS2, TAnyStruct, TI, TArrAny}
	case "move":
		// [AnyStruct] is left out: whether a value loaded at a supertype keeps its dynamic type is not part of the statement
		return []int{KInt, KString, KArr, KS, KS2, KR, KR2, TAnyStruct, TAnyResource, TI, TRI}
	}
	out := make([]int, NTArgs)
	for i := range out {
		out[i] = i
	}
	return out
}

// GenMapHistory draws a history. The generator is steered by the model (it prefers
// empty paths for save and occupied paths / compatible type arguments for reads) so
// that most transactions get past their first operation, while a fixed share of
// occupied-save, empty-read and type-mismatching accesses is kept.
func GenMapHistory(s Src, cfg MapGenConfig) MapHistory {
	if cfg.MaxExecs == 0 {
		cfg.MaxExecs = 25
	}
	if cfg.MaxOps == 0 {
		cfg.MaxOps = 5
	}
	var h MapHistory
	m := &MapModel{}
	n := 1 + s.Intn("execs", cfg.MaxExecs)
	for len(h.Execs) < n {
		e := MapExec{}
		e.Script = chance(s, "script", 15)
		nOps := 1 + s.Intn("nops", cfg.MaxOps)
		scratch := &MapModel{State: m.State, draws: m.draws}
		m.draws += nOps
		var x MapExpect
		for i := 0; i < nOps; i++ {
			o := genMapOp(s, scratch)
			if c := scratch.State[o.A][o.P]; o.Op == "borrow" && o.T == TAnyResource && c != nil && c.F == FNil &&
				(cfg.AvoidNilBorrowAnyResource || !chance(s, "fg3cell", 20)) {
				o.T = TAnyStruct
			}
			e.Ops = append(e.Ops, o)
			if _, fail := scratch.apply(i, o, &x); fail != "" {
				break // everything after a failing operation would be dead code
			}
		}
		switch {
		case cfg.Injections && chance(s, "inject", 35):
			e.Inject = GenInject(s, len(e.Ops), e.Script)
		case !e.Script && chance(s, "abort", 12):
			e.Inject = &Inject{Kind: "panic", Pos: len(e.Ops)}
			if chance(s, "midway", 40) {
				e.Inject.Pos = s.Intn("abortpos", len(e.Ops)+1)
			}
		}
		h.Execs = append(h.Execs, e)
		m.Step(e)
	}
	return h
}

var mapOpNames = []string{"save", "load", "borrow", "copy", "check", "move", "type", "paths", "each"}

func genMapOp(s Src, m *MapModel) MapOp {
	m.draws++
	o := MapOp{Op: mapOpNames[pickRot(s, "op", m.draws, 5, 4, 3, 2, 2, 3, 1, 1, 1)]}
	var empty, full [][2]int
	for a := 0; a < MapAccounts; a++ {
		for p := 0; p < MapPaths; p++ {
			if m.State[a][p] == nil {
				empty = append(empty, [2]int{a, p})
			} else {
				full = append(full, [2]int{a, p})
			}
		}
	}
	cell := func(label string, prefer [][2]int) (int, int) {
		if len(prefer) > 0 && !chance(s, label+"-any", 25) {
			c := prefer[s.Intn(label, len(prefer))]
			return c[0], c[1]
		}
		return s.Intn(label+"-a", MapAccounts), s.Intn(label+"-p", MapPaths)
	}
	switch o.Op {
	case "save":
		o.A, o.P = cell("cell", empty)
		o.K = s.Intn("kind", NKinds)
		o.N = s.Intn("payload", 60)
		if chance(s, "optional", 30) {
			o.F = 1 + s.Intn("form", NForms-1)
		}
	case "paths":
		o.A = s.Intn("acct", MapAccounts)
	case "each":
		o.A = s.Intn("acct", MapAccounts)
		o.Stop = s.Intn("stop", 4)
	case "type":
		o.A, o.P = cell("cell", full)
	default:
		o.A, o.P = cell("cell", full)
		valid := validTArgs(o.Op)
		o.T = valid[s.Intn("targ", len(valid))]
		maxTD := MaxTArgDepth
		if o.Op == "borrow" || o.Op == "move" {
			maxTD = 0 // references to optional types cannot be written; move keeps to plain type arguments
		}
		if maxTD > 0 && chance(s, "targopt", 35) {
			o.TD = 1 + s.Intn("targdepth", maxTD)
		}
		c := m.State[o.A][o.P]
		if c != nil && !chance(s, "mismatch", 30) {
			// prefer an accepting type argument (at the drawn depth, else at any depth)
			var sup [][2]int
			for td := 0; td <= maxTD; td++ {
				for _, t := range valid {
					if SubDyn(c.Dyn(), t, td) && (td == o.TD || c.F != FPlain) {
						sup = append(sup, [2]int{t, td})
					}
				}
			}
			if len(sup) > 0 {
				pick := sup[s.Intn("suptarg", len(sup))]
				o.T, o.TD = pick[0], pick[1]
			}
		}
		if o.Op == "load" && (o.TD > 0 || (c != nil && c.F != FPlain)) {
			o.Generic = true
		}
		if o.Op == "move" && c != nil && c.F != FPlain && SubDyn(c.Dyn(), o.T, 0) {
			// moving an optional value through `if let` would re-box it: make it a plain load instead
			o.Op, o.Generic = "load", true
		}
		if o.Op == "move" {
			o.A2, o.P2 = cell("dest", empty)
		}
	}
	return o
}

// MapValueIsBig reports whether the value is stored in slabs of its own (not inlined).
func MapValueIsBig(k, n int) bool {
	switch k {
	case KString:
		return len(strPayload(n)) >= 600
	case KArr:
		return arrLen(n) >= bigLen
	case KS, KR:
		return compLen(n) >= bigLen
	}
	return false
}
