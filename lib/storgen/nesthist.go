package storgen

// C23: removal-heavy histories over nested containers and resources. A
// NestHistory creates, mutates, moves and destroys "Box" resources that hold
// arrays, big strings, dictionaries of arrays, struct fields with nested
// containers (plain and optional), nested resources in a dictionary, an array
// and an optional field, and an attachment; plus top-level struct values that
// are overwritten and copied between accounts. NestModel mirrors the structure
// in Go: it steers the generator towards valid, removal-heavy operations and
// predicts the description of the whole committed state, which a ledger-only
// script must reproduce after every committed transaction.

import (
	"encoding/hex"
	"fmt"
	"sort"

	"verif/lib/prog"
)

const (
	NestAccounts  = 3
	NestBoxPaths  = 3 // /storage/b0..b2 hold @N.Box
	NestLeafPaths = 2 // /storage/l0..l1 hold N.Leaf
	NestKidKeys   = 4
	NestDictKeys  = 4
	NestMaxDepth  = 3
)

// NestContract is deployed as "N" to account 0x1.
const NestContract = `access(all) contract N {
  access(all) fun range(_ from: Int, _ n: Int): [Int] {
    var r: [Int] = []
    var i = 0
    while i < n { r.append(from + i); i = i + 1 }
    return r
  }
  access(all) fun str(_ k: Int, _ n: Int): String {
    var s = "s".concat(k.toString())
    while s.length * 2 <= n { s = s.concat(s) }
    while s.length < n { s = s.concat("x") }
    return s
  }
  access(all) fun da(_ a: [Int]): String {
    var sum = 0
    for e in a { sum = sum + e }
    return a.length.toString().concat("/").concat(sum.toString())
  }
  access(all) fun keys(): [String] { return ["k0", "k1", "k2", "k3"] }
  access(all) fun mkMap(_ from: Int, _ n: Int): {Int: Int} {
    var m: {Int: Int} = {}
    var i = 0
    while i < n { m[from + i] = from + i + 1; i = i + 1 }
    return m
  }
  access(all) fun fail(_ m: String) { panic(m) }

  access(all) struct Leaf {
    access(all) let tag: Int
    access(mapping Identity) var data: [Int]
    access(mapping Identity) var names: {String: [Int]}
    init(_ tag: Int, _ n: Int) { self.tag = tag; self.data = N.range(tag, n); self.names = {} }
    access(all) fun grow(_ n: Int) { self.data.appendAll(N.range(self.data.length, n)) }
    access(all) fun shrink(_ n: Int) { var i = 0; while i < n && self.data.length > 0 { self.data.removeLast(); i = i + 1 } }
    access(all) fun swapData(_ d: [Int]): [Int] { let old = self.data; self.data = d; return old }
    access(all) fun setName(_ k: String, _ v: [Int]) { self.names[k] = v }
    access(all) fun dropName(_ k: String) { self.names.remove(key: k) }
    access(all) fun desc(): String {
      var s = "L".concat(self.tag.toString()).concat("(").concat(N.da(self.data)).concat(";{")
      for k in N.keys() { if let v = self.names[k] { s = s.concat(k).concat(":").concat(N.da(v)).concat(",") } }
      return s.concat("})")
    }
  }

  access(all) attachment Att for Box {
    access(all) var notes: [Int]
    init(_ n: Int) { self.notes = N.range(0, n) }
    access(all) fun add(_ n: Int) { self.notes.appendAll(N.range(self.notes.length, n)) }
    access(all) fun d(): String { return N.da(self.notes) }
  }

  access(all) resource Box {
    access(all) let id: Int
    access(mapping Identity) var arr: [Int]
    access(mapping Identity) var strs: [String]
    access(mapping Identity) var dict: {String: [Int]}
    access(all) var leaf: Leaf
    access(all) var optLeaf: Leaf?
    access(all) var optStr: String?
    access(all) var optArr: [Int]?
    access(mapping Identity) var grid: [[Int]]
    access(mapping Identity) var ogrid: [[Int]?]
    access(mapping Identity) var deep: [[[Int]]]
    access(mapping Identity) var maps: {String: {Int: Int}}
    access(mapping Identity) var kids: @{Int: Box}
    access(mapping Identity) var list: @[Box]
    access(mapping Identity) var opt: @Box?
    init(_ id: Int, _ n: Int) {
      self.id = id; self.arr = N.range(id, n); self.strs = []; self.dict = {}
      self.leaf = Leaf(id, 0); self.optLeaf = nil; self.optStr = nil; self.optArr = nil
      self.grid = []; self.ogrid = []; self.deep = []; self.maps = {}
      self.kids <- {}; self.list <- []; self.opt <- nil
    }
    access(all) fun setArr(_ a: [Int]) { self.arr = a }
    access(all) fun arrDrop(_ n: Int, _ mode: Int) {
      var i = 0
      while i < n && self.arr.length > 0 {
        if mode == 0 { self.arr.removeLast() } else if mode == 1 { self.arr.removeFirst() } else { self.arr.remove(at: self.arr.length / 2) }
        i = i + 1
      }
    }
    access(all) fun swapArrLeaf() { self.arr = self.leaf.swapData(self.arr) }
    access(all) fun setLeaf(_ l: Leaf) { self.leaf = l }
    access(all) fun leafGrow(_ n: Int) { self.leaf.grow(n) }
    access(all) fun leafShrink(_ n: Int) { self.leaf.shrink(n) }
    access(all) fun leafName(_ k: String, _ v: [Int]) { self.leaf.setName(k, v) }
    access(all) fun leafDropName(_ k: String) { self.leaf.dropName(k) }
    access(all) fun setOptLeaf(_ l: Leaf?) { self.optLeaf = l }
    access(all) fun optLeafGrow(_ n: Int) { self.optLeaf!.grow(n) }
    access(all) fun gridInnerSet(_ i: Int, _ j: Int, _ v: Int) { self.grid[i][j] = v }
    access(all) fun deepInnerSet(_ i: Int, _ a: [Int]) { self.deep[i][0] = a }
    access(all) fun swapList(_ i: Int, _ b: @Box) { let old <- self.list.remove(at: i); self.list.insert(at: i, <- b); destroy old }
    access(all) fun forceKid(_ k: Int, _ b: @Box) { let old <- self.kids.remove(key: k); destroy old; self.kids[k] <-! b }
    access(all) fun setOptStr(_ s: String?) { self.optStr = s }
    access(all) fun setOptArr(_ a: [Int]?) { self.optArr = a }
    access(all) fun putKid(_ k: Int, _ b: @Box) { let old <- self.kids[k] <- b; destroy old }
    access(all) fun takeKid(_ k: Int): @Box { return <- self.kids.remove(key: k)! }
    access(all) fun kidRef(_ k: Int): auth(Mutate) &Box? { return &self.kids[k] as auth(Mutate) &Box? }
    access(all) fun listRef(_ i: Int): auth(Mutate) &Box { return &self.list[i] as auth(Mutate) &Box }
    access(all) fun optRef(): auth(Mutate) &Box? { return &self.opt as auth(Mutate) &Box? }
    access(all) fun setOpt(_ b: @Box?) { var x <- b; self.opt <-> x; destroy x }
    access(all) fun takeOpt(): @Box { var x: @Box? <- nil; self.opt <-> x; return <- x! }
    access(all) fun desc(): String {
      var s = "B".concat(self.id.toString()).concat("[a:").concat(N.da(self.arr))
      var total = 0
      for x in self.strs { total = total + x.length }
      s = s.concat(" s:").concat(self.strs.length.toString()).concat("/").concat(total.toString()).concat(" d:{")
      for k in N.keys() { if let v = self.dict[k] { s = s.concat(k).concat(":").concat(N.da(v)).concat(",") } }
      s = s.concat("} l:").concat(self.leaf.desc()).concat(" o:").concat(self.optLeaf?.desc() ?? "-").concat(" k:{")
      for k in [0, 1, 2, 3] { if let kid = &self.kids[k] as &Box? { s = s.concat(k.toString()).concat(":").concat(kid.desc()).concat(",") } }
      s = s.concat("} L:[")
      var i = 0
      while i < self.list.length { let e = &self.list[i] as &Box; s = s.concat(e.desc()).concat(","); i = i + 1 }
      s = s.concat("] O:")
      if let o = &self.opt as &Box? { s = s.concat(o.desc()) } else { s = s.concat("-") }
      s = s.concat(" S:")
      if let x = self.optStr { s = s.concat(x.length.toString()) } else { s = s.concat("-") }
      s = s.concat(" R:")
      if let x = self.optArr { s = s.concat(N.da(x)) } else { s = s.concat("-") }
      s = s.concat(" G:[")
      for g in self.grid { s = s.concat(N.da(g)).concat(",") }
      s = s.concat("] OG:[")
      for g in self.ogrid { if let x = g { s = s.concat(N.da(x)) } else { s = s.concat("-") }; s = s.concat(",") }
      s = s.concat("] DD:[")
      for g in self.deep { s = s.concat("["); for x in g { s = s.concat(N.da(x)).concat(",") }; s = s.concat("],") }
      s = s.concat("] M:{")
      for k in N.keys() { if let m = self.maps[k] { var t = 0; for kk in m.keys { t = t + kk + m[kk]! }; s = s.concat(k).concat(":").concat(m.length.toString()).concat("/").concat(t.toString()).concat(",") } }
      s = s.concat("} A:")
      if let a = self[Att] { s = s.concat(a.d()) } else { s = s.concat("-") }
      return s.concat("]")
    }
  }
  access(all) fun mk(_ id: Int, _ n: Int): @Box { return <- create Box(id, n) }
}`

// NestVerifyScript describes every cell of the committed state.
const NestVerifyScript = `import N from 0x1
access(all) fun main(): [String] {
  var out: [String] = []
  let addrs: [Address] = [0x1, 0x2, 0x3]
  for addr in addrs {
    let a = getAuthAccount<auth(Storage) &Account>(addr)
    for p in [/storage/b0, /storage/b1, /storage/b2] {
      if let b = a.storage.borrow<&N.Box>(from: p) { out.append(b.desc()) } else { out.append("-") }
    }
    for p in [/storage/l0, /storage/l1] {
      if let l = a.storage.borrow<&N.Leaf>(from: p) { out.append(l.desc()) } else { out.append("-") }
    }
    out.append(a.storage.storagePaths.length.toString())
    var names = ""
    for n in a.contracts.names { names = names.concat(n).concat(",") }
    out.append(names)
  }
  return out
}`

// ---- model ----------------------------------------------------------------

func rng(from, n int) []int {
	out := make([]int, n)
	for i := range out {
		out[i] = from + i
	}
	return out
}

func da(a []int) string {
	sum := 0
	for _, e := range a {
		sum += e
	}
	return fmt.Sprintf("%d/%d", len(a), sum)
}

func nestKey(k int) string { return fmt.Sprintf("k%d", k) }

type NLeaf struct {
	Tag   int
	Data  []int
	Names map[string][]int
}

func newLeaf(tag, n int) *NLeaf { return &NLeaf{Tag: tag, Data: rng(tag, n), Names: map[string][]int{}} }

func (l *NLeaf) clone() *NLeaf {
	if l == nil {
		return nil
	}
	c := &NLeaf{Tag: l.Tag, Data: append([]int(nil), l.Data...), Names: map[string][]int{}}
	for k, v := range l.Names {
		c.Names[k] = append([]int(nil), v...)
	}
	return c
}

func (l *NLeaf) desc() string {
	s := fmt.Sprintf("L%d(%s;{", l.Tag, da(l.Data))
	for k := 0; k < NestDictKeys; k++ {
		if v, ok := l.Names[nestKey(k)]; ok {
			s += nestKey(k) + ":" + da(v) + ","
		}
	}
	return s + "})"
}

// slabby reports whether the leaf holds a container too big to be inlined.
func (l *NLeaf) slabby() bool {
	if l == nil {
		return false
	}
	if len(l.Data) >= bigLen {
		return true
	}
	for _, v := range l.Names {
		if len(v) >= bigLen {
			return true
		}
	}
	return false
}

// bigLen: an [Int] of at least this many small elements exceeds atree's inline limit
// (~500 bytes) and lives in its own slab(s).
const bigLen = 120

type NBox struct {
	ID      int
	Arr     []int
	Strs    []int // string lengths
	Dict    map[string][]int
	Leaf    *NLeaf
	OptLeaf *NLeaf
	OptStr  int   // length of the optional string field, -1 = nil
	OptArr  []int // optional array field
	HasArr  bool
	Grid    [][]int
	OGrid   []*[]int          // nil entry = nil element
	Deep    [][][]int
	Maps    map[string][2]int // key -> (from, count) of N.mkMap
	Kids    map[int]*NBox
	List    []*NBox
	Opt     *NBox
	Att     []int // nil = no attachment
	HasAtt  bool
}

func newBox(id, n int) *NBox {
	return &NBox{ID: id, Arr: rng(id, n), Dict: map[string][]int{}, Leaf: newLeaf(id, 0), Kids: map[int]*NBox{}, OptStr: -1, Maps: map[string][2]int{}}
}

func (b *NBox) clone() *NBox {
	if b == nil {
		return nil
	}
	c := &NBox{ID: b.ID, Arr: append([]int(nil), b.Arr...), Strs: append([]int(nil), b.Strs...), Dict: map[string][]int{},
		Leaf: b.Leaf.clone(), OptLeaf: b.OptLeaf.clone(), OptStr: b.OptStr, OptArr: append([]int(nil), b.OptArr...), HasArr: b.HasArr, Kids: map[int]*NBox{}, Opt: b.Opt.clone(), HasAtt: b.HasAtt, Att: append([]int(nil), b.Att...)}
	for k, v := range b.Dict {
		c.Dict[k] = append([]int(nil), v...)
	}
	c.Maps = map[string][2]int{}
	for k, v := range b.Maps {
		c.Maps[k] = v
	}
	for _, g := range b.Grid {
		c.Grid = append(c.Grid, append([]int(nil), g...))
	}
	for _, g := range b.OGrid {
		if g == nil {
			c.OGrid = append(c.OGrid, nil)
		} else {
			cp := append([]int(nil), (*g)...)
			c.OGrid = append(c.OGrid, &cp)
		}
	}
	for _, g := range b.Deep {
		var cg [][]int
		for _, x := range g {
			cg = append(cg, append([]int(nil), x...))
		}
		c.Deep = append(c.Deep, cg)
	}
	for k, v := range b.Kids {
		c.Kids[k] = v.clone()
	}
	for _, v := range b.List {
		c.List = append(c.List, v.clone())
	}
	return c
}

func (b *NBox) desc() string {
	total := 0
	for _, l := range b.Strs {
		total += l
	}
	s := fmt.Sprintf("B%d[a:%s s:%d/%d d:{", b.ID, da(b.Arr), len(b.Strs), total)
	for k := 0; k < NestDictKeys; k++ {
		if v, ok := b.Dict[nestKey(k)]; ok {
			s += nestKey(k) + ":" + da(v) + ","
		}
	}
	s += "} l:" + b.Leaf.desc() + " o:"
	if b.OptLeaf != nil {
		s += b.OptLeaf.desc()
	} else {
		s += "-"
	}
	s += " k:{"
	for k := 0; k < NestKidKeys; k++ {
		if kid, ok := b.Kids[k]; ok {
			s += fmt.Sprintf("%d:%s,", k, kid.desc())
		}
	}
	s += "} L:["
	for _, e := range b.List {
		s += e.desc() + ","
	}
	s += "] O:"
	if b.Opt != nil {
		s += b.Opt.desc()
	} else {
		s += "-"
	}
	s += " S:"
	if b.OptStr >= 0 {
		s += fmt.Sprint(b.OptStr)
	} else {
		s += "-"
	}
	s += " R:"
	if b.HasArr {
		s += da(b.OptArr)
	} else {
		s += "-"
	}
	s += " G:["
	for _, g := range b.Grid {
		s += da(g) + ","
	}
	s += "] OG:["
	for _, g := range b.OGrid {
		if g == nil {
			s += "-,"
		} else {
			s += da(*g) + ","
		}
	}
	s += "] DD:["
	for _, g := range b.Deep {
		s += "["
		for _, x := range g {
			s += da(x) + ","
		}
		s += "],"
	}
	s += "] M:{"
	for k := 0; k < NestDictKeys; k++ {
		if v, ok := b.Maps[nestKey(k)]; ok {
			from, n := v[0], v[1]
			s += fmt.Sprintf("%s:%d/%d,", nestKey(k), n, 2*(n*from+n*(n-1)/2)+n)
		}
	}
	s += "} A:"
	if b.HasAtt {
		s += da(b.Att)
	} else {
		s += "-"
	}
	return s + "]"
}

// slabby: the box (sub)tree holds at least one non-inlinable container or string.
func (b *NBox) slabby() bool {
	if b == nil {
		return false
	}
	if len(b.Arr) >= bigLen || b.Leaf.slabby() || b.OptLeaf.slabby() || len(b.Att) >= bigLen || b.OptStr >= 600 || len(b.OptArr) >= bigLen {
		return true
	}
	for _, l := range b.Strs {
		if l >= 600 {
			return true
		}
	}
	for _, g := range b.Grid {
		if len(g) >= bigLen {
			return true
		}
	}
	for _, g := range b.OGrid {
		if g != nil && len(*g) >= bigLen {
			return true
		}
	}
	for _, g := range b.Deep {
		for _, x := range g {
			if len(x) >= bigLen {
				return true
			}
		}
	}
	for _, v := range b.Maps {
		if v[1] >= 40 {
			return true
		}
	}
	for _, v := range b.Dict {
		if len(v) >= bigLen {
			return true
		}
	}
	for _, k := range b.Kids {
		if k.slabby() {
			return true
		}
	}
	for _, k := range b.List {
		if k.slabby() {
			return true
		}
	}
	return b.Opt.slabby()
}

func (b *NBox) depth() int {
	d := 0
	for _, k := range b.Kids {
		d = max(d, k.depth())
	}
	for _, k := range b.List {
		d = max(d, k.depth())
	}
	if b.Opt != nil {
		d = max(d, b.Opt.depth())
	}
	return d + 1
}

// NestState is the content of all cells.
type NestState struct {
	Boxes  [NestAccounts][NestBoxPaths]*NBox
	Leaves [NestAccounts][NestLeafPaths]*NLeaf
	// Contracts deployed by the history: name index -> size of the array held by the contract value
	Contracts [NestAccounts]map[int]int
}

func (s *NestState) clone() *NestState {
	c := &NestState{}
	for a := 0; a < NestAccounts; a++ {
		if s.Contracts[a] != nil {
			c.Contracts[a] = map[int]int{}
			for k, v := range s.Contracts[a] {
				c.Contracts[a][k] = v
			}
		}
		for p := 0; p < NestBoxPaths; p++ {
			c.Boxes[a][p] = s.Boxes[a][p].clone()
		}
		for p := 0; p < NestLeafPaths; p++ {
			c.Leaves[a][p] = s.Leaves[a][p].clone()
		}
	}
	return c
}

// VerifyExpect is what NestVerifyScript must return.
func (s *NestState) VerifyExpect() []string {
	var out []string
	for a := 0; a < NestAccounts; a++ {
		n := 0
		for p := 0; p < NestBoxPaths; p++ {
			if b := s.Boxes[a][p]; b != nil {
				out = append(out, b.desc())
				n++
			} else {
				out = append(out, "-")
			}
		}
		for p := 0; p < NestLeafPaths; p++ {
			if l := s.Leaves[a][p]; l != nil {
				out = append(out, l.desc())
				n++
			} else {
				out = append(out, "-")
			}
		}
		out = append(out, fmt.Sprint(n))
		names := ""
		if a == 0 {
			names = "N,"
		}
		for _, k := range sortedKeys(s.Contracts[a]) {
			names += NestContractName(k) + ","
		}
		out = append(out, names)
	}
	return out
}

// NestContractName is the name of the k-th small contract the histories add and remove.
func NestContractName(k int) string { return fmt.Sprintf("T%d", k) }

// NestSmallContract is the code of such a contract (its value holds an array of n elements).
func NestSmallContract(k int, version int) string {
	return fmt.Sprintf(`access(all) contract T%d {
  access(all) var xs: [Int]
  access(all) fun version(): Int { return %d }
  init(_ n: Int) { self.xs = []; var i = 0; while i < n { self.xs.append(i); i = i + 1 } }
}`, k, version)
}

// ---- operations -------------------------------------------------------------

// Sel addresses a box: a top-level cell and a chain of steps into nested boxes.
type Sel struct {
	A     int      `json:"a"`
	P     int      `json:"p"`
	Chain []SelHop `json:"chain,omitempty"`
}

type SelHop struct {
	Via string `json:"via"` // "kid" | "list" | "opt"
	K   int    `json:"k,omitempty"`
}

func (s Sel) String() string {
	out := fmt.Sprintf("a%d/b%d", s.A, s.P)
	for _, h := range s.Chain {
		switch h.Via {
		case "kid":
			out += fmt.Sprintf(".kids[%d]", h.K)
		case "list":
			out += fmt.Sprintf(".list[%d]", h.K)
		default:
			out += ".opt"
		}
	}
	return out
}

func (s Sel) isPrefixOf(o Sel) bool {
	if s.A != o.A || s.P != o.P || len(s.Chain) > len(o.Chain) {
		return false
	}
	for i, h := range s.Chain {
		if o.Chain[i] != h {
			return false
		}
	}
	return true
}

func (s Sel) child(h SelHop) Sel {
	c := Sel{A: s.A, P: s.P, Chain: append(append([]SelHop(nil), s.Chain...), h)}
	return c
}

// NestOp is one operation. Kind selects the operation; Box is the target box (where
// applicable), Box2 a second box; K/K2 keys or indices; N a size; ID a fresh box id; Tag a leaf tag.
type NestOp struct {
	Kind string `json:"kind"`
	Box  Sel    `json:"box"`
	Box2 Sel    `json:"box2,omitempty"`
	K    int    `json:"k,omitempty"`
	K2   int    `json:"k2,omitempty"`
	N    int    `json:"n,omitempty"`
	ID   int    `json:"id,omitempty"`
	Mode int    `json:"mode,omitempty"`
	// leaf cells
	A  int `json:"a,omitempty"`
	P  int `json:"p,omitempty"`
	A2 int `json:"a2,omitempty"`
	P2 int `json:"p2,omitempty"`
}

func (o NestOp) String() string {
	switch o.Kind {
	case "create", "destroyTop":
		return fmt.Sprintf("%s %s id=%d n=%d", o.Kind, o.Box, o.ID, o.N)
	case "moveTop", "moveKid", "topToKid", "kidToTop", "listToKid", "optToKid":
		return fmt.Sprintf("%s %s[%d] -> %s[%d]", o.Kind, o.Box, o.K, o.Box2, o.K2)
	case "saveLeaf", "dropLeaf", "growStoredLeaf", "nameStoredLeaf":
		return fmt.Sprintf("%s a%d/l%d n=%d k=%d", o.Kind, o.A, o.P, o.N, o.K)
	case "copyLeaf":
		return fmt.Sprintf("copyLeaf a%d/l%d -> a%d/l%d", o.A, o.P, o.A2, o.P2)
	case "ctrAdd", "ctrUpdate", "ctrRemove":
		return fmt.Sprintf("%s a%d %s n=%d", o.Kind, o.A, NestContractName(o.K), o.N)
	}
	return fmt.Sprintf("%s %s k=%d k2=%d n=%d mode=%d id=%d", o.Kind, o.Box, o.K, o.K2, o.N, o.Mode, o.ID)
}

type NestExec struct {
	Ops    []NestOp `json:"ops"`
	Script bool     `json:"script,omitempty"` // run the operations in a script (nothing persists)
	Inject *Inject  `json:"inject,omitempty"` // injected failure; {panic, Pos=len(Ops)} is a plain abort at the end
}

// Fails reports whether the execution is constructed to fail.
func (e NestExec) Fails() bool { return e.Inject != nil }

type NestHistory struct {
	Execs []NestExec `json:"execs"`
}

// NestFacts are the facts of one execution relevant for the non-triviality rule.
type NestFacts struct {
	RemovedSlabby int // operations that removed / overwrote / destroyed / moved a non-inlined nested container
	Removals      int
	Moves         int
	// OverwroteMultiSlab: an index/key assignment replaced a container that spans several slabs
	OverwroteMultiSlab int
	// AddThenRemove: a contract was added and removed again in the same transaction
	AddThenRemove bool
	added         map[[2]int]bool
}

type NestModel struct {
	S      *NestState
	nextid int
	draws  int
}

func NewNestModel() *NestModel { return &NestModel{S: &NestState{}} }

func (m *NestModel) box(s Sel) *NBox {
	b := m.S.Boxes[s.A][s.P]
	for _, h := range s.Chain {
		if b == nil {
			return nil
		}
		switch h.Via {
		case "kid":
			b = b.Kids[h.K]
		case "list":
			if h.K >= len(b.List) {
				return nil
			}
			b = b.List[h.K]
		default:
			b = b.Opt
		}
	}
	return b
}

// allBoxes enumerates every box with its selector in a deterministic order.
func (m *NestModel) allBoxes() []Sel {
	var out []Sel
	var walk func(s Sel, b *NBox)
	walk = func(s Sel, b *NBox) {
		out = append(out, s)
		keys := make([]int, 0, len(b.Kids))
		for k := range b.Kids {
			keys = append(keys, k)
		}
		sort.Ints(keys)
		for _, k := range keys {
			walk(s.child(SelHop{"kid", k}), b.Kids[k])
		}
		for i, e := range b.List {
			walk(s.child(SelHop{"list", i}), e)
		}
		if b.Opt != nil {
			walk(s.child(SelHop{Via: "opt"}), b.Opt)
		}
	}
	for a := 0; a < NestAccounts; a++ {
		for p := 0; p < NestBoxPaths; p++ {
			if b := m.S.Boxes[a][p]; b != nil {
				walk(Sel{A: a, P: p}, b)
			}
		}
	}
	return out
}

func dropInts(a []int, n, mode int) []int {
	for i := 0; i < n && len(a) > 0; i++ {
		switch mode {
		case 0:
			a = a[:len(a)-1]
		case 1:
			a = a[1:]
		default:
			j := len(a) / 2
			a = append(a[:j:j], a[j+1:]...)
		}
	}
	return a
}

// Apply executes the operation on the model. ok=false means the operation is not
// applicable in the current state (the generator never emits such operations; a
// replayed/shrunk history may, and then the whole history is rejected as invalid).
func (m *NestModel) Apply(o NestOp, f *NestFacts) (ok bool) {
	s := m.S
	rm := func(slabby bool) {
		f.Removals++
		if slabby {
			f.RemovedSlabby++
		}
	}
	b := m.box(o.Box)
	switch o.Kind {
	case "create":
		if len(o.Box.Chain) != 0 {
			return false
		}
		if old := s.Boxes[o.Box.A][o.Box.P]; old != nil {
			rm(old.slabby())
		}
		s.Boxes[o.Box.A][o.Box.P] = newBox(o.ID, o.N)
		return true
	case "destroyTop":
		if b == nil || len(o.Box.Chain) != 0 {
			return false
		}
		rm(b.slabby())
		s.Boxes[o.Box.A][o.Box.P] = nil
		return true
	case "moveTop":
		if b == nil || len(o.Box.Chain) != 0 || len(o.Box2.Chain) != 0 {
			return false
		}
		s.Boxes[o.Box.A][o.Box.P] = nil
		if old := s.Boxes[o.Box2.A][o.Box2.P]; old != nil {
			rm(old.slabby())
		}
		s.Boxes[o.Box2.A][o.Box2.P] = b
		f.Moves++
		rm(b.slabby())
		return true
	case "saveLeaf":
		if old := s.Leaves[o.A][o.P]; old != nil {
			rm(old.slabby())
		}
		s.Leaves[o.A][o.P] = newLeaf(o.K, o.N)
		return true
	case "dropLeaf":
		l := s.Leaves[o.A][o.P]
		if l == nil {
			return false
		}
		rm(l.slabby())
		s.Leaves[o.A][o.P] = nil
		return true
	case "copyLeaf":
		l := s.Leaves[o.A][o.P]
		if l == nil {
			return false
		}
		if old := s.Leaves[o.A2][o.P2]; old != nil {
			rm(old.slabby())
		}
		s.Leaves[o.A2][o.P2] = l.clone()
		return true
	case "growStoredLeaf":
		l := s.Leaves[o.A][o.P]
		if l == nil {
			return false
		}
		l.Data = append(l.Data, rng(len(l.Data), o.N)...)
		return true
	case "nameStoredLeaf":
		l := s.Leaves[o.A][o.P]
		if l == nil {
			return false
		}
		if old, ok := l.Names[nestKey(o.K)]; ok {
			rm(len(old) >= bigLen)
		}
		if o.N < 0 {
			delete(l.Names, nestKey(o.K))
		} else {
			l.Names[nestKey(o.K)] = rng(o.K, o.N)
		}
		return true
	case "ctrAdd":
		if _, ok := s.Contracts[o.A][o.K]; ok {
			return false
		}
		if s.Contracts[o.A] == nil {
			s.Contracts[o.A] = map[int]int{}
		}
		s.Contracts[o.A][o.K] = o.N
		if f.added == nil {
			f.added = map[[2]int]bool{}
		}
		f.added[[2]int{o.A, o.K}] = true
		return true
	case "ctrUpdate":
		_, ok := s.Contracts[o.A][o.K]
		return ok
	case "ctrRemove":
		n, ok := s.Contracts[o.A][o.K]
		if !ok {
			return false
		}
		rm(n >= bigLen)
		delete(s.Contracts[o.A], o.K)
		if f.added[[2]int{o.A, o.K}] {
			f.AddThenRemove = true
		}
		return true
	}
	if b == nil {
		return false
	}
	switch o.Kind {
	case "arrAppend":
		b.Arr = append(b.Arr, rng(o.K, o.N)...)
	case "arrDrop":
		was := len(b.Arr) >= bigLen
		b.Arr = dropInts(b.Arr, o.N, o.Mode)
		rm(was && len(b.Arr) < bigLen)
	case "arrSet":
		rm(len(b.Arr) >= bigLen)
		b.Arr = rng(o.K, o.N)
	case "arrRemoveDirect":
		if o.K >= len(b.Arr) {
			return false
		}
		b.Arr = append(b.Arr[:o.K:o.K], b.Arr[o.K+1:]...)
		rm(false)
	case "swapArrLeaf":
		b.Arr, b.Leaf.Data = b.Leaf.Data, b.Arr
	case "strAppend":
		b.Strs = append(b.Strs, o.N)
	case "strDrop":
		if len(b.Strs) == 0 {
			return false
		}
		rm(b.Strs[len(b.Strs)-1] >= 600)
		b.Strs = b.Strs[:len(b.Strs)-1]
	case "strSet":
		if o.K >= len(b.Strs) {
			return false
		}
		rm(b.Strs[o.K] >= 600)
		b.Strs[o.K] = o.N
	case "dictPut":
		if old, ok := b.Dict[nestKey(o.K)]; ok {
			rm(len(old) >= bigLen)
		}
		b.Dict[nestKey(o.K)] = rng(o.K, o.N)
	case "dictDrop":
		old, ok := b.Dict[nestKey(o.K)]
		if !ok {
			return false
		}
		rm(len(old) >= bigLen)
		delete(b.Dict, nestKey(o.K))
	case "leafSet":
		rm(b.Leaf.slabby())
		b.Leaf = newLeaf(o.K, o.N)
	case "leafGrow":
		b.Leaf.Data = append(b.Leaf.Data, rng(len(b.Leaf.Data), o.N)...)
	case "leafShrink":
		was := b.Leaf.slabby()
		b.Leaf.Data = dropInts(b.Leaf.Data, o.N, 0)
		rm(was && !b.Leaf.slabby())
	case "leafName":
		if old, ok := b.Leaf.Names[nestKey(o.K)]; ok {
			rm(len(old) >= bigLen)
		}
		b.Leaf.Names[nestKey(o.K)] = rng(o.K, o.N)
	case "leafDropName":
		old, ok := b.Leaf.Names[nestKey(o.K)]
		if !ok {
			return false
		}
		rm(len(old) >= bigLen)
		delete(b.Leaf.Names, nestKey(o.K))
	case "optLeafSet":
		if b.OptLeaf != nil {
			rm(b.OptLeaf.slabby())
		}
		b.OptLeaf = newLeaf(o.K, o.N)
	case "optLeafClear":
		if b.OptLeaf == nil {
			return false
		}
		rm(b.OptLeaf.slabby())
		b.OptLeaf = nil
	case "optLeafGrow":
		if b.OptLeaf == nil {
			return false
		}
		b.OptLeaf.Data = append(b.OptLeaf.Data, rng(len(b.OptLeaf.Data), o.N)...)
	case "gridPush":
		b.Grid = append(b.Grid, rng(o.K, o.N))
	case "gridSet": // index assignment over an old (possibly multi-slab) inner array
		if o.K2 >= len(b.Grid) {
			return false
		}
		rm(len(b.Grid[o.K2]) >= bigLen)
		if len(b.Grid[o.K2]) >= 300 {
			f.OverwroteMultiSlab++
		}
		b.Grid[o.K2] = rng(o.K, o.N)
	case "gridInnerSet":
		if o.K2 >= len(b.Grid) || o.Mode >= len(b.Grid[o.K2]) {
			return false
		}
		b.Grid[o.K2][o.Mode] = o.K
	case "gridDrop":
		if o.K2 >= len(b.Grid) {
			return false
		}
		rm(len(b.Grid[o.K2]) >= bigLen)
		b.Grid = append(b.Grid[:o.K2:o.K2], b.Grid[o.K2+1:]...)
	case "ogridPush":
		if o.N < 0 {
			b.OGrid = append(b.OGrid, nil)
		} else {
			v := rng(o.K, o.N)
			b.OGrid = append(b.OGrid, &v)
		}
	case "ogridSet":
		if o.K2 >= len(b.OGrid) {
			return false
		}
		if old := b.OGrid[o.K2]; old != nil {
			rm(len(*old) >= bigLen)
			if len(*old) >= 300 {
				f.OverwroteMultiSlab++
			}
		}
		if o.N < 0 {
			b.OGrid[o.K2] = nil
		} else {
			v := rng(o.K, o.N)
			b.OGrid[o.K2] = &v
		}
	case "deepPush":
		b.Deep = append(b.Deep, [][]int{rng(o.K, o.N), rng(o.K+1, o.N)})
	case "deepSet":
		if o.K2 >= len(b.Deep) {
			return false
		}
		rm(len(b.Deep[o.K2][0]) >= bigLen || len(b.Deep[o.K2][1]) >= bigLen)
		if len(b.Deep[o.K2][1]) >= bigLen {
			f.OverwroteMultiSlab++
		}
		b.Deep[o.K2] = [][]int{rng(o.K, o.N), rng(o.K+1, o.N)}
	case "deepInnerSet":
		if o.K2 >= len(b.Deep) {
			return false
		}
		rm(len(b.Deep[o.K2][0]) >= bigLen)
		if len(b.Deep[o.K2][0]) >= 300 {
			f.OverwroteMultiSlab++
		}
		b.Deep[o.K2][0] = rng(o.K, o.N)
	case "mapsPut":
		if old, ok := b.Maps[nestKey(o.K2)]; ok {
			rm(old[1] >= 40)
			if old[1] >= 100 {
				f.OverwroteMultiSlab++
			}
		}
		b.Maps[nestKey(o.K2)] = [2]int{o.K, o.N}
	case "mapsDrop":
		old, ok := b.Maps[nestKey(o.K2)]
		if !ok {
			return false
		}
		rm(old[1] >= 40)
		delete(b.Maps, nestKey(o.K2))
	case "listSwap":
		if o.K >= len(b.List) {
			return false
		}
		rm(b.List[o.K].slabby())
		b.List[o.K] = newBox(o.ID, o.N)
	case "kidForce":
		if old, ok := b.Kids[o.K]; ok {
			rm(old.slabby())
		}
		b.Kids[o.K] = newBox(o.ID, o.N)
	case "optStrSet":
		if b.OptStr >= 0 {
			rm(b.OptStr >= 600)
		}
		b.OptStr = o.N
	case "optStrClear":
		if b.OptStr < 0 {
			return false
		}
		rm(b.OptStr >= 600)
		b.OptStr = -1
	case "optArrSet":
		if b.HasArr {
			rm(len(b.OptArr) >= bigLen)
		}
		b.HasArr, b.OptArr = true, rng(o.K, o.N)
	case "optArrClear":
		if !b.HasArr {
			return false
		}
		rm(len(b.OptArr) >= bigLen)
		b.HasArr, b.OptArr = false, nil
	case "kidPut", "kidPutDirect":
		if old, ok := b.Kids[o.K]; ok {
			rm(old.slabby())
		}
		b.Kids[o.K] = newBox(o.ID, o.N)
	case "kidDrop", "kidDropDirect":
		old, ok := b.Kids[o.K]
		if !ok {
			return false
		}
		rm(old.slabby())
		delete(b.Kids, o.K)
	case "listPush":
		b.List = append(b.List, newBox(o.ID, o.N))
	case "listDrop":
		if o.K >= len(b.List) {
			return false
		}
		rm(b.List[o.K].slabby())
		b.List = append(b.List[:o.K:o.K], b.List[o.K+1:]...)
	case "optSet":
		if b.Opt != nil {
			rm(b.Opt.slabby())
		}
		b.Opt = newBox(o.ID, o.N)
	case "optClear":
		if b.Opt == nil {
			return false
		}
		rm(b.Opt.slabby())
		b.Opt = nil
	case "moveKid", "listToKid", "optToKid", "kidToTop", "topToKid":
		return m.applyMove(o, f)
	case "attach":
		if len(o.Box.Chain) != 0 || b.HasAtt {
			return false
		}
		b.HasAtt, b.Att = true, rng(0, o.N)
		f.Moves++
	case "attAdd":
		if len(o.Box.Chain) != 0 || !b.HasAtt {
			return false
		}
		b.Att = append(b.Att, rng(len(b.Att), o.N)...)
	case "detach":
		if len(o.Box.Chain) != 0 || !b.HasAtt {
			return false
		}
		rm(len(b.Att) >= bigLen)
		b.HasAtt, b.Att = false, nil
		f.Moves++
	default:
		panic("bad nest op " + o.Kind)
	}
	return true
}

// applyMove handles the operations that take a nested box out of its parent and
// put it somewhere else.
func (m *NestModel) applyMove(o NestOp, f *NestFacts) bool {
	src := m.box(o.Box)
	if src == nil {
		return false
	}
	// the moved box (as a selector) for the ancestry check
	var movedSel Sel
	var moved *NBox
	switch o.Kind {
	case "moveKid", "kidToTop":
		moved = src.Kids[o.K]
		movedSel = o.Box.child(SelHop{"kid", o.K})
	case "listToKid":
		if o.K < len(src.List) {
			moved = src.List[o.K]
		}
		movedSel = o.Box.child(SelHop{"list", o.K})
	case "optToKid":
		moved = src.Opt
		movedSel = o.Box.child(SelHop{Via: "opt"})
	case "topToKid":
		if len(o.Box.Chain) != 0 {
			return false
		}
		moved = src
		movedSel = o.Box
	}
	if moved == nil {
		return false
	}
	var dst *NBox
	if o.Kind == "kidToTop" {
		if len(o.Box2.Chain) != 0 {
			return false
		}
	} else {
		// both references are bound before the box is taken out
		dst = m.box(o.Box2)
		if dst == nil || movedSel.isPrefixOf(o.Box2) {
			return false // destination inside the moved subtree (or missing)
		}
		if len(o.Box2.Chain)+1+moved.depth() > NestMaxDepth {
			return false
		}
	}
	// take
	switch o.Kind {
	case "moveKid", "kidToTop":
		delete(src.Kids, o.K)
	case "listToKid":
		src.List = append(src.List[:o.K:o.K], src.List[o.K+1:]...)
	case "optToKid":
		src.Opt = nil
	case "topToKid":
		m.S.Boxes[o.Box.A][o.Box.P] = nil
	}
	f.Moves++
	f.Removals++
	if moved.slabby() {
		f.RemovedSlabby++
	}
	// put
	if o.Kind == "kidToTop" {
		if old := m.S.Boxes[o.Box2.A][o.Box2.P]; old != nil {
			f.Removals++
			if old.slabby() {
				f.RemovedSlabby++
			}
		}
		m.S.Boxes[o.Box2.A][o.Box2.P] = moved
		return true
	}
	if old, ok := dst.Kids[o.K2]; ok {
		f.Removals++
		if old.slabby() {
			f.RemovedSlabby++
		}
	}
	dst.Kids[o.K2] = moved
	return true
}

// Step applies a whole execution; commits=false (aborted) restores the state.
// valid=false: some operation was not applicable (invalid history).
func (m *NestModel) Step(e NestExec) (f NestFacts, commits, valid bool) {
	before := m.S.clone()
	for i, o := range e.Ops {
		if e.Inject.InBody() && e.Inject.Pos == i {
			break // the rest is dead code
		}
		if !m.Apply(o, &f) {
			m.S = before
			return f, false, false
		}
	}
	if e.Inject != nil || e.Script {
		m.S = before
		return f, false, true
	}
	return f, true, true
}

// ---- rendering ----------------------------------------------------------------

func boxPath(p int) string  { return fmt.Sprintf("/storage/b%d", p) }
func leafPath(p int) string { return fmt.Sprintf("/storage/l%d", p) }

// renderSel emits the statements that bind a reference to the selected box and returns its name.
func renderSel(sb *[]string, prefix string, s Sel) string {
	name := prefix + "0"
	*sb = append(*sb, fmt.Sprintf("let %s = a%d.storage.borrow<auth(Mutate) &N.Box>(from: %s)!", name, s.A, boxPath(s.P)))
	for i, h := range s.Chain {
		next := fmt.Sprintf("%s%d", prefix, i+1)
		switch h.Via {
		case "kid":
			*sb = append(*sb, fmt.Sprintf("let %s = %s.kidRef(%d)!", next, name, h.K))
		case "list":
			*sb = append(*sb, fmt.Sprintf("let %s = %s.listRef(%d)", next, name, h.K))
		default:
			*sb = append(*sb, fmt.Sprintf("let %s = %s.optRef()!", next, name))
		}
		name = next
	}
	return name
}

func renderNestOp(i int, o NestOp) (lines []string) {
	sb := &lines
	w := func(f string, args ...any) { lines = append(lines, fmt.Sprintf(f, args...)) }
	top := func(s Sel) (string, string) { return fmt.Sprintf("a%d", s.A), boxPath(s.P) }
	switch o.Kind {
	case "create":
		a, p := top(o.Box)
		w(`if let old%d <- %s.storage.load<@N.Box>(from: %s) { destroy old%d }`, i, a, p, i)
		w(`%s.storage.save(<- N.mk(%d, %d), to: %s)`, a, o.ID, o.N, p)
		return
	case "destroyTop":
		a, p := top(o.Box)
		w(`destroy %s.storage.load<@N.Box>(from: %s)!`, a, p)
		return
	case "moveTop":
		a, p := top(o.Box)
		b, q := top(o.Box2)
		w(`let m%d <- %s.storage.load<@N.Box>(from: %s)!`, i, a, p)
		w(`if let old%d <- %s.storage.load<@N.Box>(from: %s) { destroy old%d }`, i, b, q, i)
		w(`%s.storage.save(<- m%d, to: %s)`, b, i, q)
		return
	case "saveLeaf":
		w(`a%d.storage.load<N.Leaf>(from: %s)`, o.A, leafPath(o.P))
		w(`a%d.storage.save(N.Leaf(%d, %d), to: %s)`, o.A, o.K, o.N, leafPath(o.P))
		return
	case "dropLeaf":
		w(`a%d.storage.load<N.Leaf>(from: %s)!`, o.A, leafPath(o.P))
		return
	case "copyLeaf":
		w(`let c%d = a%d.storage.copy<N.Leaf>(from: %s)!`, i, o.A, leafPath(o.P))
		w(`a%d.storage.load<N.Leaf>(from: %s)`, o.A2, leafPath(o.P2))
		w(`a%d.storage.save(c%d, to: %s)`, o.A2, i, leafPath(o.P2))
		return
	case "growStoredLeaf":
		w(`let sl%d = a%d.storage.borrow<auth(Mutate) &N.Leaf>(from: %s)!`, i, o.A, leafPath(o.P))
		w(`sl%d.data.appendAll(N.range(sl%d.data.length, %d))`, i, i, o.N)
		return
	case "nameStoredLeaf":
		w(`let sl%d = a%d.storage.borrow<auth(Mutate) &N.Leaf>(from: %s)!`, i, o.A, leafPath(o.P))
		if o.N < 0 {
			w(`sl%d.names.remove(key: "%s")`, i, nestKey(o.K))
		} else {
			w(`sl%d.names["%s"] = N.range(%d, %d)`, i, nestKey(o.K), o.K, o.N)
		}
		return
	case "ctrAdd":
		w(`a%d.contracts.add(name: "%s", code: "%s".decodeHex(), %d)`, o.A, NestContractName(o.K), hex.EncodeToString([]byte(NestSmallContract(o.K, 0))), o.N)
		return
	case "ctrUpdate":
		w(`a%d.contracts.update(name: "%s", code: "%s".decodeHex())`, o.A, NestContractName(o.K), hex.EncodeToString([]byte(NestSmallContract(o.K, o.N))))
		return
	case "ctrRemove":
		w(`a%d.contracts.remove(name: "%s")`, o.A, NestContractName(o.K))
		return
	case "attach":
		a, p := top(o.Box)
		w(`let t%d <- %s.storage.load<@N.Box>(from: %s)!`, i, a, p)
		w(`let u%d <- attach N.Att(%d) to <- t%d`, i, o.N, i)
		w(`%s.storage.save(<- u%d, to: %s)`, a, i, p)
		return
	case "detach":
		a, p := top(o.Box)
		w(`let t%d <- %s.storage.load<@N.Box>(from: %s)!`, i, a, p)
		w(`remove N.Att from t%d`, i)
		w(`%s.storage.save(<- t%d, to: %s)`, a, i, p)
		return
	case "attAdd":
		a, p := top(o.Box)
		w(`%s.storage.borrow<&N.Box>(from: %s)![N.Att]!.add(%d)`, a, p, o.N)
		return
	case "topToKid":
		a, p := top(o.Box)
		w(`let m%d <- %s.storage.load<@N.Box>(from: %s)!`, i, a, p)
		d := renderSel(sb, fmt.Sprintf("d%d_", i), o.Box2)
		w(`%s.putKid(%d, <- m%d)`, d, o.K2, i)
		return
	}
	r := renderSel(sb, fmt.Sprintf("r%d_", i), o.Box)
	switch o.Kind {
	case "arrAppend":
		w(`%s.arr.appendAll(N.range(%d, %d))`, r, o.K, o.N)
	case "arrDrop":
		w(`%s.arrDrop(%d, %d)`, r, o.N, o.Mode)
	case "arrSet":
		w(`%s.setArr(N.range(%d, %d))`, r, o.K, o.N)
	case "arrRemoveDirect":
		w(`%s.arr.remove(at: %d)`, r, o.K)
	case "swapArrLeaf":
		w(`%s.swapArrLeaf()`, r)
	case "strAppend":
		w(`%s.strs.append(N.str(%d, %d))`, r, i, o.N)
	case "strDrop":
		w(`%s.strs.removeLast()`, r)
	case "strSet":
		w(`%s.strs[%d] = N.str(%d, %d)`, r, o.K, i, o.N)
	case "dictPut":
		w(`%s.dict["%s"] = N.range(%d, %d)`, r, nestKey(o.K), o.K, o.N)
	case "dictDrop":
		w(`%s.dict.remove(key: "%s")`, r, nestKey(o.K))
	case "leafSet":
		w(`%s.setLeaf(N.Leaf(%d, %d))`, r, o.K, o.N)
	case "leafGrow":
		w(`%s.leafGrow(%d)`, r, o.N)
	case "leafShrink":
		w(`%s.leafShrink(%d)`, r, o.N)
	case "leafName":
		w(`%s.leafName("%s", N.range(%d, %d))`, r, nestKey(o.K), o.K, o.N)
	case "leafDropName":
		w(`%s.leafDropName("%s")`, r, nestKey(o.K))
	case "optLeafSet":
		w(`%s.setOptLeaf(N.Leaf(%d, %d))`, r, o.K, o.N)
	case "optLeafClear":
		w(`%s.setOptLeaf(nil)`, r)
	case "optLeafGrow":
		w(`%s.optLeafGrow(%d)`, r, o.N)
	case "gridPush":
		w(`%s.grid.append(N.range(%d, %d))`, r, o.K, o.N)
	case "gridSet":
		w(`%s.grid[%d] = N.range(%d, %d)`, r, o.K2, o.K, o.N)
	case "gridInnerSet":
		w(`%s.gridInnerSet(%d, %d, %d)`, r, o.K2, o.Mode, o.K)
	case "gridDrop":
		w(`%s.grid.remove(at: %d)`, r, o.K2)
	case "ogridPush":
		if o.N < 0 {
			w(`%s.ogrid.append(nil)`, r)
		} else {
			w(`%s.ogrid.append(N.range(%d, %d))`, r, o.K, o.N)
		}
	case "ogridSet":
		if o.N < 0 {
			w(`%s.ogrid[%d] = nil`, r, o.K2)
		} else {
			w(`%s.ogrid[%d] = N.range(%d, %d)`, r, o.K2, o.K, o.N)
		}
	case "deepPush":
		w(`%s.deep.append([N.range(%d, %d), N.range(%d, %d)])`, r, o.K, o.N, o.K+1, o.N)
	case "deepSet":
		w(`%s.deep[%d] = [N.range(%d, %d), N.range(%d, %d)]`, r, o.K2, o.K, o.N, o.K+1, o.N)
	case "deepInnerSet":
		w(`%s.deepInnerSet(%d, N.range(%d, %d))`, r, o.K2, o.K, o.N)
	case "mapsPut":
		w(`%s.maps["%s"] = N.mkMap(%d, %d)`, r, nestKey(o.K2), o.K, o.N)
	case "mapsDrop":
		w(`%s.maps.remove(key: "%s")`, r, nestKey(o.K2))
	case "listSwap":
		w(`%s.swapList(%d, <- N.mk(%d, %d))`, r, o.K, o.ID, o.N)
	case "kidForce":
		w(`%s.forceKid(%d, <- N.mk(%d, %d))`, r, o.K, o.ID, o.N)
	case "optStrSet":
		w(`%s.setOptStr(N.str(%d, %d))`, r, i, o.N)
	case "optStrClear":
		w(`%s.setOptStr(nil)`, r)
	case "optArrSet":
		w(`%s.setOptArr(N.range(%d, %d))`, r, o.K, o.N)
	case "optArrClear":
		w(`%s.setOptArr(nil)`, r)
	case "kidPut":
		w(`%s.putKid(%d, <- N.mk(%d, %d))`, r, o.K, o.ID, o.N)
	case "kidPutDirect":
		w(`let old%d <- %s.kids.insert(key: %d, <- N.mk(%d, %d))`, i, r, o.K, o.ID, o.N)
		w(`destroy old%d`, i)
	case "kidDrop":
		w(`destroy %s.takeKid(%d)`, r, o.K)
	case "kidDropDirect":
		w(`destroy %s.kids.remove(key: %d)`, r, o.K)
	case "listPush":
		w(`%s.list.append(<- N.mk(%d, %d))`, r, o.ID, o.N)
	case "listDrop":
		w(`destroy %s.list.remove(at: %d)`, r, o.K)
	case "optSet":
		w(`%s.setOpt(<- N.mk(%d, %d))`, r, o.ID, o.N)
	case "optClear":
		w(`%s.setOpt(nil)`, r)
	case "moveKid", "listToKid", "optToKid":
		d := renderSel(sb, fmt.Sprintf("d%d_", i), o.Box2)
		switch o.Kind {
		case "moveKid":
			w(`let m%d <- %s.takeKid(%d)`, i, r, o.K)
		case "listToKid":
			w(`let m%d <- %s.list.remove(at: %d)`, i, r, o.K)
		default:
			w(`let m%d <- %s.takeOpt()`, i, r)
		}
		w(`%s.putKid(%d, <- m%d)`, d, o.K2, i)
	case "kidToTop":
		b, q := top(o.Box2)
		w(`let m%d <- %s.takeKid(%d)`, i, r, o.K)
		w(`if let old%d <- %s.storage.load<@N.Box>(from: %s) { destroy old%d }`, i, b, q, i)
		w(`%s.storage.save(<- m%d, to: %s)`, b, i, q)
	default:
		panic("bad nest op " + o.Kind)
	}
	return lines
}

// Source renders the execution as a transaction signed by the three accounts (or as a script).
func (e NestExec) Source() string {
	groups := make([][]string, len(e.Ops))
	for i, o := range e.Ops {
		groups[i] = renderNestOp(i, o)
	}
	return Wrap("import N from 0x1\n", e.Script, groups, e.Inject)
}

func (e NestExec) Step() prog.Step {
	if e.Script {
		return prog.Step{Kind: prog.Script, Source: e.Source(), MayFail: e.Fails()}
	}
	return prog.Step{Kind: prog.Tx, Source: e.Source(), Signers: []uint64{1, 2, 3}, MayFail: e.Fails()}
}

func NestDeployStep() prog.Step {
	return prog.Step{Kind: prog.Deploy, Name: "N", Source: NestContract, Signers: []uint64{1}}
}

func (h NestHistory) History() prog.History {
	out := prog.History{Origin: "storgen.nest", Features: []string{"nested-resources", "attachments", "storage"}}
	out.Steps = append(out.Steps, NestDeployStep())
	for _, e := range h.Execs {
		out.Steps = append(out.Steps, e.Step())
	}
	out.Steps = append(out.Steps, prog.Step{Kind: prog.Script, Source: NestVerifyScript})
	return out
}

// ---- generator ----------------------------------------------------------------

type NestGenConfig struct {
	MaxExecs int // default 20
	MaxOps   int // default 4
	// Injections: scripts and failure injectors (C24); otherwise ~10% of the transactions abort at the end.
	Injections bool
}

var nestSizes = []int{0, 3, 150, 1, 400, 8, 125, 1000}

func genSize(s Src) int { return nestSizes[s.Intn("size", len(nestSizes))] }

// bigSize prefers sizes that span several slabs (the containers later operations overwrite).
func bigSize(s Src) int { return []int{1000, 400, 3, 300, 150}[s.Intn("bigsize", 5)] }

var nestStrSizes = []int{3, 700, 40, 300}

// GenNestHistory draws a removal-heavy history.
func GenNestHistory(s Src, cfg NestGenConfig) NestHistory {
	if cfg.MaxExecs == 0 {
		cfg.MaxExecs = 20
	}
	if cfg.MaxOps == 0 {
		cfg.MaxOps = 4
	}
	var h NestHistory
	m := NewNestModel()
	n := 1 + s.Intn("execs", cfg.MaxExecs)
	for len(h.Execs) < n {
		var e NestExec
		nOps := 1 + s.Intn("nops", cfg.MaxOps)
		before := m.S.clone()
		var f NestFacts
		var last *NestOp
		for i := 0; i < nOps; i++ {
			// a share of the operations follows up on the object the previous operation of the same
			// transaction touched (create-then-remove inside one transaction, add-then-remove of a contract, …)
			var focus *NestOp
			if last != nil && chance(s, "followup", 30) {
				focus = last
			}
			o, ok := genNestOp(s, m, focus)
			for try := 0; !ok && try < 3; try++ { // the drawn kind had no applicable instance: draw again
				o, ok = genNestOp(s, m, focus)
			}
			if !ok {
				continue
			}
			last = &o
			if !m.Apply(o, &f) {
				panic(fmt.Sprintf("storgen: generated an inapplicable operation %s", o))
			}
			e.Ops = append(e.Ops, o)
		}
		if len(e.Ops) == 0 {
			m.S = before
			continue
		}
		switch {
		case cfg.Injections && chance(s, "script", 15):
			e.Script = true
			if chance(s, "inject", 35) {
				e.Inject = GenInject(s, len(e.Ops), true)
			}
		case cfg.Injections && chance(s, "inject", 35):
			e.Inject = GenInject(s, len(e.Ops), false)
		case chance(s, "abort", 10):
			e.Inject = &Inject{Kind: "panic", Pos: len(e.Ops)}
		}
		if e.Inject != nil || e.Script {
			m.S = before
		}
		h.Execs = append(h.Execs, e)
	}
	return h
}

var nestOpKinds = []string{
	"create", "kidPut", "arrAppend", "dictPut", "strAppend", "leafSet", "leafName", "optLeafSet", "listPush", "optSet", "saveLeaf", // growth (11)
	"arrDrop", "arrSet", "arrRemoveDirect", "swapArrLeaf", "strDrop", "strSet", "dictDrop", "leafGrow", "leafShrink", "leafDropName",
	"optLeafClear", "optLeafGrow", "kidPutDirect", "kidDrop", "kidDropDirect", "listDrop", "optClear",
	"moveKid", "listToKid", "optToKid", "kidToTop", "topToKid", "moveTop", "destroyTop",
	"attach", "attAdd", "detach", "dropLeaf", "copyLeaf", "growStoredLeaf", "nameStoredLeaf",
	"ctrAdd", "ctrRemove", "ctrUpdate",
	"optStrSet", "optStrClear", "optArrSet", "optArrClear",
	"gridPush", "gridSet", "gridInnerSet", "gridDrop", "ogridPush", "ogridSet", "deepPush", "deepSet", "deepInnerSet", "mapsPut", "mapsDrop", "listSwap", "kidForce",
}

// nestOpWeights: growth 2, in-place change 2, removal / overwrite / move 4.
var nestOpWeights = func() []int {
	heavy := map[string]bool{"arrDrop": true, "arrSet": true, "strDrop": true, "strSet": true, "dictDrop": true, "leafShrink": true, "leafDropName": true,
		"optLeafClear": true, "kidDrop": true, "kidDropDirect": true, "listDrop": true, "optClear": true, "moveKid": true, "listToKid": true, "optToKid": true,
		"kidToTop": true, "topToKid": true, "moveTop": true, "destroyTop": true, "detach": true, "dropLeaf": true, "ctrRemove": true, "optStrClear": true, "optArrClear": true,
		"kidPutDirect": true, "leafSet": true, "gridSet": true, "gridDrop": true, "ogridSet": true, "deepSet": true, "deepInnerSet": true, "mapsPut": true, "mapsDrop": true, "listSwap": true, "kidForce": true,
		"gridPush": true, "ogridPush": true, "deepPush": true}
	w := make([]int, len(nestOpKinds))
	for i, k := range nestOpKinds {
		w[i] = 2
		if heavy[k] {
			w[i] = 4
		}
	}
	return w
}()

func sortedKeys[V any](m map[int]V) []int {
	keys := make([]int, 0, len(m))
	for k := range m {
		keys = append(keys, k)
	}
	sort.Ints(keys)
	return keys
}

func dictKeysOf(m map[string][]int) []int {
	var out []int
	for k := 0; k < NestDictKeys; k++ {
		if _, ok := m[nestKey(k)]; ok {
			out = append(out, k)
		}
	}
	return out
}

// genNestOp draws one applicable operation (ok=false: the drawn kind has no applicable instance).
func genNestOp(s Src, m *NestModel, focus *NestOp) (NestOp, bool) {
	boxes := m.allBoxes()
	if focus != nil {
		switch focus.Kind {
		case "ctrAdd", "ctrUpdate":
			o := NestOp{Kind: []string{"ctrRemove", "ctrUpdate"}[s.Intn("ctrfollow", 2)], A: focus.A, K: focus.K, N: genSize(s)}
			return o, true
		case "saveLeaf", "dropLeaf", "copyLeaf", "growStoredLeaf", "nameStoredLeaf", "ctrRemove", "destroyTop":
			// no object to follow
		default:
			f := focus.Box
			switch focus.Kind {
			case "kidPut", "kidPutDirect":
				f = f.child(SelHop{"kid", focus.K})
			case "optSet":
				f = f.child(SelHop{Via: "opt"})
			case "moveTop":
				f = focus.Box2
			case "moveKid", "listToKid", "optToKid", "topToKid":
				f = focus.Box2.child(SelHop{"kid", focus.K2})
			case "kidToTop":
				f = Sel{A: focus.Box2.A, P: focus.Box2.P}
			}
			var sub []Sel
			for _, b := range boxes {
				if f.isPrefixOf(b) {
					sub = append(sub, b)
				}
			}
			if len(sub) > 0 {
				boxes = sub
			}
		}
	}
	if len(boxes) == 0 {
		return NestOp{Kind: "create", Box: Sel{A: s.Intn("acct", NestAccounts), P: s.Intn("path", NestBoxPaths)}, ID: m.nextID(), N: genSize(s)}, true
	}
	m.draws++
	kind := nestOpKinds[pickRot(s, "kind", m.draws, nestOpWeights...)]
	o := NestOp{Kind: kind}
	pickBox := func(label string, filter func(Sel, *NBox) bool) (Sel, *NBox, bool) {
		var cands []Sel
		for _, sel := range boxes {
			if filter == nil || filter(sel, m.box(sel)) {
				cands = append(cands, sel)
			}
		}
		if len(cands) == 0 {
			return Sel{}, nil, false
		}
		sel := cands[s.Intn(label, len(cands))]
		return sel, m.box(sel), true
	}
	topOnly := func(f func(*NBox) bool) func(Sel, *NBox) bool {
		return func(sel Sel, b *NBox) bool { return len(sel.Chain) == 0 && (f == nil || f(b)) }
	}
	canNest := func(sel Sel, _ *NBox) bool { return len(sel.Chain) < NestMaxDepth-1 }
	var ok bool
	var b *NBox
	switch kind {
	case "create":
		o.Box = Sel{A: s.Intn("acct", NestAccounts), P: s.Intn("path", NestBoxPaths)}
		o.ID, o.N = m.nextID(), genSize(s)
		return o, true
	case "destroyTop":
		o.Box, _, ok = pickBox("box", topOnly(nil))
		return o, ok
	case "moveTop":
		o.Box, _, ok = pickBox("box", topOnly(nil))
		o.Box2 = Sel{A: s.Intn("acct2", NestAccounts), P: s.Intn("path2", NestBoxPaths)}
		if o.Box2.A == o.Box.A && o.Box2.P == o.Box.P {
			return o, false
		}
		return o, ok
	case "saveLeaf":
		o.A, o.P, o.K, o.N = s.Intn("acct", NestAccounts), s.Intn("lpath", NestLeafPaths), s.Intn("tag", 50), genSize(s)
		return o, true
	case "dropLeaf", "copyLeaf", "growStoredLeaf", "nameStoredLeaf":
		var cells [][2]int
		for a := 0; a < NestAccounts; a++ {
			for p := 0; p < NestLeafPaths; p++ {
				if m.S.Leaves[a][p] != nil {
					cells = append(cells, [2]int{a, p})
				}
			}
		}
		if len(cells) == 0 {
			return o, false
		}
		c := cells[s.Intn("leafcell", len(cells))]
		o.A, o.P = c[0], c[1]
		switch kind {
		case "copyLeaf":
			o.A2, o.P2 = s.Intn("acct2", NestAccounts), s.Intn("lpath2", NestLeafPaths)
			if o.A2 == o.A && o.P2 == o.P {
				return o, false
			}
		case "growStoredLeaf":
			o.N = genSize(s)
		case "nameStoredLeaf":
			o.K = s.Intn("key", NestDictKeys)
			o.N = genSize(s)
			if _, has := m.S.Leaves[o.A][o.P].Names[nestKey(o.K)]; has && chance(s, "remove", 50) {
				o.N = -1
			}
		}
		return o, true
	case "ctrAdd", "ctrRemove", "ctrUpdate":
		o.A, o.K, o.N = s.Intn("acct", NestAccounts), s.Intn("name", 2), genSize(s)
		_, has := m.S.Contracts[o.A][o.K]
		return o, has == (kind != "ctrAdd")
	case "attach":
		o.Box, _, ok = pickBox("box", topOnly(func(b *NBox) bool { return !b.HasAtt }))
		o.N = genSize(s)
		return o, ok
	case "attAdd", "detach":
		o.Box, _, ok = pickBox("box", topOnly(func(b *NBox) bool { return b.HasAtt }))
		o.N = genSize(s)
		return o, ok
	case "arrAppend", "arrSet", "leafSet", "leafGrow", "optLeafSet":
		o.Box, _, ok = pickBox("box", nil)
		o.K, o.N = s.Intn("from", 50), genSize(s)
		return o, ok
	case "gridPush", "ogridPush", "deepPush":
		o.Box, _, ok = pickBox("box", nil)
		o.K, o.N = s.Intn("from", 50), bigSize(s)
		if kind == "deepPush" && o.N > 400 {
			o.N = 400
		}
		if kind == "ogridPush" && chance(s, "nilelem", 15) {
			o.N = -1
		}
		return o, ok
	case "gridSet", "gridDrop", "gridInnerSet":
		o.Box, b, ok = pickBox("box", func(_ Sel, b *NBox) bool { return len(b.Grid) > 0 })
		if ok {
			o.K2, o.K, o.N = s.Intn("index", len(b.Grid)), s.Intn("from", 50), genSize(s)
			if kind == "gridInnerSet" {
				if len(b.Grid[o.K2]) == 0 {
					return o, false
				}
				o.Mode = s.Intn("inner", len(b.Grid[o.K2]))
			}
		}
		return o, ok
	case "ogridSet":
		o.Box, b, ok = pickBox("box", func(_ Sel, b *NBox) bool { return len(b.OGrid) > 0 })
		if ok {
			o.K2, o.K, o.N = s.Intn("index", len(b.OGrid)), s.Intn("from", 50), genSize(s)
			if chance(s, "nilelem", 25) {
				o.N = -1
			}
		}
		return o, ok
	case "deepSet", "deepInnerSet":
		o.Box, b, ok = pickBox("box", func(_ Sel, b *NBox) bool { return len(b.Deep) > 0 })
		if ok {
			o.K2, o.K, o.N = s.Intn("index", len(b.Deep)), s.Intn("from", 50), min(genSize(s), 400)
		}
		return o, ok
	case "mapsPut":
		o.Box, _, ok = pickBox("box", nil)
		o.K2, o.K, o.N = s.Intn("key", NestDictKeys), s.Intn("from", 50), []int{120, 3, 200, 0, 40}[s.Intn("mapsize", 5)]
		return o, ok
	case "mapsDrop":
		o.Box, b, ok = pickBox("box", func(_ Sel, b *NBox) bool { return len(b.Maps) > 0 })
		if ok {
			var ks []int
			for k := 0; k < NestDictKeys; k++ {
				if _, has := b.Maps[nestKey(k)]; has {
					ks = append(ks, k)
				}
			}
			o.K2 = ks[s.Intn("key", len(ks))]
		}
		return o, ok
	case "listSwap":
		o.Box, b, ok = pickBox("box", func(_ Sel, b *NBox) bool { return len(b.List) > 0 })
		if ok {
			o.K, o.ID, o.N = s.Intn("index", len(b.List)), m.nextID(), genSize(s)
		}
		return o, ok
	case "kidForce":
		o.Box, _, ok = pickBox("box", canNest)
		o.K, o.ID, o.N = s.Intn("key", NestKidKeys), m.nextID(), genSize(s)
		return o, ok
	case "optStrSet":
		o.Box, _, ok = pickBox("box", nil)
		o.N = nestStrSizes[s.Intn("strsize", len(nestStrSizes))]
		return o, ok
	case "optStrClear":
		o.Box, _, ok = pickBox("box", func(_ Sel, b *NBox) bool { return b.OptStr >= 0 })
		return o, ok
	case "optArrSet":
		o.Box, _, ok = pickBox("box", nil)
		o.K, o.N = s.Intn("from", 50), genSize(s)
		return o, ok
	case "optArrClear":
		o.Box, _, ok = pickBox("box", func(_ Sel, b *NBox) bool { return b.HasArr })
		return o, ok
	case "arrDrop":
		o.Box, b, ok = pickBox("box", func(_ Sel, b *NBox) bool { return len(b.Arr) > 0 })
		if ok {
			o.N, o.Mode = 1+s.Intn("count", len(b.Arr)), s.Intn("mode", 3)
			if chance(s, "all", 30) {
				o.N = len(b.Arr)
			}
		}
		return o, ok
	case "arrRemoveDirect":
		o.Box, b, ok = pickBox("box", func(_ Sel, b *NBox) bool { return len(b.Arr) > 0 })
		if ok {
			o.K = s.Intn("index", len(b.Arr))
		}
		return o, ok
	case "swapArrLeaf":
		o.Box, _, ok = pickBox("box", nil)
		return o, ok
	case "strAppend":
		o.Box, _, ok = pickBox("box", nil)
		o.N = nestStrSizes[s.Intn("strsize", len(nestStrSizes))]
		return o, ok
	case "strDrop":
		o.Box, _, ok = pickBox("box", func(_ Sel, b *NBox) bool { return len(b.Strs) > 0 })
		return o, ok
	case "strSet":
		o.Box, b, ok = pickBox("box", func(_ Sel, b *NBox) bool { return len(b.Strs) > 0 })
		if ok {
			o.K, o.N = s.Intn("index", len(b.Strs)), nestStrSizes[s.Intn("strsize", len(nestStrSizes))]
		}
		return o, ok
	case "dictPut", "leafName":
		o.Box, _, ok = pickBox("box", nil)
		o.K, o.N = s.Intn("key", NestDictKeys), genSize(s)
		return o, ok
	case "dictDrop":
		o.Box, b, ok = pickBox("box", func(_ Sel, b *NBox) bool { return len(b.Dict) > 0 })
		if ok {
			ks := dictKeysOf(b.Dict)
			o.K = ks[s.Intn("key", len(ks))]
		}
		return o, ok
	case "leafDropName":
		o.Box, b, ok = pickBox("box", func(_ Sel, b *NBox) bool { return len(b.Leaf.Names) > 0 })
		if ok {
			ks := dictKeysOf(b.Leaf.Names)
			o.K = ks[s.Intn("key", len(ks))]
		}
		return o, ok
	case "leafShrink":
		o.Box, b, ok = pickBox("box", func(_ Sel, b *NBox) bool { return len(b.Leaf.Data) > 0 })
		if ok {
			o.N = 1 + s.Intn("count", len(b.Leaf.Data))
		}
		return o, ok
	case "optLeafClear":
		o.Box, _, ok = pickBox("box", func(_ Sel, b *NBox) bool { return b.OptLeaf != nil })
		return o, ok
	case "optLeafGrow":
		o.Box, _, ok = pickBox("box", func(_ Sel, b *NBox) bool { return b.OptLeaf != nil })
		o.N = genSize(s)
		return o, ok
	case "kidPut", "kidPutDirect":
		o.Box, _, ok = pickBox("box", canNest)
		o.K, o.ID, o.N = s.Intn("key", NestKidKeys), m.nextID(), genSize(s)
		return o, ok
	case "listPush", "optSet":
		o.Box, _, ok = pickBox("box", canNest)
		o.ID, o.N = m.nextID(), genSize(s)
		return o, ok
	case "kidDrop", "kidDropDirect":
		o.Box, b, ok = pickBox("box", func(_ Sel, b *NBox) bool { return len(b.Kids) > 0 })
		if ok {
			ks := sortedKeys(b.Kids)
			o.K = ks[s.Intn("key", len(ks))]
		}
		return o, ok
	case "listDrop":
		o.Box, b, ok = pickBox("box", func(_ Sel, b *NBox) bool { return len(b.List) > 0 })
		if ok {
			o.K = s.Intn("index", len(b.List))
		}
		return o, ok
	case "optClear":
		o.Box, _, ok = pickBox("box", func(_ Sel, b *NBox) bool { return b.Opt != nil })
		return o, ok
	case "moveKid", "kidToTop":
		o.Box, b, ok = pickBox("box", func(_ Sel, b *NBox) bool { return len(b.Kids) > 0 })
		if !ok {
			return o, false
		}
		ks := sortedKeys(b.Kids)
		o.K = ks[s.Intn("key", len(ks))]
	case "listToKid":
		o.Box, b, ok = pickBox("box", func(_ Sel, b *NBox) bool { return len(b.List) > 0 })
		if !ok {
			return o, false
		}
		o.K = s.Intn("index", len(b.List))
	case "optToKid":
		o.Box, _, ok = pickBox("box", func(_ Sel, b *NBox) bool { return b.Opt != nil })
		if !ok {
			return o, false
		}
	case "topToKid":
		o.Box, _, ok = pickBox("box", topOnly(nil))
		if !ok {
			return o, false
		}
	default:
		panic("unhandled nest op kind " + kind)
	}
	// destination of a move
	if kind == "kidToTop" {
		o.Box2 = Sel{A: s.Intn("acct2", NestAccounts), P: s.Intn("path2", NestBoxPaths)}
	} else {
		o.Box2 = boxes[s.Intn("dest", len(boxes))]
		o.K2 = s.Intn("key2", NestKidKeys)
	}
	// applicability (ancestry, depth, index shifting) is decided by the model on a scratch copy
	scratch := &NestModel{S: m.S.clone()}
	var f NestFacts
	if !scratch.Apply(o, &f) {
		return o, false
	}
	return o, true
}

func (m *NestModel) nextID() int {
	m.nextid++
	return m.nextid
}
