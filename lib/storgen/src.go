// Package storgen generates storage-centred transaction histories (prog.History)
// together with the Go reference models that predict what every step must
// observe. It is shared by C22 (typed path-indexed map), C23 (storage health under
// removal-heavy histories), C24 (register-write discipline) and C20 (container
// models); other properties may replay the histories through History().
//
// All generators draw from a Src, so that the same code runs under rapid (with
// shrinking: every draw shrinks towards 0, and 0 always selects the simplest
// alternative) and under a seeded math/rand PRNG.
package storgen

import (
	"math/rand"

	"pgregory.net/rapid"
)

// Src is a source of bounded random choices.
type Src interface {
	// Intn returns a number in [0, n). n must be > 0.
	Intn(label string, n int) int
}

type rapidSrc struct{ t *rapid.T }

func (r rapidSrc) Intn(label string, n int) int {
	if n <= 1 {
		return 0
	}
	return rapid.IntRange(0, n-1).Draw(r.t, label)
}

// FromRapid adapts a rapid test case.
func FromRapid(t *rapid.T) Src { return rapidSrc{t} }

type randSrc struct{ r *rand.Rand }

func (r randSrc) Intn(_ string, n int) int {
	if n <= 1 {
		return 0
	}
	return r.r.Intn(n)
}

// FromRand adapts a seeded PRNG.
func FromRand(r *rand.Rand) Src { return randSrc{r} }

// chance returns true with probability pct/100 (false is the simple alternative).
func chance(s Src, label string, pct int) bool { return s.Intn(label, 100) >= 100-pct }

// pick chooses an index by weights; index 0 is the simple alternative.
func pick(s Src, label string, weights ...int) int {
	tot := 0
	for _, w := range weights {
		tot += w
	}
	x := s.Intn(label, tot)
	for i, w := range weights {
		if x < w {
			return i
		}
		x -= w
	}
	return len(weights) - 1
}

// pickRot is pick with the drawn number rotated by rot: rapid draws small numbers more often
// than large ones (which is what makes shrinking work), and without the rotation the first
// alternatives of a long list would dominate every history. rot varies with the position of the
// draw in the history, so all alternatives get their share.
func pickRot(s Src, label string, rot int, weights ...int) int {
	tot := 0
	for _, w := range weights {
		tot += w
	}
	x := (s.Intn(label, tot) + rot*7) % tot
	for i, w := range weights {
		if x < w {
			return i
		}
		x -= w
	}
	return len(weights) - 1
}
