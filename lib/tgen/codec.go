package tgen

import (
	"fmt"

	"github.com/onflow/cadence/common"
	"github.com/onflow/cadence/sema"
)

// Enc is the JSON form of a sema type over a universe (replay files, samples).
type Enc struct {
	K    string   `json:"k"`              // kind
	ID   string   `json:"id,omitempty"`   // nominal / primitive type ID
	C    []*Enc   `json:"c,omitempty"`    // component types
	N    int64    `json:"n,omitempty"`    // constant size
	Auth *AuthEnc `json:"auth,omitempty"` // reference authorization
	Fn   *FnEnc   `json:"fn,omitempty"`
}

type AuthEnc struct {
	Kind string   `json:"kind"` // "none" | "conj" | "disj" | "map"
	IDs  []string `json:"ids,omitempty"`
}

type FnEnc struct {
	View        bool  `json:"view,omitempty"`
	Constructor bool  `json:"ctor,omitempty"`
	NParams     int   `json:"nparams"`
	ArityMin    *int  `json:"amin,omitempty"`
	ArityMax    *int  `json:"amax,omitempty"`
	TypeParams  []int `json:"tparams,omitempty"` // per type parameter: index+1 into C of its bound, 0 = unbounded
	HasReturn   bool  `json:"ret"`
}

var primitivesByID = map[common.TypeID]sema.Type{}

func init() {
	reg := func(ts ...sema.Type) {
		for _, t := range ts {
			primitivesByID[t.ID()] = t
		}
	}
	reg(sema.AllNumberTypes...)
	reg(pathTypes...)
	reg(hashableMisc...)
	reg(topTypes...)
	reg(nativeComposites...)
	reg(sema.AnyType, sema.StructStringerType)
}

// Encode converts a sema type to its JSON form.
func Encode(t sema.Type) *Enc {
	switch t := t.(type) {
	case nil:
		return &Enc{K: "nil"}
	case *sema.OptionalType:
		return &Enc{K: "opt", C: []*Enc{Encode(t.Type)}}
	case *sema.VariableSizedType:
		return &Enc{K: "varr", C: []*Enc{Encode(t.Type)}}
	case *sema.ConstantSizedType:
		return &Enc{K: "carr", N: t.Size, C: []*Enc{Encode(t.Type)}}
	case *sema.DictionaryType:
		return &Enc{K: "dict", C: []*Enc{Encode(t.KeyType), Encode(t.ValueType)}}
	case *sema.ReferenceType:
		return &Enc{K: "ref", Auth: EncodeAccess(t.Authorization), C: []*Enc{Encode(t.Type)}}
	case *sema.CapabilityType:
		if t.BorrowType == nil {
			return &Enc{K: "cap"}
		}
		return &Enc{K: "cap", C: []*Enc{Encode(t.BorrowType)}}
	case *sema.InclusiveRangeType:
		if t.MemberType == nil {
			return &Enc{K: "range"}
		}
		return &Enc{K: "range", C: []*Enc{Encode(t.MemberType)}}
	case *sema.IntersectionType:
		e := &Enc{K: "inter"}
		for _, i := range t.Types {
			e.C = append(e.C, Encode(i))
		}
		return e
	case *sema.FunctionType:
		e := &Enc{K: "fun", Fn: &FnEnc{View: t.Purity == sema.FunctionPurityView, Constructor: t.IsConstructor, NParams: len(t.Parameters)}}
		for _, p := range t.Parameters {
			e.C = append(e.C, Encode(p.TypeAnnotation.Type))
		}
		if t.ReturnTypeAnnotation.Type != nil {
			e.Fn.HasReturn = true
			e.C = append(e.C, Encode(t.ReturnTypeAnnotation.Type))
		}
		if t.Arity != nil {
			mn, mx := t.Arity.Min, t.Arity.Max
			e.Fn.ArityMin, e.Fn.ArityMax = &mn, &mx
		}
		for _, tp := range t.TypeParameters {
			if tp.TypeBound == nil {
				e.Fn.TypeParams = append(e.Fn.TypeParams, 0)
			} else {
				e.C = append(e.C, Encode(tp.TypeBound))
				e.Fn.TypeParams = append(e.Fn.TypeParams, len(e.C))
			}
		}
		return e
	case *sema.CompositeType:
		return &Enc{K: "comp", ID: string(t.ID())}
	case *sema.InterfaceType:
		return &Enc{K: "iface", ID: string(t.ID())}
	default:
		return &Enc{K: "prim", ID: string(t.ID())}
	}
}

func EncodeAccess(a sema.Access) *AuthEnc {
	switch a := a.(type) {
	case sema.EntitlementSetAccess:
		e := &AuthEnc{Kind: "conj"}
		if a.SetKind == sema.Disjunction {
			e.Kind = "disj"
		}
		a.Entitlements.Foreach(func(k *sema.EntitlementType, _ struct{}) { e.IDs = append(e.IDs, string(k.ID())) })
		return e
	case *sema.EntitlementMapAccess:
		return &AuthEnc{Kind: "map", IDs: []string{string(a.Type.ID())}}
	case sema.PrimitiveAccess:
		if a == sema.UnauthorizedAccess {
			return &AuthEnc{Kind: "none"}
		}
		return &AuthEnc{Kind: "prim:" + a.String()}
	}
	return &AuthEnc{Kind: "none"}
}

// Decode rebuilds the sema type from its JSON form.
func (u *Universe) Decode(e *Enc) (sema.Type, error) {
	sub := func(i int) (sema.Type, error) {
		if i >= len(e.C) {
			return nil, fmt.Errorf("tgen: %s lacks component %d", e.K, i)
		}
		return u.Decode(e.C[i])
	}
	switch e.K {
	case "nil":
		return nil, nil
	case "opt", "varr", "carr":
		t, err := sub(0)
		if err != nil {
			return nil, err
		}
		switch e.K {
		case "opt":
			return sema.NewOptionalType(nil, t), nil
		case "varr":
			return sema.NewVariableSizedType(nil, t), nil
		}
		return sema.NewConstantSizedType(nil, t, e.N), nil
	case "dict":
		k, err := sub(0)
		if err != nil {
			return nil, err
		}
		v, err := sub(1)
		if err != nil {
			return nil, err
		}
		return sema.NewDictionaryType(nil, k, v), nil
	case "ref":
		t, err := sub(0)
		if err != nil {
			return nil, err
		}
		a, err := u.DecodeAccess(e.Auth)
		if err != nil {
			return nil, err
		}
		return sema.NewReferenceType(nil, a, t), nil
	case "cap":
		if len(e.C) == 0 {
			return &sema.CapabilityType{}, nil
		}
		t, err := sub(0)
		if err != nil {
			return nil, err
		}
		return sema.NewCapabilityType(nil, t), nil
	case "range":
		if len(e.C) == 0 {
			return &sema.InclusiveRangeType{}, nil
		}
		t, err := sub(0)
		if err != nil {
			return nil, err
		}
		return sema.NewInclusiveRangeType(nil, t), nil
	case "inter":
		var is []*sema.InterfaceType
		for i := range e.C {
			t, err := sub(i)
			if err != nil {
				return nil, err
			}
			it, ok := t.(*sema.InterfaceType)
			if !ok {
				return nil, fmt.Errorf("tgen: intersection member %v is not an interface", t)
			}
			is = append(is, it)
		}
		return sema.NewIntersectionType(nil, nil, is), nil
	case "fun":
		f := e.Fn
		if f == nil {
			return nil, fmt.Errorf("tgen: function without fn")
		}
		var params []sema.Parameter
		for i := 0; i < f.NParams; i++ {
			t, err := sub(i)
			if err != nil {
				return nil, err
			}
			params = append(params, sema.Parameter{TypeAnnotation: sema.NewTypeAnnotation(t)})
		}
		var ret sema.TypeAnnotation
		if f.HasReturn {
			t, err := sub(f.NParams)
			if err != nil {
				return nil, err
			}
			ret = sema.NewTypeAnnotation(t)
		}
		purity := sema.FunctionPurityImpure
		if f.View {
			purity = sema.FunctionPurityView
		}
		ft := sema.NewSimpleFunctionType(purity, params, ret)
		ft.IsConstructor = f.Constructor
		if f.ArityMin != nil && f.ArityMax != nil {
			ft.Arity = &sema.Arity{Min: *f.ArityMin, Max: *f.ArityMax}
		}
		for _, k := range f.TypeParams {
			tp := &sema.TypeParameter{Name: "T"}
			if k > 0 {
				t, err := sub(k - 1)
				if err != nil {
					return nil, err
				}
				tp.TypeBound = t
			}
			ft.TypeParameters = append(ft.TypeParameters, tp)
		}
		return ft, nil
	case "comp", "iface", "prim":
		if t, ok := primitivesByID[common.TypeID(e.ID)]; ok {
			return t, nil
		}
		if t := u.Nominal(common.TypeID(e.ID)); t != nil {
			return t, nil
		}
		return nil, fmt.Errorf("tgen: unknown type id %q in universe %d", e.ID, u.Seed)
	}
	return nil, fmt.Errorf("tgen: unknown kind %q", e.K)
}

func (u *Universe) entitlementByID(id string) (*sema.EntitlementType, error) {
	if t, ok := u.Nominal(common.TypeID(id)).(*sema.EntitlementType); ok {
		return t, nil
	}
	if t, ok := sema.BuiltinEntitlements[id]; ok {
		return t, nil
	}
	return nil, fmt.Errorf("tgen: unknown entitlement %q", id)
}

func (u *Universe) DecodeAccess(a *AuthEnc) (sema.Access, error) {
	if a == nil {
		return sema.UnauthorizedAccess, nil
	}
	switch a.Kind {
	case "none":
		return sema.UnauthorizedAccess, nil
	case "map":
		if len(a.IDs) == 1 {
			if t, ok := u.Nominal(common.TypeID(a.IDs[0])).(*sema.EntitlementMapType); ok {
				return sema.NewEntitlementMapAccess(t), nil
			}
			if t, ok := sema.BuiltinEntitlementMappings[a.IDs[0]]; ok {
				return sema.NewEntitlementMapAccess(t), nil
			}
		}
		return nil, fmt.Errorf("tgen: unknown mapping %v", a.IDs)
	case "conj", "disj":
		var es []*sema.EntitlementType
		for _, id := range a.IDs {
			e, err := u.entitlementByID(id)
			if err != nil {
				return nil, err
			}
			es = append(es, e)
		}
		kind := sema.Conjunction
		if a.Kind == "disj" {
			kind = sema.Disjunction
		}
		return sema.NewEntitlementSetAccess(es, kind), nil
	}
	return nil, fmt.Errorf("tgen: unknown authorization kind %q", a.Kind)
}
