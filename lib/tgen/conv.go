package tgen

import (
	"github.com/onflow/cadence"
	"github.com/onflow/cadence/interpreter"
	"github.com/onflow/cadence/runtime"
	"github.com/onflow/cadence/sema"
)

// Static is the run-time (static type) form of t, produced by the production
// converter (the conversion itself is what C45 checks).
func Static(t sema.Type) interpreter.StaticType {
	return interpreter.ConvertSemaToStaticType(nil, t)
}

// Exported is the external (cadence.Type) form of t, produced by the production
// exporter.
func Exported(t sema.Type) cadence.Type {
	return runtime.ExportType(t, map[sema.TypeID]cadence.Type{})
}

// Exportable reports whether t has an exported form at all (function types
// with type parameters and the like are exported only approximately).
func Exportable(t sema.Type) bool {
	return !Has(t, func(x sema.Type) bool {
		switch x := x.(type) {
		case *sema.FunctionType:
			return x.Arity != nil || len(x.TypeParameters) > 0 || x.IsConstructor
		}
		return false
	})
}
