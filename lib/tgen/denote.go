package tgen

import (
	"fmt"
	"strings"

	"github.com/onflow/cadence/ast"
	"github.com/onflow/cadence/common"
	"github.com/onflow/cadence/parser"
	"github.com/onflow/cadence/sema"
)

// TypeSource prints t in Cadence type syntax (without a leading resource
// annotation). It is written against the language grammar, not against any of
// the String()/ID() methods of the code under test.
func TypeSource(t sema.Type) string {
	switch t := t.(type) {
	case *sema.OptionalType:
		inner := TypeSource(t.Type)
		switch t.Type.(type) {
		case *sema.ReferenceType, *sema.FunctionType:
			inner = "(" + inner + ")"
		}
		return inner + "?"
	case *sema.VariableSizedType:
		return "[" + TypeSource(t.Type) + "]"
	case *sema.ConstantSizedType:
		return fmt.Sprintf("[%s; %d]", TypeSource(t.Type), t.Size)
	case *sema.DictionaryType:
		return "{" + TypeSource(t.KeyType) + ": " + TypeSource(t.ValueType) + "}"
	case *sema.ReferenceType:
		inner := TypeSource(t.Type)
		if _, ok := t.Type.(*sema.FunctionType); ok {
			inner = "(" + inner + ")"
		}
		return AccessSource(t.Authorization) + "&" + inner
	case *sema.CapabilityType:
		if t.BorrowType == nil {
			return "Capability"
		}
		return "Capability<" + TypeSource(t.BorrowType) + ">"
	case *sema.InclusiveRangeType:
		if t.MemberType == nil {
			return "InclusiveRange"
		}
		return "InclusiveRange<" + TypeSource(t.MemberType) + ">"
	case *sema.IntersectionType:
		parts := make([]string, len(t.Types))
		for i, x := range t.Types {
			parts[i] = x.QualifiedIdentifier()
		}
		return "{" + strings.Join(parts, ", ") + "}"
	case *sema.FunctionType:
		parts := make([]string, len(t.Parameters))
		for i, p := range t.Parameters {
			parts[i] = Annotation(p.TypeAnnotation.Type)
		}
		s := "fun(" + strings.Join(parts, ", ") + "): "
		if t.ReturnTypeAnnotation.Type == nil {
			s += "Void"
		} else {
			s += Annotation(t.ReturnTypeAnnotation.Type)
		}
		if t.Purity == sema.FunctionPurityView {
			s = "view " + s
		}
		return s
	case *sema.CompositeType:
		return t.QualifiedIdentifier()
	case *sema.InterfaceType:
		return t.QualifiedIdentifier()
	}
	return t.String()
}

// Annotation prints t as a type annotation (`@` for resource types).
func Annotation(t sema.Type) string {
	if t.IsResourceType() {
		return "@" + TypeSource(t)
	}
	return TypeSource(t)
}

// AccessSource prints a reference authorization prefix ("" or "auth(...) ").
func AccessSource(a sema.Access) string {
	switch a := a.(type) {
	case sema.EntitlementSetAccess:
		var parts []string
		a.Entitlements.Foreach(func(k *sema.EntitlementType, _ struct{}) { parts = append(parts, k.QualifiedIdentifier()) })
		sep := ", "
		if a.SetKind == sema.Disjunction {
			sep = " | "
		}
		return "auth(" + strings.Join(parts, sep) + ") "
	case *sema.EntitlementMapAccess:
		return "auth(mapping " + a.Type.QualifiedIdentifier() + ") "
	}
	return ""
}

// DenoteImports is the import prelude under which TypeSource output resolves.
func (u *Universe) DenoteImports() string {
	var sb strings.Builder
	for _, p := range u.Programs {
		switch l := p.Location.(type) {
		case common.AddressLocation:
			fmt.Fprintf(&sb, "import %s from 0x%s\n", l.Name, l.Address.Hex())
		case common.StringLocation:
			fmt.Fprintf(&sb, "import %q\n", string(l))
		}
	}
	return sb.String()
}

// ContractImports is the prelude for programs run through a host on which only
// the contracts of the universe are deployed.
func (u *Universe) ContractImports() string {
	var sb strings.Builder
	for _, p := range u.Programs {
		if l, ok := p.Location.(common.AddressLocation); ok {
			fmt.Fprintf(&sb, "import %s from 0x%s\n", l.Name, l.Address.Hex())
		}
	}
	return sb.String()
}

// SemaConfig returns a checker configuration that resolves imports of the
// universe's programs.
func (u *Universe) SemaConfig() *sema.Config {
	return &sema.Config{
		AccessCheckMode: sema.AccessCheckModeStrict,
		ImportHandler: func(_ *sema.Checker, loc common.Location, _ ast.Range) (sema.Import, error) {
			if p := u.ProgramAt(loc); p != nil && p.Checker != nil {
				return sema.ElaborationImport{Elaboration: p.Checker.Elaboration}, nil
			}
			return nil, fmt.Errorf("tgen: unknown import %v", loc)
		},
		LocationHandler: func(ids []ast.Identifier, loc common.Location) ([]sema.ResolvedLocation, error) {
			al, ok := loc.(common.AddressLocation)
			if !ok {
				return []sema.ResolvedLocation{{Location: loc, Identifiers: ids}}, nil
			}
			var out []sema.ResolvedLocation
			for _, id := range ids {
				out = append(out, sema.ResolvedLocation{
					Location:    common.AddressLocation{Address: al.Address, Name: id.Identifier},
					Identifiers: []ast.Identifier{id},
				})
			}
			return out, nil
		},
	}
}

// Check parses and checks a program that may import the universe.
func (u *Universe) Check(src string, loc common.Location) (*sema.Checker, error) {
	prog, err := parser.ParseProgram(nil, []byte(src), parser.Config{})
	if err != nil {
		return nil, err
	}
	checker, err := sema.NewChecker(prog, loc, nil, u.SemaConfig())
	if err != nil {
		return nil, err
	}
	return checker, checker.Check()
}

// DenoteProgram renders a program (imports + one struct interface `Z` with one
// bodiless function per type, each taking the type as its only parameter).
func (u *Universe) DenoteProgram(types []sema.Type) string {
	var sb strings.Builder
	sb.WriteString(u.DenoteImports())
	sb.WriteString("access(all) struct interface Z {\n")
	for i, t := range types {
		fmt.Fprintf(&sb, "    access(all) fun f%d(_ x: %s)\n", i, Annotation(t))
	}
	sb.WriteString("}\n")
	return sb.String()
}

// CheckTypes checks DenoteProgram(types) and returns the parameter types the
// checker derived from the written annotations.
func (u *Universe) CheckTypes(types []sema.Type) ([]sema.Type, error) {
	src := u.DenoteProgram(types)
	checker, err := u.Check(src, common.StringLocation("tgen-denote"))
	if err != nil {
		return nil, fmt.Errorf("%w\n%s", err, src)
	}
	v, ok := checker.Elaboration.GetGlobalType("Z")
	if !ok {
		return nil, fmt.Errorf("tgen: Z not found")
	}
	it := v.Type.(*sema.InterfaceType)
	out := make([]sema.Type, len(types))
	for i := range types {
		m, ok := it.Members.Get(fmt.Sprintf("f%d", i))
		if !ok {
			return nil, fmt.Errorf("tgen: f%d not found", i)
		}
		out[i] = m.TypeAnnotation.Type.(*sema.FunctionType).Parameters[0].TypeAnnotation.Type
	}
	return out, nil
}
