package tgen

import (
	"errors"
	"fmt"
	"math/rand"
	"strings"

	"github.com/onflow/cadence/ast"
	"github.com/onflow/cadence/common"
	"github.com/onflow/cadence/sema"

	"verif/lib/prog"
)

// EntitlementHistory generates an executable history exercising entitlements:
// a contract with 4 entitlements, 4 random entitlement mappings, a struct with
// functions of many access kinds, a struct with mapped fields (plain and
// optional) and entitled fields, nested two levels; and a
// script that takes references with random authorizations, upcasts them and
// calls every member chain the checker accepts. It is a pure function of seed.
// (C06 has its own copy of the contract shape with a model attached; this form is
// for the properties that consume any program: C01, C24, C31, C33, C34.)
func EntitlementHistory(seed int64) (prog.History, error) {
	var err error
	for try := int64(0); try < 16; try++ {
		var h prog.History
		if h, err = entitlementHistory(seed, try); err == nil {
			return h, nil
		}
	}
	return prog.History{}, err
}

func entitlementHistory(seed, try int64) (prog.History, error) {
	r := rand.New(rand.NewSource(seed*7907 + 11 + try*104729))
	var sb strings.Builder
	sb.WriteString("access(all) contract EntC {\n")
	for i := 0; i < 4; i++ {
		fmt.Fprintf(&sb, "    access(all) entitlement E%d\n", i)
	}
	for k := 0; k < 4; k++ {
		fmt.Fprintf(&sb, "    access(all) entitlement mapping M%d {\n", k)
		if r.Intn(4) == 0 {
			sb.WriteString("        include Identity\n")
		}
		n := 1 + r.Intn(4)
		seen := map[[2]int]bool{}
		for x := 0; x < n; x++ {
			rel := [2]int{r.Intn(4), r.Intn(4)}
			if !seen[rel] {
				seen[rel] = true
				fmt.Fprintf(&sb, "        E%d -> E%d\n", rel[0], rel[1])
			}
		}
		sb.WriteString("    }\n")
	}
	accesses := []string{"all", "E0", "E1", "E2", "E3", "E0, E1", "E0 | E1", "E2 | E3", "E1, E2, E3"}
	sb.WriteString("    access(all) struct T {\n        access(all) var n: Int\n")
	for i, a := range accesses {
		fmt.Fprintf(&sb, "        access(%s) fun f%d(): Int { return self.n + %d }\n", a, i, i)
	}
	sb.WriteString("        init() { self.n = 100 }\n    }\n")
	sb.WriteString("    access(all) struct S {\n")
	for k := 0; k < 4; k++ {
		fmt.Fprintf(&sb, "        access(mapping M%d) let t%d: T\n        access(mapping M%d) let o%d: T?\n", k, k, k, k)
	}
	// NOTE: no reference-typed field here: a struct that holds a reference and exceeds the atree inline
	// size, nested in another struct, fails the interpreter's atree round-trip validation
	// (AtreeValidationEnabled) although the program is valid (see findings_inbox/types.md, note N1).
	sb.WriteString("        access(E1) let plain: T\n")
	sb.WriteString("        init(_ r: auth(E0, E1, E2, E3) &T) {\n")
	for k := 0; k < 4; k++ {
		fmt.Fprintf(&sb, "            self.t%d = T()\n            self.o%d = T()\n", k, k)
	}
	sb.WriteString("            self.plain = T()\n        }\n    }\n")
	fmt.Fprintf(&sb, "    access(all) struct O {\n        access(mapping M%d) let s: S\n        init(_ r: auth(E0, E1, E2, E3) &T) { self.s = S(r) }\n    }\n}\n", r.Intn(4))
	contract := sb.String()

	addr := common.Address{0, 0, 0, 0, 0, 0, 0, 1}
	u, err := BuildUniverse(seed, []*Program{{Location: common.AddressLocation{Address: addr, Name: "EntC"}, Name: "EntC", Source: contract}})
	if err != nil {
		return prog.History{}, err
	}

	auth := func() string {
		n := 1 + r.Intn(3)
		seen := map[int]bool{}
		var es []string
		for i := 0; i < n; i++ {
			e := r.Intn(4)
			if !seen[e] {
				seen[e] = true
				es = append(es, fmt.Sprintf("EntC.E%d", e))
			}
		}
		sep := ", "
		if len(es) > 1 && r.Intn(2) == 0 {
			sep = " | "
		}
		return "auth(" + strings.Join(es, sep) + ") "
	}
	// candidate statements, one per line; the checker filters them
	const imp = "import EntC from 0x1\n"
	head := imp + "access(all) fun main(): Int {\n    var total = 0\n    let t = EntC.T()\n    let tr = &t as auth(EntC.E0, EntC.E1, EntC.E2, EntC.E3) &EntC.T\n    let s = EntC.S(tr)\n    let o = EntC.O(tr)\n"
	var decls, cands []string
	for i := 0; i < 6; i++ {
		a := auth()
		if i%2 == 0 {
			decls = append(decls, fmt.Sprintf("    let r%d = &s as %s&EntC.S\n", i, a))
		} else {
			decls = append(decls, fmt.Sprintf("    let r%d = (&o as %s&EntC.O).s\n", i, a))
		}
		for _, m := range []string{"t0", "t1", "t2", "t3", "o0!", "o1!", "o2!", "o3!", "plain"} {
			for f := range accesses {
				if r.Intn(3) == 0 {
					cands = append(cands, fmt.Sprintf("    total = total + r%d.%s.f%d()\n", i, m, f))
				}
			}
		}
	}
	headLines := strings.Count(head, "\n") + len(decls)
	full := head + strings.Join(decls, "") + strings.Join(cands, "") + "    return total\n}\n"
	_, cerr := u.Check(full, common.StringLocation("entprog"))
	bad := map[int]bool{}
	if cerr != nil {
		var ce *sema.CheckerError
		if !errors.As(cerr, &ce) {
			var ce2 sema.CheckerError
			if !errors.As(cerr, &ce2) {
				return prog.History{}, cerr
			}
			ce = &ce2
		}
		for _, e := range ce.Errors {
			if hp, ok := e.(ast.HasPosition); ok {
				bad[hp.StartPosition().Line] = true
			}
		}
	}
	var kept []string
	for i, c := range cands {
		if !bad[headLines+1+i] {
			kept = append(kept, c)
		}
	}
	// the declarations themselves may be rejected (unrepresentable mapped authorization): drop the script then
	for i := range decls {
		if bad[strings.Count(head, "\n")+1+i] {
			return prog.History{}, fmt.Errorf("tgen: reference declaration %d rejected", i)
		}
	}
	script := head + strings.Join(decls, "") + strings.Join(kept, "") + "    return total\n}\n"
	if _, err := u.Check(script, common.StringLocation("entprog")); err != nil {
		return prog.History{}, fmt.Errorf("tgen: filtered entitlement script does not check: %w", err)
	}
	return prog.History{
		Steps: []prog.Step{
			{Kind: prog.Deploy, Name: "EntC", Source: contract, Signers: []uint64{1}},
			{Kind: prog.Script, Source: script},
		},
		Features: []string{"entitlements", "entitlement-mappings", "mapped-fields", "references"},
		Origin:   "tgen.EntitlementHistory",
	}, nil
}
