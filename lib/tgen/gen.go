package tgen

import (
	"math/rand"
	"sort"

	"github.com/onflow/cadence/common"
	"github.com/onflow/cadence/sema"
	"pgregory.net/rapid"
)

// Src is the abstract source of choices: a seeded PRNG in the enumerative loops,
// a *rapid.T under rapid (so that rapid can shrink).
type Src interface {
	Intn(n int) int
}

// RandSrc adapts *rand.Rand.
type RandSrc struct{ R *rand.Rand }

func (s RandSrc) Intn(n int) int { return s.R.Intn(n) }

// RapidSrc adapts *rapid.T.
type RapidSrc struct{ T *rapid.T }

func (s RapidSrc) Intn(n int) int {
	if n <= 1 {
		return 0
	}
	return rapid.IntRange(0, n-1).Draw(s.T, "c")
}

// Options of a generator.
type Options struct {
	MaxDepth int
	// Denotable restricts generation to types a program can write down as a type
	// annotation (no bare interface types, no mapped reference authorization, no
	// function type parameters / arity, no `Any`).
	Denotable bool
	// NoFunctions excludes function types (e.g. for storable/exportable domains).
	NoFunctions bool
}

// Gen draws sema types over a universe.
type Gen struct {
	U   *Universe
	S   Src
	Opt Options
}

func NewGen(u *Universe, s Src, opt Options) *Gen {
	if opt.MaxDepth == 0 {
		opt.MaxDepth = 4
	}
	return &Gen{U: u, S: s, Opt: opt}
}

// RapidType is the rapid form of the generator.
func RapidType(u *Universe, opt Options) *rapid.Generator[sema.Type] {
	return rapid.Custom(func(t *rapid.T) sema.Type {
		return NewGen(u, RapidSrc{t}, opt).Type()
	})
}

// ---- leaves -----------------------------------------------------------------------

var concreteIntegers = []sema.Type{
	sema.IntType, sema.Int8Type, sema.Int16Type, sema.Int32Type, sema.Int64Type, sema.Int128Type, sema.Int256Type,
	sema.UIntType, sema.UInt8Type, sema.UInt16Type, sema.UInt32Type, sema.UInt64Type, sema.UInt128Type, sema.UInt256Type,
	sema.Word8Type, sema.Word16Type, sema.Word32Type, sema.Word64Type, sema.Word128Type, sema.Word256Type,
}

var abstractNumbers = []sema.Type{
	sema.NumberType, sema.SignedNumberType, sema.IntegerType, sema.SignedIntegerType,
	sema.FixedSizeUnsignedIntegerType, sema.FixedPointType, sema.SignedFixedPointType,
}

var fixedPoints = []sema.Type{sema.Fix64Type, sema.UFix64Type, sema.Fix128Type, sema.UFix128Type}

var pathTypes = []sema.Type{
	sema.PathType, sema.StoragePathType, sema.CapabilityPathType, sema.PublicPathType, sema.PrivatePathType,
}

// hashable leaves other than numbers, paths and enums (the dictionary key rule)
var hashableMisc = []sema.Type{
	sema.BoolType, sema.CharacterType, sema.StringType, sema.MetaType, sema.HashableStructType, sema.TheAddressType, sema.NeverType,
}

var topTypes = []sema.Type{
	sema.AnyStructType, sema.AnyResourceType, sema.AnyStructAttachmentType, sema.AnyResourceAttachmentType,
	sema.HashableStructType, sema.NeverType, sema.VoidType,
}

var nativeComposites = []sema.Type{
	sema.AccountType, sema.Account_StorageType, sema.Account_ContractsType, sema.Account_KeysType, sema.Account_InboxType,
	sema.Account_CapabilitiesType, sema.Account_StorageCapabilitiesType, sema.Account_AccountCapabilitiesType,
	sema.DeployedContractType, sema.BlockType, sema.AccountKeyType, sema.PublicKeyType,
	sema.SignatureAlgorithmType, sema.HashAlgorithmType, sema.RoundingRuleType,
	sema.StorageCapabilityControllerType, sema.AccountCapabilityControllerType, sema.DeploymentResultType,
	sema.StringBuilderType,
}

// BuiltinEntitlements returns the built-in entitlements sorted by identifier.
func BuiltinEntitlements() []*sema.EntitlementType {
	keys := make([]string, 0, len(sema.BuiltinEntitlements))
	for k := range sema.BuiltinEntitlements {
		keys = append(keys, k)
	}
	sort.Strings(keys)
	out := make([]*sema.EntitlementType, len(keys))
	for i, k := range keys {
		out[i] = sema.BuiltinEntitlements[k]
	}
	return out
}

var builtinEnts = BuiltinEntitlements()

func pickT(s Src, xs []sema.Type) sema.Type { return xs[s.Intn(len(xs))] }

// Leaf draws a type without component types.
func (g *Gen) Leaf() sema.Type {
	u := g.U
	for {
		switch g.S.Intn(16) {
		case 0:
			return pickT(g.S, concreteIntegers)
		case 1:
			return pickT(g.S, abstractNumbers)
		case 2:
			return pickT(g.S, fixedPoints)
		case 3:
			return pickT(g.S, pathTypes)
		case 4:
			return pickT(g.S, hashableMisc)
		case 5:
			return pickT(g.S, topTypes)
		case 6:
			return pickT(g.S, nativeComposites)
		case 7, 8:
			if len(u.Structs) > 0 {
				return u.Structs[g.S.Intn(len(u.Structs))]
			}
		case 9, 10:
			if len(u.Resources) > 0 {
				return u.Resources[g.S.Intn(len(u.Resources))]
			}
		case 11:
			if len(u.Enums) > 0 {
				return u.Enums[g.S.Intn(len(u.Enums))]
			}
		case 12:
			k := g.S.Intn(3)
			if g.Opt.Denotable {
				k = 2 // attachment types can only be written as the referent of a reference
			}
			switch k {
			case 0:
				if len(u.StructAttachments) > 0 {
					return u.StructAttachments[g.S.Intn(len(u.StructAttachments))]
				}
			case 1:
				if len(u.ResourceAttachments) > 0 {
					return u.ResourceAttachments[g.S.Intn(len(u.ResourceAttachments))]
				}
			default:
				if g.S.Intn(2) == 0 && len(u.Events) > 0 {
					return u.Events[g.S.Intn(len(u.Events))]
				}
				if len(u.Contracts) > 0 {
					return u.Contracts[g.S.Intn(len(u.Contracts))]
				}
			}
		case 13:
			return g.Intersection()
		case 14:
			if !g.Opt.Denotable {
				if t := g.Interface(); t != nil {
					return t
				}
			}
			return &sema.CapabilityType{}
		default:
			return pickT(g.S, []sema.Type{sema.StringType, sema.IntType, sema.BoolType, sema.UInt8Type, sema.AnyStructType})
		}
	}
}

// Interface draws a bare interface type (struct, resource, or rarely contract).
func (g *Gen) Interface() *sema.InterfaceType {
	u := g.U
	switch g.S.Intn(7) {
	case 0:
		if len(u.ContractInterfaces) > 0 {
			return u.ContractInterfaces[g.S.Intn(len(u.ContractInterfaces))]
		}
		fallthrough
	case 1, 2, 3:
		if g.S.Intn(8) == 0 {
			return sema.StructStringerType
		}
		return u.StructInterfaces[g.S.Intn(len(u.StructInterfaces))]
	default:
		return u.ResourceInterfaces[g.S.Intn(len(u.ResourceInterfaces))]
	}
}

// Intersection draws `{I1, ..., In}` with 1..3 distinct interfaces of one kind, in any order.
func (g *Gen) Intersection() *sema.IntersectionType {
	pool := g.U.StructInterfaces
	if g.S.Intn(2) == 0 {
		pool = g.U.ResourceInterfaces
	} else if g.S.Intn(6) == 0 {
		pool = append(append([]*sema.InterfaceType{}, pool...), sema.StructStringerType)
	}
	n := 1 + g.S.Intn(3)
	if n > len(pool) {
		n = len(pool)
	}
	idx := make([]int, len(pool))
	for i := range idx {
		idx[i] = i
	}
	types := make([]*sema.InterfaceType, 0, n)
	for i := 0; i < n; i++ {
		j := i + g.S.Intn(len(idx)-i)
		idx[i], idx[j] = idx[j], idx[i]
		types = append(types, pool[idx[i]])
	}
	return sema.NewIntersectionType(nil, nil, types)
}

// EntitlementPool is the set of entitlements authorizations are drawn from.
func (g *Gen) entitlement() *sema.EntitlementType {
	if g.S.Intn(6) == 0 {
		return builtinEnts[g.S.Intn(len(builtinEnts))]
	}
	return g.U.Entitlements[g.S.Intn(len(g.U.Entitlements))]
}

// Access draws a reference authorization.
func (g *Gen) Access() sema.Access {
	switch k := g.S.Intn(10); {
	case k < 3:
		return sema.UnauthorizedAccess
	case k == 3 && !g.Opt.Denotable:
		return sema.NewEntitlementMapAccess(g.U.Mappings[g.S.Intn(len(g.U.Mappings))])
	default:
		n := 1 + g.S.Intn(3)
		seen := map[*sema.EntitlementType]bool{}
		var es []*sema.EntitlementType
		for i := 0; i < n; i++ {
			e := g.entitlement()
			if !seen[e] {
				seen[e] = true
				es = append(es, e)
			}
		}
		kind := sema.Conjunction
		if len(es) > 1 && g.S.Intn(2) == 0 {
			kind = sema.Disjunction
		}
		return sema.NewEntitlementSetAccess(es, kind)
	}
}

// HashableLeaf draws a valid dictionary key type.
func (g *Gen) HashableLeaf() sema.Type {
	switch g.S.Intn(6) {
	case 0:
		return pickT(g.S, concreteIntegers)
	case 1:
		if g.S.Intn(2) == 0 {
			return pickT(g.S, abstractNumbers)
		}
		return pickT(g.S, fixedPoints)
	case 2:
		return pickT(g.S, pathTypes)
	case 3:
		if len(g.U.Enums) > 0 {
			return g.U.Enums[g.S.Intn(len(g.U.Enums))]
		}
		fallthrough
	default:
		return pickT(g.S, hashableMisc)
	}
}

var sizes = []int64{0, 1, 2, 3, 7, 1 << 31, 1<<63 - 1}

// Type draws a type of depth <= MaxDepth.
func (g *Gen) Type() sema.Type { return g.TypeD(g.Opt.MaxDepth) }

// TypeD draws a type with at most d constructor levels above the leaves.
func (g *Gen) TypeD(d int) sema.Type {
	if d <= 0 || g.S.Intn(d+2) == 0 {
		return g.Leaf()
	}
	switch g.S.Intn(14) {
	case 0, 1:
		return sema.NewOptionalType(nil, g.TypeD(d-1))
	case 2:
		return sema.NewVariableSizedType(nil, g.TypeD(d-1))
	case 3:
		return sema.NewConstantSizedType(nil, g.TypeD(d-1), sizes[g.S.Intn(len(sizes))])
	case 4:
		return sema.NewDictionaryType(nil, g.HashableLeaf(), g.TypeD(d-1))
	case 5, 6, 7:
		return g.Reference(d)
	case 8:
		if g.S.Intn(4) == 0 {
			return &sema.CapabilityType{}
		}
		return sema.NewCapabilityType(nil, g.Reference(d))
	case 9, 10:
		if g.Opt.NoFunctions {
			return g.Leaf()
		}
		return g.Function(d)
	case 11:
		return sema.NewInclusiveRangeType(nil, pickT(g.S, concreteIntegers))
	default:
		return g.Leaf()
	}
}

// Reference draws a reference type; the referenced type is never a reference
// (the checker does not allow `&&T`) and never an optional.
func (g *Gen) Reference(d int) *sema.ReferenceType {
	var inner sema.Type
	if g.S.Intn(10) == 0 {
		// attachment referent (the only place an attachment type may be written)
		pool := g.U.StructAttachments
		if g.S.Intn(2) == 0 {
			pool = g.U.ResourceAttachments
		}
		if len(pool) > 0 {
			return sema.NewReferenceType(nil, g.Access(), pool[g.S.Intn(len(pool))])
		}
	}
	for tries := 0; ; tries++ {
		inner = g.TypeD(d - 1)
		switch inner.(type) {
		case *sema.ReferenceType, *sema.OptionalType:
			if tries < 8 {
				continue
			}
			inner = g.Leaf()
		}
		break
	}
	return sema.NewReferenceType(nil, g.Access(), inner)
}

// Function draws a function type.
func (g *Gen) Function(d int) *sema.FunctionType {
	n := g.S.Intn(4)
	var params []sema.Parameter
	for i := 0; i < n; i++ {
		params = append(params, sema.Parameter{TypeAnnotation: g.annotation(d - 1)})
	}
	purity := sema.FunctionPurityImpure
	if g.S.Intn(2) == 0 {
		purity = sema.FunctionPurityView
	}
	var ret sema.TypeAnnotation
	if g.S.Intn(3) == 0 {
		ret = sema.VoidTypeAnnotation
	} else {
		ret = g.annotation(d - 1)
	}
	ft := sema.NewSimpleFunctionType(purity, params, ret)
	if !g.Opt.Denotable {
		switch g.S.Intn(12) {
		case 0:
			ft.Arity = &sema.Arity{Min: g.S.Intn(2), Max: n + g.S.Intn(2)}
		case 1:
			var bound sema.Type
			if g.S.Intn(2) == 0 {
				bound = g.TypeD(0)
			}
			ft.TypeParameters = []*sema.TypeParameter{{Name: "T", TypeBound: bound}}
		case 2:
			ft.IsConstructor = true
		}
	}
	return ft
}

func (g *Gen) annotation(d int) sema.TypeAnnotation {
	t := g.TypeD(d)
	return sema.NewTypeAnnotation(t)
}

// ---- closed sets ---------------------------------------------------------------------

// ClosedSet returns a deterministic list of types built from the universe: all
// leaves the generator knows, and one level of every constructor over a subset
// of them (about `limit` types). Used for exhaustive pair enumeration.
func ClosedSet(u *Universe, limit int) []sema.Type {
	var leaves []sema.Type
	add := func(xs ...sema.Type) { leaves = append(leaves, xs...) }
	add(concreteIntegers[:3]...)
	add(sema.UInt8Type, sema.Word64Type)
	add(abstractNumbers...)
	add(fixedPoints[:2]...)
	add(pathTypes...)
	add(hashableMisc...)
	add(topTypes...)
	add(sema.AccountType, sema.PublicKeyType, sema.HashAlgorithmType, &sema.CapabilityType{})
	for _, t := range u.Structs {
		add(t)
	}
	for _, t := range u.Resources {
		add(t)
	}
	for _, t := range u.Enums {
		add(t)
	}
	for _, t := range u.StructAttachments {
		add(t)
	}
	for _, t := range u.ResourceAttachments {
		add(t)
	}
	for _, t := range u.Contracts {
		add(t)
	}
	for _, t := range u.StructInterfaces {
		add(t)
	}
	for _, t := range u.ResourceInterfaces {
		add(t)
	}
	out := append([]sema.Type{}, leaves...)
	seen := map[common.TypeID]bool{}
	for _, t := range out {
		seen[t.ID()] = true
	}
	push := func(t sema.Type) {
		if len(out) < limit && !seen[t.ID()] {
			seen[t.ID()] = true
			out = append(out, t)
		}
	}
	r := rand.New(rand.NewSource(u.Seed + 99))
	g := NewGen(u, RandSrc{r}, Options{MaxDepth: 2})
	// intersections: every single interface, then pairs
	for _, i := range u.StructInterfaces {
		push(sema.NewIntersectionType(nil, nil, []*sema.InterfaceType{i}))
	}
	for _, i := range u.ResourceInterfaces {
		push(sema.NewIntersectionType(nil, nil, []*sema.InterfaceType{i}))
	}
	for k := 0; k < 12; k++ {
		push(g.Intersection())
	}
	base := append([]sema.Type{}, out...)
	for len(out) < limit {
		b := base[r.Intn(len(base))]
		switch r.Intn(8) {
		case 0:
			push(sema.NewOptionalType(nil, b))
		case 1:
			push(sema.NewVariableSizedType(nil, b))
		case 2:
			push(sema.NewConstantSizedType(nil, b, int64(r.Intn(3))))
		case 3:
			push(sema.NewDictionaryType(nil, g.HashableLeaf(), b))
		case 4, 5:
			if _, isRef := b.(*sema.ReferenceType); !isRef {
				push(sema.NewReferenceType(nil, g.Access(), b))
			}
		case 6:
			push(sema.NewCapabilityType(nil, sema.NewReferenceType(nil, g.Access(), base[r.Intn(len(leaves))])))
		default:
			push(g.Function(1))
		}
	}
	// `Any` only as a root (a program cannot denote it, let alone nest it)
	out = append(out, sema.AnyType)
	return out
}
