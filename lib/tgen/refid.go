package tgen

import (
	"encoding/hex"
	"fmt"
	"sort"
	"strings"

	"github.com/onflow/cadence/common"
	"github.com/onflow/cadence/sema"
)

// RefLocationTypeID is the reference (documented) format of a nominal type ID:
// prefix '.' location '.' qualified identifier, with the prefixes A (address,
// 16 lower-case hex digits), S (string), I (identifier), t (transaction, 64 hex
// digits), s (script, 64 hex digits), REPL (no location part); a nil location
// gives the bare qualified identifier. Written against the format, not against
// any TypeID method of the code under test.
func RefLocationTypeID(loc common.Location, qualifiedIdentifier string) string {
	switch l := loc.(type) {
	case nil:
		return qualifiedIdentifier
	case common.AddressLocation:
		return "A." + hex.EncodeToString(l.Address[:]) + "." + qualifiedIdentifier
	case common.StringLocation:
		return "S." + string(l) + "." + qualifiedIdentifier
	case common.IdentifierLocation:
		return "I." + string(l) + "." + qualifiedIdentifier
	case common.TransactionLocation:
		return "t." + hex.EncodeToString(l[:]) + "." + qualifiedIdentifier
	case common.ScriptLocation:
		return "s." + hex.EncodeToString(l[:]) + "." + qualifiedIdentifier
	case common.REPLLocation:
		return "REPL." + qualifiedIdentifier
	}
	panic(fmt.Sprintf("tgen: unknown location kind %T", loc))
}

func qualifiedID(identifier string, container sema.Type) string {
	parts := []string{identifier}
	for container != nil {
		switch c := container.(type) {
		case *sema.CompositeType:
			parts = append([]string{c.Identifier}, parts...)
			container = c.GetContainerType()
		case *sema.InterfaceType:
			parts = append([]string{c.Identifier}, parts...)
			container = c.GetContainerType()
		default:
			container = nil
		}
	}
	return strings.Join(parts, ".")
}

// RefID is the reference type ID of t: composition rules written against the
// documented ID grammar; leaves without structure (primitive types) use their name.
func RefID(t sema.Type) string {
	switch t := t.(type) {
	case *sema.OptionalType:
		return "(" + RefID(t.Type) + ")?"
	case *sema.VariableSizedType:
		return "[" + RefID(t.Type) + "]"
	case *sema.ConstantSizedType:
		return fmt.Sprintf("[%s;%d]", RefID(t.Type), t.Size)
	case *sema.DictionaryType:
		return "{" + RefID(t.KeyType) + ":" + RefID(t.ValueType) + "}"
	case *sema.ReferenceType:
		return RefAccessID(t.Authorization) + "&" + RefID(t.Type)
	case *sema.CapabilityType:
		if t.BorrowType == nil {
			return "Capability"
		}
		return "Capability<" + RefID(t.BorrowType) + ">"
	case *sema.InclusiveRangeType:
		if t.MemberType == nil {
			return "InclusiveRange"
		}
		return "InclusiveRange<" + RefID(t.MemberType) + ">"
	case *sema.IntersectionType:
		ids := make([]string, len(t.Types))
		for i, x := range t.Types {
			ids[i] = RefID(x)
		}
		sort.Strings(ids)
		return "{" + strings.Join(ids, ",") + "}"
	case *sema.FunctionType:
		var sb strings.Builder
		if t.Purity == sema.FunctionPurityView {
			sb.WriteString("view ")
		}
		sb.WriteString("fun")
		if len(t.TypeParameters) > 0 {
			sb.WriteString("<")
			for i, tp := range t.TypeParameters {
				if i > 0 {
					sb.WriteString(",")
				}
				sb.WriteString(tp.Name)
				if tp.TypeBound != nil {
					sb.WriteString(":" + RefID(tp.TypeBound))
				}
			}
			sb.WriteString(">")
		}
		sb.WriteString("(")
		for i, p := range t.Parameters {
			if i > 0 {
				sb.WriteString(",")
			}
			sb.WriteString(RefID(p.TypeAnnotation.Type))
		}
		sb.WriteString("):")
		if t.ReturnTypeAnnotation.Type == nil {
			sb.WriteString("Void")
		} else {
			sb.WriteString(RefID(t.ReturnTypeAnnotation.Type))
		}
		return sb.String()
	case *sema.CompositeType:
		if name, ok := refLeafNames[t]; ok {
			return name
		}
		return RefLocationTypeID(t.Location, qualifiedID(t.Identifier, t.GetContainerType()))
	case *sema.InterfaceType:
		if name, ok := refLeafNames[t]; ok {
			return name
		}
		return RefLocationTypeID(t.Location, qualifiedID(t.Identifier, t.GetContainerType()))
	case *sema.EntitlementType:
		return RefLocationTypeID(t.Location, qualifiedID(t.Identifier, t.GetContainerType()))
	case *sema.EntitlementMapType:
		return RefLocationTypeID(t.Location, qualifiedID(t.Identifier, t.GetContainerType()))
	}
	if name, ok := refLeafNames[t]; ok {
		return name
	}
	return string(t.ID())
}

// refLeafNames: the language-level names of the built-in leaf types, written out
// by hand (so that the three representations are compared with something that
// is not one of them). Native composites not listed here fall back to the checker's ID.
var refLeafNames = map[sema.Type]string{
	sema.IntType: "Int", sema.Int8Type: "Int8", sema.Int16Type: "Int16", sema.Int32Type: "Int32", sema.Int64Type: "Int64",
	sema.Int128Type: "Int128", sema.Int256Type: "Int256",
	sema.UIntType: "UInt", sema.UInt8Type: "UInt8", sema.UInt16Type: "UInt16", sema.UInt32Type: "UInt32", sema.UInt64Type: "UInt64",
	sema.UInt128Type: "UInt128", sema.UInt256Type: "UInt256",
	sema.Word8Type: "Word8", sema.Word16Type: "Word16", sema.Word32Type: "Word32", sema.Word64Type: "Word64",
	sema.Word128Type: "Word128", sema.Word256Type: "Word256",
	sema.Fix64Type: "Fix64", sema.UFix64Type: "UFix64", sema.Fix128Type: "Fix128", sema.UFix128Type: "UFix128",
	sema.NumberType: "Number", sema.SignedNumberType: "SignedNumber", sema.IntegerType: "Integer", sema.SignedIntegerType: "SignedInteger",
	sema.FixedSizeUnsignedIntegerType: "FixedSizeUnsignedInteger", sema.FixedPointType: "FixedPoint", sema.SignedFixedPointType: "SignedFixedPoint",
	sema.PathType: "Path", sema.StoragePathType: "StoragePath", sema.CapabilityPathType: "CapabilityPath",
	sema.PublicPathType: "PublicPath", sema.PrivatePathType: "PrivatePath",
	sema.BoolType: "Bool", sema.CharacterType: "Character", sema.StringType: "String", sema.MetaType: "Type",
	sema.HashableStructType: "HashableStruct", sema.TheAddressType: "Address", sema.NeverType: "Never", sema.VoidType: "Void",
	sema.AnyType: "Any", sema.AnyStructType: "AnyStruct", sema.AnyResourceType: "AnyResource",
	sema.AnyStructAttachmentType: "AnyStructAttachment", sema.AnyResourceAttachmentType: "AnyResourceAttachment",
	sema.AccountType: "Account", sema.Account_StorageType: "Account.Storage", sema.Account_ContractsType: "Account.Contracts",
	sema.Account_KeysType: "Account.Keys", sema.Account_InboxType: "Account.Inbox", sema.Account_CapabilitiesType: "Account.Capabilities",
	sema.Account_StorageCapabilitiesType: "Account.StorageCapabilities", sema.Account_AccountCapabilitiesType: "Account.AccountCapabilities",
	sema.DeployedContractType: "DeployedContract", sema.BlockType: "Block", sema.AccountKeyType: "AccountKey", sema.PublicKeyType: "PublicKey",
	sema.SignatureAlgorithmType: "SignatureAlgorithm", sema.HashAlgorithmType: "HashAlgorithm", sema.RoundingRuleType: "RoundingRule",
	sema.StorageCapabilityControllerType: "StorageCapabilityController", sema.AccountCapabilityControllerType: "AccountCapabilityController",
	sema.DeploymentResultType: "DeploymentResult", sema.StringBuilderType: "StringBuilder", sema.StructStringerType: "StructStringer",
}

// RefAccessID is "auth(<sorted entitlement IDs joined by , or |>)" or "" for an
// unauthorized reference; a mapped authorization is written with the mapping's ID.
func RefAccessID(a sema.Access) string {
	switch a := a.(type) {
	case sema.EntitlementSetAccess:
		var ids []string
		a.Entitlements.Foreach(func(k *sema.EntitlementType, _ struct{}) { ids = append(ids, RefID(k)) })
		sort.Strings(ids)
		sep := ","
		if a.SetKind == sema.Disjunction {
			sep = "|"
		}
		return "auth(" + strings.Join(ids, sep) + ")"
	case *sema.EntitlementMapAccess:
		return "auth(" + RefID(a.Type) + ")"
	}
	return ""
}
