package tgen

import (
	"github.com/onflow/cadence/common"
	"github.com/onflow/cadence/sema"
)

// Children returns the component types of t.
func Children(t sema.Type) []sema.Type {
	switch t := t.(type) {
	case *sema.OptionalType:
		return []sema.Type{t.Type}
	case *sema.VariableSizedType:
		return []sema.Type{t.Type}
	case *sema.ConstantSizedType:
		return []sema.Type{t.Type}
	case *sema.DictionaryType:
		return []sema.Type{t.KeyType, t.ValueType}
	case *sema.ReferenceType:
		return []sema.Type{t.Type}
	case *sema.CapabilityType:
		if t.BorrowType != nil {
			return []sema.Type{t.BorrowType}
		}
	case *sema.InclusiveRangeType:
		if t.MemberType != nil {
			return []sema.Type{t.MemberType}
		}
	case *sema.FunctionType:
		var out []sema.Type
		for _, p := range t.Parameters {
			out = append(out, p.TypeAnnotation.Type)
		}
		if t.ReturnTypeAnnotation.Type != nil {
			out = append(out, t.ReturnTypeAnnotation.Type)
		}
		return out
	}
	return nil
}

// Depth is the number of constructor levels (leaf = 1).
func Depth(t sema.Type) int {
	d := 0
	for _, c := range Children(t) {
		if cd := Depth(c); cd > d {
			d = cd
		}
	}
	return d + 1
}

// Kind labels the root constructor.
func Kind(t sema.Type) string {
	switch t := t.(type) {
	case *sema.OptionalType:
		return "optional"
	case *sema.VariableSizedType:
		return "array"
	case *sema.ConstantSizedType:
		return "constarray"
	case *sema.DictionaryType:
		return "dictionary"
	case *sema.ReferenceType:
		return "reference"
	case *sema.CapabilityType:
		return "capability"
	case *sema.InclusiveRangeType:
		return "range"
	case *sema.FunctionType:
		return "function"
	case *sema.IntersectionType:
		return "intersection"
	case *sema.InterfaceType:
		return "interface"
	case *sema.CompositeType:
		if t.Kind == common.CompositeKindAttachment {
			return "attachment"
		}
		if t.Location == nil {
			return "native-composite"
		}
		return t.Kind.Name()
	case *sema.NumericType, *sema.FixedPointNumericType:
		return "number"
	}
	return "simple"
}

// Has reports whether some node of t satisfies p.
func Has(t sema.Type, p func(sema.Type) bool) bool {
	if t == nil {
		return false
	}
	if p(t) {
		return true
	}
	for _, c := range Children(t) {
		if Has(c, p) {
			return true
		}
	}
	if f, ok := t.(*sema.FunctionType); ok {
		for _, tp := range f.TypeParameters {
			if Has(tp.TypeBound, p) {
				return true
			}
		}
	}
	return false
}

func IsAuthorizedRef(t sema.Type) bool {
	r, ok := t.(*sema.ReferenceType)
	return ok && r.Authorization != sema.UnauthorizedAccess
}

func IsIntersection(t sema.Type) bool { _, ok := t.(*sema.IntersectionType); return ok }

// Classes returns the feature labels of a type for the evidence histogram.
func Classes(t sema.Type) []string {
	out := []string{"root:" + Kind(t)}
	d := Depth(t)
	if d > 5 {
		d = 5
	}
	out = append(out, "depth:"+string(rune('0'+d)))
	if Has(t, IsAuthorizedRef) {
		out = append(out, "has-authorization")
	}
	if Has(t, func(x sema.Type) bool {
		r, ok := x.(*sema.ReferenceType)
		if !ok {
			return false
		}
		s, ok := r.Authorization.(sema.EntitlementSetAccess)
		return ok && s.SetKind == sema.Disjunction
	}) {
		out = append(out, "has-disjunction")
	}
	if Has(t, func(x sema.Type) bool {
		r, ok := x.(*sema.ReferenceType)
		if !ok {
			return false
		}
		_, ok = r.Authorization.(*sema.EntitlementMapAccess)
		return ok
	}) {
		out = append(out, "has-mapped-authorization")
	}
	if Has(t, IsIntersection) {
		out = append(out, "has-intersection")
	}
	if Has(t, func(x sema.Type) bool { _, ok := x.(*sema.FunctionType); return ok }) {
		out = append(out, "has-function")
	}
	return out
}

// Denotable reports whether a program can write t as a type annotation.
func Denotable(t sema.Type) bool {
	if c, ok := t.(*sema.CompositeType); ok && c.Kind == common.CompositeKindAttachment {
		return false
	}
	return !Has(t, func(x sema.Type) bool {
		// an attachment type may only be written as the direct referent of a reference
		if _, isRef := x.(*sema.ReferenceType); !isRef {
			for _, c := range Children(x) {
				if cc, ok := c.(*sema.CompositeType); ok && cc.Kind == common.CompositeKindAttachment {
					return true
				}
			}
		}
		switch x := x.(type) {
		case *sema.InterfaceType:
			return true
		case *sema.ReferenceType:
			_, m := x.Authorization.(*sema.EntitlementMapAccess)
			return m
		case *sema.FunctionType:
			return x.Arity != nil || len(x.TypeParameters) > 0 || x.IsConstructor
		case *sema.InclusiveRangeType:
			return x.MemberType == nil
		}
		return x == sema.AnyType
	})
}

// ---- related types ---------------------------------------------------------------------

func numberParents(t sema.Type) []sema.Type {
	switch t {
	case sema.IntType, sema.Int8Type, sema.Int16Type, sema.Int32Type, sema.Int64Type, sema.Int128Type, sema.Int256Type:
		return []sema.Type{sema.SignedIntegerType, sema.IntegerType, sema.SignedNumberType, sema.NumberType}
	case sema.UIntType:
		return []sema.Type{sema.IntegerType, sema.NumberType}
	case sema.UInt8Type, sema.UInt16Type, sema.UInt32Type, sema.UInt64Type, sema.UInt128Type, sema.UInt256Type,
		sema.Word8Type, sema.Word16Type, sema.Word32Type, sema.Word64Type, sema.Word128Type, sema.Word256Type:
		return []sema.Type{sema.FixedSizeUnsignedIntegerType, sema.IntegerType, sema.NumberType}
	case sema.Fix64Type, sema.Fix128Type:
		return []sema.Type{sema.SignedFixedPointType, sema.FixedPointType, sema.SignedNumberType, sema.NumberType}
	case sema.UFix64Type, sema.UFix128Type:
		return []sema.Type{sema.FixedPointType, sema.NumberType}
	case sema.SignedIntegerType:
		return []sema.Type{sema.IntegerType, sema.SignedNumberType, sema.NumberType}
	case sema.FixedSizeUnsignedIntegerType:
		return []sema.Type{sema.IntegerType, sema.NumberType}
	case sema.IntegerType, sema.FixedPointType, sema.SignedNumberType:
		return []sema.Type{sema.NumberType}
	case sema.SignedFixedPointType:
		return []sema.Type{sema.FixedPointType, sema.SignedNumberType, sema.NumberType}
	case sema.PublicPathType, sema.PrivatePathType:
		return []sema.Type{sema.CapabilityPathType, sema.PathType}
	case sema.StoragePathType, sema.CapabilityPathType:
		return []sema.Type{sema.PathType}
	}
	return nil
}

// Weaken returns a type that the subtyping rules make a *candidate* supertype
// of t (wrap optional, widen number class, weaken authorization, composite →
// interface / intersection subset, tops). It is a generator bias only; whether
// the result really is a supertype is decided by the code under test.
func (g *Gen) Weaken(t sema.Type) sema.Type { return g.weaken(t, true) }

func (g *Gen) weaken(t sema.Type, root bool) sema.Type {
	s := g.S
	if t == sema.AnyType {
		return t // `Any` is a root-only top: never wrapped
	}
	top := func() sema.Type {
		if root && s.Intn(4) == 0 {
			return sema.AnyType // `Any` is only ever used as a root
		}
		if t.IsResourceType() {
			return pickT(s, []sema.Type{sema.AnyResourceType, sema.NewOptionalType(nil, sema.AnyResourceType)})
		}
		return pickT(s, []sema.Type{sema.AnyStructType, sema.NewOptionalType(nil, sema.AnyStructType), sema.HashableStructType})
	}
	switch s.Intn(7) {
	case 0:
		return sema.NewOptionalType(nil, t)
	case 1:
		return top()
	}
	switch t := t.(type) {
	case *sema.OptionalType:
		return sema.NewOptionalType(nil, g.weaken(t.Type, false))
	case *sema.VariableSizedType:
		return sema.NewVariableSizedType(nil, g.weaken(t.Type, false))
	case *sema.ConstantSizedType:
		if s.Intn(6) == 0 {
			return sema.NewConstantSizedType(nil, t.Type, t.Size+1)
		}
		return sema.NewConstantSizedType(nil, g.weaken(t.Type, false), t.Size)
	case *sema.DictionaryType:
		if s.Intn(3) == 0 {
			if ps := numberParents(t.KeyType); len(ps) > 0 {
				return sema.NewDictionaryType(nil, pickT(s, ps), t.ValueType)
			}
			return sema.NewDictionaryType(nil, sema.HashableStructType, t.ValueType)
		}
		return sema.NewDictionaryType(nil, t.KeyType, g.weaken(t.ValueType, false))
	case *sema.ReferenceType:
		if s.Intn(2) == 0 {
			return sema.NewReferenceType(nil, g.WeakenAccess(t.Authorization), t.Type)
		}
		inner := g.weaken(t.Type, false)
		switch inner.(type) {
		case *sema.OptionalType, *sema.ReferenceType:
			inner = t.Type
		}
		return sema.NewReferenceType(nil, g.WeakenAccess(t.Authorization), inner)
	case *sema.CapabilityType:
		if t.BorrowType == nil || s.Intn(3) == 0 {
			return &sema.CapabilityType{}
		}
		return sema.NewCapabilityType(nil, g.weaken(t.BorrowType, false))
	case *sema.InclusiveRangeType:
		if t.MemberType != nil {
			// the type parameter is bounded by Integer: only integer classes are denotable
			var ips []sema.Type
			for _, p := range numberParents(t.MemberType) {
				switch p {
				case sema.IntegerType, sema.SignedIntegerType, sema.FixedSizeUnsignedIntegerType:
					ips = append(ips, p)
				}
			}
			if len(ips) > 0 {
				return sema.NewInclusiveRangeType(nil, pickT(s, ips))
			}
		}
		return top()
	case *sema.FunctionType:
		f := *cloneFn(t)
		switch s.Intn(4) {
		case 0:
			f.Purity = sema.FunctionPurityImpure
		case 1:
			if f.ReturnTypeAnnotation.Type != nil {
				f.ReturnTypeAnnotation = sema.NewTypeAnnotation(g.weaken(f.ReturnTypeAnnotation.Type, false))
			}
		case 2:
			if len(f.Parameters) > 0 {
				i := s.Intn(len(f.Parameters))
				f.Parameters[i].TypeAnnotation = sema.NewTypeAnnotation(g.Strengthen(f.Parameters[i].TypeAnnotation.Type))
			}
		default:
			return top()
		}
		return &f
	case *sema.IntersectionType:
		if len(t.Types) > 1 && s.Intn(2) == 0 {
			// subset, possibly reordered
			k := s.Intn(len(t.Types))
			var ts []*sema.InterfaceType
			for i, x := range t.Types {
				if i != k {
					ts = append(ts, x)
				}
			}
			if len(ts) > 1 && s.Intn(2) == 0 {
				ts[0], ts[len(ts)-1] = ts[len(ts)-1], ts[0]
			}
			return sema.NewIntersectionType(nil, nil, ts)
		}
		// replace a member by one of its parents
		k := s.Intn(len(t.Types))
		parents := t.Types[k].EffectiveInterfaceConformances()
		if len(parents) > 0 {
			ts := append([]*sema.InterfaceType{}, t.Types...)
			p := parents[s.Intn(len(parents))].InterfaceType
			dup := false
			for _, x := range ts {
				if x == p {
					dup = true
				}
			}
			if !dup {
				ts[k] = p
				return sema.NewIntersectionType(nil, nil, ts)
			}
		}
		if s.Intn(3) == 0 {
			return t.Types[k]
		}
		return top()
	case *sema.CompositeType:
		confs := t.EffectiveInterfaceConformances()
		if len(confs) > 0 && s.Intn(4) != 0 {
			n := 1 + s.Intn(2)
			var ts []*sema.InterfaceType
			seen := map[*sema.InterfaceType]bool{}
			for i := 0; i < n; i++ {
				c := confs[s.Intn(len(confs))].InterfaceType
				if !seen[c] {
					seen[c] = true
					ts = append(ts, c)
				}
			}
			if s.Intn(5) == 0 {
				return ts[0]
			}
			return sema.NewIntersectionType(nil, nil, ts)
		}
		if t.Kind == common.CompositeKindAttachment {
			if t.IsResourceType() {
				return sema.AnyResourceAttachmentType
			}
			return sema.AnyStructAttachmentType
		}
		return top()
	case *sema.InterfaceType:
		parents := t.EffectiveInterfaceConformances()
		if len(parents) > 0 {
			return parents[s.Intn(len(parents))].InterfaceType
		}
		return top()
	}
	if ps := numberParents(t); len(ps) > 0 {
		return pickT(s, ps)
	}
	return top()
}

// Strengthen returns a candidate *subtype* of t.
func (g *Gen) Strengthen(t sema.Type) sema.Type {
	s := g.S
	if s.Intn(8) == 0 {
		return sema.NeverType
	}
	switch t := t.(type) {
	case *sema.OptionalType:
		if s.Intn(2) == 0 {
			return t.Type
		}
		return sema.NewOptionalType(nil, g.Strengthen(t.Type))
	case *sema.VariableSizedType:
		return sema.NewVariableSizedType(nil, g.Strengthen(t.Type))
	case *sema.ConstantSizedType:
		return sema.NewConstantSizedType(nil, g.Strengthen(t.Type), t.Size)
	case *sema.DictionaryType:
		return sema.NewDictionaryType(nil, t.KeyType, g.Strengthen(t.ValueType))
	case *sema.ReferenceType:
		inner := t.Type
		if s.Intn(2) == 0 {
			inner = g.Strengthen(t.Type)
			switch inner.(type) {
			case *sema.OptionalType, *sema.ReferenceType:
				inner = t.Type
			}
		}
		return sema.NewReferenceType(nil, g.StrengthenAccess(t.Authorization), inner)
	case *sema.IntersectionType:
		// a composite conforming to the members, or a superset
		var cands []sema.Type
		pool := g.U.Structs
		if t.IsResourceType() {
			pool = g.U.Resources
		}
		for _, c := range pool {
			ok := true
			set := c.EffectiveInterfaceConformanceSet()
			for _, i := range t.Types {
				if !set.Contains(i) {
					ok = false
				}
			}
			if ok {
				cands = append(cands, c)
			}
		}
		if len(cands) > 0 && s.Intn(3) != 0 {
			return pickT(s, cands)
		}
		ipool := g.U.StructInterfaces
		if t.IsResourceType() {
			ipool = g.U.ResourceInterfaces
		}
		extra := ipool[s.Intn(len(ipool))]
		for _, x := range t.Types {
			if x == extra {
				return t
			}
		}
		ts := append([]*sema.InterfaceType{extra}, t.Types...)
		return sema.NewIntersectionType(nil, nil, ts)
	}
	switch t {
	case sema.AnyStructType:
		return g.TypeD(1)
	case sema.AnyResourceType:
		if len(g.U.Resources) > 0 {
			return g.U.Resources[s.Intn(len(g.U.Resources))]
		}
	case sema.NumberType, sema.IntegerType, sema.SignedIntegerType, sema.SignedNumberType:
		return pickT(s, concreteIntegers[:7])
	case sema.FixedSizeUnsignedIntegerType:
		return pickT(s, concreteIntegers[8:])
	case sema.FixedPointType, sema.SignedFixedPointType:
		return pickT(s, []sema.Type{sema.Fix64Type, sema.Fix128Type})
	case sema.PathType, sema.CapabilityPathType:
		return pickT(s, []sema.Type{sema.PublicPathType, sema.PrivatePathType})
	case sema.HashableStructType:
		return g.HashableLeaf()
	}
	return t
}

func entSlice(a sema.EntitlementSetAccess) []*sema.EntitlementType {
	var out []*sema.EntitlementType
	a.Entitlements.Foreach(func(k *sema.EntitlementType, _ struct{}) { out = append(out, k) })
	return out
}

// WeakenAccess returns an authorization that is a candidate for granting less.
func (g *Gen) WeakenAccess(a sema.Access) sema.Access {
	s := g.S
	set, ok := a.(sema.EntitlementSetAccess)
	if !ok || s.Intn(4) == 0 {
		if s.Intn(3) == 0 {
			return a
		}
		return sema.UnauthorizedAccess
	}
	es := entSlice(set)
	switch set.SetKind {
	case sema.Conjunction:
		switch s.Intn(3) {
		case 0: // drop one
			if len(es) > 1 {
				k := s.Intn(len(es))
				es = append(append([]*sema.EntitlementType{}, es[:k]...), es[k+1:]...)
				return sema.NewEntitlementSetAccess(es, sema.Conjunction)
			}
			return sema.UnauthorizedAccess
		case 1: // conj -> disj over a superset
			es = append(append([]*sema.EntitlementType{}, es...), g.entitlement())
			return sema.NewEntitlementSetAccess(dedupEnts(es), sema.Disjunction)
		default:
			if len(es) > 1 {
				return sema.NewEntitlementSetAccess(es[:1+s.Intn(len(es)-1)], sema.Disjunction)
			}
			return a
		}
	default:
		// disjunction: add a member
		es = append(append([]*sema.EntitlementType{}, es...), g.entitlement())
		return sema.NewEntitlementSetAccess(dedupEnts(es), sema.Disjunction)
	}
}

// StrengthenAccess returns a candidate for granting more.
func (g *Gen) StrengthenAccess(a sema.Access) sema.Access {
	s := g.S
	set, ok := a.(sema.EntitlementSetAccess)
	if !ok {
		if a == sema.UnauthorizedAccess && s.Intn(2) == 0 {
			return g.Access()
		}
		return a
	}
	es := entSlice(set)
	if set.SetKind == sema.Conjunction {
		es = append(append([]*sema.EntitlementType{}, es...), g.entitlement())
		return sema.NewEntitlementSetAccess(dedupEnts(es), sema.Conjunction)
	}
	if s.Intn(2) == 0 {
		return sema.NewEntitlementSetAccess(es[:1], sema.Conjunction)
	}
	if len(es) > 1 {
		return sema.NewEntitlementSetAccess(es[1:], sema.Disjunction)
	}
	return a
}

func dedupEnts(es []*sema.EntitlementType) []*sema.EntitlementType {
	seen := map[*sema.EntitlementType]bool{}
	var out []*sema.EntitlementType
	for _, e := range es {
		if !seen[e] {
			seen[e] = true
			out = append(out, e)
		}
	}
	return out
}

func cloneFn(t *sema.FunctionType) *sema.FunctionType {
	f := &sema.FunctionType{
		Purity:               t.Purity,
		ReturnTypeAnnotation: t.ReturnTypeAnnotation,
		Arity:                t.Arity,
		TypeParameters:       t.TypeParameters,
		IsConstructor:        t.IsConstructor,
	}
	f.Parameters = append([]sema.Parameter{}, t.Parameters...)
	return f
}

// ---- simplification (shrinking for the seeded form) -----------------------------------------

// Simplify returns one-step simplifications of t: its children, and t with one
// child replaced by each of that child's simplifications, plus a few leaves.
func Simplify(t sema.Type) []sema.Type {
	var out []sema.Type
	cs := Children(t)
	out = append(out, cs...)
	rebuild := func(i int, c sema.Type) sema.Type {
		switch t := t.(type) {
		case *sema.OptionalType:
			return sema.NewOptionalType(nil, c)
		case *sema.VariableSizedType:
			return sema.NewVariableSizedType(nil, c)
		case *sema.ConstantSizedType:
			return sema.NewConstantSizedType(nil, c, t.Size)
		case *sema.DictionaryType:
			if i == 0 {
				return sema.NewDictionaryType(nil, c, t.ValueType)
			}
			return sema.NewDictionaryType(nil, t.KeyType, c)
		case *sema.ReferenceType:
			return sema.NewReferenceType(nil, t.Authorization, c)
		case *sema.CapabilityType:
			return sema.NewCapabilityType(nil, c)
		case *sema.InclusiveRangeType:
			return sema.NewInclusiveRangeType(nil, c)
		case *sema.FunctionType:
			f := cloneFn(t)
			if i < len(f.Parameters) {
				f.Parameters[i].TypeAnnotation = sema.NewTypeAnnotation(c)
			} else {
				f.ReturnTypeAnnotation = sema.NewTypeAnnotation(c)
			}
			return f
		}
		return nil
	}
	for i, c := range cs {
		for _, sc := range Simplify(c) {
			if r := rebuild(i, sc); r != nil {
				out = append(out, r)
			}
		}
	}
	switch t := t.(type) {
	case *sema.ReferenceType:
		if t.Authorization != sema.UnauthorizedAccess {
			out = append(out, sema.NewReferenceType(nil, sema.UnauthorizedAccess, t.Type))
			if set, ok := t.Authorization.(sema.EntitlementSetAccess); ok && set.Entitlements.Len() > 1 {
				es := entSlice(set)
				for k := range es {
					rest := append(append([]*sema.EntitlementType{}, es[:k]...), es[k+1:]...)
					out = append(out, sema.NewReferenceType(nil, sema.NewEntitlementSetAccess(rest, set.SetKind), t.Type))
				}
			}
		}
	case *sema.IntersectionType:
		if len(t.Types) > 1 {
			for k := range t.Types {
				rest := append(append([]*sema.InterfaceType{}, t.Types[:k]...), t.Types[k+1:]...)
				out = append(out, sema.NewIntersectionType(nil, nil, rest))
			}
		}
	case *sema.FunctionType:
		if len(t.Parameters) > 0 {
			f := cloneFn(t)
			f.Parameters = f.Parameters[:len(f.Parameters)-1]
			out = append(out, f)
		}
		if t.Arity != nil || len(t.TypeParameters) > 0 {
			f := cloneFn(t)
			f.Arity, f.TypeParameters = nil, nil
			out = append(out, f)
		}
	}
	if len(cs) > 0 {
		out = append(out, sema.IntType, sema.AnyStructType)
	}
	return out
}
