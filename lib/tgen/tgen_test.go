package tgen

import (
	"encoding/json"
	"fmt"
	"math/rand"
	"testing"

	"github.com/onflow/cadence/sema"
	"pgregory.net/rapid"

	"verif/lib/host"
	"verif/lib/prog"
)

// TestUniverses: the generated universes check, have every kind of nominal
// type, and the generator's "denotable" types really are denotable: printed as
// a type annotation and checked by the checker they give an Equal type.
func TestUniverses(t *testing.T) {
	for seed := int64(0); seed < 12; seed++ {
		u := NewUniverse(seed)
		if len(u.Entitlements) < 4 || len(u.Mappings) < 3 || len(u.StructInterfaces) < 3 || len(u.ResourceInterfaces) < 3 ||
			len(u.Structs) < 3 || len(u.Resources) < 3 || len(u.Enums) < 2 || len(u.StructAttachments) < 1 ||
			len(u.ResourceAttachments) < 1 || len(u.Contracts) < 2 || len(u.ContractInterfaces) < 1 || len(u.Events) < 1 {
			t.Fatalf("universe %d lacks nominal types: %+v\n%s", seed, u.NominalIDs(), u.Source())
		}
		r := rand.New(rand.NewSource(seed))
		g := NewGen(u, RandSrc{r}, Options{Denotable: true})
		var types []sema.Type
		for i := 0; i < 300; i++ {
			ty := g.Type()
			if !Denotable(ty) {
				t.Fatalf("generator with Denotable produced %s", ty)
			}
			types = append(types, ty)
		}
		got, err := u.CheckTypes(types)
		if err != nil {
			t.Fatalf("universe %d: %v", seed, err)
		}
		for i, ty := range types {
			if !got[i].Equal(ty) {
				t.Fatalf("universe %d: type %s denoted as %s gives %s", seed, ty.ID(), Annotation(ty), got[i].ID())
			}
			// codec round trip
			b, _ := json.Marshal(Encode(ty))
			var e Enc
			if err := json.Unmarshal(b, &e); err != nil {
				t.Fatal(err)
			}
			back, err := u.Decode(&e)
			if err != nil || !back.Equal(ty) {
				t.Fatalf("codec: %s -> %s -> %v (%v)", ty.ID(), b, back, err)
			}
		}
		// non-denotable generator: codec round trip too
		g2 := NewGen(u, RandSrc{r}, Options{})
		for i := 0; i < 500; i++ {
			ty := g2.Type()
			b, _ := json.Marshal(Encode(ty))
			var e Enc
			_ = json.Unmarshal(b, &e)
			back, err := u.Decode(&e)
			if err != nil || !back.Equal(ty) || back.ID() != ty.ID() {
				t.Fatalf("codec: %s -> %s -> %v (%v)", ty.ID(), b, back, err)
			}
		}
	}
}

// TestRapidForm: the rapid form of the generator produces valid types (and can
// be shrunk by rapid): every drawn type survives the codec round trip.
func TestRapidForm(t *testing.T) {
	u := NewUniverse(0)
	rapid.Check(t, func(rt *rapid.T) {
		ty := RapidType(u, Options{MaxDepth: 3}).Draw(rt, "type")
		back, err := u.Decode(Encode(ty))
		if err != nil || !back.Equal(ty) {
			rt.Fatalf("codec: %s -> %v (%v)", ty.ID(), back, err)
		}
	})
}

// TestEntitlementHistory: the reusable entitlement program runs on both engines.
func TestEntitlementHistory(t *testing.T) {
	for seed := int64(0); seed < 6; seed++ {
		h, err := EntitlementHistory(seed)
		if err != nil {
			t.Fatalf("seed %d: %v", seed, err)
		}
		var vals []string
		for _, eng := range host.Engines {
			res, _ := prog.Run(nil, h, host.Options{Engine: eng})
			for i, r := range res {
				if r.Err != nil || r.Panic != nil {
					t.Fatalf("seed %d step %d on %v: %v %v\n%s", seed, i, eng, r.Err, r.Panic, h)
				}
			}
			vals = append(vals, fmt.Sprint(res[len(res)-1].Value))
		}
		if vals[0] != vals[1] {
			t.Fatalf("seed %d: engines differ: %v", seed, vals)
		}
	}
}
