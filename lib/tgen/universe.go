// Package tgen is the shared type generator of the harness (DESIGN §3.2).
//
// A Universe is a small set of *checked* Cadence programs (contracts at address
// locations, a contract interface, and a script-like program at a string
// location) declaring entitlements, entitlement mappings, interface inheritance
// DAGs, structs, resources, enums, attachments, events and contracts. The
// nominal sema types are taken from the checkers' elaborations, so every type
// the generator produces is one a program can denote. An interpreter whose
// import handler serves those elaborations is the interpreter.TypeConverter.
//
// Over a universe, Gen draws sema types recursively from an abstract choice
// source (Src), which is implemented both by a seeded PRNG (enumerative loops)
// and by a *rapid.T (shrinking). Converters give the static and the exported
// (cadence.Type) form of the same type; Encode/Decode give a JSON form used in
// replay files and evidence samples.
package tgen

import (
	"fmt"
	"math/rand"
	"sort"
	"strings"

	"github.com/onflow/cadence/ast"
	"github.com/onflow/cadence/common"
	"github.com/onflow/cadence/interpreter"
	"github.com/onflow/cadence/parser"
	"github.com/onflow/cadence/sema"
)

// Program is one checked program of a universe.
type Program struct {
	Location common.Location
	Name     string // contract name, or the string of the string location
	Source   string
	Checker  *sema.Checker
}

// Universe holds the nominal types a generator can use.
type Universe struct {
	Seed     int64
	Programs []*Program

	Entitlements []*sema.EntitlementType
	Mappings     []*sema.EntitlementMapType

	StructInterfaces   []*sema.InterfaceType
	ResourceInterfaces []*sema.InterfaceType
	ContractInterfaces []*sema.InterfaceType

	Structs             []*sema.CompositeType
	Resources           []*sema.CompositeType
	Enums               []*sema.CompositeType
	Events              []*sema.CompositeType
	Contracts           []*sema.CompositeType
	StructAttachments   []*sema.CompositeType
	ResourceAttachments []*sema.CompositeType

	// Inter is the type converter (an interpreter that can load every program
	// of the universe through a virtual import of its elaboration).
	Inter *interpreter.Interpreter

	byID map[common.TypeID]sema.Type
}

// ---- specification ------------------------------------------------------------

type ifaceSpec struct {
	name    string
	parents []string // qualified names usable in the declaring scope
}

type compSpec struct {
	name   string
	kind   string // "struct" | "resource"
	confs  []string
	base   string // attachments: base type
	isAtt  bool
	enumOf string // enums: raw type
}

type mapSpec struct {
	name      string
	identity  bool
	includes  []string
	relations [][2]string
}

type scopeSpec struct {
	ents     []string
	maps     []mapSpec
	sifaces  []ifaceSpec
	rifaces  []ifaceSpec
	comps    []compSpec
	enums    []compSpec
	events   []string
	nestedCI bool
}

// name pools: deliberately not in lexicographic declaration order, with common
// prefixes and digits, so that sorting of type IDs matters.
var entNames = [][]string{
	{"E0", "E1", "E2", "E3"},
	{"Zeta", "Alpha", "Mid", "Beta"},
	{"E10", "E2", "E1", "E"},
	{"Xb", "Xa", "X", "Xab"},
	{"W", "R", "Ww", "A"},
	{"e", "E", "_e", "E_"},
}

func pick(r *rand.Rand, xs []string) string { return xs[r.Intn(len(xs))] }

func subset(r *rand.Rand, xs []string, max int) []string {
	var out []string
	for _, x := range xs {
		if len(out) < max && r.Intn(3) == 0 {
			out = append(out, x)
		}
	}
	return out
}

func genScope(r *rand.Rand, prefix string, entPool []string, rich bool) scopeSpec {
	var s scopeSpec
	s.ents = append([]string{}, entPool...)
	// mappings
	nm := 3 + r.Intn(3)
	for i := 0; i < nm; i++ {
		m := mapSpec{name: fmt.Sprintf("%sM%d", prefix, i)}
		m.identity = r.Intn(3) == 0
		if i > 0 && r.Intn(3) == 0 {
			m.includes = append(m.includes, s.maps[r.Intn(i)].name)
		}
		nr := r.Intn(5)
		if i == 0 {
			// the F1 shape is always present: one relation, other inputs unmapped
			nr = 1
			m.identity = false
			m.includes = nil
		}
		seen := map[[2]string]bool{}
		for k := 0; k < nr; k++ {
			rel := [2]string{pick(r, s.ents), pick(r, s.ents)}
			if !seen[rel] {
				seen[rel] = true
				m.relations = append(m.relations, rel)
			}
		}
		if len(m.relations) == 0 && !m.identity && len(m.includes) == 0 {
			m.identity = true
		}
		s.maps = append(s.maps, m)
	}
	// interface DAGs
	mk := func(kindPrefix string, n int) []ifaceSpec {
		var out []ifaceSpec
		for i := 0; i < n; i++ {
			is := ifaceSpec{name: fmt.Sprintf("%s%s%d", prefix, kindPrefix, i)}
			if i > 0 {
				var names []string
				for _, o := range out {
					names = append(names, o.name)
				}
				is.parents = subset(r, names, 2)
			}
			out = append(out, is)
		}
		// guarantee one chain and one diamond in rich scopes
		if rich && n >= 4 {
			out[1].parents = []string{out[0].name}
			out[2].parents = []string{out[0].name}
			out[3].parents = []string{out[1].name, out[2].name}
		}
		return out
	}
	ni := 3 + r.Intn(3)
	if rich {
		ni = 5
	}
	s.sifaces = mk("SI", ni)
	s.rifaces = mk("RI", ni)
	names := func(xs []ifaceSpec) []string {
		var out []string
		for _, x := range xs {
			out = append(out, x.name)
		}
		return out
	}
	nc := 3 + r.Intn(3)
	for i := 0; i < nc; i++ {
		c := compSpec{name: fmt.Sprintf("%sS%d", prefix, i), kind: "struct"}
		if i > 0 {
			c.confs = subset(r, names(s.sifaces), 3)
		}
		if i == 1 {
			c.confs = []string{s.sifaces[len(s.sifaces)-1].name}
		}
		s.comps = append(s.comps, c)
	}
	for i := 0; i < nc; i++ {
		c := compSpec{name: fmt.Sprintf("%sR%d", prefix, i), kind: "resource"}
		if i > 0 {
			c.confs = subset(r, names(s.rifaces), 3)
		}
		if i == 1 {
			c.confs = []string{s.rifaces[len(s.rifaces)-1].name}
		}
		s.comps = append(s.comps, c)
	}
	// attachments
	bases := [][2]string{
		{"struct", "AnyStruct"}, {"resource", "AnyResource"},
		{"struct", prefix + "S1"}, {"resource", prefix + "R1"},
		{"struct", s.sifaces[0].name}, {"resource", s.rifaces[0].name},
	}
	na := 2 + r.Intn(3)
	if rich {
		na = len(bases)
	}
	for i := 0; i < na; i++ {
		b := bases[i%len(bases)]
		if !rich {
			b = bases[r.Intn(len(bases))]
			if i < 2 {
				b = bases[i]
			}
		}
		c := compSpec{name: fmt.Sprintf("%sAt%d", prefix, i), kind: b[0], base: b[1], isAtt: true}
		s.comps = append(s.comps, c)
	}
	raw := []string{"UInt8", "Int", "UInt64", "Word16"}
	for i := 0; i < 2; i++ {
		s.enums = append(s.enums, compSpec{name: fmt.Sprintf("%sEn%d", prefix, i), enumOf: raw[r.Intn(len(raw))]})
	}
	s.events = []string{prefix + "Ev"}
	return s
}

func (s scopeSpec) render(sb *strings.Builder, indent string, qualify func(string) string) {
	w := func(format string, a ...any) {
		sb.WriteString(indent)
		fmt.Fprintf(sb, format, a...)
		sb.WriteString("\n")
	}
	for _, e := range s.ents {
		w("access(all) entitlement %s", e)
	}
	for _, m := range s.maps {
		w("access(all) entitlement mapping %s {", m.name)
		if m.identity {
			w("    include Identity")
		}
		for _, inc := range m.includes {
			w("    include %s", inc)
		}
		for _, rel := range m.relations {
			w("    %s -> %s", rel[0], rel[1])
		}
		w("}")
	}
	conf := func(cs []string) string {
		if len(cs) == 0 {
			return ""
		}
		qs := make([]string, len(cs))
		for i, c := range cs {
			qs[i] = qualify(c)
		}
		return ": " + strings.Join(qs, ", ")
	}
	for _, i := range s.sifaces {
		w("access(all) struct interface %s%s {}", i.name, conf(i.parents))
	}
	for _, i := range s.rifaces {
		w("access(all) resource interface %s%s {}", i.name, conf(i.parents))
	}
	for _, c := range s.comps {
		if c.isAtt {
			w("access(all) attachment %s for %s%s {}", c.name, qualify(c.base), conf(c.confs))
		} else {
			w("access(all) %s %s%s {}", c.kind, c.name, conf(c.confs))
		}
	}
	for _, e := range s.enums {
		w("access(all) enum %s: %s { access(all) case a; access(all) case b }", e.name, e.enumOf)
	}
	for _, e := range s.events {
		w("access(all) event %s(x: Int)", e)
	}
}

// UniverseSources generates the program sources of universe `seed` (a pure
// function of the seed). Seeds 0..5 are the "fixed" universes.
func UniverseSources(seed int64) []*Program {
	r := rand.New(rand.NewSource(seed*104729 + 17))
	pool := entNames[int(seed%int64(len(entNames))+int64(len(entNames)))%len(entNames)]
	addr1 := common.Address{0, 0, 0, 0, 0, 0, 0, 1}
	addr2 := common.Address{0, 0, 0, 0, 0, 0, 0, 2}
	if seed%3 == 1 {
		// addresses with leading zero bytes and high bytes
		addr2 = common.Address{0xf0, 0, 0, 0, 0, 0, 0x0a, 0}
	}
	id := func(s string) string { return s }

	// contract C0 at addr1
	var sb strings.Builder
	c0 := genScope(r, "", pool, true)
	sb.WriteString("access(all) contract C0 {\n")
	c0.render(&sb, "    ", id)
	sb.WriteString("}\n")
	p0 := &Program{Location: common.AddressLocation{Address: addr1, Name: "C0"}, Name: "C0", Source: sb.String()}

	// contract interface CI0 at addr1 with nested interfaces and an entitlement
	sb.Reset()
	sb.WriteString("access(all) contract interface CI0 {\n")
	sb.WriteString("    access(all) entitlement N\n")
	sb.WriteString("    access(all) struct interface NSI {}\n")
	sb.WriteString("    access(all) resource interface NRI {}\n")
	sb.WriteString("    access(all) struct interface NSJ: NSI {}\n")
	sb.WriteString("}\n")
	p1 := &Program{Location: common.AddressLocation{Address: addr1, Name: "CI0"}, Name: "CI0", Source: sb.String()}

	// contract C1 at addr2 importing both; conforms to CI0; its composites conform to foreign interfaces
	sb.Reset()
	fmt.Fprintf(&sb, "import C0 from 0x%s\nimport CI0 from 0x%s\n", addr1.Hex(), addr1.Hex())
	c1 := genScope(r, "", pool[:2], false)
	// add conformances to imported interfaces
	for i := range c1.comps {
		c := &c1.comps[i]
		if c.isAtt {
			continue
		}
		if r.Intn(2) == 0 {
			if c.kind == "struct" {
				c.confs = append(c.confs, "C0."+c0.sifaces[r.Intn(len(c0.sifaces))].name)
				if r.Intn(2) == 0 {
					c.confs = append(c.confs, "CI0.NSJ")
				}
			} else {
				c.confs = append(c.confs, "C0."+c0.rifaces[r.Intn(len(c0.rifaces))].name)
				if r.Intn(2) == 0 {
					c.confs = append(c.confs, "CI0.NRI")
				}
			}
		}
	}
	// one mapping crossing contracts
	c1.maps = append(c1.maps, mapSpec{name: "MX", relations: [][2]string{{"C0." + pool[0], pool[1]}, {pool[0], "C0." + pool[2]}, {"CI0.N", pool[0]}}})
	sb.WriteString("access(all) contract C1: CI0 {\n")
	c1.render(&sb, "    ", id)
	sb.WriteString("}\n")
	p2 := &Program{Location: common.AddressLocation{Address: addr2, Name: "C1"}, Name: "C1", Source: sb.String()}

	// top-level declarations at a string location (what a test/script program can declare)
	sb.Reset()
	fmt.Fprintf(&sb, "import C0 from 0x%s\n", addr1.Hex())
	t := genScope(r, "T", []string{"T" + pool[1], "T" + pool[0]}, false)
	for i := range t.comps {
		c := &t.comps[i]
		if !c.isAtt && c.kind == "struct" && r.Intn(2) == 0 {
			c.confs = append(c.confs, "C0."+c0.sifaces[r.Intn(len(c0.sifaces))].name)
		}
	}
	t.render(&sb, "", id)
	locName := []string{"u", "top_level", "a/b", "U0"}[int(seed%4+4)%4]
	p3 := &Program{Location: common.StringLocation(locName), Name: locName, Source: sb.String()}

	return []*Program{p0, p1, p2, p3}
}

// ---- construction ---------------------------------------------------------------

var universeCache = map[int64]*Universe{}

// NewUniverse builds (and caches) universe `seed`. It panics when the generated
// sources do not check: that is a bug of this package, not a finding.
func NewUniverse(seed int64) *Universe {
	if u, ok := universeCache[seed]; ok {
		return u
	}
	u, err := BuildUniverse(seed, UniverseSources(seed))
	if err != nil {
		panic(fmt.Sprintf("tgen: universe %d does not check: %v", seed, err))
	}
	universeCache[seed] = u
	return u
}

// BuildUniverse checks the programs in order (later ones may import earlier
// ones) and collects their nominal types.
func BuildUniverse(seed int64, programs []*Program) (*Universe, error) {
	u := &Universe{Seed: seed, Programs: programs, byID: map[common.TypeID]sema.Type{}}
	elabs := map[common.Location]*sema.Elaboration{}
	for _, p := range programs {
		astProg, err := parser.ParseProgram(nil, []byte(p.Source), parser.Config{})
		if err != nil {
			return nil, fmt.Errorf("parse %s: %w\n%s", p.Name, err, p.Source)
		}
		cfg := u.SemaConfig()
		checker, err := sema.NewChecker(astProg, p.Location, nil, cfg)
		if err != nil {
			return nil, err
		}
		if err := checker.Check(); err != nil {
			return nil, fmt.Errorf("check %s: %w\n%s", p.Name, err, p.Source)
		}
		p.Checker = checker
		elabs[p.Location] = checker.Elaboration
		u.collect(checker, astProg)
	}

	inter, err := interpreter.NewInterpreter(nil, common.StringLocation("tgen-converter"), &interpreter.Config{
		Storage: interpreter.NewInMemoryStorage(nil, nil),
		ImportLocationHandler: func(_ *interpreter.Interpreter, loc common.Location) interpreter.Import {
			e, ok := elabs[loc]
			if !ok {
				panic(fmt.Sprintf("tgen: converter asked for unknown location %v", loc))
			}
			return interpreter.VirtualImport{Elaboration: e}
		},
	})
	if err != nil {
		return nil, err
	}
	u.Inter = inter
	u.sortAll()
	return u, nil
}

func (u *Universe) addComposite(t *sema.CompositeType) {
	if t == nil {
		return
	}
	u.byID[t.ID()] = t
	switch t.Kind {
	case common.CompositeKindStructure:
		u.Structs = append(u.Structs, t)
	case common.CompositeKindResource:
		u.Resources = append(u.Resources, t)
	case common.CompositeKindEnum:
		u.Enums = append(u.Enums, t)
	case common.CompositeKindEvent:
		u.Events = append(u.Events, t)
	case common.CompositeKindContract:
		u.Contracts = append(u.Contracts, t)
	case common.CompositeKindAttachment:
		if t.IsResourceType() {
			u.ResourceAttachments = append(u.ResourceAttachments, t)
		} else {
			u.StructAttachments = append(u.StructAttachments, t)
		}
	}
}

func (u *Universe) addInterface(t *sema.InterfaceType) {
	if t == nil {
		return
	}
	u.byID[t.ID()] = t
	switch t.CompositeKind {
	case common.CompositeKindStructure:
		u.StructInterfaces = append(u.StructInterfaces, t)
	case common.CompositeKindResource:
		u.ResourceInterfaces = append(u.ResourceInterfaces, t)
	case common.CompositeKindContract:
		u.ContractInterfaces = append(u.ContractInterfaces, t)
	}
}

func (u *Universe) collectMembers(e *sema.Elaboration, m *ast.Members) {
	for _, d := range m.Entitlements() {
		if t := e.EntitlementDeclarationType(d); t != nil {
			u.Entitlements = append(u.Entitlements, t)
			u.byID[t.ID()] = t
		}
	}
	for _, d := range m.EntitlementMaps() {
		if t := e.EntitlementMapDeclarationType(d); t != nil {
			u.Mappings = append(u.Mappings, t)
			u.byID[t.ID()] = t
		}
	}
	for _, d := range m.Interfaces() {
		u.addInterface(e.InterfaceDeclarationType(d))
		u.collectMembers(e, d.Members)
	}
	for _, d := range m.Composites() {
		u.addComposite(e.CompositeDeclarationType(d))
		u.collectMembers(e, d.Members)
	}
	for _, d := range m.Attachments() {
		u.addComposite(e.CompositeDeclarationType(d))
	}
}

func (u *Universe) collect(c *sema.Checker, p *ast.Program) {
	e := c.Elaboration
	u.collectMembers(e, ast.NewMembers(nil, p.Declarations()))
}

func (u *Universe) sortAll() {
	sortC := func(xs []*sema.CompositeType) {
		sort.SliceStable(xs, func(i, j int) bool { return xs[i].ID() < xs[j].ID() })
	}
	sortI := func(xs []*sema.InterfaceType) {
		sort.SliceStable(xs, func(i, j int) bool { return xs[i].ID() < xs[j].ID() })
	}
	sortC(u.Structs)
	sortC(u.Resources)
	sortC(u.Enums)
	sortC(u.Events)
	sortC(u.Contracts)
	sortC(u.StructAttachments)
	sortC(u.ResourceAttachments)
	sortI(u.StructInterfaces)
	sortI(u.ResourceInterfaces)
	sortI(u.ContractInterfaces)
	sort.SliceStable(u.Entitlements, func(i, j int) bool { return u.Entitlements[i].ID() < u.Entitlements[j].ID() })
	sort.SliceStable(u.Mappings, func(i, j int) bool { return u.Mappings[i].ID() < u.Mappings[j].ID() })
}

// Nominal returns the nominal type (composite, interface, entitlement, mapping)
// with the given type ID, or nil.
func (u *Universe) Nominal(id common.TypeID) sema.Type { return u.byID[id] }

// NominalIDs lists the IDs of all nominal types, sorted.
func (u *Universe) NominalIDs() []string {
	out := make([]string, 0, len(u.byID))
	for id := range u.byID {
		out = append(out, string(id))
	}
	sort.Strings(out)
	return out
}

// ProgramAt returns the universe program at a location, or nil.
func (u *Universe) ProgramAt(loc common.Location) *Program {
	for _, p := range u.Programs {
		if p.Location == loc {
			return p
		}
	}
	return nil
}

// Source renders all program sources (for failure reports).
func (u *Universe) Source() string {
	var sb strings.Builder
	for _, p := range u.Programs {
		fmt.Fprintf(&sb, "// ---- %v\n%s\n", p.Location, p.Source)
	}
	return sb.String()
}
