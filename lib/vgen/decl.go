package vgen

import (
	"fmt"
	"math/big"
	"sort"
	"strings"

	"github.com/onflow/cadence"
	"github.com/onflow/cadence/common"
)

// ---- a declarable universe (entry-point arguments, C29) --------------------------------------
//
// DeclContract is deployed at DeclAddress; PType is the harness' own description
// of parameter types over it (independent of sema), with Cadence syntax, a
// conforming-value generator, near-miss generators and the conformance walk
// that serves as the oracle.

// DeclAddress is where DeclContract lives.
var DeclAddress = common.Address{0, 0, 0, 0, 0, 0, 0, 1}

var declLoc = common.AddressLocation{Address: DeclAddress, Name: "C"}

// DeclContract is the source of the universe's contract.
const DeclContract = `
access(all) contract C {
    access(all) entitlement E

    access(all) struct interface SI { access(all) let n: Int }
    access(all) struct interface Named { access(all) let s: String }

    access(all) struct S: SI, Named {
        access(all) let n: Int
        access(all) let s: String
        init(n: Int, s: String) { self.n = n; self.s = s }
    }

    access(all) struct U: SI {
        access(all) let n: Int
        access(all) let flag: Bool
        init(n: Int, flag: Bool) { self.n = n; self.flag = flag }
    }

    access(all) struct T {
        access(all) let inner: S
        access(all) let list: [S]
        access(all) let opt: U?
        access(all) let m: {String: Int8}
        access(all) let col: Color
        init(inner: S, list: [S], opt: U?, m: {String: Int8}, col: Color) {
            self.inner = inner; self.list = list; self.opt = opt; self.m = m; self.col = col
        }
    }

    access(all) struct Box {
        access(all) let any: AnyStruct
        access(all) let si: {SI}
        access(all) let num: Integer
        init(any: AnyStruct, si: {SI}, num: Integer) { self.any = any; self.si = si; self.num = num }
    }

    access(all) enum Color: UInt8 {
        access(all) case red
        access(all) case green
        access(all) case blue
    }

    access(all) resource R {
        access(all) let id: UInt64
        init(id: UInt64) { self.id = id }
    }

    init() {}
}`

// PType is a parameter type.
type PType struct {
	K    string // prim opt varr carr dict struct enum inter cap range
	Name string // primitive name / nominal name ("S") / interface names joined by ","
	Size int
	Elem *PType
	Key  *PType
}

// DeclField is a declared field.
type DeclField struct {
	Name string
	Type *PType
}

func prim(n string) *PType      { return &PType{K: "prim", Name: n} }
func strct(n string) *PType     { return &PType{K: "struct", Name: n} }
func optOf(t *PType) *PType     { return &PType{K: "opt", Elem: t} }
func arrOf(t *PType) *PType     { return &PType{K: "varr", Elem: t} }
func dictOf(k, v *PType) *PType { return &PType{K: "dict", Key: k, Elem: v} }

// DeclStructs: declared fields of the universe's structs, in declaration order.
var DeclStructs = map[string][]DeclField{
	"S":   {{"n", prim("Int")}, {"s", prim("String")}},
	"U":   {{"n", prim("Int")}, {"flag", prim("Bool")}},
	"T":   {{"inner", strct("S")}, {"list", arrOf(strct("S"))}, {"opt", optOf(strct("U"))}, {"m", dictOf(prim("String"), prim("Int8"))}, {"col", &PType{K: "enum", Name: "Color"}}},
	"Box": {{"any", prim("AnyStruct")}, {"si", &PType{K: "inter", Name: "SI"}}, {"num", prim("Integer")}},
}

// DeclConformances: interfaces each struct conforms to.
var DeclConformances = map[string][]string{"S": {"SI", "Named"}, "U": {"SI"}, "T": nil, "Box": nil}

var declStructNames = []string{"S", "U", "T", "Box"}

// DeclEnumCases is the number of cases of C.Color (raw type UInt8).
const DeclEnumCases = 3

// Syntax renders the type in Cadence syntax.
func (t *PType) Syntax() string {
	switch t.K {
	case "prim":
		return t.Name
	case "opt":
		return "(" + t.Elem.Syntax() + ")?"
	case "varr":
		return "[" + t.Elem.Syntax() + "]"
	case "carr":
		return fmt.Sprintf("[%s; %d]", t.Elem.Syntax(), t.Size)
	case "dict":
		return "{" + t.Key.Syntax() + ": " + t.Elem.Syntax() + "}"
	case "struct", "enum":
		return "C." + t.Name
	case "inter":
		parts := strings.Split(t.Name, ",")
		for i := range parts {
			parts[i] = "C." + parts[i]
		}
		return "{" + strings.Join(parts, ", ") + "}"
	case "cap":
		return "Capability<&" + t.Elem.Syntax() + ">"
	case "range":
		return "InclusiveRange<" + t.Elem.Syntax() + ">"
	}
	panic("vgen: bad PType " + t.K)
}

// Depth of the type.
func (t *PType) Depth() int {
	d := 0
	for _, c := range []*PType{t.Elem, t.Key} {
		if c != nil && c.Depth() > d {
			d = c.Depth()
		}
	}
	if t.K == "struct" {
		for _, f := range DeclStructs[t.Name] {
			if fd := f.Type.Depth(); fd > d {
				d = fd
			}
		}
	}
	return d + 1
}

var declNumberNames = func() []string {
	var out []string
	for _, t := range NumberTypes {
		out = append(out, t.ID())
	}
	return out
}()

var declSimple = append([]string{"Bool", "String", "Character", "Address", "StoragePath", "PublicPath", "PrivatePath", "Type"}, declNumberNames...)
var declAbstract = []string{"AnyStruct", "HashableStruct", "Number", "SignedNumber", "Integer", "SignedInteger", "FixedSizeUnsignedInteger", "FixedPoint", "SignedFixedPoint", "Path", "CapabilityPath"}
var declHashable = append([]string{"Bool", "String", "Character", "Address", "StoragePath", "PublicPath"}, declNumberNames...)

// ParamType draws an importable parameter type.
func (g *G) ParamType(d int) *PType {
	leaf := func() *PType {
		switch g.weighted(6, 2, 4, 1) {
		case 1:
			return prim(pick(g, declAbstract))
		case 2:
			return strct(pick(g, declStructNames))
		case 3:
			return &PType{K: "enum", Name: "Color"}
		}
		return prim(pick(g, declSimple))
	}
	if d <= 0 {
		return leaf()
	}
	switch g.weighted(6, 4, 4, 2, 4, 2, 1, 1) {
	case 0:
		return leaf()
	case 1:
		return optOf(g.ParamType(d - 1))
	case 2:
		return arrOf(g.ParamType(d - 1))
	case 3:
		return &PType{K: "carr", Elem: g.ParamType(d - 1), Size: g.intn(4)}
	case 4:
		k := prim(pick(g, declHashable))
		if g.chance(1, 6) {
			k = &PType{K: "enum", Name: "Color"}
		} else if g.chance(1, 8) {
			k = prim("HashableStruct")
		}
		return dictOf(k, g.ParamType(d-1))
	case 5:
		return &PType{K: "inter", Name: pick(g, []string{"SI", "Named", "SI,Named"})}
	case 6:
		return &PType{K: "cap", Elem: strct(pick(g, declStructNames))}
	default:
		return &PType{K: "range", Elem: prim(pick(g, []string{"Int", "Int8", "UInt8", "UInt64", "Word16", "Int256", "UInt"}))}
	}
}

// ---- cadence types of the universe ---------------------------------------------------------------------

var declTypes = map[string]cadence.Type{}

// CadenceType returns the exported form of a parameter type.
func (t *PType) CadenceType() cadence.Type {
	switch t.K {
	case "prim":
		for _, p := range AllPrimitives {
			if p.ID() == t.Name {
				return p
			}
		}
		panic("vgen: unknown primitive " + t.Name)
	case "opt":
		return cadence.NewOptionalType(t.Elem.CadenceType())
	case "varr":
		return cadence.NewVariableSizedArrayType(t.Elem.CadenceType())
	case "carr":
		return cadence.NewConstantSizedArrayType(uint(t.Size), t.Elem.CadenceType())
	case "dict":
		return cadence.NewDictionaryType(t.Key.CadenceType(), t.Elem.CadenceType())
	case "struct":
		if ct, ok := declTypes[t.Name]; ok {
			return ct
		}
		st := cadence.NewStructType(declLoc, "C."+t.Name, nil, nil)
		declTypes[t.Name] = st
		var fs []cadence.Field
		for _, f := range DeclStructs[t.Name] {
			fs = append(fs, cadence.Field{Identifier: f.Name, Type: f.Type.CadenceType()})
		}
		setCompositeTypeFields(st, fs)
		return st
	case "enum":
		if ct, ok := declTypes["enum:"+t.Name]; ok {
			return ct
		}
		et := cadence.NewEnumType(declLoc, "C."+t.Name, cadence.UInt8Type, []cadence.Field{{Identifier: "rawValue", Type: cadence.UInt8Type}}, nil)
		declTypes["enum:"+t.Name] = et
		return et
	case "inter":
		var ts []cadence.Type
		for _, n := range strings.Split(t.Name, ",") {
			ts = append(ts, cadence.NewStructInterfaceType(declLoc, "C."+n, nil, nil))
		}
		return cadence.NewIntersectionType(ts)
	case "cap":
		return cadence.NewCapabilityType(cadence.NewReferenceType(cadence.UnauthorizedAccess, t.Elem.CadenceType()))
	case "range":
		return cadence.NewInclusiveRangeType(t.Elem.CadenceType())
	}
	panic("vgen: bad PType " + t.K)
}

func conformsTo(structName string, ifaces string) bool {
	for _, want := range strings.Split(ifaces, ",") {
		ok := false
		for _, have := range DeclConformances[structName] {
			if have == want {
				ok = true
			}
		}
		if !ok {
			return false
		}
	}
	return true
}

// concretePType picks a concrete type conforming to an abstract one.
func (g *G) concretePType(t *PType, d int) *PType {
	switch t.K {
	case "prim":
		pickPrim := func(ts []cadence.PrimitiveType) *PType { return prim(pick(g, ts).ID()) }
		switch t.Name {
		case "AnyStruct":
			for {
				c := g.ParamType(d)
				if c.K == "prim" && c.Name == "AnyStruct" {
					continue
				}
				return g.concretePType(c, d)
			}
		case "HashableStruct":
			if g.chance(1, 6) {
				return &PType{K: "enum", Name: "Color"}
			}
			return prim(pick(g, declHashable))
		case "Number":
			return pickPrim(NumberTypes)
		case "SignedNumber":
			return pickPrim(concat(SignedIntegerTypes, SignedFixedTypes))
		case "Integer":
			return pickPrim(IntegerTypes)
		case "SignedInteger":
			return pickPrim(SignedIntegerTypes)
		case "FixedSizeUnsignedInteger":
			return pickPrim(FixedSizeUnsignedTypes)
		case "FixedPoint":
			return pickPrim(FixedTypes)
		case "SignedFixedPoint":
			return pickPrim(SignedFixedTypes)
		case "Path":
			return pickPrim(PathTypes)
		case "CapabilityPath":
			return pickPrim(PathTypes[1:])
		}
	case "inter":
		var cands []string
		for _, n := range declStructNames {
			if conformsTo(n, t.Name) {
				cands = append(cands, n)
			}
		}
		return strct(pick(g, cands))
	}
	return t
}

// ArgValue builds a conforming argument (complete cadence types attached).
func (g *G) ArgValue(t *PType, d int) cadence.Value {
	c := g.concretePType(t, d)
	if c != t {
		return g.ArgValue(c, d-1)
	}
	switch t.K {
	case "prim":
		ct := t.CadenceType().(cadence.PrimitiveType)
		if ct == cadence.MetaType {
			return cadence.NewTypeValue(g.ParamType(1).CadenceType())
		}
		if ct == cadence.CharacterType {
			return cadence.Character(pick(g, characterPool))
		}
		return g.primitiveValue(ct, 1)
	case "opt":
		if d <= 0 || g.chance(1, 4) {
			return cadence.NewOptional(nil)
		}
		return cadence.NewOptional(g.ArgValue(t.Elem, d-1))
	case "varr", "carr":
		n := t.Size
		if t.K == "varr" {
			n = g.weighted(1, 3, 3, 1)
			if d <= 0 {
				n = 0
			}
		}
		vs := make([]cadence.Value, n)
		for i := range vs {
			vs[i] = g.ArgValue(t.Elem, d-1)
		}
		return cadence.NewArray(vs).WithType(t.CadenceType().(cadence.ArrayType))
	case "dict":
		n := g.weighted(1, 3, 3, 1)
		if d <= 0 {
			n = 0
		}
		pairs := []cadence.KeyValuePair{}
		seen := map[string]bool{}
		for i := 0; i < n; i++ {
			k := g.ArgValue(t.Key, 1)
			ks := KeyString(k)
			if seen[ks] {
				continue
			}
			seen[ks] = true
			pairs = append(pairs, cadence.KeyValuePair{Key: k, Value: g.ArgValue(t.Elem, d-1)})
		}
		return cadence.NewDictionary(pairs).WithType(t.CadenceType().(*cadence.DictionaryType))
	case "struct":
		fs := DeclStructs[t.Name]
		vs := make([]cadence.Value, len(fs))
		for i, f := range fs {
			vs[i] = g.ArgValue(f.Type, d-1)
		}
		return cadence.NewStruct(vs).WithType(t.CadenceType().(*cadence.StructType))
	case "enum":
		return cadence.NewEnum([]cadence.Value{cadence.NewUInt8(uint8(g.intn(DeclEnumCases)))}).WithType(t.CadenceType().(*cadence.EnumType))
	case "cap":
		return cadence.NewCapability(cadence.UInt64(g.u64()), cadence.Address(g.Address()), t.CadenceType().(*cadence.CapabilityType).BorrowType)
	case "range":
		et := t.Elem.CadenceType().(cadence.PrimitiveType)
		min, max := IntRange(et)
		lo := g.bigIn(min, max)
		span := big.NewInt(int64(g.intn(50)))
		hi := new(big.Int).Add(lo, span)
		if max != nil && hi.Cmp(max) > 0 {
			hi = new(big.Int).Set(lo)
		}
		step := big.NewInt(int64(1 + g.intn(5)))
		if max != nil && step.Cmp(max) > 0 {
			step = big.NewInt(1)
		}
		return cadence.NewInclusiveRange(MakeInt(et, lo), MakeInt(et, hi), MakeInt(et, step)).WithType(t.CadenceType().(*cadence.InclusiveRangeType))
	}
	panic("vgen: bad PType " + t.K)
}

// ---- the conformance walk (oracle) ------------------------------------------------------------------------

func primitiveConforms(v cadence.Value, name string) bool {
	vt := v.Type()
	if vt == nil {
		return false
	}
	id := vt.ID()
	in := func(ts []cadence.PrimitiveType) bool {
		for _, t := range ts {
			if t.ID() == id {
				return true
			}
		}
		return false
	}
	switch name {
	case "Number":
		return in(NumberTypes)
	case "SignedNumber":
		return in(SignedIntegerTypes) || in(SignedFixedTypes)
	case "Integer":
		return in(IntegerTypes)
	case "SignedInteger":
		return in(SignedIntegerTypes)
	case "FixedSizeUnsignedInteger":
		return in(FixedSizeUnsignedTypes)
	case "FixedPoint":
		return in(FixedTypes)
	case "SignedFixedPoint":
		return in(SignedFixedTypes)
	case "Path":
		return in(PathTypes)
	case "CapabilityPath":
		return in(PathTypes[1:])
	case "Type":
		_, ok := v.(cadence.TypeValue)
		return ok
	}
	if _, isPath := v.(cadence.Path); isPath {
		return id == name
	}
	switch v.(type) {
	case cadence.Optional, cadence.Array, cadence.Dictionary, cadence.Composite, cadence.Capability, cadence.TypeValue, *cadence.InclusiveRange, cadence.Function:
		return false
	}
	return id == name
}

// wellFormed checks a value of unknown static type against its own dynamic type
// (used below AnyStruct / HashableStruct / interfaces).
func wellFormed(v cadence.Value) string {
	switch x := v.(type) {
	case nil:
		return "nil value"
	case cadence.Optional:
		if x.Value == nil {
			return ""
		}
		return wellFormed(x.Value)
	case cadence.Array:
		for i, e := range x.Values {
			if s := wellFormed(e); s != "" {
				return fmt.Sprintf("[%d]: %s", i, s)
			}
		}
		return ""
	case cadence.Dictionary:
		seen := map[string]bool{}
		for _, p := range x.Pairs {
			if s := wellFormed(p.Key); s != "" {
				return "key: " + s
			}
			if s := wellFormed(p.Value); s != "" {
				return "value: " + s
			}
			k := KeyString(p.Key)
			if seen[k] {
				return "duplicate dictionary key " + k
			}
			seen[k] = true
		}
		return ""
	case cadence.Struct:
		if x.StructType == nil || x.StructType.Location != common.Location(declLoc) {
			return "struct of an unknown type"
		}
		name := strings.TrimPrefix(x.StructType.QualifiedIdentifier, "C.")
		if _, ok := DeclStructs[name]; !ok {
			return "struct of an undeclared type " + x.StructType.ID()
		}
		return Conforms(v, strct(name))
	case cadence.Enum:
		return Conforms(v, &PType{K: "enum", Name: "Color"})
	case cadence.Resource, cadence.Event, cadence.Contract, cadence.Attachment, cadence.Function:
		return fmt.Sprintf("%T is not importable", v)
	}
	return ""
}

// Conforms walks the exported value v against the parameter type t; "" = conforms.
func Conforms(v cadence.Value, t *PType) string {
	if v == nil {
		return "nil value"
	}
	switch t.K {
	case "prim":
		switch t.Name {
		case "AnyStruct":
			return wellFormed(v)
		case "HashableStruct":
			switch v.(type) {
			case cadence.Array, cadence.Dictionary, cadence.Struct, cadence.Optional, cadence.Capability, *cadence.InclusiveRange:
				return fmt.Sprintf("%T is not hashable", v)
			}
			return wellFormed(v)
		}
		if !primitiveConforms(v, t.Name) {
			return fmt.Sprintf("%s is not a %s", Show(v), t.Name)
		}
		return ""
	case "opt":
		o, ok := v.(cadence.Optional)
		if !ok {
			return fmt.Sprintf("%T is not an optional", v)
		}
		if o.Value == nil {
			return ""
		}
		return Conforms(o.Value, t.Elem)
	case "varr", "carr":
		a, ok := v.(cadence.Array)
		if !ok {
			return fmt.Sprintf("%T is not an array", v)
		}
		if t.K == "carr" && len(a.Values) != t.Size {
			return fmt.Sprintf("array has %d elements, want %d", len(a.Values), t.Size)
		}
		for i, e := range a.Values {
			if s := Conforms(e, t.Elem); s != "" {
				return fmt.Sprintf("[%d]: %s", i, s)
			}
		}
		return ""
	case "dict":
		dv, ok := v.(cadence.Dictionary)
		if !ok {
			return fmt.Sprintf("%T is not a dictionary", v)
		}
		seen := map[string]bool{}
		for _, p := range dv.Pairs {
			if s := Conforms(p.Key, t.Key); s != "" {
				return "key: " + s
			}
			if s := Conforms(p.Value, t.Elem); s != "" {
				return fmt.Sprintf("value of %s: %s", p.Key, s)
			}
			k := KeyString(p.Key)
			if seen[k] {
				return "duplicate dictionary key " + k
			}
			seen[k] = true
		}
		return ""
	case "struct":
		sv, ok := v.(cadence.Struct)
		if !ok {
			return fmt.Sprintf("%T is not a struct", v)
		}
		if sv.StructType == nil {
			return "struct without type"
		}
		if sv.StructType.Location != common.Location(declLoc) || sv.StructType.QualifiedIdentifier != "C."+t.Name {
			return fmt.Sprintf("struct of type %s, want C.%s at %s", sv.StructType.ID(), t.Name, DeclAddress.Hex())
		}
		declared := DeclStructs[t.Name]
		fields := sv.FieldsMappedByName()
		if len(fields) != len(declared) || len(FieldValues(sv)) != len(declared) {
			return fmt.Sprintf("struct C.%s has %d field values, declared %d", t.Name, len(FieldValues(sv)), len(declared))
		}
		for _, f := range declared {
			fv, ok := fields[f.Name]
			if !ok {
				return "missing field " + f.Name
			}
			if s := Conforms(fv, f.Type); s != "" {
				return "." + f.Name + ": " + s
			}
		}
		return ""
	case "inter":
		sv, ok := v.(cadence.Struct)
		if !ok || sv.StructType == nil {
			return fmt.Sprintf("%T is not a struct", v)
		}
		name := strings.TrimPrefix(sv.StructType.QualifiedIdentifier, "C.")
		if sv.StructType.Location != common.Location(declLoc) {
			return "struct at a foreign location"
		}
		if _, known := DeclStructs[name]; !known || !conformsTo(name, t.Name) {
			return fmt.Sprintf("C.%s does not conform to {%s}", name, t.Name)
		}
		return Conforms(v, strct(name))
	case "enum":
		ev, ok := v.(cadence.Enum)
		if !ok || ev.EnumType == nil {
			return fmt.Sprintf("%T is not an enum", v)
		}
		if ev.EnumType.Location != common.Location(declLoc) || ev.EnumType.QualifiedIdentifier != "C."+t.Name {
			return "enum of type " + ev.EnumType.ID()
		}
		fs := FieldValues(ev)
		if len(fs) != 1 {
			return "enum without single raw value"
		}
		raw, ok := fs[0].(cadence.UInt8)
		if !ok {
			return fmt.Sprintf("enum raw value is %T", fs[0])
		}
		if int(raw) >= DeclEnumCases {
			return fmt.Sprintf("enum raw value %d has no case", raw)
		}
		return ""
	case "cap":
		c, ok := v.(cadence.Capability)
		if !ok {
			return fmt.Sprintf("%T is not a capability", v)
		}
		want := t.CadenceType().(*cadence.CapabilityType).BorrowType
		if c.BorrowType == nil || c.BorrowType.ID() != want.ID() {
			return fmt.Sprintf("capability borrow type %v, want %s", typeString(c.BorrowType), want.ID())
		}
		return ""
	case "range":
		r, ok := v.(*cadence.InclusiveRange)
		if !ok {
			return fmt.Sprintf("%T is not a range", v)
		}
		for _, m := range []cadence.Value{r.Start, r.End, r.Step} {
			if s := Conforms(m, t.Elem); s != "" {
				return "range member: " + s
			}
		}
		return ""
	}
	return "unknown parameter type kind " + t.K
}

// ---- wrong and near-miss arguments -----------------------------------------------------------------------------

// WrongTypeValue builds a value that does not conform to t at the top level.
func (g *G) WrongTypeValue(t *PType) cadence.Value {
	for i := 0; i < 20; i++ {
		o := g.ParamType(1)
		v := g.ArgValue(o, 1)
		if Conforms(v, t) != "" {
			return v
		}
	}
	// everything conforms to AnyStruct: only a resource / function does not
	return resourceValue()
}

func resourceValue() cadence.Value {
	rt := cadence.NewResourceType(declLoc, "C.R", []cadence.Field{{Identifier: "id", Type: cadence.UInt64Type}}, nil)
	return cadence.NewResource([]cadence.Value{cadence.NewUInt64(1)}).WithType(rt)
}

type miss struct {
	label string
	apply func(g *G, v cadence.Value) (cadence.Value, bool)
}

// valueSites lists the paths of all sub-values of v (preorder).
type sitePath []int

func collectSites(v cadence.Value, cur sitePath, out *[]sitePath) {
	*out = append(*out, append(sitePath(nil), cur...))
	switch x := v.(type) {
	case cadence.Optional:
		if x.Value != nil {
			collectSites(x.Value, append(cur, 0), out)
		}
	case cadence.Array:
		for i, e := range x.Values {
			collectSites(e, append(cur, i), out)
		}
	case cadence.Dictionary:
		for i, p := range x.Pairs {
			collectSites(p.Key, append(cur, 2*i), out)
			collectSites(p.Value, append(cur, 2*i+1), out)
		}
	case cadence.Struct:
		for i, f := range FieldValues(x) {
			collectSites(f, append(cur, i), out)
		}
	}
}

// rewrite returns a copy of v with the sub-value at path replaced by f(sub).
func rewrite(v cadence.Value, path sitePath, f func(cadence.Value) cadence.Value) cadence.Value {
	if len(path) == 0 {
		return f(v)
	}
	i := path[0]
	switch x := v.(type) {
	case cadence.Optional:
		return cadence.NewOptional(rewrite(x.Value, path[1:], f))
	case cadence.Array:
		vs := append([]cadence.Value(nil), x.Values...)
		vs[i] = rewrite(vs[i], path[1:], f)
		return cadence.Array{ArrayType: x.ArrayType, Values: vs}
	case cadence.Dictionary:
		ps := append([]cadence.KeyValuePair(nil), x.Pairs...)
		if i%2 == 0 {
			ps[i/2].Key = rewrite(ps[i/2].Key, path[1:], f)
		} else {
			ps[i/2].Value = rewrite(ps[i/2].Value, path[1:], f)
		}
		return cadence.Dictionary{DictionaryType: x.DictionaryType, Pairs: ps}
	case cadence.Struct:
		vs := append([]cadence.Value(nil), FieldValues(x)...)
		vs[i] = rewrite(vs[i], path[1:], f)
		return cadence.NewStruct(vs).WithType(x.StructType)
	}
	return v
}

func subAt(v cadence.Value, path sitePath) cadence.Value {
	for _, i := range path {
		switch x := v.(type) {
		case cadence.Optional:
			v = x.Value
		case cadence.Array:
			v = x.Values[i]
		case cadence.Dictionary:
			if i%2 == 0 {
				v = x.Pairs[i/2].Key
			} else {
				v = x.Pairs[i/2].Value
			}
		case cadence.Struct:
			v = FieldValues(x)[i]
		}
	}
	return v
}

func retypedStruct(s cadence.Struct, loc common.Location, qid string, fields []cadence.Field, vals []cadence.Value) cadence.Value {
	return cadence.NewStruct(vals).WithType(cadence.NewStructType(loc, qid, fields, nil))
}

// NearMiss takes a conforming argument and breaks exactly one nested thing. It
// returns the broken value and a label, or ok=false when no site applies.
func (g *G) NearMiss(v cadence.Value) (out cadence.Value, label string, ok bool) {
	var sites []sitePath
	collectSites(v, nil, &sites)
	kinds := []string{"element-wrong-type", "field-missing", "field-extra", "field-renamed", "field-wrong-type", "type-id-other-struct",
		"type-id-unknown", "wrong-location", "enum-raw-out-of-range", "enum-raw-wrong-type", "resource-inside", "function-inside", "duplicate-key",
		"const-array-length", "path-domain", "capability-borrow-type", "range-mixed-types", "field-order"}
	for try := 0; try < 30; try++ {
		kind := pick(g, kinds)
		site := sites[g.intn(len(sites))]
		sub := subAt(v, site)
		var repl cadence.Value
		switch kind {
		case "element-wrong-type":
			if len(site) == 0 {
				continue
			}
			// a value whose kind differs from the one in place
			for i := 0; i < 10 && repl == nil; i++ {
				c := g.ArgValue(g.ParamType(0), 0)
				if fmt.Sprintf("%T", c) != fmt.Sprintf("%T", sub) {
					if _, isOpt := sub.(cadence.Optional); !isOpt {
						repl = c
					}
				}
			}
		case "resource-inside":
			if len(site) == 0 {
				continue
			}
			repl = resourceValue()
		case "function-inside":
			if len(site) == 0 {
				continue
			}
			repl = cadence.NewFunction(cadence.NewFunctionType(cadence.FunctionPurityImpure, nil, nil, cadence.VoidType))
		}
		if s, isStruct := sub.(cadence.Struct); isStruct && repl == nil {
			fields := append([]cadence.Field(nil), TypeFields(s.StructType)...)
			vals := append([]cadence.Value(nil), FieldValues(s)...)
			loc, qid := s.StructType.Location, s.StructType.QualifiedIdentifier
			switch kind {
			case "field-missing":
				if len(fields) == 0 {
					continue
				}
				i := g.intn(len(fields))
				fields = append(fields[:i:i], fields[i+1:]...)
				vals = append(vals[:i:i], vals[i+1:]...)
				repl = retypedStruct(s, loc, qid, fields, vals)
			case "field-extra":
				fields = append(fields, cadence.Field{Identifier: "extra", Type: cadence.IntType})
				vals = append(vals, cadence.NewInt(1))
				repl = retypedStruct(s, loc, qid, fields, vals)
			case "field-renamed":
				if len(fields) == 0 {
					continue
				}
				i := g.intn(len(fields))
				fields[i].Identifier += "x"
				repl = retypedStruct(s, loc, qid, fields, vals)
			case "field-wrong-type":
				if len(fields) == 0 {
					continue
				}
				i := g.intn(len(fields))
				var nv cadence.Value = cadence.String("wrong")
				if _, isStr := vals[i].(cadence.String); isStr {
					nv = cadence.NewBool(true)
				}
				if qid == "C.Box" && i == 0 {
					continue // AnyStruct field accepts anything
				}
				vals[i] = nv
				fields[i].Type = nv.Type()
				repl = retypedStruct(s, loc, qid, fields, vals)
			case "type-id-other-struct":
				other := "C.U"
				if qid == "C.U" {
					other = "C.T"
				}
				repl = retypedStruct(s, loc, other, fields, vals)
			case "type-id-unknown":
				repl = retypedStruct(s, loc, "C.Nope", fields, vals)
			case "wrong-location":
				repl = retypedStruct(s, common.AddressLocation{Address: common.Address{0, 0, 0, 0, 0, 0, 0, 2}, Name: "C"}, qid, fields, vals)
			case "field-order":
				if len(fields) < 2 {
					continue
				}
				// benign: reversed field order must still be accepted or rejected consistently
				for i, j := 0, len(fields)-1; i < j; i, j = i+1, j-1 {
					fields[i], fields[j] = fields[j], fields[i]
					vals[i], vals[j] = vals[j], vals[i]
				}
				repl = retypedStruct(s, loc, qid, fields, vals)
			}
		}
		if e, isEnum := sub.(cadence.Enum); isEnum && repl == nil {
			switch kind {
			case "enum-raw-out-of-range":
				repl = cadence.NewEnum([]cadence.Value{cadence.NewUInt8(uint8(DeclEnumCases + g.intn(200)))}).WithType(e.EnumType)
			case "enum-raw-wrong-type":
				et := cadence.NewEnumType(e.EnumType.Location, e.EnumType.QualifiedIdentifier, cadence.IntType, []cadence.Field{{Identifier: "rawValue", Type: cadence.IntType}}, nil)
				repl = cadence.NewEnum([]cadence.Value{cadence.NewInt(1)}).WithType(et)
			}
		}
		if d, isDict := sub.(cadence.Dictionary); isDict && repl == nil && kind == "duplicate-key" && len(d.Pairs) >= 1 {
			ps := append([]cadence.KeyValuePair(nil), d.Pairs...)
			ps = append(ps, ps[0])
			repl = cadence.Dictionary{DictionaryType: d.DictionaryType, Pairs: ps}
		}
		if a, isArr := sub.(cadence.Array); isArr && repl == nil && kind == "const-array-length" {
			if ct, isConst := a.ArrayType.(*cadence.ConstantSizedArrayType); isConst {
				vs := append([]cadence.Value(nil), a.Values...)
				if len(vs) > 0 && g.chance(1, 2) {
					vs = vs[:len(vs)-1]
				} else if len(vs) > 0 {
					vs = append(vs, vs[0])
				} else {
					continue
				}
				repl = cadence.Array{ArrayType: ct, Values: vs}
			}
		}
		if p, isPath := sub.(cadence.Path); isPath && repl == nil && kind == "path-domain" {
			np := p
			if p.Domain == common.PathDomainStorage {
				np.Domain = common.PathDomainPublic
			} else {
				np.Domain = common.PathDomainStorage
			}
			repl = np
		}
		if c, isCap := sub.(cadence.Capability); isCap && repl == nil && kind == "capability-borrow-type" {
			nc := c
			switch g.intn(3) {
			case 0:
				nc.BorrowType = cadence.IntType // not a reference type
			case 1:
				nc.BorrowType = cadence.NewReferenceType(cadence.UnauthorizedAccess, cadence.NewStructType(declLoc, "C.Nope", nil, nil))
			default:
				nc.BorrowType = cadence.NewReferenceType(cadence.UnauthorizedAccess, cadence.StringType)
			}
			repl = nc
		}
		if r, isRange := sub.(*cadence.InclusiveRange); isRange && repl == nil && kind == "range-mixed-types" {
			var other cadence.Value = cadence.NewInt16(1)
			if _, is16 := r.Start.(cadence.Int16); is16 {
				other = cadence.NewInt32(1)
			}
			repl = cadence.NewInclusiveRange(r.Start, other, r.Step).WithType(r.InclusiveRangeType)
		}
		if repl == nil {
			continue
		}
		final := repl
		return rewrite(v, site, func(cadence.Value) cadence.Value { return final }), kind, true
	}
	return nil, "", false
}

// NearMissKinds lists the labels NearMiss can produce.
func NearMissKinds() []string {
	ks := []string{"element-wrong-type", "field-missing", "field-extra", "field-renamed", "field-wrong-type", "type-id-other-struct",
		"type-id-unknown", "wrong-location", "enum-raw-out-of-range", "enum-raw-wrong-type", "resource-inside", "function-inside", "duplicate-key",
		"const-array-length", "path-domain", "capability-borrow-type", "range-mixed-types", "field-order"}
	sort.Strings(ks)
	return ks
}
