package vgen

import (
	"fmt"
	"reflect"
	"sort"

	"github.com/onflow/cadence"
	"github.com/onflow/cadence/common"
)

// Eq configures the structural comparison.
type Eq struct {
	// UnorderedDicts compares dictionary entries as a set of pairs.
	UnorderedDicts bool
	// UnorderedSets compares intersection members and entitlement lists as sets.
	UnorderedSets bool
	// UnorderedFields matches the fields of composite *types* (and the field
	// values of composite values with them) by name instead of by position.
	UnorderedFields bool
	// IgnoreValueTypes does not compare the static types carried by arrays,
	// dictionaries, ranges and composites (only kind, type ID and field names).
	IgnoreValueTypes bool
}

type typePair struct{ a, b cadence.Type }

type differ struct {
	eq      Eq
	visited map[typePair]bool
}

// Diff returns "" when a and b are structurally equal, else a description of
// the first difference (with a path).
func Diff(a, b cadence.Value, eq Eq) string {
	d := &differ{eq: eq, visited: map[typePair]bool{}}
	return d.value("", a, b)
}

// DiffTypes compares two types structurally (deep: fields, initializers,
// parameters, authorizations), guarding against cycles.
func DiffTypes(a, b cadence.Type, eq Eq) string {
	d := &differ{eq: eq, visited: map[typePair]bool{}}
	return d.typ("", a, b)
}

func isNilType(t cadence.Type) bool {
	if t == nil {
		return true
	}
	rv := reflect.ValueOf(t)
	return rv.Kind() == reflect.Ptr && rv.IsNil()
}

func (d *differ) value(path string, a, b cadence.Value) string {
	if a == nil || b == nil {
		if a == nil && b == nil {
			return ""
		}
		return fmt.Sprintf("%s: %v vs %v (one is a nil value)", path, a, b)
	}
	if reflect.TypeOf(a) != reflect.TypeOf(b) {
		return fmt.Sprintf("%s: value kinds differ: %T vs %T", path, a, b)
	}
	switch x := a.(type) {
	case cadence.Optional:
		return d.value(path+"?", x.Value, b.(cadence.Optional).Value)
	case cadence.Array:
		y := b.(cadence.Array)
		if !d.eq.IgnoreValueTypes {
			if s := d.typ(path+".<arrayType>", x.ArrayType, y.ArrayType); s != "" {
				return s
			}
		}
		if len(x.Values) != len(y.Values) {
			return fmt.Sprintf("%s: array lengths %d vs %d", path, len(x.Values), len(y.Values))
		}
		for i := range x.Values {
			if s := d.value(fmt.Sprintf("%s[%d]", path, i), x.Values[i], y.Values[i]); s != "" {
				return s
			}
		}
		return ""
	case cadence.Dictionary:
		y := b.(cadence.Dictionary)
		if !d.eq.IgnoreValueTypes {
			var ta, tb cadence.Type
			if x.DictionaryType != nil {
				ta = x.DictionaryType
			}
			if y.DictionaryType != nil {
				tb = y.DictionaryType
			}
			if s := d.typ(path+".<dictionaryType>", ta, tb); s != "" {
				return s
			}
		}
		if len(x.Pairs) != len(y.Pairs) {
			return fmt.Sprintf("%s: dictionary sizes %d vs %d", path, len(x.Pairs), len(y.Pairs))
		}
		if !d.eq.UnorderedDicts {
			for i := range x.Pairs {
				if s := d.value(fmt.Sprintf("%s.key[%d]", path, i), x.Pairs[i].Key, y.Pairs[i].Key); s != "" {
					return s
				}
				if s := d.value(fmt.Sprintf("%s.value[%d]", path, i), x.Pairs[i].Value, y.Pairs[i].Value); s != "" {
					return s
				}
			}
			return ""
		}
		used := make([]bool, len(y.Pairs))
	outer:
		for i, p := range x.Pairs {
			first := ""
			for j, q := range y.Pairs {
				if used[j] {
					continue
				}
				sub := &differ{eq: d.eq, visited: map[typePair]bool{}}
				if sub.value("", p.Key, q.Key) != "" {
					continue
				}
				if s := sub.value(fmt.Sprintf("%s.value[%d]", path, i), p.Value, q.Value); s != "" {
					if first == "" {
						first = s
					}
					continue
				}
				used[j] = true
				continue outer
			}
			if first != "" {
				return first
			}
			return fmt.Sprintf("%s: key %s has no counterpart", path, p.Key)
		}
		return ""
	case *cadence.InclusiveRange:
		y := b.(*cadence.InclusiveRange)
		if !d.eq.IgnoreValueTypes {
			var ta, tb cadence.Type
			if x.InclusiveRangeType != nil {
				ta = x.InclusiveRangeType
			}
			if y.InclusiveRangeType != nil {
				tb = y.InclusiveRangeType
			}
			if s := d.typ(path+".<rangeType>", ta, tb); s != "" {
				return s
			}
		}
		if s := d.value(path+".start", x.Start, y.Start); s != "" {
			return s
		}
		if s := d.value(path+".end", x.End, y.End); s != "" {
			return s
		}
		return d.value(path+".step", x.Step, y.Step)
	case cadence.Composite:
		y := b.(cadence.Composite)
		ta, tb := CompositeTypeOf(x), CompositeTypeOf(y)
		if (ta == nil) != (tb == nil) {
			return fmt.Sprintf("%s: composite type present on one side only", path)
		}
		fa, fb := FieldValues(x), FieldValues(y)
		if len(fa) != len(fb) {
			return fmt.Sprintf("%s: field value counts %d vs %d", path, len(fa), len(fb))
		}
		if ta == nil {
			for i := range fa {
				if s := d.value(fmt.Sprintf("%s.#%d", path, i), fa[i], fb[i]); s != "" {
					return s
				}
			}
			return ""
		}
		if d.eq.IgnoreValueTypes {
			if ta.ID() != tb.ID() {
				return fmt.Sprintf("%s: composite type IDs %s vs %s", path, ta.ID(), tb.ID())
			}
		} else if s := d.typ(path+".<type>", ta, tb); s != "" {
			return s
		}
		na, nb := TypeFields(ta), TypeFields(tb)
		if len(na) != len(nb) {
			return fmt.Sprintf("%s: declared field counts %d vs %d", path, len(na), len(nb))
		}
		if d.eq.UnorderedFields {
			idx := map[string]int{}
			for j, f := range nb {
				idx[f.Identifier] = j
			}
			for i, f := range na {
				j, ok := idx[f.Identifier]
				if !ok {
					return fmt.Sprintf("%s: field %q missing on the right", path, f.Identifier)
				}
				if i < len(fa) && j < len(fb) {
					if s := d.value(path+"."+f.Identifier, fa[i], fb[j]); s != "" {
						return s
					}
				}
			}
			for i := len(na); i < len(fa); i++ {
				if s := d.value(fmt.Sprintf("%s.#%d", path, i), fa[i], fb[i]); s != "" {
					return s
				}
			}
			return ""
		}
		for i := range fa {
			name := fmt.Sprintf("#%d", i)
			if i < len(na) {
				name = na[i].Identifier
				if na[i].Identifier != nb[i].Identifier {
					return fmt.Sprintf("%s: field %d is named %q vs %q", path, i, na[i].Identifier, nb[i].Identifier)
				}
			}
			if s := d.value(path+"."+name, fa[i], fb[i]); s != "" {
				return s
			}
		}
		return ""
	case cadence.TypeValue:
		if d.eq.IgnoreValueTypes {
			if ia, ib := typeString(x.StaticType), typeString(b.(cadence.TypeValue).StaticType); ia != ib {
				return fmt.Sprintf("%s: type values %s vs %s", path, ia, ib)
			}
			return ""
		}
		return d.typ(path+".<staticType>", x.StaticType, b.(cadence.TypeValue).StaticType)
	case cadence.Capability:
		y := b.(cadence.Capability)
		if x.ID != y.ID || x.Address != y.Address {
			return fmt.Sprintf("%s: capability %s vs %s", path, x, y)
		}
		if (x.DeprecatedPath == nil) != (y.DeprecatedPath == nil) || x.DeprecatedPath != nil && *x.DeprecatedPath != *y.DeprecatedPath {
			return fmt.Sprintf("%s: capability paths differ", path)
		}
		return d.typ(path+".<borrowType>", x.BorrowType, y.BorrowType)
	case cadence.Function:
		var ta, tb cadence.Type
		if x.FunctionType != nil {
			ta = x.FunctionType
		}
		if y := b.(cadence.Function); y.FunctionType != nil {
			tb = y.FunctionType
		}
		return d.typ(path+".<functionType>", ta, tb)
	case cadence.Bytes:
		if string(x) != string(b.(cadence.Bytes)) {
			return fmt.Sprintf("%s: bytes differ", path)
		}
		return ""
	case cadence.Void, cadence.Bool, cadence.String, cadence.Character, cadence.Address, cadence.Path,
		cadence.Int8, cadence.Int16, cadence.Int32, cadence.Int64, cadence.UInt8, cadence.UInt16, cadence.UInt32, cadence.UInt64,
		cadence.Word8, cadence.Word16, cadence.Word32, cadence.Word64, cadence.Fix64, cadence.UFix64, cadence.Fix128, cadence.UFix128:
		if a != b {
			return fmt.Sprintf("%s: %s vs %s (%T)", path, a, b, a)
		}
		return ""
	}
	// big-integer backed numbers
	if ba, bb := BigOf(a), BigOf(b); ba != nil && bb != nil {
		if ba.Cmp(bb) != 0 {
			return fmt.Sprintf("%s: %s vs %s (%T)", path, ba, bb, a)
		}
		return ""
	}
	return fmt.Sprintf("%s: unsupported value kind %T", path, a)
}

func (d *differ) fields(path string, fa, fb []cadence.Field) string {
	if len(fa) != len(fb) {
		return fmt.Sprintf("%s: field counts %d vs %d", path, len(fa), len(fb))
	}
	if d.eq.UnorderedFields {
		fa = sortedFields(fa)
		fb = sortedFields(fb)
	}
	for i := range fa {
		if fa[i].Identifier != fb[i].Identifier {
			return fmt.Sprintf("%s: field %d is named %q vs %q", path, i, fa[i].Identifier, fb[i].Identifier)
		}
		if s := d.typ(path+"."+fa[i].Identifier, fa[i].Type, fb[i].Type); s != "" {
			return s
		}
	}
	return ""
}

func sortedFields(fs []cadence.Field) []cadence.Field {
	out := append([]cadence.Field(nil), fs...)
	sort.SliceStable(out, func(i, j int) bool { return out[i].Identifier < out[j].Identifier })
	return out
}

func (d *differ) params(path string, pa, pb []cadence.Parameter) string {
	if len(pa) != len(pb) {
		return fmt.Sprintf("%s: parameter counts %d vs %d", path, len(pa), len(pb))
	}
	for i := range pa {
		if pa[i].Label != pb[i].Label || pa[i].Identifier != pb[i].Identifier {
			return fmt.Sprintf("%s[%d]: parameter %q %q vs %q %q", path, i, pa[i].Label, pa[i].Identifier, pb[i].Label, pb[i].Identifier)
		}
		if s := d.typ(fmt.Sprintf("%s[%d]", path, i), pa[i].Type, pb[i].Type); s != "" {
			return s
		}
	}
	return ""
}

func (d *differ) inits(path string, ia, ib [][]cadence.Parameter) string {
	if len(ia) != len(ib) {
		return fmt.Sprintf("%s: initializer counts %d vs %d", path, len(ia), len(ib))
	}
	for i := range ia {
		if s := d.params(fmt.Sprintf("%s.init%d", path, i), ia[i], ib[i]); s != "" {
			return s
		}
	}
	return ""
}

func (d *differ) auth(path string, a, b cadence.Authorization) string {
	if a == nil || b == nil {
		if a == nil && b == nil {
			return ""
		}
		return path + ": authorization missing on one side"
	}
	if reflect.TypeOf(a) != reflect.TypeOf(b) {
		return fmt.Sprintf("%s: authorization kinds %T vs %T", path, a, b)
	}
	switch x := a.(type) {
	case cadence.Unauthorized:
		return ""
	case cadence.EntitlementMapAuthorization:
		if x.TypeID != b.(cadence.EntitlementMapAuthorization).TypeID {
			return fmt.Sprintf("%s: mapping %s vs %s", path, x.TypeID, b.(cadence.EntitlementMapAuthorization).TypeID)
		}
		return ""
	case *cadence.EntitlementSetAuthorization:
		y := b.(*cadence.EntitlementSetAuthorization)
		if x.Kind != y.Kind {
			return fmt.Sprintf("%s: entitlement set kinds %v vs %v", path, x.Kind, y.Kind)
		}
		ea, eb := append([]common.TypeID(nil), x.Entitlements...), append([]common.TypeID(nil), y.Entitlements...)
		if d.eq.UnorderedSets {
			sort.Slice(ea, func(i, j int) bool { return ea[i] < ea[j] })
			sort.Slice(eb, func(i, j int) bool { return eb[i] < eb[j] })
		}
		if fmt.Sprint(ea) != fmt.Sprint(eb) {
			return fmt.Sprintf("%s: entitlements %v vs %v", path, x.Entitlements, y.Entitlements)
		}
		return ""
	}
	return fmt.Sprintf("%s: unknown authorization %T", path, a)
}

func (d *differ) typ(path string, a, b cadence.Type) string {
	an, bn := isNilType(a), isNilType(b)
	if an || bn {
		if an && bn {
			return ""
		}
		return fmt.Sprintf("%s: type %s vs %s (one is nil)", path, typeString(a), typeString(b))
	}
	if reflect.TypeOf(a) != reflect.TypeOf(b) {
		return fmt.Sprintf("%s: type kinds %T (%s) vs %T (%s)", path, a, a.ID(), b, b.ID())
	}
	switch x := a.(type) {
	case cadence.PrimitiveType:
		if x != b.(cadence.PrimitiveType) {
			return fmt.Sprintf("%s: %s vs %s", path, a.ID(), b.ID())
		}
		return ""
	case cadence.BytesType:
		return ""
	case cadence.TypeID:
		if x != b.(cadence.TypeID) {
			return fmt.Sprintf("%s: %s vs %s", path, a.ID(), b.ID())
		}
		return ""
	case *cadence.OptionalType:
		return d.typ(path+"?", x.Type, b.(*cadence.OptionalType).Type)
	case *cadence.VariableSizedArrayType:
		return d.typ(path+"[]", x.ElementType, b.(*cadence.VariableSizedArrayType).ElementType)
	case *cadence.ConstantSizedArrayType:
		y := b.(*cadence.ConstantSizedArrayType)
		if x.Size != y.Size {
			return fmt.Sprintf("%s: constant array sizes %d vs %d", path, x.Size, y.Size)
		}
		return d.typ(path+"[;]", x.ElementType, y.ElementType)
	case *cadence.DictionaryType:
		y := b.(*cadence.DictionaryType)
		if s := d.typ(path+"{key}", x.KeyType, y.KeyType); s != "" {
			return s
		}
		return d.typ(path+"{value}", x.ElementType, y.ElementType)
	case *cadence.InclusiveRangeType:
		return d.typ(path+"<range>", x.ElementType, b.(*cadence.InclusiveRangeType).ElementType)
	case *cadence.CapabilityType:
		return d.typ(path+"<cap>", x.BorrowType, b.(*cadence.CapabilityType).BorrowType)
	case *cadence.ReferenceType:
		y := b.(*cadence.ReferenceType)
		if s := d.auth(path+"&auth", x.Authorization, y.Authorization); s != "" {
			return s
		}
		return d.typ(path+"&", x.Type, y.Type)
	case *cadence.IntersectionType:
		y := b.(*cadence.IntersectionType)
		if len(x.Types) != len(y.Types) {
			return fmt.Sprintf("%s: intersection sizes %d vs %d", path, len(x.Types), len(y.Types))
		}
		ta, tb := append([]cadence.Type(nil), x.Types...), append([]cadence.Type(nil), y.Types...)
		if d.eq.UnorderedSets {
			sort.SliceStable(ta, func(i, j int) bool { return ta[i].ID() < ta[j].ID() })
			sort.SliceStable(tb, func(i, j int) bool { return tb[i].ID() < tb[j].ID() })
		}
		for i := range ta {
			if s := d.typ(fmt.Sprintf("%s{%d}", path, i), ta[i], tb[i]); s != "" {
				return s
			}
		}
		return ""
	case *cadence.FunctionType:
		y := b.(*cadence.FunctionType)
		if x.Purity != y.Purity {
			return fmt.Sprintf("%s: purity %d vs %d", path, x.Purity, y.Purity)
		}
		if len(x.TypeParameters) != len(y.TypeParameters) {
			return fmt.Sprintf("%s: type parameter counts %d vs %d", path, len(x.TypeParameters), len(y.TypeParameters))
		}
		for i := range x.TypeParameters {
			if x.TypeParameters[i].Name != y.TypeParameters[i].Name {
				return fmt.Sprintf("%s: type parameter names %q vs %q", path, x.TypeParameters[i].Name, y.TypeParameters[i].Name)
			}
			if s := d.typ(fmt.Sprintf("%s<%s:>", path, x.TypeParameters[i].Name), x.TypeParameters[i].TypeBound, y.TypeParameters[i].TypeBound); s != "" {
				return s
			}
		}
		if s := d.params(path+"(params)", x.Parameters, y.Parameters); s != "" {
			return s
		}
		return d.typ(path+"(return)", x.ReturnType, y.ReturnType)
	}
	// nominal types: guard against cycles
	key := typePair{a, b}
	if d.visited[key] {
		return ""
	}
	d.visited[key] = true
	if a.ID() != b.ID() {
		return fmt.Sprintf("%s: type IDs %s vs %s", path, a.ID(), b.ID())
	}
	p := path + "<" + a.ID() + ">"
	switch x := a.(type) {
	case cadence.CompositeType:
		y := b.(cadence.CompositeType)
		if x.CompositeTypeLocation() != y.CompositeTypeLocation() || x.CompositeTypeQualifiedIdentifier() != y.CompositeTypeQualifiedIdentifier() {
			return fmt.Sprintf("%s: location/identifier %v %q vs %v %q", p, x.CompositeTypeLocation(), x.CompositeTypeQualifiedIdentifier(),
				y.CompositeTypeLocation(), y.CompositeTypeQualifiedIdentifier())
		}
		if s := d.fields(p, TypeFields(x), TypeFields(y)); s != "" {
			return s
		}
		if s := d.inits(p, x.CompositeInitializers(), y.CompositeInitializers()); s != "" {
			return s
		}
		switch xe := a.(type) {
		case *cadence.EnumType:
			return d.typ(p+".rawType", xe.RawType, b.(*cadence.EnumType).RawType)
		case *cadence.AttachmentType:
			return d.typ(p+".baseType", xe.BaseType, b.(*cadence.AttachmentType).BaseType)
		}
		return ""
	case cadence.InterfaceType:
		y := b.(cadence.InterfaceType)
		if x.InterfaceTypeLocation() != y.InterfaceTypeLocation() || x.InterfaceTypeQualifiedIdentifier() != y.InterfaceTypeQualifiedIdentifier() {
			return fmt.Sprintf("%s: location/identifier differ", p)
		}
		if s := d.fields(p, InterfaceFields(x), InterfaceFields(y)); s != "" {
			return s
		}
		return d.inits(p, x.InterfaceInitializers(), y.InterfaceInitializers())
	}
	return fmt.Sprintf("%s: unsupported type kind %T", path, a)
}

func typeString(t cadence.Type) string {
	if isNilType(t) {
		return "<nil>"
	}
	return t.ID()
}
