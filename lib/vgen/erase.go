package vgen

import (
	"sort"

	"github.com/onflow/cadence"
	"github.com/onflow/cadence/common"
)

// EraseJSON returns v with exactly the static type information removed that
// JSON-Cadence does not carry: the static types of arrays and dictionaries;
// the declared field types of composites (replaced by the dynamic types of the
// erased field values), their initializers, an enum's raw type; the element type
// of a range becomes the type of its start value. Types embedded in type
// values, capabilities and function values are carried completely and stay.
func EraseJSON(v cadence.Value) cadence.Value {
	switch x := v.(type) {
	case nil:
		return nil
	case cadence.Optional:
		return cadence.NewOptional(EraseJSON(x.Value))
	case cadence.Array:
		vs := make([]cadence.Value, len(x.Values))
		for i, e := range x.Values {
			vs[i] = EraseJSON(e)
		}
		return cadence.NewArray(vs)
	case cadence.Dictionary:
		ps := make([]cadence.KeyValuePair, len(x.Pairs))
		for i, p := range x.Pairs {
			ps[i] = cadence.KeyValuePair{Key: EraseJSON(p.Key), Value: EraseJSON(p.Value)}
		}
		return cadence.NewDictionary(ps)
	case *cadence.InclusiveRange:
		s := EraseJSON(x.Start)
		return cadence.NewInclusiveRange(s, EraseJSON(x.End), EraseJSON(x.Step)).
			WithType(cadence.NewInclusiveRangeType(s.Type()))
	case cadence.Composite:
		t := CompositeTypeOf(x)
		if t == nil {
			return v
		}
		declared := TypeFields(t)
		vals := FieldValues(x)
		vs := make([]cadence.Value, len(vals))
		fs := make([]cadence.Field, len(vals))
		for i, fv := range vals {
			vs[i] = EraseJSON(fv)
			name := ""
			if i < len(declared) {
				name = declared[i].Identifier
			}
			fs[i] = cadence.Field{Identifier: name, Type: vs[i].Type()}
		}
		kind, _ := KindOf(t)
		return NewComposite(NewCompositeType(kind, t.CompositeTypeLocation(), t.CompositeTypeQualifiedIdentifier(), fs, nil, nil), vs)
	}
	return v
}

// BytewiseLess is the order CCF calls "bytewise lexicographic" on text strings
// (the order of their canonical CBOR encodings): shorter first, then by bytes.
func BytewiseLess(a, b string) bool {
	if len(a) != len(b) {
		return len(a) < len(b)
	}
	return a < b
}

// CCFErasure describes what an encoder mode normalises.
type CCFErasure struct {
	SortFields        bool // composite fields are in bytewise order of their names
	SortIntersections bool // intersection members in bytewise order of their type IDs
	SortEntitlements  bool // entitlement lists in bytewise order
}

type ccfEraser struct {
	e     CCFErasure
	inl   map[cadence.Type]cadence.Type // inline-type position: memo for nominal types
	perms map[cadence.Type][]int        // field permutation per erased composite type (new index -> old index)
	tv    map[cadence.Type]cadence.Type // type-value position memo
}

// EraseCCF returns v as the CCF format carries it: types in *value positions*
// (array/dictionary/composite/capability static types) keep the composite kind,
// type ID and the declared fields, but not initializers, an enum's raw type, an
// attachment's base type, or the members of interfaces; types inside type values
// and function values are carried completely. Sorting options reorder fields /
// set members (field values follow their fields).
func EraseCCF(v cadence.Value, e CCFErasure) cadence.Value {
	er := &ccfEraser{e: e, inl: map[cadence.Type]cadence.Type{}, perms: map[cadence.Type][]int{}, tv: map[cadence.Type]cadence.Type{}}
	return er.value(v)
}

func (er *ccfEraser) value(v cadence.Value) cadence.Value {
	switch x := v.(type) {
	case nil:
		return nil
	case cadence.Optional:
		return cadence.NewOptional(er.value(x.Value))
	case cadence.Array:
		vs := make([]cadence.Value, len(x.Values))
		for i, e := range x.Values {
			vs[i] = er.value(e)
		}
		out := cadence.NewArray(vs)
		if x.ArrayType != nil {
			out = out.WithType(er.inline(x.ArrayType).(cadence.ArrayType))
		}
		return out
	case cadence.Dictionary:
		ps := make([]cadence.KeyValuePair, len(x.Pairs))
		for i, p := range x.Pairs {
			ps[i] = cadence.KeyValuePair{Key: er.value(p.Key), Value: er.value(p.Value)}
		}
		out := cadence.NewDictionary(ps)
		if x.DictionaryType != nil {
			out = out.WithType(er.inline(x.DictionaryType).(*cadence.DictionaryType))
		}
		return out
	case *cadence.InclusiveRange:
		out := cadence.NewInclusiveRange(er.value(x.Start), er.value(x.End), er.value(x.Step))
		if x.InclusiveRangeType != nil {
			out = out.WithType(er.inline(x.InclusiveRangeType).(*cadence.InclusiveRangeType))
		}
		return out
	case cadence.Composite:
		t := CompositeTypeOf(x)
		if t == nil {
			return v
		}
		nt := er.inline(t).(cadence.CompositeType)
		perm := er.perms[nt]
		vals := FieldValues(x)
		vs := make([]cadence.Value, len(vals))
		for i := range vals {
			j := i
			if i < len(perm) {
				j = perm[i]
			}
			vs[i] = er.value(vals[j])
		}
		return NewComposite(nt, vs)
	case cadence.TypeValue:
		return cadence.NewTypeValue(er.typeValue(x.StaticType))
	case cadence.Function:
		if x.FunctionType == nil {
			return v
		}
		return cadence.NewFunction(er.typeValue(x.FunctionType).(*cadence.FunctionType))
	case cadence.Capability:
		c := x
		c.BorrowType = er.inline(x.BorrowType)
		return c
	}
	return v
}

func (er *ccfEraser) auth(a cadence.Authorization) cadence.Authorization {
	s, ok := a.(*cadence.EntitlementSetAuthorization)
	if !ok || !er.e.SortEntitlements {
		return a
	}
	ids := append([]common.TypeID(nil), s.Entitlements...)
	sort.SliceStable(ids, func(i, j int) bool { return BytewiseLess(string(ids[i]), string(ids[j])) })
	return cadence.NewEntitlementSetAuthorization(nil, ids, s.Kind)
}

func (er *ccfEraser) members(ts []cadence.Type, f func(cadence.Type) cadence.Type) []cadence.Type {
	out := make([]cadence.Type, len(ts))
	for i, t := range ts {
		out[i] = f(t)
	}
	if er.e.SortIntersections {
		sort.SliceStable(out, func(i, j int) bool { return BytewiseLess(out[i].ID(), out[j].ID()) })
	}
	return out
}

func (er *ccfEraser) sortedPerm(fields []cadence.Field) []int {
	perm := make([]int, len(fields))
	for i := range perm {
		perm[i] = i
	}
	if er.e.SortFields {
		sort.SliceStable(perm, func(i, j int) bool { return BytewiseLess(fields[perm[i]].Identifier, fields[perm[j]].Identifier) })
	}
	return perm
}

// inline erases a type in a value position.
func (er *ccfEraser) inline(t cadence.Type) cadence.Type {
	if isNilType(t) {
		return nil
	}
	switch x := t.(type) {
	case *cadence.OptionalType:
		return cadence.NewOptionalType(er.inline(x.Type))
	case *cadence.VariableSizedArrayType:
		return cadence.NewVariableSizedArrayType(er.inline(x.ElementType))
	case *cadence.ConstantSizedArrayType:
		return cadence.NewConstantSizedArrayType(x.Size, er.inline(x.ElementType))
	case *cadence.DictionaryType:
		return cadence.NewDictionaryType(er.inline(x.KeyType), er.inline(x.ElementType))
	case *cadence.InclusiveRangeType:
		return cadence.NewInclusiveRangeType(er.inline(x.ElementType))
	case *cadence.CapabilityType:
		return cadence.NewCapabilityType(er.inline(x.BorrowType))
	case *cadence.ReferenceType:
		return cadence.NewReferenceType(er.auth(x.Authorization), er.inline(x.Type))
	case *cadence.IntersectionType:
		return cadence.NewIntersectionType(er.members(x.Types, er.inline))
	case *cadence.FunctionType:
		return er.typeValue(x)
	case cadence.CompositeType:
		if nt, ok := er.inl[t]; ok {
			return nt
		}
		kind, _ := KindOf(t)
		nt := NewCompositeType(kind, x.CompositeTypeLocation(), x.CompositeTypeQualifiedIdentifier(), nil, nil, nil)
		er.inl[t] = nt
		fields := TypeFields(x)
		perm := er.sortedPerm(fields)
		nf := make([]cadence.Field, len(fields))
		for i, j := range perm {
			nf[i] = cadence.Field{Identifier: fields[j].Identifier, Type: er.inline(fields[j].Type)}
		}
		setCompositeTypeFields(nt, nf)
		er.perms[nt] = perm
		return nt
	case cadence.InterfaceType:
		if nt, ok := er.inl[t]; ok {
			return nt
		}
		var nt cadence.Type
		switch t.(type) {
		case *cadence.StructInterfaceType:
			nt = cadence.NewStructInterfaceType(x.InterfaceTypeLocation(), x.InterfaceTypeQualifiedIdentifier(), nil, nil)
		case *cadence.ResourceInterfaceType:
			nt = cadence.NewResourceInterfaceType(x.InterfaceTypeLocation(), x.InterfaceTypeQualifiedIdentifier(), nil, nil)
		default:
			nt = cadence.NewContractInterfaceType(x.InterfaceTypeLocation(), x.InterfaceTypeQualifiedIdentifier(), nil, nil)
		}
		er.inl[t] = nt
		return nt
	}
	return t
}

// typeValue normalises a type in a type-value position (complete information;
// only the configured sorting applies).
func (er *ccfEraser) typeValue(t cadence.Type) cadence.Type {
	if isNilType(t) {
		return nil
	}
	if !er.e.SortFields && !er.e.SortIntersections && !er.e.SortEntitlements {
		return t
	}
	switch x := t.(type) {
	case *cadence.OptionalType:
		return cadence.NewOptionalType(er.typeValue(x.Type))
	case *cadence.VariableSizedArrayType:
		return cadence.NewVariableSizedArrayType(er.typeValue(x.ElementType))
	case *cadence.ConstantSizedArrayType:
		return cadence.NewConstantSizedArrayType(x.Size, er.typeValue(x.ElementType))
	case *cadence.DictionaryType:
		return cadence.NewDictionaryType(er.typeValue(x.KeyType), er.typeValue(x.ElementType))
	case *cadence.InclusiveRangeType:
		return cadence.NewInclusiveRangeType(er.typeValue(x.ElementType))
	case *cadence.CapabilityType:
		return cadence.NewCapabilityType(er.typeValue(x.BorrowType))
	case *cadence.ReferenceType:
		return cadence.NewReferenceType(er.auth(x.Authorization), er.typeValue(x.Type))
	case *cadence.IntersectionType:
		return cadence.NewIntersectionType(er.members(x.Types, er.typeValue))
	case *cadence.FunctionType:
		tps := make([]cadence.TypeParameter, len(x.TypeParameters))
		for i, tp := range x.TypeParameters {
			tps[i] = cadence.TypeParameter{Name: tp.Name, TypeBound: er.typeValue(tp.TypeBound)}
		}
		return cadence.NewFunctionType(x.Purity, tps, er.tvParams(x.Parameters), er.typeValue(x.ReturnType))
	case cadence.CompositeType:
		if nt, ok := er.tv[t]; ok {
			return nt
		}
		kind, _ := KindOf(t)
		nt := NewCompositeType(kind, x.CompositeTypeLocation(), x.CompositeTypeQualifiedIdentifier(), nil, nil, nil)
		er.tv[t] = nt
		fields := TypeFields(x)
		perm := er.sortedPerm(fields)
		nf := make([]cadence.Field, len(fields))
		for i, j := range perm {
			nf[i] = cadence.Field{Identifier: fields[j].Identifier, Type: er.typeValue(fields[j].Type)}
		}
		setCompositeTypeFields(nt, nf)
		inits := er.tvInits(x.CompositeInitializers())
		switch n := nt.(type) {
		case *cadence.StructType:
			n.Initializers = inits
		case *cadence.ResourceType:
			n.Initializers = inits
		case *cadence.ContractType:
			n.Initializers = inits
		case *cadence.EventType:
			if len(inits) > 0 {
				n.Initializer = inits[0]
			}
		case *cadence.EnumType:
			n.Initializers = inits
			n.RawType = er.typeValue(t.(*cadence.EnumType).RawType)
		case *cadence.AttachmentType:
			n.Initializers = inits
			n.BaseType = er.typeValue(t.(*cadence.AttachmentType).BaseType)
		}
		return nt
	case cadence.InterfaceType:
		if nt, ok := er.tv[t]; ok {
			return nt
		}
		var nt cadence.InterfaceType
		switch t.(type) {
		case *cadence.StructInterfaceType:
			nt = cadence.NewStructInterfaceType(x.InterfaceTypeLocation(), x.InterfaceTypeQualifiedIdentifier(), nil, nil)
		case *cadence.ResourceInterfaceType:
			nt = cadence.NewResourceInterfaceType(x.InterfaceTypeLocation(), x.InterfaceTypeQualifiedIdentifier(), nil, nil)
		default:
			nt = cadence.NewContractInterfaceType(x.InterfaceTypeLocation(), x.InterfaceTypeQualifiedIdentifier(), nil, nil)
		}
		er.tv[t] = nt
		fields := InterfaceFields(x)
		perm := er.sortedPerm(fields)
		nf := make([]cadence.Field, len(fields))
		for i, j := range perm {
			nf[i] = cadence.Field{Identifier: fields[j].Identifier, Type: er.typeValue(fields[j].Type)}
		}
		setInterfaceTypeFields(nt, nf)
		inits := er.tvInits(x.InterfaceInitializers())
		switch n := nt.(type) {
		case *cadence.StructInterfaceType:
			n.Initializers = inits
		case *cadence.ResourceInterfaceType:
			n.Initializers = inits
		case *cadence.ContractInterfaceType:
			n.Initializers = inits
		}
		return nt
	}
	return t
}

func (er *ccfEraser) tvParams(ps []cadence.Parameter) []cadence.Parameter {
	out := make([]cadence.Parameter, len(ps))
	for i, p := range ps {
		out[i] = cadence.Parameter{Label: p.Label, Identifier: p.Identifier, Type: er.typeValue(p.Type)}
	}
	return out
}

func (er *ccfEraser) tvInits(is [][]cadence.Parameter) [][]cadence.Parameter {
	if is == nil {
		return nil
	}
	out := make([][]cadence.Parameter, len(is))
	for i, ps := range is {
		out[i] = er.tvParams(ps)
	}
	return out
}
