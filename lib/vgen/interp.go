package vgen

import (
	"encoding/hex"
	"encoding/json"
	"fmt"
	"math/big"
	"sort"

	"golang.org/x/text/unicode/norm"

	"github.com/onflow/cadence/common"
	"github.com/onflow/cadence/interpreter"
	"github.com/onflow/cadence/sema"

	"verif/lib/numv"
	"verif/lib/oracle"
)

// Recipes: a harness-side description of storable interpreter values and static
// types that is independent of every cadence serialization. Build turns a recipe
// into the cadence object, Extract reads a cadence object back into a recipe;
// two objects are equal iff their recipes are equal (compare with Canon).
// Primitive static types are named (PrimitiveStaticType.String()), never
// numbered, so that a renumbering changes the bytes but not the recipe.

// LocRecipe describes a common.Location (K = "" means no location).
type LocRecipe struct {
	K    string `json:"k,omitempty"` // addr | str | id | tx | script | repl
	Addr string `json:"addr,omitempty"`
	Name string `json:"name,omitempty"`
	Hex  string `json:"hex,omitempty"`
}

// AuthRecipe describes an authorization.
type AuthRecipe struct {
	K    string   `json:"k"` // unauth | inaccessible | map | conj | disj
	ID   string   `json:"id,omitempty"`
	Ents []string `json:"ents,omitempty"`
}

// TypeRecipe describes a static type.
type TypeRecipe struct {
	K     string        `json:"k"` // prim opt varr carr dict range comp iface ref inter cap
	Name  string        `json:"name,omitempty"`
	Size  int64         `json:"size,omitempty"`
	Elem  *TypeRecipe   `json:"elem,omitempty"`
	Key   *TypeRecipe   `json:"key,omitempty"`
	Loc   *LocRecipe    `json:"loc,omitempty"`
	QID   string        `json:"qid,omitempty"`
	Auth  *AuthRecipe   `json:"auth,omitempty"`
	Types []*TypeRecipe `json:"types,omitempty"`
}

// ValRecipe describes a storable value.
type ValRecipe struct {
	K     string      `json:"k"` // num bool string char address path cap published scc acc type some nil void
	T     string      `json:"t,omitempty"`
	V     string      `json:"v,omitempty"`
	ID    uint64      `json:"id,omitempty"`
	Addr  string      `json:"addr,omitempty"`
	Type  *TypeRecipe `json:"type,omitempty"`
	Inner *ValRecipe  `json:"inner,omitempty"`
	Path  *ValRecipe  `json:"path,omitempty"`
}

// Canon renders a recipe canonically (JSON with fixed field order).
func Canon(r any) string {
	b, err := json.Marshal(r)
	if err != nil {
		panic(err)
	}
	return string(b)
}

// ---- build -------------------------------------------------------------------------------

func primitiveByName(name string) interpreter.PrimitiveStaticType {
	for ty := interpreter.PrimitiveStaticType(1); ty < interpreter.PrimitiveStaticType_Count; ty++ {
		if ty.IsDefined() && ty.String() == name {
			return ty
		}
	}
	panic("vgen: unknown primitive static type " + name)
}

// PrimitiveNames lists the names of all defined primitive static types
// (deprecated ones included: stored data may still contain them).
func PrimitiveNames() []string {
	var out []string
	for ty := interpreter.PrimitiveStaticType(1); ty < interpreter.PrimitiveStaticType_Count; ty++ {
		// the deprecated untyped Capability primitive is deliberately read back as
		// Capability<nil> (decodePrimitiveStaticType), so it has no stable recipe
		if ty.IsDefined() && ty != interpreter.PrimitiveStaticTypeCapability { //nolint:staticcheck
			out = append(out, ty.String())
		}
	}
	return out
}

func mustHex(s string) []byte {
	b, err := hex.DecodeString(s)
	if err != nil {
		panic(err)
	}
	return b
}

// BuildLocation builds the location.
func BuildLocation(l *LocRecipe) common.Location {
	if l == nil || l.K == "" {
		return nil
	}
	switch l.K {
	case "addr":
		var a common.Address
		copy(a[:], mustHex(l.Addr))
		return common.AddressLocation{Address: a, Name: l.Name}
	case "str":
		return common.StringLocation(l.Name)
	case "id":
		return common.IdentifierLocation(l.Name)
	case "tx":
		var t common.TransactionLocation
		copy(t[:], mustHex(l.Hex))
		return t
	case "script":
		var t common.ScriptLocation
		copy(t[:], mustHex(l.Hex))
		return t
	case "repl":
		return common.REPLLocation{}
	}
	panic("vgen: bad location recipe " + l.K)
}

// BuildAuth builds the authorization.
func BuildAuth(a *AuthRecipe) interpreter.Authorization {
	switch a.K {
	case "unauth":
		return interpreter.UnauthorizedAccess
	case "inaccessible":
		return interpreter.InaccessibleAccess
	case "map":
		return interpreter.NewEntitlementMapAuthorization(nil, common.TypeID(a.ID))
	case "conj", "disj":
		kind := sema.Conjunction
		if a.K == "disj" {
			kind = sema.Disjunction
		}
		ids := make([]common.TypeID, len(a.Ents))
		for i, e := range a.Ents {
			ids[i] = common.TypeID(e)
		}
		return interpreter.NewEntitlementSetAuthorization(nil, func() []common.TypeID { return ids }, len(ids), kind)
	}
	panic("vgen: bad authorization recipe " + a.K)
}

// BuildType builds the static type.
func BuildType(t *TypeRecipe) interpreter.StaticType {
	if t == nil {
		return nil
	}
	switch t.K {
	case "prim":
		return primitiveByName(t.Name)
	case "opt":
		return interpreter.NewOptionalStaticType(nil, BuildType(t.Elem))
	case "varr":
		return interpreter.NewVariableSizedStaticType(nil, BuildType(t.Elem))
	case "carr":
		return interpreter.NewConstantSizedStaticType(nil, BuildType(t.Elem), t.Size)
	case "dict":
		return interpreter.NewDictionaryStaticType(nil, BuildType(t.Key), BuildType(t.Elem))
	case "range":
		return interpreter.NewInclusiveRangeStaticType(nil, BuildType(t.Elem))
	case "comp":
		return interpreter.NewCompositeStaticTypeComputeTypeID(nil, BuildLocation(t.Loc), t.QID)
	case "iface":
		return interpreter.NewInterfaceStaticTypeComputeTypeID(nil, BuildLocation(t.Loc), t.QID)
	case "ref":
		return interpreter.NewReferenceStaticType(nil, BuildAuth(t.Auth), BuildType(t.Elem))
	case "inter":
		ts := make([]*interpreter.InterfaceStaticType, len(t.Types))
		for i, m := range t.Types {
			ts[i] = BuildType(m).(*interpreter.InterfaceStaticType)
		}
		return interpreter.NewIntersectionStaticType(nil, ts)
	case "cap":
		return interpreter.NewCapabilityStaticType(nil, BuildType(t.Elem))
	}
	panic("vgen: bad type recipe " + t.K)
}

func pathDomain(name string) common.PathDomain {
	for _, d := range []common.PathDomain{common.PathDomainStorage, common.PathDomainPrivate, common.PathDomainPublic} {
		if d.Identifier() == name {
			return d
		}
	}
	panic("vgen: bad path domain " + name)
}

// BuildValue builds the storable value.
func BuildValue(v *ValRecipe) interpreter.Value {
	switch v.K {
	case "num":
		raw, ok := new(big.Int).SetString(v.V, 10)
		if !ok {
			panic("vgen: bad number " + v.V)
		}
		return numv.Make(oracle.ByName(v.T), raw)
	case "bool":
		return interpreter.BoolValue(v.V == "true")
	case "string":
		return interpreter.NewUnmeteredStringValue(v.V)
	case "char":
		return interpreter.NewUnmeteredCharacterValue(v.V)
	case "address":
		return interpreter.NewUnmeteredAddressValueFromBytes(mustHex(v.Addr))
	case "path":
		return interpreter.NewUnmeteredPathValue(pathDomain(v.T), v.V)
	case "cap":
		return interpreter.NewUnmeteredCapabilityValue(interpreter.NewUnmeteredUInt64Value(v.ID),
			interpreter.NewUnmeteredAddressValueFromBytes(mustHex(v.Addr)), BuildType(v.Type))
	case "published":
		return interpreter.NewPublishedValue(nil, interpreter.NewUnmeteredAddressValueFromBytes(mustHex(v.Addr)),
			BuildValue(v.Inner).(*interpreter.IDCapabilityValue))
	case "scc":
		return interpreter.NewUnmeteredStorageCapabilityControllerValue(BuildType(v.Type).(*interpreter.ReferenceStaticType),
			interpreter.NewUnmeteredUInt64Value(v.ID), BuildValue(v.Path).(interpreter.PathValue))
	case "acc":
		return interpreter.NewUnmeteredAccountCapabilityControllerValue(BuildType(v.Type).(*interpreter.ReferenceStaticType),
			interpreter.NewUnmeteredUInt64Value(v.ID))
	case "type":
		return interpreter.NewUnmeteredTypeValue(BuildType(v.Type))
	case "some":
		return interpreter.NewUnmeteredSomeValueNonCopying(BuildValue(v.Inner))
	case "nil":
		return interpreter.Nil
	case "void":
		return interpreter.Void
	}
	panic("vgen: bad value recipe " + v.K)
}

// ---- extract -----------------------------------------------------------------------------------

// ExtractLocation reads a location back.
func ExtractLocation(l common.Location) *LocRecipe {
	switch x := l.(type) {
	case nil:
		return nil
	case common.AddressLocation:
		return &LocRecipe{K: "addr", Addr: hex.EncodeToString(x.Address[:]), Name: x.Name}
	case common.StringLocation:
		return &LocRecipe{K: "str", Name: string(x)}
	case common.IdentifierLocation:
		return &LocRecipe{K: "id", Name: string(x)}
	case common.TransactionLocation:
		return &LocRecipe{K: "tx", Hex: hex.EncodeToString(x[:])}
	case common.ScriptLocation:
		return &LocRecipe{K: "script", Hex: hex.EncodeToString(x[:])}
	case common.REPLLocation:
		return &LocRecipe{K: "repl"}
	}
	return &LocRecipe{K: fmt.Sprintf("unknown:%T", l)}
}

// ExtractAuth reads an authorization back (entitlements in their stored order).
func ExtractAuth(a interpreter.Authorization) *AuthRecipe {
	switch x := a.(type) {
	case interpreter.Unauthorized:
		return &AuthRecipe{K: "unauth"}
	case interpreter.Inaccessible:
		return &AuthRecipe{K: "inaccessible"}
	case interpreter.EntitlementMapAuthorization:
		return &AuthRecipe{K: "map", ID: string(x.TypeID)}
	case interpreter.EntitlementSetAuthorization:
		r := &AuthRecipe{K: "conj"}
		if x.SetKind == sema.Disjunction {
			r.K = "disj"
		}
		x.Entitlements.Foreach(func(id common.TypeID, _ struct{}) { r.Ents = append(r.Ents, string(id)) })
		return r
	}
	return &AuthRecipe{K: fmt.Sprintf("unknown:%T", a)}
}

// ExtractType reads a static type back.
func ExtractType(t interpreter.StaticType) *TypeRecipe {
	switch x := t.(type) {
	case nil:
		return nil
	case interpreter.PrimitiveStaticType:
		return &TypeRecipe{K: "prim", Name: x.String()}
	case *interpreter.OptionalStaticType:
		return &TypeRecipe{K: "opt", Elem: ExtractType(x.Type)}
	case *interpreter.VariableSizedStaticType:
		return &TypeRecipe{K: "varr", Elem: ExtractType(x.Type)}
	case *interpreter.ConstantSizedStaticType:
		return &TypeRecipe{K: "carr", Elem: ExtractType(x.Type), Size: x.Size}
	case *interpreter.DictionaryStaticType:
		return &TypeRecipe{K: "dict", Key: ExtractType(x.KeyType), Elem: ExtractType(x.ValueType)}
	case interpreter.InclusiveRangeStaticType:
		return &TypeRecipe{K: "range", Elem: ExtractType(x.ElementType)}
	case *interpreter.CompositeStaticType:
		r := &TypeRecipe{K: "comp", Loc: ExtractLocation(x.Location), QID: x.QualifiedIdentifier}
		if want := common.NewTypeIDFromQualifiedName(nil, x.Location, x.QualifiedIdentifier); want != x.TypeID {
			r.Name = "inconsistent TypeID " + string(x.TypeID)
		}
		return r
	case *interpreter.InterfaceStaticType:
		r := &TypeRecipe{K: "iface", Loc: ExtractLocation(x.Location), QID: x.QualifiedIdentifier}
		if want := common.NewTypeIDFromQualifiedName(nil, x.Location, x.QualifiedIdentifier); want != x.TypeID {
			r.Name = "inconsistent TypeID " + string(x.TypeID)
		}
		return r
	case *interpreter.ReferenceStaticType:
		return &TypeRecipe{K: "ref", Auth: ExtractAuth(x.Authorization), Elem: ExtractType(x.ReferencedType)}
	case *interpreter.IntersectionStaticType:
		r := &TypeRecipe{K: "inter"}
		for _, m := range x.Types {
			r.Types = append(r.Types, ExtractType(m))
		}
		if x.LegacyType != nil {
			r.Name = "legacy:" + string(x.LegacyType.ID())
		}
		return r
	case *interpreter.CapabilityStaticType:
		return &TypeRecipe{K: "cap", Elem: ExtractType(x.BorrowType)}
	}
	return &TypeRecipe{K: fmt.Sprintf("unknown:%T", t)}
}

// ExtractValue reads a storable value back into a recipe (K = "unknown:..." for
// value kinds recipes do not cover, e.g. containers).
func ExtractValue(v interpreter.Value) *ValRecipe {
	if _, isNumber := v.(interpreter.NumberValue); isNumber {
		name, raw := numv.Raw(v)
		return &ValRecipe{K: "num", T: name, V: raw.String()}
	}
	switch x := v.(type) {
	case interpreter.BoolValue:
		return &ValRecipe{K: "bool", V: fmt.Sprint(bool(x))}
	case *interpreter.StringValue:
		return &ValRecipe{K: "string", V: x.Str}
	case interpreter.CharacterValue:
		return &ValRecipe{K: "char", V: x.Str}
	case interpreter.AddressValue:
		return &ValRecipe{K: "address", Addr: hex.EncodeToString(x[:])}
	case interpreter.PathValue:
		return &ValRecipe{K: "path", T: x.Domain.Identifier(), V: x.Identifier}
	case *interpreter.IDCapabilityValue:
		a := x.Address()
		return &ValRecipe{K: "cap", ID: uint64(x.ID), Addr: hex.EncodeToString(a[:]), Type: ExtractType(x.BorrowType)}
	case *interpreter.PublishedValue:
		r := &ValRecipe{K: "published", Addr: hex.EncodeToString(x.Recipient[:])}
		if c, ok := x.Value.(*interpreter.IDCapabilityValue); ok {
			r.Inner = ExtractValue(c)
		} else {
			r.Inner = &ValRecipe{K: fmt.Sprintf("unknown:%T", x.Value)}
		}
		return r
	case *interpreter.StorageCapabilityControllerValue:
		var bt interpreter.StaticType
		if x.BorrowType != nil {
			bt = x.BorrowType
		}
		return &ValRecipe{K: "scc", ID: uint64(x.CapabilityID), Type: ExtractType(bt), Path: ExtractValue(x.TargetPath)}
	case *interpreter.AccountCapabilityControllerValue:
		var bt interpreter.StaticType
		if x.BorrowType != nil {
			bt = x.BorrowType
		}
		return &ValRecipe{K: "acc", ID: uint64(x.CapabilityID), Type: ExtractType(bt)}
	case interpreter.TypeValue:
		return &ValRecipe{K: "type", Type: ExtractType(x.Type)}
	case *interpreter.SomeValue:
		return &ValRecipe{K: "some", Inner: ExtractValue(x.InnerValue())}
	case interpreter.NilValue:
		return &ValRecipe{K: "nil"}
	case interpreter.VoidValue:
		return &ValRecipe{K: "void"}
	}
	return &ValRecipe{K: fmt.Sprintf("unknown:%T", v)}
}

// NormalizeRecipe returns the recipe a value built from r must extract to:
// strings and characters are stored in NFC; the entitlements of a set keep
// their order (the storage format keeps it).
func NormalizeRecipe(r *ValRecipe) *ValRecipe {
	if r == nil {
		return nil
	}
	c := *r
	if c.K == "string" || c.K == "char" {
		c.V = norm.NFC.String(c.V)
	}
	c.Inner = NormalizeRecipe(r.Inner)
	c.Path = NormalizeRecipe(r.Path)
	return &c
}

// ---- generation --------------------------------------------------------------------------------------

func (g *G) locRecipe() *LocRecipe {
	switch g.weighted(6, 2, 1, 1, 1, 1) {
	case 0:
		a := g.Address()
		return &LocRecipe{K: "addr", Addr: hex.EncodeToString(a[:]), Name: pick(g, contractNames)}
	case 1:
		return &LocRecipe{K: "str", Name: pick(g, stringLocs)}
	case 2:
		return &LocRecipe{K: "id", Name: pick(g, stringLocs)}
	case 3:
		return &LocRecipe{K: "tx", Hex: hex.EncodeToString(g.bytes(32))}
	case 4:
		return &LocRecipe{K: "script", Hex: hex.EncodeToString(g.bytes(32))}
	default:
		return nil // built-in type without location
	}
}

func (g *G) nominalRecipe(kind string) *TypeRecipe {
	loc := g.locRecipe()
	qid := pick(g, typeNames)
	if loc != nil && loc.K == "addr" {
		qid = loc.Name + "." + qid
	}
	if g.chance(1, 5) {
		qid += "." + pick(g, typeNames)
	}
	return &TypeRecipe{K: kind, Loc: loc, QID: qid}
}

// AuthRecipe draws an authorization recipe of every form.
func (g *G) AuthRecipe() *AuthRecipe {
	ent := func() string {
		return string(common.NewTypeIDFromQualifiedName(nil, BuildLocation(g.locRecipe()), pick(g, []string{"E", "C.E", "Mutate", "X.Ea", "Eb", "Eaa"})))
	}
	switch g.weighted(4, 3, 2, 2) {
	case 1:
		n := 1 + g.intn(3)
		r := &AuthRecipe{K: "conj"}
		if n > 1 && g.chance(1, 3) {
			r.K = "disj"
		}
		seen := map[string]bool{}
		for len(r.Ents) < n {
			e := ent()
			if !seen[e] {
				seen[e] = true
				r.Ents = append(r.Ents, e)
			}
		}
		return r
	case 2:
		return &AuthRecipe{K: "map", ID: ent()}
	case 3:
		// built-in entitlements
		return &AuthRecipe{K: "conj", Ents: []string{pick(g, []string{"Mutate", "Insert", "Remove", "Storage", "Capabilities"})}}
	}
	return &AuthRecipe{K: "unauth"}
}

var primNames = PrimitiveNames()

// TypeRecipe draws a static type recipe over every static type kind.
func (g *G) TypeRecipe(d int) *TypeRecipe {
	leaf := func() *TypeRecipe {
		switch g.weighted(6, 3, 2) {
		case 1:
			return g.nominalRecipe("comp")
		case 2:
			return g.nominalRecipe("iface")
		}
		return &TypeRecipe{K: "prim", Name: pick(g, primNames)}
	}
	if d <= 0 {
		return leaf()
	}
	switch g.weighted(6, 3, 3, 2, 3, 1, 4, 3, 3) {
	case 0:
		return leaf()
	case 1:
		return &TypeRecipe{K: "opt", Elem: g.TypeRecipe(d - 1)}
	case 2:
		return &TypeRecipe{K: "varr", Elem: g.TypeRecipe(d - 1)}
	case 3:
		return &TypeRecipe{K: "carr", Elem: g.TypeRecipe(d - 1), Size: pick(g, []int64{0, 1, 2, 23, 24, 255, 256, 65536, 1 << 32, 1<<63 - 1})}
	case 4:
		return &TypeRecipe{K: "dict", Key: g.TypeRecipe(d - 1), Elem: g.TypeRecipe(d - 1)}
	case 5:
		return &TypeRecipe{K: "range", Elem: &TypeRecipe{K: "prim", Name: pick(g, []string{"Int", "UInt8", "Int256", "Word64", "Integer"})}}
	case 6:
		return g.RefTypeRecipe(d - 1)
	case 7:
		n := 1 + g.intn(3)
		r := &TypeRecipe{K: "inter"}
		seen := map[string]bool{}
		for len(r.Types) < n {
			m := g.nominalRecipe("iface")
			k := Canon(m)
			if !seen[k] {
				seen[k] = true
				r.Types = append(r.Types, m)
			}
		}
		return r
	default:
		if g.chance(1, 5) {
			return &TypeRecipe{K: "cap"}
		}
		return &TypeRecipe{K: "cap", Elem: g.TypeRecipe(d - 1)}
	}
}

// RefTypeRecipe draws a reference type recipe.
func (g *G) RefTypeRecipe(d int) *TypeRecipe {
	return &TypeRecipe{K: "ref", Auth: g.AuthRecipe(), Elem: g.TypeRecipe(d)}
}

var numericNames = func() []string {
	var out []string
	for _, t := range oracle.Types {
		out = append(out, t.Name)
	}
	return out
}()

func (g *G) numRecipe() *ValRecipe {
	t := oracle.ByName(pick(g, numericNames))
	pool := t.Pool()
	var raw *big.Int
	if g.chance(2, 3) {
		raw = pool[g.intn(len(pool))]
	} else {
		raw = g.bigIn(t.Min, t.Max)
	}
	return &ValRecipe{K: "num", T: t.Name, V: raw.String()}
}

func (g *G) pathRecipe() *ValRecipe {
	return &ValRecipe{K: "path", T: pick(g, []string{"storage", "public", "private"}), V: g.pathIdent()}
}

func (g *G) capRecipe(d int) *ValRecipe {
	a := g.Address()
	r := &ValRecipe{K: "cap", ID: g.u64(), Addr: hex.EncodeToString(a[:])}
	// an ID capability always carries a borrow type
	if g.chance(3, 4) {
		r.Type = g.RefTypeRecipe(d)
	} else {
		r.Type = g.TypeRecipe(d)
	}
	return r
}

// ValRecipe draws a storable value recipe (d bounds the nesting of some-values and types).
func (g *G) ValRecipe(d int) *ValRecipe {
	switch g.weighted(6, 1, 3, 2, 2, 2, 3, 1, 2, 2, 4, 3, 1) {
	case 0:
		return g.numRecipe()
	case 1:
		return &ValRecipe{K: "bool", V: fmt.Sprint(g.intn(2) == 1)}
	case 2:
		return &ValRecipe{K: "string", V: g.String()}
	case 3:
		return &ValRecipe{K: "char", V: pick(g, characterPool)}
	case 4:
		a := g.Address()
		return &ValRecipe{K: "address", Addr: hex.EncodeToString(a[:])}
	case 5:
		return g.pathRecipe()
	case 6:
		return g.capRecipe(2)
	case 7:
		a := g.Address()
		return &ValRecipe{K: "published", Addr: hex.EncodeToString(a[:]), Inner: g.capRecipe(2)}
	case 8:
		return &ValRecipe{K: "scc", ID: g.u64(), Type: g.RefTypeRecipe(2), Path: g.pathRecipe()}
	case 9:
		return &ValRecipe{K: "acc", ID: g.u64(), Type: g.RefTypeRecipe(2)}
	case 10:
		if g.chance(1, 12) {
			return &ValRecipe{K: "type"}
		}
		return &ValRecipe{K: "type", Type: g.TypeRecipe(3)}
	case 11:
		if d <= 0 {
			return &ValRecipe{K: "some", Inner: g.numRecipe()}
		}
		return &ValRecipe{K: "some", Inner: g.ValRecipe(d - 1)}
	default:
		if g.chance(1, 2) {
			return &ValRecipe{K: "nil"}
		}
		return &ValRecipe{K: "void"}
	}
}

// TypeRecipeFeatures / ValRecipeFeatures: kinds used (for class histograms).
func TypeRecipeFeatures(t *TypeRecipe, out map[string]bool) {
	if t == nil {
		out["type:nil"] = true
		return
	}
	out["type:"+t.K] = true
	if t.Loc != nil {
		out["loc:"+t.Loc.K] = true
	} else if t.K == "comp" || t.K == "iface" {
		out["loc:none"] = true
	}
	if t.Auth != nil {
		out["auth:"+t.Auth.K] = true
	}
	TypeRecipeFeaturesIf(t.Elem, out)
	TypeRecipeFeaturesIf(t.Key, out)
	for _, m := range t.Types {
		TypeRecipeFeatures(m, out)
	}
}

// TypeRecipeFeaturesIf is TypeRecipeFeatures for optional parts.
func TypeRecipeFeaturesIf(t *TypeRecipe, out map[string]bool) {
	if t != nil {
		TypeRecipeFeatures(t, out)
	}
}

// ValRecipeFeatures collects the kinds used by a value recipe.
func ValRecipeFeatures(v *ValRecipe, out map[string]bool) {
	if v == nil {
		return
	}
	out["value:"+v.K] = true
	if v.K == "num" {
		out["num:"+v.T] = true
	}
	if v.Type != nil {
		TypeRecipeFeatures(v.Type, out)
	}
	ValRecipeFeatures(v.Inner, out)
	ValRecipeFeatures(v.Path, out)
}

// SortedKeys of a feature set.
func SortedKeys(m map[string]bool) []string {
	out := make([]string, 0, len(m))
	for k := range m {
		out = append(out, k)
	}
	sort.Strings(out)
	return out
}
