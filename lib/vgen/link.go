package vgen

import (
	_ "unsafe"

	"github.com/onflow/cadence"
)

// The ordered field lists of composite values and types are unexported in the
// cadence package; cadence exposes them to its codecs through linkname'd
// accessors ("linked in by packages that need access"). The harness uses the
// same accessors: they are plain getters/setters, not codec logic.

//go:linkname getCompositeFieldValues github.com/onflow/cadence.getCompositeFieldValues
func getCompositeFieldValues(cadence.Composite) []cadence.Value

//go:linkname getCompositeTypeFields github.com/onflow/cadence.getCompositeTypeFields
func getCompositeTypeFields(cadence.CompositeType) []cadence.Field

//go:linkname getInterfaceTypeFields github.com/onflow/cadence.getInterfaceTypeFields
func getInterfaceTypeFields(cadence.InterfaceType) []cadence.Field

// FieldValues returns the ordered field values of a composite value (attachment
// values, if any, follow the declared fields).
func FieldValues(c cadence.Composite) []cadence.Value { return getCompositeFieldValues(c) }

// TypeFields returns the ordered declared fields of a composite type.
func TypeFields(t cadence.CompositeType) []cadence.Field {
	if isNilPtr(t) {
		return nil
	}
	return getCompositeTypeFields(t)
}

// InterfaceFields returns the ordered declared fields of an interface type.
func InterfaceFields(t cadence.InterfaceType) []cadence.Field {
	if isNilPtr(t) {
		return nil
	}
	return getInterfaceTypeFields(t)
}

// CompositeTypeOf returns the composite type of a composite value (nil when the
// value carries none).
func CompositeTypeOf(c cadence.Composite) cadence.CompositeType {
	switch v := c.(type) {
	case cadence.Struct:
		if v.StructType != nil {
			return v.StructType
		}
	case cadence.Resource:
		if v.ResourceType != nil {
			return v.ResourceType
		}
	case cadence.Event:
		if v.EventType != nil {
			return v.EventType
		}
	case cadence.Contract:
		if v.ContractType != nil {
			return v.ContractType
		}
	case cadence.Enum:
		if v.EnumType != nil {
			return v.EnumType
		}
	case cadence.Attachment:
		if v.AttachmentType != nil {
			return v.AttachmentType
		}
	}
	return nil
}

func isNilPtr(t any) bool {
	switch x := t.(type) {
	case nil:
		return true
	case *cadence.StructType:
		return x == nil
	case *cadence.ResourceType:
		return x == nil
	case *cadence.EventType:
		return x == nil
	case *cadence.ContractType:
		return x == nil
	case *cadence.EnumType:
		return x == nil
	case *cadence.AttachmentType:
		return x == nil
	case *cadence.StructInterfaceType:
		return x == nil
	case *cadence.ResourceInterfaceType:
		return x == nil
	case *cadence.ContractInterfaceType:
		return x == nil
	}
	return false
}

// NewCompositeType builds a composite type of the given kind.
func NewCompositeType(kind Kind, loc cadenceLocation, qid string, fields []cadence.Field, inits [][]cadence.Parameter, extra cadence.Type) cadence.CompositeType {
	switch kind {
	case KStruct:
		return cadence.NewStructType(loc, qid, fields, inits)
	case KResource:
		return cadence.NewResourceType(loc, qid, fields, inits)
	case KEvent:
		var init []cadence.Parameter
		if len(inits) > 0 {
			init = inits[0]
		}
		return cadence.NewEventType(loc, qid, fields, init)
	case KContract:
		return cadence.NewContractType(loc, qid, fields, inits)
	case KEnum:
		return cadence.NewEnumType(loc, qid, extra, fields, inits)
	case KAttachment:
		return cadence.NewAttachmentType(loc, qid, extra, fields, inits)
	}
	panic("vgen: not a composite kind")
}

// NewComposite builds a composite value of the type's kind.
func NewComposite(t cadence.CompositeType, fields []cadence.Value) cadence.Value {
	switch t := t.(type) {
	case *cadence.StructType:
		return cadence.NewStruct(fields).WithType(t)
	case *cadence.ResourceType:
		return cadence.NewResource(fields).WithType(t)
	case *cadence.EventType:
		return cadence.NewEvent(fields).WithType(t)
	case *cadence.ContractType:
		return cadence.NewContract(fields).WithType(t)
	case *cadence.EnumType:
		return cadence.NewEnum(fields).WithType(t)
	case *cadence.AttachmentType:
		return cadence.NewAttachment(fields).WithType(t)
	}
	panic("vgen: unknown composite type")
}
