package vgen

import (
	"fmt"
	"sort"
	"strings"

	"github.com/onflow/cadence"
	"github.com/onflow/cadence/common"
)

// Permute returns a deep copy of v in which everything that is semantically
// unordered has been shuffled: dictionary entries, the members of intersection
// types, the entitlements of entitlement sets, and the declared field order of
// composite and interface types (the field values of composite values follow
// their fields). The copy denotes the same Cadence value.
func (g *G) Permute(v cadence.Value) cadence.Value {
	p := &permuter{g: g, types: map[cadence.Type]cadence.Type{}, perms: map[cadence.Type][]int{}}
	return p.value(v)
}

type permuter struct {
	g     *G
	types map[cadence.Type]cadence.Type
	perms map[cadence.Type][]int // new composite type -> (new index -> old index)
	byKey map[string]cadence.Type
}

func (p *permuter) value(v cadence.Value) cadence.Value {
	switch x := v.(type) {
	case nil:
		return nil
	case cadence.Optional:
		return cadence.NewOptional(p.value(x.Value))
	case cadence.Array:
		vs := make([]cadence.Value, len(x.Values))
		for i, e := range x.Values {
			vs[i] = p.value(e)
		}
		out := cadence.NewArray(vs)
		if x.ArrayType != nil {
			out = out.WithType(p.typ(x.ArrayType).(cadence.ArrayType))
		}
		return out
	case cadence.Dictionary:
		ps := make([]cadence.KeyValuePair, len(x.Pairs))
		for i, j := range p.g.perm(len(x.Pairs)) {
			ps[i] = cadence.KeyValuePair{Key: p.value(x.Pairs[j].Key), Value: p.value(x.Pairs[j].Value)}
		}
		out := cadence.NewDictionary(ps)
		if x.DictionaryType != nil {
			out = out.WithType(p.typ(x.DictionaryType).(*cadence.DictionaryType))
		}
		return out
	case *cadence.InclusiveRange:
		out := cadence.NewInclusiveRange(p.value(x.Start), p.value(x.End), p.value(x.Step))
		if x.InclusiveRangeType != nil {
			out = out.WithType(p.typ(x.InclusiveRangeType).(*cadence.InclusiveRangeType))
		}
		return out
	case cadence.Composite:
		t := CompositeTypeOf(x)
		if t == nil {
			return v
		}
		nt := p.typ(t).(cadence.CompositeType)
		perm := p.perms[nt]
		vals := FieldValues(x)
		vs := make([]cadence.Value, len(vals))
		for i := range vals {
			j := i
			if i < len(perm) {
				j = perm[i]
			}
			vs[i] = p.value(vals[j])
		}
		return NewComposite(nt, vs)
	case cadence.TypeValue:
		return cadence.NewTypeValue(p.typ(x.StaticType))
	case cadence.Function:
		if x.FunctionType == nil {
			return v
		}
		return cadence.NewFunction(p.typ(x.FunctionType).(*cadence.FunctionType))
	case cadence.Capability:
		c := x
		c.BorrowType = p.typ(x.BorrowType)
		return c
	}
	return v
}

func (p *permuter) params(ps []cadence.Parameter) []cadence.Parameter {
	if ps == nil {
		return nil
	}
	out := make([]cadence.Parameter, len(ps))
	for i, q := range ps {
		out[i] = cadence.Parameter{Label: q.Label, Identifier: q.Identifier, Type: p.typ(q.Type)}
	}
	return out
}

func (p *permuter) inits(is [][]cadence.Parameter) [][]cadence.Parameter {
	if is == nil {
		return nil
	}
	out := make([][]cadence.Parameter, len(is))
	for i, ps := range is {
		out[i] = p.params(ps)
	}
	return out
}

// typ permutes a type. Structurally equal types (as sets) get the *same*
// permuted instance, so that the static type of a position and the type carried
// by the value in it stay consistent (an encoder writes only one of them).
func (p *permuter) typ(t cadence.Type) cadence.Type {
	if isNilType(t) {
		return nil
	}
	switch t.(type) {
	case cadence.CompositeType, cadence.InterfaceType, cadence.PrimitiveType:
		return p.typ1(t)
	}
	if p.byKey == nil {
		p.byKey = map[string]cadence.Type{}
	}
	key := CanonKey(t)
	if nt, ok := p.byKey[key]; ok {
		return nt
	}
	nt := p.typ1(t)
	p.byKey[key] = nt
	return nt
}

// CanonKey is an injective rendering of a type up to the order of set members
// (intersection members, entitlements); nominal types are rendered by kind and
// type ID, parameter labels and identifiers are included.
func CanonKey(t cadence.Type) string {
	if isNilType(t) {
		return "<nil>"
	}
	switch x := t.(type) {
	case *cadence.OptionalType:
		return "(" + CanonKey(x.Type) + ")?"
	case *cadence.VariableSizedArrayType:
		return "[" + CanonKey(x.ElementType) + "]"
	case *cadence.ConstantSizedArrayType:
		return fmt.Sprintf("[%s;%d]", CanonKey(x.ElementType), x.Size)
	case *cadence.DictionaryType:
		return "{" + CanonKey(x.KeyType) + ":" + CanonKey(x.ElementType) + "}"
	case *cadence.InclusiveRangeType:
		return "Range<" + CanonKey(x.ElementType) + ">"
	case *cadence.CapabilityType:
		return "Cap<" + CanonKey(x.BorrowType) + ">"
	case *cadence.ReferenceType:
		auth := "unauth"
		switch a := x.Authorization.(type) {
		case cadence.EntitlementMapAuthorization:
			auth = "map:" + string(a.TypeID)
		case *cadence.EntitlementSetAuthorization:
			ids := make([]string, len(a.Entitlements))
			for i, e := range a.Entitlements {
				ids[i] = string(e)
			}
			sort.Strings(ids)
			auth = fmt.Sprintf("set%d:%s", a.Kind, strings.Join(ids, ","))
		}
		return "&(" + auth + ")" + CanonKey(x.Type)
	case *cadence.IntersectionType:
		ms := make([]string, len(x.Types))
		for i, m := range x.Types {
			ms[i] = CanonKey(m)
		}
		sort.Strings(ms)
		return "{" + strings.Join(ms, "&") + "}"
	case *cadence.FunctionType:
		var sb strings.Builder
		fmt.Fprintf(&sb, "fun%d<", x.Purity)
		for _, tp := range x.TypeParameters {
			sb.WriteString(tp.Name + ":" + CanonKey(tp.TypeBound) + ",")
		}
		sb.WriteString(">(")
		for _, q := range x.Parameters {
			fmt.Fprintf(&sb, "%q %q %s,", q.Label, q.Identifier, CanonKey(q.Type))
		}
		sb.WriteString("):" + CanonKey(x.ReturnType))
		return sb.String()
	}
	return fmt.Sprintf("%T:%s", t, t.ID())
}

func (p *permuter) typ1(t cadence.Type) cadence.Type {
	switch x := t.(type) {
	case *cadence.OptionalType:
		return cadence.NewOptionalType(p.typ(x.Type))
	case *cadence.VariableSizedArrayType:
		return cadence.NewVariableSizedArrayType(p.typ(x.ElementType))
	case *cadence.ConstantSizedArrayType:
		return cadence.NewConstantSizedArrayType(x.Size, p.typ(x.ElementType))
	case *cadence.DictionaryType:
		return cadence.NewDictionaryType(p.typ(x.KeyType), p.typ(x.ElementType))
	case *cadence.InclusiveRangeType:
		return cadence.NewInclusiveRangeType(p.typ(x.ElementType))
	case *cadence.CapabilityType:
		return cadence.NewCapabilityType(p.typ(x.BorrowType))
	case *cadence.ReferenceType:
		auth := x.Authorization
		if s, ok := auth.(*cadence.EntitlementSetAuthorization); ok {
			ids := make([]common.TypeID, len(s.Entitlements))
			for i, j := range p.g.perm(len(ids)) {
				ids[i] = s.Entitlements[j]
			}
			auth = cadence.NewEntitlementSetAuthorization(nil, ids, s.Kind)
		}
		return cadence.NewReferenceType(auth, p.typ(x.Type))
	case *cadence.IntersectionType:
		ts := make([]cadence.Type, len(x.Types))
		for i, j := range p.g.perm(len(ts)) {
			ts[i] = p.typ(x.Types[j])
		}
		return cadence.NewIntersectionType(ts)
	case *cadence.FunctionType:
		tps := make([]cadence.TypeParameter, len(x.TypeParameters))
		for i, tp := range x.TypeParameters {
			tps[i] = cadence.TypeParameter{Name: tp.Name, TypeBound: p.typ(tp.TypeBound)}
		}
		if x.TypeParameters == nil {
			tps = nil
		}
		return cadence.NewFunctionType(x.Purity, tps, p.params(x.Parameters), p.typ(x.ReturnType))
	case cadence.CompositeType:
		if nt, ok := p.types[t]; ok {
			return nt
		}
		kind, _ := KindOf(t)
		nt := NewCompositeType(kind, x.CompositeTypeLocation(), x.CompositeTypeQualifiedIdentifier(), nil, nil, nil)
		p.types[t] = nt
		fields := TypeFields(x)
		perm := p.g.perm(len(fields))
		nf := make([]cadence.Field, len(fields))
		for i, j := range perm {
			nf[i] = cadence.Field{Identifier: fields[j].Identifier, Type: p.typ(fields[j].Type)}
		}
		if fields == nil {
			nf = nil
		}
		setCompositeTypeFields(nt, nf)
		p.perms[nt] = perm
		inits := p.inits(x.CompositeInitializers())
		switch n := nt.(type) {
		case *cadence.StructType:
			n.Initializers = inits
		case *cadence.ResourceType:
			n.Initializers = inits
		case *cadence.ContractType:
			n.Initializers = inits
		case *cadence.EventType:
			n.Initializer = p.params(t.(*cadence.EventType).Initializer)
		case *cadence.EnumType:
			n.Initializers = inits
			n.RawType = p.typ(t.(*cadence.EnumType).RawType)
		case *cadence.AttachmentType:
			n.Initializers = inits
			n.BaseType = p.typ(t.(*cadence.AttachmentType).BaseType)
		}
		return nt
	case cadence.InterfaceType:
		if nt, ok := p.types[t]; ok {
			return nt
		}
		var nt cadence.InterfaceType
		switch t.(type) {
		case *cadence.StructInterfaceType:
			nt = cadence.NewStructInterfaceType(x.InterfaceTypeLocation(), x.InterfaceTypeQualifiedIdentifier(), nil, nil)
		case *cadence.ResourceInterfaceType:
			nt = cadence.NewResourceInterfaceType(x.InterfaceTypeLocation(), x.InterfaceTypeQualifiedIdentifier(), nil, nil)
		default:
			nt = cadence.NewContractInterfaceType(x.InterfaceTypeLocation(), x.InterfaceTypeQualifiedIdentifier(), nil, nil)
		}
		p.types[t] = nt
		fields := InterfaceFields(x)
		nf := make([]cadence.Field, len(fields))
		for i, j := range p.g.perm(len(fields)) {
			nf[i] = cadence.Field{Identifier: fields[j].Identifier, Type: p.typ(fields[j].Type)}
		}
		if fields == nil {
			nf = nil
		}
		setInterfaceTypeFields(nt, nf)
		inits := p.inits(x.InterfaceInitializers())
		switch n := nt.(type) {
		case *cadence.StructInterfaceType:
			n.Initializers = inits
		case *cadence.ResourceInterfaceType:
			n.Initializers = inits
		case *cadence.ContractInterfaceType:
			n.Initializers = inits
		}
		return nt
	}
	return t
}

// OrderIssues reports which order-sensitive parts of the types reachable from v
// are NOT in CCF's bytewise order (as they would be written by a non-sorting
// encoder): "fields", "intersection", "entitlements".
func OrderIssues(v cadence.Value) map[string]bool {
	out := map[string]bool{}
	seen := map[cadence.Type]bool{}
	seenTV := map[cadence.Type]bool{}
	var typ func(t cadence.Type, typeValue bool)
	fields := func(fs []cadence.Field, typeValue bool) {
		for i := range fs {
			if i > 0 && !BytewiseLess(fs[i-1].Identifier, fs[i].Identifier) {
				out["fields"] = true
			}
			typ(fs[i].Type, typeValue)
		}
	}
	typ = func(t cadence.Type, typeValue bool) {
		if isNilType(t) {
			return
		}
		switch x := t.(type) {
		case *cadence.OptionalType:
			typ(x.Type, typeValue)
		case *cadence.VariableSizedArrayType:
			typ(x.ElementType, typeValue)
		case *cadence.ConstantSizedArrayType:
			typ(x.ElementType, typeValue)
		case *cadence.DictionaryType:
			typ(x.KeyType, typeValue)
			typ(x.ElementType, typeValue)
		case *cadence.InclusiveRangeType:
			typ(x.ElementType, typeValue)
		case *cadence.CapabilityType:
			typ(x.BorrowType, typeValue)
		case *cadence.ReferenceType:
			if s, ok := x.Authorization.(*cadence.EntitlementSetAuthorization); ok {
				for i := 1; i < len(s.Entitlements); i++ {
					if !BytewiseLess(string(s.Entitlements[i-1]), string(s.Entitlements[i])) {
						out["entitlements"] = true
					}
				}
			}
			typ(x.Type, typeValue)
		case *cadence.IntersectionType:
			for i, m := range x.Types {
				if i > 0 && !BytewiseLess(x.Types[i-1].ID(), m.ID()) {
					out["intersection"] = true
				}
				typ(m, typeValue)
			}
		case *cadence.FunctionType:
			for _, tp := range x.TypeParameters {
				typ(tp.TypeBound, true)
			}
			for _, q := range x.Parameters {
				typ(q.Type, true)
			}
			typ(x.ReturnType, true)
		case cadence.CompositeType:
			key := cadence.Type(x)
			if seen[key] && !typeValue {
				return
			}
			if typeValue {
				// type values are self-contained: track separately
				if seenTV[key] {
					return
				}
				seenTV[key] = true
			} else {
				seen[key] = true
			}
			fields(TypeFields(x), typeValue)
			if typeValue {
				for _, ps := range x.CompositeInitializers() {
					for _, q := range ps {
						typ(q.Type, true)
					}
				}
				switch y := t.(type) {
				case *cadence.EnumType:
					typ(y.RawType, true)
				case *cadence.AttachmentType:
					typ(y.BaseType, true)
				}
			}
		case cadence.InterfaceType:
			if !typeValue {
				return // interface types carry no members in value positions
			}
			if seenTV[t] {
				return
			}
			seenTV[t] = true
			fields(InterfaceFields(x), true)
			for _, ps := range x.InterfaceInitializers() {
				for _, q := range ps {
					typ(q.Type, true)
				}
			}
		}
	}
	var val func(v cadence.Value)
	val = func(v cadence.Value) {
		switch x := v.(type) {
		case cadence.Optional:
			if x.Value != nil {
				val(x.Value)
			}
		case cadence.Array:
			typ(x.ArrayType, false)
			for _, e := range x.Values {
				val(e)
			}
		case cadence.Dictionary:
			if x.DictionaryType != nil {
				typ(x.DictionaryType, false)
			}
			for _, p := range x.Pairs {
				val(p.Key)
				val(p.Value)
			}
		case *cadence.InclusiveRange:
			if x.InclusiveRangeType != nil {
				typ(x.InclusiveRangeType, false)
			}
		case cadence.Composite:
			if t := CompositeTypeOf(x); t != nil {
				typ(t, false)
			}
			for _, f := range FieldValues(x) {
				val(f)
			}
		case cadence.TypeValue:
			typ(x.StaticType, true)
		case cadence.Function:
			if x.FunctionType != nil {
				typ(x.FunctionType, true)
			}
		case cadence.Capability:
			typ(x.BorrowType, false)
		}
	}
	val(v)
	return out
}
