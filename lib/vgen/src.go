// Package vgen is the harness's typed recursive generator of cadence.Type and
// cadence.Value (DESIGN §3.3), together with an own structural equality /
// erasure for exported values, permutations of order-insensitive parts, a
// declarable type universe with Cadence source for entry-point arguments, and
// a recipe DSL for storable interpreter values and static types (C44).
//
// It is self-contained: it does not use cadence's codecs, and everything it
// draws comes from a Src (a seeded PRNG or a rapid *T), so generation is a pure
// function of the source.
package vgen

import (
	"math/rand"

	"pgregory.net/rapid"
)

// Src is the source of all random choices.
type Src interface {
	// Intn returns a number in [0, n); n > 0. Smaller numbers must mean
	// "simpler" choices so that rapid's shrinking simplifies values.
	Intn(n int) int
	Uint64() uint64
}

type randSrc struct{ r *rand.Rand }

func (s randSrc) Intn(n int) int { return s.r.Intn(n) }
func (s randSrc) Uint64() uint64 { return s.r.Uint64() }

// FromRand adapts a seeded PRNG.
func FromRand(r *rand.Rand) Src { return randSrc{r} }

type rapidSrc struct{ t *rapid.T }

func (s rapidSrc) Intn(n int) int {
	if n <= 1 {
		return 0
	}
	return rapid.IntRange(0, n-1).Draw(s.t, "i")
}
func (s rapidSrc) Uint64() uint64 { return rapid.Uint64().Draw(s.t, "u") }

// FromRapid adapts a rapid test case (choices shrink towards 0).
func FromRapid(t *rapid.T) Src { return rapidSrc{t} }

// ---- small helpers on G ---------------------------------------------------------

func (g *G) intn(n int) int { return g.S.Intn(n) }

// chance is true with probability num/den.
func (g *G) chance(num, den int) bool { return g.S.Intn(den) >= den-num }

// weighted picks an index with the given weights (index 0 is the "simplest").
func (g *G) weighted(w ...int) int {
	tot := 0
	for _, x := range w {
		tot += x
	}
	k := g.S.Intn(tot)
	for i, x := range w {
		if k < x {
			return i
		}
		k -= x
	}
	return len(w) - 1
}

func pick[T any](g *G, xs []T) T { return xs[g.S.Intn(len(xs))] }

func (g *G) bytes(n int) []byte {
	b := make([]byte, n)
	for i := 0; i < n; i += 8 {
		u := g.S.Uint64()
		for j := 0; j < 8 && i+j < n; j++ {
			b[i+j] = byte(u >> (8 * j))
		}
	}
	return b
}

// perm returns a permutation of 0..n-1.
func (g *G) perm(n int) []int {
	p := make([]int, n)
	for i := range p {
		p[i] = i
	}
	for i := n - 1; i > 0; i-- {
		j := g.S.Intn(i + 1)
		p[i], p[j] = p[j], p[i]
	}
	return p
}
