package vgen

import (
	"fmt"
	"math"
	_ "unsafe"

	"github.com/onflow/cadence"
	"github.com/onflow/cadence/common"
	"github.com/onflow/cadence/interpreter"
)

type cadenceLocation = common.Location

//go:linkname setCompositeTypeFields github.com/onflow/cadence.setCompositeTypeFields
func setCompositeTypeFields(cadence.CompositeType, []cadence.Field)

//go:linkname setInterfaceTypeFields github.com/onflow/cadence.setInterfaceTypeFields
func setInterfaceTypeFields(cadence.InterfaceType, []cadence.Field)

// Kind of a nominal type.
type Kind int

const (
	KStruct Kind = iota
	KResource
	KEvent
	KContract
	KEnum
	KAttachment
	KStructInterface
	KResourceInterface
	KContractInterface
)

func (k Kind) String() string {
	return [...]string{"struct", "resource", "event", "contract", "enum", "attachment",
		"struct-interface", "resource-interface", "contract-interface"}[k]
}

// KindOf returns the kind of a nominal type.
func KindOf(t cadence.Type) (Kind, bool) {
	switch t.(type) {
	case *cadence.StructType:
		return KStruct, true
	case *cadence.ResourceType:
		return KResource, true
	case *cadence.EventType:
		return KEvent, true
	case *cadence.ContractType:
		return KContract, true
	case *cadence.EnumType:
		return KEnum, true
	case *cadence.AttachmentType:
		return KAttachment, true
	case *cadence.StructInterfaceType:
		return KStructInterface, true
	case *cadence.ResourceInterfaceType:
		return KResourceInterface, true
	case *cadence.ContractInterfaceType:
		return KContractInterface, true
	}
	return 0, false
}

// Config steers the generator.
type Config struct {
	// MaxDepth is the nesting budget of values and types (default 4).
	MaxDepth int
	// NoAttachmentValues suppresses cadence.Attachment values (top level and as
	// extra field values of composites).
	NoAttachmentValues bool
	// NoFunctionValues suppresses cadence.Function values.
	NoFunctionValues bool
	// SmallConstSizes limits the size of constant-sized array *types* (also
	// those only appearing inside type values) to small numbers.
	SmallConstSizes bool
	// NoUnboundedTypeParameters gives every type parameter a bound.
	NoUnboundedTypeParameters bool
}

// G is a generator instance over one source and one universe.
type G struct {
	S   Src
	U   *Universe
	Cfg Config
}

// New creates a generator with a freshly drawn universe.
func New(s Src, cfg Config) *G {
	if cfg.MaxDepth == 0 {
		cfg.MaxDepth = 4
	}
	g := &G{S: s, Cfg: cfg}
	g.U = g.newUniverse()
	return g
}

// Universe is the set of nominal types (and entitlements) values and types are
// drawn over. Type IDs are unique within a universe.
type Universe struct {
	Locations    []common.Location
	Composites   []cadence.CompositeType
	Interfaces   []cadence.InterfaceType
	Entitlements []common.TypeID
	Mappings     []common.TypeID
}

// ---- primitive types ------------------------------------------------------------

// AllPrimitives is every defined, non-deprecated primitive type (the same set
// cadence offers as cadence.PrimitiveType constants), without the deprecated
// untyped capability primitive.
var AllPrimitives = func() []cadence.PrimitiveType {
	var out []cadence.PrimitiveType
	for ty := interpreter.PrimitiveStaticType(1); ty < interpreter.PrimitiveStaticType_Count; ty++ {
		if !ty.IsDefined() || ty.IsDeprecated() { //nolint:staticcheck
			continue
		}
		if ty == interpreter.PrimitiveStaticTypeCapability { //nolint:staticcheck
			continue
		}
		if ty == interpreter.PrimitiveStaticTypeInvalid {
			continue // not a type a program can denote (no cadence.PrimitiveType constant exists for it)
		}
		out = append(out, cadence.PrimitiveType(ty))
	}
	return out
}()

// IntegerTypes, FixedTypes: the concrete numeric types.
var (
	SignedIntegerTypes = []cadence.PrimitiveType{cadence.IntType, cadence.Int8Type, cadence.Int16Type, cadence.Int32Type,
		cadence.Int64Type, cadence.Int128Type, cadence.Int256Type}
	UnsignedIntegerTypes = []cadence.PrimitiveType{cadence.UIntType, cadence.UInt8Type, cadence.UInt16Type, cadence.UInt32Type,
		cadence.UInt64Type, cadence.UInt128Type, cadence.UInt256Type}
	WordTypes = []cadence.PrimitiveType{cadence.Word8Type, cadence.Word16Type, cadence.Word32Type, cadence.Word64Type,
		cadence.Word128Type, cadence.Word256Type}
	SignedFixedTypes   = []cadence.PrimitiveType{cadence.Fix64Type, cadence.Fix128Type}
	UnsignedFixedTypes = []cadence.PrimitiveType{cadence.UFix64Type, cadence.UFix128Type}
	IntegerTypes       = concat(SignedIntegerTypes, UnsignedIntegerTypes, WordTypes)
	FixedTypes         = concat(SignedFixedTypes, UnsignedFixedTypes)
	NumberTypes        = concat(IntegerTypes, FixedTypes)
	// FixedSizeUnsigned: the subtypes of FixedSizeUnsignedInteger.
	FixedSizeUnsignedTypes = concat(UnsignedIntegerTypes[1:], WordTypes)
	PathTypes              = []cadence.PrimitiveType{cadence.StoragePathType, cadence.PublicPathType, cadence.PrivatePathType}
	// SimpleValueTypes are the concrete primitive types that have exported values.
	SimpleValueTypes = concat([]cadence.PrimitiveType{cadence.BoolType, cadence.StringType, cadence.CharacterType,
		cadence.AddressType, cadence.VoidType, cadence.MetaType}, NumberTypes, PathTypes)
	// HashableSimpleTypes can be dictionary keys.
	HashableSimpleTypes = concat([]cadence.PrimitiveType{cadence.BoolType, cadence.StringType, cadence.CharacterType,
		cadence.AddressType, cadence.MetaType}, NumberTypes, PathTypes)
	// AbstractTypes are supertypes usable as the static type of a value position.
	AbstractTypes = []cadence.PrimitiveType{cadence.AnyStructType, cadence.HashableStructType, cadence.NumberType,
		cadence.SignedNumberType, cadence.IntegerType, cadence.SignedIntegerType, cadence.FixedSizeUnsignedIntegerType,
		cadence.FixedPointType, cadence.SignedFixedPointType, cadence.PathType, cadence.CapabilityPathType}
)

func concat[T any](xs ...[]T) []T {
	var out []T
	for _, x := range xs {
		out = append(out, x...)
	}
	return out
}

func isOneOf(t cadence.Type, set []cadence.PrimitiveType) bool {
	p, ok := t.(cadence.PrimitiveType)
	if !ok {
		return false
	}
	for _, s := range set {
		if s == p {
			return true
		}
	}
	return false
}

// ---- identifiers, locations -----------------------------------------------------------

// identPool mixes lengths and prefixes so that "bytewise" (length-first) and
// plain lexical order disagree.
var identPool = []string{"a", "b", "x", "aa", "ab", "ba", "z", "foo", "bar", "Bar", "_q", "a1", "B", "count", "id", "owner",
	"balance", "zz", "abc", "y", "value", "data", "c", "bb", "k9", "A", "aaa", "élan", "Z_", "n"}

func (g *G) ident() string {
	if g.chance(1, 30) {
		return pick(g, identPool) + pick(g, identPool) + fmt.Sprint(g.intn(100))
	}
	return pick(g, identPool)
}

// distinctIdents returns n distinct identifiers.
func (g *G) distinctIdents(n int) []string {
	out := make([]string, 0, n)
	seen := map[string]bool{}
	for len(out) < n {
		s := g.ident()
		for seen[s] {
			s += pick(g, identPool)
		}
		seen[s] = true
		out = append(out, s)
	}
	return out
}

// Address draws an address biased to leading zeros and boundary bytes.
func (g *G) Address() common.Address {
	var a common.Address
	switch g.weighted(4, 2, 2, 1, 1) {
	case 0:
		a[7] = byte(1 + g.intn(4))
	case 1:
		copy(a[:], g.bytes(8))
	case 2:
		k := g.intn(8)
		copy(a[k:], g.bytes(8-k))
	case 3:
		// zero address
	case 4:
		for i := range a {
			a[i] = 0xff
		}
	}
	return a
}

var contractNames = []string{"C", "D", "Token", "c0", "FT"}
var stringLocs = []string{"test", "lib", "x", "imported_file"}

func (g *G) location() (loc common.Location, prefix string) {
	switch g.weighted(6, 2, 1, 1, 1) {
	case 0:
		name := pick(g, contractNames)
		return common.AddressLocation{Address: g.Address(), Name: name}, name + "."
	case 1:
		return common.StringLocation(pick(g, stringLocs)), ""
	case 2:
		return common.IdentifierLocation(pick(g, stringLocs)), ""
	case 3:
		var l common.TransactionLocation
		copy(l[:], g.bytes(len(l)))
		return l, ""
	default:
		var l common.ScriptLocation
		copy(l[:], g.bytes(len(l)))
		return l, ""
	}
}

var typeNames = []string{"S", "R", "T", "Foo", "Vault", "E", "Ev", "I", "K", "NFT", "Aa", "B", "Zed", "Ab"}

// ---- universe ----------------------------------------------------------------------------

func (g *G) newUniverse() *Universe {
	u := &Universe{}
	g.U = u
	nLoc := 1 + g.weighted(5, 3, 1)
	prefixes := make([]string, nLoc)
	for i := 0; i < nLoc; i++ {
		l, p := g.location()
		u.Locations = append(u.Locations, l)
		prefixes[i] = p
	}
	used := map[string]bool{}
	qid := func(li int) string {
		for {
			q := prefixes[li]
			if prefixes[li] == "" && g.chance(1, 4) {
				q = pick(g, contractNames) + "."
			} else if g.chance(1, 8) {
				q += pick(g, typeNames) + "."
			}
			q += pick(g, typeNames)
			if used[fmt.Sprint(li, q)] {
				q += fmt.Sprint(len(used))
			}
			id := string(common.NewTypeIDFromQualifiedName(nil, u.Locations[li], q))
			if !used[id] {
				used[id] = true
				used[fmt.Sprint(li, q)] = true
				return q
			}
		}
	}
	// shells
	nComp := 1 + g.weighted(2, 3, 3, 2, 1)
	for i := 0; i < nComp; i++ {
		li := g.intn(nLoc)
		kind := Kind(g.weighted(6, 2, 2, 1, 2, 1))
		u.Composites = append(u.Composites, NewCompositeType(kind, u.Locations[li], qid(li), nil, nil, nil))
	}
	nIface := g.weighted(1, 2, 3, 2)
	for i := 0; i < nIface; i++ {
		li := g.intn(nLoc)
		var it cadence.InterfaceType
		switch g.weighted(4, 3, 1) {
		case 0:
			it = cadence.NewStructInterfaceType(u.Locations[li], qid(li), nil, nil)
		case 1:
			it = cadence.NewResourceInterfaceType(u.Locations[li], qid(li), nil, nil)
		default:
			it = cadence.NewContractInterfaceType(u.Locations[li], qid(li), nil, nil)
		}
		u.Interfaces = append(u.Interfaces, it)
	}
	nEnt := g.weighted(1, 1, 2, 2, 1)
	entNames := g.distinctIdents(nEnt)
	for i := 0; i < nEnt; i++ {
		li := g.intn(nLoc)
		u.Entitlements = append(u.Entitlements, common.NewTypeIDFromQualifiedName(nil, u.Locations[li], prefixes[li]+"E"+entNames[i]))
	}
	for i := 0; i < g.weighted(2, 2, 1); i++ {
		li := g.intn(nLoc)
		u.Mappings = append(u.Mappings, common.NewTypeIDFromQualifiedName(nil, u.Locations[li], prefixes[li]+fmt.Sprintf("M%d", i)))
	}
	// members
	for i, ct := range u.Composites {
		var fields []cadence.Field
		kind, _ := KindOf(ct)
		if kind == KEnum {
			raw := cadence.Type(pick(g, IntegerTypes))
			ct.(*cadence.EnumType).RawType = raw
			fields = []cadence.Field{{Identifier: "rawValue", Type: raw}}
		} else {
			n := g.weighted(1, 4, 4, 3, 1)
			names := g.distinctIdents(n)
			for k := 0; k < n; k++ {
				fields = append(fields, cadence.Field{Identifier: names[k], Type: g.valueType(g.Cfg.MaxDepth-1, i)})
			}
		}
		if kind == KAttachment {
			switch g.weighted(2, 1, 2) {
			case 0:
				ct.(*cadence.AttachmentType).BaseType = cadence.AnyStructType
			case 1:
				ct.(*cadence.AttachmentType).BaseType = cadence.AnyResourceType
			default:
				// a struct or resource of the universe, if there is one
				base := cadence.Type(cadence.AnyStructType)
				for _, k := range g.perm(len(u.Composites)) {
					switch u.Composites[k].(type) {
					case *cadence.StructType, *cadence.ResourceType:
						base = u.Composites[k]
					}
				}
				ct.(*cadence.AttachmentType).BaseType = base
			}
		}
		setCompositeTypeFields(ct, fields)
		g.setInitializers(ct, fields)
	}
	for _, it := range u.Interfaces {
		n := g.weighted(3, 2, 1)
		names := g.distinctIdents(n)
		var fields []cadence.Field
		for k := 0; k < n; k++ {
			fields = append(fields, cadence.Field{Identifier: names[k], Type: g.valueType(2, len(u.Composites))})
		}
		setInterfaceTypeFields(it, fields)
		inits := g.initializers(nil)
		switch it := it.(type) {
		case *cadence.StructInterfaceType:
			it.Initializers = inits
		case *cadence.ResourceInterfaceType:
			it.Initializers = inits
		case *cadence.ContractInterfaceType:
			it.Initializers = inits
		}
	}
	return u
}

func (g *G) initializers(fields []cadence.Field) [][]cadence.Parameter {
	switch g.weighted(3, 3, 1) {
	case 0:
		return nil
	case 1:
		// the usual shape: one initializer with one parameter per field
		ps := make([]cadence.Parameter, len(fields))
		for i, f := range fields {
			ps[i] = cadence.Parameter{Label: "", Identifier: f.Identifier, Type: f.Type}
		}
		return [][]cadence.Parameter{ps}
	default:
		// Cadence has no initializer overloading: at most one initializer
		n := 1
		out := make([][]cadence.Parameter, n)
		for i := range out {
			out[i] = g.parameters(1)
		}
		return out
	}
}

func (g *G) parameters(d int) []cadence.Parameter {
	n := g.weighted(2, 3, 2, 1)
	ids := g.distinctIdents(n)
	ps := make([]cadence.Parameter, n)
	for i := range ps {
		label := ""
		switch g.weighted(3, 1, 1) {
		case 1:
			label = "_"
		case 2:
			label = g.ident()
		}
		ps[i] = cadence.Parameter{Label: label, Identifier: ids[i], Type: g.Type(d)}
	}
	return ps
}

func (g *G) setInitializers(ct cadence.CompositeType, fields []cadence.Field) {
	inits := g.initializers(fields)
	switch t := ct.(type) {
	case *cadence.StructType:
		t.Initializers = inits
	case *cadence.ResourceType:
		t.Initializers = inits
	case *cadence.ContractType:
		t.Initializers = inits
	case *cadence.EnumType:
		t.Initializers = inits
	case *cadence.AttachmentType:
		t.Initializers = inits
	case *cadence.EventType:
		if len(inits) > 0 {
			t.Initializer = inits[0]
		}
	}
}

// ---- value types ---------------------------------------------------------------------------

// ValueType draws a type for which Value can build a conforming value.
func (g *G) ValueType(d int) cadence.Type { return g.valueType(d, len(g.U.Composites)) }

// valueType: lim is the number of composites that may be referenced *directly*
// (not below an optional / variable-sized array / dictionary), which keeps
// values of recursive types finite.
func (g *G) valueType(d int, lim int) cadence.Type {
	all := len(g.U.Composites)
	if d <= 0 {
		switch g.weighted(6, 2, 2) {
		case 0:
			return pick(g, SimpleValueTypes)
		case 1:
			return pick(g, AbstractTypes)
		default:
			return g.directComposite(lim)
		}
	}
	switch g.weighted(8, 3, 5, 4, 2, 4, 5, 2, 2, 1, 1, 3) {
	case 0:
		return pick(g, SimpleValueTypes)
	case 1:
		return pick(g, AbstractTypes)
	case 2:
		return cadence.NewOptionalType(g.valueType(d-1, all))
	case 3:
		return cadence.NewVariableSizedArrayType(g.valueType(d-1, all))
	case 4:
		return cadence.NewConstantSizedArrayType(uint(g.intn(4)), g.valueType(d-1, lim))
	case 5:
		return cadence.NewDictionaryType(g.hashableType(), g.valueType(d-1, all))
	case 6:
		return g.directComposite(lim)
	case 7:
		// the static type of a range value always has a concrete element type
		return cadence.NewInclusiveRangeType(pick(g, IntegerTypes))
	case 8:
		return cadence.NewCapabilityType(g.borrowType(d - 1))
	case 9:
		if g.Cfg.NoFunctionValues {
			return pick(g, SimpleValueTypes)
		}
		return g.FunctionType(d - 1)
	case 10:
		// reference as the static type of a position holding the referenced value
		return cadence.NewReferenceType(g.Authorization(), g.valueType(d-1, lim))
	default:
		// intersection as static type: needs a composite to stand in for the value
		if t := g.intersectionWithValue(lim); t != nil {
			return t
		}
		return pick(g, SimpleValueTypes)
	}
}

// directComposite picks one of the first lim composites (honouring
// NoAttachmentValues) or falls back to a simple type.
func (g *G) directComposite(lim int) cadence.Type {
	for i := 0; i < 4 && lim > 0; i++ {
		c := g.U.Composites[g.intn(lim)]
		if _, isAtt := c.(*cadence.AttachmentType); isAtt && g.Cfg.NoAttachmentValues {
			continue
		}
		return c
	}
	return pick(g, SimpleValueTypes)
}

func (g *G) rangeElementType() cadence.Type {
	if g.chance(1, 6) {
		return pick(g, []cadence.PrimitiveType{cadence.IntegerType, cadence.SignedIntegerType, cadence.FixedSizeUnsignedIntegerType})
	}
	return pick(g, IntegerTypes)
}

func (g *G) hashableType() cadence.Type {
	switch g.weighted(10, 1, 2, 3) {
	case 3:
		// abstract key types: keys of different concrete types / path domains in one dictionary
		return pick(g, []cadence.PrimitiveType{cadence.PathType, cadence.CapabilityPathType, cadence.PathType, cadence.SignedIntegerType,
			cadence.IntegerType, cadence.SignedNumberType, cadence.NumberType})
	case 1:
		return cadence.HashableStructType
	case 2:
		var enums []cadence.CompositeType
		for _, c := range g.U.Composites {
			if _, ok := c.(*cadence.EnumType); ok {
				enums = append(enums, c)
			}
		}
		if len(enums) > 0 {
			return pick(g, enums)
		}
	}
	return pick(g, HashableSimpleTypes)
}

// intersectionWithValue returns an intersection type over interfaces of the
// kind of some directly usable composite (struct or resource), or nil.
func (g *G) intersectionWithValue(lim int) cadence.Type {
	var structs, resources bool
	for i := 0; i < lim; i++ {
		switch g.U.Composites[i].(type) {
		case *cadence.StructType:
			structs = true
		case *cadence.ResourceType:
			resources = true
		}
	}
	var cands []cadence.Type
	for _, it := range g.U.Interfaces {
		switch it.(type) {
		case *cadence.StructInterfaceType:
			if structs {
				cands = append(cands, it)
			}
		case *cadence.ResourceInterfaceType:
			if resources && !structs {
				cands = append(cands, it)
			}
		}
	}
	if len(cands) == 0 {
		return nil
	}
	n := 1 + g.intn(len(cands))
	if n > 3 {
		n = 3
	}
	p := g.perm(len(cands))
	ts := make([]cadence.Type, n)
	for i := range ts {
		ts[i] = cands[p[i]]
	}
	return cadence.NewIntersectionType(ts)
}

// ---- arbitrary types (type values, borrow types, function types) ----------------------------

// Authorization draws an authorization of every form.
func (g *G) Authorization() cadence.Authorization {
	u := g.U
	switch g.weighted(4, 3, 2, 1) {
	case 1, 2:
		if len(u.Entitlements) == 0 {
			return cadence.UnauthorizedAccess
		}
		n := 1 + g.intn(len(u.Entitlements))
		p := g.perm(len(u.Entitlements))
		ids := make([]common.TypeID, n)
		for i := range ids {
			ids[i] = u.Entitlements[p[i]]
		}
		kind := cadence.Conjunction
		if n > 1 && g.chance(1, 3) {
			kind = cadence.Disjunction
		}
		return cadence.NewEntitlementSetAuthorization(nil, ids, kind)
	case 3:
		if len(u.Mappings) == 0 {
			return cadence.UnauthorizedAccess
		}
		return cadence.NewEntitlementMapAuthorization(nil, pick(g, u.Mappings))
	}
	return cadence.UnauthorizedAccess
}

func (g *G) borrowType(d int) cadence.Type {
	switch g.weighted(6, 1, 1) {
	case 1:
		return nil
	case 2:
		return g.Type(d)
	}
	return cadence.NewReferenceType(g.Authorization(), g.Type(d))
}

// ConstSizePool are the sizes drawn for constant-sized array types that only
// occur inside types (2^53+1 and beyond are not representable as a float64).
var ConstSizePool = []uint{0, 1, 2, 3, 10, 255, 1 << 32, 1 << 53, 1<<53 + 1, math.MaxInt64, math.MaxUint64}

// FunctionType draws a function type.
func (g *G) FunctionType(d int) *cadence.FunctionType {
	purity := cadence.FunctionPurityImpure
	if g.chance(1, 3) {
		purity = cadence.FunctionPurityView
	}
	var tps []cadence.TypeParameter
	if g.chance(1, 4) {
		n := 1 + g.intn(2)
		names := []string{"T", "U"}
		for i := 0; i < n; i++ {
			var bound cadence.Type
			if g.Cfg.NoUnboundedTypeParameters || g.chance(2, 3) {
				bound = g.Type(d - 1)
			}
			tps = append(tps, cadence.TypeParameter{Name: names[i], TypeBound: bound})
		}
	}
	return cadence.NewFunctionType(purity, tps, g.parameters(d-1), g.Type(d-1))
}

// Intersection draws an intersection type over 1-3 interfaces (any order), or
// nil when the universe has no interface.
func (g *G) Intersection() cadence.Type {
	u := g.U
	if len(u.Interfaces) == 0 {
		return nil
	}
	n := 1 + g.intn(len(u.Interfaces))
	if n > 3 {
		n = 3
	}
	p := g.perm(len(u.Interfaces))
	ts := make([]cadence.Type, n)
	for i := range ts {
		ts[i] = u.Interfaces[p[i]]
	}
	return cadence.NewIntersectionType(ts)
}

// Type draws any type (every kind of types.go that the current format versions
// can carry; the deprecated pre-1.0 kinds are not generated).
func (g *G) Type(d int) cadence.Type {
	u := g.U
	leaf := func() cadence.Type {
		switch g.weighted(6, 4, 2) {
		case 1:
			return u.Composites[g.intn(len(u.Composites))]
		case 2:
			if len(u.Interfaces) > 0 {
				return u.Interfaces[g.intn(len(u.Interfaces))]
			}
		}
		if g.chance(1, 40) {
			return cadence.TheBytesType
		}
		return pick(g, AllPrimitives)
	}
	if d <= 0 {
		return leaf()
	}
	switch g.weighted(8, 4, 3, 2, 3, 4, 4, 2, 2, 1) {
	case 0:
		return leaf()
	case 1:
		return cadence.NewOptionalType(g.Type(d - 1))
	case 2:
		return cadence.NewVariableSizedArrayType(g.Type(d - 1))
	case 3:
		var size uint
		if g.Cfg.SmallConstSizes {
			size = uint(g.intn(4))
		} else {
			size = pick(g, ConstSizePool)
		}
		return cadence.NewConstantSizedArrayType(size, g.Type(d-1))
	case 4:
		return cadence.NewDictionaryType(g.Type(d-1), g.Type(d-1))
	case 5:
		return cadence.NewReferenceType(g.Authorization(), g.Type(d-1))
	case 6:
		if t := g.Intersection(); t != nil {
			return t
		}
		return leaf()
	case 7:
		return cadence.NewCapabilityType(g.borrowType(d - 1))
	case 8:
		return g.FunctionType(d - 1)
	default:
		return cadence.NewInclusiveRangeType(g.rangeElementType()) // InclusiveRange<T: Integer>
	}
}
